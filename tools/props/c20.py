"""C20 — trainable-GBS and chemistry numerics are self-consistent."""
import glob
import itertools
import json
import math
import os
import warnings

warnings.filterwarnings("ignore")
import numpy as np  # noqa: E402
import networkx as nx  # noqa: E402
from scipy import constants as sc  # noqa: E402

from vlib import coq  # noqa: E402

import strawberryfields as sf  # noqa: E402
from strawberryfields.apps import similarity  # noqa: E402
from strawberryfields.apps.train import cost as tcost, embed as tembed, param as tparam  # noqa: E402
from strawberryfields.apps.qchem import dynamics, utils as qutils, vibronic  # noqa: E402
import thewalrus.quantum as twq  # noqa: E402

PROP = "C20"
LEVEL = "proof"
COQ_TARGETS = ["C20/Model.vo", "C20/Proofs.vo", "C20/Exec.vo"]
COQ_DIRS = ["C20"]
PROPERTIES_FILE = "Properties/C20.v"
# the standard library's axiomatisation of the real numbers (Reals / Coquelicot); Print Assumptions prints them without,
# coqchk with the Coq. prefix, and the runner also accepts the last path component
_REAL_AXIOMS = ["Reals.ClassicalDedekindReals.sig_not_dec", "Reals.ClassicalDedekindReals.sig_forall_dec",
                "Logic.FunctionalExtensionality.functional_extensionality_dep", "Logic.Classical_Prop.classic"]
ALLOWED_AXIOMS = set()
for _a in _REAL_AXIOMS:
    ALLOWED_AXIOMS |= {"Coq." + _a, _a.split(".", 1)[1], _a.split(".")[-1]}
RULE = ("case families: train = (symmetric matrix A of 2-4 modes from {0/1 graph, weighted with ties, signed, self-loops, "
        "disconnected, rank one}, n_mean, Exp or ExpFeatures embedding with a 1-4 column feature matrix, parameter vector incl. "
        "zeros/negatives, threshold flag, data set of photon/click patterns, cost function h); sim = (graph of 2-4 nodes, n_mean, "
        "loss, photon number, max count); dyn = (frequencies, time(s), orthogonal U_l, Gaussian or Fock input); vib = (w, w', "
        "Duschinsky matrix, displacement, temperature); dus = (normal modes L_i, L_f, geometries, masses, w_f); marg = (Gaussian "
        "state, n_max, hbar); smp = (sample_fock / sample_tmsv / sample_coherent arguments, valid or malformed); bad = malformed arguments; hist = a history of calls on ONE embedding / VGBS / KL / Stochastic instance with the parameter array updated in place, aliased, viewed or re-allocated and the sample store extended in between, each result compared with fresh objects at the current values.  Non-trivial = at least 2 modes and, per family: train: A(theta) has a "
        "non-zero off-diagonal entry and theta is not all zero; sim: loss > 0 or an orbit with a repeated part; dyn: t != 0 and "
        "non-degenerate frequencies; vib: w != w' ; dus: L_i != L_f; marg: correlated modes")
TRUSTED_BASE = [
    "Coq 8.16.1 kernel; the theorems are over the real numbers via Coquelicot: standard-library real-number axioms "
    "ClassicalDedekindReals.sig_forall_dec, sig_not_dec, FunctionalExtensionality.functional_extensionality_dep, Classical_Prop.classic",
    "hand-written model coq/C20/Model.v (polymorphic in the scalar type) of ExpFeatures.weights/jacobian, KL.grad/evaluate, "
    "Stochastic.h_reparametrized/_gradient_one_sample/grad/evaluate, VGBS.A/n_mean/mean_clicks_by_mode, TimeEvolution, duschinsky, "
    "the matrix handed to the SVD in gbs_params; executed at binary64 (coq/C20/Exec.v, vm_compute) against the implementation on "
    "generated cases with tolerance 1e-9; np.exp/np.sqrt/np.log/**(-0.5)/det values are named inputs computed by numpy in the harness",
    "Section hypothesis of C20_kl_chain / C20_stochastic_chain: the GBS score identity d/dtheta_j log Z = sum_k <n_k>/w_k dw_k/dtheta_j "
    "(proved here only for product states, C20_score_identity_product)",
    "not modelled (covered by the implementation-level search only): hafnians/torontonians and Gaussian-state conversions of The "
    "Walrus, numpy linear algebra (inv, det, svd), rescale_adjacency root finding; references used by the search: closed-form "
    "covariance (I+A)(I-A)^-1 of a pure GBS state, thewalrus.quantum.probabilities, finite differences, Bose-Einstein occupation, "
    "the Doktorov relation x' = Jx + delta",
    "harness: tools/props/c20.py, tools/vlib/*",
]
ASSUMPTIONS = [
    "finite differences (central, step 1e-5) approximate the derivative of the reported cost to 1e-6 relative",
    "Fock-space truncation tails of the low-energy states generated are bounded using the reference state's own truncated mass",
]
MANIFEST_TEXT = (
    "Proof (Coq, over R via Coquelicot, stdlib real axioms): full theorems C20_jacobian (ExpFeatures.jacobian is the derivative of "
    "weights, all shapes), C20_kl_chain and C20_stochastic_chain (KL.grad / Stochastic.grad are the partial derivatives of the "
    "reported costs in PNR mode for all feature matrices, data sets, parameters, given the GBS score identity at the point as an "
    "explicit hypothesis), C20_score_identity_product (that hypothesis holds for product states), C20_dynamics_passive/_modes/_group "
    "(TimeEvolution conserves every mode's photon number for all n, w, t, states; acts once on each mode; angles additive in t), "
    "C20_vibronic_gain_is_inverse, C20_orbit_click_ok and C20_sample_length (about the repaired code; *_old_refuted for the code before the fixes); C20_vibronic_gain_refuted for the open finding vibronic:squeeze-sign. "
    "_partial: the score identity for general A (C20_score_identity_statement), normalisation of probabilities, state/moment "
    "agreement, Duschinsky round trip and SVD are outside the theorems and covered by the implementation-level search "
    "(finite differences, closed-form reference states, differential torontonian-vs-hafnian, cross-module, Doktorov reference)."
)

HBAR = 2.0
TOL = 1e-8


# ======================================================================================
# helpers

def _f(x):
    return float(x)


def _close(a, b, tol=TOL):
    a, b = np.asarray(a, dtype=complex), np.asarray(b, dtype=complex)
    if a.shape != b.shape:
        return False
    if a.size == 0:
        return True
    if not (np.all(np.isfinite(a)) and np.all(np.isfinite(b))):
        return False
    scale = max(1.0, float(np.max(np.abs(a))), float(np.max(np.abs(b))))
    return bool(np.max(np.abs(a - b)) <= tol * scale)


def _lst(a):
    return np.asarray(a, dtype=float).tolist()


def _orth(rng, n, kind=None):
    """random real orthogonal n x n matrix built from the run's rng"""
    kind = kind or rng.choice(["haar", "haar", "perm", "identity", "givens", "rotation", "rotation"])
    if kind == "rotation" and n >= 2:
        # product of plane rotations by generic angles: orthogonal, determinant one, not symmetric
        g = np.eye(n)
        for i in range(n - 1):
            th = rng.choice([-1, 1]) * rng.uniform(0.3, 1.2)
            r = np.eye(n)
            r[i, i] = r[i + 1, i + 1] = math.cos(th)
            r[i, i + 1] = -math.sin(th)
            r[i + 1, i] = math.sin(th)
            g = g @ r
        return g
    if kind == "identity":
        return np.eye(n)
    if kind == "perm":
        p = list(range(n))
        rng.shuffle(p)
        return np.eye(n)[p]
    if kind == "givens" and n >= 2:
        i, j = rng.sample(range(n), 2)
        th = rng.uniform(-math.pi, math.pi)
        g = np.eye(n)
        g[i, i] = g[j, j] = math.cos(th)
        g[i, j] = -math.sin(th)
        g[j, i] = math.sin(th)
        return g
    m = np.array([[rng.gauss(0, 1) for _ in range(n)] for _ in range(n)])
    q, r = np.linalg.qr(m)
    return q * np.sign(np.diag(r))


def gbs_cov(A, loss=0.0):
    """closed-form xp covariance (hbar=2) of the pure GBS state with real symmetric matrix A
    (Sgate convention: single-mode squeezed vacuum has A = -tanh r), followed by uniform loss"""
    n = len(A)
    I = np.eye(n)
    xx = (I + A) @ np.linalg.inv(I - A)
    pp = (I - A) @ np.linalg.inv(I + A)
    cov = (HBAR / 2) * np.block([[xx, np.zeros((n, n))], [np.zeros((n, n)), pp]])
    T = 1.0 - loss
    return T * cov + (1 - T) * (HBAR / 2) * np.eye(2 * n)


def ref_table(cov, cut, mu=None, hbar=HBAR):
    n = len(cov) // 2
    mu = np.zeros(2 * n) if mu is None else mu
    return np.real(twq.probabilities(mu, cov, cut, hbar=hbar))


def ref_mean_photons(cov, mu=None):
    n = len(cov) // 2
    mu = np.zeros(2 * n) if mu is None else np.asarray(mu)
    return np.array([(cov[k, k] + cov[k + n, k + n] + mu[k] ** 2 + mu[k + n] ** 2) / (2 * HBAR) - 0.5 for k in range(n)])


def partitions(n, maxpart=None):
    maxpart = n if maxpart is None else maxpart
    if n == 0:
        yield []
        return
    for k in range(min(n, maxpart), 0, -1):
        for rest in partitions(n - k, k):
            yield [k] + rest


# ======================================================================================
# generators

GRIDW = [1.0, 1.0, 0.5, 0.25, 2.0]


def gen_A(rng, n):
    kind = rng.choice(["graph", "graph", "weighted", "signed", "loops", "block", "rank1"])
    A = np.zeros((n, n))
    if kind in ("graph", "weighted", "loops"):
        for i in range(n):
            for j in range(i + 1, n):
                if rng.random() < 0.7:
                    A[i, j] = A[j, i] = 1.0 if kind == "graph" else rng.choice(GRIDW)
        if kind == "loops":
            for i in range(n):
                if rng.random() < 0.6:
                    A[i, i] = rng.choice(GRIDW)
    elif kind == "signed":
        for i in range(n):
            for j in range(i, n):
                A[i, j] = A[j, i] = round(rng.uniform(-1, 1), 3)
    elif kind == "block":
        A[0, 1] = A[1, 0] = 1.0
        for i in range(2, n):
            A[i, i] = rng.choice(GRIDW)
    elif kind == "rank1":
        v = np.array([rng.choice([1.0, 0.5, -1.0, 2.0]) for _ in range(n)])
        A = np.outer(v, v)
    if not np.any(A):
        A[0, n - 1] = A[n - 1, 0] = 1.0
        if n == 1:
            A[0, 0] = 1.0
    return kind, A


def gen_train(rng, big=False):
    n = rng.choice([2, 2, 3, 3, 4] if big else [2, 2, 3])
    kindA, A = gen_A(rng, n)
    threshold = rng.random() < 0.4
    n_mean = round(rng.uniform(0.15, 0.9 if not threshold else 0.6) * (1 if n < 4 else 0.7), 3)
    if rng.random() < 0.45:
        emb = {"kind": "exp"}
        d = n
        F = np.eye(n)
    else:
        d = rng.choice([1, 2, 3, 4])
        F = np.array([[rng.choice([0.0, 1.0, -0.5, 0.5, 2.0]) if rng.random() < 0.5 else round(rng.gauss(0, 1), 3) for _ in range(d)] for _ in range(n)])
        emb = {"kind": "feat", "F": _lst(F)}
    # the trained matrix W A W must still describe a state: singular values below one (with margin)
    try:
        A0 = tparam.rescale_adjacency(A, n_mean, threshold)
    except Exception:  # noqa: BLE001
        A0 = None
    for _ in range(20):
        theta = np.array([rng.choice([0.0, 0.1, -0.1, 0.5]) if rng.random() < 0.4 else round(rng.uniform(-0.4, 0.9), 3) for _ in range(d)])
        w = np.exp(-F @ theta)
        if np.max(w) < 1.6 and np.min(w) > 0.15 and A0 is not None and np.linalg.norm(np.sqrt(np.outer(w, w)) * A0, 2) < 0.92:
            break
    else:
        theta = np.zeros(d)
    # cost function h(s) = c0 + sum c_k s_k + q s_0 s_{n-1}
    h = [round(rng.uniform(-1, 1), 2), [round(rng.uniform(-2, 2), 2) for _ in range(n)], rng.choice([0.0, 0.5, -1.0])]
    case = {"family": "train", "kindA": kindA, "A": _lst(A), "n_mean": n_mean, "threshold": threshold, "emb": emb,
            "theta": _lst(theta), "h": h, "data_seed": rng.randrange(10 ** 6), "T": rng.choice([1, 2, 3, 5])}
    return case


def gen_sim(rng):
    n = rng.choice([2, 3, 3, 4])
    edges = [[i, j] for i in range(n) for j in range(i + 1, n) if rng.random() < 0.7]
    if not edges:
        edges = [[0, n - 1]]
    photons = rng.choice([0, 1, 2, 2, 3, 4, 4, 5])
    return {"family": "sim", "n": n, "edges": edges, "n_mean": round(rng.uniform(0.3, 2.5), 3),
            "loss": rng.choice([0.0, 0.0, 0.3, 0.75, 1.0]), "photons": photons, "max": rng.choice([1, 2, 2, 3, photons + 1])}


def gen_dyn(rng):
    n = rng.choice([1, 2, 2, 3, 4])
    w = [rng.choice([3914.92, 3787.59, 1000.0, 500.0]) if rng.random() < 0.4 else round(rng.uniform(100, 4000), 2) for _ in range(n)]
    t = rng.choice([0.0, 1.0, 10.0, -3.0]) if rng.random() < 0.4 else round(rng.uniform(0, 60), 3)
    Ul = _orth(rng, n)
    alpha = [[round(rng.uniform(0, 1.2), 3), round(rng.uniform(-3.1, 3.1), 3)] for _ in range(n)]
    sq = [rng.choice([0.0, 0.0, 0.3, -0.4]) for _ in range(n)]
    fock = [rng.choice([0, 0, 1, 2]) for _ in range(n)] if n <= 2 else None
    return {"family": "dyn", "w": w, "t": t, "t2": round(rng.uniform(-20, 20), 3), "Ul": _lst(Ul), "alpha": alpha, "sq": sq, "fock": fock}


def gen_vib(rng):
    n = rng.choice([1, 2, 2, 3])
    w = [round(rng.uniform(300, 4000), 2) for _ in range(n)]
    same = rng.random() < 0.15
    wp = list(w) if same else [round(x * rng.uniform(0.6, 1.5), 2) for x in w]
    Ud = _orth(rng, n)
    if rng.random() < 0.3:  # real Duschinsky matrices are only approximately orthogonal
        Ud = Ud + np.array([[round(rng.gauss(0, 0.02), 4) for _ in range(n)] for _ in range(n)])
    delta = [rng.choice([0.0, 0.5, -1.0]) if rng.random() < 0.4 else round(rng.uniform(-1.5, 1.5), 3) for _ in range(n)]
    T = rng.choice([0.0, 0.0, 300.0, 750.0, 5.0, 1.0])
    tmix = None
    if n >= 2 and rng.random() < 0.5:  # user-supplied two-mode squeezing with some exact zeros
        tmix = [rng.choice([0.0, 0.2, 0.35]) for _ in range(n)]
    return {"family": "vib", "w": w, "wp": wp, "Ud": _lst(Ud), "delta": delta, "T": T, "tmix": tmix, "np_seed": rng.randrange(10 ** 6)}


def gen_dus(rng):
    atoms = rng.choice([2, 3])
    dim = 3 * atoms
    M = rng.randrange(1, dim - 4)
    Li = _orth(rng, dim, "haar")[:, :M]
    Lf = Li.copy() if rng.random() < 0.15 else _orth(rng, dim, "haar")[:, :M]
    masses = [rng.choice([1.0078, 12.0, 11.0093, 15.9949, 6.941]) for _ in range(atoms)]
    m = [x for x in masses for _ in range(3)]
    ri = [round(rng.uniform(-1.5, 1.5), 4) for _ in range(dim)]
    rf = [round(x + rng.uniform(-0.2, 0.2), 4) for x in ri]
    wf = [round(rng.uniform(200, 4000), 2) for _ in range(M)]
    c = [round(rng.uniform(-1, 1), 3) for _ in range(M)]
    return {"family": "dus", "Li": _lst(Li), "Lf": _lst(Lf), "ri": ri, "rf": rf, "wf": wf, "m": m, "c": c}


def gen_marg(rng):
    n = rng.choice([1, 2, 2, 3])
    cmds = []
    for i in range(n):
        if rng.random() < 0.8:
            cmds.append(["S", [round(rng.uniform(-0.5, 0.5), 3), round(rng.uniform(-3, 3), 3)], [i]])
        if rng.random() < 0.7:
            cmds.append(["D", [round(rng.uniform(0, 0.8), 3), round(rng.uniform(-3, 3), 3)], [i]])
    for _ in range(rng.randrange(0, 3) if n > 1 else 0):
        i, j = rng.sample(range(n), 2)
        cmds.append(["BS", [round(rng.uniform(-1.5, 1.5), 3), round(rng.uniform(-3, 3), 3)], [i, j]])
    if rng.random() < 0.3:
        cmds.append(["L", [rng.choice([0.5, 0.9])], [rng.randrange(n)]])
    return {"family": "marg", "n": n, "cmds": cmds, "n_max": rng.choice([1, 3, 6, 10]), "hbar": rng.choice([2.0, 1.0, 0.5, 1.7])}


def gen_bad(rng):
    kind = rng.choice(["embed-dim", "vgbs-asym", "samples-shape", "T-negative", "marg-shape", "marg-nmax", "orbit-nmean", "event-neg"])
    return {"family": "bad", "kind": kind, "n": rng.choice([2, 3]), "x": round(rng.uniform(0.1, 1.0), 3)}


def gen_smp(rng):
    kind = rng.choice(["fock", "tmsv", "coherent"])
    n = rng.choice([1, 2, 2])
    bad = rng.choice([None, None, None, None, "complex-Ul", "n_samples", "length"] + (["negative", "cutoff", "negative", "cutoff"] if kind == "fock" else []))
    case = {"family": "smp", "kind": kind, "bad": bad, "n": n, "Ul": _lst(_orth(rng, n, rng.choice(["rotation", "rotation", "haar", "perm", "identity"]))),
            "w": [round(rng.uniform(300, 4000), 2) for _ in range(n)], "t": round(rng.uniform(0, 40), 3),
            "loss": rng.choice([0.0, 0.0, 0.0, 1.0, 0.4, 0.4]), "n_samples": rng.choice([1, 2, 3]), "np_seed": rng.randrange(10 ** 6)}
    if kind == "fock":
        st = [rng.choice([0, 1, 1, 2]) for _ in range(n)]
        case["input"] = st
        case["cutoff"] = sum(st) + rng.choice([1, 2])
    elif kind == "tmsv":
        case["input"] = [[rng.choice([0.0, 0.3, 0.5]), round(rng.uniform(-3, 3), 2)] for _ in range(n)]
    else:
        case["input"] = [[rng.choice([0.0, 0.4, 0.8]), round(rng.uniform(-3, 3), 2)] for _ in range(n)]
    return case


GENS = {"smp": gen_smp, "train": gen_train, "sim": gen_sim, "dyn": gen_dyn, "vib": gen_vib, "dus": gen_dus, "marg": gen_marg, "bad": gen_bad}


def nontrivial(case):
    f = case["family"]
    if f == "train":
        A = np.array(case["A"])
        return len(A) >= 2 and bool(np.any(A - np.diag(np.diag(A)))) and any(case["theta"])
    if f == "sim":
        return case["loss"] > 0 or case["photons"] >= 3
    if f == "dyn":
        return len(case["w"]) >= 2 and case["t"] != 0 and len(set(case["w"])) > 1
    if f == "vib":
        return len(case["w"]) >= 2 and case["w"] != case["wp"]
    if f == "dus":
        return case["Li"] != case["Lf"]
    if f == "marg":
        return case["n"] >= 2 and any(c[0] == "BS" for c in case["cmds"])
    if f == "orb":
        return len(case["orbit"]) >= case["modes"]
    if f == "dim":
        return case["d"] != case["len"]
    if f == "hist":
        return any(st["op"] == "update" and st["how"] in ("isub", "setitem", "slice", "clip", "imul", "fill_back") for st in case["steps"])
    if f == "smp":
        return case["n"] >= 2 and not case["bad"] and case["loss"] in (0.0, 1.0)
    return False


# ======================================================================================
# the property's predicates, evaluated on the implementation.  Each returns a list of
# (signature, what) — empty when the property holds on the case.

def make_embedding(case):
    e = case["emb"]
    n = len(case["A"])
    if e["kind"] == "exp":
        return tembed.Exp(n), np.eye(n)
    F = np.array(e["F"], dtype=float)
    return tembed.ExpFeatures(F), F


def make_h(case):
    c0, ck, q = case["h"]

    def h(s):
        s = np.asarray(s, dtype=float)
        return float(c0 + np.dot(ck, s) + q * s[0] * s[-1])

    return h


def train_setup(case):
    """Build the objects of a train case; data are drawn deterministically from the reference tables."""
    A = np.array(case["A"], dtype=float)
    n = len(A)
    emb, F = make_embedding(case)
    theta = np.array(case["theta"], dtype=float)
    vg = tparam.VGBS(A, case["n_mean"], emb, case["threshold"])
    cut = {1: 12, 2: 9, 3: 6, 4: 4}[n]
    w = np.exp(-F @ theta)
    Ath_ref = np.sqrt(np.outer(w, w)) * vg.A_init
    cov = gbs_cov(Ath_ref)
    table = ref_table(cov, cut)
    # data: patterns of sufficient probability under the reference (photon patterns, or click patterns in threshold mode)
    import random as _r
    r2 = _r.Random(case["data_seed"])
    if case["threshold"]:
        allp = list(itertools.product(range(cut), repeat=n))
        pats = [c for c in itertools.product([0, 1], repeat=n)
                if sum(table[p] for p in allp if tuple(1 if x else 0 for x in p) == c) > 1e-7]
    else:
        pats = [p for p in itertools.product(range(min(cut, 4)), repeat=n) if sum(p) <= 4 and table[p] > 1e-7]
    if not pats:
        pats = [tuple([0] * n)]
    data = np.array([list(r2.choice(pats)) for _ in range(case["T"])], dtype=int)
    return dict(A=A, n=n, emb=emb, F=F, theta=theta, vg=vg, cut=cut, w=w, Ath_ref=Ath_ref, cov=cov, table=table, data=data)


def fd_grad(fn, theta, eps=1e-5):
    g = np.zeros(len(theta))
    for j in range(len(theta)):
        e = np.zeros(len(theta))
        e[j] = eps
        g[j] = (fn(theta + e) - fn(theta - e)) / (2 * eps)
    return g


def check_train(case):
    out = []
    try:
        S = train_setup(case)
    except Exception as e:  # noqa: BLE001
        return [("train:setup-raises:" + type(e).__name__, "building VGBS/embedding for a valid input raised %r" % (e,))]
    vg, n, theta, cut, table, cov, data = S["vg"], S["n"], S["theta"], S["cut"], S["table"], S["cov"], S["data"]
    thr = case["threshold"]
    Ath = vg.A(theta)
    # --- WAW parametrisation
    if not _close(Ath, S["Ath_ref"], 1e-10):
        out.append(("vgbs:A-not-WAW", "VGBS.A(theta) differs from sqrt(w_i w_j) A_ij"))
        return out
    if not _close(Ath, Ath.T, 1e-12):
        out.append(("vgbs:A-not-symmetric", "VGBS.A(theta) is not symmetric"))
    dth = len(theta)
    shp = {"weights": (np.shape(S["emb"].weights(theta)), (n,)), "jacobian": (np.shape(S["emb"].jacobian(theta)), (n, dth)),
           "W": (np.shape(vg.W(theta)), (n, n)), "A": (np.shape(Ath), (n, n)),
           "mean_photons_by_mode": (np.shape(vg.mean_photons_by_mode(theta)), (n,)), "mean_clicks_by_mode": (np.shape(vg.mean_clicks_by_mode(theta)), (n,)),
           "n_mean": (np.shape(vg.n_mean(theta)), ()), "A_to_cov": (np.shape(tparam.A_to_cov(Ath)), (2 * n, 2 * n))}
    badshape = {k_: v_ for k_, v_ in shp.items() if v_[0] != v_[1]}
    if badshape:
        out.append(("vgbs:shape", "wrong result shapes (got, expected): %r" % (badshape,)))
        return out
    # --- rescaling contract: n_mean at w = 1 is the requested one
    zero = np.zeros(len(theta))
    if not _close(vg.n_mean(zero), case["n_mean"], 1e-6):
        out.append(("vgbs:rescale-n_mean", "n_mean(theta=0) = %r but %r was requested (threshold=%s)" % (_f(vg.n_mean(zero)), case["n_mean"], thr)))
    # --- photon statistics against the reference state
    mp = vg.mean_photons_by_mode(theta)
    if not _close(mp, ref_mean_photons(cov), 1e-8):
        out.append(("vgbs:mean-photons-vs-state", "mean_photons_by_mode %r vs closed-form state %r" % (_lst(mp), _lst(ref_mean_photons(cov)))))
    if not _close(vg.n_mean(theta), np.sum(vg.mean_clicks_by_mode(theta) if thr else mp), 1e-10):
        out.append(("vgbs:n_mean-sum", "n_mean is not the sum of the per-mode means"))
    pats = list(itertools.product(range(cut), repeat=n))
    impl = np.zeros([cut] * n)
    for p in pats:
        impl[p] = tparam.prob_photon_sample(Ath, np.array(p))
    if not _close(impl, table, 1e-9):
        bad = max(pats, key=lambda p: abs(impl[p] - table[p]))
        out.append(("vgbs:prob-photon-vs-state", "prob_photon_sample%r = %r, reference state gives %r" % (bad, _f(impl[bad]), _f(table[bad]))))
    tot, rtot = float(np.sum(impl)), float(np.sum(table))
    if tot > 1 + 1e-9 or tot < rtot - 1e-7 or np.any(impl < -1e-12):
        out.append(("vgbs:prob-photon-normalised", "sum of prob_photon_sample over %d^%d patterns is %r (reference mass %r)" % (cut, n, tot, rtot)))
    tail = max(0.0, 1 - rtot)
    mom = np.array([sum(p[k] * impl[p] for p in pats) for k in range(n)])
    rmom = np.array([sum(p[k] * table[p] for p in pats) for k in range(n)])
    tailm = np.maximum(ref_mean_photons(cov) - rmom, 0)
    if np.any(mom > mp + 1e-8) or np.any(mom < mp - tailm - 1e-7):
        out.append(("vgbs:mean-photons-vs-probs", "sum_s s_k P(s) = %r vs mean_photons_by_mode %r" % (_lst(mom), _lst(mp))))
    if not thr and not _close(vg.prob_sample(theta, np.array(pats[-1])), impl[pats[-1]], 1e-12):
        out.append(("vgbs:prob_sample-dispatch", "prob_sample (PNR) differs from prob_photon_sample"))
    # --- click statistics
    cl = {c: _f(np.real(tparam.prob_click(Ath, np.array(c)))) for c in itertools.product([0, 1], repeat=n)}
    if abs(sum(cl.values()) - 1) > 1e-9 or min(cl.values()) < -1e-12:
        out.append(("vgbs:prob-click-normalised", "sum of prob_click over all %d click patterns = %r" % (2 ** n, sum(cl.values()))))
    for c in cl:
        lo = sum(table[p] for p in pats if tuple(1 if x else 0 for x in p) == c)
        if cl[c] < lo - 1e-8 or cl[c] > lo + tail + 1e-8:
            out.append(("vgbs:prob-click-vs-state", "prob_click%r = %r, reference state gives [%r, %r]" % (c, cl[c], lo, lo + tail)))
            break
    mc = vg.mean_clicks_by_mode(theta)
    mc_ref = np.array([sum(c[k] * cl[c] for c in cl) for k in range(n)])
    if not _close(mc, mc_ref, 1e-8):
        out.append(("vgbs:mean-clicks-vs-probs", "mean_clicks_by_mode %r vs sum_c c_k prob_click(c) %r" % (_lst(mc), _lst(mc_ref))))
    mc_ref2 = np.array([1 - sum(table[p] for p in pats if p[k] == 0) for k in range(n)])
    if np.any(mc < mc_ref2 - tail - 1e-7) or np.any(mc > mc_ref2 + 1e-7):
        out.append(("vgbs:mean-clicks-vs-state", "mean_clicks_by_mode %r vs reference state %r" % (_lst(mc), _lst(mc_ref2))))
    if thr and not _close(vg.prob_sample(theta, np.array(list(cl)[-1])), cl[list(cl)[-1]], 1e-12):
        out.append(("vgbs:prob_sample-dispatch", "prob_sample (threshold) differs from prob_click"))
    # --- sampling: the sampler is handed the state of the matrix it is asked about, the right detector model, shots, hbar
    import thewalrus.samples as tws
    calls = []
    orig_h, orig_t = tws.hafnian_sample_state, tws.torontonian_sample_state

    def fake(kind):
        def f(cov_, n_samples, *a, **kw):
            calls.append((kind, np.array(cov_), n_samples, a, dict(kw)))
            return np.full((n_samples, n), 7 if kind == "haf" else 1, dtype=int)
        return f

    tws.hafnian_sample_state, tws.torontonian_sample_state = fake("haf"), fake("tor")
    try:
        got = np.asarray(vg.generate_samples(Ath, 3))
        vgs = tparam.VGBS(S["A"], case["n_mean"], S["emb"], thr, samples=data[:1])
        got2 = np.asarray(vgs.get_A_init_samples(3))
        got3 = np.asarray(vgs.get_A_init_samples(2))
        vg0 = tparam.VGBS(S["A"], case["n_mean"], S["emb"], thr)
        got4 = np.asarray(vg0.get_A_init_samples(2))
        got5 = np.asarray(vg0.get_A_init_samples(1))
    except Exception as e:  # noqa: BLE001
        got = None
        out.append(("vgbs:generate-samples:raises:" + type(e).__name__, "generate_samples / get_A_init_samples raised %r" % (e,)))
    finally:
        tws.hafnian_sample_state, tws.torontonian_sample_state = orig_h, orig_t
    if got is not None:
        want_kind = "tor" if thr else "haf"
        fill = 1 if thr else 7
        if len(calls) != 3 or calls[2][2] != 2 or got4.shape != (2, n) or not np.all(got4 == fill) or got5.shape != (1, n) or not np.all(got5 == fill):
            out.append(("vgbs:sample-store", "a VGBS without stored samples asked for 2 then 1 samples: sampler calls %r, returned shapes %r %r" % ([(c[0], c[2]) for c in calls], got4.shape, got5.shape)))
        calls = calls[:2]
        ok_calls = (len(calls) == 2 and all(c[0] == want_kind for c in calls) and calls[0][2] == 3 and calls[1][2] == 2
                    and all(c[4].get("hbar", c[3][0] if c[3] else None) == sf.hbar for c in calls))
        if not ok_calls:
            out.append(("vgbs:generate-samples:dispatch", "sampler calls (kind, shots, kwargs) = %r for threshold=%s: expected %s with 3 then 2 shots and hbar=%r"
                        % ([(c[0], c[2], c[4]) for c in calls], thr, want_kind, sf.hbar)))
        else:
            t1 = ref_table(calls[0][1], min(cut, 5), hbar=sf.hbar)
            t2 = ref_table(calls[1][1], min(cut, 5), hbar=sf.hbar)
            if not _close(t1, ref_table(cov, min(cut, 5)), 1e-8) or not _close(t2, ref_table(gbs_cov(vg.A_init), min(cut, 5)), 1e-8):
                out.append(("vgbs:generate-samples:state", "the covariance handed to the sampler does not have the photon statistics of the requested matrix"))
            exp2 = np.vstack([data[:1], np.full((2, n), 1 if thr else 7, dtype=int)])
            if got.shape != (3, n) or got2.shape != (3, n) or not np.array_equal(got2, exp2) or not np.array_equal(got3, exp2[:2]):
                out.append(("vgbs:sample-store", "get_A_init_samples(3) with one stored sample returned %r (expected the stored row followed by 2 new ones), then get(2) returned %r" % (got2.tolist(), got3.tolist())))
    # static helpers are pure
    pure_call(out, "prob_photon_sample", tparam.prob_photon_sample, Ath, np.array(pats[1]))
    pure_call(out, "prob_click", tparam.prob_click, Ath, np.array([1] + [0] * (n - 1)))
    pure_call(out, "A_to_cov", tparam.A_to_cov, Ath)
    pure_call(out, "rescale_adjacency", tparam.rescale_adjacency, S["A"], case["n_mean"], thr)
    # --- KL cost and gradient
    kl = tcost.KL(data, vg)
    if not _res_close(kl(theta), kl.evaluate(theta), 1e-12):
        out.append(("kl:call", "KL.__call__ differs from KL.evaluate"))
    ref_p = [cl[tuple(s)] if thr else table[tuple(s)] for s in data.tolist()]
    ref_logs = [math.log(x) if x > 0 else -math.inf for x in ref_p]
    if all(math.isfinite(x) for x in ref_logs):
        ev = kl.evaluate(theta)
        if not _close(ev, -np.mean(ref_logs), 1e-6):
            out.append(("kl:evaluate-vs-state", "KL.evaluate = %r, -mean log P_reference = %r" % (_f(ev), _f(-np.mean(ref_logs)))))
        if np.shape(kl.grad(theta)) != (dth,):
            out.append(("kl:grad-shape", "KL.grad has shape %r for %d parameters" % (np.shape(kl.grad(theta)), dth)))
        elif not thr:
            g = kl.grad(theta)
            fd = fd_grad(kl.evaluate, theta)
            if not _close(g, fd, 2e-6):
                out.append(("kl:grad-vs-fd", "KL.grad = %r but finite differences of KL.evaluate give %r" % (_lst(g), _lst(fd))))
    # --- Stochastic cost and gradient on a fixed sample set (PNR: the formula is exact)
    if not thr:
        h = make_h(case)
        vg2 = tparam.VGBS(S["A"], case["n_mean"], S["emb"], False, samples=data)
        st = tcost.Stochastic(h, vg2)
        N = len(data)
        g = st.grad(theta, N)
        fd = fd_grad(lambda th: st.evaluate(th, N), theta)
        if not _close(g, fd, 2e-6):
            out.append(("stochastic:grad-vs-fd", "Stochastic.grad = %r but finite differences of Stochastic.evaluate give %r" % (_lst(g), _lst(fd))))
        # reparametrisation identity: h(s,theta) P_init(s) = h(s) P_theta(s)
        for s in data[:3]:
            lhs = st.h_reparametrized(s, theta) * tparam.prob_photon_sample(vg2.A_init, s)
            rhs = h(s) * table[tuple(s)]
            if not _close(lhs, rhs, 1e-9):
                out.append(("stochastic:reparam-identity", "h(s,theta) P_init(s) = %r but h(s) P_theta(s) = %r for s=%r" % (_f(lhs), _f(rhs), s.tolist())))
                break
        # history: samples added in several steps are one fixed set, reused (not regenerated) by evaluate and grad
        if N >= 2:
            vg3 = tparam.VGBS(S["A"], case["n_mean"], S["emb"], False, samples=data[:1])
            vg3.add_A_init_samples(data[1:])
            gen_calls = []
            vg3.generate_samples = lambda A_, n_, **kw: (gen_calls.append(n_), np.zeros((n_, n), dtype=int))[1]
            got = np.asarray(vg3.get_A_init_samples(N))
            got1 = np.asarray(vg3.get_A_init_samples(1))
            if gen_calls or got.shape != data.shape or not np.array_equal(got, data) or not np.array_equal(got1, data[:1]):
                out.append(("vgbs:sample-store", "samples stored in two steps (1 + %d rows) are not returned as one fixed set by get_A_init_samples (new samples generated: %r)" % (N - 1, gen_calls)))
            else:
                st3 = tcost.Stochastic(h, vg3)
                if not (_close(st3.grad(theta, N), g, 1e-12) and _close(st3.evaluate(theta, N), st.evaluate(theta, N), 1e-12)):
                    out.append(("vgbs:sample-store", "cost/gradient differ between samples pre-loaded at once and added in two steps"))
        # fewer samples than stored: cost and gradient use the same first n samples
        if N >= 2:
            m_ = N - 1
            vgm = tparam.VGBS(S["A"], case["n_mean"], S["emb"], False, samples=data[:m_])
            stm = tcost.Stochastic(h, vgm)
            if not (_close(st.grad(theta, m_), stm.grad(theta, m_), 1e-10) and _close(st.evaluate(theta, m_), stm.evaluate(theta, m_), 1e-10)):
                out.append(("stochastic:first-n-samples", "with %d stored samples, evaluate/grad(theta, %d) differ from an object holding only the first %d samples" % (N, m_, m_)))
        if not _res_close(st(theta, N), st.evaluate(theta, N), 1e-12):
            out.append(("stochastic:call", "Stochastic.__call__ differs from Stochastic.evaluate"))
        if not _close(st.evaluate(theta, N), np.mean([st.h_reparametrized(s, theta) for s in data]), 1e-12):
            out.append(("stochastic:evaluate-mean", "Stochastic.evaluate is not the mean of h_reparametrized over the stored samples"))
    return out


def check_sim(case):
    out = []
    n = case["n"]
    g = nx.Graph()
    g.add_nodes_from(range(n))
    g.add_edges_from([tuple(e) for e in case["edges"]])
    A = nx.to_numpy_array(g)
    N, mc, loss, nm = case["photons"], case["max"], case["loss"], case["n_mean"]
    As = tparam.rescale_adjacency(A, nm, False)
    table = ref_table(gbs_cov(As, loss), N + 1)
    pats = [p for p in itertools.product(range(N + 1), repeat=n) if sum(p) == N]
    ev_expected = 0.0
    for orbit in partitions(N):
        exp_p = sum(table[p] for p in pats if sorted([x for x in p if x], reverse=True) == orbit)
        if max(orbit, default=0) <= mc:
            ev_expected += exp_p
        arg = list(orbit) if orbit else [0]
        try:
            got = similarity.prob_orbit_exact(g, arg, n_mean=nm, loss=loss)
        except Exception as e:  # noqa: BLE001
            if len(orbit) > n:
                continue  # reported once, at event level, below
            out.append(("similarity:orbit-raises:" + type(e).__name__, "prob_orbit_exact(%r) raised %r" % (orbit, e)))
            continue
        if not _close(got, exp_p, 1e-8):
            out.append(("similarity:orbit-prob", "prob_orbit_exact(%r) = %r, reference state gives %r" % (orbit, _f(got), _f(exp_p))))
            break
    # feature vectors with exact probabilities are the lists of the exact orbit / event probabilities, in order
    orbs = [o for o in partitions(N) if o and len(o) <= n][:3]
    if orbs:
        exp_fv = [sum(table[p] for p in pats if sorted([x for x in p if x], reverse=True) == o) for o in orbs]
        try:
            fv = pure_call(out, "feature_vector_orbits", similarity.feature_vector_orbits, g, [list(o) for o in orbs], nm, None, loss)
            if not _close(np.array(fv, dtype=float), exp_fv, 1e-8):
                out.append(("similarity:feature-vector-orbits", "feature_vector_orbits(%r) = %r, reference %r" % (orbs, fv, exp_fv)))
        except Exception as e:  # noqa: BLE001
            out.append(("similarity:feature-vector-orbits:raises:" + type(e).__name__, "feature_vector_orbits raised %r" % (e,)))
        if len(case["edges"]) == n * (n - 1) // 2:
            # complete graph: the state is permutation symmetric, so the Monte Carlo orbit estimate is exact for any draws
            try:
                mcp = similarity.prob_orbit_mc(g, list(orbs[0]), n_mean=nm, samples=3, loss=loss)
                if not _close(mcp, exp_fv[0], 1e-8):
                    out.append(("similarity:orbit-mc", "prob_orbit_mc(%r) on a complete graph = %r, exact %r" % (orbs[0], _f(mcp), exp_fv[0])))
            except Exception as e:  # noqa: BLE001
                out.append(("similarity:orbit-mc:raises:" + type(e).__name__, "prob_orbit_mc raised %r" % (e,)))
    if not any(len(o) > n and max(o) <= mc for o in partitions(N)) or True:
        evs = sorted({N, max(N - 1, 0), max(N - 2, 0)})
        exp_ev = []
        for M_ in evs:
            tab = ref_table(gbs_cov(As, loss), M_ + 1)
            exp_ev.append(sum(tab[p] for p in itertools.product(range(M_ + 1), repeat=n) if sum(p) == M_ and max(p) <= mc))
        try:
            fe = pure_call(out, "feature_vector_events", similarity.feature_vector_events, g, list(evs), mc, nm, None, loss)
            if not _close(np.array(fe, dtype=float), exp_ev, 1e-8):
                out.append(("similarity:feature-vector-events", "feature_vector_events(%r, max %d) = %r, reference %r" % (evs, mc, fe, exp_ev)))
        except Exception as e:  # noqa: BLE001
            out.append(("similarity:feature-vector-events:raises:" + type(e).__name__, "feature_vector_events raised %r" % (e,)))
    try:
        got = pure_call(out, "prob_event_exact", similarity.prob_event_exact, g, N, mc, nm, loss)
        if not _close(got, ev_expected, 1e-8):
            out.append(("similarity:event-prob", "prob_event_exact(%d, %d) = %r, reference state gives %r" % (N, mc, _f(got), _f(ev_expected))))
    except Exception as e:  # noqa: BLE001
        longer = any(len(o) > n and max(o) <= mc for o in partitions(N))
        if longer and isinstance(e, ValueError):
            out.append(("similarity:event-orbit-longer-than-modes",
                        "prob_event_exact(graph of %d nodes, %d photons, max %d per mode) raises ValueError (an orbit with more parts than modes is handed to fock_prob) instead of returning %r" % (n, N, mc, _f(ev_expected))))
        else:
            out.append(("similarity:event-raises:" + type(e).__name__, "prob_event_exact raised %r" % (e,)))
    return out


def _run_gauss(prog):
    eng = sf.Engine("gaussian")
    return eng.run(prog).state


def _dyn_prog(case, what):
    n = len(case["w"])
    w = np.array(case["w"])
    Ul = np.array(case["Ul"])
    prog = sf.Program(n)
    with prog.context as q:
        for i in range(n):
            if case["sq"][i]:
                sf.ops.Sgate(case["sq"][i]) | q[i]
            sf.ops.Dgate(case["alpha"][i][0], case["alpha"][i][1]) | q[i]
        if what == "input":
            pass
        elif what == "full":
            if n > 1:
                sf.ops.Interferometer(Ul.T) | q
            dynamics.TimeEvolution(w, case["t"]) | q
            if n > 1:
                sf.ops.Interferometer(Ul) | q
        elif what == "te":
            if n > 1:
                sf.ops.BSgate(0.7, 0.3) | (q[0], q[n - 1])
            dynamics.TimeEvolution(w, case["t"]) | q
        elif what == "pre":
            if n > 1:
                sf.ops.BSgate(0.7, 0.3) | (q[0], q[n - 1])
        elif what == "two":
            dynamics.TimeEvolution(w, case["t"]) | q
            dynamics.TimeEvolution(w, case["t2"]) | q
        elif what == "sum":
            dynamics.TimeEvolution(w, case["t"] + case["t2"]) | q
    return prog


def check_dyn(case):
    out = []
    n = len(case["w"])
    w = np.array(case["w"])
    Ul = np.array(case["Ul"])
    omega = 2 * math.pi * sc.c * 100.0 * w * 1e-15  # rad / fs
    try:
        s_in = _run_gauss(_dyn_prog(case, "input"))
        s_full = _run_gauss(_dyn_prog(case, "full"))
        s_pre = _run_gauss(_dyn_prog(case, "pre"))
        s_te = _run_gauss(_dyn_prog(case, "te"))
        s_two = _run_gauss(_dyn_prog(case, "two"))
        s_sum = _run_gauss(_dyn_prog(case, "sum"))
    except Exception as e:  # noqa: BLE001
        return [("dynamics:raises:" + type(e).__name__, "TimeEvolution program raised %r" % (e,))]
    a_in = np.array([s_in.displacement([i])[0] for i in range(n)])
    a_out = np.array([s_full.displacement([i])[0] for i in range(n)])
    a_ref = Ul @ (np.exp(-1j * omega * case["t"]) * (Ul.T @ a_in))
    if not _close(a_out, a_ref, 1e-8):
        out.append(("dynamics:evolution-vs-reference", "coherent amplitudes after U_l exp(-iHt) U_l^T: %r, reference %r" % ([complex(x) for x in a_out], [complex(x) for x in a_ref])))
    tot = lambda s: sum(s.mean_photon(i)[0] for i in range(n))  # noqa: E731
    if not _close(tot(s_full), tot(s_in), 1e-8):
        out.append(("dynamics:photon-number", "total mean photon number %r -> %r under the dynamics" % (_f(tot(s_in)), _f(tot(s_full)))))
    for i in range(n):
        if not _close(s_te.mean_photon(i), s_pre.mean_photon(i), 1e-8):
            out.append(("dynamics:per-mode-photon", "TimeEvolution changed the photon statistics of mode %d: %r -> %r" % (i, s_pre.mean_photon(i), s_te.mean_photon(i))))
            break
    if not (_close(s_two.means(), s_sum.means(), 1e-8) and _close(s_two.cov(), s_sum.cov(), 1e-8)):
        out.append(("dynamics:group-law", "TimeEvolution(w,t1) then TimeEvolution(w,t2) differs from TimeEvolution(w,t1+t2)"))
    if case.get("fock") and sum(case["fock"]) > 0:
        Ntot = sum(case["fock"])
        cutoff = Ntot + 2
        prog = sf.Program(n)
        with prog.context as q:
            for i in range(n):
                sf.ops.Fock(case["fock"][i]) | q[i]
            if n > 1:
                sf.ops.Interferometer(Ul.T) | q
            dynamics.TimeEvolution(w, case["t"]) | q
            if n > 1:
                sf.ops.Interferometer(Ul) | q
        st = sf.Engine("fock", backend_options={"cutoff_dim": cutoff}).run(prog).state
        probs = st.all_fock_probs()
        mass = sum(probs[p] for p in itertools.product(range(cutoff), repeat=n) if sum(p) == Ntot)
        if abs(mass - 1) > 1e-7:
            out.append(("dynamics:fock-photon-number", "Fock input with %d photons: probability of still having %d photons is %r" % (Ntot, Ntot, _f(mass))))
        if n == 2:
            # reference single-photon amplitude transfer for |1,0> or |0,1>
            if Ntot == 1:
                k = case["fock"].index(1)
                U = Ul @ np.diag(np.exp(-1j * omega * case["t"])) @ Ul.T
                ref = np.abs(U[:, k]) ** 2
                got = np.array([probs[1, 0], probs[0, 1]])
                if not _close(got, ref, 1e-7):
                    out.append(("dynamics:fock-transfer", "single-excitation transfer probabilities %r, reference %r" % (_lst(got), _lst(ref))))
    return out


def _vib_state(U1, r, U2, alpha):
    n = len(U1)
    prog = sf.Program(n)
    with prog.context as q:
        vibronic.VibronicTransition(U1, r, U2, alpha) | q
    return _run_gauss(prog)


def check_vib(case):
    out = []
    w, wp = np.array(case["w"]), np.array(case["wp"])
    Ud, delta, T = np.array(case["Ud"]), np.array(case["delta"]), case["T"]
    n = len(w)
    try:
        t, U1, r, U2, alpha = pure_call(out, "gbs_params", vibronic.gbs_params, w, wp, Ud, delta, T)
    except Exception as e:  # noqa: BLE001
        return [("vibronic:params-raises:" + type(e).__name__, "gbs_params raised %r" % (e,))]
    J = np.diag(wp ** 0.5) @ Ud @ np.diag(w ** -0.5)
    shapes = [np.shape(t), np.shape(U1), np.shape(r), np.shape(U2), np.shape(alpha)]
    if shapes != [(n,), (n, n), (n,), (n, n), (n,)]:
        return out + [("vibronic:params-shape", "gbs_params for %d modes (T=%r) returned shapes %r" % (n, T, shapes))]
    if not (_close(U1 @ U1.T, np.eye(n), 1e-9) and _close(U2 @ U2.T, np.eye(n), 1e-9)):
        out.append(("vibronic:params-not-orthogonal", "U1/U2 returned by gbs_params are not orthogonal"))
    if not _close(U2 @ np.diag(np.exp(r)) @ U1, J, 1e-9):
        out.append(("vibronic:params-roundtrip", "U2 exp(r) U1 does not reproduce diag(sqrt w') Ud diag(1/sqrt w)"))
    if not _close(alpha * math.sqrt(2), delta, 1e-12):
        out.append(("vibronic:alpha", "alpha*sqrt(2) != delta"))
    if T > 0:
        x = sc.h * sc.c * 100.0 * w / (sc.k * T)
        nbar = 1.0 / np.expm1(x)
        if not _close(np.sinh(t) ** 2, nbar, 1e-9):
            out.append(("vibronic:thermal-occupation", "sinh^2(t) = %r differs from the Bose-Einstein occupation %r" % (_lst(np.sinh(t) ** 2), _lst(nbar))))
    elif np.any(t != 0):
        out.append(("vibronic:thermal-occupation", "T = 0 but two-mode squeezing is non-zero"))
    # operator level: the state U_Dok |0> is the initial vibrational ground state written in the final
    # normal coordinates, x' = J x + delta  =>  mean sqrt(hbar) delta, cov_xx = hbar/2 J J^T, cov_pp = hbar/2 J^-T J^-1
    try:
        st = _vib_state(U1, r, U2, alpha)
    except Exception as e:  # noqa: BLE001
        return out + [("vibronic:op-raises:" + type(e).__name__, "VibronicTransition raised %r" % (e,))]
    cov, mu = st.cov(), st.means()
    Ji = np.linalg.inv(J)
    Z = np.zeros((n, n))
    good = (sf.hbar / 2) * np.block([[J @ J.T, Z], [Z, Ji.T @ Ji]])
    swapped = (sf.hbar / 2) * np.block([[Ji.T @ Ji, Z], [Z, J @ J.T]])
    mu_ref = np.concatenate([math.sqrt(sf.hbar) * delta, np.zeros(n)])
    if not _close(mu, mu_ref, 1e-8):
        out.append(("vibronic:doktorov-displacement", "VibronicTransition|0> has means %r, Doktorov relation gives %r" % (_lst(mu), _lst(mu_ref))))
    if not _close(cov, good, 1e-8):
        if _close(cov, swapped, 1e-8):
            out.append(("vibronic:squeeze-sign",
                        "VibronicTransition(gbs_params(...))|0> has cov_xx = hbar/2 (J J^T)^-1 and cov_pp = hbar/2 J J^T: Sgate(+log s) squeezes "
                        "positions by 1/s, i.e. the operation implements x -> J^-T x + delta instead of the Duschinsky relation x' = J x + delta "
                        "(Franck-Condon factors differ from the wave-function overlaps unless w = w')"))
        else:
            out.append(("vibronic:doktorov-state", "covariance of VibronicTransition|0> matches neither J J^T nor its inverse"))
    # energies(): E = sum_k m_k w'_k - sum_k n_k w_k for samples (m, n) of the 2N-mode protocol
    import random as _r
    r3 = _r.Random(case["np_seed"])
    smps = [[r3.randrange(0, 4) for _ in range(2 * n)] for _ in range(3)]
    e_ref = [float(np.dot(x[:n], wp) - np.dot(x[n:], w)) for x in smps]
    try:
        e_all = pure_call(out, "energies", vibronic.energies, [list(x) for x in smps], w, wp)
        e_one = vibronic.energies(list(smps[0]), w, wp)
        if not (_close(np.array(e_all, dtype=float), e_ref, 1e-12) and _close(e_one, e_ref[0], 1e-12)):
            out.append(("vibronic:energies", "energies(%r) = %r / single %r, expected %r" % (smps, e_all, e_one, e_ref)))
    except Exception as e:  # noqa: BLE001
        out.append(("vibronic:energies:raises:" + type(e).__name__, "energies raised %r" % (e,)))
    # sample(): every sample has one entry per mode of the 2N-mode protocol; the measured state is
    # two-mode squeezing (if any) + Doktorov operations on the first N modes + uniform loss
    tt = np.array(case["tmix"]) if case.get("tmix") else t
    if n <= 2:
        rs, als = np.clip(r, -0.3, 0.3), np.clip(alpha, -0.5, 0.5)
        loss = [0.0, 0.0, 0.35, 1.0][case["np_seed"] % 4]
        captured = []
        orig_run = sf.LocalEngine.run

        def spy_run(self, program, *a, **kw):
            captured.append(program)
            return orig_run(self, program, *a, **kw)

        np.random.seed(case["np_seed"])
        sf.LocalEngine.run = spy_run
        try:
            smp = vibronic.sample(tt, U1, rs, U2, als, 2, loss)
        except Exception as e:  # noqa: BLE001
            smp = None
            out.append(("vibronic:sample-raises:" + type(e).__name__, "vibronic.sample raised %r" % (e,)))
        finally:
            sf.LocalEngine.run = orig_run
        if smp is not None and captured:
            width = 2 * n if np.any(tt != 0) else n

            def build(with_impl):
                prog = sf.Program(width)
                with prog.context as q:
                    if with_impl:
                        for c in captured[0].circuit:
                            if type(c.op).__name__ != "MeasureFock":
                                c.op | tuple(q[x.ind] for x in c.reg)
                    else:
                        if width == 2 * n:
                            for i in range(n):
                                sf.ops.S2gate(tt[i]) | (q[i], q[i + n])
                        first = tuple(q[i] for i in range(n))
                        sf.ops.Interferometer(U1) | first
                        for i in range(n):
                            sf.ops.Sgate(rs[i]) | q[i]
                        sf.ops.Interferometer(U2) | first
                        for i in range(n):
                            sf.ops.Dgate(abs(als[i]), float(np.angle(als[i]))) | q[i]
                        if loss:
                            for i in range(width):
                                sf.ops.LossChannel(1 - loss) | q[i]
                return prog

            try:
                if captured[0].num_subsystems != width:
                    out.append(("vibronic:sample-state", "sample() simulates %d modes, expected %d" % (captured[0].num_subsystems, width)))
                else:
                    s_i, s_r = _run_gauss(build(True)), _run_gauss(build(False))
                    if not (_close(s_i.means(), s_r.means(), 1e-8) and _close(s_i.cov(), s_r.cov(), 1e-8)):
                        out.append(("vibronic:sample-state", "the state measured by vibronic.sample (t=%r, loss=%r) differs from S2(t) + Doktorov operations + loss" % (_lst(tt), loss)))
            except Exception as e:  # noqa: BLE001
                out.append(("vibronic:sample-state-raises:" + type(e).__name__, "re-running the sampler's program raised %r" % (e,)))
            if loss == 1.0 and any(any(x) for x in smp):
                out.append(("vibronic:sample-total-loss", "loss = 1 but photons were detected"))
        for badargs, nm_ in (((tt, U1, rs, U2, als, 0), "n_samples"), ((tt, U1, rs, U2, als, 1, 1.5), "loss"), ((tt, U1, rs, U2, als, 1, -0.1), "loss")):
            started = []

            def spy2(self, program, *a, **kw):
                started.append(1)
                return orig_run(self, program, *a, **kw)

            sf.LocalEngine.run = spy2
            try:
                vibronic.sample(*badargs)
                out.append(("malformed:vibronic.sample:%s:accepted" % nm_, "vibronic.sample accepted a malformed %s" % nm_))
            except ValueError:
                if started:
                    out.append(("malformed:vibronic.sample:%s:not-validated" % nm_, "vibronic.sample did not reject a malformed %s up front (the simulation was started)" % nm_))
            except Exception as e:  # noqa: BLE001
                out.append(("malformed:vibronic.sample:%s:%s" % (nm_, type(e).__name__), "vibronic.sample raised %r instead of ValueError" % (e,)))
            finally:
                sf.LocalEngine.run = orig_run
        np.random.seed(case["np_seed"])
        try:
            lens = sorted(set(len(s) for s in smp)) if smp is not None else [2 * n]
            if smp is None:
                pass
            elif len(smp) != 2:
                out.append(("vibronic:sample-count", "2 samples requested, %d returned" % len(smp)))
            elif lens != [2 * n]:
                sig = "vibronic:sample-length-mixed-t" if (np.any(tt == 0) and np.any(tt != 0)) else "vibronic:sample-length"
                out.append((sig, "vibronic.sample with t=%r on %d modes returns samples of length %r instead of %d" % (_lst(tt), n, lens, 2 * n)))
            elif np.all(tt == 0) and any(any(s[n:]) for s in smp):
                out.append(("vibronic:sample-padding", "zero-temperature samples have photons in the padded modes"))
        except Exception as e:  # noqa: BLE001
            out.append(("vibronic:sample-raises:" + type(e).__name__, "vibronic.sample raised %r" % (e,)))
    return out


def check_dus(case):
    out = []
    Li, Lf = np.array(case["Li"]), np.array(case["Lf"])
    ri, rf, wf, m, c = (np.array(case[k]) for k in ("ri", "rf", "wf", "m", "c"))
    try:
        U, delta = pure_call(out, "duschinsky", qutils.duschinsky, Li, Lf, ri, rf, wf, m)
    except Exception as e:  # noqa: BLE001
        return [("duschinsky:raises:" + type(e).__name__, "duschinsky raised %r" % (e,))]
    Mv = Li.shape[1]
    if np.shape(U) != (Mv, Mv) or np.shape(delta) != (Mv,):
        return out + [("duschinsky:shape", "duschinsky for %d modes returned shapes %r %r" % (Mv, np.shape(U), np.shape(delta)))]
    # q = L^T sqrt(m) (r - r_e); a geometry displaced along the initial normal modes by coordinates c
    r = ri + (Li @ c) / np.sqrt(m)
    q_i = Li.T @ (np.sqrt(m) * (r - ri))
    q_f = Lf.T @ (np.sqrt(m) * (r - rf))
    # delta = d / l with l = sqrt(hbar / (2 pi c w)) in metres sqrt(kg); d in Angstrom sqrt(amu)
    l = np.sqrt(sc.hbar / (2 * math.pi * sc.c * 100.0 * wf)) * 1e10 / math.sqrt(sc.m_u)
    if not _close(q_f, U @ q_i + delta * l, 1e-9):
        out.append(("duschinsky:transformation", "q_f = %r but U q_i + d = %r" % (_lst(q_f), _lst(U @ q_i + delta * l))))
    if case["Li"] == case["Lf"] and not _close(U, np.eye(U.shape[0]), 1e-9):
        out.append(("duschinsky:identity", "identical normal modes do not give the identity Duschinsky matrix"))
    return out


def _marg_state(case):
    prog = sf.Program(case["n"])
    with prog.context as q:
        for name, p, ms in case["cmds"]:
            op = {"S": sf.ops.Sgate, "D": sf.ops.Dgate, "BS": sf.ops.BSgate, "L": sf.ops.LossChannel}[name]
            op(*p) | tuple(q[i] for i in ms)
    return _run_gauss(prog)


def check_marg(case):
    out = []
    st = _marg_state(case)
    mu, V = st.means(), st.cov()
    n, nmax, hb = case["n"], case["n_max"], case["hbar"]
    try:
        cur = sf.hbar
        p = pure_call(out, "marginals", qutils.marginals, mu, V, nmax, cur)
        p2 = qutils.marginals(mu * math.sqrt(hb / cur), V * hb / cur, nmax, hbar=hb)
        if cur == 2.0 and not _res_close(qutils.marginals(mu, V, nmax), p, 1e-12):
            out.append(("marginals:default-hbar", "marginals without hbar differs from hbar=2"))
    except Exception as e:  # noqa: BLE001
        return [("marginals:raises:" + type(e).__name__, "marginals raised %r" % (e,))]
    if p.shape != (n, nmax):
        return [("marginals:shape", "marginals returned shape %r" % (p.shape,))]
    if not _close(p, p2, 1e-8):
        out.append(("marginals:hbar", "marginals depend on hbar when the state is rescaled consistently"))
    cut = max(nmax, 8) + 2
    table = ref_table(V, cut, mu, hbar=sf.hbar)
    tail = max(0.0, 1 - float(np.sum(table)))
    for k in range(n):
        lo = np.array([np.sum(np.take(table, i, axis=k)) for i in range(nmax)])
        if np.any(p[k] < lo - 1e-8) or np.any(p[k] > lo + tail + 1e-8):
            out.append(("marginals:vs-state", "marginal of mode %d = %r, reference state gives %r (+%.1e)" % (k, _lst(p[k]), _lst(lo), tail)))
            break
    # utils.prob: relative frequency of a Fock state among samples
    import random as _r
    r4 = _r.Random(case["n_max"] * 7919 + n)
    smps = [[r4.randrange(0, 3) for _ in range(n)] for _ in range(r4.choice([1, 4, 9]))]
    tgt = list(r4.choice(smps)) if r4.random() < 0.7 else [r4.randrange(0, 3) for _ in range(n)]
    try:
        fr = pure_call(out, "utils.prob", qutils.prob, [list(x) for x in smps], list(tgt))
        if not _close(fr, sum(1 for x in smps if x == tgt) / len(smps), 1e-12):
            out.append(("utils:prob", "prob(%r, %r) = %r" % (smps, tgt, fr)))
    except Exception as e:  # noqa: BLE001
        out.append(("utils:prob:raises:" + type(e).__name__, "utils.prob raised %r" % (e,)))
    for badargs, nm_ in ((([], tgt), "empty-samples"), ((smps, []), "empty-state"), ((smps, tgt + [0]), "length"), ((smps, [-1] + tgt[1:]), "negative")):
        try:
            qutils.prob(*badargs)
            out.append(("malformed:utils.prob:%s:accepted" % nm_, "utils.prob accepted malformed arguments (%s)" % nm_))
        except ValueError:
            pass
        except Exception as e:  # noqa: BLE001
            out.append(("malformed:utils.prob:%s:%s" % (nm_, type(e).__name__), "utils.prob raised %r instead of ValueError" % (e,)))
    if np.any(np.sum(p, axis=1) > 1 + 1e-9):
        out.append(("marginals:normalised", "a marginal distribution sums to more than one"))
    return out


def check_bad(case):
    """malformed arguments must be rejected with ValueError, not silently accepted"""
    kind, n, x = case["kind"], case["n"], case["x"]
    A = np.ones((n, n))

    def expect(fn, name):
        try:
            fn()
        except ValueError:
            return []
        except Exception as e:  # noqa: BLE001
            return [("malformed:%s:%s" % (name, type(e).__name__), "%s raised %r instead of ValueError" % (name, e))]
        return [("malformed:%s:accepted" % name, "%s accepted a malformed argument" % name)]

    if kind == "embed-dim":
        e = tembed.ExpFeatures(np.ones((n, 2)))
        return expect(lambda: e.weights(np.zeros(3)), "weights") + expect(lambda: e.jacobian(np.zeros(1)), "jacobian")
    if kind == "vgbs-asym":
        B = A.copy()
        B[0, 1] += x
        return expect(lambda: tparam.VGBS(B, 1.0, tembed.Exp(n), False), "VGBS")
    if kind == "samples-shape":
        return expect(lambda: tparam.VGBS(A, 1.0, tembed.Exp(n), False, samples=np.zeros((2, n + 1), dtype=int)), "add_A_init_samples")
    if kind == "T-negative":
        return expect(lambda: vibronic.gbs_params(np.ones(n) * 100, np.ones(n) * 120, np.eye(n), np.zeros(n), -x), "gbs_params")
    if kind == "marg-shape":
        return (expect(lambda: qutils.marginals(np.zeros(2 * n), np.eye(2 * n)[:, :-1], 3), "marginals-nonsquare")
                + expect(lambda: qutils.marginals(np.zeros(2 * n - 1), np.eye(2 * n), 3), "marginals-dim"))
    if kind == "marg-nmax":
        return expect(lambda: qutils.marginals(np.zeros(2 * n), np.eye(2 * n), 0), "marginals-nmax")
    if kind == "orbit-nmean":
        g = nx.complete_graph(n)
        return (expect(lambda: similarity.prob_orbit_exact(g, [1, 1], n_mean=-x), "prob_orbit_exact-nmean")
                + expect(lambda: similarity.prob_orbit_exact(g, [1, 1], loss=1 + x), "prob_orbit_exact-loss"))
    if kind == "event-neg":
        g = nx.complete_graph(n)
        return (expect(lambda: similarity.prob_event_exact(g, -1, 2), "prob_event_exact-photons")
                + expect(lambda: similarity.prob_event_exact(g, 2, -1), "prob_event_exact-max"))
    return []


def check_smp(case):
    """dynamics.sample_fock / sample_tmsv / sample_coherent: argument validation, shape of the result, and photon-number
    conservation of the sampled dynamics (no loss: Fock input keeps its photon number, two-mode squeezed pairs keep equal
    totals in the two halves; total loss: no photons)"""
    kind, bad, n = case["kind"], case["bad"], case["n"]
    Ul, w, t, ns, loss = np.array(case["Ul"]), np.array(case["w"]), case["t"], case["n_samples"], case["loss"]
    inp = [list(x) if isinstance(x, list) else x for x in case["input"]]
    cutoff = case.get("cutoff")
    if bad == "complex-Ul":
        Ul = Ul.astype(complex)
        Ul[0, 0] = Ul[0, 0] + 0.5j
    elif bad == "n_samples":
        ns = 0
    elif bad == "length":
        inp = inp + [inp[0]]
    elif bad == "negative":
        inp = [-1] + inp[1:]
    elif bad == "cutoff":
        inp = [cutoff] + [0] * (len(inp) - 1)  # a Fock state that does not fit below the cutoff
    np.random.seed(case["np_seed"])
    captured = []
    orig_run = sf.LocalEngine.run

    def spy_run(self, program, *a, **kw):
        captured.append(program)
        return orig_run(self, program, *a, **kw)

    sf.LocalEngine.run = spy_run
    try:
        if kind == "fock":
            smp = dynamics.sample_fock(inp, t, Ul, w, ns, cutoff, loss)
        elif kind == "tmsv":
            smp = dynamics.sample_tmsv(inp, t, Ul, w, ns, loss)
        else:
            smp = dynamics.sample_coherent(inp, t, Ul, w, ns, loss)
    except ValueError as e:
        sf.LocalEngine.run = orig_run
        if bad and captured:
            return [("malformed:sample_%s:%s:not-validated" % (kind, bad), "sample_%s did not reject malformed arguments (%s) up front; the simulation was started and crashed with %r" % (kind, bad, e))]
        if bad:
            return []
        return [("dynamics:sample_%s:raises:ValueError" % kind, "valid arguments rejected: %r" % (e,))]
    except Exception as e:  # noqa: BLE001
        sf.LocalEngine.run = orig_run
        return [("dynamics:sample_%s:raises:%s" % (kind, type(e).__name__), "%s arguments (%s) raised %r instead of %s" % ("malformed" if bad else "valid", bad, e, "ValueError" if bad else "returning samples"))]
    sf.LocalEngine.run = orig_run
    if bad:
        return [("malformed:sample_%s:%s:accepted" % (kind, bad), "sample_%s accepted malformed arguments (%s)" % (kind, bad))]
    out = []
    width = 2 * n if kind == "tmsv" else n
    # the state the sampler measures (program handed to the engine, measurement removed) against an independently written
    # program: preparation, U_l^T, exp(-i w_k t) phase rotations, U_l, uniform loss
    if captured:
        omega = 2 * math.pi * sc.c * 100.0 * w * 1e-15

        def build(with_impl):
            prog = sf.Program(width)
            with prog.context as q:
                if with_impl:
                    for c in captured[0].circuit:
                        if type(c.op).__name__ != "MeasureFock":
                            c.op | tuple(q[r.ind] for r in c.reg)
                else:
                    for i in range(n):
                        if kind == "fock":
                            sf.ops.Fock(inp[i]) | q[i]
                        elif kind == "tmsv":
                            sf.ops.S2gate(inp[i][0], inp[i][1]) | (q[i], q[i + n])
                        else:
                            sf.ops.Dgate(inp[i][0], inp[i][1]) | q[i]
                    sf.ops.Interferometer(Ul.T) | tuple(q[i] for i in range(n))
                    for i in range(n):
                        sf.ops.Rgate(-omega[i] * t) | q[i]
                    sf.ops.Interferometer(Ul) | tuple(q[i] for i in range(n))
                    if loss:
                        for i in range(width):
                            sf.ops.LossChannel(1 - loss) | q[i]
            return prog

        try:
            if kind == "fock":
                eng_opts = {"cutoff_dim": cutoff}
                s_impl = sf.Engine("fock", backend_options=eng_opts).run(build(True)).state
                s_ref = sf.Engine("fock", backend_options=eng_opts).run(build(False)).state
                same = _close(s_impl.all_fock_probs(), s_ref.all_fock_probs(), 1e-7)
            else:
                s_impl, s_ref = _run_gauss(build(True)), _run_gauss(build(False))
                same = _close(s_impl.means(), s_ref.means(), 1e-8) and _close(s_impl.cov(), s_ref.cov(), 1e-8)
            if captured[0].num_subsystems != width:
                same = False
            if not same:
                out.append(("dynamics:sample_%s:state" % kind, "the state measured by sample_%s differs from preparation + U_l exp(-iHt) U_l^T + loss %r" % (kind, loss)))
        except Exception as e:  # noqa: BLE001
            out.append(("dynamics:sample_%s:state-raises:%s" % (kind, type(e).__name__), "re-running the sampler's program raised %r" % (e,)))
    if len(smp) != ns or any(len(x) != width for x in smp) or any(v < 0 or int(v) != v for x in smp for v in x):
        return [("dynamics:sample_%s:shape" % kind, "expected %d samples of %d non-negative integers, got %r" % (ns, width, smp))]
    if loss == 1.0 and any(any(x) for x in smp):
        out.append(("dynamics:sample_%s:total-loss" % kind, "loss = 1 but photons were detected: %r" % (smp,)))
    if loss == 0.0 and kind == "fock" and any(sum(x) != sum(inp) for x in smp):
        out.append(("dynamics:sample_fock:photon-number", "input %r (%d photons), samples %r" % (inp, sum(inp), smp)))
    if loss == 0.0 and kind == "tmsv" and any(sum(x[:n]) != sum(x[n:]) for x in smp):
        out.append(("dynamics:sample_tmsv:photon-number", "the evolved and the idle halves of two-mode squeezed pairs have different totals: %r" % (smp,)))
    if loss > 0 and kind == "fock" and any(sum(x) > sum(inp) for x in smp):
        out.append(("dynamics:sample_fock:photon-number", "loss created photons: input %r, samples %r" % (inp, smp)))
    return out


CHECKS = {"smp": check_smp, "train": check_train, "sim": check_sim, "dyn": check_dyn, "vib": check_vib, "dus": check_dus, "marg": check_marg, "bad": check_bad}


HBAR_FAMS = ("train", "sim", "vib", "marg", "dyn", "hist")


def run_check(case):
    """evaluate the family's predicates; cases may ask for a global hbar different from 2 (sf.hbar is restored afterwards)"""
    old_hbar = sf.hbar
    try:
        if case.get("hbar_global"):
            sf.hbar = float(case["hbar_global"])
        return CHECKS[case["family"]](case)
    except Exception as e:  # noqa: BLE001
        import traceback
        return [("%s:check-raises:%s" % (case["family"], type(e).__name__), "evaluating the property raised %r\n%s" % (e, traceback.format_exc()[-800:]))]
    finally:
        sf.hbar = old_hbar


def gen_case(rng, fam, big=False):
    case = GENS[fam](rng, big=big) if fam == "train" else GENS[fam](rng)
    if fam in HBAR_FAMS and rng.random() < 0.3:
        case["hbar_global"] = rng.choice([1.0, 0.5, 1.7])
    return case


# ======================================================================================
# stateful histories: results must be a function of the current argument VALUES only

def _snap(x):
    """deep snapshot of (nested) array-like arguments"""
    if isinstance(x, np.ndarray):
        return x.copy()
    if isinstance(x, (list, tuple)):
        return type(x)(_snap(y) for y in x)
    return x


def _same(a, b):
    if isinstance(a, np.ndarray) or isinstance(b, np.ndarray):
        a, b = np.asarray(a), np.asarray(b)
        return a.shape == b.shape and a.dtype == b.dtype and bool(np.array_equal(a, b, equal_nan=True)) if a.dtype.kind in "fc" else (a.shape == b.shape and bool(np.array_equal(a, b)))
    if isinstance(a, (list, tuple)) and isinstance(b, (list, tuple)):
        return len(a) == len(b) and all(_same(x, y) for x, y in zip(a, b))
    return a == b


def _res_close(a, b, tol=1e-10):
    if isinstance(a, tuple) and isinstance(b, tuple):
        return len(a) == len(b) and all(_res_close(x, y, tol) for x, y in zip(a, b))
    try:
        return _close(np.asarray(a, dtype=complex), np.asarray(b, dtype=complex), tol)
    except (TypeError, ValueError):
        return a == b


def pure_call(out, name, fn, *args, **kw):
    """Call fn(*args) twice; report when it changes its arguments or when the second result differs from the first
    (hidden state).  Returns the first result."""
    before = _snap(args)
    r1 = fn(*args, **kw)
    if not _same(before, args):
        out.append(("purity:%s:mutates-input" % name, "%s modified one of its array arguments in place" % name))
        return r1
    r1s = _snap(r1)
    r2 = fn(*args, **kw)
    if not _res_close(r1s, r2, 1e-12):
        out.append(("purity:%s:not-repeatable" % name, "two successive calls of %s with identical arguments differ: %r vs %r" % (name, r1s, r2)))
    if not _same(before, args):
        out.append(("purity:%s:mutates-input" % name, "%s modified one of its array arguments in place" % name))
    return r1


HIST_FNS = ["weights", "embed_call", "jacobian", "W", "A", "prob_sample", "mean_photons", "mean_clicks", "n_mean",
            "kl_evaluate", "kl_grad", "st_evaluate", "st_grad", "h_reparam", "grad_one"]
HIST_ARGS = ["same", "same", "same", "copy", "list", "view", "asarray", "strided", "f32like"]
HIST_UPD = ["isub", "setitem", "slice", "clip", "rebind", "imul", "fill_back", "noop"]


def gen_hist(rng):
    base = gen_train(rng)
    base["family"] = "hist"
    A = np.array(base["A"])
    n = len(A)
    F = np.eye(n) if base["emb"]["kind"] == "exp" else np.array(base["emb"]["F"])
    d = F.shape[1]
    try:
        A0 = tparam.rescale_adjacency(A, base["n_mean"], base["threshold"])
    except Exception:  # noqa: BLE001
        A0 = None

    def valid(th):
        w = np.exp(-F @ th)
        return A0 is not None and np.max(w) < 1.6 and np.min(w) > 0.15 and np.linalg.norm(np.sqrt(np.outer(w, w)) * A0, 2) < 0.93

    th = np.array(base["theta"], dtype=float)
    steps = []
    for _ in range(rng.choice([4, 6, 8])):
        # an update of the parameter vector (how it is applied matters: in place on the same ndarray, or a new array)
        how = rng.choice(HIST_UPD)
        if how == "noop":
            new = th.copy()
        elif how == "setitem":
            new = th.copy()
            new[rng.randrange(d)] += rng.choice([1e-5, -1e-5, 0.05, -0.1, 0.2])
        else:
            new = th + np.array([rng.choice([0.0, 0.03, -0.07, 0.15, -0.2]) for _ in range(d)])
        if not valid(new):
            new = th * 0.5
        if not valid(new):
            new = np.zeros(d)
        steps.append({"op": "update", "how": how, "theta": _lst(new)})
        th = new
        for _ in range(rng.choice([1, 2, 3])):
            r = rng.random()
            if r < 0.12:
                steps.append({"op": "add", "rows": rng.choice([1, 2])})
            elif r < 0.2:
                steps.append({"op": "get", "n": rng.choice([1, 2, 3])})
            else:
                steps.append({"op": "call", "fn": rng.choice(HIST_FNS), "arg": rng.choice(HIST_ARGS), "scribble": rng.random() < 0.3})
    base["steps"] = steps
    base["T"] = max(base["T"], 3)
    return base


def _hist_objects(S, case, store):
    emb, _ = make_embedding(case)
    vg = tparam.VGBS(S["A"].copy(), case["n_mean"], emb, case["threshold"], samples=np.array(store, dtype=int).copy())
    kl = tcost.KL(S["data"].copy(), vg)
    st = tcost.Stochastic(make_h(case), vg)
    return {"emb": emb, "vg": vg, "kl": kl, "st": st}


def _hist_call(o, fn, arg, sample, N):
    emb, vg, kl, st = o["emb"], o["vg"], o["kl"], o["st"]
    if fn == "weights":
        return emb.weights(arg)
    if fn == "embed_call":
        return emb(arg)
    if fn == "jacobian":
        return emb.jacobian(arg)
    if fn == "W":
        return vg.W(arg)
    if fn == "A":
        return vg.A(arg)
    if fn == "prob_sample":
        return vg.prob_sample(arg, sample)
    if fn == "mean_photons":
        return vg.mean_photons_by_mode(arg)
    if fn == "mean_clicks":
        return vg.mean_clicks_by_mode(arg)
    if fn == "n_mean":
        return vg.n_mean(arg)
    if fn == "kl_evaluate":
        return kl.evaluate(arg)
    if fn == "kl_grad":
        return kl.grad(arg)
    if fn == "st_evaluate":
        return st.evaluate(arg, N)
    if fn == "st_grad":
        return st.grad(arg, N)
    if fn == "h_reparam":
        return st.h_reparametrized(sample, arg)
    if fn == "grad_one":
        return st._gradient_one_sample(sample, arg)
    raise KeyError(fn)


def check_hist(case):
    """One embedding / VGBS / KL / Stochastic instance driven through a history of calls with an in-place updated, aliased,
    viewed or freshly allocated parameter array and interleaved sample-store updates; every result is compared with fresh
    objects evaluated at a fresh copy of the current values, and no call may modify its arguments."""
    out = []
    try:
        S = train_setup(case)
    except Exception as e:  # noqa: BLE001
        return [("hist:setup-raises:" + type(e).__name__, "building the objects raised %r" % (e,))]
    data, n = S["data"], S["n"]
    store = [list(map(int, data[0]))]
    live = _hist_objects(S, case, store)

    def no_gen(*a, **k):
        raise AssertionError("generate_samples called although enough samples are stored")

    live["vg"].generate_samples = no_gen
    p = np.array(case["theta"], dtype=float)
    backing = None
    sample = np.array(data[0], dtype=int)
    F_before = None if case["emb"]["kind"] == "exp" else np.array(case["emb"]["F"], dtype=float)
    seen = set()
    for k, stp in enumerate(case["steps"]):
        try:
            if stp["op"] == "update":
                v = np.array(stp["theta"], dtype=float)
                how = stp["how"]
                if how == "isub":
                    p -= (p - v)
                elif how == "setitem":
                    for j in range(len(v)):
                        if p[j] != v[j]:
                            p[j] = v[j]
                elif how == "slice":
                    p[:] = v
                elif how == "clip":
                    np.clip(p, v, v, out=p)
                elif how == "imul":
                    p *= 0.0
                    p += v
                elif how == "fill_back":
                    old = p.copy()
                    p[:] = v          # visit the new value ...
                    _hist_call(live, "weights", p, sample, len(store))
                    p[:] = old        # ... go back ...
                    _hist_call(live, "weights", p, sample, len(store))
                    p[:] = v          # ... and forth again, all on the same ndarray
                elif how == "rebind":
                    p = v.copy()
                continue
            if stp["op"] == "add":
                rows = [list(map(int, data[(len(store) + i) % len(data)])) for i in range(stp["rows"])]
                live["vg"].add_A_init_samples(np.array(rows, dtype=int))
                store += rows
                continue
            if stp["op"] == "get":
                m = min(stp["n"], len(store))
                got = np.asarray(live["vg"].get_A_init_samples(m))
                if got.shape != (m, n) or not np.array_equal(got, np.array(store[:m])):
                    out.append(("history:sample-store", "after %d additions get_A_init_samples(%d) returned %r, stored so far %r" % (len(store) - 1, m, got.tolist(), store)))
                    return out
                continue
            fn, mode = stp["fn"], stp["arg"]
            if mode == "same":
                arg = p
            elif mode == "copy":
                arg = p.copy()
            elif mode == "list":
                arg = [float(x) for x in p]
            elif mode == "view":
                arg = p[:]
            elif mode == "asarray":
                arg = np.asarray(p)
            elif mode == "strided":
                backing = np.zeros(2 * len(p))
                backing[::2] = p
                arg = backing[::2]
            else:  # values that are exactly representable copies held in a Fortran-ordered 2-d buffer
                buf = np.asfortranarray(np.vstack([p, p]))
                arg = buf[1]
            arg_before, samp_before, data_before = _snap(arg), sample.copy(), live["kl"].data.copy()
            Ainit_before = live["vg"].A_init.copy()
            N = len(store)
            res = _hist_call(live, fn, arg, sample, N)
            fresh = _hist_objects(S, case, store)
            ref = _hist_call(fresh, fn, np.array([float(x) for x in p]), sample.copy(), N)
            if not _res_close(res, ref, 1e-9) and fn not in seen:
                seen.add(fn)
                out.append(("history:%s:depends-on-history" % fn,
                            "step %d: %s(theta=%r passed as '%s') on a live object returned %r, a fresh object at the same values returns %r"
                            % (k, fn, _lst(p), mode, np.asarray(res).tolist(), np.asarray(ref).tolist())))
            if not _same(arg_before, arg) or not np.array_equal(samp_before, sample):
                out.append(("history:%s:mutates-input" % fn, "step %d: %s modified its parameter / sample argument in place" % (k, fn)))
            if not np.array_equal(data_before, live["kl"].data) or not np.array_equal(Ainit_before, live["vg"].A_init):
                out.append(("history:%s:mutates-state" % fn, "step %d: %s modified the stored data / initial matrix" % (k, fn)))
            if F_before is not None and not np.array_equal(F_before, np.asarray(live["emb"].features)):
                out.append(("history:%s:mutates-state" % fn, "step %d: %s modified the feature matrix" % (k, fn)))
            if stp.get("scribble") and isinstance(res, np.ndarray) and res.dtype.kind == "f":
                res += 1.0  # the caller owns the returned array; writing to it must not corrupt later results
        except AssertionError as e:
            out.append(("history:sample-store", "step %d: %s" % (k, e)))
            return out
        except Exception as e:  # noqa: BLE001
            out.append(("history:raises:%s" % type(e).__name__, "step %d (%r) raised %r" % (k, stp, e)))
            return out
    return out


GENS["hist"] = gen_hist
CHECKS["hist"] = check_hist


# ======================================================================================
# correspondence: model (vm_compute at binary64) vs implementation

def cf(x):
    return coq.coq_float(float(x))


def cvec(v):
    return coq.coq_list([cf(x) for x in np.asarray(v, dtype=float).ravel()])


def cmat(M):
    return coq.coq_list([cvec(r) for r in np.asarray(M, dtype=float)])


def cnats(v):
    return coq.coq_list(["%d%%nat" % int(x) for x in v])


class SvdSpy:
    def __enter__(self):
        self.orig = np.linalg.svd
        self.args = []

        def spy(a, *k, **kw):
            self.args.append(np.array(a))
            return self.orig(a, *k, **kw)

        np.linalg.svd = spy
        return self

    def __exit__(self, *a):
        np.linalg.svd = self.orig


def corr_train(case):
    """-> (coq term, list of (name, impl value, tolerance)) ; the term evaluates to a tuple in the same order"""
    S = train_setup(case)
    vg, n, theta, F, data = S["vg"], S["n"], S["theta"], S["F"], S["data"]
    emb = S["emb"]
    d = len(theta)
    w = emb.weights(theta)
    J = emb.jacobian(theta)
    thr = case["threshold"]
    nmodel = vg.mean_clicks_by_mode(theta) if thr else vg.mean_photons_by_mode(theta)
    kl = tcost.KL(data, vg)
    Tn = float(len(data))
    probs = [vg.prob_sample(theta, s) for s in data]
    logs = [np.log(p) for p in probs]
    h = make_h(case)
    vg2 = tparam.VGBS(S["A"], case["n_mean"], emb, thr, samples=data)
    st = tcost.Stochastic(h, vg2)
    Ath = vg.A(theta)
    Id = np.eye(2 * n)
    sq = np.sqrt(np.linalg.det(Id - tparam._Omat(Ath)) / np.linalg.det(Id - tparam._Omat(vg.A_init)))
    hs = [h(s) for s in data]
    hreps = [st.h_reparametrized(s, theta) for s in data]
    Q = np.asarray(twq.Qmat(tparam.A_to_cov(Ath), hbar=sf.hbar), dtype=complex)
    dets_impl = [np.linalg.det(np.array([[Q[k, k], Q[k, k + n]], [Q[k + n, k], Q[k + n, k + n]]])) for k in range(n)]
    rs = [np.real(x ** (-0.5)) for x in dets_impl]
    Fc, thc, wc, Jc, datac = cmat(F), cvec(theta), cvec(w), cmat(J), cmat(data)
    samples_nat = coq.coq_list([cnats(s) for s in data])
    term = ("(exp_args FO %s %s, jacobian FO %s %s, col_mean FO %d %s %s, kl_grad FO %d %s (col_mean FO %d %s %s) %s %s, kl_eval FO %s %s,\n"
            " map (fun hs => h_reparam FO (fst hs) %s %s (snd hs)) (combine %s %s),\n"
            " vec_mean FO %d %s (map (fun hs => grad_one FO %d (fst hs) (snd hs) %s %s %s) (combine %s %s)), scal_mean FO %s %s,\n"
            " waw FO %s %s, n_mean FO %s, click_dets FO %d %s %s, click_means FO %s)"
            % (Fc, thc, Fc, wc, n, cf(Tn), datac, d, cvec(nmodel), n, cf(Tn), datac, wc, Jc, cvec(logs), cf(Tn),
               cf(sq), wc, cvec(hs), samples_nat,
               d, cf(Tn), d, cvec(nmodel), wc, Jc, cvec(hreps), datac, cf(Tn), cvec(hreps),
               cvec(np.sqrt(w)), cmat(vg.A_init), cvec(nmodel), n, cmat(Q.real), cmat(Q.imag), cvec(rs)))
    impl = [
        ("weights(exp of model args)", w, 1e-12, "expargs"),
        ("jacobian", J, 1e-12, None),
        ("mean_n_data", kl.mean_n_data, 1e-12, None),
        ("KL.grad", kl.grad(theta), 1e-9, None),
        ("KL.evaluate", kl.evaluate(theta), 1e-9, None),
        ("h_reparametrized", np.array(hreps), 1e-9, None),
        ("Stochastic.grad", st.grad(theta, len(data)), 1e-9, None),
        ("Stochastic.evaluate", st.evaluate(theta, len(data)), 1e-9, None),
        ("VGBS.A", Ath, 1e-12, None),
        ("VGBS.n_mean", vg.n_mean(theta), 1e-10, None),
        ("2x2 determinants of Q", np.array([[x.real, x.imag] for x in dets_impl]), 1e-9, "pairs"),
        ("mean_clicks_by_mode", vg.mean_clicks_by_mode(theta), 1e-9, None),
    ]
    return term, impl


def corr_dyn(case):
    w = np.array(case["w"])
    n = len(w)
    prog = sf.Program(n)
    with prog.context as q:
        dynamics.TimeEvolution(w, case["t"]) | q
    ops_ = [(type(c.op).__name__, [r.ind for r in c.reg], float(c.op.p[0])) for c in prog.circuit]
    ok_shape = all(o[0] == "Rgate" and len(o[1]) == 1 for o in ops_)
    term = "(map (fun p => (BinInt.Z.of_nat (fst p), snd p)) (time_evolution FO %s %s %s %s %s %s), 0%%float)" % (
        cf(100.0), cf(sc.c), cf(1.0e-15), cf(2.0 * sc.pi), cvec(w), cf(case["t"]))
    impl = [("TimeEvolution commands (mode, theta)", ops_ if ok_shape else None, 1e-13, "cmds"), ("pad", 0.0, 1e-12, None)]
    return term, impl


def corr_dus(case):
    Li, Lf = np.array(case["Li"]), np.array(case["Lf"])
    ri, rf, wf, m = (np.array(case[k]) for k in ("ri", "rf", "wf", "m"))
    U, delta = qutils.duschinsky(Li, Lf, ri, rf, wf, m)
    M = Li.shape[1]
    l0inv = (sc.h / (wf * 100.0 * sc.c)) ** (-0.5) * 2.0 * sc.pi / 1.0e10 * sc.m_u ** 0.5
    term = "(dusch_U FO %d %s %s, dusch_delta FO (dusch_d FO %d %s %s %s %s) %s)" % (
        M, cmat(Li), cmat(Lf), M, cmat(Lf), cvec(m ** 0.5), cvec(ri), cvec(rf), cvec(l0inv))
    return term, [("duschinsky U", U, 1e-10, None), ("duschinsky delta", delta, 1e-10, None)]


def corr_vib(case):
    w, wp = np.array(case["w"]), np.array(case["wp"])
    Ud, delta = np.array(case["Ud"]), np.array(case["delta"])
    n = len(w)
    with SvdSpy() as spy:
        t, U1, r, U2, alpha = vibronic.gbs_params(w, wp, Ud, delta, case["T"])
    handed = spy.args[0] if spy.args else None
    tt = np.array(case["tmix"]) if case.get("tmix") else t
    slen = None
    if n <= 2:
        np.random.seed(case["np_seed"])
        smp = vibronic.sample(tt, U1, np.clip(r, -0.3, 0.3), U2, np.clip(alpha, -0.5, 0.5), 1)
        slen = len(smp[0])
    term = "(dusch_J FO %s %s %s, vib_alpha FO %s %s, sample_len %s)" % (
        cvec(wp ** 0.5), cvec(w ** -0.5), cmat(Ud), cf(np.sqrt(2)), cvec(delta), coq.coq_list([coq.coq_bool(bool(x == 0)) for x in tt]))
    return term, [("matrix handed to np.linalg.svd", handed, 1e-12, None), ("alpha", alpha, 1e-12, None),
                  ("entries per sample of vibronic.sample", slen, 0, "exact" if slen is not None else "skip")]


def gen_orb(rng):
    modes = rng.choice([2, 3, 4])
    N = rng.choice([1, 2, 3, 4, 5])
    orbit = rng.choice(list(partitions(N)))
    return {"family": "orb", "modes": modes, "orbit": orbit, "n_mean": round(rng.uniform(0.5, 2), 2)}


def corr_orb(case):
    g = nx.complete_graph(case["modes"])
    longer = len(case["orbit"]) > case["modes"]
    try:
        p = similarity.prob_orbit_exact(g, list(case["orbit"]), n_mean=case["n_mean"])
        ok = True
    except ValueError:
        p, ok = None, False
    term = "(orbit_accepts %s %d, orbit_early_zero %s %d)" % (cnats(case["orbit"]), case["modes"], cnats(case["orbit"]), case["modes"])
    return term, [("prob_orbit_exact accepts the orbit", ok, 0, "exact"),
                  ("prob_orbit_exact returns 0.0 for an orbit longer than the mode count", bool(longer and ok and p == 0.0), 0, "exact")]


def check_orb(case):
    g = nx.complete_graph(case["modes"])
    try:
        p = similarity.prob_orbit_exact(g, list(case["orbit"]), n_mean=case["n_mean"])
    except ValueError as e:
        if len(case["orbit"]) > case["modes"]:
            return [("similarity:orbit-longer-than-modes", "prob_orbit_exact(%r) on %d modes raises %r instead of returning 0" % (case["orbit"], case["modes"], e))]
        return [("similarity:orbit-raises:ValueError", "prob_orbit_exact(%r) on %d modes raised %r" % (case["orbit"], case["modes"], e))]
    if len(case["orbit"]) > case["modes"] and abs(p) > 1e-12:
        return [("similarity:orbit-prob", "an orbit with more parts than modes has probability %r" % (p,))]
    return []


GENS["orb"] = gen_orb
CHECKS["orb"] = check_orb


def gen_dim(rng):
    d = rng.choice([1, 2, 3])
    return {"family": "dim", "m": rng.choice([1, 2, 3]), "d": d, "len": rng.choice([d, d, d - 1, d + 1, 0, 4])}


def _dim_impl(case):
    e = tembed.ExpFeatures(np.ones((case["m"], case["d"])))
    res = []
    for fn in (e.weights, e.jacobian):
        try:
            fn(np.zeros(case["len"]))
            res.append(True)
        except ValueError:
            res.append(False)
    return res


def corr_dim(case):
    res = _dim_impl(case)
    term = "(weights_guard %d %s, weights_guard %d %s)" % (case["d"], cvec(np.zeros(case["len"])), case["d"], cvec(np.zeros(case["len"])))
    return term, [("weights accepts the parameter vector", res[0], 0, "exact"), ("jacobian accepts the parameter vector", res[1], 0, "exact")]


def check_dim(case):
    res = _dim_impl(case)
    want = case["d"] == case["len"]
    if res != [want, want]:
        return [("malformed:embed-dim", "ExpFeatures with %d-dimensional features and %d parameters: weights/jacobian accepted = %r" % (case["d"], case["len"], res))]
    return []


GENS["dim"] = gen_dim
CHECKS["dim"] = check_dim

CORR = {"train": corr_train, "dyn": corr_dyn, "dus": corr_dus, "vib": corr_vib, "orb": corr_orb, "dim": corr_dim}


def _cmp_corr(name, model, impl, tol, mode):
    if mode == "skip":
        return True
    if mode == "exact":
        return model == impl
    if impl is None:
        return False
    if mode == "expargs":
        model = np.exp(np.array(model, dtype=float))
    if mode == "pairs":
        model = [list(x) for x in model]
    if mode == "cmds":
        if len(model) != len(impl):
            return False
        for (mi, mth), (_, modes, th) in zip(model, impl):
            if [int(mi)] != list(modes) or not _close(mth, th, tol):
                return False
        return True
    try:
        return _close(np.array(model, dtype=float), np.array(impl, dtype=float), tol)
    except (ValueError, TypeError):
        return False


def correspondence(ctx):
    rng = ctx.rng
    plan = [("train", ctx.budget(40, 300)), ("dyn", ctx.budget(15, 120)), ("dus", ctx.budget(15, 120)), ("vib", ctx.budget(15, 100)),
            ("orb", ctx.budget(20, 150)), ("dim", ctx.budget(12, 60))]
    # tie of the Sgate position-gain convention used by C20_vibronic_gain_*: x -> exp(-r) x
    okg = True
    for r in (0.3, -0.45, 1.1):
        prog = sf.Program(1)
        with prog.context as q:
            sf.ops.Sgate(r) | q[0]
        cv = _run_gauss(prog).cov()
        okg = okg and _close(cv, (HBAR / 2) * np.diag([math.exp(-r) ** 2, math.exp(r) ** 2]), 1e-10)
    ctx.obligation("tie:sgate-x-gain-is-exp(-r)", okg, "Sgate(r)|0> does not have cov = hbar/2 diag(exp(-2r), exp(2r))")
    cases = []
    for fam, k in plan:
        for _ in range(k):
            cases.append(GENS[fam](rng, big=not ctx.quick) if fam == "train" else GENS[fam](rng))
    built = []
    for case in cases:
        try:
            term, impl = CORR[case["family"]](case)
        except Exception as e:  # noqa: BLE001
            fails = run_check(case)
            if fails:
                for sig, what in fails[:2]:
                    ctx.counterexample(sig, what, {"case": case})
            else:
                ctx.disagreement("corr:%s:impl-raises:%s" % (case["family"], type(e).__name__), "implementation driver raised %r" % (e,), {"case": case})
            continue
        built.append((case, term, impl))
        ctx.case(case, nontrivial=nontrivial(case), bucket="corr-" + case["family"])
    shard = 60
    for si in range(0, len(built), shard):
        part = built[si:si + shard]
        lines = ["From Coq Require Import List PrimFloat ZArith Bool.", "Import ListNotations.", "From SFV Require Import C20.Model C20.Exec.",
                 "Open Scope float_scope."]
        for _, term, _ in part:
            lines.append("Eval vm_compute in %s." % term)
        ok, vals, raw = ctx.coq_eval("cases_%d" % (si // shard), "\n".join(lines))
        if not ok or len(vals) != len(part):
            ctx.obligation("correspondence:shard%d" % (si // shard), False, raw[-2500:])
            continue
        for (case, _, impl), val in zip(part, vals):
            ctx.traces += 1
            for (name, iv, tol, mode), mv in zip(impl, val):
                if not _cmp_corr(name, mv, iv, tol, mode):
                    fails = run_check(case)
                    data = {"case": case, "component": name, "model": repr(mv)[:400], "impl": repr(iv)[:400]}
                    if fails:
                        for sig, what in fails[:2]:
                            ctx.counterexample(sig, what, data)
                    else:
                        ctx.disagreement("corr:%s:%s" % (case["family"], name.split("(")[0].strip().replace(" ", "_")),
                                         "model and implementation differ on %s: model %s, implementation %s" % (name, repr(mv)[:200], repr(iv)[:200]), data)
                    break


# ======================================================================================
# search

def corpus_cases():
    for p in sorted(glob.glob(os.path.join(coq.VERIF, "corpus", "C20-*.json"))):
        try:
            d = json.load(open(p))
            yield d["data"]["case"]
        except Exception:  # noqa: BLE001
            continue


def sweep_cases():
    """Deterministic structured sweep, the same on every run: every option / branch of the anchored functions at least
    once (threshold x embedding shape x hbar, loss values, temperatures, every sampler and every malformed-argument kind,
    every in-place update kind on one live object), independent of the random stream."""
    import random as _r
    rng = _r.Random(20200)
    cases = []
    # train
    for thr in (False, True):
        for ek, F in (("exp", None), ("feat", [[1.0], [-0.5]]), ("feat", [[0.3, -1.0, 0.0], [0.0, 2.0, 0.5]])):
            for hb in (None, 1.0):
                d = 2 if F is None else len(F[0])
                c = {"family": "train", "kindA": "loops", "A": [[0.5, 1.0], [1.0, 0.0]], "n_mean": 0.35, "threshold": thr,
                     "emb": {"kind": "exp"} if F is None else {"kind": "feat", "F": F},
                     "theta": [0.1, -0.05, 0.2][:d], "h": [0.3, [1.0, -0.7], 0.5], "data_seed": 11 + len(cases), "T": 3}
                if hb:
                    c["hbar_global"] = hb
                cases.append(c)
    # hist: every update kind followed by every function on the SAME ndarray
    for ek in ({"kind": "exp"}, {"kind": "feat", "F": [[0.3, -1.0, 0.0], [0.0, 2.0, 0.5]]}):
        for thr in (False, True):
            d = 2 if ek["kind"] == "exp" else 3
            th = [0.1, -0.05, 0.2][:d]
            steps = []
            fns = list(HIST_FNS)
            for ui, how in enumerate(HIST_UPD):
                th = [x + (0.04 if (i + ui) % 2 else -0.03) for i, x in enumerate(th)] if how != "noop" else list(th)
                steps.append({"op": "update", "how": how, "theta": th})
                for fn in (fns[(2 * ui) % len(fns)], fns[(2 * ui + 1) % len(fns)]):
                    steps.append({"op": "call", "fn": fn, "arg": "same", "scribble": ui % 2 == 0})
                if ui == 2:
                    steps.append({"op": "add", "rows": 2})
                    steps.append({"op": "get", "n": 3})
            cases.append({"family": "hist", "kindA": "loops", "A": [[0.5, 1.0], [1.0, 0.0]], "n_mean": 0.35, "threshold": thr, "emb": ek,
                          "theta": [0.1, -0.05, 0.2][:d], "h": [0.3, [1.0, -0.7], 0.5], "data_seed": 5, "T": 3, "steps": steps})
    # sim
    for edges in ([[0, 1], [1, 2], [0, 2]], [[0, 1], [1, 2]]):
        for loss in (0.0, 0.3, 1.0):
            cases.append({"family": "sim", "n": 3, "edges": edges, "n_mean": 1.2, "loss": loss, "photons": 3 if loss else 4, "max": 2})
    cases.append({"family": "sim", "n": 2, "edges": [[0, 1]], "n_mean": 0.8, "loss": 0.0, "photons": 0, "max": 1})
    # dyn
    for n in (2, 3):
        cases.append({"family": "dyn", "w": [3914.92, 3787.59, 1000.0][:n], "t": 7.5, "t2": -3.25, "Ul": _lst(_orth(rng, n, "rotation")),
                      "alpha": [[0.8, 0.4], [0.3, -2.0], [0.5, 1.0]][:n], "sq": [0.3, 0.0, -0.4][:n], "fock": [1, 0] if n == 2 else None})
    # vib: temperatures, mixed two-mode squeezing, every loss setting of sample()
    for i, (T, tmix) in enumerate(((0.0, None), (300.0, None), (750.0, [0.0, 0.3]), (1.0, None))):
        c = {"family": "vib", "w": [1014.69, 452.31], "wp": [1461.86, 380.9], "Ud": _lst(_orth(rng, 2, "rotation")), "delta": [0.7, -0.4],
             "T": T, "tmix": tmix, "np_seed": 4000 + i}
        if i == 1:
            c["hbar_global"] = 1.0
        cases.append(c)
    cases.append({"family": "vib", "w": [800.0], "wp": [1700.0], "Ud": [[1.0]], "delta": [-1.1], "T": 300.0, "tmix": None, "np_seed": 4002})
    # marg
    for hb, nmax in ((None, 6), (1.0, 3), (0.5, 1)):
        c = {"family": "marg", "n": 2, "cmds": [["S", [0.4, 0.3], [0]], ["D", [0.6, 1.0], [1]], ["BS", [0.7, 0.2], [0, 1]], ["L", [0.9], [1]]],
             "n_max": nmax, "hbar": 1.7}
        if hb:
            c["hbar_global"] = hb
        cases.append(c)
    # samplers: every kind, with and without loss, and every malformed-argument kind
    Ul = _lst(_orth(rng, 2, "rotation"))
    inputs = {"fock": [1, 1], "tmsv": [[0.5, 0.4], [0.3, -1.0]], "coherent": [[0.8, 0.4], [0.4, -2.0]]}
    for kind in ("fock", "tmsv", "coherent"):
        for loss in (0.0, 0.4, 1.0):
            cases.append({"family": "smp", "kind": kind, "bad": None, "n": 2, "Ul": Ul, "w": [3914.92, 3787.59], "t": 11.0, "loss": loss,
                          "n_samples": 2, "np_seed": 77, "input": inputs[kind], "cutoff": 3})
        for bad in ["complex-Ul", "n_samples", "length"] + (["negative", "cutoff"] if kind == "fock" else []):
            cases.append({"family": "smp", "kind": kind, "bad": bad, "n": 2, "Ul": Ul, "w": [3914.92, 3787.59], "t": 11.0, "loss": 0.0,
                          "n_samples": 2, "np_seed": 78, "input": inputs[kind], "cutoff": 3})
    for kind in ["embed-dim", "vgbs-asym", "samples-shape", "T-negative", "marg-shape", "marg-nmax", "orbit-nmean", "event-neg"]:
        cases.append({"family": "bad", "kind": kind, "n": 2, "x": 0.5})
    return cases


def search(ctx):
    rng = ctx.rng
    for case in corpus_cases():
        ctx.case(case, nontrivial=nontrivial(case), bucket="corpus-" + case["family"])
        for sig, what in run_check(case):
            ctx.counterexample(sig, what, {"case": case})
    for case in sweep_cases():
        ctx.case(case, nontrivial=nontrivial(case), bucket="sweep-" + case["family"])
        for sig, what in run_check(case):
            ctx.counterexample(sig, what, {"case": case})
    plan = [("train", ctx.budget(45, 450)), ("sim", ctx.budget(25, 200)), ("dyn", ctx.budget(20, 150)), ("vib", ctx.budget(20, 150)),
            ("dus", ctx.budget(25, 300)), ("marg", ctx.budget(20, 150)), ("bad", ctx.budget(16, 60)), ("smp", ctx.budget(60, 300)), ("hist", ctx.budget(30, 200))]
    for fam, k in plan:
        for _ in range(k):
            case = gen_case(rng, fam, big=not ctx.quick)
            ctx.case(case, nontrivial=nontrivial(case), bucket=fam + ("-" + case["kind"] if fam in ("bad", "smp") else "") + ("-hbar" if case.get("hbar_global") else ""))
            for sig, what in run_check(case):
                ctx.counterexample(sig, what, {"case": case})


def replay(ctx, data):
    case = data["data"]["case"]
    want = data.get("signature")
    fails = run_check(case)
    for sig, what in fails:
        print("FAILS [%s] %s" % (sig, what))
    if not fails:
        print("all predicates of family %r hold on this input" % case["family"])
    if want and not want.startswith(("corr:", "obligation:")):
        return any(s == want for s, _ in fails)
    return bool(fails)
