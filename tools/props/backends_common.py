"""Run one program spec on every simulator backend / representation and extract comparable observables.
Shared by C01, C05, C07."""
import math

import numpy as np

import strawberryfields as sf
from vlib import sfgen

BACKENDS = ["gaussian", "bosonic", "fock-pure", "fock-mixed"]

# ops each backend accepts natively or through its compiler (numeric parameters)
GAUSS_OPS = list(sfgen.GAUSSIAN_GATES) + list(sfgen.CHANNELS) + list(sfgen.PREPS)
FOCK_ONLY = list(sfgen.NONGAUSS) + ["Fock"]


def run(spec, backend, cutoff=8):
    prog = sfgen.build_program(spec)
    if backend == "gaussian":
        eng = sf.Engine("gaussian")
    elif backend == "bosonic":
        eng = sf.Engine("bosonic")
    elif backend == "fock-pure":
        eng = sf.Engine("fock", backend_options={"cutoff_dim": cutoff, "pure": True})
    elif backend == "fock-mixed":
        eng = sf.Engine("fock", backend_options={"cutoff_dim": cutoff, "pure": False})
    else:
        raise ValueError(backend)
    return eng.run(prog).state


def gauss_obs(state):
    """means (xxpp, hbar=2) and cov of a Gaussian or single-weight bosonic state."""
    if hasattr(state, "weights"):
        w = np.array(state.weights())
        means = np.array(state.means())
        covs = np.array(state.covs())
        if len(w) != 1:
            # mixture: overall mean and covariance
            mu = np.einsum("i,ij->j", w, means)
            cov = np.einsum("i,ijk->jk", w, covs) + np.einsum("i,ij,ik->jk", w, means, means) - np.outer(mu, mu)
            means, cov = mu.real, cov.real
        else:
            means, cov = means[0].real, covs[0].real
        # bosonic backend reports xpxp ordering -> convert to xxpp
        n = len(means) // 2
        perm = [2 * i for i in range(n)] + [2 * i + 1 for i in range(n)]
        return means[perm], cov[np.ix_(perm, perm)]
    return np.array(state.means()), np.array(state.cov())


def reduced_gauss(means, cov, modes):
    n = len(means) // 2
    idx = list(modes) + [m + n for m in modes]
    return means[idx], cov[np.ix_(idx, idx)]


def fock_dm(state):
    """Full density matrix with indices (i0,j0,i1,j1,...)."""
    return state.dm()


def fock_reduced(state, modes):
    return state.reduced_dm(list(modes))


def fock_tol(state):
    tr = float(np.real(state.trace()))
    return 1e-6 + 4.0 * math.sqrt(max(0.0, 1.0 - tr)), tr


def weak_prefix(rng, n):
    """Correlated, displaced, mixed state with little energy (so that a Fock cutoff of 8-10 loses ~1e-6 trace)."""
    cmds = []
    for i in range(n):
        cmds.append(["Sgate", [round(rng.uniform(0.1, 0.3), 3) * rng.choice([1, -1]), round(rng.uniform(-1, 1), 3)], [i], False])
        cmds.append(["Dgate", [round(rng.uniform(0.1, 0.4), 3), round(rng.uniform(-2, 2), 3)], [i], False])
    for i in range(n - 1):
        cmds.append(["BSgate", [round(rng.uniform(0.4, 1.1), 3), round(rng.uniform(-1, 1), 3)], [i, i + 1], False])
    if n > 2:
        cmds.append(["BSgate", [round(rng.uniform(0.4, 1.1), 3), round(rng.uniform(-1, 1), 3)], [n - 1, 0], False])
    for i in range(n):
        if rng.random() < 0.4:
            cmds.append(["ThermalLossChannel", [round(rng.uniform(0.7, 0.95), 3), round(rng.uniform(0.05, 0.3), 3)], [i], False])
    return cmds


def weak_cmd(rng, n, names):
    """One command with small parameters (for Fock comparisons)."""
    names = [x for x in names if sfgen.ALL[x][0] <= n]
    name = rng.choice(names)
    if name == "PassiveChannel":
        return sfgen.random_cmd(rng, n, [name])
    nm, kinds = sfgen.ALL[name]
    modes = rng.sample(range(n), nm)
    params = []
    for k in kinds:
        if k == "a":
            params.append(rng.choice([0.0, math.pi / 2, math.pi, -math.pi / 2, math.pi / 4]) if rng.random() < 0.3 else round(rng.uniform(-math.pi, math.pi), 3))
        elif k == "t":
            params.append(rng.choice([1.0, 0.5, 0.0]) if rng.random() < 0.3 else round(rng.uniform(0.2, 1.0), 3))
        elif k == "n":
            params.append(round(rng.uniform(0.0, 0.3), 3))
        elif k == "d":
            params.append(rng.choice([0.0, 0.3]) if rng.random() < 0.2 else round(rng.uniform(0, 0.4), 3))
        elif k == "k":
            params.append(rng.randrange(0, 3))
        else:
            params.append(rng.choice([0.0, 0.2, -0.2]) if rng.random() < 0.2 else round(rng.uniform(-0.3, 0.3), 3))
    dagger = (name in sfgen.GAUSSIAN_GATES or name in sfgen.NONGAUSS) and rng.random() < 0.2
    return [name, params, modes, bool(dagger)]
