"""C03 — circuit optimisation never changes what a program computes."""
import copy
import math
from fractions import Fraction

import numpy as np

import strawberryfields as sf
from strawberryfields import ops
from props import backends_common as bc
from vlib import coq

PROP = "C03"
LEVEL = "proof"
COQ_DIRS = ["C03"]
COQ_TARGETS = ["Base/Reorder.vo", "C03/Model.vo", "C03/Proofs.vo", "C03/Families.vo", "C03/Global.vo"]
PROPERTIES_FILE = "Properties/C03.v"
ALLOWED_AXIOMS = set()
RULE = ("model stream: circuits of 0-12 commands (half of them after a correlated displaced prefix) on 1-4 modes mixing every single-mode family (D, X, Z, S, R, P, V, K, "
        "Fourier, loss, thermal loss, MSgate, preparations), two-mode gates (BS, CX, CZ, S2, MZ, CK; repeated on the same / reversed modes), measurements, gates with measured "
        "parameters, daggers, Del; first parameters on a dyadic grid with equal / opposite / opposite-up-to-1/256 repeats so that exact and near cancellation (p0 == 0, T == 1, "
        "T == 0) occur; optimised grid compared wire by wire with the model (exact rationals); original vs optimised executed on a backend; objects snapshotted. "
        "extended stream (property predicate only): deterministic sweeps family x parameter relation x dagger flags x context (plain, reversed modes, separated, blocked, "
        "deleted later, on a New mode, mode 5 of 6) for every single- and two-mode gate family, channel pairs (T in {0, 1, near 1}, equal / different / nearly equal further "
        "parameters), 1x1 / 2x2 matrix operations (inverse, minus inverse, near inverse), ordered cross-family pairs over every preparation / measurement / channel / gate, free "
        "symbols and measured values as first and further parameters, random programs with New / Del on up to 7 modes, time-domain programs; routes: optimize, optimize twice, "
        "optimize after a run, engine compile_options, compile().optimize(), compile(optimize=True) for gaussian / fock / bosonic / gaussian_unitary / gaussian_merge / passive / "
        "gbs / Xunitary / Xcov; judged against a freshly built never-optimised program, by-value fingerprint of the original (every attribute of every operation, parameter-list "
        "identities, register, program attributes) before / after optimisation and after running the copy; non-trivial = at least one merge fired")
TRUSTED_BASE = [
    "Coq 8.16.1 kernel; vm_compute (model executed at Q)",
    "hand model coq/C03/Model.v of Operation.merge (Gate/Channel/Preparation/Fouriergate) and of optimize_circuit's per-wire loop, tied by exact correspondence",
    "Section hypotheses of merge_sound_from_laws: each gate family is a one-parameter group in p[0] (proved for R, S, D, X, Z, P in C03/Families.v; assumed for K, V as exp(i p0 H)), "
    "channels multiply, a preparation absorbs what precedes it on its mode",
    "multi-wire optimisation: C03_optimize_circuit_sound covers every linearisation of the optimised grid; its hypotheses on the implementation's output "
    "(distinct command objects, each on >= 1 wire, per-wire projections = the model's per-wire results) are what the correspondence checks on every case",
    "Section hypothesis of the whole-optimiser theorem: commands without a common wire (register modes + measured-parameter modes) commute",
]
TRUSTED_BASE.append("extended stream: no model; the implementation's backends are the judge of 'same output state' (Gaussian: means + covariance at 1e-7; Fock: density matrix, tolerance scaled by the truncated trace)")
ASSUMPTIONS = ["commands that share no wire of the grid commute (physics of disjoint subsystems + classical dependencies are wires); K/V one-parameter-group laws assumed"]
MANIFEST_TEXT = ("Proved: the optimiser's per-wire merging loop terminates and preserves the composition for every command list, given merge soundness; merge soundness "
                 "derived from the one-parameter-group laws, which are proved for the Gaussian single-mode families as 2x2 identities; two Fourier gates are "
                 "provably not mergeable into one. C03_optimize_circuit_sound: the whole optimiser (all wires, then any re-linearisation of the optimised grid) preserves the ordered "
                 "composition for every command list, in any monoid where commands without a common wire commute (unbounded in commands, wires, modes).")

PH = [0.25, 0.5]
GRID8 = [-4, -3, -2, -1, 1, 2, 3, 4, 0]

# family -> (kind, class name, number of extra params)
FAMS = {
    "Dgate": ("KGate", 1), "Xgate": ("KGate", 0), "Zgate": ("KGate", 0), "Sgate": ("KGate", 1), "Rgate": ("KGate", 0), "Pgate": ("KGate", 0),
    "Vgate": ("KGate", 0), "Kgate": ("KGate", 0), "Fouriergate": ("KFourier", 0),
    "LossChannel": ("KChannel", 0), "ThermalLossChannel": ("KChannel", 1), "MSgate": ("KOther", 1),
    "Vacuum": ("KPrep", 0), "Coherent": ("KPrep", 1), "Squeezed": ("KPrep", 1), "Thermal": ("KPrep", 0), "Fock": ("KPrep", 0),
    "BSgate": ("KGate", 1), "CXgate": ("KGate", 0), "MeasureX": ("KOther", 0), "RgateM": ("KOther", 0), "Del": ("KOther", 0),
    "S2gate": ("KGate", 1), "CZgate": ("KGate", 0), "MZgate": ("KGate", 1), "CKgate": ("KGate", 0),
}
TWO_MODE = ("BSgate", "CXgate", "S2gate", "CZgate", "MZgate", "CKgate")
FAM_ID = {n: i for i, n in enumerate(sorted(FAMS))}


def gen_circuit(rng, profile):
    fock = profile == "fock"
    bos = profile == "bosonic"
    n = rng.randint(1, 4 if profile == "gauss" else 3)
    names = ["Dgate", "Xgate", "Zgate", "Sgate", "Rgate", "Pgate", "Fouriergate", "LossChannel", "Vacuum", "Coherent", "Squeezed", "BSgate", "CXgate"]
    if fock:
        names += ["Vgate", "Kgate", "Fock", "CKgate"]
    else:
        names += ["ThermalLossChannel", "Thermal", "MeasureX", "RgateM"]
    if bos:
        names += ["MSgate"]
    if profile == "gauss":
        names += ["S2gate", "CZgate", "MZgate"]
    cmds = []
    measured = set()
    deleted = set()
    if rng.random() < 0.5:
        # a correlated, displaced starting state: on the vacuum many wrong merges would be invisible in the state
        for m in range(n):
            cmds.append({"name": "Sgate", "p0": Fraction(3 if not fock else 1, 16), "extra": [0.5], "modes": [m], "dagger": False})
            cmds.append({"name": "Dgate", "p0": Fraction(2 if not fock else 1, 8), "extra": [0.25], "modes": [m], "dagger": False})
        for m in range(n - 1):
            cmds.append({"name": "BSgate", "p0": Fraction(4, 8), "extra": [0.25], "modes": [m, m + 1], "dagger": False})
    for _ in range(rng.randint(0, 12)):
        p0_rel = None
        if cmds and rng.random() < 0.45:
            # same family on the same mode(s) as some earlier command: provoke merges (two-mode families too: they must never merge)
            prev = rng.choice([c for c in cmds if len(c["modes"]) == 1] or cmds) if rng.random() < 0.7 else rng.choice(cmds)
            name, modes = prev["name"], list(prev["modes"])
            if name == "Del":
                continue
            if len(modes) == 2 and rng.random() < 0.15:
                modes = modes[::-1]
            extra = list(prev["extra"]) if rng.random() < 0.8 else None
            if name == "RgateM":
                cmds.append({"name": name, "p0": prev["p0"], "extra": [], "modes": modes, "dagger": False})
                continue
            if isinstance(prev["p0"], Fraction) and FAMS[name][0] == "KGate":
                r = rng.random()
                p0_rel = (prev, 1) if r < 0.2 else ((prev, -1) if r < 0.4 else ((prev, 0) if r < 0.5 else None))
        else:
            name = rng.choice(names)
            modes, extra = None, None
        two = name in TWO_MODE
        if two and n < 2:
            continue
        if modes is None or len(modes) != (2 if two else 1):
            modes = rng.sample(range(n), 2 if two else 1)
        if set(modes) & deleted:
            continue
        kind, nextra = FAMS[name]
        if name in ("LossChannel", "ThermalLossChannel"):
            p0 = Fraction(rng.choice([8, 8, 4, 2, 6, 0]), 8) if rng.random() < 0.9 else Fraction(255, 256)
        elif name in ("Fouriergate", "Vacuum", "MeasureX"):
            p0 = None
        elif name == "Fock":
            p0 = Fraction(rng.choice([0, 1, 2]))
        elif name == "Thermal":
            p0 = Fraction(rng.choice([1, 2, 4]), 8)
        elif name == "RgateM":
            if not measured:
                continue
            src = rng.choice(sorted(measured))
            if src == modes[0] or src in deleted:
                continue
            p0 = ("meas", src)
        elif name in ("Vgate", "Kgate"):
            p0 = Fraction(rng.choice([-1, 1, 2, -2, 0]), 16)
        elif name == "MSgate":
            p0 = Fraction(rng.choice([1, 2]), 8)
        else:
            p0 = Fraction(rng.choice(GRID8), 8 if name != "Sgate" else 16)
        if extra is None or len(extra) != nextra:
            extra = [rng.choice(PH) for _ in range(nextra)]
        dagger = kind in ("KGate", "KFourier") and name != "RgateM" and rng.random() < 0.3
        if p0_rel is not None:
            # effective parameter (sign flipped by a dagger) equal / opposite / opposite up to 1/256 to that of the earlier command
            prev, rel = p0_rel
            eff = -prev["p0"] if prev["dagger"] else prev["p0"]
            eff2 = eff if rel == 1 else (-eff if rel == -1 else -eff + Fraction(1, 256))
            p0 = -eff2 if dagger else eff2
        if name == "MeasureX":
            measured.add(modes[0])
        cmds.append({"name": name, "p0": p0, "extra": extra, "modes": modes, "dagger": dagger})
        if n >= 2 and len(deleted) < n - 1 and rng.random() < 0.06:
            # delete a mode that was used before: nothing may touch it afterwards
            dm = rng.choice([m for m in range(n) if m not in deleted])
            deleted.add(dm)
            cmds.append({"name": "Del", "p0": None, "extra": [], "modes": [dm], "dagger": False})
        if name == "RgateM" and rng.random() < 0.6:
            cmds.append({"name": name, "p0": p0, "extra": [], "modes": list(modes), "dagger": False})
        if name == "RgateM" and rng.random() < 0.6:
            # a plain gate of the same family directly next to the feed-forward gate, on the same mode
            plain = {"name": "Rgate", "p0": Fraction(rng.choice([1, 2, -3, 4]), 8), "extra": [], "modes": list(modes), "dagger": rng.random() < 0.3}
            if rng.random() < 0.5:
                cmds.append(plain)
            else:
                cmds.insert(len(cmds) - 1, plain)
    # the front end rejects any use of a deleted mode (as target or as source of a measured parameter): drop such commands
    # (false alarm of seed 23: a repeated feed-forward gate was emitted after the Del of its mode)
    dead, kept = set(), []
    for c in cmds:
        src = c["p0"][1] if c["name"] == "RgateM" else None
        if set(c["modes"]) & dead or src in dead:
            continue
        kept.append(c)
        if c["name"] == "Del":
            dead.add(c["modes"][0])
    return {"n": n, "cmds": kept}


def ser(c):
    p0 = c["p0"]
    if isinstance(p0, Fraction):
        p0 = [p0.numerator, p0.denominator]
    elif isinstance(p0, tuple):
        p0 = list(p0)
    return [c["name"], p0, c["extra"], c["modes"], c["dagger"]]


def deser(x):
    name, p0, extra, modes, dagger = x
    if isinstance(p0, list) and p0 and p0[0] == "meas":
        p0 = ("meas", p0[1])
    elif isinstance(p0, list):
        p0 = Fraction(p0[0], p0[1])
    return {"name": name, "p0": p0, "extra": extra, "modes": modes, "dagger": dagger}


def build(circ):
    prog = sf.Program(circ["n"])
    with prog.context as q:
        for c in circ["cmds"]:
            name, p0 = c["name"], c["p0"]
            if name == "RgateM":
                op = ops.Rgate(q[p0[1]].par)
            elif name == "MeasureX":
                # post-selected so that both runs are deterministic
                op = ops.MeasureHomodyne(0.0, select=0.25)
            elif name == "Del":
                ops.Del | q[c["modes"][0]]
                continue
            elif name in ("Fouriergate", "Vacuum"):
                op = getattr(ops, name)()
            elif name == "Fock":
                op = ops.Fock(int(p0))
            else:
                op = getattr(ops, name)(float(p0), *c["extra"])
            if c["dagger"]:
                op = op.H
            op | tuple(q[m] for m in c["modes"])
    return prog


def deps_of(c):
    d = list(c["modes"])
    if c["name"] == "RgateM" and c["p0"][1] not in d:
        d.append(c["p0"][1])
    return d


def enc(i, c):
    kind, _ = FAMS[c["name"]]
    p0 = c["p0"]
    q = "(%d # %d)" % (p0.numerator, p0.denominator) if isinstance(p0, Fraction) else "(0 # 1)"
    rest = [int(round(x * 1024)) for x in c["extra"]]
    return "(mkOp %s %d %s %s %s %d %s %s %d)" % (kind, FAM_ID[c["name"]], q, coq.coq_list(rest, coq.coq_Z), coq.coq_bool(c["dagger"]),
                                                    len(c["modes"]), coq.coq_list(c["modes"], str), coq.coq_list(deps_of(c), str), i)


def view_impl(prog_opt):
    """Per wire, the optimised commands touching it, as comparable tuples."""
    out = []
    for c in prog_opt.circuit:
        name = c.op.__class__.__name__
        modes = [r.ind for r in c.reg]
        deps = sorted(r.ind for r in c.get_dependencies())
        p = c.op.p
        meas = bool(c.op.measurement_deps)
        if meas:
            name = "RgateM"
        if name == "MeasureHomodyne":
            name = "MeasureX"
        if name == "_Delete":
            name = "Del"
        p0 = None
        if p and not meas and name not in ("Fouriergate", "MeasureX"):
            try:
                p0 = float(p[0])
            except Exception:
                p0 = None
        extra = []
        if not meas:
            for x in p[1:]:
                try:
                    extra.append(int(round(float(x) * 1024)))
                except Exception:
                    pass
        nextra = FAMS.get(name, ("", 0))[1]
        out.append({"name": name, "p0": p0, "extra": extra[:nextra], "modes": modes, "deps": deps, "dagger": bool(getattr(c.op, "dagger", False)), "ident": id(c)})
    return out


def same_cmd(m, v):
    """m: model tuple (id, fam, (num, den), rest, dag, regs); v: impl view dict."""
    _, fam, (num, den), rest, dag, regs = m
    if FAM_ID.get(v["name"]) != fam or list(regs) != v["modes"] or bool(dag) != v["dagger"]:
        return False
    if list(rest) != v["extra"]:
        return False
    if v["p0"] is not None and abs(v["p0"] - num / den) > 1e-12:
        return False
    return True


def states_differ(circ, prog, opt, profile):
    backend = {"gauss": "gaussian", "fock": "fock", "bosonic": "bosonic"}[profile]
    def run(p):
        if backend == "fock":
            eng = sf.Engine("fock", backend_options={"cutoff_dim": 7})
        else:
            eng = sf.Engine(backend)
        return eng.run(p, shots=1).state
    # measurements: post-select nothing; remove randomness by seeding identically
    # post-selected homodyne on the gaussian backend still draws the conjugate quadrature from np.random.normal;
    # make that draw deterministic (its mean) so that the comparison does not depend on the order of RNG calls
    orig_normal = np.random.normal
    np.random.normal = lambda loc=0.0, scale=1.0, size=None: (np.asarray(loc, dtype=float) if size is None else np.broadcast_to(np.asarray(loc, dtype=float), size).copy())
    try:
        np.random.seed(1234)
        try:
            s1 = run(prog)
        except Exception:
            return None  # the ORIGINAL program cannot be run on this backend: nothing to compare (not an optimiser issue)
        np.random.seed(1234)
        s2 = run(opt)
    finally:
        np.random.normal = orig_normal
    if backend == "fock" and s1.dm().shape != s2.dm().shape:
        return True
    if backend == "fock":
        # truncated matrices are not exactly a group: allow the error attributable to truncation
        tol = max(bc.fock_tol(s1)[0], bc.fock_tol(s2)[0], 1e-4)
        return float(np.abs(s1.dm() - s2.dm()).max()) > tol
    o1, o2 = bc.gauss_obs(s1), bc.gauss_obs(s2)
    if o1[0].shape != o2[0].shape:
        return True
    return max(np.abs(o1[0] - o2[0]).max(), np.abs(o1[1] - o2[1]).max()) > 1e-8


def snapshot(prog):
    return [(id(c), id(c.op), c.op.__class__.__name__, [repr(x) for x in c.op.p], bool(getattr(c.op, "dagger", False)), [r.ind for r in c.reg]) for c in prog.circuit]


def judge(ctx, circ, profile, record=True):
    """Run one circuit through implementation and (later) model. Returns item dict or None."""
    prog = build(circ)
    snap = snapshot(prog)
    import warnings
    with warnings.catch_warnings():
        warnings.simplefilter("ignore")
        opt = prog.optimize()
    data = {"check": "opt", "profile": profile, "circ": {"n": circ["n"], "cmds": [ser(c) for c in circ["cmds"]]}}
    if snapshot(prog) != snap:
        ctx.counterexample("optimize:mutates-original", "Program.optimize() modified the original program or its operation objects", data)
    try:
        diff = states_differ(circ, prog, opt, profile)
    except Exception as e:
        ctx.counterexample("optimize:run-raises:%s" % type(e).__name__, "running original/optimised raised %r" % e, data)
        return None
    if diff is None:
        ctx.hist["original-not-runnable"] = ctx.hist.get("original-not-runnable", 0) + 1
    return {"circ": circ, "profile": profile, "view": view_impl(opt), "diff": bool(diff), "data": data, "n_in": len(prog.circuit), "n_out": len(opt.circuit)}


def culprit(item):
    """Name the family pair responsible, for the signature: families that were merged (present fewer times in the output)."""
    from collections import Counter
    cin = Counter(c["name"] for c in item["circ"]["cmds"])
    cout = Counter(v["name"] for v in item["view"])
    lost = sorted(k for k in cin if cout.get(k, 0) < cin[k])
    return "+".join(lost) or "none"


def feedforward_sweep():
    """Fixed small circuits around a feed-forward gate (a gate whose parameter is a measured value of another mode)."""
    F = Fraction
    def c(name, p0=None, modes=(0,), dagger=False, extra=()):
        return {"name": name, "p0": p0, "extra": list(extra), "modes": list(modes), "dagger": dagger}
    meas = c("MeasureX", None, (1,))
    ff = c("RgateM", ("meas", 1), (0,))
    out = []
    for plain in (c("Rgate", F(1, 2)), c("Rgate", F(-3, 8), dagger=True)):
        out.append({"n": 2, "cmds": [c("Sgate", F(3, 16), extra=[0.5]), meas, plain, ff]})
        out.append({"n": 2, "cmds": [c("Sgate", F(3, 16), extra=[0.5]), meas, ff, plain]})
        out.append({"n": 2, "cmds": [c("Sgate", F(3, 16), extra=[0.5]), meas, plain, ff, plain]})
    out.append({"n": 2, "cmds": [c("Sgate", F(3, 16), extra=[0.5]), meas, ff, ff]})
    out.append({"n": 3, "cmds": [c("Sgate", F(3, 16), extra=[0.5]), meas, c("Rgate", F(1, 4), (2,)), ff, c("Rgate", F(1, 4), (0,)), c("Rgate", F(1, 8), (2,))]})
    return out


def correspondence(ctx):
    rng = ctx.rng
    items = []
    for circ in feedforward_sweep():
        it = judge(ctx, circ, "gauss")
        if it:
            items.append(it)
    for _ in range(ctx.budget(260, 2600)):
        profile = rng.choice(["gauss", "gauss", "fock", "bosonic"])
        circ = gen_circuit(rng, profile)
        try:
            it = judge(ctx, circ, profile)
        except Exception as e:
            ctx.counterexample("optimize:raises:%s" % type(e).__name__, "optimize raised %r" % e, {"check": "opt", "profile": profile, "circ": {"n": circ["n"], "cmds": [ser(c) for c in circ["cmds"]]}})
            continue
        if it:
            items.append(it)
    for si in range(0, len(items), 300):
        sh = items[si:si + 300]
        lines = ["From Coq Require Import List Arith Bool ZArith QArith.", "Import ListNotations.", "From SFV Require Import Base.Reorder C03.Model.",
                 "Local Open Scope nat_scope.", "Definition cases := ["]
        rows = []
        for it in sh:
            c = it["circ"]
            rows.append("optimize_gridQ %s %s" % (coq.coq_list([enc(i, x) for i, x in enumerate(c["cmds"])]), coq.coq_list(list(range(c["n"])), str)))
        lines.append(";\n".join(rows) + "].")
        lines.append("Eval vm_compute in cases.")
        ok, vals, raw = ctx.coq_eval("cases_opt_%d" % (si // 300), "\n".join(lines))
        if not ok:
            ctx.obligation("correspondence:optimize:shard%d" % (si // 300), False, raw)
            return
        for it, grid in zip(sh, vals[0]):
            agree = True
            why = ""
            for w, res in grid:
                if res is None:
                    agree, why = False, "model ran out of fuel"
                    break
                mlist = res[1] if isinstance(res, tuple) and res[0] == "Some" else res
                vlist = [v for v in it["view"] if w in v["deps"]]
                if len(mlist) != len(vlist) or not all(same_cmd(m, v) for m, v in zip(mlist, vlist)):
                    agree, why = False, "wire %d: model %s vs implementation %s" % (w, mlist, [(v["name"], v["p0"], v["modes"], v["dagger"]) for v in vlist])
                    break
            # remaining hypotheses of C03_optimize_circuit_sound on the implementation's output: distinct command objects, each on >= 1 wire
            if agree and (len({v["ident"] for v in it["view"]}) != len(it["view"]) or any(not v["deps"] for v in it["view"])):
                agree, why = False, "optimised circuit repeats a Command object or holds a command on no wire"
            merged = it["n_out"] < it["n_in"]
            ctx.case(it["data"]["circ"], nontrivial=merged, bucket=it["profile"] + ("-merged" if merged else "-unchanged"))
            if it["diff"]:
                ctx.counterexample("optimize:changes-state:" + culprit(it), "optimised program computes a different state than the original (merged families: %s)" % culprit(it), it["data"])
            elif not agree:
                ctx.disagreement("corr:optimize:" + culprit(it), "optimised grid differs from the model: " + why, it["data"])
    ctx.traces += len(items)


def search(ctx):
    """compile(optimize=True) path + object-sharing check: ops shared between original and optimised copy are unmodified."""
    rng = ctx.rng
    for _ in range(ctx.budget(60, 600)):
        circ = gen_circuit(rng, "gauss")
        circ["cmds"] = [c for c in circ["cmds"] if c["name"] not in ("MeasureX", "RgateM")]
        prog = build(circ)
        snap = snapshot(prog)
        data = {"check": "compile", "profile": "gauss", "circ": {"n": circ["n"], "cmds": [ser(c) for c in circ["cmds"]]}}
        import warnings
        try:
            with warnings.catch_warnings():
                warnings.simplefilter("ignore")
                comp = prog.compile(compiler="gaussian", optimize=True)
        except Exception as e:
            ctx.counterexample("compile-optimize:raises:%s" % type(e).__name__, "compile(optimize=True) raised %r" % e, data)
            continue
        ctx.case(data["circ"], nontrivial=len(comp.circuit) < len(prog.circuit), bucket="compile-optimize")
        if snapshot(prog) != snap:
            ctx.counterexample("compile-optimize:mutates-original", "compile(optimize=True) modified the user's program", data)
            continue
        try:
            o1 = bc.gauss_obs(sf.Engine("gaussian").run(prog).state)
            eng = sf.Engine("gaussian")
            o2 = bc.gauss_obs(eng.run(comp).state)
        except Exception as e:
            ctx.counterexample("compile-optimize:run-raises:%s" % type(e).__name__, "running raised %r" % e, data)
            continue
        if max(np.abs(o1[0] - o2[0]).max(), np.abs(o1[1] - o2[1]).max()) > 1e-8:
            ctx.counterexample("compile-optimize:changes-state", "compile(optimize=True) changes the computed state", data)
    search_matrix_merge(ctx)
    search_extended(ctx)


# ---- single-mode operations whose first parameter is a MATRIX: Decomposition.merge (U2 @ U1) and Channel.merge (np.dot) ----------------
def _mat_cmd(rng, n):
    kind = rng.choice(["GaussianTransform", "GaussianTransform", "Interferometer", "PassiveChannel", "Rgate", "Sgate", "BSgate", "LossChannel"])
    m = rng.randrange(n)
    if kind == "GaussianTransform":
        # 2x2 symplectic = rotation . squeeze . rotation (non-commuting family: the order of the product matters)
        a, b, r = rng.uniform(-3, 3), rng.uniform(-3, 3), rng.uniform(-0.6, 0.6)
        R = lambda t: np.array([[math.cos(t), -math.sin(t)], [math.sin(t), math.cos(t)]])
        S = R(a) @ np.diag([math.exp(-r), math.exp(r)]) @ R(b)
        return [kind, np.round(S, 12).tolist(), [m]]
    if kind == "Interferometer":
        t = rng.choice([0.0, math.pi, 0.5, -1.25, 2.0])
        return [kind, [[[math.cos(t), math.sin(t)]]], [m]]
    if kind == "PassiveChannel":
        t, a = rng.choice([1.0, 0.5, 0.8, 0.3]), rng.choice([0.0, 0.7, -2.0, math.pi])
        return [kind, [[[t * math.cos(a), t * math.sin(a)]]], [m]]
    if kind == "BSgate":
        if n < 2:
            return ["Rgate", [0.3], [m]]
        return [kind, [round(rng.uniform(0.2, 1.2), 3), round(rng.uniform(-1, 1), 3)], rng.sample(range(n), 2)]
    if kind == "LossChannel":
        return [kind, [rng.choice([0.5, 0.8])], [m]]
    return [kind, [round(rng.uniform(-0.6, 0.6), 3)] + ([round(rng.uniform(-1, 1), 3)] if kind == "Sgate" else []), [m]]


def _mat_op(name, par):
    if name == "GaussianTransform":
        return ops.GaussianTransform(np.array(par, dtype=float))
    if name in ("Interferometer", "PassiveChannel"):
        M = np.array([[complex(*z) for z in row] for row in par])
        return getattr(ops, name)(M)
    return getattr(ops, name)(*par)


def _mat_build(spec):
    prog = sf.Program(spec["n"])
    with prog.context as q:
        for name, par, modes in spec["cmds"]:
            _mat_op(name, par) | tuple(q[m] for m in modes)
    return prog


def mat_merge_check(spec):
    """(signature, text) or None: original vs optimised program on the Gaussian backend; a pair that multiplies to the identity must vanish."""
    import warnings
    prog = _mat_build(spec)
    snap = snapshot(prog)
    mats0 = [np.array(c.op.p[0], dtype=complex).copy() if c.op.__class__.__name__ in ("GaussianTransform", "Interferometer", "PassiveChannel") else None for c in prog.circuit]
    with warnings.catch_warnings():
        warnings.simplefilter("ignore")
        opt = prog.optimize()
    if snapshot(prog) != snap or any(m is not None and not np.array_equal(np.array(c.op.p[0], dtype=complex), m) for c, m in zip(prog.circuit, mats0)):
        return "optimize:matrix-op:mutates-original", "optimize() modified the original program's matrix parameters"
    with warnings.catch_warnings():
        warnings.simplefilter("ignore")
        o1 = bc.gauss_obs(sf.Engine("gaussian").run(prog).state)
        o2 = bc.gauss_obs(sf.Engine("gaussian").run(opt).state)
    d = max(np.abs(o1[0] - o2[0]).max(), np.abs(o1[1] - o2[1]).max())
    if d > 1e-7:
        fams = "+".join(sorted({c[0] for c in spec["cmds"] if c[0] in ("GaussianTransform", "Interferometer", "PassiveChannel")}))
        return "optimize:changes-state:" + fams, "optimised program computes a different Gaussian state (max |delta| = %.3g)" % d
    return None, len(opt.circuit) < len(prog.circuit)


def search_matrix_merge(ctx):
    rng = ctx.rng
    for it in range(ctx.budget(60, 600)):
        n = rng.randint(1, 3)
        pre = [["Sgate", [0.4, 0.3 * i], [i]] for i in range(n)] + [["Rgate", [0.7 + i], [i]] for i in range(n)] + ([["BSgate", [0.6, 0.4], [0, n - 1]]] if n > 1 else [])
        cmds = [_mat_cmd(rng, n) for _ in range(rng.randint(2, 7))]
        if it % 4 == 0:
            # an exact inverse pair on one mode, possibly separated by commands on other modes
            m = rng.randrange(n)
            c = _mat_cmd(rng, n)
            while c[0] != "GaussianTransform":
                c = _mat_cmd(rng, n)
            c[2] = [m]
            inv = ["GaussianTransform", np.round(np.linalg.inv(np.array(c[1])), 12).tolist(), [m]]
            between = [x for x in (_mat_cmd(rng, n) for _ in range(2)) if m not in x[2]]
            cmds = cmds[:2] + [c] + between + [inv] + cmds[2:]
        spec = {"n": n, "cmds": pre + cmds}
        data = {"check": "matmerge", "spec": spec}
        try:
            r = mat_merge_check(spec)
        except Exception as e:
            ctx.counterexample("optimize:matrix-op:raises:%s" % type(e).__name__, "optimising / running %s raised %r" % (spec, e), data)
            continue
        ctx.case(spec, nontrivial=bool(r[1]) if r[0] is None else True, bucket="matrix-merge")
        if r[0] is not None:
            ctx.counterexample(r[0], r[1], data)


# ======================================================================================================================
# Extended stream (no Coq model: the property's own predicate evaluated on the implementation).
# Programs outside the model's vocabulary -- symbolic (free / measured) parameters, every preparation / measurement /
# two-mode family, New, 4-6 modes -- through EVERY optimising entry point and several call histories.
#
# xspec = {"n": initial modes, "backend": "gaussian"|"fock"|"bosonic", "route": <ROUTES>, "free": {"x": value}, "draw": d, "draw0": d0,
#          "cmds": [[name, [args], [mode labels], dagger, {keyword options}], ...]}
# mode labels: 0..n-1, every "New" command adds the next label.  arguments: number | {"c":[re,im]} | {"free":name,"k":a,"b":c} (= a*name+c)
# | {"meas":label,"k":a} (= a*q[label].par) | {"mat": real matrix} | {"cmat": [[ [re,im] ]]} | {"vec": [[re,im]]}
# ======================================================================================================================
ROUTES = ["opt", "opt2", "ran", "engine", "compiled-then-opt", "compile:gaussian", "compile:fock", "compile:bosonic", "compile:gaussian_unitary",
          "compile:gaussian_merge", "compile:passive", "compile:gbs", "compile:Xunitary", "compile:Xcov"]
X_CUTOFF = 5


def x_arg(a, regs, par):
    if isinstance(a, dict):
        if "c" in a:
            return complex(a["c"][0], a["c"][1])
        if "free" in a or "meas" in a:
            s = par[a["free"]] if "free" in a else regs[a["meas"]].par
            k, b = a.get("k", 1), a.get("b", 0)
            if k == -1:
                s = -s
            elif k != 1:
                s = k * s
            return s + b if b != 0 else s
        if "mat" in a:
            return np.array(a["mat"], dtype=float)
        if "cmat" in a:
            return np.array([[complex(*z) for z in row] for row in a["cmat"]])
        if "vec" in a:
            return np.array([complex(*z) for z in a["vec"]])
    return a


def x_build(spec):
    prog = sf.Program(spec["n"])
    par = {k: prog.params(k) for k in sorted(spec.get("free", {}))}
    with prog.context as q:
        regs = list(q)
        for name, args, modes, dagger, opts in spec["cmds"]:
            if name == "New":
                regs.extend(ops.New(1))
                continue
            if name == "Del":
                ops.Del | tuple(regs[m] for m in modes)
                continue
            op = getattr(ops, name)(*[x_arg(v, regs, par) for v in args], **{k: x_arg(v, regs, par) for k, v in opts.items()})
            if dagger:
                op = op.H
            op | tuple(regs[m] for m in modes)
    return prog


class _Draws:
    """Deterministic 'random' measurement outcomes: mean + draw * standard deviation (independent of the order of RNG calls)."""
    def __init__(self, draw):
        self.draw = draw
    def __enter__(self):
        self.saved = (np.random.normal, np.random.multivariate_normal)
        d = self.draw
        def normal(loc=0.0, scale=1.0, size=None):
            # (the conjugate quadrature of a post-selected homodyne measurement: its mean)
            v = np.asarray(loc, dtype=float)
            return v if size is None else np.broadcast_to(v, size).copy()
        def mvn(mean, cov, size=None, **kw):
            v = np.asarray(mean, dtype=float) + d * np.sqrt(np.abs(np.diag(np.asarray(cov, dtype=float))))
            return v if size is None else np.broadcast_to(v, (size if isinstance(size, int) else tuple(size)[0], len(v))).copy()
        np.random.normal, np.random.multivariate_normal = normal, mvn
        np.random.seed(4321)
    def __exit__(self, *a):
        np.random.normal, np.random.multivariate_normal = self.saved


def x_run(prog, spec, draw=None, free=None, **run_kw):
    """-> (observable arrays, samples, register values)"""
    backend = spec["backend"]
    eng = sf.Engine(backend, backend_options={"cutoff_dim": spec.get("cutoff", X_CUTOFF)} if backend == "fock" else {})
    import warnings
    with warnings.catch_warnings(), _Draws(spec.get("draw", 0.3) if draw is None else draw):
        warnings.simplefilter("ignore")
        res = eng.run(prog, args=dict(spec.get("free", {}) if free is None else free), **run_kw)
    st = res.state
    if backend == "fock":
        obs = (np.asarray(st.dm()), float(np.real(st.trace())))
    else:
        obs = bc.gauss_obs(st)
    smp = None if res.samples is None else np.asarray(res.samples, dtype=complex)
    # every measurement that was executed, per mode (a dropped or duplicated measurement shows here even when the state does not change)
    per_mode = {int(k): [complex(np.ravel(x)[0]) for x in v] for k, v in (getattr(res, "samples_dict", None) or {}).items()}
    return obs, (smp, per_mode)


def x_close(spec, a, b):
    """None if the two run results agree, else a short text."""
    (o1, (s1, d1)), (o2, (s2, d2)) = a, b
    if spec["backend"] == "fock":
        if o1[0].shape != o2[0].shape:
            return "different numbers of modes"
        tol = max(1e-6 + 4.0 * math.sqrt(max(0.0, 1.0 - o1[1])), 1e-6 + 4.0 * math.sqrt(max(0.0, 1.0 - o2[1])), 1e-4 if min(o1[1], o2[1]) < 1 - 1e-9 else 1e-7)
        if any(c[0].startswith("Measure") for c in spec["cmds"]):
            # a post-selected measurement renormalises the state: the trace no longer shows what the truncation lost
            tol = max(tol, 3e-3)
        d = float(np.abs(o1[0] - o2[0]).max())
        if d > tol:
            return "density matrices differ by %.3g (tolerance %.1g)" % (d, tol)
    else:
        if o1[0].shape != o2[0].shape:
            return "different numbers of modes"
        scale = max(1.0, float(np.abs(o1[1]).max()))
        d = max(float(np.abs(o1[0] - o2[0]).max()), float(np.abs(o1[1] - o2[1]).max()) / scale)
        if d > 1e-7:
            return "means / covariance differ by %.3g" % d
    if (s1 is None) != (s2 is None) or (s1 is not None and (s1.shape != s2.shape or (s1.size and float(np.abs(s1 - s2).max()) > 1e-6))):
        return "measurement samples differ: %s vs %s" % (None if s1 is None else s1.tolist(), None if s2 is None else s2.tolist())
    if sorted(d1) != sorted(d2) or any(len(d1[k]) != len(d2[k]) or any(abs(x - y) > 1e-6 for x, y in zip(d1[k], d2[k])) for k in d1):
        return "the measurements executed per mode differ: %s vs %s" % (d1, d2)
    return None


def _pfp(x):
    if isinstance(x, np.ndarray):
        return ("arr", x.shape, str(x.dtype), x.tobytes())
    if isinstance(x, (list, tuple)):
        return ("seq", type(x).__name__, tuple(_pfp(y) for y in x))
    return ("val", type(x).__name__, repr(x))


def x_fingerprint(prog, vals=True):
    """By-value picture of a program: command / operation / parameter-list identities and every attribute of every operation."""
    cmds = []
    for c in prog.circuit:
        d = []
        for k, v in sorted(c.op.__dict__.items()):
            if k == "_measurement_deps":
                d.append((k, tuple(sorted((id(r), r.ind) for r in v))))
            elif k == "p":
                d.append((k, id(v), tuple(_pfp(y) for y in v)))
            else:
                d.append((k, _pfp(v)))
        cmds.append((id(c), id(c.op), type(c.op).__name__, tuple((id(r), r.ind) for r in c.reg), tuple(d)))
    regs = tuple((k, id(r), r.ind, r.active, repr(r.val) if vals else None) for k, r in sorted(prog.reg_refs.items()))
    other = (id(prog.circuit), tuple(sorted((k, id(v)) for k, v in prog.free_params.items())), repr(sorted(prog.run_options.items())), repr(sorted(prog.backend_options.items())),
             prog.target, prog.init_num_subsystems, tuple(sorted(prog.unused_indices)), prog.name, id(prog.source) if prog.source is not None else None)
    return (tuple(cmds), regs, other)


def _fp_diff(a, b):
    if a[0] != b[0]:
        if len(a[0]) != len(b[0]):
            return "the circuit has %d commands instead of %d" % (len(b[0]), len(a[0]))
        for i, (x, y) in enumerate(zip(a[0], b[0])):
            if x != y:
                return "command %d (%s) changed" % (i, x[2])
    if a[1] != b[1]:
        return "the register references changed"
    return "program attributes changed"


def _cstr(c):
    try:
        return str(c)
    except Exception:   # (printing a Catstate / GKP with its string-valued option fails: not this property's business)
        return "%s%s|%s" % (type(c.op).__name__, [repr(x) for x in c.op.p], [r.ind for r in c.reg])


def wires_of(prog):
    g = {}
    for c in prog.circuit:
        for r in c.get_dependencies():
            g.setdefault(r.ind, []).append(_cstr(c))
    return g


def x_strip_measure_fock(p):
    q = p._linked_copy()
    q.circuit = [c for c in p.circuit if type(c.op).__name__ not in ("MeasureFock", "MeasureThreshold")]
    return q


def x_passive_matrix(prog):
    """The n x n transformation of a program compiled with the 'passive' compiler (PassiveChannel commands only), or None."""
    n = len(prog.reg_refs)
    T = np.identity(n, dtype=complex)
    for c in prog.circuit:
        if type(c.op).__name__ != "PassiveChannel":
            return None
        idx = [r.ind for r in c.reg]
        M = np.identity(n, dtype=complex)
        M[np.ix_(idx, idx)] = np.asarray(c.op.p[0], dtype=complex)
        T = M @ T
    return T


def x_check(spec):
    """Evaluate the property on one xspec.  -> (signature | None, text, merged?)"""
    import warnings
    route = spec["route"]
    with warnings.catch_warnings():
        warnings.simplefilter("ignore")
        try:
            fresh = x_build(spec)      # never optimised: the reference
            prog = x_build(spec)
            if route == "ran":
                # an earlier run with OTHER measurement outcomes and OTHER values of the free parameters: nothing of it may survive in the optimised copy
                x_run(prog, spec, draw=spec.get("draw0", -0.7), free={k: v + 0.17 for k, v in spec.get("free", {}).items()})
        except Exception:
            return None, "the unoptimised program cannot be built / run", False   # (a generator slip, e.g. a post-selected outcome of probability zero)
        tag = route.replace("compile:", "compile-optimize:")
        fp0 = x_fingerprint(prog)
        strip = route in ("compile:gbs", "compile:Xunitary", "compile:Xcov")
        ref_prog = fresh
        try:
            if route.startswith("compile:"):
                comp = route.split(":")[1]
                try:
                    ref_prog = x_build(spec).compile(compiler=comp)
                except Exception:
                    return None, "not compilable without optimisation", False   # not a case for this compiler
                out = prog.compile(compiler=comp, optimize=True)
            elif route == "compiled-then-opt":
                out = prog.compile(compiler=spec["backend"]).optimize()
            elif route == "opt2":
                once = prog.optimize()
                out = once.optimize()
            elif route == "engine":
                out = None
            else:
                out = prog.optimize()
        except Exception as e:
            return "%s:raises:%s" % (tag, type(e).__name__), "%s raised %r" % (route, e), True
        fp1 = x_fingerprint(prog)
        if fp1 != fp0:
            return "%s:mutates-original" % tag, "the original program changed: " + _fp_diff(fp0, fp1), True
        merged = out is not None and len(out.circuit) < len(prog.circuit)
        if route == "opt2":
            if wires_of(once) != wires_of(out):
                return "optimize-twice:not-idempotent", "optimising the optimised program changed it again: %s -> %s" % ([_cstr(c) for c in once.circuit], [_cstr(c) for c in out.circuit]), True
        if route == "compile:passive":
            # passive circuits leave the vacuum alone: compare the transformation itself (one matrix over all modes)
            T1, T2 = x_passive_matrix(ref_prog), x_passive_matrix(out)
            if T1 is None or T2 is None or float(np.abs(T1 - T2).max()) > 1e-9:
                return "%s:changes-compiled-circuit" % tag, "compile(optimize=True) and compile() give different passive transformations: %s vs %s" % (
                    [_cstr(c) for c in ref_prog.circuit], [_cstr(c) for c in out.circuit]), True
        try:
            if strip:
                ref = x_run(x_strip_measure_fock(ref_prog), spec)
            else:
                ref = x_run(ref_prog, spec)
        except Exception:
            return None, "the unoptimised program cannot be run on this backend", False
        try:
            if route == "engine":
                got = x_run(prog, spec, compile_options={"optimize": True})
            else:
                got = x_run(x_strip_measure_fock(out) if strip else out, spec)
        except Exception as e:
            return "%s:run-raises:%s" % (tag, type(e).__name__), "running the optimised program raised %r" % e, True
        why = x_close(spec, ref, got)
        if why:
            return "%s:changes-state" % tag, "optimised program differs from the unoptimised one: " + why, True
        # the original, run AFTER the optimised copy (they share operation objects and register references)
        try:
            again = x_run(x_strip_measure_fock(prog) if strip else prog, spec)
            ref0 = ref if not route.startswith("compile:") else x_run(x_strip_measure_fock(fresh) if strip else fresh, spec)
        except Exception as e:
            return "%s:original-run-raises:%s" % (tag, type(e).__name__), "running the original after its optimised copy raised %r" % e, True
        why = x_close(spec, ref0, again)
        if why:
            return "%s:original-changed-behaviour" % tag, "the original program, run after its optimised copy, differs from a fresh build: " + why, True
        fp2 = x_fingerprint(prog, vals=False)
        if fp2[0] != fp0[0]:
            return "%s:mutates-original-at-run" % tag, "running the optimised copy changed the original's operations: " + _fp_diff(fp0, fp2), True
        if out is not None and not route.startswith("compile:"):
            # measured values are visible through the copy's register (shared references)
            a = [repr(r.val) for _, r in sorted(prog.reg_refs.items())]
            b = [repr(r.val) for _, r in sorted(out.reg_refs.items())]
            if a != b or any(out.reg_refs[k] is not prog.reg_refs[k] for k in prog.reg_refs):
                return "%s:register-not-shared" % tag, "the optimised copy does not share the original's register references", True
    return None, "", merged


# ---- generators of the extended stream -------------------------------------------------------------------------------------------------
XG1 = {"Dgate": 1, "Xgate": 0, "Zgate": 0, "Sgate": 1, "Rgate": 0, "Pgate": 0}     # family -> number of further parameters
XG1_FOCK = {"Vgate": 0, "Kgate": 0}
XG2 = {"BSgate": 1, "S2gate": 1, "CXgate": 0, "CZgate": 0, "MZgate": 1}
XG2_FOCK = {"CKgate": 0}


def x_prefix(labels, weak, links=True):
    """A correlated, displaced state with no symmetry (so that every gate / channel is visible)."""
    s, d = (0.12, 0.15) if weak else (0.3, 0.25)
    out = []
    for j, m in enumerate(labels):
        out.append(["Sgate", [s + 0.03 * j, 0.4 * j], [m], False, {}])
        out.append(["Dgate", [d, 0.3 + j], [m], False, {}])
    if links:
        for a, b in zip(labels, labels[1:]):
            out.append(["BSgate", [0.6, 0.3], [a, b], False, {}])
    return out


def x_units(backend):
    """Single-mode commands of every kind (name, args, dagger, opts), for the cross-family sweep."""
    weak = backend == "fock"
    k = 0.4 if weak else 1.0
    u = [["Dgate", [0.25 * k, 0.3], False, {}], ["Dgate", [0.25 * k, 0.3], True, {}], ["Xgate", [0.3 * k], False, {}], ["Zgate", [-0.25 * k], False, {}],
         ["Sgate", [0.25 * k, 0.5], False, {}], ["Sgate", [0.25 * k, 0.5], True, {}], ["Rgate", [0.5], False, {}], ["Rgate", [0.5], True, {}], ["Pgate", [0.25 * k], False, {}],
         ["Fouriergate", [], False, {}], ["Fouriergate", [], True, {}], ["LossChannel", [0.5], False, {}], ["LossChannel", [1.0], False, {}], ["LossChannel", [0.0], False, {}],
         ["Vacuum", [], False, {}], ["Coherent", [0.3 * k, 0.4], False, {}], ["Squeezed", [0.3 * k, 0.5], False, {}], ["DisplacedSqueezed", [0.2 * k, 0.3, 0.25 * k, 0.1], False, {}],
         ["Thermal", [0.3 * k], False, {}], ["MeasureHomodyne", [0.3], False, {"select": 0.2}]]
    if backend in ("gaussian", "bosonic"):
        u += [["MeasureHeterodyne", [], False, {"select": {"c": [0.1, -0.2]}}],
              ["ThermalLossChannel", [0.5, 0.4], False, {}], ["ThermalLossChannel", [1.0, 0.4], False, {}], ["ThermalLossChannel", [0.0, 0.4], False, {}],
              ["Gaussian", [{"mat": [[1.5, 0.2], [0.2, 0.9]]}], False, {}]]
    if backend == "gaussian":
        u += [["PassiveChannel", [{"cmat": [[[0.6, 0.3]]]}], False, {}], ["Interferometer", [{"cmat": [[[math.cos(0.7), math.sin(0.7)]]]}], False, {}],
              ["GaussianTransform", [{"mat": [[1.2, 0.3], [0.1, (1 + 0.03) / 1.2]]}], False, {}], ["MeasureHomodyne", [0.0], False, {}]]
    if backend == "fock":
        v = np.array([0.8, 0.5, 0.3j, 0.1] + [0] * (X_CUTOFF - 4))
        v = v / np.linalg.norm(v)
        rho = 0.7 * np.outer(v, v.conj()) + 0.3 * np.diag([1.0] + [0] * (X_CUTOFF - 1))
        u += [["Vgate", [0.05], False, {}], ["Kgate", [0.2], False, {}], ["Kgate", [0.2], True, {}], ["Fock", [1], False, {}], ["Fock", [0], False, {}],
              ["Ket", [{"vec": [[z.real, z.imag] for z in v]}], False, {}], ["DensityMatrix", [{"cmat": [[[z.real, z.imag] for z in row] for row in rho]}], False, {}],
              ["MeasureFock", [], False, {"select": 1}]]
    if backend == "bosonic":
        u += [["Catstate", [0.8, 0.3, 0], False, {}], ["Fock", [1], False, {}], ["MSgate", [0.3, 0.2, 1.5, 0.9, True], False, {}]]
    return u


def x_wrap(pair, two, ctxname, backend):
    """Put a list of commands acting on label t (and u for two-mode ones) into a context.  pair: [[name,args,dagger,opts], ...]"""
    weak = backend == "fock"
    big = 3 if weak else 6
    n, t, u, pre_new = {"plain": (2, 0, 1, False), "rev": (2, 1, 0, False), "apart": (3, 0, 1, False), "blocked": (3, 1, 2, False), "del": (3, 0, 1, False),
                        "new": (2, 2, 0, True), "high": (big, big - 1, 1 if weak else 2, False)}[ctxname]
    cmds = x_prefix(list(range(n)), weak)
    if pre_new:
        cmds += [["New", [], [], False, {}]] + x_prefix([2], weak) + [["BSgate", [0.5, 0.2], [2, 1], False, {}]]
    other = [m for m in range(n + (1 if pre_new else 0)) if m not in ((t, u) if two else (t,))]
    modes = [t, u] if two else [t]
    for j, (name, args, dagger, opts) in enumerate(pair):
        if j:
            if ctxname == "apart" and other:
                cmds.append(["Rgate", [0.3], [other[0]], False, {}])
                if len(other) > 1:
                    cmds.append(["BSgate", [0.4, 0.1], other[:2], False, {}])
            if ctxname == "blocked":
                cmds.append(["BSgate", [0.4, 0.1], [t, other[0]], False, {}])
        cmds.append([name, args, modes, dagger, opts])
    o = other[0] if other else u
    cmds.append(["BSgate", [0.7, 0.4], [t, o], False, {}])
    if ctxname == "del":
        cmds.append(["Del", [], [t], False, {}])
    return {"n": n, "cmds": cmds}


CTXS = ["plain", "rev", "apart", "blocked", "del", "new", "high"]


def pick_ctx(rng, backend):
    # (three-mode mixed states are slow on the Fock backend: mostly the two-mode contexts there)
    return rng.choice(CTXS) if backend != "fock" or rng.random() < 0.25 else rng.choice(["plain", "rev"])


def x_pair_sweep(backend):
    """Same-family pairs: every family x relation between the first parameters x dagger flags (contexts are chosen by the caller)."""
    weak = backend == "fock"
    k = 0.4 if weak else 1.0
    fams1 = dict(XG1, **(XG1_FOCK if weak else {}))
    fams2 = dict(XG2, **(XG2_FOCK if weak else {}))
    out = []
    for two, fams in ((False, fams1), (True, fams2)):
        for name, nextra in fams.items():
            a = {"Vgate": 0.05, "Kgate": 0.25, "CKgate": 0.25, "Rgate": 0.75, "BSgate": 0.5, "MZgate": 0.5}.get(name, 0.25 * k)
            for rel in ("same", "cancel", "near", "near6", "zero", "diffextra", "nearextra", "zero-diffextra", "diffextra-zero", "other"):
                if rel in ("diffextra", "nearextra", "zero-diffextra", "diffextra-zero") and not nextra:
                    continue
                if rel == "near6" and weak:
                    continue   # (below what a truncated Fock space resolves)
                for da in (False, True):
                    for db in (False, True):
                        ea = a
                        eb = {"same": a, "cancel": -a, "near": -a + 2.0 ** -9, "near6": -a + 2.0 ** -19, "zero": a, "diffextra": a, "nearextra": a, "zero-diffextra": a, "diffextra-zero": 0.0, "other": 0.5 * a}[rel]
                        if rel in ("zero", "zero-diffextra"):
                            ea = 0.0
                        pa, pb = (-ea if da else ea), (-eb if db else eb)
                        xa = [0.5] * nextra
                        xb = [{"diffextra": 0.25, "zero-diffextra": 0.25, "diffextra-zero": 0.25, "nearextra": 0.5 + 2.0 ** -8}.get(rel, 0.5)] * nextra
                        out.append((two, "%s:%s" % (name, rel), [[name, [pa] + xa, da, {}], [name, [pb] + xb, db, {}]]))
    return out


def x_channel_sweep(backend):
    out = []
    Ts = [(0.5, 0.5), (1.0, 1.0), (1.0, 0.5), (0.5, 1.0), (0.0, 0.5), (0.5, 0.0), (0.0, 0.0), (0.998, 0.998), (0.25, 0.75)]
    for a, b in Ts:
        out.append((False, "LossChannel", [["LossChannel", [a], False, {}], ["LossChannel", [b], False, {}]]))
        if backend != "fock":
            for na, nb in ((0.4, 0.4), (0.4, 0.2), (0.0, 0.4), (0.4, 0.4 + 2.0 ** -8)):
                out.append((False, "ThermalLossChannel", [["ThermalLossChannel", [a, na], False, {}], ["ThermalLossChannel", [b, nb], False, {}]]))
    out.append((False, "Loss3", [["LossChannel", [0.5], False, {}], ["LossChannel", [0.5], False, {}], ["LossChannel", [0.8], False, {}]]))
    if backend == "gaussian":
        ph = lambda t, a: {"cmat": [[[t * math.cos(a), t * math.sin(a)]]]}
        for (t1, a1), (t2, a2) in (((1.0, 0.7), (1.0, -0.7)), ((1.0, 0.7), (1.0, 0.7)), ((1.0, 0.7), (1.0, math.pi - 0.7)), ((0.8, 0.3), (0.5, 1.1)), ((1.0, 0.0), (1.0, math.pi)), ((0.999, 0.0), (0.999, 0.0))):
            out.append((False, "PassiveChannel", [["PassiveChannel", [ph(t1, a1)], False, {}], ["PassiveChannel", [ph(t2, a2)], False, {}]]))
            if t1 == 1.0 and t2 == 1.0:
                out.append((False, "Interferometer", [["Interferometer", [ph(1.0, a1)], False, {}], ["Interferometer", [ph(1.0, a2)], False, {}]]))
        R = lambda t: np.array([[math.cos(t), -math.sin(t)], [math.sin(t), math.cos(t)]])
        S = R(0.4) @ np.diag([math.exp(-0.3), math.exp(0.3)]) @ R(-1.1)
        Si = np.linalg.inv(S)
        for nm, B in (("inv", Si), ("minus-inv", -Si), ("near-inv", Si @ R(2e-4)), ("near6-inv", Si @ R(2e-6)), ("same", S), ("other", R(0.9) @ np.diag([1.25, 0.8]))):
            out.append((False, "GaussianTransform:" + nm, [["GaussianTransform", [{"mat": S.tolist()}], False, {}], ["GaussianTransform", [{"mat": B.tolist()}], False, {}]]))
        out.append((False, "Interferometer:near", [["Interferometer", [ph(1.0, 0.7)], False, {}], ["Interferometer", [ph(1.0, -0.7 + 2e-4)], False, {}]]))
    if backend == "bosonic":
        out.append((False, "MSgate", [["MSgate", [0.3, 0.2, 1.5, 0.9, True], False, {}], ["MSgate", [0.3, 0.2, 1.5, 0.9, True], False, {}]]))
        out.append((False, "MSgate", [["MSgate", [1.0, 0.0, 1.5, 0.9, True], False, {}], ["MSgate", [1.0, 0.0, 1.5, 0.9, True], False, {}]]))
    return out


def x_symbolic_sweep():
    """Pairs / triples whose first (or further) parameters are free symbols or measured values."""
    fx = lambda k=1, b=0: {"free": "x", "k": k, "b": b}
    fy = lambda k=1, b=0: {"free": "y", "k": k, "b": b}
    out = []
    for name, extra in (("Dgate", [0.5]), ("Xgate", []), ("Zgate", []), ("Sgate", [0.5]), ("Rgate", []), ("Pgate", [])):
        for da in (False, True):
            for db in (False, True):
                for pa, pb, tag in ((fx(), fx(), "x,x"), (fx(), fx(-1), "x,-x"), (fx(), fy(), "x,y"), (fx(), 0.25, "x,num"), (0.25, fx(), "num,x"), (fx(2), fx(-1, 0.125), "2x,-x+c")):
                    out.append((False, "%s:%s" % (name, tag), [[name, [pa] + extra, da, {}], [name, [pb] + extra, db, {}]]))
    for name in ("Dgate", "Sgate"):
        for ea, eb, tag in ((fy(), fy(), "phi=y,y"), (fy(), fx(), "phi=y,x"), (fy(), 0.5, "phi=y,num")):
            out.append((False, "%s:%s" % (name, tag), [[name, [0.25, ea], False, {}], [name, [0.125, eb], False, {}]]))
    for pa, pb, tag in ((fx(), fx(), "x,x"), (fx(), fy(), "x,y"), (fx(), 0.5, "x,num"), (1.0, fx(), "1,x"), (fx(), 1.0, "x,1")):
        out.append((False, "LossChannel:" + tag, [["LossChannel", [pa], False, {}], ["LossChannel", [pb], False, {}]]))
        out.append((False, "ThermalLossChannel:" + tag, [["ThermalLossChannel", [pa, fy()], False, {}], ["ThermalLossChannel", [pb, fy()], False, {}]]))
    out.append((False, "ThermalLossChannel:nbar=x,y", [["ThermalLossChannel", [0.5, fx()], False, {}], ["ThermalLossChannel", [0.5, fy()], False, {}]]))
    for name, args in (("Coherent", [fx(), 0.3]), ("Squeezed", [fx(), fy()]), ("Thermal", [fx()])):
        out.append((False, name + ":sym-prep", [["Squeezed", [0.2, 0.1], False, {}], [name, args, False, {}], ["Rgate", [fx()], False, {}]]))
    return out


def x_measured_sweep():
    """Operations fed by the measured value of THEIR OWN mode (one wire only: the optimiser merges them) and of another mode (never merged);
    the measured value as first parameter and as a further parameter, gates and channels."""
    out = []
    m = lambda k=0.5: {"meas": 1, "k": k}
    for sel in ({"select": 0.3}, {}):
        for src in ("own", "other"):
            for name, extra in (("Xgate", []), ("Zgate", []), ("Dgate", [0.4]), ("Sgate", [0.3]), ("Rgate", [])):
                for k2, tag in ((1, "m,m"), (-1, "m,-m"), (0.5, "m,m/2")):
                    for da, db in ((False, False), (False, True), (True, True)):
                        out.append((name, [m()] + extra, [m(0.5 * k2)] + extra, src, da, db, sel, "%s:%s:%s" % (name, tag, src)))
            for name, a0, b0 in (("Dgate", 0.25, 0.125), ("Sgate", 0.25, -0.25), ("Sgate", 0.25, 0.125)):
                for xa, xb, tag in ((m(), m(), "phi=m,m"), (m(), m(1), "phi=m,2m"), (m(), 0.15, "phi=m,num")):
                    out.append((name, [a0, xa], [b0, xb], src, False, src == "other", sel, "%s:%s:%s" % (name, tag, src)))
            if sel:
                # transmissivities / thermal occupations must stay in range: post-selected value only
                for ka, kb, tag in ((1, 1, "T=m,m"), (1, 2, "T=m,2m")):
                    out.append(("LossChannel", [m(ka)], [m(kb)], src, False, False, sel, "LossChannel:%s:%s" % (tag, src)))
                    out.append(("ThermalLossChannel", [m(ka), 0.4], [m(kb), 0.4], src, False, False, sel, "ThermalLossChannel:%s:%s" % (tag, src)))
                out.append(("LossChannel", [m(1)], [0.5], src, False, False, sel, "LossChannel:T=m,num:" + src))
                for xa, xb, tag in ((m(), m(), "nbar=m,m"), (m(), m(1), "nbar=m,2m")):
                    out.append(("ThermalLossChannel", [0.5, xa], [0.75, xb], src, False, False, sel, "ThermalLossChannel:%s:%s" % (tag, src)))
    return out


def x_measured_spec(item):
    name, args_a, args_b, src, da, db, sel, _ = item
    # modes 0,1,2 entangled; mode 1 is measured; the fed-forward operations act on mode 1 (own) or 0 (other); mode 1 is re-populated first
    t = 1 if src == "own" else 0
    cmds = x_prefix([0, 1, 2], False)
    cmds.append(["MeasureHomodyne", [0.2], [1], False, dict(sel)])
    cmds.append(["Squeezed", [0.3, 0.2], [1], False, {}])
    cmds.append(["Dgate", [0.3, 0.1], [1], False, {}])
    cmds.append(["BSgate", [0.5, 0.1], [1, 2], False, {}])
    cmds.append([name, list(args_a), [t], da, {}])
    cmds.append([name, list(args_b), [t], db, {}])
    cmds.append(["BSgate", [0.7, 0.4], [t, 2], False, {}])
    return {"n": 3, "cmds": cmds}


def x_random(rng, backend):
    """Random program with New / Del, repeated families (merge bait), symbolic and measured parameters, up to 6 modes."""
    weak = backend == "fock"
    n = rng.choice([1, 2, 2, 2, 3] if backend == "fock" else [1, 2, 3]) if backend != "gaussian" else rng.choice([1, 2, 3, 3, 4, 5, 6])
    maxm = 3 if weak else (4 if backend == "bosonic" else 7)
    cmds = x_prefix(list(range(n)), weak)
    alive, nxt, measured, free = list(range(n)), n, [], {}
    nmeas, unselected = 0, False
    units = [u for u in x_units(backend) if u[0] not in ("MeasureFock",) and not (u[0] == "MeasureHomodyne" and not u[3] and backend != "gaussian")]
    k = 0.4 if weak else 1.0
    two = dict(XG2, **(XG2_FOCK if weak else {}))
    def val(name, i):
        """a parameter value: number (dyadic, so that sums cancel exactly), free symbol or measured value"""
        r = rng.random()
        if i == 0 and r < 0.15:
            s = rng.choice(["x", "y"])
            free.setdefault(s, round(rng.uniform(0.1, 0.4) * (0.3 if weak else 1.0), 3))
            return {"free": s, "k": rng.choice([1, 1, -1, 2])}
        if i == 0 and r < 0.25 and measured and name in ("Xgate", "Zgate", "Dgate", "Rgate", "Sgate"):
            return {"meas": rng.choice(measured), "k": rng.choice([1, -1, 0.5])}
        return rng.choice([0.25, -0.25, 0.5, 0.125, -0.375, 0.0]) * (k if name not in ("Rgate", "BSgate", "MZgate") else 1.0)
    hist = []
    for _ in range(rng.randint(3, 12)):
        r = rng.random()
        if r < 0.07 and nxt < maxm and (not weak or len(alive) < 3):
            cmds.append(["New", [], [], False, {}])
            cmds += x_prefix([nxt], weak)
            if alive:
                cmds.append(["BSgate", [0.5, 0.2], [nxt, rng.choice(alive)], False, {}])
            alive.append(nxt)
            nxt += 1
            continue
        if r < 0.12 and len(alive) > 1:
            m = rng.choice(alive)
            alive.remove(m)
            if m in measured:
                measured.remove(m)
            hist = [h for h in hist if m not in h[2] and not any(isinstance(a, dict) and a.get("meas") == m for a in h[1])]
            cmds.append(["Del", [], [m], False, {}])
            continue
        if r < 0.55 and hist:
            name, args, modes, dagger, opts = rng.choice(hist)
            args = list(args)
            if args and not isinstance(args[0], dict) and name in dict(XG1, **XG1_FOCK, **two):
                rel = rng.random()
                eff = -args[0] if dagger else args[0]
                dagger = rng.random() < 0.4
                e2 = eff if rel < 0.3 else (-eff if rel < 0.6 else (-eff + 2.0 ** -9 if rel < 0.7 else val(name, 0)))
                if not isinstance(e2, dict):
                    e2 = -e2 if dagger else e2
                args[0] = e2
            elif args and isinstance(args[0], dict) and "free" in args[0]:
                args[0] = dict(args[0], k=rng.choice([1, -1, 2]))
                dagger = rng.random() < 0.3 if name in dict(XG1, **XG1_FOCK, **two) else False
            if rng.random() < 0.1 and len(modes) == 2:
                modes = modes[::-1]
            c = [name, args, list(modes), dagger, dict(opts)]
        elif r < 0.75 and len(alive) > 1:
            name = rng.choice(sorted(two))
            c = [name, [val(name, 0)] + [rng.choice([0.5, 0.25])] * two[name], rng.sample(alive, 2), rng.random() < 0.3, {}]
        else:
            name, args, dagger, opts = rng.choice(units)
            args = list(args)
            if name in dict(XG1, **XG1_FOCK):
                args[0] = val(name, 0)
            c = [name, args, [rng.choice(alive)], dagger, dict(opts)]
        if any(isinstance(a, dict) and a.get("meas") in c[2] for a in c[1]) and len(c[2]) > 1:
            continue
        if c[0] in ("MeasureHomodyne", "MeasureHeterodyne"):
            # outcomes are drawn as mean + d * std of the state at that moment: with a measurement that is not post-selected the
            # order of two independent measurements matters for the VALUES (not for their distribution) -> it must be the only one
            free_meas = not c[4]
            if len(alive) < 2 or (nmeas and (free_meas or unselected)):
                continue
            nmeas += 1
            unselected = unselected or free_meas
            measured.append(c[2][0]) if c[2][0] not in measured else None
        cmds.append(c)
        hist.append(c)
        if len(c[2]) == 1 and rng.random() < 0.3 and len(alive) > 1:
            # spread what happened on this mode
            cmds.append(["BSgate", [0.5, 0.2], [c[2][0], rng.choice([m for m in alive if m != c[2][0]])], False, {}])
    return {"n": n, "cmds": cmds, "free": free}


def x_compiler_program(rng, comp):
    """Programs inside the vocabulary of the special-purpose compilers, with merge bait."""
    g = lambda: rng.choice([0.25, -0.25, 0.5, 0.125, -0.375])
    if comp in ("Xunitary", "Xcov"):
        h = rng.choice([2, 3, 4])
        cmds = [["S2gate", [rng.choice([0.5, 0.25, 1.0]), 0.0], [i, i + h], False, {}] for i in range(h)]
        half = []
        for _ in range(rng.randint(2, 6)):
            if rng.random() < 0.55 or h < 2:
                m = rng.randrange(h)
                a = g()
                half.append(["Rgate", [a], [m], rng.random() < 0.3, {}])
                if rng.random() < 0.6:
                    half.append(["Rgate", [rng.choice([a, -a, g()])], [m], rng.random() < 0.3, {}])
            else:
                m = rng.randrange(h - 1)
                half.append([rng.choice(["BSgate", "MZgate"]), [rng.choice([0.5, 0.75, 0.3]), rng.choice([0.0, 0.5])], [m, m + 1], False, {}])
        for c in half:
            cmds.append(c)
        for c in half:
            cmds.append([c[0], list(c[1]), [m + h for m in c[2]], c[3], {}])
        cmds.append(["MeasureFock", [], list(range(2 * h)), False, {}])
        return {"n": 2 * h, "cmds": cmds}
    n = rng.randint(1, 4)
    cmds = []
    if comp == "passive":
        fams = ["Rgate", "LossChannel", "BSgate", "MZgate", "PassiveChannel1", "Interferometer1", "Interferometer2"]
    elif comp == "gaussian_unitary":
        fams = ["Rgate", "Sgate", "Dgate", "Xgate", "Zgate", "Pgate", "Fouriergate", "BSgate", "S2gate", "CXgate", "CZgate", "MZgate", "Interferometer1", "Interferometer2", "GaussianTransform1"]
    else:  # gbs, gaussian_merge: Gaussian programs
        fams = ["Rgate", "Sgate", "Dgate", "Xgate", "Zgate", "Fouriergate", "BSgate", "S2gate", "LossChannel", "Squeezed", "Coherent", "Thermal"]
        if comp == "gaussian_merge":
            fams = ["Rgate", "Sgate", "Dgate", "Xgate", "Zgate", "Pgate", "Fouriergate", "BSgate", "S2gate", "CXgate", "CZgate", "MZgate", "Interferometer1", "Interferometer2", "GaussianTransform1"]
    if comp != "passive":
        cmds = x_prefix(list(range(n)), False)
    prev = None
    for _ in range(rng.randint(3, 12)):
        f = prev[0] if prev and rng.random() < 0.45 else rng.choice(fams)
        two = f in XG2 or f == "Interferometer2"
        if two and n < 2:
            continue
        modes = list(prev[2]) if prev and prev[0] == f and rng.random() < 0.8 else rng.sample(range(n), 2 if two else 1)
        dag = f in dict(XG1, **XG2) and rng.random() < 0.3 or (f == "Fouriergate" and rng.random() < 0.5)
        if f in XG1 or f in XG2:
            a = g() if not (prev and prev[0] == f and rng.random() < 0.5) else (prev[1][0] if rng.random() < 0.5 else -prev[1][0])
            args = [a] + [0.5] * dict(XG1, **XG2)[f]
        elif f == "Fouriergate":
            args = []
        elif f == "LossChannel":
            args = [rng.choice([0.5, 1.0, 0.75, 0.0])]
        elif f == "ThermalLossChannel":
            args = [rng.choice([0.5, 1.0, 0.75]), rng.choice([0.25, 0.5])]
        elif f in ("Squeezed", "Coherent"):
            args = [rng.choice([0.25, 0.5]), rng.choice([0.0, 0.5])]
        elif f == "Thermal":
            args = [rng.choice([0.25, 0.5])]
        elif f in ("PassiveChannel1", "Interferometer1"):
            t, a = (rng.choice([1.0, 0.5]) if f == "PassiveChannel1" else 1.0), rng.choice([0.7, -0.7, 0.3, math.pi])
            args = [{"cmat": [[[t * math.cos(a), t * math.sin(a)]]]}]
        elif f == "Interferometer2":
            th, ph = rng.choice([0.4, 0.9]), rng.choice([0.0, 0.6])
            U = np.array([[math.cos(th), -np.exp(-1j * ph) * math.sin(th)], [np.exp(1j * ph) * math.sin(th), math.cos(th)]])
            args = [{"cmat": [[[z.real, z.imag] for z in row] for row in U]}]
        elif f == "GaussianTransform1":
            R = lambda t: np.array([[math.cos(t), -math.sin(t)], [math.sin(t), math.cos(t)]])
            S = R(rng.choice([0.4, -0.9])) @ np.diag([math.exp(-0.25), math.exp(0.25)]) @ R(rng.choice([0.3, 1.2]))
            if prev and prev[0] == f and rng.random() < 0.4:
                S = np.linalg.inv(np.array(prev[1][0]["mat"]))
            args = [{"mat": S.tolist()}]
        c = [f.rstrip("12"), args, modes, bool(dag), {}]
        cmds.append(c)
        prev = [f, args, modes]
    if comp == "gbs":
        cmds.append(["MeasureFock", [], list(range(n)), False, {}])
    return {"n": n, "cmds": cmds}


# ---- time-domain programs (TDMProgram inherits optimize / _linked_copy; parameters are the per-time-bin symbols p[i]) ------------------
def t_build(spec):
    prog = sf.TDMProgram(N=spec["N"])
    with prog.context(*spec["params"]) as (p, q):
        for name, args, modes, dagger in spec["cmds"]:
            a = []
            for v in args:
                if isinstance(v, dict):
                    k = v.get("k", 1)
                    v = p[v["tdm"]] if k == 1 else (-p[v["tdm"]] if k == -1 else k * p[v["tdm"]])
                a.append(v)
            op = getattr(ops, name)(*a)
            if dagger:
                op = op.H
            op | tuple(q[m] for m in modes)
    return prog


def t_random(rng):
    N = rng.choice([2, 2, 3])
    bins = rng.randint(3, 5)
    npar = rng.randint(2, 4)
    params = [[round(rng.uniform(-1, 1), 3) for _ in range(bins)] for _ in range(npar)]
    cmds = [["Sgate", [0.5, 0.0], [N - 1], False]]
    prev = None
    for _ in range(rng.randint(3, 9)):
        if prev and rng.random() < 0.5:
            name, modes = prev[0], list(prev[2])
        else:
            name = rng.choice(["Rgate", "Rgate", "Dgate", "Sgate", "BSgate", "Zgate"])
            modes = rng.sample(range(N), 2) if name == "BSgate" else [rng.randrange(N)]
        r = rng.random()
        a0 = {"tdm": rng.randrange(npar - 1), "k": rng.choice([1, 1, -1, 0.5])} if r < 0.5 else rng.choice([0.25, -0.25, 0.5])
        if prev and prev[0] == name and r > 0.8:
            a0 = prev[1][0] if isinstance(prev[1][0], (int, float)) else dict(prev[1][0], k=-prev[1][0].get("k", 1))
            if isinstance(a0, (int, float)):
                a0 = -a0
        args = [a0] + ([0.5] if name in ("Dgate", "Sgate", "BSgate") else [])
        c = [name, args, modes, name != "BSgate" and rng.random() < 0.25]
        cmds.append(c)
        prev = c
    cmds.append(["MeasureHomodyne", [{"tdm": npar - 1}], [0], False])
    return {"N": N, "params": params, "cmds": cmds, "draw": rng.choice([0.3, -0.8])}


def t_check(spec):
    import warnings
    def run(prog):
        with warnings.catch_warnings(), _Draws(spec["draw"]):
            warnings.simplefilter("ignore")
            return np.asarray(sf.Engine("gaussian").run(prog, shots=1).samples, dtype=float)
    with warnings.catch_warnings():
        warnings.simplefilter("ignore")
        fresh, prog = t_build(spec), t_build(spec)
        fp0 = x_fingerprint(prog)
        try:
            opt = prog.optimize()
        except Exception as e:
            return "tdm:optimize:raises:%s" % type(e).__name__, "TDMProgram.optimize raised %r" % e, True
        if x_fingerprint(prog) != fp0:
            return "tdm:optimize:mutates-original", "TDMProgram.optimize changed the original: " + _fp_diff(fp0, x_fingerprint(prog)), True
        merged = len(opt.circuit) < len(prog.circuit)
        try:
            ref = run(fresh)
        except Exception:
            return None, "the unoptimised time-domain program cannot be run", False
        try:
            got = run(opt)
            again = run(prog)
        except Exception as e:
            return "tdm:optimize:run-raises:%s" % type(e).__name__, "running the optimised time-domain program raised %r" % e, True
        for nm, v in (("optimised", got), ("original (after its copy ran)", again)):
            if v.shape != ref.shape or float(np.abs(v - ref).max()) > 1e-6:
                return "tdm:optimize:changes-samples", "the %s time-domain program gives other samples: %s vs %s" % (nm, v.tolist(), ref.tolist()), True
    return None, "", merged


X_ROUTES = {"gaussian": ["opt", "opt", "opt", "opt2", "ran", "engine", "compiled-then-opt", "compile:gaussian"],
            "fock": ["opt", "opt", "opt2", "ran", "engine", "compiled-then-opt", "compile:fock"],
            "bosonic": ["opt", "opt", "opt2", "engine", "compile:bosonic"]}


def x_judge(ctx, spec, bucket, tag=None):
    data = {"check": "xspec", "spec": spec}
    try:
        sig, text, merged = x_check(spec)
    except Exception as e:
        ctx.counterexample("xstream:%s:raises:%s" % (spec["route"], type(e).__name__), "checking %s raised %r" % (bucket, e), data)
        return
    if sig is None and text:
        ctx.hist["x-skipped:" + text[:40]] = ctx.hist.get("x-skipped:" + text[:40], 0) + 1
        return
    ctx.case({"route": spec["route"], "backend": spec["backend"], "n": spec["n"], "cmds": [[c[0], c[2], c[3]] for c in spec["cmds"]]}, nontrivial=bool(merged), bucket=bucket)
    if sig is not None:
        ctx.counterexample(sig + ":" + (tag or bucket.split("/")[-1]), text, data)


def search_extended(ctx):
    rng = ctx.rng
    quick = ctx.tier == "quick"
    def finish(spec, backend, route=None):
        spec = dict(spec, backend=backend, route=route or rng.choice(X_ROUTES[backend]), draw=rng.choice([0.3, -0.6, 1.1]), draw0=-0.7)
        spec.setdefault("free", {})
        return spec
    # 1. same-family pairs: family x relation x dagger flags, in a context
    for backend, keep in (("gaussian", 1.0), ("fock", ctx.budget(0.12, 1.0)), ("bosonic", ctx.budget(0.08, 0.5))):
        for two, tag, pair in x_pair_sweep(backend) + x_channel_sweep(backend):
            if quick and backend == "gaussian":
                # one context in which the pair is adjacent, through plain optimize() (in the compile routes matrix operations are decomposed first) ...
                x_judge(ctx, finish(x_wrap(pair, two, rng.choice(["plain", "rev", "apart", "del", "new", "high"]), backend), backend, "opt"), "x-pair/%s/%s" % (backend, tag.split(":")[0]), tag)
            for ctxname in ([pick_ctx(rng, backend)] if quick else CTXS):
                # ... and any context / route
                if rng.random() > keep and not tag.startswith("MSgate"):
                    continue
                x_judge(ctx, finish(x_wrap(pair, two, ctxname, backend), backend), "x-pair/%s/%s" % (backend, tag.split(":")[0]), tag)
    # 2. cross-family ordered pairs of single-mode commands (only preparations absorb, nothing else may merge)
    # (every ordered pair of gates / channels / matrix operations on the Gaussian backend; a sample of the pairs involving preparations and measurements)
    tunits = [u for u in x_units("gaussian") if not hasattr(getattr(ops, u[0]), "select") and not issubclass(getattr(ops, u[0]), (ops.Preparation, ops.Measurement))]
    for a in tunits:
        for b in tunits:
            if a[0] != b[0]:
                for ctxname in ([rng.choice(CTXS)] if quick else CTXS[:3]):
                    x_judge(ctx, finish(x_wrap([a, b], False, ctxname, "gaussian"), "gaussian", rng.choice(["opt", "opt", "compile:gaussian"])), "x-cross/gaussian-transformations", a[0] + "+" + b[0])
    # (every preparation / measurement / channel unit followed by itself)
    for backend in ("gaussian", "fock", "bosonic"):
        for u in x_units(backend):
            if issubclass(getattr(ops, u[0]), (ops.Preparation, ops.Measurement)) or backend == "gaussian":
                for ctxname in ([rng.choice(["plain", "rev"] if backend == "fock" else ["plain", "rev", "apart", "new", "high"])] if quick else CTXS):
                    x_judge(ctx, finish(x_wrap([u, u], False, ctxname, backend), backend, "opt" if quick else None), "x-cross/%s-twice" % backend, u[0] + "+" + u[0])
    for backend, cnt in (("gaussian", ctx.budget(70, 900)), ("fock", ctx.budget(25, 400)), ("bosonic", ctx.budget(12, 200))):
        units = x_units(backend)
        for _ in range(cnt):
            a, b = rng.choice(units), rng.choice(units)
            pair = [a, b] + ([rng.choice(units)] if rng.random() < 0.3 else [])
            x_judge(ctx, finish(x_wrap(pair, False, pick_ctx(rng, backend), backend), backend), "x-cross/" + backend, "+".join(u[0] for u in pair))
    # 3. symbolic parameters
    sym = x_symbolic_sweep()
    for two, tag, pair in (rng.sample(sym, ctx.budget(70, len(sym))) if quick else sym):
        spec = finish(x_wrap(pair, two, rng.choice(CTXS), "gaussian"), "gaussian", rng.choice(["opt", "ran", "ran", "opt2", "engine", "compile:gaussian", "compiled-then-opt"]))
        spec["free"] = {"x": rng.choice([0.3, 0.55, 0.2]), "y": rng.choice([0.7, 0.45])}
        x_judge(ctx, spec, "x-free/" + tag.split(":")[0], tag)
    ms = x_measured_sweep()
    if quick:
        # every channel item (few) and a sample of the gate items
        ms = [it for it in ms if "Channel" in it[0]] + rng.sample([it for it in ms if "Channel" not in it[0]], 56)
    for item in ms:
        # (half of the cases: the program has run before, with another outcome when the measurement is not post-selected)
        x_judge(ctx, finish(x_measured_spec(item), "gaussian", "ran" if rng.random() < 0.5 else None), "x-measured/" + item[-1].split(":")[0], item[-1])
    # 4. random programs
    for backend, cnt in (("gaussian", ctx.budget(80, 900)), ("fock", ctx.budget(16, 300)), ("bosonic", ctx.budget(10, 120))):
        for _ in range(cnt):
            x_judge(ctx, finish(x_random(rng, backend), backend), "x-random/" + backend)
    for _ in range(ctx.budget(12, 150)):
        spec = t_random(rng)
        data = {"check": "tdm", "spec": spec}
        try:
            sig, text, merged = t_check(spec)
        except Exception as e:
            ctx.counterexample("tdm:raises:%s" % type(e).__name__, "checking a time-domain program raised %r" % e, data)
            continue
        if sig is None and text:
            ctx.hist["x-skipped:" + text[:40]] = ctx.hist.get("x-skipped:" + text[:40], 0) + 1
            continue
        ctx.case(spec, nontrivial=bool(merged), bucket="x-tdm")
        if sig is not None:
            ctx.counterexample(sig, text, data)
    # 5. the special-purpose compilers
    for comp in ("gaussian_unitary", "gaussian_merge", "passive", "gbs", "Xunitary", "Xcov"):
        for _ in range(ctx.budget(10, 100)):
            x_judge(ctx, finish(x_compiler_program(rng, comp), "gaussian", "compile:" + comp), "x-compiler/" + comp)


def replay(ctx, data):
    d = data["data"]
    if d.get("check") == "tdm":
        r = t_check(d["spec"])
        print("time-domain program:", r[:2])
        return r[0] is not None
    if d.get("check") == "xspec":
        r = x_check(d["spec"])
        print("extended stream:", r[:2])
        return r[0] is not None
    if d.get("check") == "matmerge":
        r = mat_merge_check(d["spec"])
        print("matrix-parameter merge:", r)
        return r[0] is not None
    circ = {"n": d["circ"]["n"], "cmds": [deser(x) for x in d["circ"]["cmds"]]}
    prog = build(circ)
    import warnings
    with warnings.catch_warnings():
        warnings.simplefilter("ignore")
        opt = prog.optimize() if d.get("check") == "opt" else prog.compile(compiler="gaussian", optimize=True)
    print("original :", [str(c) for c in prog.circuit])
    print("optimised:", [str(c) for c in opt.circuit])
    r = states_differ(circ, prog, opt, d.get("profile", "gauss"))
    print("states differ:", r)
    return bool(r)
