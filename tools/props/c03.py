"""C03 — circuit optimisation never changes what a program computes."""
import copy
import math
from fractions import Fraction

import numpy as np

import strawberryfields as sf
from strawberryfields import ops
from props import backends_common as bc
from vlib import coq

PROP = "C03"
LEVEL = "proof"
COQ_DIRS = ["C03"]
COQ_TARGETS = ["Base/Reorder.vo", "C03/Model.vo", "C03/Proofs.vo", "C03/Families.vo", "C03/Global.vo"]
PROPERTIES_FILE = "Properties/C03.v"
ALLOWED_AXIOMS = set()
RULE = ("circuits of 0-12 commands on 1-3 modes mixing every single-mode family (D, X, Z, S, R, P, V, K, Fourier, loss, thermal loss, MSgate, "
        "preparations), two-mode gates, measurements, gates with measured parameters, daggers; first parameters on a dyadic grid so that exact "
        "cancellation (p0 == 0, T == 1) occurs; optimised grid compared wire by wire with the model (exact rationals); original vs optimised "
        "executed on a backend; operation objects snapshotted before/after; non-trivial = at least one merge fired, or a mergeable pair separated "
        "by a command on another wire")
TRUSTED_BASE = [
    "Coq 8.16.1 kernel; vm_compute (model executed at Q)",
    "hand model coq/C03/Model.v of Operation.merge (Gate/Channel/Preparation/Fouriergate) and of optimize_circuit's per-wire loop, tied by exact correspondence",
    "Section hypotheses of merge_sound_from_laws: each gate family is a one-parameter group in p[0] (proved for R, S, D, X, Z, P in C03/Families.v; assumed for K, V as exp(i p0 H)), "
    "channels multiply, a preparation absorbs what precedes it on its mode",
    "multi-wire optimisation: C03_optimize_circuit_sound covers every linearisation of the optimised grid; its hypotheses on the implementation's output "
    "(distinct command objects, each on >= 1 wire, per-wire projections = the model's per-wire results) are what the correspondence checks on every case",
    "Section hypothesis of the whole-optimiser theorem: commands without a common wire (register modes + measured-parameter modes) commute",
]
ASSUMPTIONS = ["commands that share no wire of the grid commute (physics of disjoint subsystems + classical dependencies are wires); K/V one-parameter-group laws assumed"]
MANIFEST_TEXT = ("Proved: the optimiser's per-wire merging loop terminates and preserves the composition for every command list, given merge soundness; merge soundness "
                 "derived from the one-parameter-group laws, which are proved for the Gaussian single-mode families as 2x2 identities; two Fourier gates are "
                 "provably not mergeable into one. C03_optimize_circuit_sound: the whole optimiser (all wires, then any re-linearisation of the optimised grid) preserves the ordered "
                 "composition for every command list, in any monoid where commands without a common wire commute (unbounded in commands, wires, modes).")

PH = [0.25, 0.5]
GRID8 = [-4, -3, -2, -1, 1, 2, 3, 4, 0]

# family -> (kind, class name, number of extra params)
FAMS = {
    "Dgate": ("KGate", 1), "Xgate": ("KGate", 0), "Zgate": ("KGate", 0), "Sgate": ("KGate", 1), "Rgate": ("KGate", 0), "Pgate": ("KGate", 0),
    "Vgate": ("KGate", 0), "Kgate": ("KGate", 0), "Fouriergate": ("KFourier", 0),
    "LossChannel": ("KChannel", 0), "ThermalLossChannel": ("KChannel", 1), "MSgate": ("KOther", 1),
    "Vacuum": ("KPrep", 0), "Coherent": ("KPrep", 1), "Squeezed": ("KPrep", 1), "Thermal": ("KPrep", 0), "Fock": ("KPrep", 0),
    "BSgate": ("KGate", 1), "CXgate": ("KGate", 0), "MeasureX": ("KOther", 0), "RgateM": ("KOther", 0), "Del": ("KOther", 0),
}
FAM_ID = {n: i for i, n in enumerate(sorted(FAMS))}


def gen_circuit(rng, profile):
    n = rng.randint(1, 3)
    fock = profile == "fock"
    bos = profile == "bosonic"
    names = ["Dgate", "Xgate", "Zgate", "Sgate", "Rgate", "Pgate", "Fouriergate", "LossChannel", "Vacuum", "Coherent", "Squeezed", "BSgate", "CXgate"]
    if fock:
        names += ["Vgate", "Kgate", "Fock"]
    else:
        names += ["ThermalLossChannel", "Thermal", "MeasureX", "RgateM"]
    if bos:
        names += ["MSgate"]
    cmds = []
    measured = set()
    deleted = set()
    for _ in range(rng.randint(0, 12)):
        if cmds and rng.random() < 0.45:
            # same family on the same mode as some earlier single-mode command: provoke merges
            prev = rng.choice([c for c in cmds if len(c["modes"]) == 1] or cmds)
            name, modes = prev["name"], list(prev["modes"])
            extra = list(prev["extra"]) if rng.random() < 0.8 else None
            if name == "RgateM":
                cmds.append({"name": name, "p0": prev["p0"], "extra": [], "modes": modes, "dagger": False})
                continue
        else:
            name = rng.choice(names)
            modes, extra = None, None
        two = name in ("BSgate", "CXgate")
        if two and n < 2:
            continue
        if modes is None or len(modes) != (2 if two else 1):
            modes = rng.sample(range(n), 2 if two else 1)
        if set(modes) & deleted:
            continue
        kind, nextra = FAMS[name]
        if name in ("LossChannel", "ThermalLossChannel"):
            p0 = Fraction(rng.choice([8, 8, 4, 2, 6]), 8)
        elif name in ("Fouriergate", "Vacuum", "MeasureX"):
            p0 = None
        elif name == "Fock":
            p0 = Fraction(rng.choice([0, 1, 2]))
        elif name == "Thermal":
            p0 = Fraction(rng.choice([1, 2, 4]), 8)
        elif name == "RgateM":
            if not measured:
                continue
            src = rng.choice(sorted(measured))
            if src == modes[0] or src in deleted:
                continue
            p0 = ("meas", src)
        elif name in ("Vgate", "Kgate"):
            p0 = Fraction(rng.choice([-1, 1, 2, -2, 0]), 16)
        elif name == "MSgate":
            p0 = Fraction(rng.choice([1, 2]), 8)
        else:
            p0 = Fraction(rng.choice(GRID8), 8 if name != "Sgate" else 16)
        if extra is None or len(extra) != nextra:
            extra = [rng.choice(PH) for _ in range(nextra)]
        dagger = kind in ("KGate", "KFourier") and name != "RgateM" and rng.random() < 0.3
        if name == "MeasureX":
            measured.add(modes[0])
        cmds.append({"name": name, "p0": p0, "extra": extra, "modes": modes, "dagger": dagger})
        if n >= 2 and len(deleted) < n - 1 and rng.random() < 0.06:
            # delete a mode that was used before: nothing may touch it afterwards
            dm = rng.choice([m for m in range(n) if m not in deleted])
            deleted.add(dm)
            cmds.append({"name": "Del", "p0": None, "extra": [], "modes": [dm], "dagger": False})
        if name == "RgateM" and rng.random() < 0.6:
            cmds.append({"name": name, "p0": p0, "extra": [], "modes": list(modes), "dagger": False})
        if name == "RgateM" and rng.random() < 0.6:
            # a plain gate of the same family directly next to the feed-forward gate, on the same mode
            plain = {"name": "Rgate", "p0": Fraction(rng.choice([1, 2, -3, 4]), 8), "extra": [], "modes": list(modes), "dagger": rng.random() < 0.3}
            if rng.random() < 0.5:
                cmds.append(plain)
            else:
                cmds.insert(len(cmds) - 1, plain)
    # the front end rejects any use of a deleted mode (as target or as source of a measured parameter): drop such commands
    # (false alarm of seed 23: a repeated feed-forward gate was emitted after the Del of its mode)
    dead, kept = set(), []
    for c in cmds:
        src = c["p0"][1] if c["name"] == "RgateM" else None
        if set(c["modes"]) & dead or src in dead:
            continue
        kept.append(c)
        if c["name"] == "Del":
            dead.add(c["modes"][0])
    return {"n": n, "cmds": kept}


def ser(c):
    p0 = c["p0"]
    if isinstance(p0, Fraction):
        p0 = [p0.numerator, p0.denominator]
    elif isinstance(p0, tuple):
        p0 = list(p0)
    return [c["name"], p0, c["extra"], c["modes"], c["dagger"]]


def deser(x):
    name, p0, extra, modes, dagger = x
    if isinstance(p0, list) and p0 and p0[0] == "meas":
        p0 = ("meas", p0[1])
    elif isinstance(p0, list):
        p0 = Fraction(p0[0], p0[1])
    return {"name": name, "p0": p0, "extra": extra, "modes": modes, "dagger": dagger}


def build(circ):
    prog = sf.Program(circ["n"])
    with prog.context as q:
        for c in circ["cmds"]:
            name, p0 = c["name"], c["p0"]
            if name == "RgateM":
                op = ops.Rgate(q[p0[1]].par)
            elif name == "MeasureX":
                # post-selected so that both runs are deterministic
                op = ops.MeasureHomodyne(0.0, select=0.25)
            elif name == "Del":
                ops.Del | q[c["modes"][0]]
                continue
            elif name in ("Fouriergate", "Vacuum"):
                op = getattr(ops, name)()
            elif name == "Fock":
                op = ops.Fock(int(p0))
            else:
                op = getattr(ops, name)(float(p0), *c["extra"])
            if c["dagger"]:
                op = op.H
            op | tuple(q[m] for m in c["modes"])
    return prog


def deps_of(c):
    d = list(c["modes"])
    if c["name"] == "RgateM" and c["p0"][1] not in d:
        d.append(c["p0"][1])
    return d


def enc(i, c):
    kind, _ = FAMS[c["name"]]
    p0 = c["p0"]
    q = "(%d # %d)" % (p0.numerator, p0.denominator) if isinstance(p0, Fraction) else "(0 # 1)"
    rest = [int(round(x * 1024)) for x in c["extra"]]
    return "(mkOp %s %d %s %s %s %d %s %s %d)" % (kind, FAM_ID[c["name"]], q, coq.coq_list(rest, coq.coq_Z), coq.coq_bool(c["dagger"]),
                                                    len(c["modes"]), coq.coq_list(c["modes"], str), coq.coq_list(deps_of(c), str), i)


def view_impl(prog_opt):
    """Per wire, the optimised commands touching it, as comparable tuples."""
    out = []
    for c in prog_opt.circuit:
        name = c.op.__class__.__name__
        modes = [r.ind for r in c.reg]
        deps = sorted(r.ind for r in c.get_dependencies())
        p = c.op.p
        meas = bool(c.op.measurement_deps)
        if meas:
            name = "RgateM"
        if name == "MeasureHomodyne":
            name = "MeasureX"
        if name == "_Delete":
            name = "Del"
        p0 = None
        if p and not meas and name not in ("Fouriergate", "MeasureX"):
            try:
                p0 = float(p[0])
            except Exception:
                p0 = None
        extra = []
        if not meas:
            for x in p[1:]:
                try:
                    extra.append(int(round(float(x) * 1024)))
                except Exception:
                    pass
        nextra = FAMS.get(name, ("", 0))[1]
        out.append({"name": name, "p0": p0, "extra": extra[:nextra], "modes": modes, "deps": deps, "dagger": bool(getattr(c.op, "dagger", False)), "ident": id(c)})
    return out


def same_cmd(m, v):
    """m: model tuple (id, fam, (num, den), rest, dag, regs); v: impl view dict."""
    _, fam, (num, den), rest, dag, regs = m
    if FAM_ID.get(v["name"]) != fam or list(regs) != v["modes"] or bool(dag) != v["dagger"]:
        return False
    if list(rest) != v["extra"]:
        return False
    if v["p0"] is not None and abs(v["p0"] - num / den) > 1e-12:
        return False
    return True


def states_differ(circ, prog, opt, profile):
    backend = {"gauss": "gaussian", "fock": "fock", "bosonic": "bosonic"}[profile]
    def run(p):
        if backend == "fock":
            eng = sf.Engine("fock", backend_options={"cutoff_dim": 7})
        else:
            eng = sf.Engine(backend)
        return eng.run(p, shots=1).state
    # measurements: post-select nothing; remove randomness by seeding identically
    # post-selected homodyne on the gaussian backend still draws the conjugate quadrature from np.random.normal;
    # make that draw deterministic (its mean) so that the comparison does not depend on the order of RNG calls
    orig_normal = np.random.normal
    np.random.normal = lambda loc=0.0, scale=1.0, size=None: (np.asarray(loc, dtype=float) if size is None else np.broadcast_to(np.asarray(loc, dtype=float), size).copy())
    try:
        np.random.seed(1234)
        try:
            s1 = run(prog)
        except Exception:
            return None  # the ORIGINAL program cannot be run on this backend: nothing to compare (not an optimiser issue)
        np.random.seed(1234)
        s2 = run(opt)
    finally:
        np.random.normal = orig_normal
    if backend == "fock" and s1.dm().shape != s2.dm().shape:
        return True
    if backend == "fock":
        # truncated matrices are not exactly a group: allow the error attributable to truncation
        tol = max(bc.fock_tol(s1)[0], bc.fock_tol(s2)[0], 1e-4)
        return float(np.abs(s1.dm() - s2.dm()).max()) > tol
    o1, o2 = bc.gauss_obs(s1), bc.gauss_obs(s2)
    if o1[0].shape != o2[0].shape:
        return True
    return max(np.abs(o1[0] - o2[0]).max(), np.abs(o1[1] - o2[1]).max()) > 1e-8


def snapshot(prog):
    return [(id(c), id(c.op), c.op.__class__.__name__, [repr(x) for x in c.op.p], bool(getattr(c.op, "dagger", False)), [r.ind for r in c.reg]) for c in prog.circuit]


def judge(ctx, circ, profile, record=True):
    """Run one circuit through implementation and (later) model. Returns item dict or None."""
    prog = build(circ)
    snap = snapshot(prog)
    import warnings
    with warnings.catch_warnings():
        warnings.simplefilter("ignore")
        opt = prog.optimize()
    data = {"check": "opt", "profile": profile, "circ": {"n": circ["n"], "cmds": [ser(c) for c in circ["cmds"]]}}
    if snapshot(prog) != snap:
        ctx.counterexample("optimize:mutates-original", "Program.optimize() modified the original program or its operation objects", data)
    try:
        diff = states_differ(circ, prog, opt, profile)
    except Exception as e:
        ctx.counterexample("optimize:run-raises:%s" % type(e).__name__, "running original/optimised raised %r" % e, data)
        return None
    if diff is None:
        ctx.hist["original-not-runnable"] = ctx.hist.get("original-not-runnable", 0) + 1
    return {"circ": circ, "profile": profile, "view": view_impl(opt), "diff": bool(diff), "data": data, "n_in": len(prog.circuit), "n_out": len(opt.circuit)}


def culprit(item):
    """Name the family pair responsible, for the signature: families that were merged (present fewer times in the output)."""
    from collections import Counter
    cin = Counter(c["name"] for c in item["circ"]["cmds"])
    cout = Counter(v["name"] for v in item["view"])
    lost = sorted(k for k in cin if cout.get(k, 0) < cin[k])
    return "+".join(lost) or "none"


def feedforward_sweep():
    """Fixed small circuits around a feed-forward gate (a gate whose parameter is a measured value of another mode)."""
    F = Fraction
    def c(name, p0=None, modes=(0,), dagger=False, extra=()):
        return {"name": name, "p0": p0, "extra": list(extra), "modes": list(modes), "dagger": dagger}
    meas = c("MeasureX", None, (1,))
    ff = c("RgateM", ("meas", 1), (0,))
    out = []
    for plain in (c("Rgate", F(1, 2)), c("Rgate", F(-3, 8), dagger=True)):
        out.append({"n": 2, "cmds": [c("Sgate", F(3, 16), extra=[0.5]), meas, plain, ff]})
        out.append({"n": 2, "cmds": [c("Sgate", F(3, 16), extra=[0.5]), meas, ff, plain]})
        out.append({"n": 2, "cmds": [c("Sgate", F(3, 16), extra=[0.5]), meas, plain, ff, plain]})
    out.append({"n": 2, "cmds": [c("Sgate", F(3, 16), extra=[0.5]), meas, ff, ff]})
    out.append({"n": 3, "cmds": [c("Sgate", F(3, 16), extra=[0.5]), meas, c("Rgate", F(1, 4), (2,)), ff, c("Rgate", F(1, 4), (0,)), c("Rgate", F(1, 8), (2,))]})
    return out


def correspondence(ctx):
    rng = ctx.rng
    items = []
    for circ in feedforward_sweep():
        it = judge(ctx, circ, "gauss")
        if it:
            items.append(it)
    for _ in range(ctx.budget(260, 2600)):
        profile = rng.choice(["gauss", "gauss", "fock", "bosonic"])
        circ = gen_circuit(rng, profile)
        try:
            it = judge(ctx, circ, profile)
        except Exception as e:
            ctx.counterexample("optimize:raises:%s" % type(e).__name__, "optimize raised %r" % e, {"check": "opt", "profile": profile, "circ": {"n": circ["n"], "cmds": [ser(c) for c in circ["cmds"]]}})
            continue
        if it:
            items.append(it)
    for si in range(0, len(items), 300):
        sh = items[si:si + 300]
        lines = ["From Coq Require Import List Arith Bool ZArith QArith.", "Import ListNotations.", "From SFV Require Import Base.Reorder C03.Model.",
                 "Local Open Scope nat_scope.", "Definition cases := ["]
        rows = []
        for it in sh:
            c = it["circ"]
            rows.append("optimize_gridQ %s %s" % (coq.coq_list([enc(i, x) for i, x in enumerate(c["cmds"])]), coq.coq_list(list(range(c["n"])), str)))
        lines.append(";\n".join(rows) + "].")
        lines.append("Eval vm_compute in cases.")
        ok, vals, raw = ctx.coq_eval("cases_opt_%d" % (si // 300), "\n".join(lines))
        if not ok:
            ctx.obligation("correspondence:optimize:shard%d" % (si // 300), False, raw)
            return
        for it, grid in zip(sh, vals[0]):
            agree = True
            why = ""
            for w, res in grid:
                if res is None:
                    agree, why = False, "model ran out of fuel"
                    break
                mlist = res[1] if isinstance(res, tuple) and res[0] == "Some" else res
                vlist = [v for v in it["view"] if w in v["deps"]]
                if len(mlist) != len(vlist) or not all(same_cmd(m, v) for m, v in zip(mlist, vlist)):
                    agree, why = False, "wire %d: model %s vs implementation %s" % (w, mlist, [(v["name"], v["p0"], v["modes"], v["dagger"]) for v in vlist])
                    break
            # remaining hypotheses of C03_optimize_circuit_sound on the implementation's output: distinct command objects, each on >= 1 wire
            if agree and (len({v["ident"] for v in it["view"]}) != len(it["view"]) or any(not v["deps"] for v in it["view"])):
                agree, why = False, "optimised circuit repeats a Command object or holds a command on no wire"
            merged = it["n_out"] < it["n_in"]
            ctx.case(it["data"]["circ"], nontrivial=merged, bucket=it["profile"] + ("-merged" if merged else "-unchanged"))
            if it["diff"]:
                ctx.counterexample("optimize:changes-state:" + culprit(it), "optimised program computes a different state than the original (merged families: %s)" % culprit(it), it["data"])
            elif not agree:
                ctx.disagreement("corr:optimize:" + culprit(it), "optimised grid differs from the model: " + why, it["data"])
    ctx.traces += len(items)


def search(ctx):
    """compile(optimize=True) path + object-sharing check: ops shared between original and optimised copy are unmodified."""
    rng = ctx.rng
    for _ in range(ctx.budget(60, 600)):
        circ = gen_circuit(rng, "gauss")
        circ["cmds"] = [c for c in circ["cmds"] if c["name"] not in ("MeasureX", "RgateM")]
        prog = build(circ)
        snap = snapshot(prog)
        data = {"check": "compile", "profile": "gauss", "circ": {"n": circ["n"], "cmds": [ser(c) for c in circ["cmds"]]}}
        import warnings
        try:
            with warnings.catch_warnings():
                warnings.simplefilter("ignore")
                comp = prog.compile(compiler="gaussian", optimize=True)
        except Exception as e:
            ctx.counterexample("compile-optimize:raises:%s" % type(e).__name__, "compile(optimize=True) raised %r" % e, data)
            continue
        ctx.case(data["circ"], nontrivial=len(comp.circuit) < len(prog.circuit), bucket="compile-optimize")
        if snapshot(prog) != snap:
            ctx.counterexample("compile-optimize:mutates-original", "compile(optimize=True) modified the user's program", data)
            continue
        try:
            o1 = bc.gauss_obs(sf.Engine("gaussian").run(prog).state)
            eng = sf.Engine("gaussian")
            o2 = bc.gauss_obs(eng.run(comp).state)
        except Exception as e:
            ctx.counterexample("compile-optimize:run-raises:%s" % type(e).__name__, "running raised %r" % e, data)
            continue
        if max(np.abs(o1[0] - o2[0]).max(), np.abs(o1[1] - o2[1]).max()) > 1e-8:
            ctx.counterexample("compile-optimize:changes-state", "compile(optimize=True) changes the computed state", data)
    search_matrix_merge(ctx)


# ---- single-mode operations whose first parameter is a MATRIX: Decomposition.merge (U2 @ U1) and Channel.merge (np.dot) ----------------
def _mat_cmd(rng, n):
    kind = rng.choice(["GaussianTransform", "GaussianTransform", "Interferometer", "PassiveChannel", "Rgate", "Sgate", "BSgate", "LossChannel"])
    m = rng.randrange(n)
    if kind == "GaussianTransform":
        # 2x2 symplectic = rotation . squeeze . rotation (non-commuting family: the order of the product matters)
        a, b, r = rng.uniform(-3, 3), rng.uniform(-3, 3), rng.uniform(-0.6, 0.6)
        R = lambda t: np.array([[math.cos(t), -math.sin(t)], [math.sin(t), math.cos(t)]])
        S = R(a) @ np.diag([math.exp(-r), math.exp(r)]) @ R(b)
        return [kind, np.round(S, 12).tolist(), [m]]
    if kind == "Interferometer":
        t = rng.choice([0.0, math.pi, 0.5, -1.25, 2.0])
        return [kind, [[[math.cos(t), math.sin(t)]]], [m]]
    if kind == "PassiveChannel":
        t, a = rng.choice([1.0, 0.5, 0.8, 0.3]), rng.choice([0.0, 0.7, -2.0, math.pi])
        return [kind, [[[t * math.cos(a), t * math.sin(a)]]], [m]]
    if kind == "BSgate":
        if n < 2:
            return ["Rgate", [0.3], [m]]
        return [kind, [round(rng.uniform(0.2, 1.2), 3), round(rng.uniform(-1, 1), 3)], rng.sample(range(n), 2)]
    if kind == "LossChannel":
        return [kind, [rng.choice([0.5, 0.8])], [m]]
    return [kind, [round(rng.uniform(-0.6, 0.6), 3)] + ([round(rng.uniform(-1, 1), 3)] if kind == "Sgate" else []), [m]]


def _mat_op(name, par):
    if name == "GaussianTransform":
        return ops.GaussianTransform(np.array(par, dtype=float))
    if name in ("Interferometer", "PassiveChannel"):
        M = np.array([[complex(*z) for z in row] for row in par])
        return getattr(ops, name)(M)
    return getattr(ops, name)(*par)


def _mat_build(spec):
    prog = sf.Program(spec["n"])
    with prog.context as q:
        for name, par, modes in spec["cmds"]:
            _mat_op(name, par) | tuple(q[m] for m in modes)
    return prog


def mat_merge_check(spec):
    """(signature, text) or None: original vs optimised program on the Gaussian backend; a pair that multiplies to the identity must vanish."""
    import warnings
    prog = _mat_build(spec)
    snap = snapshot(prog)
    mats0 = [np.array(c.op.p[0], dtype=complex).copy() if c.op.__class__.__name__ in ("GaussianTransform", "Interferometer", "PassiveChannel") else None for c in prog.circuit]
    with warnings.catch_warnings():
        warnings.simplefilter("ignore")
        opt = prog.optimize()
    if snapshot(prog) != snap or any(m is not None and not np.array_equal(np.array(c.op.p[0], dtype=complex), m) for c, m in zip(prog.circuit, mats0)):
        return "optimize:matrix-op:mutates-original", "optimize() modified the original program's matrix parameters"
    with warnings.catch_warnings():
        warnings.simplefilter("ignore")
        o1 = bc.gauss_obs(sf.Engine("gaussian").run(prog).state)
        o2 = bc.gauss_obs(sf.Engine("gaussian").run(opt).state)
    d = max(np.abs(o1[0] - o2[0]).max(), np.abs(o1[1] - o2[1]).max())
    if d > 1e-7:
        fams = "+".join(sorted({c[0] for c in spec["cmds"] if c[0] in ("GaussianTransform", "Interferometer", "PassiveChannel")}))
        return "optimize:changes-state:" + fams, "optimised program computes a different Gaussian state (max |delta| = %.3g)" % d
    return None, len(opt.circuit) < len(prog.circuit)


def search_matrix_merge(ctx):
    rng = ctx.rng
    for it in range(ctx.budget(60, 600)):
        n = rng.randint(1, 3)
        pre = [["Sgate", [0.4, 0.3 * i], [i]] for i in range(n)] + [["Rgate", [0.7 + i], [i]] for i in range(n)] + ([["BSgate", [0.6, 0.4], [0, n - 1]]] if n > 1 else [])
        cmds = [_mat_cmd(rng, n) for _ in range(rng.randint(2, 7))]
        if it % 4 == 0:
            # an exact inverse pair on one mode, possibly separated by commands on other modes
            m = rng.randrange(n)
            c = _mat_cmd(rng, n)
            while c[0] != "GaussianTransform":
                c = _mat_cmd(rng, n)
            c[2] = [m]
            inv = ["GaussianTransform", np.round(np.linalg.inv(np.array(c[1])), 12).tolist(), [m]]
            between = [x for x in (_mat_cmd(rng, n) for _ in range(2)) if m not in x[2]]
            cmds = cmds[:2] + [c] + between + [inv] + cmds[2:]
        spec = {"n": n, "cmds": pre + cmds}
        data = {"check": "matmerge", "spec": spec}
        try:
            r = mat_merge_check(spec)
        except Exception as e:
            ctx.counterexample("optimize:matrix-op:raises:%s" % type(e).__name__, "optimising / running %s raised %r" % (spec, e), data)
            continue
        ctx.case(spec, nontrivial=bool(r[1]) if r[0] is None else True, bucket="matrix-merge")
        if r[0] is not None:
            ctx.counterexample(r[0], r[1], data)


def replay(ctx, data):
    d = data["data"]
    if d.get("check") == "matmerge":
        r = mat_merge_check(d["spec"])
        print("matrix-parameter merge:", r)
        return r[0] is not None
    circ = {"n": d["circ"]["n"], "cmds": [deser(x) for x in d["circ"]["cmds"]]}
    prog = build(circ)
    import warnings
    with warnings.catch_warnings():
        warnings.simplefilter("ignore")
        opt = prog.optimize() if d.get("check") == "opt" else prog.compile(compiler="gaussian", optimize=True)
    print("original :", [str(c) for c in prog.circuit])
    print("optimised:", [str(c) for c in opt.circuit])
    r = states_differ(circ, prog, opt, d.get("profile", "gauss"))
    print("states differ:", r)
    return bool(r)
