"""Fail-closed translator: GaussianModes update methods (gaussiancircuit.py) -> Gallina.

Reads the *current* text of /repo/strawberryfields/backends/gaussianbackend/gaussiancircuit.py, translates the
methods in METHODS statement by statement (table in DESIGN.md §2.3) and writes coq/Gen/GaussCirc.v plus
coq/Gen/gausscirc_sig.json (the formal-parameter list of every generated function, and how the harness must
compute each primitive value).  Anything outside the recognised sub-language raises Untranslatable.
"""
import ast
import json
import os

SRC = os.path.join(os.environ.get("SFV_REPO", "/repo"), "strawberryfields/backends/gaussianbackend/gaussiancircuit.py")
METHODS = ["displace", "squeeze", "phase_shift", "beamsplitter", "loss", "thermal_loss", "init_thermal"]
PRIM_REAL = {"sin", "cos", "sinh", "cosh", "sqrt"}
RESERVED = {"s", "N", "K", "a_", "b_", "fun", "let", "in", "if", "then", "else", "re", "im", "mean", "nmat", "mmat", "nlen"}


class Untranslatable(Exception):
    pass


def fail(node, why):
    raise Untranslatable("UNTRANSLATABLE %s:%s: %s   [%s]" % (SRC, getattr(node, "lineno", "?"), why, ast.unparse(node)[:100] if isinstance(node, ast.AST) else node))


def is_self_attr(node, name=None):
    return (isinstance(node, ast.Attribute) and isinstance(node.value, ast.Name) and node.value.id == "self"
            and (name is None or node.attr == name))


def np_call(node):
    """np.f(args) -> (f, args) else None"""
    if isinstance(node, ast.Call) and isinstance(node.func, ast.Attribute) and isinstance(node.func.value, ast.Name) \
            and node.func.value.id == "np" and not node.keywords:
        return node.func.attr, node.args
    return None


class Fn:
    """Translation of one method."""

    def __init__(self, tr, fdef):
        self.tr = tr
        self.fdef = fdef
        self.name = fdef.name
        self.pyparams = [a.arg for a in fdef.args.args[1:]]
        if fdef.args.vararg or fdef.args.kwarg or fdef.args.defaults or fdef.args.kwonlyargs:
            fail(fdef, "only plain positional parameters")
        for p in self.pyparams:
            if p in RESERVED:
                fail(fdef, "parameter name clashes with the generated code: " + p)
        self.index_params = self._find_index_params()
        self.scalar_used = []  # scalar params used directly in arithmetic (order of first use)
        self.prims = []  # list of dict(name, kind, arg, type)
        self.locals = {}  # name -> 'c' | 'row'
        self.guards = []
        self.lines = []

    # ---- classification of parameters ------------------------------------------------
    def _find_index_params(self):
        idx = set()

        class V(ast.NodeVisitor):
            def visit_Subscript(v, node):
                for n in ast.walk(node.slice):
                    if isinstance(n, ast.Name):
                        idx.add(n.id)
                v.generic_visit(node)

            def visit_Call(v, node):
                c = np_call(node)
                if c and c[0] == "delete":
                    for n in ast.walk(c[1][1]):
                        if isinstance(n, ast.Name):
                            idx.add(n.id)
                # index arguments of calls to translated methods: decided by the callee
                if isinstance(node.func, ast.Attribute) and is_self_attr(node.func) and node.func.attr in v.tr.fns:
                    callee = v.tr.fns[node.func.attr]
                    for a, pn in zip(node.args, callee.pyparams):
                        if pn in callee.index_params and isinstance(a, ast.Name):
                            idx.add(a.id)
                v.generic_visit(node)

            def visit_Compare(v, node):
                # `k == l` guards compare indices
                if len(node.ops) == 1 and isinstance(node.ops[0], ast.Eq):
                    for n in [node.left] + node.comparators:
                        if isinstance(n, ast.Name):
                            idx.add(n.id)
                v.generic_visit(node)

        vis = V()
        vis.tr = self.tr
        vis.visit(self.fdef)
        return [p for p in self.pyparams if p in idx]

    # ---- primitives -------------------------------------------------------------------
    def prim(self, kind, argnode, subst=None):
        """Intern np.<kind>(arg) as a formal parameter; returns a Gallina term of type C K."""
        if subst:
            argnode = Subst(subst).visit(ast.parse(ast.unparse(argnode), mode="eval").body)
        arg = ast.unparse(argnode)
        # exact constant folding: sqrt(0)=0, sqrt(1)=1  (the only constants the translator knows)
        if kind == "sqrt" and isinstance(argnode, ast.Constant) and argnode.value in (0, 0.0, 1, 1.0):
            return "(Cnat N %d)" % int(argnode.value), None
        if kind == "expi":
            typ = "C"
        elif kind in PRIM_REAL:
            typ = "K"
        else:
            fail(argnode, "unknown primitive " + kind)
        for n in ast.walk(argnode):
            if isinstance(n, ast.Name) and n.id not in self.pyparams:
                fail(argnode, "primitive argument must be built from parameters only")
        for p in self.prims:
            if p["kind"] == kind and p["arg"] == arg:
                break
        else:
            nm = "p_%s_%s" % (kind, "".join(ch if ch.isalnum() else "_" for ch in arg).strip("_"))
            p = {"name": nm, "kind": kind, "arg": arg, "type": typ}
            self.prims.append(p)
        return (p["name"] if p["type"] == "C" else "(Cre N %s)" % p["name"]), p

    # ---- expressions -> C K -------------------------------------------------------------
    def expr(self, e, colvar=None):
        """Translate to a Gallina term of type C K. colvar: name of the bound column variable when translating a
        whole-row expression pointwise."""
        if isinstance(e, ast.Constant):
            v = e.value
            if isinstance(v, complex):
                if v == 1j:
                    return "(Ci N)"
                fail(e, "complex literal other than 1j")
            if isinstance(v, (int, float)) and float(v) == int(v) and 0 <= int(v) <= 16:
                return "(Cnat N %d)" % int(v)
            fail(e, "numeric literal")
        if isinstance(e, ast.Name):
            if e.id in self.locals:
                if self.locals[e.id] != "c":
                    fail(e, "row variable used as a scalar")
                return e.id
            if e.id in self.pyparams and e.id not in self.index_params:
                if e.id not in self.scalar_used:
                    self.scalar_used.append(e.id)
                return "(Cre N %s)" % e.id
            fail(e, "unknown name")
        if isinstance(e, ast.UnaryOp) and isinstance(e.op, ast.USub):
            return "(Copp N %s)" % self.expr(e.operand, colvar)
        if isinstance(e, ast.BinOp):
            op = {ast.Add: "Cadd", ast.Sub: "Csub", ast.Mult: "Cmul"}.get(type(e.op))
            if op is None:
                fail(e, "operator")
            return "(%s N %s %s)" % (op, self.expr(e.left, colvar), self.expr(e.right, colvar))
        c = np_call(e)
        if c:
            f, args = c
            if f == "conj" and len(args) == 1:
                return "(Cconj N %s)" % self.expr(args[0], colvar)
            if f == "copy" and len(args) == 1:
                return self.expr(args[0], colvar)
            if f == "exp" and len(args) == 1:
                a = args[0]
                # np.exp(1j * x)
                if isinstance(a, ast.BinOp) and isinstance(a.op, ast.Mult) and isinstance(a.left, ast.Constant) and a.left.value == 1j:
                    return self.prim("expi", a.right)[0]
                fail(e, "np.exp of something that is not 1j*<param expr>")
            if f in PRIM_REAL and len(args) == 1:
                return self.prim(f, args[0])[0]
            fail(e, "numpy call")
        if isinstance(e, ast.Subscript):
            return self.subscript_read(e, colvar)
        fail(e, "expression")

    def index(self, e):
        if isinstance(e, ast.Name) and (e.id in self.index_params or e.id in self.loopvars):
            return e.id
        fail(e, "index must be an index parameter or the loop variable")

    def target_of(self, e):
        """Classify a subscript on self.nmat/self.mmat/self.mean or a row local.
        Returns (what, matrix, idx...) with what in elem / row / col / mean / rowlocal."""
        if not isinstance(e, ast.Subscript):
            fail(e, "subscript expected")
        base, sl = e.value, e.slice
        if is_self_attr(base):
            if base.attr == "mean":
                return ("mean", "mean", self.index(sl))
            if base.attr in ("nmat", "mmat"):
                if isinstance(sl, ast.Tuple) and len(sl.elts) == 2:
                    a, b = sl.elts
                    if isinstance(a, ast.Slice) and a.lower is None and a.upper is None and a.step is None:
                        return ("col", base.attr, self.index(b))
                    return ("elem", base.attr, self.index(a), self.index(b))
                return ("row", base.attr, self.index(sl))
            fail(e, "attribute of self")
        if isinstance(base, ast.Subscript) and is_self_attr(base.value) and base.value.attr in ("nmat", "mmat"):
            return ("elem", base.value.attr, self.index(base.slice), self.index(sl))
        if isinstance(base, ast.Name) and self.locals.get(base.id) == "row":
            return ("rowlocal", base.id, self.index(sl))
        fail(e, "subscript base")

    def subscript_read(self, e, colvar):
        t = self.target_of(e)
        if t[0] == "mean":
            return "(mean s %s)" % t[2]
        if t[0] == "elem":
            self.note_access(t[1], t[2], t[3], e)
            return "(%s s %s %s)" % (t[1], t[2], t[3])
        if t[0] == "rowlocal":
            return "(%s %s)" % (t[1], t[2])
        if t[0] == "row":
            if colvar is None:
                fail(e, "whole row used where a scalar is needed")
            return "(%s s %s %s)" % (t[1], t[2], colvar)
        fail(e, "column read")

    # inside a loop every access must have the loop variable as column and a loop-invariant row
    loopvars = ()

    def note_access(self, mat, r, c, node):
        if self.loopvars:
            lv = self.loopvars[0]
            if c != lv or r == lv:
                fail(node, "inside a loop every nmat/mmat access must be [invariant row][loop variable]")

    # ---- statements ---------------------------------------------------------------------
    def emit(self, s):
        self.lines.append("  " + s)

    def stmt(self, st):
        if isinstance(st, ast.Expr) and isinstance(st.value, ast.Constant) and isinstance(st.value.value, str):
            return  # docstring
        if isinstance(st, ast.If):
            return self.guard(st)
        if isinstance(st, ast.Assign) and len(st.targets) == 1:
            tgt = st.targets[0]
            if isinstance(tgt, ast.Name):
                return self.assign_local(tgt.id, st.value, st)
            return self.assign_sub(tgt, st.value, st)
        if isinstance(st, ast.AugAssign) and isinstance(st.op, ast.Add):
            return self.augassign(st)
        if isinstance(st, ast.For):
            return self.loop(st)
        if isinstance(st, ast.Expr) and isinstance(st.value, ast.Call):
            return self.call(st.value)
        fail(st, "statement")

    def guard(self, st):
        if st.orelse or len(st.body) != 1 or not isinstance(st.body[0], ast.Raise):
            fail(st, "only `if <cond>: raise ...` guards")
        exc = st.body[0].exc
        kind = exc.func.id if isinstance(exc, ast.Call) and isinstance(exc.func, ast.Name) else "Exception"

        def cond(t):
            if isinstance(t, ast.BoolOp) and isinstance(t.op, ast.Or):
                return [c for v in t.values for c in cond(v)]
            if isinstance(t, ast.Compare) and len(t.ops) == 1 and isinstance(t.ops[0], ast.Is) and \
                    isinstance(t.comparators[0], ast.Constant) and t.comparators[0].value is None and \
                    isinstance(t.left, ast.Subscript) and is_self_attr(t.left.value, "active"):
                return [("inactive", self.index(t.left.slice))]
            if isinstance(t, ast.Compare) and len(t.ops) == 1 and isinstance(t.ops[0], ast.Eq):
                return [("same", self.index(t.left), self.index(t.comparators[0]))]
            fail(t, "guard condition")
        for c in cond(st.test):
            self.guards.append(list(c) + [kind])

    def assign_local(self, name, value, st):
        if name in RESERVED or name in self.pyparams:
            fail(st, "assignment to a reserved name / parameter")
        # row snapshot: np.copy(self.nmat[k])
        c = np_call(value)
        if c and c[0] == "copy" and isinstance(c[1][0], ast.Subscript):
            t = self.target_of(c[1][0])
            if t[0] == "row":
                self.locals[name] = "row"
                self.emit("let %s := %s s %s in" % (name, t[1], t[2]))
                return
        term = self.expr(value)
        self.locals[name] = "c"
        self.emit("let %s := %s in" % (name, term))

    def assign_sub(self, tgt, value, st):
        t = self.target_of(tgt)
        if t[0] == "mean":
            self.emit("let s := set_mean s %s %s in" % (t[2], self.expr(value)))
        elif t[0] == "elem":
            self.note_access(t[1], t[2], t[3], tgt)
            self.emit("let s := set_%s s %s %s %s in" % (t[1], t[2], t[3], self.expr(value)))
        elif t[0] == "row":
            if self.loopvars:
                fail(st, "row assignment inside a loop")
            self.emit("let s := set_%s_row s %s (fun b_ => %s) in" % (t[1], t[2], self.expr(value, colvar="b_")))
        elif t[0] == "col":
            if self.loopvars:
                fail(st, "column assignment inside a loop")
            # RHS is a whole row expression: element a_ of the new column is element a_ of that row expression
            self.emit("let s := set_%s_col s %s (fun a_ => %s) in" % (t[1], t[2], self.expr(value, colvar="a_")))
        else:
            fail(st, "assignment target")

    def augassign(self, st):
        tgt = st.target
        if is_self_attr(tgt, "nmat"):
            self.emit("let s := add_all_nmat N s %s in" % self.expr(st.value))
            return
        t = self.target_of(tgt)
        if t[0] == "mean":
            self.emit("let s := set_mean s %s (Cadd N (mean s %s) %s) in" % (t[2], t[2], self.expr(st.value)))
        elif t[0] == "elem":
            self.note_access(t[1], t[2], t[3], tgt)
            self.emit("let s := set_%s s %s %s (Cadd N (%s s %s %s) %s) in" % (t[1], t[2], t[3], t[1], t[2], t[3], self.expr(st.value)))
        else:
            fail(st, "augmented assignment target")

    def loop(self, st):
        if st.orelse or not isinstance(st.target, ast.Name) or self.loopvars:
            fail(st, "loop shape")
        c = np_call(st.iter)
        ok = c and c[0] == "delete" and len(c[1]) == 2
        if ok:
            ar = np_call(c[1][0])
            ok = ar and ar[0] == "arange" and len(ar[1]) == 1 and is_self_attr(ar[1][0], "nlen")
        if not ok:
            fail(st, "loop must be `for v in np.delete(np.arange(self.nlen), <index or tuple>)`")
        ex = c[1][1]
        excl = [self.index(x) for x in ex.elts] if isinstance(ex, ast.Tuple) else [self.index(ex)]
        lv = st.target.id
        if lv in RESERVED or lv in self.locals or lv in self.pyparams:
            fail(st, "loop variable name")
        self.loopvars = (lv,)
        try:
            for b in st.body:
                if not (isinstance(b, ast.Assign) and len(b.targets) == 1):
                    fail(b, "loop body must consist of element assignments")
                t = self.target_of(b.targets[0])
                if t[0] != "elem":
                    fail(b, "loop body must consist of element assignments")
                self.note_access(t[1], t[2], t[3], b)
                # reads inside the value are checked by note_access via expr(); self.mean may not be read
                for n in ast.walk(b.value):
                    if is_self_attr(n, "mean"):
                        fail(b, "mean accessed inside a loop")
                rhs = self.expr(b.value)
                self.emit("let s := par_%s s [%s] %s (fun %s => %s) in" % (t[1], "; ".join(excl), t[2], lv, rhs))
        finally:
            self.loopvars = ()

    def call(self, call):
        if not (is_self_attr(call.func) and call.func.attr in self.tr.fns and not call.keywords):
            fail(call, "only calls to other translated methods")
        callee = self.tr.fns[call.func.attr]
        if len(call.args) != len(callee.pyparams):
            fail(call, "arity")
        subst = dict(zip(callee.pyparams, call.args))
        args = []
        for kind, nm in callee.formals():
            if kind == "scalar":
                a = subst[nm]
                if isinstance(a, ast.Name) and a.id in self.pyparams and a.id not in self.index_params:
                    if a.id not in self.scalar_used:
                        self.scalar_used.append(a.id)
                    args.append(a.id)
                elif isinstance(a, ast.Constant) and float(a.value) == int(a.value) and 0 <= a.value <= 16:
                    args.append("(Knat N %d)" % int(a.value))
                else:
                    fail(call, "scalar argument")
            elif kind == "index":
                args.append(self.index(subst[nm]))
            else:  # prim of the callee, re-expressed over the caller's arguments
                p = [q for q in callee.prims if q["name"] == nm][0]
                term, newp = self.prim(p["kind"], ast.parse(p["arg"], mode="eval").body, subst)
                if newp is None:
                    # constant-folded: a term of type C K; a K is needed for real primitives
                    if p["type"] == "K":
                        term = term.replace("Cnat", "Knat")
                else:
                    term = newp["name"]
                args.append(term)
        self.emit("let s := %s %s s in" % (callee.name, " ".join(args)))
        for g in callee.guards:
            gg = [subst[x].id if isinstance(x, str) and x in subst and isinstance(subst[x], ast.Name) else x for x in g]
            if gg not in self.guards:
                self.guards.append(gg)

    def formals(self):
        """Ordered formal parameters of the generated function (besides N and s)."""
        out = [("scalar", n) for n in self.pyparams if n in self.scalar_used]
        out += [("prim", p["name"]) for p in self.prims]
        out += [("index", n) for n in self.index_params]
        return out

    def translate(self):
        for st in self.fdef.body:
            self.stmt(st)
        ps = []
        for kind, nm in self.formals():
            if kind == "scalar":
                ps.append("(%s : K)" % nm)
            elif kind == "index":
                ps.append("(%s : nat)" % nm)
            else:
                p = [q for q in self.prims if q["name"] == nm][0]
                ps.append("(%s : %s)" % (nm, "C K" if p["type"] == "C" else "K"))
        head = "Definition %s %s (s : st K) : st K :=" % (self.name, " ".join(ps))
        return "\n".join([head] + self.lines + ["  s."])


class Subst(ast.NodeTransformer):
    def __init__(self, m):
        self.m = m

    def visit_Name(self, node):
        return self.m.get(node.id, node)


class Translator:
    def __init__(self, src=SRC):
        self.src = src
        tree = ast.parse(open(src).read())
        cls = [n for n in tree.body if isinstance(n, ast.ClassDef) and n.name == "GaussianModes"]
        if not cls:
            raise Untranslatable("UNTRANSLATABLE: class GaussianModes not found")
        self.defs = {n.name: n for n in cls[0].body if isinstance(n, ast.FunctionDef)}
        self.fns = {}

    def run(self):
        # callees first
        order = ["loss"] + [m for m in METHODS if m != "loss"]
        texts = {}
        for m in order:
            if m not in self.defs:
                raise Untranslatable("UNTRANSLATABLE: method %s not found" % m)
            fn = Fn(self, self.defs[m])
            self.fns[m] = fn
            texts[m] = fn.translate()
        body = "\n\n".join(texts[m] for m in order)
        out = ("(* GENERATED by tools/translate_gauss.py from %s — do not edit *)\n"
               "From Coq Require Import List Arith Bool.\nImport ListNotations.\nFrom SFV Require Import Base.Num.\n\n"
               "Section Gen.\nContext {K : Type} (N : Num K).\n\n%s\n\nEnd Gen.\n" % (self.src, body))
        sig = {m: {"formals": self.fns[m].formals(), "prims": self.fns[m].prims, "pyparams": self.fns[m].pyparams,
                   "guards": self.fns[m].guards} for m in order}
        return out, sig


def write(ctx=None):
    out, sig = Translator().run()
    gen = os.path.join(os.path.dirname(os.path.dirname(os.path.abspath(__file__))), "coq", "Gen")
    os.makedirs(gen, exist_ok=True)
    for path, text in ((os.path.join(gen, "GaussCirc.v"), out), (os.path.join(gen, "gausscirc_sig.json"), json.dumps(sig, indent=1))):
        old = open(path).read() if os.path.exists(path) else None
        if old != text:
            open(path, "w").write(text)
    return sig


def translate_gausscirc(ctx):
    write(ctx)


if __name__ == "__main__":
    sig = write()
    print(open(os.path.join(os.path.dirname(os.path.dirname(os.path.abspath(__file__))), "coq", "Gen", "GaussCirc.v")).read())
    print(json.dumps(sig, indent=1))
