#!/venv/bin/python
"""Regenerates MANIFEST.json from tools/props/*.py metadata (MANIFEST_TEXT / LEVEL_NOTE / TECHNIQUE) so it is always valid."""
import importlib, json, os, sys
HERE = os.path.dirname(os.path.abspath(__file__))
sys.path.insert(0, HERE)
sys.path.insert(0, "/repo")
VERIF = os.path.dirname(HERE)
props = [json.loads(l) for l in open(os.path.join(VERIF, "properties.jsonl"))]
checks, na = [], []
NA_REASONS = json.load(open(os.path.join(HERE, "not_applicable.json"))) if os.path.exists(os.path.join(HERE, "not_applicable.json")) else {}
for p in props:
    pid = p["id"]
    f = os.path.join(HERE, "props", pid.lower() + ".py")
    if not os.path.exists(f) or pid in NA_REASONS:
        na.append({"property_id": pid, "reason": NA_REASONS.get(pid, "check not built yet in this round; planned in DESIGN.md section 4 (no technical obstacle to the technique)")})
        continue
    mod = importlib.import_module("props." + pid.lower())
    checks.append({
        "property_id": pid,
        "quick_cmd": "./check %s quick" % pid,
        "thorough_cmd": "./check %s thorough" % pid,
        "evidence_file": "/verif/evidence/%s.json" % pid,
        "replay_cmd_template": "./check %s --replay {path}" % pid,
        "engine": "coq-proof+correspondence",
        "level_claimed": {"category": getattr(mod, "LEVEL", "proof"),
                          "text": getattr(mod, "MANIFEST_TEXT", "Coq theorems about a model of the anchored code, tied to /repo by a correspondence check on every run; see DESIGN.md"),
                          "design_ref": "DESIGN.md section 4, " + pid},
        "level_note": getattr(mod, "LEVEL_NOTE", "; ".join(getattr(mod, "TRUSTED_BASE", []))),
        "technique": getattr(mod, "TECHNIQUE", "machine-checked proof in Coq 8.16 about an executable model + model/implementation correspondence by vm_compute on generated cases + failing-input search"),
    })
man = {
    "version": 1,
    "setup_cmd": "cd /verif && ./check --setup",
    "hooks": {"guard": "SF_VERIF", "enable": "no source hook is needed: checks import /repo via PYTHONPATH=/repo and patch library entry points in-process (the ./check wrapper exports SF_VERIF=1)",
              "baseline_off_cmd": "cd /repo && /venv/bin/python -m pytest -ra -q -p no:cacheprovider --timeout=900 --continue-on-collection-errors",
              "source_commits": [], "add_only": True},
    "engines": [{"name": "coq-proof+correspondence", "path": "/verif/check", "serves_properties": [c["property_id"] for c in checks],
                 "kind_free_text": "Coq 8.16.1 development under /verif/coq (full .vo build by coq_makefile), translators and correspondence drivers under /verif/tools"}],
    "checks": checks,
    "not_applicable": na,
    "notes": "Every check = grep gate + (translator) + incremental make + Properties/Cxx.v with Print Assumptions audit + correspondence (model evaluated by vm_compute on the inputs the implementation ran) + failing-input search. known_findings.json lists recorded defects; 'fix:' commits in /repo are listed there as fixed.",
}
json.dump(man, open(os.path.join(VERIF, "MANIFEST.json"), "w"), indent=1)
print("MANIFEST: %d checks, %d not_applicable" % (len(checks), len(na)))
