(* C02 — scalar-polymorphic phase-space algebra on two local modes (definitions only).

   Scalars are an arbitrary type K with ring operations handed in as a class instance (Ops): the
   same definitions are executed at PrimFloat (correspondence) and reasoned about over any
   commutative ring (Proofs).  Quadrature order is (x0, x1, p0, p1) ("xxpp"), hbar-free: every
   displacement is in quadrature units.  An element of [aff] is the affine map r |-> lin r + off
   that a Gaussian unitary induces on the vector of means (its covariance action is
   V |-> lin V lin^T), i.e. exactly the "transformation the operation is documented to perform". *)

(* the scalar operations, plus the three constants the gate definitions need:
   s2h = sqrt(2 hbar), is2h = 1/sqrt(2 hbar), rt = cos(pi/4) = sin(pi/4) *)
Class Ops (K : Type) := mkOps {
  k0 : K; k1 : K; kadd : K -> K -> K; kmul : K -> K -> K; ksub : K -> K -> K; kopp : K -> K;
  s2h : K; is2h : K; rt : K }.

Set Primitive Projections.

Section Alg.
Variable K : Type.
Context {Kops : Ops K}.

Local Notation "0" := k0.
Local Notation "1" := k1.
Local Infix "+" := kadd.
Local Infix "*" := kmul.
Local Infix "-" := ksub.
Local Notation "- x" := (kopp x).

Record V4 := mkV { c0 : K; c1 : K; c2 : K; c3 : K }.
Record M4 := mkM { r0 : V4; r1 : V4; r2 : V4; r3 : V4 }.
Record aff := mkA { lin : M4; off : V4 }.

Definition dot (a b : V4) : K := c0 a * c0 b + c1 a * c1 b + c2 a * c2 b + c3 a * c3 b.
Definition col0 (m : M4) := mkV (c0 (r0 m)) (c0 (r1 m)) (c0 (r2 m)) (c0 (r3 m)).
Definition col1 (m : M4) := mkV (c1 (r0 m)) (c1 (r1 m)) (c1 (r2 m)) (c1 (r3 m)).
Definition col2 (m : M4) := mkV (c2 (r0 m)) (c2 (r1 m)) (c2 (r2 m)) (c2 (r3 m)).
Definition col3 (m : M4) := mkV (c3 (r0 m)) (c3 (r1 m)) (c3 (r2 m)) (c3 (r3 m)).
Definition vrow (a : V4) (m : M4) : V4 := mkV (dot a (col0 m)) (dot a (col1 m)) (dot a (col2 m)) (dot a (col3 m)).
Definition mmul (a b : M4) : M4 := mkM (vrow (r0 a) b) (vrow (r1 a) b) (vrow (r2 a) b) (vrow (r3 a) b).
Definition mvec (a : M4) (v : V4) : V4 := mkV (dot (r0 a) v) (dot (r1 a) v) (dot (r2 a) v) (dot (r3 a) v).
Definition vadd (a b : V4) : V4 := mkV (c0 a + c0 b) (c1 a + c1 b) (c2 a + c2 b) (c3 a + c3 b).
Definition vopp (a : V4) : V4 := mkV (- c0 a) (- c1 a) (- c2 a) (- c3 a).
Definition mtr (m : M4) : M4 := mkM (col0 m) (col1 m) (col2 m) (col3 m).
Definition v0 : V4 := mkV 0 0 0 0.
Definition mid : M4 := mkM (mkV 1 0 0 0) (mkV 0 1 0 0) (mkV 0 0 1 0) (mkV 0 0 0 1).

(* [acomp b a] = "a first, then b" *)
Definition acomp (b a : aff) : aff := mkA (mmul (lin b) (lin a)) (vadd (mvec (lin b) (off a)) (off b)).
Definition aid : aff := mkA mid v0.

(* symplectic form Omega = [[0, I], [-I, 0]] in xxpp order; for a symplectic S, S^-1 = - Omega S^T Omega *)
Definition omega : M4 := mkM (mkV 0 0 1 0) (mkV 0 0 0 1) (mkV (-(1)) 0 0 0) (mkV 0 (-(1)) 0 0).
Definition momega : M4 := mkM (mkV 0 0 (-(1)) 0) (mkV 0 0 0 (-(1))) (mkV 1 0 0 0) (mkV 0 1 0 0).
Definition sinv (s : M4) : M4 := mmul momega (mmul (mtr s) omega).
Definition ainv (a : aff) : aff := mkA (sinv (lin a)) (vopp (mvec (sinv (lin a)) (off a))).
Definition symplectic (s : M4) : Prop := mmul (sinv s) s = mid /\ mmul s (sinv s) = mid.

(* exchange of the two local modes *)
Definition swapm : M4 := mkM (mkV 0 1 0 0) (mkV 1 0 0 0) (mkV 0 0 0 1) (mkV 0 0 1 0).
Definition aswap (a : aff) : aff := mkA (mmul swapm (mmul (lin a) swapm)) (mvec swapm (off a)).

(* ---- elementary phase-space maps on the local pair (0,1); one-mode maps act on local mode 0 ---- *)
(* x0' = a x0 + b p0 ; p0' = c x0 + d p0 *)
Definition one (a b c d : K) : M4 := mkM (mkV a 0 b 0) (mkV 0 1 0 0) (mkV c 0 d 0) (mkV 0 0 0 1).
Definition m_rot (c s : K) : M4 := one c (- s) s c.
Definition m_sq (ch sh cp sp : K) : M4 := one (ch - cp * sh) (- (sp * sh)) (- (sp * sh)) (ch + cp * sh).
Definition m_shear (s : K) : M4 := one 1 0 s 1.
Definition m_bs (ct st cp sp : K) : M4 :=
  mkM (mkV ct (- (st * cp)) 0 (- (st * sp)))
      (mkV (st * cp) ct (- (st * sp)) 0)
      (mkV 0 (st * sp) ct (- (st * cp)))
      (mkV (st * sp) 0 (st * cp) ct).
Definition m_s2 (ch sh cp sp : K) : M4 :=
  mkM (mkV ch (sh * cp) 0 (sh * sp))
      (mkV (sh * cp) ch (sh * sp) 0)
      (mkV 0 (sh * sp) ch (- (sh * cp)))
      (mkV (sh * sp) 0 (- (sh * cp)) ch).
Definition m_cx (s : K) : M4 := mkM (mkV 1 0 0 0) (mkV s 1 0 0) (mkV 0 0 1 (- s)) (mkV 0 0 0 1).
Definition m_cz (s : K) : M4 := mkM (mkV 1 0 0 0) (mkV 0 1 0 0) (mkV 0 s 1 0) (mkV s 0 0 1).
(* real form of a 2x2 complex matrix U = X + iY acting as a |-> U a :  x' = X x - Y p, p' = Y x + X p *)
Definition m_uni (x00 x01 x10 x11 y00 y01 y10 y11 : K) : M4 :=
  mkM (mkV x00 x01 (- y00) (- y01)) (mkV x10 x11 (- y10) (- y11))
      (mkV y00 y01 x00 x01) (mkV y10 y11 x10 x11).
Definition a_lin (m : M4) : aff := mkA m v0.
Definition a_disp (dx dp : K) : aff := mkA mid (mkV dx 0 dp 0).

End Alg.
