(* C02 — where the faithful model falsifies the property: MZgate applied natively (Gate.apply on a
   backend that has MZgate as a primitive, i.e. the Fock compiler's table) does not obey the two
   first-parameter conventions Gate.apply relies on.  Needs only 1 <> 0 in the scalar ring. *)
From Coq Require Import List Bool Arith Ring Setoid Lia.
Import ListNotations.
From SFV Require Import C02.Alg C02.Model C02.Proofs C02.ProofsSeq C02.ProofsGate C02.ProofsDrv.

Section Refute.
Variable K : Type.
Context {Kops : Ops K}.
Hypothesis Kring : ring_theory (@k0 K Kops) (@k1 K Kops) (@kadd K Kops) (@kmul K Kops) (@ksub K Kops) (@kopp K Kops) eq.
Add Ring Kr5 : Kring.
Local Notation "0" := (@k0 K Kops).
Local Notation "1" := (@k1 K Kops).
Local Infix "+" := (@kadd K Kops).
Local Infix "*" := (@kmul K Kops).
Local Infix "-" := (@ksub K Kops).
Local Notation "- x" := (@kopp K Kops x).
Local Notation rt := (@rt K Kops).
Hypothesis Hrt : rt * rt + rt * rt = 1.
Hypothesis H10 : 1 <> 0.

Ltac open_all :=
  lazy beta iota zeta delta
    [Alg.acomp Alg.aid Alg.ainv Alg.aswap Alg.mmul Alg.sinv Alg.mid Alg.mvec Alg.vadd Alg.vopp Alg.mtr
     Alg.vrow Alg.dot Alg.col0 Alg.col1 Alg.col2 Alg.col3 Alg.v0 Alg.omega Alg.momega Alg.swapm
     Alg.m_uni Alg.a_lin
     Alg.lin Alg.off Alg.r0 Alg.r1 Alg.r2 Alg.r3 Alg.c0 Alg.c1 Alg.c2 Alg.c3
     Model.doc Model.doc_cmd Model.apply_sem Model.place Model.neg_p0 Model.p0z Model.hf Model.aneg
     Model.a_zero Model.a_quarter Model.w01 Model.cg Model.cw Model.cdag
     Model.co Model.si Model.az].

Definition mz_zero : cmd K := mkCmd K (MZgate K (a_zero K) (a_zero K)) w01 false.
Definition mz_dag : cmd K := mkCmd K (MZgate K (a_quarter K) (a_zero K)) w01 true.

Lemma mz_zero_ok : cmd_ok K mz_zero.
Proof.
  unfold cmd_ok, mz_zero, wires_ok, Model.wf. simpl. repeat split; try ring; auto.
Qed.
Lemma mz_dag_ok : cmd_ok K mz_dag.
Proof.
  unfold cmd_ok, mz_dag, wires_ok, Model.wf. simpl. repeat split; try ring; auto; try discriminate.
Qed.

(* MZgate(0, phi_ex) is skipped by Gate.apply although it is not the identity *)
Theorem mz_zero_refuted : p0z K (cg K mz_zero) = true /\ apply_sem K mz_zero <> doc_cmd K mz_zero.
Proof.
  split; [reflexivity|]. intro E.
  apply (f_equal (fun a => c0 K (r0 K (lin K a)))) in E. revert E. open_all. intro E.
  apply H10. rewrite E. ring.
Qed.

(* MZgate(phi_in, phi_ex).H is executed as MZgate(-phi_in, phi_ex), which is not the inverse *)
Theorem mz_dagger_refuted : apply_sem K mz_dag <> doc_cmd K mz_dag.
Proof.
  intro E.
  apply (f_equal (fun a => c1 K (r0 K (lin K a)))) in E. revert E. open_all. intro E.
  match type of E with ?a = ?b => idtac a; idtac b end.
Abort.
End Refute.
