(* C02 — where the faithful model falsifies the property: MZgate applied natively (Gate.apply on a
   backend that has MZgate as a primitive, i.e. the Fock compiler's table) does not obey the two
   first-parameter conventions Gate.apply relies on.  Needs only 1 <> 0 in the scalar ring. *)
From Coq Require Import List Bool Arith Ring Setoid Lia.
Import ListNotations.
From SFV Require Import C02.Alg C02.Model C02.Proofs C02.ProofsSeq C02.ProofsGate C02.ProofsDrv.

Section Refute.
Variable K : Type.
Context {Kops : Ops K}.
Hypothesis Kring : ring_theory (@k0 K Kops) (@k1 K Kops) (@kadd K Kops) (@kmul K Kops) (@ksub K Kops) (@kopp K Kops) eq.
Add Ring Kr5 : Kring.
Local Notation "0" := (@k0 K Kops).
Local Notation "1" := (@k1 K Kops).
Local Infix "+" := (@kadd K Kops).
Local Infix "*" := (@kmul K Kops).
Local Infix "-" := (@ksub K Kops).
Local Notation "- x" := (@kopp K Kops x).
Local Notation rt := (@rt K Kops).
Hypothesis Hrt : rt * rt + rt * rt = 1.
Hypothesis H10 : 1 <> 0.

Definition mz_zero : cmd K := mkCmd K (MZgate K (a_zero K) (a_zero K)) w01 false.
Definition mz_dag : cmd K := mkCmd K (MZgate K (a_quarter K) (a_zero K)) w01 true.

Ltac open_all :=
  lazy beta iota zeta delta
    [Alg.acomp Alg.aid Alg.ainv Alg.aswap Alg.mmul Alg.sinv Alg.mid Alg.mvec Alg.vadd Alg.vopp Alg.mtr
     Alg.vrow Alg.dot Alg.col0 Alg.col1 Alg.col2 Alg.col3 Alg.v0 Alg.omega Alg.momega Alg.swapm
     Alg.m_uni Alg.a_lin
     Alg.lin Alg.off Alg.r0 Alg.r1 Alg.r2 Alg.r3 Alg.c0 Alg.c1 Alg.c2 Alg.c3
     Model.doc Model.doc_cmd Model.apply_sem Model.place Model.neg_p0 Model.p0z Model.hf Model.aneg
     Model.a_zero Model.a_quarter Model.w01 Model.cg Model.cw Model.cdag
     Model.co Model.si Model.az mz_zero mz_dag].

Lemma mz_zero_ok : cmd_ok K mz_zero.
Proof.
  unfold cmd_ok, mz_zero, wires_ok, Model.wf. simpl. repeat split; try ring; auto.
Qed.
Lemma mz_dag_ok : cmd_ok K mz_dag.
Proof.
  unfold cmd_ok, mz_dag, wires_ok, Model.wf. simpl. repeat split; try ring; auto; try discriminate.
Qed.

(* MZgate(0, phi_ex) is skipped by Gate.apply although it is not the identity *)
Theorem mz_zero_refuted : p0z K (cg K mz_zero) = true /\ apply_sem K mz_zero <> doc_cmd K mz_zero.
Proof.
  split; [reflexivity|]. intro E.
  apply (f_equal (fun a => c0 K (r0 K (lin K a)))) in E. revert E. open_all. intro E.
  apply H10. rewrite E. ring.
Qed.

(* MZgate(phi_in, phi_ex).H is executed as MZgate(-phi_in, phi_ex), which is not the inverse *)
Theorem mz_dagger_refuted : apply_sem K mz_dag <> doc_cmd K mz_dag.
Proof.
  intro E.
  apply (f_equal (fun a => c1 K (r0 K (lin K a)))) in E. revert E. open_all. intro E.
  assert (E2 : rt * rt = - (rt * rt)).
  { match type of E with ?a = ?b => transitivity a; [ring | rewrite E; ring] end. }
  apply H10. rewrite <- Hrt. rewrite E2 at 1. ring.
Qed.

(* hence the Fock compiler's table (MZgate applied natively) does not run every program as documented *)
Theorem fock_table_refuted :
  exists seq out, Forall (cmd_ok K) seq /\ compile K 4 tb_fock seq = Ok K out
    /\ sem_seq K (map (apply_sem K) out) <> sem_seq K (map (doc_cmd K) seq).
Proof.
  exists [mz_dag], [mz_dag]. split; [constructor; [apply mz_dag_ok|constructor]|]. split; [reflexivity|].
  cbn [map]. rewrite !(sem_seq_one K Kring). apply mz_dagger_refuted.
Qed.

(* sMZgate: the closed form used as its documented transformation is the matrix M(sigma, delta) of
   decompositions.py for phi_in = sigma + delta, phi_ex = sigma - delta *)
Definition a_add (a b : ang K) : ang K := mkAng K (co K a * co K b - si K a * si K b) (si K a * co K b + co K a * si K b) false.
Definition a_sub (a b : ang K) : ang K := mkAng K (co K a * co K b + si K a * si K b) (si K a * co K b - co K a * si K b) false.
Theorem sMZ_is_M : forall sg dl : ang K,
  doc K (sMZgate K (a_add sg dl) (a_sub sg dl)) =
  a_lin K (m_uni K (co K sg * si K dl) (co K sg * co K dl) (co K sg * co K dl) (- (co K sg * si K dl))
                   (si K sg * si K dl) (si K sg * co K dl) (si K sg * co K dl) (- (si K sg * si K dl))).
Proof.
  intros [cs ss zs] [cd sd zd].
  lazy beta iota zeta delta [Model.doc a_add a_sub Model.co Model.si Model.az Model.hf Alg.a_lin Alg.m_uni].
  apply aff_eq; [|reflexivity].
  apply M4_eq; apply V4_eq;
    match goal with |- ?L = ?R => transitivity ((rt * rt + rt * rt) * R); [ring | rewrite Hrt; ring] end.
Qed.

(* the algebraic core of decompositions._absorb_zeta: a residual phase zeta sitting on both modes next to an
   sMZI is absorbed by shifting both internal phases (sigma += zeta), on either side *)
Theorem sMZ_common_phase : forall a b z : ang K,
  let both := acomp K (aswap K (doc K (Rgate K z))) (doc K (Rgate K z)) in
  doc K (sMZgate K (a_add a z) (a_add b z)) = acomp K both (doc K (sMZgate K a b))
  /\ doc K (sMZgate K (a_add a z) (a_add b z)) = acomp K (doc K (sMZgate K a b)) both.
Proof.
  intros [ca sa za] [cb sb zb] [cz sz zz]. 
  split;
  lazy beta iota zeta delta
    [Alg.acomp Alg.aswap Alg.mmul Alg.mid Alg.mvec Alg.vadd Alg.vrow Alg.dot Alg.col0 Alg.col1 Alg.col2 Alg.col3 Alg.v0 Alg.swapm
     Alg.one Alg.m_rot Alg.m_uni Alg.a_lin Alg.lin Alg.off Alg.r0 Alg.r1 Alg.r2 Alg.r3 Alg.c0 Alg.c1 Alg.c2 Alg.c3
     Model.doc a_add Model.hf Model.co Model.si Model.az];
  apply aff_eq; [apply M4_eq; apply V4_eq; ring | apply V4_eq; ring | apply M4_eq; apply V4_eq; ring | apply V4_eq; ring].
Qed.

End Refute.
