(* C02 — the model instantiated at binary64 (PrimFloat), for execution only.  No theorem imports
   this file. *)
From Coq Require Import List Bool Arith PrimFloat.
Import ListNotations.
From SFV Require Import C02.Alg C02.Model.

Definition F := float.

Section Inst.
(* sqrt(2 hbar), 1/sqrt(2 hbar), cos(pi/4) — as numpy computes them, handed in by the harness *)
Variables (v_s2h v_is2h v_rt : F).
Instance FO : Ops F := mkOps F 0%float 1%float add mul sub opp v_s2h v_is2h v_rt.

Definition fgate := gate F.
Definition fcmd := cmd F.

Definition flatV (v : V4 F) : list F := [c0 F v; c1 F v; c2 F v; c3 F v].
Definition flat (a : aff F) : list F :=
  flatV (r0 F (lin F a)) ++ flatV (r1 F (lin F a)) ++ flatV (r2 F (lin F a)) ++ flatV (r3 F (lin F a)) ++ flatV (off F a).

Definition kind_id (k : kind) : nat :=
  match k with
  | kD => 0 | kX => 1 | kZ => 2 | kS => 3 | kR => 4 | kP => 5 | kBS => 6 | kMZ => 7 | ksMZ => 8
  | kS2 => 9 | kCX => 10 | kCZ => 11 | kF => 12 | kO n => 100 + n
  end.

Definition fang (a : ang F) : list F := [co F a; si F a].
Definition fhyp (h : hyp F) : list F := [ch F h; sh F h].
(* values of the parameters in Python order (witness fields excluded) *)
Definition gparams (g : fgate) : list F :=
  match g with
  | Dgate _ r phi => rv F r :: fang phi
  | Xgate _ x => [rv F x] | Zgate _ p => [rv F p]
  | Sgate _ r phi => fhyp r ++ fang phi
  | Rgate _ th => fang th
  | Pgate _ s _ _ _ => [rv F s]
  | BSgate _ th ph => fang th ++ fang ph
  | MZgate _ i e => fang i ++ fang e
  | sMZgate _ i e => fang i ++ fang e
  | S2gate _ r phi => fhyp r ++ fang phi
  | CXgate _ s _ _ => [rv F s] | CZgate _ s _ _ => [rv F s]
  | Fouriergate _ => [] | Opaque _ _ => []
  end.
Definition cmd_sig (c : fcmd) : nat * list nat * bool * list F :=
  (kind_id (kind_of F (cg F c)), cw F c, cdag F c, gparams (cg F c)).

Definition res_sig (r : res F) : nat * list (nat * list nat * bool * list F) :=
  match r with
  | Ok _ l => (0, map cmd_sig l)
  | ErrCircuit _ => (1, []) | ErrNotImpl _ => (2, []) | ErrFuel _ => (3, [])
  end.
Definition opt_sig (o : option (list fcmd)) : nat * list (nat * list nat * bool * list F) :=
  match o with None => (1, []) | Some l => (0, map cmd_sig l) end.

Definition residuals (g : fgate) : list F := map (fun e => sub (fst e) (snd e)) (eqs F g).

Definition run_doc (c : fcmd) : list F := flat (doc_cmd F c).
Definition run_docs (l : list fcmd) : list F := flat (sem_seq F (map (doc_cmd F) l)).
Definition run_apply (l : list fcmd) : list F := flat (sem_seq F (map (apply_sem F) l)).

Definition in_list (l : list nat) (k : kind) := existsb (Nat.eqb (kind_id k)) l.
Definition mk_table (prims decs : list nat) : table := mkTable (in_list prims) (in_list decs).

End Inst.
