(* C02 — Gate.decompose (dagger), Gate.apply (first-parameter conventions) and Compiler.decompose. *)
From Coq Require Import List Bool Arith Ring Setoid Lia.
Import ListNotations.
From SFV Require Import C02.Alg C02.Model C02.Proofs C02.ProofsSeq C02.ProofsGate.

Section Drv.
Variable K : Type.
Context {Kops : Ops K}.
Hypothesis Kring : ring_theory (@k0 K Kops) (@k1 K Kops) (@kadd K Kops) (@kmul K Kops) (@ksub K Kops) (@kopp K Kops) eq.
Add Ring Kr4 : Kring.

Local Notation "0" := (@k0 K Kops).
Local Notation "1" := (@k1 K Kops).
Local Infix "+" := (@kadd K Kops).
Local Infix "*" := (@kmul K Kops).
Local Infix "-" := (@ksub K Kops).
Local Notation "- x" := (@kopp K Kops x).
Local Notation rt := (@rt K Kops).
Local Notation s2h := (@s2h K Kops).
Local Notation is2h := (@is2h K Kops).
Hypothesis Hrt : rt * rt + rt * rt = 1.
Hypothesis Hs2h : s2h * is2h = 1.

Local Notation aff := (aff K).
Local Notation acomp := (acomp K).
Local Notation aid := (aid K).
Local Notation ainv := (ainv K).
Local Notation sem_seq := (sem_seq K).
Local Notation doc := (doc K).
Local Notation doc_cmd := (doc_cmd K).
Local Notation decomp := (decomp K).
Local Notation wf := (wf K).
Local Notation symp := (symp K).
Local Notation gsymp := (gsymp K).
Local Notation place := (place K).
Local Notation cmd := (cmd K).
Local Notation gate := (gate K).

Ltac wf_red H :=
  lazy beta iota zeta delta [Model.wf Model.gaussian Model.eqs Model.all_eq Model.eq_ang Model.eq_hyp Model.eq_P Model.eq_CX
                             Model.zero_flag_ok Model.fl_ang Model.fl_hyp Model.fl_rp Model.hf app fst snd
                             Model.co Model.si Model.az Model.ch Model.sh Model.hz Model.rv Model.rz] in H.
Ltac wf_goal :=
  lazy beta iota zeta delta [Model.wf Model.gaussian Model.eqs Model.all_eq Model.eq_ang Model.eq_hyp Model.eq_P Model.eq_CX
                             Model.zero_flag_ok Model.fl_ang Model.fl_hyp Model.fl_rp Model.hf app fst snd Model.cg Model.C Model.CH
                             Model.bs_sym Model.bs_half Model.a_eighth Model.a_zero Model.a_quarter Model.a_mquarter
                             Model.a_minus_quarter Model.a_plus_quarter Model.hneg Model.aneg Model.rneg
                             Model.co Model.si Model.az Model.ch Model.sh Model.hz Model.rv Model.rz].

Ltac use_flag E :=
  match goal with
  | Z : ?b = true -> _ = _ |- _ => rewrite (Z E); ring
  | Z : ?b = true -> _ /\ _ |- _ => exact (Z E)
  | Z : ?b = true -> _ /\ _ |- _ => let A := fresh in let B := fresh in destruct (Z E) as [A B]; rewrite ?A, ?B; split; ring
  end.
Ltac flag_tac :=
  let E := fresh "E" in
  intro E; first [ discriminate E | split; reflexivity | use_flag E | idtac ].
Ltac kids := repeat first [apply Forall_cons | apply Forall_nil].
Ltac kid_solve := wf_goal; repeat match goal with |- _ /\ _ => split end; try exact I; try assumption; try ring; try exact Hrt; try flag_tac.

(* children of a well-formed gate are well-formed *)
Lemma decomp_wf : forall g l, wf g -> decomp g = Some l -> Forall (fun c => wf (cg K c)) l.
Proof.
  intros g l W H. destruct g; try discriminate H; injection H as <-.
  - (* X *) destruct x as [r z]. wf_red W. destruct W as (_ & _ & Z). kids; kid_solve.
  - (* Z *) destruct p as [r z]. wf_red W. destruct W as (_ & _ & Z). kids; kid_solve.
  - (* P *) destruct s as [r z], wr as [ch sh hz], wth as [ct st zt], wphi as [cp sp zp].
    wf_red W. destruct W as (_ & (A & B & C & _) & (_ & Z1 & Z2 & Z3)). kids; kid_solve.
  - (* MZ *) destruct pin as [ci si zi], pex as [ce se ze].
    wf_red W. destruct W as (_ & (A & B & _) & (Z1 & Z2)). kids; kid_solve.
  - (* sMZ *) destruct pin as [ci si zi], pex as [ce se ze].
    wf_red W. destruct W as (_ & (A & B & _) & (Z1 & Z2)). kids; kid_solve.
    all: match goal with |- ?G => idtac G end.
Abort.
End Drv.
