(* C02 — Gate.decompose (dagger), Gate.apply (first-parameter conventions) and Compiler.decompose. *)
From Coq Require Import List Bool Arith Ring Setoid Lia.
Import ListNotations.
From SFV Require Import C02.Alg C02.Model C02.Proofs C02.ProofsSeq C02.ProofsGate.

Section Drv.
Variable K : Type.
Context {Kops : Ops K}.
Hypothesis Kring : ring_theory (@k0 K Kops) (@k1 K Kops) (@kadd K Kops) (@kmul K Kops) (@ksub K Kops) (@kopp K Kops) eq.
Add Ring Kr4 : Kring.

Local Notation "0" := (@k0 K Kops).
Local Notation "1" := (@k1 K Kops).
Local Infix "+" := (@kadd K Kops).
Local Infix "*" := (@kmul K Kops).
Local Infix "-" := (@ksub K Kops).
Local Notation "- x" := (@kopp K Kops x).
Local Notation rt := (@rt K Kops).
Local Notation s2h := (@s2h K Kops).
Local Notation is2h := (@is2h K Kops).
Hypothesis Hrt : rt * rt + rt * rt = 1.
Hypothesis Hs2h : s2h * is2h = 1.

Local Notation aff := (aff K).
Local Notation acomp := (acomp K).
Local Notation aid := (aid K).
Local Notation ainv := (ainv K).
Local Notation sem_seq := (sem_seq K).
Local Notation doc := (doc K).
Local Notation doc_cmd := (doc_cmd K).
Local Notation decomp := (decomp K).
Local Notation wf := (wf K).
Local Notation symp := (symp K).
Local Notation gsymp := (gsymp K).
Local Notation place := (place K).
Local Notation cmd := (cmd K).
Local Notation gate := (gate K).

Ltac wf_red H :=
  lazy beta iota zeta delta [Model.wf Model.gaussian Model.eqs Model.all_eq Model.eq_ang Model.eq_hyp Model.eq_P Model.eq_CX
                             Model.zero_flag_ok Model.fl_ang Model.fl_hyp Model.fl_rp Model.hf app fst snd
                             Model.co Model.si Model.az Model.ch Model.sh Model.hz Model.rv Model.rz] in H.
Ltac wf_goal :=
  lazy beta iota zeta delta [Model.wf Model.gaussian Model.eqs Model.all_eq Model.eq_ang Model.eq_hyp Model.eq_P Model.eq_CX
                             Model.zero_flag_ok Model.fl_ang Model.fl_hyp Model.fl_rp Model.hf app fst snd Model.cg Model.C Model.CH
                             Model.bs_sym Model.bs_half Model.a_eighth Model.a_zero Model.a_quarter Model.a_mquarter
                             Model.a_minus_quarter Model.a_plus_quarter Model.hneg Model.aneg Model.rneg
                             Model.co Model.si Model.az Model.ch Model.sh Model.hz Model.rv Model.rz].

Ltac use_flag E :=
  match goal with
  | Z : ?b = true -> _ = _ |- _ => rewrite (Z E); ring
  | Z : ?b = true -> _ /\ _ |- _ => exact (Z E)
  | Z : ?b = true -> _ /\ _ |- _ => let A := fresh in let B := fresh in destruct (Z E) as [A B]; rewrite ?A, ?B; split; ring
  end.
Ltac flag_tac :=
  let E := fresh "E" in
  intro E; first [ discriminate E | split; reflexivity | use_flag E | idtac ].
Ltac kids := repeat first [apply Forall_cons | apply Forall_nil].
Ltac kid_solve := wf_goal; repeat match goal with |- _ /\ _ => split end; try exact I; try assumption; try ring; try exact Hrt; try flag_tac;
  try (match goal with H : _ = 1 |- _ = 1 => rewrite <- H; ring end).

(* children of a well-formed gate are well-formed *)
Lemma decomp_wf : forall g l, wf g -> decomp g = Some l -> Forall (fun c => wf (cg K c)) l.
Proof.
  intros g l W H. destruct g; try discriminate H; injection H as <-.
  - (* X *) destruct x as [r z]. wf_red W. destruct W as (_ & _ & Z). kids; kid_solve.
  - (* Z *) destruct p as [r z]. wf_red W. destruct W as (_ & _ & Z). kids; kid_solve.
  - (* P *) destruct s as [r z], wr as [ch sh hz], wth as [ct st zt], wphi as [cp sp zp].
    wf_red W. destruct W as (_ & (A & B & C & _) & (_ & Z1 & Z2 & Z3)). kids; kid_solve.
  - (* MZ *) destruct pin as [ci si zi], pex as [ce se ze].
    wf_red W. destruct W as (_ & (A & B & _) & (Z1 & Z2)). kids; kid_solve.
  - (* sMZ *) destruct pin as [ci si zi], pex as [ce se ze].
    wf_red W. destruct W as (_ & (A & B & _) & (Z1 & Z2)). kids; kid_solve.
  - (* S2 *) destruct r as [ch sh hz], phi as [c s z].
    wf_red W. destruct W as (_ & (A & B & _) & (Z1 & Z2)). kids; kid_solve.
  - (* CX *) destruct s as [r z], wr as [ch sh hz], wth as [c s_ zt].
    wf_red W. destruct W as (_ & (A & B & _) & (Z1 & Z2 & Z3)). kids; kid_solve.
  - (* CZ *) destruct s as [r z], wr as [ch sh hz], wth as [c s_ zt].
    wf_red W. destruct W as (_ & (A & B & E1 & E2 & E3 & _) & (Z1 & Z2 & Z3)). kids; kid_solve.
  - (* F *) kids; kid_solve.
Qed.

Lemma gsymp_prim_children : forall l, Forall (fun c => wf (cg K c)) l ->
  Forall (fun c => match kind_of K (cg K c) with kD | kS | kR | kBS | kCX => True | _ => False end) l ->
  Forall (fun c => gsymp (cg K c)) l.
Proof.
  induction 1 as [|c l W Wl IH]; intro P; [constructor|].
  inversion P as [|? ? Pc Pl]; subst. constructor; [|apply IH; exact Pl].
  destruct c as [g ws d]. simpl in *. destruct g; try contradiction.
  - apply gsymp_D; assumption.
  - apply gsymp_S; assumption.
  - apply gsymp_R; assumption.
  - apply gsymp_BS; assumption.
  - apply gsymp_CX; assumption.
Qed.

Theorem gsymp_all : forall g, wf g -> gsymp g.
Proof.
  intros g W.
  assert (viadec : forall l, decomp g = Some l ->
            Forall (fun c => match kind_of K (cg K c) with kD | kS | kR | kBS | kCX => True | _ => False end) l -> gsymp g).
  { intros l H P. unfold ProofsSeq.gsymp. rewrite <- (decomp_sound K Kring Hrt Hs2h g l W H).
    apply symp_sem_seq; [exact Kring|]. rewrite Forall_map.
    eapply Forall_impl; [|apply (gsymp_prim_children l (decomp_wf g l W H) P)].
    intros c Hc. apply doc_cmd_symp; assumption. }
  destruct g.
  - apply gsymp_D; assumption.
  - apply gsymp_X; assumption.
  - apply gsymp_Z; assumption.
  - apply gsymp_S; assumption.
  - apply gsymp_R; assumption.
  - apply gsymp_P; assumption.
  - apply gsymp_BS; assumption.
  - eapply viadec; [reflexivity|]. repeat constructor.
  - eapply viadec; [reflexivity|]. repeat constructor.
  - apply gsymp_S2; assumption.
  - apply gsymp_CX; assumption.
  - apply gsymp_CZ; assumption.
  - apply gsymp_F; assumption.
  - destruct W as (Gs & _). contradiction.
Qed.

(* ---- Gate.decompose: reverse the sequence and flip every flag ---- *)
Theorem decompose_local_sound : forall g dag l, wf g -> decompose_local K g dag = Some l ->
  sem_seq (map doc_cmd l) = if dag then ainv (doc g) else doc g.
Proof.
  intros g dag l W H. unfold decompose_local in H.
  destruct (decomp g) as [seq|] eqn:D; [|discriminate]. injection H as <-.
  pose proof (decomp_sound K Kring Hrt Hs2h g seq W D) as S.
  destruct dag; [|exact S].
  rewrite (sem_seq_dagger K Kring), S; [reflexivity|].
  eapply Forall_impl; [|apply (decomp_wf g seq W D)]. intros c Hc. apply gsymp_all; exact Hc.
Qed.

(* ---- wires ---- *)
Definition ws_ok (ws : list nat) : Prop := ws = [O] \/ ws = [S O] \/ ws = [O; S O] \/ ws = [S O; O].
Definition child_w (n : nat) (w : list nat) : Prop := w = [O] \/ (n = 2 /\ (w = [S O] \/ w = [O; S O])).

Lemma wires_ok_ws : forall c : cmd, wires_ok K c -> ws_ok (cw K c).
Proof.
  intros [g ws d]. unfold wires_ok, ws_ok. simpl.
  destruct ws as [|a [|b [|x ws]]]; try contradiction.
  - intros [->| ->]; auto.
  - intros [[-> ->]|[-> ->]]; auto.
Qed.
Lemma ws_ok_wires : forall g ws d, ws_ok ws -> wires_ok K (mkCmd K g ws d).
Proof. intros g ws d [->|[->|[->| ->]]]; unfold wires_ok; simpl; auto. Qed.

Lemma decomp_wires : forall g l, decomp g = Some l ->
  Forall (fun c => child_w (arity K g) (cw K c) /\ length (cw K c) = arity K (cg K c)) l.
Proof.
  intros g l H. destruct g; try discriminate H; injection H as <-; kids;
    (split; [unfold child_w; simpl; auto | reflexivity]).
Qed.

Lemma place_sub : forall ws w (X : aff), ws_ok ws -> child_w (length ws) w ->
  place (sub_wires ws w) X = place ws (place w X).
Proof.
  intros ws w X [->|[->|[->| ->]]] [->|[E [->| ->]]]; simpl in *; try discriminate E; try reflexivity;
    symmetry; apply (aswap_aswap K Kring).
Qed.
Lemma sub_ok : forall ws w, ws_ok ws -> child_w (length ws) w -> ws_ok (sub_wires ws w).
Proof.
  intros ws w [->|[->|[->| ->]]] [->|[E [->| ->]]]; simpl in *; try discriminate E; unfold ws_ok; auto.
Qed.

Lemma doc_cmd_rewire : forall ws (c : cmd), ws_ok ws -> child_w (length ws) (cw K c) ->
  doc_cmd (rewire K ws c) = place ws (doc_cmd c).
Proof.
  intros ws [g w d] Hws Hc. unfold Model.doc_cmd, Model.rewire. simpl in *. apply place_sub; assumption.
Qed.

Lemma flip_fields : forall c : cmd, cg K (flip K c) = cg K c /\ cw K (flip K c) = cw K c.
Proof. intros [g w d]; split; reflexivity. Qed.

Lemma decompose_local_kids : forall g dag l, wf g -> decompose_local K g dag = Some l ->
  Forall (fun c => wf (cg K c) /\ child_w (arity K g) (cw K c) /\ length (cw K c) = arity K (cg K c)) l.
Proof.
  intros g dag l W H. unfold decompose_local in H.
  destruct (decomp g) as [seq|] eqn:D; [|discriminate]. injection H as <-.
  assert (B : Forall (fun c => wf (cg K c) /\ child_w (arity K g) (cw K c) /\ length (cw K c) = arity K (cg K c)) seq).
  { pose proof (decomp_wf g seq W D) as A. pose proof (decomp_wires g seq D) as B.
    rewrite Forall_forall in *. intros c Hc. destruct (B c Hc). auto. }
  destruct dag; [|exact B].
  apply Forall_rev. rewrite Forall_map. eapply Forall_impl; [|exact B].
  intros c Hc. destruct (flip_fields c) as [-> ->]. exact Hc.
Qed.

Theorem decompose_cmd_sound : forall (c : cmd) l, cmd_ok K c -> decompose_cmd K c = Some l ->
  sem_seq (map doc_cmd l) = doc_cmd c /\ Forall (cmd_ok K) l.
Proof.
  intros [g ws d] l (W & Wo & Len) H. pose proof (wires_ok_ws _ Wo) as Hws. clear Wo.
  unfold decompose_cmd in H. simpl in *.
  destruct (decompose_local K g d) as [seq|] eqn:D; [|discriminate]. injection H as <-.
  pose proof (decompose_local_kids g d seq W D) as Kd. rewrite <- Len in Kd.
  split.
  - rewrite map_map.
    rewrite (map_ext_in _ (fun c => place ws (doc_cmd c))).
    + rewrite <- (map_map doc_cmd (place ws)), (sem_seq_place K Kring).
      rewrite (decompose_local_sound g d seq W D). unfold Model.doc_cmd. simpl. reflexivity.
    + intros c Hc. rewrite Forall_forall in Kd. destruct (Kd c Hc) as (_ & Cw & _).
      apply doc_cmd_rewire; assumption.
  - rewrite Forall_map. eapply Forall_impl; [|exact Kd].
    intros [g' w' d'] (W' & Cw & L'). simpl in *.
    refine (conj W' (conj (ws_ok_wires g' _ d' (sub_ok _ _ Hws Cw)) _)).
    simpl. unfold sub_wires. rewrite map_length. exact L'.
Qed.

(* ---- Compiler.decompose ---- *)
Lemma res_app_ok : forall a b out, res_app K a b = Ok K out ->
  exists x y, a = Ok K x /\ b = Ok K y /\ out = x ++ y.
Proof.
  intros [x| | |] [y| | |] out H; simpl in H; try discriminate H. injection H as <-. eauto.
Qed.

Theorem compile_sound : forall fuel tb seq out, Forall (cmd_ok K) seq -> compile K fuel tb seq = Ok K out ->
  sem_seq (map doc_cmd out) = sem_seq (map doc_cmd seq)
  /\ Forall (cmd_ok K) out
  /\ Forall (fun c => t_dec tb (kind_of K (cg K c)) = false /\ t_prim tb (kind_of K (cg K c)) = true) out.
Proof.
  induction fuel as [|f IH]; intros tb seq out Hs H; [discriminate H|].
  revert out H. induction Hs as [|c seq Hc Hseq IHs]; intros out H.
  - simpl in H. injection H as <-. simpl. repeat split; constructor.
  - simpl in H. apply res_app_ok in H. destruct H as (x & y & Hx & Hy & ->).
    destruct (IHs y Hy) as (Sy & Oy & Py).
    assert (Hd : sem_seq (map doc_cmd x) = doc_cmd c /\ Forall (cmd_ok K) x
                 /\ Forall (fun c => t_dec tb (kind_of K (cg K c)) = false /\ t_prim tb (kind_of K (cg K c)) = true) x).
    { destruct (t_dec tb (kind_of K (cg K c))) eqn:Td.
      - destruct (decompose_cmd K c) as [sub|] eqn:Dc; [|discriminate Hx].
        destruct (decompose_cmd_sound c sub Hc Dc) as (Ss & Os).
        destruct (IH tb sub x Os Hx) as (Sx & Ox & Px). rewrite Sx, Ss. auto.
      - destruct (t_prim tb (kind_of K (cg K c))) eqn:Tp; [|discriminate Hx].
        injection Hx as <-. simpl. rewrite (sem_seq_one K Kring). repeat split; constructor; auto. }
    destruct Hd as (Sx & Ox & Px).
    rewrite !map_app. cbn [map]. rewrite (sem_seq_app K Kring), (sem_seq_cons K Kring), Sx, Sy.
    repeat split; try (apply Forall_app; split; assumption). 
Qed.

(* ---- Gate.apply: the first-parameter conventions ---- *)
Ltac open_all :=
  lazy beta iota zeta delta
    [Alg.acomp Alg.aid Alg.ainv Alg.aswap Alg.mmul Alg.sinv Alg.mid Alg.mvec Alg.vadd Alg.vopp Alg.mtr
     Alg.vrow Alg.dot Alg.col0 Alg.col1 Alg.col2 Alg.col3 Alg.v0 Alg.omega Alg.momega Alg.swapm
     Alg.one Alg.m_rot Alg.m_sq Alg.m_shear Alg.m_bs Alg.m_s2 Alg.m_cx Alg.m_cz Alg.m_uni Alg.a_lin Alg.a_disp
     Alg.lin Alg.off Alg.r0 Alg.r1 Alg.r2 Alg.r3 Alg.c0 Alg.c1 Alg.c2 Alg.c3
     Model.doc Model.neg_p0 Model.p0z Model.hf Model.hneg Model.aneg Model.rneg
     Model.a_zero Model.a_quarter
     Model.co Model.si Model.az Model.ch Model.sh Model.hz Model.rv Model.rz].
Ltac split_eq := repeat first [apply aff_eq | apply M4_eq | apply V4_eq].

Lemma neg_is_inverse : forall g, conv_prim (kind_of K g) = true -> doc (neg_p0 K g) = ainv (doc g).
Proof.
  intros g H. destruct g; try discriminate H.
  - destruct r, phi. open_all. split_eq; ring.
  - destruct r, phi. open_all. split_eq; ring.
  - destruct th. open_all. split_eq; ring.
  - destruct th, ph. open_all. split_eq; ring.
  - destruct r, phi. open_all. split_eq; ring.
Qed.
Lemma zero_is_identity : forall g, wf g -> conv_prim (kind_of K g) = true -> p0z K g = true -> doc g = aid.
Proof.
  intros g W H Z. destruct g; try discriminate H.
  - destruct r as [r z], phi as [c s zp]. wf_red W. destruct W as (_ & _ & (F & _)). simpl in Z.
    rewrite (F Z). open_all. split_eq; ring.
  - destruct r as [ch sh z], phi as [c s zp]. wf_red W. destruct W as (_ & _ & (F & _)). simpl in Z.
    destruct (F Z) as [-> ->]. open_all. split_eq; ring.
  - destruct th as [c s z]. wf_red W. destruct W as (_ & _ & F). simpl in Z.
    destruct (F Z) as [-> ->]. open_all. split_eq; ring.
  - destruct th as [c s z], ph as [cp sp zp]. wf_red W. destruct W as (_ & _ & (F & _)). simpl in Z.
    destruct (F Z) as [-> ->]. open_all. split_eq; ring.
  - destruct r as [ch sh z], phi as [c s zp]. wf_red W. destruct W as (_ & _ & (F & _)). simpl in Z.
    destruct (F Z) as [-> ->]. open_all. split_eq; ring.
Qed.

Theorem apply_conv : forall c : cmd, wf (cg K c) -> conv_prim (kind_of K (cg K c)) = true ->
  apply_sem K c = doc_cmd c.
Proof.
  intros [g ws d] W H. unfold Model.apply_sem, Model.doc_cmd. simpl in *.
  destruct (p0z K g) eqn:Z.
  - rewrite (zero_is_identity g W H Z). destruct d; rewrite ?(ainv_id K Kring), (place_id K Kring); reflexivity.
  - destruct d; [rewrite (neg_is_inverse g H)|]; reflexivity.
Qed.

(* a compiler whose applied primitives all obey the conventions runs every program as documented *)
Theorem compile_apply_sound : forall fuel tb seq out,
  (forall k, t_dec tb k = false -> t_prim tb k = true -> (forall n, k <> kO n) -> conv_prim k = true) ->
  Forall (cmd_ok K) seq -> compile K fuel tb seq = Ok K out ->
  sem_seq (map (apply_sem K) out) = sem_seq (map doc_cmd seq).
Proof.
  intros fuel tb seq out T Hs H.
  destruct (compile_sound fuel tb seq out Hs H) as (S & O & P).
  rewrite <- S. f_equal. apply map_ext_in. intros c Hc.
  rewrite Forall_forall in O, P. destruct (O c Hc) as (W & _). destruct (P c Hc) as (Pd & Pp).
  apply apply_conv; [exact W|]. apply T; try assumption.
  intros n E. destruct W as (G & _). destruct (cg K c); try discriminate E. exact G.
Qed.

Lemma tb_gaussian_conv : forall k, t_dec tb_gaussian k = false -> t_prim tb_gaussian k = true ->
  (forall n, k <> kO n) -> conv_prim k = true.
Proof. intros k; destruct k; simpl; intros; try discriminate; reflexivity. Qed.
Lemma tb_bosonic_conv : forall k, t_dec tb_bosonic k = false -> t_prim tb_bosonic k = true ->
  (forall n, k <> kO n) -> conv_prim k = true.
Proof. intros k; destruct k; simpl; intros; try discriminate; reflexivity. Qed.

(* ---- fuel: the decomposition table has depth 3 (CZ -> CX -> S/BS) ---- *)
Definition depth (g : gate) : nat :=
  match g with
  | CZgate _ _ _ _ => 3
  | Xgate _ _ | Zgate _ _ | Pgate _ _ _ _ _ | MZgate _ _ _ | sMZgate _ _ _ | S2gate _ _ _ | CXgate _ _ _ _ | Fouriergate _ => 2
  | _ => 1
  end.
Lemma decomp_depth : forall g l, decomp g = Some l -> Forall (fun c => depth (cg K c) < depth g) l.
Proof.
  intros g l H. destruct g; try discriminate H; injection H as <-; kids; simpl; lia.
Qed.
Lemma decompose_cmd_depth : forall (c : cmd) sub, decompose_cmd K c = Some sub ->
  Forall (fun x => depth (cg K x) < depth (cg K c)) sub.
Proof.
  intros [g ws d] sub H. unfold decompose_cmd, decompose_local in H. simpl in *.
  destruct (decomp g) as [seq|] eqn:D; [|discriminate]. injection H as <-.
  pose proof (decomp_depth g seq D) as A.
  rewrite Forall_map.
  assert (B : Forall (fun x => depth (cg K x) < depth g) (if d then rev (map (flip K) seq) else seq)).
  { destruct d; [|exact A]. apply Forall_rev. rewrite Forall_map. eapply Forall_impl; [|exact A].
    intros x Hx. destruct (flip_fields x) as [-> _]. exact Hx. }
  eapply Forall_impl; [|exact B]. intros [g' w' d'] Hx. exact Hx.
Qed.
Lemma depth_pos : forall g, 1 <= depth g.
Proof. destruct g; simpl; lia. Qed.
Lemma depth_le3 : forall g, depth g <= 3.
Proof. destruct g; simpl; lia. Qed.

Lemma compile_fuel : forall fuel tb seq, Forall (fun c => depth (cg K c) <= fuel) seq ->
  compile K (S fuel) tb seq <> ErrFuel K.
Proof.
  induction fuel as [|f IH]; intros tb seq Hs.
  - destruct seq as [|c seq]; [simpl; discriminate|].
    inversion Hs as [|? ? Hc _]; subst. pose proof (depth_pos (cg K c)). lia.
  - induction Hs as [|c seq Hc Hseq IHs]; [simpl; discriminate|].
    change (compile K (S (S f)) tb (c :: seq)) with
      (res_app K (if t_dec tb (kind_of K (cg K c)) then
                    match decompose_cmd K c with None => ErrNotImpl K | Some sub => compile K (S f) tb sub end
                  else if t_prim tb (kind_of K (cg K c)) then Ok K [c] else ErrCircuit K)
                 (compile K (S (S f)) tb seq)).
    assert (Hh : (if t_dec tb (kind_of K (cg K c)) then
                    match decompose_cmd K c with None => ErrNotImpl K | Some sub => compile K (S f) tb sub end
                  else if t_prim tb (kind_of K (cg K c)) then Ok K [c] else ErrCircuit K) <> ErrFuel K).
    { destruct (t_dec tb (kind_of K (cg K c))).
      - destruct (decompose_cmd K c) as [sub|] eqn:Dc; [|discriminate].
        apply IH. eapply Forall_impl; [|apply (decompose_cmd_depth c sub Dc)]. intros x Hx. simpl in Hx. lia.
      - destruct (t_prim tb (kind_of K (cg K c))); discriminate. }
    destruct (if t_dec tb (kind_of K (cg K c)) then _ else _) as [x| | |]; try (exfalso; apply Hh; reflexivity);
    destruct (compile K (S (S f)) tb seq) as [y| | |]; try (exfalso; apply IHs; reflexivity); simpl; discriminate.
Qed.
Theorem compile_terminates : forall tb seq, compile K 4 tb seq <> ErrFuel K.
Proof.
  intros. apply compile_fuel. rewrite Forall_forall. intros c _. apply depth_le3.
Qed.

End Drv.
