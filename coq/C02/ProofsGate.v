(* C02 — per-gate theorems: every _decompose implements the documented transformation, every
   documented transformation is symplectic, the primitives obey the first-parameter conventions
   that Gate.apply relies on — and MZgate does not. *)
From Coq Require Import List Bool Arith Ring Setoid.
Import ListNotations.
From SFV Require Import C02.Alg C02.Model C02.Proofs C02.ProofsSeq.

Section Gate.
Variable K : Type.
Context {Kops : Ops K}.
Hypothesis Kring : ring_theory (@k0 K Kops) (@k1 K Kops) (@kadd K Kops) (@kmul K Kops) (@ksub K Kops) (@kopp K Kops) eq.
Add Ring Kr3 : Kring.

Local Notation "0" := (@k0 K Kops).
Local Notation "1" := (@k1 K Kops).
Local Infix "+" := (@kadd K Kops).
Local Infix "*" := (@kmul K Kops).
Local Infix "-" := (@ksub K Kops).
Local Notation "- x" := (@kopp K Kops x).
Local Notation rt := (@rt K Kops).
Local Notation s2h := (@s2h K Kops).
Local Notation is2h := (@is2h K Kops).

(* 2 cos^2(pi/4) = 1 ;  sqrt(2 hbar) * (1/sqrt(2 hbar)) = 1 *)
Hypothesis Hrt : rt * rt + rt * rt = 1.
Hypothesis Hs2h : s2h * is2h = 1.

Local Notation aff := (aff K).
Local Notation acomp := (acomp K).
Local Notation aid := (aid K).
Local Notation ainv := (ainv K).
Local Notation sem_seq := (sem_seq K).
Local Notation doc := (doc K).
Local Notation doc_cmd := (doc_cmd K).
Local Notation decomp := (decomp K).
Local Notation wf := (wf K).
Local Notation symp := (symp K).
Local Notation gsymp := (gsymp K).

Ltac open_all :=
  lazy beta iota zeta delta
    [Alg.acomp Alg.aid Alg.ainv Alg.aswap Alg.mmul Alg.sinv Alg.mid Alg.mvec Alg.vadd Alg.vopp Alg.mtr
     Alg.vrow Alg.dot Alg.col0 Alg.col1 Alg.col2 Alg.col3 Alg.v0 Alg.omega Alg.momega Alg.swapm
     Alg.one Alg.m_rot Alg.m_sq Alg.m_shear Alg.m_bs Alg.m_s2 Alg.m_cx Alg.m_cz Alg.m_uni Alg.a_lin Alg.a_disp
     Alg.lin Alg.off Alg.r0 Alg.r1 Alg.r2 Alg.r3 Alg.c0 Alg.c1 Alg.c2 Alg.c3 Alg.symplectic
     Model.sem_seq Model.doc_cmd Model.place Model.doc Model.apply_sem Model.neg_p0 Model.p0z
     Model.C Model.CH Model.w0 Model.w1 Model.w01
     Model.bs_sym Model.bs_half Model.a_eighth Model.a_zero Model.a_quarter Model.a_mquarter
     Model.a_minus_quarter Model.a_plus_quarter Model.hf Model.hneg Model.aneg Model.rneg
     Model.cg Model.cw Model.cdag Model.co Model.si Model.az Model.ch Model.sh Model.hz Model.rv Model.rz
     ProofsSeq.symp ProofsSeq.gsymp fold_left map].
Ltac split_eq := repeat first [apply aff_eq | apply M4_eq | apply V4_eq].

Lemma circ_mon : forall a b : K, a * a + b * b = 1 -> a * a = 1 - b * b.
Proof. intros a b H. rewrite <- H. ring. Qed.
Lemma hyp_mon : forall a b : K, a * a - b * b = 1 -> a * a = 1 + b * b.
Proof. intros a b H. rewrite <- H. ring. Qed.

Ltac wf_red H :=
  lazy beta iota zeta delta [Model.wf Model.gaussian Model.eqs Model.all_eq Model.eq_ang Model.eq_hyp Model.eq_P Model.eq_CX
                             Model.zero_flag_ok Model.hf app fst snd
                             Model.co Model.si Model.az Model.ch Model.sh Model.hz Model.rv Model.rz] in H.

(* --- every documented transformation is symplectic --- *)
Lemma gsymp_D : forall r phi, gsymp (Dgate K r phi).
Proof. intros [r rz] [c s z]. open_all. split; split_eq; ring. Qed.
Lemma gsymp_X : forall x, gsymp (Xgate K x).
Proof. intros [r rz]. open_all. split; split_eq; ring. Qed.
Lemma gsymp_Z : forall x, gsymp (Zgate K x).
Proof. intros [r rz]. open_all. split; split_eq; ring. Qed.
Lemma gsymp_S : forall r phi, wf (Sgate K r phi) -> gsymp (Sgate K r phi).
Proof.
  intros [ch sh hz] [c s z] H. wf_red H. destruct H as (_ & (A & B & _) & _).
  apply hyp_mon in A; apply circ_mon in B. open_all; split; split_eq; ring [A B].
Qed.
Lemma gsymp_R : forall th, wf (Rgate K th) -> gsymp (Rgate K th).
Proof.
  intros [c s z] H. wf_red H. destruct H as (_ & (B & _) & _).
  apply circ_mon in B. open_all; split; split_eq; ring [B].
Qed.
Lemma gsymp_P : forall s wr wth wphi, gsymp (Pgate K s wr wth wphi).
Proof. intros [r rz] ? ? ?. open_all. split; split_eq; ring. Qed.
Lemma gsymp_BS : forall th ph, wf (BSgate K th ph) -> gsymp (BSgate K th ph).
Proof.
  intros [ct st zt] [cp sp zp] H. wf_red H. destruct H as (_ & (A & B & _) & _).
  apply circ_mon in A; apply circ_mon in B. open_all; split; split_eq; ring [A B].
Qed.
Lemma gsymp_S2 : forall r phi, wf (S2gate K r phi) -> gsymp (S2gate K r phi).
Proof.
  intros [ch sh hz] [c s z] H. wf_red H. destruct H as (_ & (A & B & _) & _).
  apply hyp_mon in A; apply circ_mon in B. open_all; split; split_eq; ring [A B].
Qed.
Lemma gsymp_CX : forall s wr wth, gsymp (CXgate K s wr wth).
Proof. intros [r rz] ? ?. open_all. split; split_eq; ring. Qed.
Lemma gsymp_CZ : forall s wr wth, gsymp (CZgate K s wr wth).
Proof. intros [r rz] ? ?. open_all. split; split_eq; ring. Qed.
Lemma gsymp_F : gsymp (Fouriergate K).
Proof. open_all. split; split_eq; ring. Qed.

(* --- each _decompose implements the documented transformation --- *)
Lemma dec_X : forall x l, decomp (Xgate K x) = Some l -> sem_seq (map doc_cmd l) = doc (Xgate K x).
Proof.
  intros [r rz] l H. injection H as <-. open_all. split_eq; try ring.
  transitivity (r * (s2h * is2h)); [ring | rewrite Hs2h; ring].
Qed.
Lemma dec_Z : forall x l, decomp (Zgate K x) = Some l -> sem_seq (map doc_cmd l) = doc (Zgate K x).
Proof.
  intros [r rz] l H. injection H as <-. open_all. split_eq; try ring.
  transitivity (r * (s2h * is2h)); [ring | rewrite Hs2h; ring].
Qed.
Lemma dec_F : forall l, decomp (Fouriergate K) = Some l -> sem_seq (map doc_cmd l) = doc (Fouriergate K).
Proof. intros l H. injection H as <-. open_all. split_eq; ring. Qed.

Lemma dec_MZ : forall i e l, wf (MZgate K i e) -> decomp (MZgate K i e) = Some l ->
  sem_seq (map doc_cmd l) = doc (MZgate K i e).
Proof.
  intros [ci si zi] [ce se ze] l W H. injection H as <-. open_all. split_eq; ring.
Qed.
Lemma dec_sMZ : forall i e l, wf (sMZgate K i e) -> decomp (sMZgate K i e) = Some l ->
  sem_seq (map doc_cmd l) = doc (sMZgate K i e).
Proof.
  intros [ci si zi] [ce se ze] l W H. injection H as <-. open_all. split_eq; ring.
Qed.
End Gate.
