(* C02 — per-gate theorems: every _decompose implements the documented transformation, every
   documented transformation is symplectic, the primitives obey the first-parameter conventions
   that Gate.apply relies on — and MZgate does not. *)
From Coq Require Import List Bool Arith Ring Setoid.
Import ListNotations.
From SFV Require Import C02.Alg C02.Model C02.Proofs C02.ProofsSeq.

Section Gate.
Variable K : Type.
Context {Kops : Ops K}.
Hypothesis Kring : ring_theory (@k0 K Kops) (@k1 K Kops) (@kadd K Kops) (@kmul K Kops) (@ksub K Kops) (@kopp K Kops) eq.
Add Ring Kr3 : Kring.

Local Notation "0" := (@k0 K Kops).
Local Notation "1" := (@k1 K Kops).
Local Infix "+" := (@kadd K Kops).
Local Infix "*" := (@kmul K Kops).
Local Infix "-" := (@ksub K Kops).
Local Notation "- x" := (@kopp K Kops x).
Local Notation rt := (@rt K Kops).
Local Notation s2h := (@s2h K Kops).
Local Notation is2h := (@is2h K Kops).

(* 2 cos^2(pi/4) = 1 ;  sqrt(2 hbar) * (1/sqrt(2 hbar)) = 1 *)
Hypothesis Hrt : rt * rt + rt * rt = 1.
Hypothesis Hs2h : s2h * is2h = 1.

Local Notation aff := (aff K).
Local Notation acomp := (acomp K).
Local Notation aid := (aid K).
Local Notation ainv := (ainv K).
Local Notation sem_seq := (sem_seq K).
Local Notation doc := (doc K).
Local Notation doc_cmd := (doc_cmd K).
Local Notation decomp := (decomp K).
Local Notation wf := (wf K).
Local Notation symp := (symp K).
Local Notation gsymp := (gsymp K).

Ltac open_all :=
  lazy beta iota zeta delta
    [Alg.acomp Alg.aid Alg.ainv Alg.aswap Alg.mmul Alg.sinv Alg.mid Alg.mvec Alg.vadd Alg.vopp Alg.mtr
     Alg.vrow Alg.dot Alg.col0 Alg.col1 Alg.col2 Alg.col3 Alg.v0 Alg.omega Alg.momega Alg.swapm
     Alg.one Alg.m_rot Alg.m_sq Alg.m_shear Alg.m_bs Alg.m_s2 Alg.m_cx Alg.m_cz Alg.m_uni Alg.a_lin Alg.a_disp
     Alg.lin Alg.off Alg.r0 Alg.r1 Alg.r2 Alg.r3 Alg.c0 Alg.c1 Alg.c2 Alg.c3 Alg.symplectic
     Model.sem_seq Model.doc_cmd Model.place Model.doc Model.apply_sem Model.neg_p0 Model.p0z
     Model.C Model.CH Model.w0 Model.w1 Model.w01
     Model.bs_sym Model.bs_half Model.a_eighth Model.a_zero Model.a_quarter Model.a_mquarter
     Model.a_minus_quarter Model.a_plus_quarter Model.hf Model.hneg Model.aneg Model.rneg
     Model.cg Model.cw Model.cdag Model.co Model.si Model.az Model.ch Model.sh Model.hz Model.rv Model.rz
     ProofsSeq.symp ProofsSeq.gsymp fold_left map].
Ltac split_eq := repeat first [apply aff_eq | apply M4_eq | apply V4_eq].

Lemma circ_mon : forall a b : K, a * a + b * b = 1 -> a * a = 1 - b * b.
Proof. intros a b H. rewrite <- H. ring. Qed.
Lemma hyp_mon : forall a b : K, a * a - b * b = 1 -> a * a = 1 + b * b.
Proof. intros a b H. rewrite <- H. ring. Qed.

Ltac wf_red H :=
  lazy beta iota zeta delta [Model.wf Model.gaussian Model.eqs Model.all_eq Model.eq_ang Model.eq_hyp Model.eq_P Model.eq_CX
                             Model.zero_flag_ok Model.fl_ang Model.fl_hyp Model.fl_rp Model.hf app fst snd
                             Model.co Model.si Model.az Model.ch Model.sh Model.hz Model.rv Model.rz] in H.

(* --- every documented transformation is symplectic --- *)
Lemma gsymp_D : forall r phi, gsymp (Dgate K r phi).
Proof. intros [r rz] [c s z]. open_all. split; split_eq; ring. Qed.
Lemma gsymp_X : forall x, gsymp (Xgate K x).
Proof. intros [r rz]. open_all. split; split_eq; ring. Qed.
Lemma gsymp_Z : forall x, gsymp (Zgate K x).
Proof. intros [r rz]. open_all. split; split_eq; ring. Qed.
Lemma gsymp_S : forall r phi, wf (Sgate K r phi) -> gsymp (Sgate K r phi).
Proof.
  intros [ch sh hz] [c s z] H. wf_red H. destruct H as (_ & (A & B & _) & _).
  apply hyp_mon in A; apply circ_mon in B. open_all; split; split_eq; ring [A B].
Qed.
Lemma gsymp_R : forall th, wf (Rgate K th) -> gsymp (Rgate K th).
Proof.
  intros [c s z] H. wf_red H. destruct H as (_ & (B & _) & _).
  apply circ_mon in B. open_all; split; split_eq; ring [B].
Qed.
Lemma gsymp_P : forall s wr wth wphi, gsymp (Pgate K s wr wth wphi).
Proof. intros [r rz] ? ? ?. open_all. split; split_eq; ring. Qed.
Lemma gsymp_BS : forall th ph, wf (BSgate K th ph) -> gsymp (BSgate K th ph).
Proof.
  intros [ct st zt] [cp sp zp] H. wf_red H. destruct H as (_ & (A & B & _) & _).
  apply circ_mon in A; apply circ_mon in B. open_all; split; split_eq; ring [A B].
Qed.
Lemma gsymp_S2 : forall r phi, wf (S2gate K r phi) -> gsymp (S2gate K r phi).
Proof.
  intros [ch sh hz] [c s z] H. wf_red H. destruct H as (_ & (A & B & _) & _).
  apply hyp_mon in A; apply circ_mon in B. open_all; split; split_eq; ring [A B].
Qed.
Lemma gsymp_CX : forall s wr wth, gsymp (CXgate K s wr wth).
Proof. intros [r rz] ? ?. open_all. split; split_eq; ring. Qed.
Lemma gsymp_CZ : forall s wr wth, gsymp (CZgate K s wr wth).
Proof. intros [r rz] ? ?. open_all. split; split_eq; ring. Qed.
Lemma gsymp_F : gsymp (Fouriergate K).
Proof. open_all. split; split_eq; ring. Qed.

(* --- each _decompose implements the documented transformation --- *)
Lemma dec_X : forall x l, decomp (Xgate K x) = Some l -> sem_seq (map doc_cmd l) = doc (Xgate K x).
Proof.
  intros [r rz] l H. injection H as <-. open_all. split_eq; try ring.
  transitivity (r * (s2h * is2h)); [ring | rewrite Hs2h; ring].
Qed.
Lemma dec_Z : forall x l, decomp (Zgate K x) = Some l -> sem_seq (map doc_cmd l) = doc (Zgate K x).
Proof.
  intros [r rz] l H. injection H as <-. open_all. split_eq; try ring.
  transitivity (r * (s2h * is2h)); [ring | rewrite Hs2h; ring].
Qed.
Lemma dec_F : forall l, decomp (Fouriergate K) = Some l -> sem_seq (map doc_cmd l) = doc (Fouriergate K).
Proof. intros l H. injection H as <-. open_all. split_eq; ring. Qed.

Lemma dec_MZ : forall i e l, wf (MZgate K i e) -> decomp (MZgate K i e) = Some l ->
  sem_seq (map doc_cmd l) = doc (MZgate K i e).
Proof.
  intros [ci si zi] [ce se ze] l W H. injection H as <-. open_all. split_eq; ring.
Qed.
Lemma dec_sMZ : forall i e l, wf (sMZgate K i e) -> decomp (sMZgate K i e) = Some l ->
  sem_seq (map doc_cmd l) = doc (sMZgate K i e).
Proof.
  intros [ci si zi] [ce se ze] l W H. injection H as <-. open_all. split_eq; ring.
Qed.

Lemma dec_S2 : forall r phi l, decomp (S2gate K r phi) = Some l -> sem_seq (map doc_cmd l) = doc (S2gate K r phi).
Proof.
  intros [ch sh hz] [c s z] l H. injection H as <-. open_all. split_eq;
  match goal with |- ?L = ?R => transitivity ((rt * rt + rt * rt) * R); [ring | rewrite Hrt; ring] end.
Qed.

Lemma dec_P : forall s wr wth wphi l, wf (Pgate K s wr wth wphi) -> decomp (Pgate K s wr wth wphi) = Some l ->
  sem_seq (map doc_cmd l) = doc (Pgate K s wr wth wphi).
Proof.
  intros [s rz] [ch sh hz] [ct st zt] [cp sp zp] l W H. injection H as <-.
  wf_red W. destruct W as (_ & (_ & A & _ & E1 & E2 & E3 & E4 & _) & _).
  apply circ_mon in A. open_all. split_eq;
  first [ ring [A E1 E2 E3 E4]
        | match goal with |- ?L = ?R => transitivity ((rt * rt + rt * rt) * R); [ring [A E1 E2 E3 E4] | rewrite Hrt; ring] end ].
Qed.

Lemma cx_core : forall c s em ep sv : K,
  c * c + s * s = 1 -> sv = em - ep -> (c * s) * (em + ep) = - (1) -> (s * s) * (em + ep) = ep ->
  mmul K (m_bs K (- s) c 1 0)
    (mmul K (mmul K (swapm K) (mmul K (one K ep 0 0 em) (swapm K)))
       (mmul K (one K em 0 0 ep) (m_bs K c s 1 0))) = m_cx K sv.
Proof.
  intros c s em ep sv H1 -> H2 H3.
  assert (H1' : c * c = 1 - s * s) by (apply circ_mon; exact H1).
  assert (H2' : c * s * ep = - (1) - c * s * em) by (rewrite <- H2; ring).
  assert (H3' : s * s * ep = ep - s * s * em).
  { transitivity ((s * s) * (em + ep) - s * s * em); [ring | rewrite H3; ring]. }
  open_all. split_eq; ring [H1' H2' H3'].
Qed.

Lemma dec_CX : forall s wr wth l, wf (CXgate K s wr wth) -> decomp (CXgate K s wr wth) = Some l ->
  sem_seq (map doc_cmd l) = doc (CXgate K s wr wth).
Proof.
  intros [s rz] [ch sh hz] [c s_ z] l W H. injection H as <-.
  wf_red W. destruct W as (_ & (_ & A & E1 & E2 & E3 & _) & _).
  transitivity (a_lin K (mmul K (m_bs K (- s_) c 1 0)
    (mmul K (mmul K (swapm K) (mmul K (one K (ch + sh) 0 0 (ch - sh)) (swapm K)))
       (mmul K (one K (ch - sh) 0 0 (ch + sh)) (m_bs K c s_ 1 0))))).
  - open_all. split_eq; ring.
  - rewrite (cx_core c s_ (ch - sh) (ch + sh) s A E1 E2 E3). reflexivity.
Qed.

Lemma dec_CZ : forall s wr wth l, decomp (CZgate K s wr wth) = Some l ->
  sem_seq (map doc_cmd l) = doc (CZgate K s wr wth).
Proof.
  intros [s rz] [ch sh hz] [c s_ z] l H. injection H as <-. open_all. split_eq; ring.
Qed.

Theorem decomp_sound : forall g l, wf g -> decomp g = Some l -> sem_seq (map doc_cmd l) = doc g.
Proof.
  intros g l W H. destruct g; try discriminate H.
  - apply dec_X; assumption.
  - apply dec_Z; assumption.
  - apply dec_P; assumption.
  - apply dec_MZ; assumption.
  - apply dec_sMZ; assumption.
  - apply dec_S2; assumption.
  - apply dec_CX; assumption.
  - apply dec_CZ; assumption.
  - apply dec_F; assumption.
Qed.

End Gate.
