(* C02 — proofs about the phase-space algebra and the per-gate decompositions.
   Everything is proved over an arbitrary commutative ring K (Section hypothesis Kring), so the
   theorems hold for the reals with cos/sin/cosh/sinh substituted, for every parameter value. *)
From Coq Require Import List Bool Arith Ring Setoid.
Import ListNotations.
From SFV Require Import C02.Alg C02.Model.

Section Proofs.
Variable K : Type.
Context {Kops : Ops K}.
Hypothesis Kring : ring_theory (@k0 K Kops) (@k1 K Kops) (@kadd K Kops) (@kmul K Kops) (@ksub K Kops) (@kopp K Kops) eq.
Add Ring Kr : Kring.

Local Notation "0" := (@k0 K Kops).
Local Notation "1" := (@k1 K Kops).
Local Infix "+" := (@kadd K Kops).
Local Infix "*" := (@kmul K Kops).
Local Infix "-" := (@ksub K Kops).
Local Notation "- x" := (@kopp K Kops x).

Local Notation aff := (aff K).
Local Notation M4 := (M4 K).
Local Notation V4 := (V4 K).
Local Notation acomp := (acomp K).
Local Notation aid := (aid K).
Local Notation ainv := (ainv K).
Local Notation aswap := (aswap K).
Local Notation mmul := (mmul K).
Local Notation sinv := (sinv K).
Local Notation mid := (mid K).
Local Notation sem_seq := (sem_seq K).

(* open every algebra definition down to scalar expressions *)
Ltac open_alg :=
  lazy beta iota zeta delta
    [Alg.acomp Alg.aid Alg.ainv Alg.aswap Alg.mmul Alg.sinv Alg.mid Alg.mvec Alg.vadd Alg.vopp Alg.mtr
     Alg.vrow Alg.dot Alg.col0 Alg.col1 Alg.col2 Alg.col3 Alg.v0 Alg.omega Alg.momega Alg.swapm
     Alg.one Alg.m_rot Alg.m_sq Alg.m_shear Alg.m_bs Alg.m_s2 Alg.m_cx Alg.m_cz Alg.m_uni Alg.a_lin Alg.a_disp
     Alg.lin Alg.off Alg.r0 Alg.r1 Alg.r2 Alg.r3 Alg.c0 Alg.c1 Alg.c2 Alg.c3].

Lemma V4_eq : forall a b c d a' b' c' d' : K, a = a' -> b = b' -> c = c' -> d = d' -> mkV K a b c d = mkV K a' b' c' d'.
Proof. intros; subst; reflexivity. Qed.
Lemma M4_eq : forall a b c d a' b' c' d' : V4, a = a' -> b = b' -> c = c' -> d = d' -> mkM K a b c d = mkM K a' b' c' d'.
Proof. intros; subst; reflexivity. Qed.
Lemma aff_eq : forall (m m' : M4) (v v' : V4), m = m' -> v = v' -> mkA K m v = mkA K m' v'.
Proof. intros; subst; reflexivity. Qed.

(* split an equation between fully opened aff / M4 / V4 values into scalar goals *)
Ltac split_eq :=
  repeat first [apply aff_eq | apply M4_eq | apply V4_eq].

Ltac alg := open_alg; split_eq; ring.

Lemma mmul_assoc : forall a b c : M4, mmul a (mmul b c) = mmul (mmul a b) c.
Proof. intros [[? ? ? ?] [? ? ? ?] [? ? ? ?] [? ? ? ?]] [[? ? ? ?] [? ? ? ?] [? ? ? ?] [? ? ? ?]] [[? ? ? ?] [? ? ? ?] [? ? ? ?] [? ? ? ?]]. alg. Qed.
Lemma mmul_id_l : forall a : M4, mmul mid a = a.
Proof. intros [[? ? ? ?] [? ? ? ?] [? ? ? ?] [? ? ? ?]]. alg. Qed.
Lemma mmul_id_r : forall a : M4, mmul a mid = a.
Proof. intros [[? ? ? ?] [? ? ? ?] [? ? ? ?] [? ? ? ?]]. alg. Qed.
Lemma sinv_mul : forall a b : M4, sinv (mmul b a) = mmul (sinv a) (sinv b).
Proof. intros [[? ? ? ?] [? ? ? ?] [? ? ? ?] [? ? ? ?]] [[? ? ? ?] [? ? ? ?] [? ? ? ?] [? ? ? ?]]. alg. Qed.
Lemma sinv_sinv : forall a : M4, sinv (sinv a) = a.
Proof. intros [[? ? ? ?] [? ? ? ?] [? ? ? ?] [? ? ? ?]]. alg. Qed.
Lemma sinv_id : sinv mid = mid.
Proof. alg. Qed.

Lemma acomp_assoc : forall a b c : aff, acomp a (acomp b c) = acomp (acomp a b) c.
Proof.
  intros [[[? ? ? ?] [? ? ? ?] [? ? ? ?] [? ? ? ?]] [? ? ? ?]] [[[? ? ? ?] [? ? ? ?] [? ? ? ?] [? ? ? ?]] [? ? ? ?]]
         [[[? ? ? ?] [? ? ? ?] [? ? ? ?] [? ? ? ?]] [? ? ? ?]]. alg.
Qed.
Lemma acomp_id_l : forall a : aff, acomp aid a = a.
Proof. intros [[[? ? ? ?] [? ? ? ?] [? ? ? ?] [? ? ? ?]] [? ? ? ?]]. alg. Qed.
Lemma acomp_id_r : forall a : aff, acomp a aid = a.
Proof. intros [[[? ? ? ?] [? ? ? ?] [? ? ? ?] [? ? ? ?]] [? ? ? ?]]. alg. Qed.

Lemma aswap_comp : forall a b : aff, aswap (acomp b a) = acomp (aswap b) (aswap a).
Proof.
  intros [[[? ? ? ?] [? ? ? ?] [? ? ? ?] [? ? ? ?]] [? ? ? ?]] [[[? ? ? ?] [? ? ? ?] [? ? ? ?] [? ? ? ?]] [? ? ? ?]]. alg.
Qed.
Lemma aswap_id : aswap aid = aid.
Proof. alg. Qed.
Lemma aswap_aswap : forall a : aff, aswap (aswap a) = a.
Proof. intros [[[? ? ? ?] [? ? ? ?] [? ? ? ?] [? ? ? ?]] [? ? ? ?]]. alg. Qed.
Lemma ainv_aswap : forall a : aff, ainv (aswap a) = aswap (ainv a).
Proof. intros [[[? ? ? ?] [? ? ? ?] [? ? ? ?] [? ? ? ?]] [? ? ? ?]]. alg. Qed.
Lemma ainv_id : ainv aid = aid.
Proof. alg. Qed.

End Proofs.
