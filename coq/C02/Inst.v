(* C02 — an axiom-free instance showing that the hypotheses of the theorems are satisfiable:
   the field Q(sqrt 2) as pairs a + b*sqrt2 over canonical rationals (Leibniz equality), with
   cos(pi/4) = sqrt2/2, sqrt(2 hbar) = 2 (hbar = 2), and rational points on the circle / hyperbola. *)
From Coq Require Import List Bool Arith QArith Qcanon Ring.
Import ListNotations.
From SFV Require Import C02.Alg C02.Model.

Definition Q2 := (Qc * Qc)%type.
Definition q2 (a : Qc) : Q2 := (a, 0%Qc).
Definition q2add (x y : Q2) : Q2 := ((fst x + fst y)%Qc, (snd x + snd y)%Qc).
Definition q2mul (x y : Q2) : Q2 := ((fst x * fst y + (1 + 1) * (snd x * snd y))%Qc, (fst x * snd y + snd x * fst y)%Qc).
Definition q2opp (x : Q2) : Q2 := ((- fst x)%Qc, (- snd x)%Qc).
Definition q2sub (x y : Q2) : Q2 := q2add x (q2opp y).
Definition qc (n d : Z) : Qc := Q2Qc (Qmake n (Z.to_pos d)).

#[export] Instance Q2ops : Ops Q2 :=
  mkOps Q2 (q2 0%Qc) (q2 1%Qc) q2add q2mul q2sub q2opp
        (q2 (qc 2 1)) (q2 (qc 1 2)) (0%Qc, qc 1 2).

Lemma Q2ring : ring_theory (@k0 Q2 Q2ops) (@k1 Q2 Q2ops) (@kadd Q2 Q2ops) (@kmul Q2 Q2ops) (@ksub Q2 Q2ops) (@kopp Q2 Q2ops) eq.
Proof.
  constructor; simpl; unfold q2add, q2mul, q2sub, q2opp, q2; simpl.
  - intros [a b]; simpl; f_equal; ring.
  - intros [a b] [c d]; simpl; f_equal; ring.
  - intros [a b] [c d] [e f]; simpl; f_equal; ring.
  - intros [a b]; simpl; f_equal; ring.
  - intros [a b] [c d]; simpl; f_equal; ring.
  - intros [a b] [c d] [e f]; simpl; f_equal; ring.
  - intros [a b] [c d] [e f]; simpl; f_equal; ring.
  - intros [a b] [c d]; reflexivity.
  - intros [a b]; simpl; f_equal; ring.
Qed.

Ltac q2eq := apply injective_projections; apply Qc_is_canon; vm_compute; reflexivity.

Lemma Q2_rt : @kadd Q2 Q2ops (@kmul Q2 Q2ops (@rt Q2 Q2ops) (@rt Q2 Q2ops)) (@kmul Q2 Q2ops (@rt Q2 Q2ops) (@rt Q2 Q2ops)) = @k1 Q2 Q2ops.
Proof. simpl. q2eq. Qed.
Lemma Q2_s2h : @kmul Q2 Q2ops (@s2h Q2 Q2ops) (@is2h Q2 Q2ops) = @k1 Q2 Q2ops.
Proof. simpl. q2eq. Qed.
Lemma Q2_10 : @k1 Q2 Q2ops <> @k0 Q2 Q2ops.
Proof. simpl. unfold q2. intro H. injection H as H. discriminate H. Qed.

(* a Pgate with s = 3/2 and a CXgate with s = 7/12, with the derived parameters of their decompositions *)
Definition exP : gate Q2 :=
  Pgate Q2 (mkRp Q2 (q2 (qc 3 2)) false) (mkHyp Q2 (q2 (qc 5 4)) (q2 (qc 3 4)) false)
        (mkAng Q2 (q2 (qc 4 5)) (q2 (qc 3 5)) false) (mkAng Q2 (q2 (qc (-3) 5)) (q2 (qc (-4) 5)) false).
Definition exCX : gate Q2 :=
  CXgate Q2 (mkRp Q2 (q2 (qc 7 12)) false) (mkHyp Q2 (q2 (qc 25 24)) (q2 (qc (-7) 24)) false)
         (mkAng Q2 (q2 (qc 4 5)) (q2 (qc (-3) 5)) false).
Definition exCZ : gate Q2 :=
  CZgate Q2 (mkRp Q2 (q2 (qc 7 12)) false) (mkHyp Q2 (q2 (qc 25 24)) (q2 (qc (-7) 24)) false)
         (mkAng Q2 (q2 (qc 4 5)) (q2 (qc (-3) 5)) false).
Definition exS2 : gate Q2 := S2gate Q2 (mkHyp Q2 (q2 (qc 5 4)) (q2 (qc 3 4)) false) (mkAng Q2 (q2 (qc 3 5)) (q2 (qc 4 5)) false).
Definition exMZ : gate Q2 := MZgate Q2 (mkAng Q2 (q2 (qc 3 5)) (q2 (qc 4 5)) false) (mkAng Q2 (q2 (qc 5 13)) (q2 (qc 12 13)) false).

Ltac wf_ex := unfold wf; simpl; repeat split; try exact I; try discriminate; try q2eq.
Lemma exP_wf : wf Q2 exP. Proof. wf_ex. Qed.
Lemma exCX_wf : wf Q2 exCX. Proof. wf_ex. Qed.
Lemma exCZ_wf : wf Q2 exCZ. Proof. wf_ex. Qed.
Lemma exS2_wf : wf Q2 exS2. Proof. wf_ex. Qed.
Lemma exMZ_wf : wf Q2 exMZ. Proof. wf_ex. Qed.
