(* C02 — model of the decomposition machinery of strawberryfields/ops.py and
   compilers/compiler.py (definitions only; proofs are in Proofs.v / ProofsDrv.v).

   * [gate]      deep embedding of the Gaussian gate set.  A parameter never appears as a number
                 but through the values the code (and the documentation) takes of it: an angle is
                 the pair (cos, sin), a squeezing magnitude the pair (cosh, sinh); each carries the
                 flag "the Python value is exactly 0" which is what [Gate.apply] tests.
                 Gates whose [_decompose] computes derived parameters through asinh/atan2/acosh
                 (Pgate, CXgate, CZgate) carry those derived values as witness fields; [wf] states
                 the relations the derived values satisfy (checked numerically on every run against
                 what the implementation computes).
   * [doc]       the transformation each gate is documented to perform (docstrings of ops.py).
   * [decomp]    mirrors every [_decompose]; [decompose_cmd] mirrors [Gate.decompose] (reverse the
                 sequence and flip each flag when daggered); [apply_sem] mirrors [Gate.apply]
                 (skip when p[0] == 0, negate p[0] when daggered, then the backend call);
                 [compile] mirrors [Compiler.decompose] with explicit fuel. *)
From Coq Require Import List Bool Arith.
Import ListNotations.
From SFV Require Import C02.Alg.
Set Primitive Projections.

Section Model.
Variable K : Type.
Context {Kops : Ops K}.

Local Notation "0" := k0.
Local Notation "1" := k1.
Local Infix "+" := kadd.
Local Infix "*" := kmul.
Local Infix "-" := ksub.
Local Notation "- x" := (kopp x).
Local Notation aff := (aff K).
Local Notation M4 := (M4 K).

Record ang := mkAng { co : K; si : K; az : bool }.
Record hyp := mkHyp { ch : K; sh : K; hz : bool }.
Record rp := mkRp { rv : K; rz : bool }.

Definition aneg (a : ang) := mkAng (co a) (- si a) (az a).
Definition hneg (h : hyp) := mkHyp (ch h) (- sh h) (hz h).
Definition rneg (r : rp) := mkRp (- rv r) (rz r).
Definition a_zero := mkAng 1 0 true.
Definition a_quarter := mkAng 0 1 false.               (* pi/2 *)
Definition a_mquarter := mkAng 0 (- (1)) false.        (* -pi/2 *)
Definition a_eighth := mkAng rt rt false.              (* pi/4 *)
Definition a_minus_quarter (a : ang) := mkAng (si a) (- co a) false.   (* a - pi/2 *)
Definition a_plus_quarter (a : ang) := mkAng (- si a) (co a) false.    (* a + pi/2 *)

Inductive gate :=
| Dgate (r : rp) (phi : ang)
| Xgate (x : rp)
| Zgate (p : rp)
| Sgate (r : hyp) (phi : ang)
| Rgate (th : ang)
| Pgate (s : rp) (wr : hyp) (wth wphi : ang)
| BSgate (th ph : ang)
| MZgate (pin pex : ang)
| sMZgate (pin pex : ang)
| S2gate (r : hyp) (phi : ang)
| CXgate (s : rp) (wr : hyp) (wth : ang)
| CZgate (s : rp) (wr : hyp) (wth : ang)
| Fouriergate
| Opaque (id : nat).          (* any non-Gaussian / unknown operation: Kgate, Vgate, CKgate, ... *)

Inductive kind := kD | kX | kZ | kS | kR | kP | kBS | kMZ | ksMZ | kS2 | kCX | kCZ | kF | kO (id : nat).
Definition kind_of (g : gate) : kind :=
  match g with
  | Dgate _ _ => kD | Xgate _ => kX | Zgate _ => kZ | Sgate _ _ => kS | Rgate _ => kR
  | Pgate _ _ _ _ => kP | BSgate _ _ => kBS | MZgate _ _ => kMZ | sMZgate _ _ => ksMZ
  | S2gate _ _ => kS2 | CXgate _ _ _ => kCX | CZgate _ _ _ => kCZ | Fouriergate => kF
  | Opaque n => kO n
  end.

(* ---------------- documented transformation on the gate's own modes (0[,1]) ---------------- *)
Local Notation a_lin := (a_lin K).
Local Notation a_disp := (a_disp K).
Definition hf : K := rt * rt.   (* 1/2 *)

Definition doc (g : gate) : aff :=
  match g with
  | Dgate r phi => a_disp (s2h * rv r * co phi) (s2h * rv r * si phi)
  | Xgate x => a_disp (rv x) 0
  | Zgate p => a_disp 0 (rv p)
  | Sgate r phi => a_lin (m_sq K (ch r) (sh r) (co phi) (si phi))
  | Rgate th => a_lin (m_rot K (co th) (si th))
  | Pgate s _ _ _ => a_lin (m_shear K (rv s))
  | BSgate th ph => a_lin (m_bs K (co th) (si th) (co ph) (si ph))
  | MZgate i e =>
      (* U = 1/2 [[(-1+e^{i in}) e^{i ex}, i(1+e^{i in})], [i(1+e^{i in}) e^{i ex}, 1-e^{i in}]] *)
      a_lin (m_uni K
        (hf * ((co i - 1) * co e - si i * si e))   (hf * (- si i))
        (hf * (- (si i * co e) - (1 + co i) * si e)) (hf * (1 - co i))
        (hf * ((co i - 1) * si e + si i * co e))   (hf * (1 + co i))
        (hf * (- (si i * si e) + (1 + co i) * co e)) (hf * (- si i)))
  | sMZgate a b =>
      (* U = (-i/2) [[e1-e2, i(e1+e2)], [i(e1+e2), e2-e1]],  e1 = e^{i a}, e2 = e^{i b}
         ( = e^{i sigma} [[sin d, cos d],[cos d, -sin d]] for a = sigma+d, b = sigma-d, the matrix
           M(sigma, delta) of decompositions.py ) *)
      a_lin (m_uni K
        (hf * (si a - si b)) (hf * (co a + co b)) (hf * (co a + co b)) (hf * (si b - si a))
        (hf * (co b - co a)) (hf * (si a + si b)) (hf * (si a + si b)) (hf * (co a - co b)))
  | S2gate r phi => a_lin (m_s2 K (ch r) (sh r) (co phi) (si phi))
  | CXgate s _ _ => a_lin (m_cx K (rv s))
  | CZgate s _ _ => a_lin (m_cz K (rv s))
  | Fouriergate => a_lin (m_rot K 0 1)
  | Opaque _ => aid K
  end.

(* ---------------- commands ---------------- *)
Record cmd := mkCmd { cg : gate; cw : list nat; cdag : bool }.

Definition place (ws : list nat) (a : aff) : aff :=
  match ws with
  | S _ :: _ => aswap K a
  | _ => a
  end.

Definition doc_cmd (c : cmd) : aff :=
  place (cw c) (if cdag c then ainv K (doc (cg c)) else doc (cg c)).

Definition sem_seq (l : list aff) : aff := fold_left (fun acc a => acomp K a acc) l (aid K).

(* ---------------- _decompose ---------------- *)
Definition w0 := [O].
Definition w1 := [S O].
Definition w01 := [O; S O].
Definition C (g : gate) (w : list nat) := mkCmd g w false.
Definition CH (g : gate) (w : list nat) := mkCmd g w true.

Definition bs_sym := BSgate a_eighth a_quarter.      (* BSgate(pi/4, pi/2) *)
Definition bs_half := BSgate a_eighth a_zero.        (* BSgate(pi/4, 0) *)

Definition decomp (g : gate) : option (list cmd) :=
  match g with
  | Xgate x => Some [C (Dgate (mkRp (rv x * is2h) (rz x)) a_zero) w0]
  | Zgate p => Some [C (Dgate (mkRp (rv p * is2h) (rz p)) a_quarter) w0]
  | Pgate s wr wth wphi => Some [C (Sgate wr wphi) w0; C (Rgate wth) w0]
  | MZgate i e => Some [C (Rgate e) w0; C bs_sym w01; C (Rgate i) w0; C bs_sym w01]
  | sMZgate i e => Some [C bs_sym w01; C (Rgate (a_minus_quarter e)) w1; C (Rgate (a_minus_quarter i)) w0; C bs_sym w01]
  | S2gate r phi => Some [C bs_half w01; C (Sgate r phi) w0; CH (Sgate r phi) w1; CH bs_half w01]
  | CXgate s wr wth =>
      Some [C (BSgate wth a_zero) w01; C (Sgate wr a_zero) w0; C (Sgate (hneg wr) a_zero) w1;
            C (BSgate (a_plus_quarter wth) a_zero) w01]
  | CZgate s wr wth => Some [C (Rgate a_mquarter) w1; C (CXgate s wr wth) w01; C (Rgate a_quarter) w1]
  | Fouriergate => Some [C (Rgate a_quarter) w0]
  | Dgate _ _ | Sgate _ _ | Rgate _ | BSgate _ _ | Opaque _ => None     (* NotImplementedError *)
  end.

(* Gate.decompose: flip every flag and reverse when daggered; wires of the sub-commands are
   selected from the parent's wires *)
Definition flip (c : cmd) := mkCmd (cg c) (cw c) (negb (cdag c)).
Definition sub_wires (parent child : list nat) : list nat := map (fun i => nth i parent O) child.
Definition rewire (parent : list nat) (c : cmd) := mkCmd (cg c) (sub_wires parent (cw c)) (cdag c).

Definition decompose_local (g : gate) (dag : bool) : option (list cmd) :=
  match decomp g with
  | None => None
  | Some seq => Some (if dag then rev (map flip seq) else seq)
  end.
Definition decompose_cmd (c : cmd) : option (list cmd) :=
  match decompose_local (cg c) (cdag c) with
  | None => None
  | Some seq => Some (map (rewire (cw c)) seq)
  end.

(* ---------------- Gate.apply ---------------- *)
Definition p0z (g : gate) : bool :=
  match g with
  | Dgate r _ => rz r | Xgate x => rz x | Zgate p => rz p | Sgate r _ => hz r | Rgate th => az th
  | Pgate s _ _ _ => rz s | BSgate th _ => az th | MZgate i _ => az i | sMZgate i _ => az i
  | S2gate r _ => hz r | CXgate s _ _ => rz s | CZgate s _ _ => rz s
  | Fouriergate => false | Opaque _ => false
  end.
Definition neg_p0 (g : gate) : gate :=
  match g with
  | Dgate r phi => Dgate (rneg r) phi
  | Xgate x => Xgate (rneg x) | Zgate p => Zgate (rneg p)
  | Sgate r phi => Sgate (hneg r) phi
  | Rgate th => Rgate (aneg th)
  | Pgate s wr wth wphi => Pgate (rneg s) wr wth wphi
  | BSgate th ph => BSgate (aneg th) ph
  | MZgate i e => MZgate (aneg i) e
  | sMZgate i e => sMZgate (aneg i) e
  | S2gate r phi => S2gate (hneg r) phi
  | CXgate s wr wth => CXgate (rneg s) wr wth
  | CZgate s wr wth => CZgate (rneg s) wr wth
  | Fouriergate => Fouriergate
  | Opaque n => Opaque n
  end.
(* the backend call made by _apply receives the raw parameter values; the backends implement the
   documented formula for them (tied by the correspondence check against the simulators) *)
Definition apply_sem (c : cmd) : aff :=
  if p0z (cg c) then aid K
  else place (cw c) (doc (if cdag c then neg_p0 (cg c) else cg c)).

(* ---------------- Compiler.decompose ---------------- *)
Record table := mkTable { t_prim : kind -> bool; t_dec : kind -> bool }.
Inductive res := Ok (l : list cmd) | ErrCircuit | ErrNotImpl | ErrFuel.

Definition res_app (a b : res) : res :=
  match a with
  | Ok x => match b with Ok y => Ok (x ++ y) | e => e end
  | e => e
  end.

Fixpoint compile (fuel : nat) (tb : table) (seq : list cmd) : res :=
  match fuel with
  | O => ErrFuel
  | S f =>
      fold_right (fun c acc =>
        let head :=
          if t_dec tb (kind_of (cg c)) then
            match decompose_cmd c with
            | None => ErrNotImpl
            | Some sub => compile f tb sub
            end
          else if t_prim tb (kind_of (cg c)) then Ok [c]
          else ErrCircuit in
        res_app head acc) (Ok []) seq
  end.

(* ---------------- well-formedness: the identities the parameter values satisfy ----------------
   Written as a list of equations (lhs, rhs) so that the very same list is what the correspondence
   check evaluates at floats on the parameter values the implementation computes. *)
Fixpoint all_eq (l : list (K * K)) : Prop :=
  match l with
  | [] => True
  | e :: r => fst e = snd e /\ all_eq r
  end.

Definition eq_ang (a : ang) : list (K * K) := [(co a * co a + si a * si a, 1)].
Definition eq_hyp (h : hyp) : list (K * K) := [(ch h * ch h - sh h * sh h, 1)].
(* t = s/2 *)
Definition eq_P (s : rp) (wr : hyp) (wth wphi : ang) : list (K * K) :=
  let t := rv s * hf in
  [(co wth * ch wr, 1); (si wth * ch wr, t);
   (sh wr * co wphi, - (t * si wth)); (sh wr * si wphi, - (t * co wth))].
(* sinh r = -s/2, sin 2theta = -1/cosh r, cos 2theta = -tanh r, written division-free with
   em = e^-r = cosh r - sinh r, ep = e^r *)
Definition eq_CX (s : rp) (wr : hyp) (wth : ang) : list (K * K) :=
  let em := ch wr - sh wr in let ep := ch wr + sh wr in
  [(rv s, em - ep);
   ((co wth * si wth) * (em + ep), - (1));
   ((si wth * si wth) * (em + ep), ep)].

Definition eqs (g : gate) : list (K * K) :=
  match g with
  | Dgate r phi => eq_ang phi
  | Xgate x => []
  | Zgate p => []
  | Sgate r phi => eq_hyp r ++ eq_ang phi
  | Rgate th => eq_ang th
  | Pgate s wr wth wphi => eq_hyp wr ++ eq_ang wth ++ eq_ang wphi ++ eq_P s wr wth wphi
  | BSgate th ph => eq_ang th ++ eq_ang ph
  | MZgate i e => eq_ang i ++ eq_ang e
  | sMZgate i e => eq_ang i ++ eq_ang e
  | S2gate r phi => eq_hyp r ++ eq_ang phi
  | CXgate s wr wth => eq_hyp wr ++ eq_ang wth ++ eq_CX s wr wth
  | CZgate s wr wth => eq_hyp wr ++ eq_ang wth ++ eq_CX s wr wth
  | Fouriergate => []
  | Opaque _ => []
  end.

(* the "exactly zero" flags are truthful *)
Definition fl_ang (a : ang) : Prop := az a = true -> co a = 1 /\ si a = 0.
Definition fl_hyp (h : hyp) : Prop := hz h = true -> ch h = 1 /\ sh h = 0.
Definition fl_rp (r : rp) : Prop := rz r = true -> rv r = 0.
Definition zero_flag_ok (g : gate) : Prop :=
  match g with
  | Dgate r phi => fl_rp r /\ fl_ang phi
  | Xgate r | Zgate r => fl_rp r
  | Sgate r phi | S2gate r phi => fl_hyp r /\ fl_ang phi
  | Rgate a => fl_ang a
  | Pgate r wr wth wphi => fl_rp r /\ fl_hyp wr /\ fl_ang wth /\ fl_ang wphi
  | BSgate a b | MZgate a b | sMZgate a b => fl_ang a /\ fl_ang b
  | CXgate r wr wth | CZgate r wr wth => fl_rp r /\ fl_hyp wr /\ fl_ang wth
  | Fouriergate => True
  | Opaque _ => True
  end.

Definition gaussian (g : gate) : Prop := match g with Opaque _ => False | _ => True end.
Definition wf (g : gate) : Prop := gaussian g /\ all_eq (eqs g) /\ zero_flag_ok g.

Definition arity (g : gate) : nat :=
  match g with
  | BSgate _ _ | MZgate _ _ | sMZgate _ _ | S2gate _ _ | CXgate _ _ _ | CZgate _ _ _ => 2
  | _ => 1
  end.

Definition wires_ok (c : cmd) : Prop :=
  match cw c with
  | [a] => a = O \/ a = S O
  | [a; b] => (a = O /\ b = S O) \/ (a = S O /\ b = O)
  | _ => False
  end.

Definition cmd_ok (c : cmd) : Prop := wf (cg c) /\ wires_ok c /\ length (cw c) = arity (cg c).

(* the decomposition tables of the three simulator compilers, restricted to the modelled gate set
   (compilers/gaussian.py, bosonic.py, fock.py); compared with the classes' attributes on every run.
   Opaque ids: 0 Kgate, 1 Vgate, 2 CKgate, 3 Ggate *)
Definition tb_gaussian : table :=
  mkTable (fun k => match k with kD | kS | kR | kBS => true | _ => false end)
          (fun k => match k with kP | kS2 | kCX | kCZ | kMZ | ksMZ | kX | kZ | kF => true | _ => false end).
Definition tb_bosonic : table :=
  mkTable (fun k => match k with kD | kS | kR | kBS => true | _ => false end)
          (fun k => match k with kP | kS2 | kCX | kCZ | kMZ | kX | kZ | kF => true | _ => false end).
Definition tb_fock : table :=
  mkTable (fun k => match k with kD | kS | kR | kBS | kMZ | kS2 => true
                            | kO O | kO (S O) | kO (S (S O)) | kO (S (S (S O))) => true | _ => false end)
          (fun k => match k with kP | kCX | kCZ | ksMZ | kX | kZ | kF => true | _ => false end).

(* gates whose native backend call obeys the Gate conventions (see the conv lemmas in Proofs) *)
Definition conv_prim (k : kind) : bool :=
  match k with kD | kS | kR | kBS | kS2 => true | _ => false end.

End Model.
