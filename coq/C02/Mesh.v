(* C02 — command assembly of the interferometer meshes, at the level of an abstract group.

   The numerical nulling (arctan / angle, which T or Ti nulls which element) is outside this file
   (C17); what is modelled is everything that is about ORDER, INVERSES and REVERSAL:
   * the loops of decompositions.rectangular / triangular as schedules of "multiply localV on the
     right by Ti" / "on the left by T" steps with arbitrary chosen factors (any oracle),
   * the assembly of Interferometer._decompose:  BS1 as T's, then the diagonal, then reversed(BS2)
     as inverse T's (BSgate(-theta) ; Rgate(-phi)),
   * _sun_compact_cmds' final [::-1], and the emission order of _triangular_compact_cmds.
   A command list is in time order; its action is the product with the LAST command leftmost. *)
From Coq Require Import List ZArith Lia.
Import ListNotations.

Section Group.
Variable G : Type.
Variable mul : G -> G -> G.
Variable inv : G -> G.
Variable e : G.
Local Infix "*" := mul.
Hypothesis mul_assoc : forall a b c, a * (b * c) = (a * b) * c.
Hypothesis mul_e_l : forall a, e * a = a.
Hypothesis mul_e_r : forall a, a * e = a.
Hypothesis mul_inv_l : forall a, inv a * a = e.
Hypothesis mul_inv_r : forall a, a * inv a = e.

(* action of a command list given in time order *)
Definition useq (l : list G) : G := fold_left (fun acc a => a * acc) l e.
(* left-to-right matrix product *)
Definition lprod (l : list G) : G := fold_right mul e l.

Lemma useq_acc : forall l x, fold_left (fun acc a => a * acc) l x = useq l * x.
Proof.
  unfold useq. induction l as [|a l IH]; intro x; simpl.
  - symmetry; apply mul_e_l.
  - rewrite IH, (IH (a * e)), mul_e_r, mul_assoc. reflexivity.
Qed.
Lemma useq_cons : forall a l, useq (a :: l) = useq l * a.
Proof. intros. unfold useq at 1. simpl. rewrite useq_acc, mul_e_r. reflexivity. Qed.
Lemma useq_app : forall l1 l2, useq (l1 ++ l2) = useq l2 * useq l1.
Proof.
  induction l1 as [|a l1 IH]; intro l2; simpl.
  - unfold useq at 3. simpl. rewrite mul_e_r. reflexivity.
  - rewrite !useq_cons, IH, mul_assoc. reflexivity.
Qed.
Lemma useq_one : forall a, useq [a] = a.
Proof. intro a. unfold useq. simpl. apply mul_e_r. Qed.
Lemma useq_nil : useq [] = e.
Proof. reflexivity. Qed.
Lemma useq_rev : forall l, useq (rev l) = lprod l.
Proof.
  induction l as [|a l IH]; cbn [rev lprod fold_right]; [reflexivity|].
  rewrite useq_app, IH, useq_one. reflexivity.
Qed.
Lemma inv_mul : forall a b, inv (a * b) = inv b * inv a.
Proof.
  intros a b.
  assert (H : inv (a * b) * (a * b) * inv b * inv a = inv b * inv a) by (rewrite mul_inv_l, mul_e_l; reflexivity).
  rewrite <- H at 1.
  rewrite <- !mul_assoc. rewrite (mul_assoc b (inv b)), mul_inv_r, mul_e_l, mul_inv_r, mul_e_r. reflexivity.
Qed.
Lemma inv_e : inv e = e.
Proof. rewrite <- (mul_e_r (inv e)). apply mul_inv_l. Qed.
Lemma inv_inv : forall a, inv (inv a) = a.
Proof.
  intro a. rewrite <- (mul_e_r (inv (inv a))), <- (mul_inv_l a), mul_assoc, mul_inv_l, mul_e_l. reflexivity.
Qed.
Lemma useq_inv_rev : forall l, useq (map inv (rev l)) = inv (useq l).
Proof.
  induction l as [|a l IH]; cbn [rev map].
  - rewrite useq_nil. symmetry; apply inv_e.
  - rewrite map_app, useq_app, IH. cbn [map]. rewrite useq_one, useq_cons, inv_mul. reflexivity.
Qed.
Lemma cancel_l : forall a b c, a * b = a * c -> b = c.
Proof.
  intros a b c H. rewrite <- (mul_e_l b), <- (mul_e_l c), <- (mul_inv_l a), <- !mul_assoc, H. reflexivity.
Qed.

(* ---- Interferometer._decompose, non-compact meshes ---- *)
(* BS1 entries and BS2 entries are given by the group element T(n,m,theta,phi) = BS(theta,0) R_n(phi)
   each stands for; the assembly emits T for BS1 entries, the diagonal, and the inverse (BSgate(-theta);
   Rgate(-phi)) for the entries of reversed(BS2) *)
Definition assemble (bs1 : list G) (r : G) (bs2 : option (list G)) : list G :=
  bs1 ++ [r] ++ match bs2 with Some l => map inv (rev l) | None => [] end.

(* decompositions.rectangular: a schedule of nulling steps *)
Inductive step := RightTi (t : G) | LeftT (t : G).
Record st := mkSt { localV : G; tilist : list G; tlist : list G }.
Definition do_step (s : st) (x : step) : st :=
  match x with
  | RightTi t => mkSt (localV s * inv t) (tilist s ++ [t]) (tlist s)      (* localV := localV @ Ti(last of tilist) *)
  | LeftT t => mkSt (t * localV s) (tilist s) (tlist s ++ [t])            (* localV := T(last of tlist) @ localV *)
  end.
Definition run (V : G) (steps : list step) : st := fold_left do_step steps (mkSt V [] []).

Lemma run_invariant : forall steps s V,
  localV s = useq (tlist s) * V * lprod (map inv (tilist s)) ->
  let s' := fold_left do_step steps s in
  localV s' = useq (tlist s') * V * lprod (map inv (tilist s')).
Proof.
  induction steps as [|x steps IH]; intros s V H; simpl; [exact H|].
  apply IH. destruct x as [t|t]; simpl.
  - rewrite H, map_app. simpl.
    assert (L : forall l y, lprod (l ++ [y]) = lprod l * y).
    { induction l as [|a l IHl]; intro y; simpl; [rewrite mul_e_l, mul_e_r; reflexivity|].
      rewrite IHl, mul_assoc. reflexivity. }
    rewrite L, !mul_assoc. reflexivity.
  - rewrite H, useq_app, useq_one, !mul_assoc. reflexivity.
Qed.

(* rectangular / rectangular_phase_end (BS2 = None there, handled by bs2 := Some [] being the same list):
   whatever factors the nulling chooses, the assembled command list acts as V *)
Theorem rectangular_assembly : forall V steps,
  let s := run V steps in
  useq (assemble (tilist s) (localV s) (Some (tlist s))) = V.
Proof.
  intros V steps s.
  assert (H : localV s = useq (tlist s) * V * lprod (map inv (tilist s))).
  { apply (run_invariant steps (mkSt V [] []) V). simpl. rewrite useq_nil, mul_e_l, mul_e_r. reflexivity. }
  unfold assemble. rewrite !useq_app, useq_inv_rev, useq_one.
  rewrite H.
  assert (C : forall l, lprod (map inv l) * useq l = e).
  { induction l as [|a l IHl]; simpl; [rewrite useq_nil; apply mul_e_l|].
    rewrite useq_cons. rewrite <- mul_assoc, (mul_assoc (lprod (map inv l))), IHl, mul_e_l. apply mul_inv_l. }
  rewrite !mul_assoc, mul_inv_l, mul_e_l. rewrite <- mul_assoc, C, mul_e_r. reflexivity.
Qed.

(* decompositions.triangular: only LeftT steps, returns (list(reversed(tlist)), diag(localV), None) *)
Definition tri_result (V : G) (ts : list G) : list G * G * option (list G) :=
  let s := run V (map LeftT ts) in (rev (tlist s), localV s, None).
(* what Interferometer._decompose emits for it (since /repo commit 8725dba):
   `if mesh == "triangular": BS1, BS2 = [], list(reversed(BS1))` -- the diagonal first, then the inverse
   factors in the order the decomposition returns them *)
Definition tri_emitted (V : G) (ts : list G) : list G :=
  let '(b1, r, _) := tri_result V ts in assemble [] r (Some (rev b1)).
(* what it emitted before that commit: the returned triple handed to the rectangular assembly unchanged
   (T factors first, diagonal last).  Kept only so that the refutation of the old behaviour stays checked. *)
Definition tri_emitted_old (V : G) (ts : list G) : list G :=
  let '(b1, r, b2) := tri_result V ts in assemble b1 r b2.

Lemma run_left : forall ts V, tlist (run V (map LeftT ts)) = ts /\ localV (run V (map LeftT ts)) = useq ts * V.
Proof.
  intros ts V.
  assert (H : forall ts s, tlist (fold_left do_step (map LeftT ts) s) = tlist s ++ ts
                           /\ localV (fold_left do_step (map LeftT ts) s) = useq ts * localV s).
  { induction ts0 as [|t ts0 IH]; intro s; simpl.
    - rewrite app_nil_r, useq_nil, mul_e_l. split; reflexivity.
    - destruct (IH (mkSt (t * localV s) (tilist s) (tlist s ++ [t]))) as [A B]. rewrite A, B. simpl.
      rewrite <- app_assoc, useq_cons, mul_assoc. split; reflexivity. }
  destruct (H ts (mkSt V [] [])) as [A B]. unfold run. rewrite A, B. split; reflexivity.
Qed.

Theorem triangular_assembly : forall V ts, useq (tri_emitted V ts) = V.
Proof.
  intros V ts. unfold tri_emitted, tri_result. destruct (run_left ts V) as [A B]. rewrite A, B.
  unfold assemble. rewrite rev_involutive. simpl. rewrite useq_cons, useq_inv_rev.
  rewrite mul_assoc, mul_inv_l. apply mul_e_l.
Qed.

(* the old order acted as  D * T_1 * ... * T_k  instead *)
Lemma triangular_old_value : forall V ts, useq (tri_emitted_old V ts) = useq ts * V * lprod ts.
Proof.
  intros V ts. unfold tri_emitted_old, tri_result. destruct (run_left ts V) as [A B]. rewrite A, B.
  unfold assemble. rewrite app_nil_r, useq_app, useq_rev, useq_one. reflexivity.
Qed.

(* _sun_compact_cmds builds the commands in matrix-multiplication order and returns cmds[::-1] *)
Theorem sun_reversal : forall cmds, useq (rev cmds) = lprod cmds.
Proof. exact useq_rev. Qed.

(* triangular_compact: V0 = conj(U) is multiplied on the right by factors f_1, f_2, ... (P and M matrices,
   each satisfying conj f = f^-1) until it is the identity; _triangular_compact_cmds emits the factors in
   the same order f_1, f_2, ...  *)
Variable conj : G -> G.
Hypothesis conj_mul : forall a b, conj (a * b) = conj a * conj b.
Hypothesis conj_conj : forall a, conj (conj a) = a.

Lemma conj_e : conj e = e.
Proof.
  apply (cancel_l (conj e)). rewrite <- conj_mul, mul_e_l, mul_e_r. reflexivity.
Qed.
Lemma conj_lprod : forall l, Forall (fun f => conj f = inv f) l -> conj (lprod l) = inv (useq l).
Proof.
  induction 1 as [|f l Hf Hl IH]; simpl.
  - rewrite useq_nil, conj_e, inv_e. reflexivity.
  - rewrite conj_mul, IH, Hf, useq_cons, inv_mul. reflexivity.
Qed.
Theorem compact_right_assembly : forall U fs,
  Forall (fun f => conj f = inv f) fs -> conj U * lprod fs = e -> useq fs = U.
Proof.
  intros U fs Hf H.
  assert (H2 : conj (conj U * lprod fs) = e) by (rewrite H; apply conj_e).
  rewrite conj_mul, conj_conj, conj_lprod in H2 by exact Hf.
  rewrite <- (mul_e_r U), <- (mul_inv_l (useq fs)), mul_assoc, H2, mul_e_l. reflexivity.
Qed.


(* _rectangular_compact_init: conj(U) is multiplied on the right by R_1, R_2, ... (even diagonals) and on the
   left by L_1, L_2, ... (odd diagonals) until it is the identity; in time order the interferometer is
   R_1, R_2, ..., then the left factors last-found first *)
Lemma conj_inv : forall a, conj (inv a) = inv (conj a).
Proof.
  intro a. apply (cancel_l (conj a)). rewrite <- conj_mul, !mul_inv_r. apply conj_e.
Qed.
Lemma conj_useq : forall l, Forall (fun f => conj f = inv f) l -> conj (useq l) = inv (lprod l).
Proof.
  induction 1 as [|f l Hf Hl IH]; simpl.
  - rewrite useq_nil, conj_e, inv_e. reflexivity.
  - rewrite useq_cons, conj_mul, IH, Hf, inv_mul. reflexivity.
Qed.
Theorem compact_two_sided_assembly : forall U Ls Rs,
  Forall (fun f => conj f = inv f) Ls -> Forall (fun f => conj f = inv f) Rs ->
  useq Ls * conj U * lprod Rs = e -> useq (Rs ++ rev Ls) = U.
Proof.
  intros U Ls Rs HL HR H.
  assert (H3 : inv (lprod Ls) * U * inv (useq Rs) = e).
  { assert (H2 : conj (useq Ls * conj U * lprod Rs) = e) by (rewrite H; apply conj_e).
    rewrite !conj_mul, conj_conj, conj_useq, conj_lprod in H2 by assumption. exact H2. }
  rewrite useq_app, useq_rev.
  transitivity (lprod Ls * (inv (lprod Ls) * U * inv (useq Rs)) * useq Rs).
  - rewrite H3, mul_e_r. reflexivity.
  - rewrite !mul_assoc, mul_inv_r, mul_e_l, <- mul_assoc, mul_inv_l, mul_e_r. reflexivity.
Qed.

End Group.

(* the OLD triangular order was not V in general: already in the additive group of integers *)
Theorem triangular_old_refuted :
  exists (V : Z) (ts : list Z), useq Z Z.add 0%Z (tri_emitted_old Z Z.add Z.opp V ts) <> V.
Proof. exists 0%Z, [1%Z]. vm_compute. discriminate. Qed.
