(* C02 — sequences, inverses, placement: monoid-level facts used by the dagger / compile theorems. *)
From Coq Require Import List Bool Arith Ring Setoid.
Import ListNotations.
From SFV Require Import C02.Alg C02.Model C02.Proofs.

Section Seq.
Variable K : Type.
Context {Kops : Ops K}.
Hypothesis Kring : ring_theory (@k0 K Kops) (@k1 K Kops) (@kadd K Kops) (@kmul K Kops) (@ksub K Kops) (@kopp K Kops) eq.
Add Ring Kr2 : Kring.

Local Notation "0" := (@k0 K Kops).
Local Notation "1" := (@k1 K Kops).
Local Infix "+" := (@kadd K Kops).
Local Infix "*" := (@kmul K Kops).
Local Infix "-" := (@ksub K Kops).
Local Notation "- x" := (@kopp K Kops x).
Local Notation aff := (aff K).
Local Notation M4 := (M4 K).
Local Notation V4 := (V4 K).
Local Notation acomp := (acomp K).
Local Notation aid := (aid K).
Local Notation ainv := (ainv K).
Local Notation aswap := (aswap K).
Local Notation mmul := (mmul K).
Local Notation mvec := (mvec K).
Local Notation vadd := (vadd K).
Local Notation vopp := (vopp K).
Local Notation sinv := (sinv K).
Local Notation mid := (mid K).
Local Notation swapm := (swapm K).
Local Notation sem_seq := (sem_seq K).
Local Notation place := (place K).

Ltac open_alg :=
  lazy beta iota zeta delta
    [Alg.acomp Alg.aid Alg.ainv Alg.aswap Alg.mmul Alg.sinv Alg.mid Alg.mvec Alg.vadd Alg.vopp Alg.mtr
     Alg.vrow Alg.dot Alg.col0 Alg.col1 Alg.col2 Alg.col3 Alg.v0 Alg.omega Alg.momega Alg.swapm
     Alg.lin Alg.off Alg.r0 Alg.r1 Alg.r2 Alg.r3 Alg.c0 Alg.c1 Alg.c2 Alg.c3].
Ltac split_eq := repeat first [apply aff_eq | apply M4_eq | apply V4_eq].
Ltac alg := open_alg; split_eq; ring.

Lemma mvec_mmul : forall (a b : M4) (v : V4), mvec (mmul a b) v = mvec a (mvec b v).
Proof. intros [[? ? ? ?] [? ? ? ?] [? ? ? ?] [? ? ? ?]] [[? ? ? ?] [? ? ? ?] [? ? ? ?] [? ? ? ?]] [? ? ? ?]. alg. Qed.
Lemma mvec_id : forall v : V4, mvec mid v = v.
Proof. intros [? ? ? ?]. alg. Qed.
Lemma mvec_add : forall (a : M4) (u v : V4), mvec a (vadd u v) = vadd (mvec a u) (mvec a v).
Proof. intros [[? ? ? ?] [? ? ? ?] [? ? ? ?] [? ? ? ?]] [? ? ? ?] [? ? ? ?]. alg. Qed.
Lemma mvec_opp : forall (a : M4) (u : V4), mvec a (vopp u) = vopp (mvec a u).
Proof. intros [[? ? ? ?] [? ? ? ?] [? ? ? ?] [? ? ? ?]] [? ? ? ?]. alg. Qed.
Lemma vadd_opp_l : forall u : V4, vadd (vopp u) u = v0 K.
Proof. intros [? ? ? ?]. alg. Qed.
Lemma vopp_add : forall u v : V4, vopp (vadd u v) = vadd (vopp u) (vopp v).
Proof. intros [? ? ? ?] [? ? ? ?]. alg. Qed.
Lemma vadd_comm : forall u v : V4, vadd u v = vadd v u.
Proof. intros [? ? ? ?] [? ? ? ?]. alg. Qed.
Lemma vopp_opp : forall u : V4, vopp (vopp u) = u.
Proof. intros [? ? ? ?]. alg. Qed.
Lemma swap_swap : mmul swapm swapm = mid.
Proof. alg. Qed.
Lemma sinv_conj_swap : forall s : M4, sinv (mmul swapm (mmul s swapm)) = mmul swapm (mmul (sinv s) swapm).
Proof. intros [[? ? ? ?] [? ? ? ?] [? ? ? ?] [? ? ? ?]]. alg. Qed.

Lemma vadd_opp_r : forall u : V4, vadd u (vopp u) = v0 K.
Proof. intros [? ? ? ?]. alg. Qed.
Lemma conj_swap_mul : forall x y : M4,
  mmul (mmul swapm (mmul x swapm)) (mmul swapm (mmul y swapm)) = mmul swapm (mmul (mmul x y) swapm).
Proof. intros [[? ? ? ?] [? ? ? ?] [? ? ? ?] [? ? ? ?]] [[? ? ? ?] [? ? ? ?] [? ? ? ?] [? ? ? ?]]. alg. Qed.
Lemma conj_swap_id : mmul swapm (mmul mid swapm) = mid.
Proof. alg. Qed.

Definition symp (a : aff) : Prop := symplectic K (lin K a).

Lemma symp_id : symp aid.
Proof. split; alg. Qed.

Lemma ainv_l : forall a, symp a -> acomp (ainv a) a = aid.
Proof.
  intros [S d] [H1 H2]. lazy beta iota delta [Alg.lin] in H1, H2.
  unfold Alg.acomp, Alg.ainv, Alg.aid. lazy beta iota delta [Alg.lin Alg.off].
  rewrite H1. apply aff_eq; [reflexivity|]. apply vadd_opp_r.
Qed.
Lemma ainv_r : forall a, symp a -> acomp a (ainv a) = aid.
Proof.
  intros [S d] [H1 H2]. lazy beta iota delta [Alg.lin] in H1, H2.
  unfold Alg.acomp, Alg.ainv, Alg.aid. lazy beta iota delta [Alg.lin Alg.off].
  rewrite H2. apply aff_eq; [reflexivity|].
  rewrite mvec_opp, <- mvec_mmul, H2, mvec_id. apply vadd_opp_l.
Qed.
Lemma ainv_comp : forall a b, symp b -> ainv (acomp b a) = acomp (ainv a) (ainv b).
Proof.
  intros [A da] [B db] [H1 H2]. lazy beta iota delta [Alg.lin] in H1, H2.
  unfold Alg.acomp, Alg.ainv. lazy beta iota delta [Alg.lin Alg.off].
  rewrite (sinv_mul K Kring). apply aff_eq; [reflexivity|].
  rewrite mvec_add, !mvec_mmul, <- (mvec_mmul (sinv B) B), H1, mvec_id, vopp_add, mvec_opp.
  apply vadd_comm.
Qed.
Lemma ainv_ainv : forall a, symp a -> ainv (ainv a) = a.
Proof.
  intros [S d] [H1 H2]. lazy beta iota delta [Alg.lin] in H1, H2.
  unfold Alg.ainv. lazy beta iota delta [Alg.lin Alg.off].
  rewrite (sinv_sinv K Kring). apply aff_eq; [reflexivity|].
  rewrite mvec_opp, vopp_opp, <- mvec_mmul, H2, mvec_id. reflexivity.
Qed.

Lemma symp_comp : forall a b, symp a -> symp b -> symp (acomp b a).
Proof.
  intros [A da] [B db] [A1 A2] [B1 B2]. lazy beta iota delta [Alg.lin] in A1, A2, B1, B2.
  unfold symp, symplectic, Alg.acomp. lazy beta iota delta [Alg.lin].
  rewrite (sinv_mul K Kring). split.
  - rewrite <- (mmul_assoc K Kring (sinv A)), (mmul_assoc K Kring (sinv B)), B1, (mmul_id_l K Kring). exact A1.
  - rewrite <- (mmul_assoc K Kring B), (mmul_assoc K Kring A), A2, (mmul_id_l K Kring). exact B2.
Qed.
Lemma symp_inv : forall a, symp a -> symp (ainv a).
Proof.
  intros [A da] [A1 A2]. lazy beta iota delta [Alg.lin] in A1, A2.
  unfold symp, symplectic, Alg.ainv. lazy beta iota delta [Alg.lin].
  rewrite (sinv_sinv K Kring). split; assumption.
Qed.
Lemma symp_swap : forall a, symp a -> symp (aswap a).
Proof.
  intros [A da] [A1 A2]. lazy beta iota delta [Alg.lin] in A1, A2.
  unfold symp, symplectic, Alg.aswap. lazy beta iota delta [Alg.lin].
  rewrite sinv_conj_swap, !conj_swap_mul, A1, A2. split; apply conj_swap_id.
Qed.

(* ---- sequences ---- *)
Lemma fold_acc : forall l x,
  fold_left (fun acc a => acomp a acc) l x = acomp (sem_seq l) x.
Proof.
  unfold Model.sem_seq. induction l as [|a l IH]; intro x; simpl.
  - symmetry. apply (acomp_id_l K Kring).
  - rewrite IH. rewrite (IH (acomp a aid)). rewrite (acomp_id_r K Kring).
    rewrite <- (acomp_assoc K Kring). reflexivity.
Qed.
Lemma sem_seq_nil : sem_seq [] = aid.
Proof. reflexivity. Qed.
Lemma sem_seq_cons : forall a l, sem_seq (a :: l) = acomp (sem_seq l) a.
Proof.
  intros. unfold Model.sem_seq at 1. simpl. rewrite fold_acc. rewrite (acomp_id_r K Kring). reflexivity.
Qed.
Lemma sem_seq_app : forall l1 l2, sem_seq (l1 ++ l2) = acomp (sem_seq l2) (sem_seq l1).
Proof.
  induction l1 as [|a l1 IH]; intro l2; simpl.
  - rewrite sem_seq_nil, (acomp_id_r K Kring). reflexivity.
  - rewrite !sem_seq_cons, IH, (acomp_assoc K Kring). reflexivity.
Qed.
Lemma sem_seq_one : forall a, sem_seq [a] = a.
Proof. intro. rewrite sem_seq_cons, sem_seq_nil. apply (acomp_id_l K Kring). Qed.
Lemma symp_sem_seq : forall l, Forall symp l -> symp (sem_seq l).
Proof.
  induction 1 as [|a l Ha Hl IH].
  - apply symp_id.
  - rewrite sem_seq_cons. apply symp_comp; assumption.
Qed.

(* ---- placement on wires ---- *)
Lemma place_comp : forall ws a b, place ws (acomp b a) = acomp (place ws b) (place ws a).
Proof. intros [|[|n] ws] a b; simpl; try reflexivity. apply (aswap_comp K Kring). Qed.
Lemma place_id : forall ws, place ws aid = aid.
Proof. intros [|[|n] ws]; simpl; try reflexivity. apply (aswap_id K Kring). Qed.
Lemma place_symp : forall ws a, symp a -> symp (place ws a).
Proof. intros [|[|n] ws] a H; simpl; try assumption. apply symp_swap; assumption. Qed.
Lemma ainv_place : forall ws a, ainv (place ws a) = place ws (ainv a).
Proof. intros [|[|n] ws] a; simpl; try reflexivity. apply (ainv_aswap K Kring). Qed.
Lemma sem_seq_place : forall ws l, sem_seq (map (place ws) l) = place ws (sem_seq l).
Proof.
  induction l as [|a l IH]; simpl.
  - rewrite sem_seq_nil, place_id. reflexivity.
  - rewrite !sem_seq_cons, IH, place_comp. reflexivity.
Qed.

(* ---- daggered commands ---- *)
Local Notation doc := (doc K).
Local Notation doc_cmd := (doc_cmd K).
Definition gsymp (g : gate K) : Prop := symp (doc g).

Lemma doc_cmd_symp : forall c, gsymp (cg K c) -> symp (doc_cmd c).
Proof.
  intros [g ws [|]] H; unfold Model.doc_cmd; lazy beta iota delta [Model.cg Model.cw Model.cdag];
    apply place_symp; [apply symp_inv|]; exact H.
Qed.
Lemma doc_cmd_flip : forall c, gsymp (cg K c) -> doc_cmd (flip K c) = ainv (doc_cmd c).
Proof.
  intros [g ws [|]] H; unfold Model.doc_cmd, Model.flip; lazy beta iota delta [Model.cg Model.cw Model.cdag negb].
  - rewrite ainv_place, ainv_ainv; [reflexivity | exact H].
  - rewrite ainv_place. reflexivity.
Qed.
Lemma sem_seq_dagger : forall seq, Forall (fun c => gsymp (cg K c)) seq ->
  sem_seq (map doc_cmd (rev (map (flip K) seq))) = ainv (sem_seq (map doc_cmd seq)).
Proof.
  induction 1 as [|c l Hc Hl IH]; cbn [map rev].
  - rewrite sem_seq_nil. symmetry. apply (ainv_id K Kring).
  - rewrite map_app, sem_seq_app, IH. cbn [map]. rewrite sem_seq_one, sem_seq_cons.
    rewrite ainv_comp.
    + rewrite doc_cmd_flip by exact Hc. reflexivity.
    + apply symp_sem_seq. rewrite Forall_map. eapply Forall_impl; [|exact Hl]. intros; apply doc_cmd_symp; assumption.
Qed.

End Seq.
