(* C02 — embedding of the two-mode phase-space action into an n-mode register at arbitrary wire
   positions (k, l), k <> l, k, l < n.

   An n-mode phase-space point is a function r : nat -> K (x_i at index i, p_i at index n+i).
   A Gaussian unitary acting on modes (k, l) as the local affine map a acts on r by transforming the four
   coordinates (r k, r l, r (n+k), r (n+l)) with a and leaving every other coordinate alone.  Sequential
   execution in the register is function composition, so no matrix sums are needed and the statements hold
   for every n.  Equality of register states is pointwise. *)
From Coq Require Import List Bool Arith Ring Setoid Lia.
Import ListNotations.
From SFV Require Import C02.Alg C02.Model C02.Proofs C02.ProofsSeq C02.ProofsGate C02.ProofsDrv.

Section Embed.
Variable K : Type.
Context {Kops : Ops K}.
Hypothesis Kring : ring_theory (@k0 K Kops) (@k1 K Kops) (@kadd K Kops) (@kmul K Kops) (@ksub K Kops) (@kopp K Kops) eq.
Add Ring Kr6 : Kring.
Local Notation rt := (@rt K Kops).
Local Notation s2h := (@s2h K Kops).
Local Notation is2h := (@is2h K Kops).
Hypothesis Hrt : @kadd K Kops (@kmul K Kops rt rt) (@kmul K Kops rt rt) = @k1 K Kops.
Hypothesis Hs2h : @kmul K Kops s2h is2h = @k1 K Kops.

Local Notation aff := (aff K).
Local Notation V4 := (V4 K).
Local Notation acomp := (acomp K).
Local Notation aid := (aid K).
Local Notation aswap := (aswap K).
Local Notation mvec := (mvec K).
Local Notation vadd := (vadd K).
Local Notation sem_seq := (sem_seq K).
Local Notation doc_cmd := (doc_cmd K).

Definition reg := nat -> K.
Definition loc (n k l : nat) (r : reg) : V4 := mkV K (r k) (r l) (r (n + k)) (r (n + l)).
Definition act (a : aff) (v : V4) : V4 := vadd (mvec (lin K a) v) (off K a).
Definition embed (n k l : nat) (a : aff) (r : reg) : reg := fun i =>
  let v := act a (loc n k l r) in
  if Nat.eqb i k then c0 K v else if Nat.eqb i l then c1 K v
  else if Nat.eqb i (n + k) then c2 K v else if Nat.eqb i (n + l) then c3 K v else r i.

Definition targets_ok (n k l : nat) : Prop := k < n /\ l < n /\ k <> l.

(* the gate touches only the coordinates of its two target modes *)
Theorem embed_spectator : forall n k l a r i,
  i <> k -> i <> l -> i <> n + k -> i <> n + l -> embed n k l a r i = r i.
Proof.
  intros n k l a r i H1 H2 H3 H4. unfold embed.
  rewrite (proj2 (Nat.eqb_neq i k) H1), (proj2 (Nat.eqb_neq i l) H2),
          (proj2 (Nat.eqb_neq i (n + k)) H3), (proj2 (Nat.eqb_neq i (n + l)) H4). reflexivity.
Qed.

Lemma V4_eta : forall v : V4, mkV K (c0 K v) (c1 K v) (c2 K v) (c3 K v) = v.
Proof. intros [? ? ? ?]. reflexivity. Qed.

Lemma loc_embed : forall n k l a r, targets_ok n k l -> loc n k l (embed n k l a r) = act a (loc n k l r).
Proof.
  intros n k l a r (Hk & Hl & Hkl). unfold loc at 1, embed.
  rewrite (Nat.eqb_refl k).
  rewrite (proj2 (Nat.eqb_neq l k)) by auto. rewrite (Nat.eqb_refl l).
  rewrite (proj2 (Nat.eqb_neq (n + k) k)) by lia. rewrite (proj2 (Nat.eqb_neq (n + k) l)) by lia. rewrite (Nat.eqb_refl (n + k)).
  rewrite (proj2 (Nat.eqb_neq (n + l) k)) by lia. rewrite (proj2 (Nat.eqb_neq (n + l) l)) by lia.
  rewrite (proj2 (Nat.eqb_neq (n + l) (n + k))) by lia. rewrite (Nat.eqb_refl (n + l)).
  apply V4_eta.
Qed.

Lemma embed_ext : forall n k l a r r' i, (forall j, r j = r' j) -> embed n k l a r i = embed n k l a r' i.
Proof.
  intros n k l a r r' i H. unfold embed, loc. rewrite !H. reflexivity.
Qed.

Lemma vadd_assoc : forall u v w : V4, vadd (vadd u v) w = vadd u (vadd v w).
Proof.
  intros [? ? ? ?] [? ? ? ?] [? ? ? ?].
  lazy beta iota delta [Alg.vadd Alg.c0 Alg.c1 Alg.c2 Alg.c3]. apply V4_eq; ring.
Qed.
Lemma act_comp : forall a b v, act (acomp b a) v = act b (act a v).
Proof.
  intros [A da] [B db] v. unfold act, Alg.acomp. lazy beta iota delta [Alg.lin Alg.off].
  rewrite (mvec_mmul K Kring), (mvec_add K Kring), vadd_assoc. reflexivity.
Qed.
Lemma act_id : forall v, act aid v = v.
Proof.
  intros [? ? ? ?]. unfold act, Alg.aid. lazy beta iota delta [Alg.lin Alg.off].
  rewrite (mvec_id K Kring).
  lazy beta iota delta [Alg.vadd Alg.v0 Alg.c0 Alg.c1 Alg.c2 Alg.c3]. apply V4_eq; ring.
Qed.

(* sequential execution in the register = composition of the local maps *)
Theorem embed_comp : forall n k l a b r i, targets_ok n k l ->
  embed n k l (acomp b a) r i = embed n k l b (embed n k l a r) i.
Proof.
  intros n k l a b r i T. unfold embed at 1 2.
  rewrite (loc_embed n k l a r T), act_comp.
  destruct (Nat.eqb i k) eqn:E1; [reflexivity|].
  destruct (Nat.eqb i l) eqn:E2; [reflexivity|].
  destruct (Nat.eqb i (n + k)) eqn:E3; [reflexivity|].
  destruct (Nat.eqb i (n + l)) eqn:E4; [reflexivity|].
  unfold embed. rewrite E1, E2, E3, E4. reflexivity.
Qed.
Theorem embed_id : forall n k l r i, embed n k l aid r i = r i.
Proof.
  intros n k l r i. unfold embed. rewrite act_id. unfold loc. lazy beta iota delta [Alg.c0 Alg.c1 Alg.c2 Alg.c3].
  destruct (Nat.eqb i k) eqn:E1; [apply Nat.eqb_eq in E1; subst; reflexivity|].
  destruct (Nat.eqb i l) eqn:E2; [apply Nat.eqb_eq in E2; subst; reflexivity|].
  destruct (Nat.eqb i (n + k)) eqn:E3; [apply Nat.eqb_eq in E3; subst; reflexivity|].
  destruct (Nat.eqb i (n + l)) eqn:E4; [apply Nat.eqb_eq in E4; subst; reflexivity|].
  reflexivity.
Qed.

(* exchanging the two local modes = exchanging the two target positions *)
Theorem embed_swap : forall n k l a r i, targets_ok n k l ->
  embed n k l (aswap a) r i = embed n l k a r i.
Proof.
  intros n k l [[[a00 a01 a02 a03] [a10 a11 a12 a13] [a20 a21 a22 a23] [a30 a31 a32 a33]] [d0 d1 d2 d3]] r i (Hk & Hl & Hkl).
  unfold embed, act, loc.
  destruct (Nat.eqb i k) eqn:E1.
  - apply Nat.eqb_eq in E1; subst i. rewrite (proj2 (Nat.eqb_neq k l)) by auto.
    lazy beta iota zeta delta [Alg.aswap Alg.mmul Alg.mvec Alg.vadd Alg.vrow Alg.dot Alg.col0 Alg.col1 Alg.col2 Alg.col3 Alg.swapm
                               Alg.lin Alg.off Alg.r0 Alg.r1 Alg.r2 Alg.r3 Alg.c0 Alg.c1 Alg.c2 Alg.c3]. ring.
  - destruct (Nat.eqb i l) eqn:E2.
    + lazy beta iota zeta delta [Alg.aswap Alg.mmul Alg.mvec Alg.vadd Alg.vrow Alg.dot Alg.col0 Alg.col1 Alg.col2 Alg.col3 Alg.swapm
                               Alg.lin Alg.off Alg.r0 Alg.r1 Alg.r2 Alg.r3 Alg.c0 Alg.c1 Alg.c2 Alg.c3]. ring.
    + destruct (Nat.eqb i (n + k)) eqn:E3.
      * apply Nat.eqb_eq in E3; subst i. rewrite (proj2 (Nat.eqb_neq (n + k) (n + l))) by lia.
        lazy beta iota zeta delta [Alg.aswap Alg.mmul Alg.mvec Alg.vadd Alg.vrow Alg.dot Alg.col0 Alg.col1 Alg.col2 Alg.col3 Alg.swapm
                               Alg.lin Alg.off Alg.r0 Alg.r1 Alg.r2 Alg.r3 Alg.c0 Alg.c1 Alg.c2 Alg.c3]. ring.
      * destruct (Nat.eqb i (n + l)) eqn:E4; [|reflexivity].
        lazy beta iota zeta delta [Alg.aswap Alg.mmul Alg.mvec Alg.vadd Alg.vrow Alg.dot Alg.col0 Alg.col1 Alg.col2 Alg.col3 Alg.swapm
                               Alg.lin Alg.off Alg.r0 Alg.r1 Alg.r2 Alg.r3 Alg.c0 Alg.c1 Alg.c2 Alg.c3]. ring.
Qed.

(* running a command list in the n-mode register, the pair of local modes sitting at positions (k, l) *)
Definition nrun (n k l : nat) (cmds : list (cmd K)) (r : reg) : reg :=
  fold_left (fun r c => embed n k l (doc_cmd c) r) cmds r.

Lemma nrun_ext : forall n k l cmds r r', (forall j, r j = r' j) -> forall i, nrun n k l cmds r i = nrun n k l cmds r' i.
Proof.
  unfold nrun. induction cmds as [|c cmds IH]; intros r r' H i; simpl; [apply H|].
  apply IH. intro j. apply embed_ext. exact H.
Qed.

Lemma nrun_sem_seq : forall n k l cmds r i, targets_ok n k l ->
  nrun n k l cmds r i = embed n k l (sem_seq (map doc_cmd cmds)) r i.
Proof.
  intros n k l cmds r i T. revert r i.
  induction cmds as [|c cmds IH]; intros r i.
  - simpl. rewrite (sem_seq_nil K). symmetry. apply embed_id.
  - cbn [map]. rewrite (sem_seq_cons K Kring), embed_comp by exact T.
    unfold nrun. simpl. apply IH.
Qed.

(* decomposition commutes with embedding: executing the decomposed list in an n-mode register, at any
   two distinct positions, is the embedded documented action of the command *)
Theorem decompose_embedded : forall n k l (c : cmd K) L, targets_ok n k l -> cmd_ok K c ->
  decompose_cmd K c = Some L -> forall r i, nrun n k l L r i = embed n k l (doc_cmd c) r i.
Proof.
  intros n k l c L T Hc HL r i.
  rewrite nrun_sem_seq by exact T.
  destruct (decompose_cmd_sound K Kring Hrt Hs2h c L Hc HL) as [E _]. rewrite E. reflexivity.
Qed.

Theorem compile_embedded : forall n k l fuel tb seq out, targets_ok n k l -> Forall (cmd_ok K) seq ->
  compile K fuel tb seq = Ok K out -> forall r i, nrun n k l out r i = nrun n k l seq r i.
Proof.
  intros n k l fuel tb seq out T Hs H r i.
  rewrite !nrun_sem_seq by exact T.
  destruct (compile_sound K Kring Hrt Hs2h fuel tb seq out Hs H) as [E _]. rewrite E. reflexivity.
Qed.

End Embed.
