(* The documented matrices of the unitary Gaussian gates are symplectic: S Omega S^T = Omega, with the same
   congruence [congr] against which the Gaussian simulator is proved in C01/GaussPhaseSpace.v.  Hence
   V' + i Omega = S (V + i Omega) S^T for rotation, squeezing and beam splitter: the uncertainty relation
   (positivity of V + i Omega) is transported by a congruence.  Any commutative ring. *)
From Coq Require Import Arith Bool List Lia Ring.
Import ListNotations.
From SFV Require Import Base.Num Base.GaussTac Base.PhaseSpace.

Section Sympl.
Variable K : Type.
Variables (k0 k1 : K) (kadd kmul ksub : K -> K -> K) (kopp : K -> K).
Hypothesis Kring : ring_theory k0 k1 kadd kmul ksub kopp (@eq K).
Add Ring Kr : Kring.
Notation "x + y" := (kadd x y). Notation "x * y" := (kmul x y). Notation "x - y" := (ksub x y). Notation "- x" := (kopp x).
Definition NK : Num K := mkNum k0 k1 kadd kmul ksub kopp.

(* the symplectic form in xp order: Omega[(x,a),(p,a)] = 1, Omega[(p,a),(x,a)] = -1 *)
Definition Omega : cov (K := K) := fun q1 q2 a b =>
  if Nat.eqb a b then (match q1, q2 with false, true => k1 | true, false => - k1 | _, _ => k0 end) else k0.

Ltac sopen := lazy beta iota zeta delta [congr colmix rowmix mem orb Omega qsum lsum S1 S_rot S_sq S_bs Bool.eqb NK n0 n1 nadd nmul nsub nopp].

Theorem rot_symplectic c s k q1 q2 a b : c * c = k1 - s * s ->
  congr NK (S_rot NK c s) [k] Omega q1 q2 a b = Omega q1 q2 a b.
Proof.
  intros H. destruct q1, q2; sopen; idx; try ring; ring [H].
Qed.

Theorem sq_symplectic c s sh ch k q1 q2 a b : c * c = k1 - s * s -> ch * ch = k1 + sh * sh ->
  congr NK (S_sq NK c s sh ch) [k] Omega q1 q2 a b = Omega q1 q2 a b.
Proof.
  intros H Hc. destruct q1, q2; sopen; idx; try ring; ring [H Hc].
Qed.

Theorem bs_symplectic er ei sn cs k l q1 q2 a b : k <> l -> er * er = k1 - ei * ei -> cs * cs = k1 - sn * sn ->
  congr NK (S_bs NK er ei sn cs k l) [k; l] Omega q1 q2 a b = Omega q1 q2 a b.
Proof.
  intros Hkl H Hc. assert (Hlk : l <> k) by congruence.
  destruct q1, q2; sopen; idx; try ring; ring [H Hc].
Qed.
End Sympl.
