(* Whole programs on the Gaussian simulator: any sequence of the generated GaussianModes operations (element-wise update methods
   and the whole-array apply_u), on any register size, keeps the register size and keeps "N Hermitian with real diagonal,
   M symmetric"; a sequence of passive operations (rotations, beam splitters, apply_u with orthonormal columns) keeps the
   total mean photon number.  Induction over the program with the per-operation theorems. *)
From Coq Require Import Arith Bool List Lia Ring.
Import ListNotations.
From SFV Require Import Base.Num Base.MatOps Gen.GaussCirc Gen.GaussMat C07.GaussPhysical C07.GaussPassive.

Section Program.
Variable K : Type.
Variables (k0 k1 : K) (kadd kmul ksub : K -> K -> K) (kopp : K -> K).
Hypothesis Kring : ring_theory k0 k1 kadd kmul ksub kopp (@eq K).
Notation NK := (GaussPhysical.NK K k0 k1 kadd kmul ksub kopp).
Notation wf := (GaussPhysical.wf K k0 k1 kadd kmul ksub kopp).
Notation photons := (GaussPhysical.photons K kadd kmul).
Notation sumn := (GaussPhysical.sumn K k0 kadd).

(* one constructor per generated function, carrying the values the harness passes for its primitives *)
Inductive gop :=
| GLoss (q : K) (k : nat)
| GDisplace (r : K) (e : C K) (k : nat)
| GSqueeze (e : C K) (sh ch : K) (k : nat)
| GRotate (e : C K) (k : nat)
| GBeamsplit (e : C K) (sn cs : K) (k l : nat)
| GThermalLoss (T nb q : K) (k : nat)
| GInitThermal (p : K) (k : nat)
| GApplyU (U : mat (K:=K)).

Definition gstep (o : gop) (s : st K) : st K :=
  match o with
  | GLoss q k => loss NK q k s
  | GDisplace r e k => displace NK r e k s
  | GSqueeze e sh ch k => squeeze NK e sh ch k s
  | GRotate e k => phase_shift NK e k s
  | GBeamsplit e sn cs k l => beamsplitter NK e sn cs k l s
  | GThermalLoss T nb q k => thermal_loss NK T nb q k s
  | GInitThermal p k => init_thermal NK p k s
  | GApplyU U => apply_u NK U s
  end.
Definition grun (prog : list gop) (s : st K) : st K := fold_left (fun s o => gstep o s) prog s.

(* the guards of the source (inactive / equal modes raise): indices inside the register, distinct targets *)
Definition in_range (n : nat) (o : gop) : Prop :=
  match o with
  | GLoss _ k | GDisplace _ _ k | GSqueeze _ _ _ k | GRotate _ k | GThermalLoss _ _ _ k | GInitThermal _ k => k < n
  | GBeamsplit _ _ _ k l => k < n /\ l < n /\ k <> l
  | GApplyU _ => True
  end.

Lemma gstep_nlen o s : nlen (gstep o s) = nlen s.
Proof. destruct o; reflexivity. Qed.

Lemma gstep_wf o s : in_range (nlen s) o -> wf s -> wf (gstep o s).
Proof.
  destruct o; simpl; intros R W.
  - apply (loss_wf K k0 k1 kadd kmul ksub kopp Kring); assumption.
  - apply (displace_wf K k0 k1 kadd kmul ksub kopp); assumption.
  - apply (squeeze_wf K k0 k1 kadd kmul ksub kopp Kring); assumption.
  - apply (phase_shift_wf K k0 k1 kadd kmul ksub kopp Kring); assumption.
  - destruct R as (Hk & Hl & Hkl). apply (beamsplitter_wf K k0 k1 kadd kmul ksub kopp Kring); assumption.
  - apply (thermal_loss_wf K k0 k1 kadd kmul ksub kopp Kring); assumption.
  - apply (init_thermal_wf K k0 k1 kadd kmul ksub kopp Kring); assumption.
  - apply (apply_u_wf K k0 k1 kadd kmul ksub kopp Kring); assumption.
Qed.

Theorem grun_nlen prog : forall s, nlen (grun prog s) = nlen s.
Proof. induction prog as [|o prog IH]; intros s; [reflexivity|]. simpl. rewrite IH. apply gstep_nlen. Qed.

Theorem grun_wf prog : forall s, Forall (in_range (nlen s)) prog -> wf s -> wf (grun prog s).
Proof.
  induction prog as [|o prog IH]; intros s F W; [exact W|]. simpl.
  inversion F as [|? ? Ho Hp]; subst. apply IH.
  - rewrite gstep_nlen. exact Hp.
  - apply gstep_wf; assumption.
Qed.

(* passive operations, with the identities their primitive values satisfy *)
Definition passive (n : nat) (o : gop) : Prop :=
  match o with
  | GRotate e k => k < n /\ kadd (kmul (re e) (re e)) (kmul (im e) (im e)) = k1
  | GBeamsplit e sn cs k l => k < n /\ l < n /\ k <> l /\ kmul cs cs = ksub k1 (kmul sn sn) /\ kmul (re e) (re e) = ksub k1 (kmul (im e) (im e))
  | GApplyU U => orthonormal_columns K k0 k1 kadd kmul ksub kopp n U
  | _ => False
  end.

Lemma passive_in_range n o : passive n o -> in_range n o.
Proof. destruct o; simpl; try tauto. Qed.

Lemma gstep_total o s : passive (nlen s) o -> wf s -> sumn (nlen s) (photons (gstep o s)) = sumn (nlen s) (photons s).
Proof.
  destruct o; simpl; intros P W; try contradiction.
  - destruct P as [Hk He]. apply (phase_shift_total K k0 k1 kadd kmul ksub kopp Kring); assumption.
  - destruct P as (Hk & Hl & Hkl & Hc & He). destruct e as [er ei]. simpl in He.
    apply (beamsplitter_total K k0 k1 kadd kmul ksub kopp Kring); assumption.
  - apply (apply_u_photons K k0 k1 kadd kmul ksub kopp Kring). exact P.
Qed.

Theorem grun_passive_total prog : forall s, Forall (passive (nlen s)) prog -> wf s ->
  sumn (nlen s) (photons (grun prog s)) = sumn (nlen s) (photons s).
Proof.
  induction prog as [|o prog IH]; intros s F W; [reflexivity|]. simpl.
  inversion F as [|? ? Ho Hp]; subst.
  rewrite <- (gstep_total o s Ho W). rewrite <- (gstep_nlen o s). apply IH.
  - rewrite gstep_nlen. exact Hp.
  - apply gstep_wf; [apply passive_in_range; exact Ho|exact W].
Qed.
End Program.
