(* GaussianModes.apply_u (the multi-mode passive transformation behind PassiveChannel on the Gaussian backend),
   model regenerated from gaussiancircuit.py on every run (tools/translate_gaussmat.py -> Gen/GaussMat.v):
     mean <- U mean,   N <- conj(U) N U^T,   M <- U M U^T        (sums over all nlen modes)
   Proved over any commutative ring, any register size, any matrix U:
   - C05: if U is the identity outside a set of target modes, every entry of N, M, mean not involving a target is unchanged;
   - C07: "N Hermitian with real diagonal, M symmetric" is preserved (any U);
   - C07: if the columns of U are orthonormal (sum_i conj(U_ik) U_il = delta_kl) the total mean photon number
          sum_i N_ii + sum_i |alpha_i|^2 is conserved. *)
From Coq Require Import Arith Bool List Lia Ring.
Import ListNotations.
From SFV Require Import Base.Num Base.MatOps Gen.GaussMat C07.GaussPhysical.

Section Passive.
Variable K : Type.
Variables (k0 k1 : K) (kadd kmul ksub : K -> K -> K) (kopp : K -> K).
Hypothesis Kring : ring_theory k0 k1 kadd kmul ksub kopp (@eq K).
Add Ring Kr : Kring.
Notation "x + y" := (kadd x y). Notation "x * y" := (kmul x y). Notation "x - y" := (ksub x y). Notation "- x" := (kopp x).
Notation NK := (GaussPhysical.NK K k0 k1 kadd kmul ksub kopp).
Notation hermitian := (GaussPhysical.hermitian K k0 k1 kadd kmul ksub kopp).
Notation symmetric := (GaussPhysical.symmetric K).
Notation wf := (GaussPhysical.wf K k0 k1 kadd kmul ksub kopp).
Notation sumn := (GaussPhysical.sumn K k0 kadd).
Notation photons := (GaussPhysical.photons K kadd kmul).
Notation normsq := (GaussPhysical.normsq K kadd kmul).

Ltac kopen := lazy beta iota delta [GaussPhysical.NK re im Cadd Csub Cmul Copp Cconj Cre Cnat Knat C0 C1 Ci C2 n0 n1 nadd nmul nsub nopp].
Ltac cring := apply Ceq; kopen; try ring.
Notation "x +c y" := (Cadd NK x y) (at level 50, left associativity).
Notation "x *c y" := (Cmul NK x y) (at level 40, left associativity).
Notation cj := (Cconj NK).
Notation csum := (Csum NK).
Notation c0 := (C0 NK).
Notation c1 := (C1 NK).

(* ---------- complex arithmetic facts ---------- *)
Lemma cadd_0_l z : c0 +c z = z. Proof. destruct z; cring. Qed.
Lemma cadd_0_r z : z +c c0 = z. Proof. destruct z; cring. Qed.
Lemma cadd_comm x y : x +c y = y +c x. Proof. cring. Qed.
Lemma cadd_assoc x y z : x +c (y +c z) = x +c y +c z. Proof. cring. Qed.
Lemma cmul_comm x y : x *c y = y *c x. Proof. cring. Qed.
Lemma cmul_assoc x y z : x *c (y *c z) = x *c y *c z. Proof. cring. Qed.
Lemma cmul_add_l x y z : x *c (y +c z) = x *c y +c x *c z. Proof. cring. Qed.
Lemma cmul_add_r x y z : (x +c y) *c z = x *c z +c y *c z. Proof. cring. Qed.
Lemma cmul_0_l z : c0 *c z = c0. Proof. cring. Qed.
Lemma cmul_0_r z : z *c c0 = c0. Proof. cring. Qed.
Lemma cmul_1_l z : c1 *c z = z. Proof. destruct z; cring. Qed.
Lemma cmul_1_r z : z *c c1 = z. Proof. destruct z; cring. Qed.
Lemma cj_add x y : cj (x +c y) = cj x +c cj y. Proof. cring. Qed.
Lemma cj_mul x y : cj (x *c y) = cj x *c cj y. Proof. cring. Qed.
Lemma cj_cj z : cj (cj z) = z. Proof. destruct z; cring. Qed.
Lemma cj_0 : cj c0 = c0. Proof. cring. Qed.
Lemma cj_1 : cj c1 = c1. Proof. cring. Qed.

(* ---------- finite sums ---------- *)
Lemma csum_ext n f g : (forall k, k < n -> f k = g k) -> csum n f = csum n g.
Proof.
  induction n as [|n IH]; intros H; [reflexivity|]. cbn [Csum]. rewrite IH, (H n); [reflexivity|lia|].
  intros k Hk. apply H. lia.
Qed.
Lemma csum_0 n : csum n (fun _ => c0) = c0.
Proof. induction n as [|n IH]; [reflexivity|]. cbn [Csum]. rewrite IH. apply cadd_0_l. Qed.
Lemma csum_add n f g : csum n (fun k => f k +c g k) = csum n f +c csum n g.
Proof. induction n as [|n IH]; cbn [Csum]; [cring|]. rewrite IH. cring. Qed.
Lemma csum_scale_l n c f : csum n (fun k => c *c f k) = c *c csum n f.
Proof. induction n as [|n IH]; cbn [Csum]; [cring|]. rewrite IH. cring. Qed.
Lemma csum_scale_r n c f : csum n (fun k => f k *c c) = csum n f *c c.
Proof. induction n as [|n IH]; cbn [Csum]; [cring|]. rewrite IH. cring. Qed.
Lemma csum_cj n f : cj (csum n f) = csum n (fun k => cj (f k)).
Proof. induction n as [|n IH]; cbn [Csum]; [cring|]. rewrite cj_add, IH. reflexivity. Qed.
Lemma csum_swap n m (f : nat -> nat -> C K) :
  csum n (fun i => csum m (fun j => f i j)) = csum m (fun j => csum n (fun i => f i j)).
Proof.
  induction n as [|n IH]; cbn [Csum].
  - symmetry. apply csum_0.
  - rewrite IH. symmetry. apply csum_add.
Qed.

Definition delta (i k : nat) : C K := if Nat.eqb i k then c1 else c0.
Lemma cj_delta i k : cj (delta i k) = delta i k.
Proof. unfold delta. destruct (Nat.eqb i k); [apply cj_1|apply cj_0]. Qed.
Lemma delta_sym i k : delta i k = delta k i.
Proof. unfold delta. rewrite Nat.eqb_sym. reflexivity. Qed.
Lemma csum_delta_l n i f : i < n -> csum n (fun k => delta i k *c f k) = f i.
Proof.
  induction n as [|n IH]; intros Hi; [lia|]. cbn [Csum]. unfold delta at 2.
  destruct (Nat.eqb_spec i n) as [->|Hne].
  - rewrite (csum_ext n _ (fun _ => c0)).
    + rewrite csum_0, cadd_0_l. apply cmul_1_l.
    + intros k Hk. unfold delta. replace (Nat.eqb n k) with false by (symmetry; apply Nat.eqb_neq; lia). apply cmul_0_l.
  - rewrite IH by lia. rewrite cmul_0_l. apply cadd_0_r.
Qed.
Lemma csum_delta_r n i f : i < n -> csum n (fun k => f k *c delta i k) = f i.
Proof. intros Hi. rewrite (csum_ext n _ (fun k => delta i k *c f k)); [apply csum_delta_l; exact Hi|]. intros; apply cmul_comm. Qed.

(* ---------- the generated function, entry by entry ---------- *)
(* [nlen] is a primitive projection: state the fact in the unfolded form the opened goal uses *)
Ltac ltb_true H :=
  let E := fresh "E" in
  pose proof (proj2 (Nat.ltb_lt _ _) H) as E; lazy delta [nlen] in E; rewrite E; clear E; lazy beta iota delta [andb].
Lemma apply_u_nlen U s : nlen (apply_u NK U s) = nlen s.
Proof. reflexivity. Qed.
Lemma apply_u_mean U s i : i < nlen s -> mean (apply_u NK U s) i = csum (nlen s) (fun k => U i k *c mean s k).
Proof.
  intros Hi. lazy beta iota zeta delta [apply_u assign_mean assign_nmat assign_mmat mean nlen mvec].
  ltb_true Hi. reflexivity.
Qed.
Lemma apply_u_nmat U s i j : i < nlen s -> j < nlen s ->
  nmat (apply_u NK U s) i j = csum (nlen s) (fun l => csum (nlen s) (fun k => cj (U i k) *c nmat s k l) *c U j l).
Proof.
  intros Hi Hj. lazy beta iota zeta delta [apply_u assign_mean assign_nmat assign_mmat nmat nlen mmul mconj mtr].
  ltb_true Hi. ltb_true Hj. reflexivity.
Qed.
Lemma apply_u_mmat U s i j : i < nlen s -> j < nlen s ->
  mmat (apply_u NK U s) i j = csum (nlen s) (fun l => csum (nlen s) (fun k => U i k *c mmat s k l) *c U j l).
Proof.
  intros Hi Hj. lazy beta iota zeta delta [apply_u assign_mean assign_nmat assign_mmat mmat nmat nlen mmul mconj mtr].
  ltb_true Hi. ltb_true Hj. reflexivity.
Qed.

(* ---------- C05: spectators ---------- *)
(* U acts on the target modes only: row i is the unit row for every non-target i (as built by GaussianBackend.passive:
   identity(nlen) with T written into [ix_(modes, modes)]) *)
Definition identity_off (tg : nat -> bool) (n : nat) (U : mat (K:=K)) : Prop :=
  forall i k, i < n -> k < n -> tg i = false -> U i k = delta i k.

Theorem apply_u_spectators tg U s : identity_off tg (nlen s) U ->
  forall i j, i < nlen s -> j < nlen s -> tg i = false -> tg j = false ->
    nmat (apply_u NK U s) i j = nmat s i j /\ mmat (apply_u NK U s) i j = mmat s i j /\ mean (apply_u NK U s) i = mean s i.
Proof.
  intros HU i j Hi Hj Ti Tj. set (n := nlen s) in *. split; [|split].
  - rewrite apply_u_nmat by assumption. fold n.
    rewrite (csum_ext n _ (fun l => nmat s i l *c delta j l)).
    + apply csum_delta_r. exact Hj.
    + intros l Hl. rewrite (HU j l Hj Hl Tj). apply (f_equal (fun z => z *c delta j l)).
      rewrite (csum_ext n _ (fun k => delta i k *c nmat s k l)); [apply (csum_delta_l n i (fun k => nmat s k l)); exact Hi|].
      intros k Hk. rewrite (HU i k Hi Hk Ti), cj_delta. reflexivity.
  - rewrite apply_u_mmat by assumption. fold n.
    rewrite (csum_ext n _ (fun l => mmat s i l *c delta j l)).
    + apply csum_delta_r. exact Hj.
    + intros l Hl. rewrite (HU j l Hj Hl Tj). apply (f_equal (fun z => z *c delta j l)).
      rewrite (csum_ext n _ (fun k => delta i k *c mmat s k l)); [apply (csum_delta_l n i (fun k => mmat s k l)); exact Hi|].
      intros k Hk. rewrite (HU i k Hi Hk Ti). reflexivity.
  - rewrite apply_u_mean by assumption. fold n.
    rewrite (csum_ext n _ (fun k => delta i k *c mean s k)); [apply csum_delta_l; exact Hi|].
    intros k Hk. rewrite (HU i k Hi Hk Ti). reflexivity.
Qed.

(* ---------- C07: Hermitian N with real diagonal, symmetric M ---------- *)

(* double sums as sums of products *)
Lemma dsum_form n (A B : nat -> C K) (X : nat -> nat -> C K) :
  csum n (fun l => csum n (fun k => A k *c X k l) *c B l) = csum n (fun l => csum n (fun k => A k *c X k l *c B l)).
Proof. apply csum_ext. intros l _. symmetry. apply csum_scale_r. Qed.

(* real sums, to speak about imaginary parts *)
Lemma sumn_ext n f g : (forall i, i < n -> f i = g i) -> sumn n f = sumn n g.
Proof. apply GaussPhysical.sumn_ext. Qed.
Lemma sumn_add n f g : sumn n (fun k => f k + g k) = sumn n f + sumn n g.
Proof. induction n as [|n IH]; cbn [GaussPhysical.sumn]; [ring|]. rewrite IH. ring. Qed.
Lemma sumn_0 n : sumn n (fun _ => k0) = k0.
Proof. induction n as [|n IH]; cbn [GaussPhysical.sumn]; [reflexivity|]. rewrite IH. ring. Qed.
Lemma im_csum n f : im (csum n f) = sumn n (fun k => im (f k)).
Proof. induction n as [|n IH]; [reflexivity|]. cbn [Csum GaussPhysical.sumn]. rewrite <- IH. reflexivity. Qed.
Lemma re_csum n f : re (csum n f) = sumn n (fun k => re (f k)).
Proof. induction n as [|n IH]; [reflexivity|]. cbn [Csum GaussPhysical.sumn]. rewrite <- IH. reflexivity. Qed.

(* an antisymmetric family with zero diagonal sums to zero (no division by 2 needed) *)
Lemma antisym_sum n (f : nat -> nat -> K) :
  (forall k, k < n -> f k k = k0) -> (forall k l, k < n -> l < n -> f k l + f l k = k0) ->
  sumn n (fun l => sumn n (fun k => f k l)) = k0.
Proof.
  induction n as [|n IH]; intros Hd Ha; [reflexivity|]. cbn [GaussPhysical.sumn].
  rewrite sumn_add, IH; [|intros; apply Hd; lia|intros; apply Ha; lia].
  transitivity (sumn n (fun l => f n l + f l n) + f n n).
  - rewrite sumn_add. ring.
  - rewrite (sumn_ext n _ (fun _ => k0)); [rewrite sumn_0, Hd by lia; ring|]. intros l Hl. apply Ha; lia.
Qed.

Theorem apply_u_wf U s : wf s -> wf (apply_u NK U s).
Proof.
  intros [[Hh Hd] Hs]. set (n := nlen s) in *.
  assert (Herm : forall i j, i < n -> j < n -> nmat (apply_u NK U s) i j = cj (nmat (apply_u NK U s) j i)).
  { intros i j Hi Hj. rewrite !apply_u_nmat by assumption. fold n.
    rewrite !dsum_form. rewrite csum_cj.
    rewrite (csum_ext n (fun k => cj (csum n (fun k0 => cj (U j k0) *c nmat s k0 k *c U i k)))
                        (fun l => csum n (fun k => cj (U i l) *c nmat s l k *c U j k))).
    - apply csum_swap.
    - intros l Hl. rewrite csum_cj. apply csum_ext. intros k Hk.
      rewrite !cj_mul, cj_cj, (Hh l k Hl Hk). cring. }
  split; [split|].
  - exact Herm.
  - intros i Hi. change (nlen (apply_u NK U s)) with n in Hi.
    rewrite apply_u_nmat by assumption. fold n. rewrite dsum_form, im_csum.
    rewrite (sumn_ext n _ (fun l => sumn n (fun k => im (cj (U i k) *c nmat s k l *c U i l)))) by (intros; apply im_csum).
    apply antisym_sum.
    + intros k Hk. pose proof (Hd k Hk) as D. destruct (nmat s k k) as [a b]. cbn [im] in D. subst b. kopen. ring.
    + intros k l Hk Hl. pose proof (Hh k l Hk Hl) as E.
      destruct (nmat s k l) as [a b], (nmat s l k) as [c d]. apply (f_equal (fun z => (re z, im z))) in E. lazy beta iota delta [GaussPhysical.NK re im Cconj nopp] in E.
      injection E as -> ->. kopen. ring.
  - intros i j Hi Hj. change (nlen (apply_u NK U s)) with n in Hi, Hj.
    rewrite !apply_u_mmat by assumption. fold n. rewrite !dsum_form.
    rewrite (csum_ext n (fun l => csum n (fun k => U j k *c mmat s k l *c U i l))
                        (fun l => csum n (fun k => U i l *c mmat s l k *c U j k))).
    + apply csum_swap.
    + intros l Hl. apply csum_ext. intros k Hk. rewrite (Hs k l Hk Hl). cring.
Qed.

(* ---------- C07: total mean photon number under a unitary ---------- *)
Definition orthonormal_columns (n : nat) (U : mat (K:=K)) : Prop :=
  forall k l, k < n -> l < n -> csum n (fun i => cj (U i k) *c U i l) = delta k l.

Theorem apply_u_trace U s : orthonormal_columns (nlen s) U ->
  csum (nlen s) (fun i => nmat (apply_u NK U s) i i) = csum (nlen s) (fun i => nmat s i i).
Proof.
  intros HU. set (n := nlen s) in *.
  rewrite (csum_ext n _ (fun i => csum n (fun l => csum n (fun k => nmat s k l *c (cj (U i k) *c U i l))))).
  2:{ intros i Hi. rewrite apply_u_nmat by assumption. fold n. rewrite dsum_form. apply csum_ext. intros l _. apply csum_ext. intros k _. cring. }
  rewrite csum_swap.
  rewrite (csum_ext n _ (fun l => csum n (fun k => nmat s k l *c delta k l))).
  2:{ intros l Hl. rewrite csum_swap. apply csum_ext. intros k Hk. rewrite csum_scale_l, (HU k l Hk Hl). reflexivity. }
  apply csum_ext. intros l Hl.
  rewrite (csum_ext n _ (fun k => nmat s k l *c delta l k)) by (intros; rewrite delta_sym; reflexivity).
  apply (csum_delta_r n l (fun k => nmat s k l)). exact Hl.
Qed.

Theorem apply_u_amplitude U s : orthonormal_columns (nlen s) U ->
  csum (nlen s) (fun i => cj (mean (apply_u NK U s) i) *c mean (apply_u NK U s) i) = csum (nlen s) (fun i => cj (mean s i) *c mean s i).
Proof.
  intros HU. set (n := nlen s) in *.
  rewrite (csum_ext n _ (fun i => csum n (fun l => csum n (fun k => (cj (mean s k) *c mean s l) *c (cj (U i k) *c U i l))))).
  2:{ intros i Hi. rewrite apply_u_mean by assumption. fold n. rewrite csum_cj, <- csum_scale_l.
      apply csum_ext. intros l _. rewrite <- csum_scale_r. apply csum_ext. intros k _. rewrite cj_mul. cring. }
  rewrite csum_swap.
  rewrite (csum_ext n _ (fun l => csum n (fun k => (cj (mean s k) *c mean s l) *c delta k l))).
  2:{ intros l Hl. rewrite csum_swap. apply csum_ext. intros k Hk. rewrite csum_scale_l, (HU k l Hk Hl). reflexivity. }
  apply csum_ext. intros l Hl.
  rewrite (csum_ext n _ (fun k => (cj (mean s k) *c mean s l) *c delta l k)) by (intros; rewrite delta_sym; reflexivity).
  apply (csum_delta_r n l (fun k => cj (mean s k) *c mean s l)). exact Hl.
Qed.

(* total mean photon number sum_i (Re N_ii + |alpha_i|^2) *)

Theorem apply_u_photons U s : orthonormal_columns (nlen s) U ->
  sumn (nlen s) (photons (apply_u NK U s)) = sumn (nlen s) (photons s).
Proof.
  intros HU. unfold GaussPhysical.photons. rewrite !sumn_add. f_equal.
  - rewrite <- !re_csum. f_equal. apply apply_u_trace. exact HU.
  - pose proof (f_equal re (apply_u_amplitude U s HU)) as E. rewrite !re_csum in E.
    rewrite (sumn_ext _ _ (fun i => re (cj (mean (apply_u NK U s) i) *c mean (apply_u NK U s) i))).
    + rewrite E. apply sumn_ext. intros i _. unfold GaussPhysical.normsq. destruct (mean s i). kopen. ring.
    + intros i _. unfold GaussPhysical.normsq. destruct (mean (apply_u NK U s) i). kopen. ring.
Qed.
End Passive.
