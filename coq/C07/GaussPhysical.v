(* C07 for the Gaussian simulator (model regenerated from gaussiancircuit.py on every run):
   - every update method preserves "N Hermitian with real diagonal, M symmetric";
   - rotation and beam splitter conserve N_kk (+ N_ll) and |alpha_k|^2 (+ |alpha_l|^2): total mean photon number;
   - loss scales N_kk by T and alpha_k by sqrt(T).
   Scalars: any commutative ring; cos/sin/cosh/sinh/exp(i.)/sqrt enter as named values with exactly the
   identities they satisfy as hypotheses. *)
From Coq Require Import Arith Bool List Lia Ring.
Import ListNotations.
From SFV Require Import Base.Num Gen.GaussCirc Base.GaussTac.

Section Phys.
Variable K : Type.
Variables (k0 k1 : K) (kadd kmul ksub : K -> K -> K) (kopp : K -> K).
Hypothesis Kring : ring_theory k0 k1 kadd kmul ksub kopp (@eq K).
Add Ring Kr : Kring.
Notation "x + y" := (kadd x y). Notation "x * y" := (kmul x y). Notation "x - y" := (ksub x y). Notation "- x" := (kopp x).
Definition NK : Num K := mkNum k0 k1 kadd kmul ksub kopp.

Definition hermitian (s : st K) : Prop :=
  (forall i j, i < nlen s -> j < nlen s -> nmat s i j = Cconj NK (nmat s j i)) /\
  (forall i, i < nlen s -> im (nmat s i i) = k0).
Definition symmetric (s : st K) : Prop :=
  forall i j, i < nlen s -> j < nlen s -> mmat s i j = mmat s j i.
Definition wf (s : st K) : Prop := hermitian s /\ symmetric s.

Ltac kopen := lazy beta iota delta [NK re im Cadd Csub Cmul Copp Cconj Cre Cnat Knat C0 C1 Ci C2 n0 n1 nadd nmul nsub nopp].
Ltac cring := apply Ceq; kopen; try ring.

Lemma conj_conj (z : C K) : Cconj NK (Cconj NK z) = z.
Proof. cring. Qed.

(* ---------------- Hermiticity / symmetry preservation ---------------- *)

(* facts about the diagonal entry of the target mode, normalised to the unfolded-projection form
   that [open_gen] leaves in the goal *)
Ltac diag_fact Hd k Hk name :=
  pose proof (Hd k Hk) as name; lazy beta iota delta [re im nmat mmat mean nlen] in name.

Ltac herm_goal Hh Hkk :=
  first [ apply Hh; assumption
        | apply Ceq; kopen; ring
        | apply Ceq; kopen; rewrite ?Hkk; ring ].

Ltac wf_proof Hk Hh Hd Hs Hkk k :=
  split; [split|];
  [ intros i j Hi Hj; open_gen; idx; herm_goal Hh Hkk
  | intros i Hi; open_gen; idx; first [ apply Hd; assumption | kopen; rewrite ?Hkk; ring ]
  | intros i j Hi Hj; open_gen; idx; first [ reflexivity | apply Hs; assumption | apply Ceq; kopen; ring ] ].

Theorem loss_wf q k s : k < nlen s -> wf s -> wf (loss NK q k s).
Proof. intros Hk [[Hh Hd] Hs]. diag_fact Hd k Hk Hkk. wf_proof Hk Hh Hd Hs Hkk k. Qed.

Theorem displace_wf r e k s : wf s -> wf (displace NK r e k s).
Proof. intros H; exact H. Qed.

Theorem phase_shift_wf e k s : k < nlen s -> wf s -> wf (phase_shift NK e k s).
Proof. intros Hk [[Hh Hd] Hs]. diag_fact Hd k Hk Hkk. wf_proof Hk Hh Hd Hs Hkk k. Qed.

Theorem squeeze_wf e sh ch k s : k < nlen s -> wf s -> wf (squeeze NK e sh ch k s).
Proof. intros Hk [[Hh Hd] Hs]. diag_fact Hd k Hk Hkk. wf_proof Hk Hh Hd Hs Hkk k. Qed.

Theorem init_thermal_wf p k s : k < nlen s -> wf s -> wf (init_thermal NK p k s).
Proof. intros Hk [[Hh Hd] Hs]. diag_fact Hd k Hk Hkk. wf_proof Hk Hh Hd Hs Hkk k. Qed.

Theorem thermal_loss_wf T nb q k s : k < nlen s -> wf s -> wf (thermal_loss NK T nb q k s).
Proof. intros Hk [[Hh Hd] Hs]. diag_fact Hd k Hk Hkk. wf_proof Hk Hh Hd Hs Hkk k. Qed.

Ltac norm_in H := lazy beta iota delta [NK re im Cconj nopp nmat mmat mean nlen] in H.

Theorem beamsplitter_wf e sn cs k l s : k < nlen s -> l < nlen s -> k <> l -> wf s -> wf (beamsplitter NK e sn cs k l s).
Proof.
  intros Hk Hl Hkl [[Hh Hd] Hs].
  pose proof (Hd k Hk) as Hkk; norm_in Hkk.
  pose proof (Hd l Hl) as Hll; norm_in Hll.
  pose proof (f_equal re (Hh k l Hk Hl)) as Hre; norm_in Hre.
  pose proof (f_equal im (Hh k l Hk Hl)) as Him; norm_in Him.
  pose proof (f_equal re (Hs k l Hk Hl)) as Hmre; norm_in Hmre.
  pose proof (f_equal im (Hs k l Hk Hl)) as Hmim; norm_in Hmim.
  split; [split|].
  - intros i j Hi Hj; open_gen; idx;
      first [ apply Hh; assumption | apply Ceq; kopen; ring | apply Ceq; kopen; rewrite ?Hkk, ?Hll, ?Hre, ?Him; ring ].
  - intros i Hi; open_gen; idx;
      first [ apply Hd; assumption | kopen; rewrite ?Hkk, ?Hll, ?Hre, ?Him; ring ].
  - intros i j Hi Hj; open_gen; idx;
      first [ reflexivity | apply Hs; assumption | apply Ceq; kopen; ring | apply Ceq; kopen; rewrite ?Hmre, ?Hmim; ring ].
Qed.

(* ---------------- conservation laws ---------------- *)
Definition normsq (z : C K) : K := re z * re z + im z * im z.
(* mean photon number of mode i in the (N, alpha) representation: N_ii + |alpha_i|^2 *)
Definition photons (s : st K) (i : nat) : K := re (nmat s i i) + normsq (mean s i).

Fixpoint sumn (n : nat) (f : nat -> K) : K := match n with 0 => k0 | S m => sumn m f + f m end.

Lemma sumn_ext n f g : (forall i, i < n -> f i = g i) -> sumn n f = sumn n g.
Proof. induction n as [|n IH]; simpl; intros H; [reflexivity|]. rewrite IH, (H n); auto. Qed.

Lemma sumn_upd n f k v : k < n ->
  sumn n (fun i => if Nat.eqb i k then v else f i) + f k = sumn n f + v.
Proof.
  induction n as [|n IH]; intros Hk; [lia|]. simpl.
  destruct (Nat.eqb_spec n k) as [->|Hne].
  - rewrite (sumn_ext k (fun i => if Nat.eqb i k then v else f i) f).
    + ring.
    + intros i Hi. destruct (Nat.eqb_spec i k); [lia|reflexivity].
  - assert (Hk' : k < n) by lia. specialize (IH Hk').
    transitivity ((sumn n (fun i => if Nat.eqb i k then v else f i) + f k) + f n); [ring|]. rewrite IH. ring.
Qed.

(* two functions that differ only at k and l, where the two-point sum is the same, have the same total *)
Lemma sumn_two n f g k l : k < n -> l < n -> k <> l ->
  (forall i, i <> k -> i <> l -> f i = g i) -> f k + f l = g k + g l -> sumn n f = sumn n g.
Proof.
  intros Hk Hl Hkl Hoff Hsum.
  set (f1 := fun i => if Nat.eqb i k then k0 else f i).
  set (f2 := fun i => if Nat.eqb i l then k0 else f1 i).
  set (g1 := fun i => if Nat.eqb i k then k0 else g i).
  set (g2 := fun i => if Nat.eqb i l then k0 else g1 i).
  assert (E : sumn n f2 = sumn n g2).
  { apply sumn_ext; intros i _. unfold f2, g2, f1, g1.
    destruct (Nat.eqb_spec i l); [reflexivity|]. destruct (Nat.eqb_spec i k); [reflexivity|]. apply Hoff; assumption. }
  pose proof (sumn_upd n f k k0 Hk) as A1. fold f1 in A1.
  pose proof (sumn_upd n f1 l k0 Hl) as A2. fold f2 in A2.
  pose proof (sumn_upd n g k k0 Hk) as B1. fold g1 in B1.
  pose proof (sumn_upd n g1 l k0 Hl) as B2. fold g2 in B2.
  assert (F1 : f1 l = f l) by (unfold f1; destruct (Nat.eqb_spec l k); [congruence|reflexivity]).
  assert (G1 : g1 l = g l) by (unfold g1; destruct (Nat.eqb_spec l k); [congruence|reflexivity]).
  rewrite F1 in A2. rewrite G1 in B2.
  (* sumn f = sumn f2 + f k + f l, same for g *)
  assert (Hf : sumn n f = sumn n f2 + (f k + f l)).
  { transitivity ((sumn n f + k0) + k0); [ring|]. rewrite <- A1.
    transitivity ((sumn n f1 + k0) + f k); [ring|]. rewrite <- A2. ring. }
  assert (Hg : sumn n g = sumn n g2 + (g k + g l)).
  { transitivity ((sumn n g + k0) + k0); [ring|]. rewrite <- B1.
    transitivity ((sumn n g1 + k0) + g k); [ring|]. rewrite <- B2. ring. }
  rewrite Hf, Hg, E, Hsum. reflexivity.
Qed.

Lemma sumn_one n f g k : k < n -> (forall i, i <> k -> f i = g i) -> f k = g k -> sumn n f = sumn n g.
Proof. intros Hk Hoff Hkk. apply sumn_ext. intros i _. destruct (Nat.eqb_spec i k); [subst; assumption | apply Hoff; assumption]. Qed.

Ltac pnorm := lazy beta iota delta [photons normsq NK re im Cadd Csub Cmul Copp Cconj Cre Cnat Knat n0 n1 nadd nmul nsub nopp].

(* rotation: each mode's photon number is unchanged, hence the total *)
Theorem phase_shift_photons e k s i : k < nlen s -> i < nlen s -> wf s ->
  re e * re e + im e * im e = k1 -> photons (phase_shift NK e k s) i = photons s i.
Proof.
  intros Hk Hi [[Hh Hd] Hs] Hph.
  pose proof (Hd k Hk) as Hkk; norm_in Hkk. norm_in Hph.
  unfold photons. open_gen. idx; pnorm; [|reflexivity].
  match goal with |- ?L = ?R => transitivity (R + normsq (mean s k) * (re e * re e + im e * im e - k1)) end;
    [pnorm; ring | norm_in Hph; pnorm; rewrite Hph; ring].
Qed.

Theorem phase_shift_total e k s : k < nlen s -> wf s -> re e * re e + im e * im e = k1 ->
  sumn (nlen s) (photons (phase_shift NK e k s)) = sumn (nlen s) (photons s).
Proof. intros Hk Hw Hph. apply sumn_ext. intros i Hi. apply phase_shift_photons; assumption. Qed.

(* beam splitter: the two targets exchange photons, the pair's total is conserved *)
Theorem beamsplitter_photons_pair er ei sn cs k l s :
  k < nlen s -> l < nlen s -> k <> l -> wf s ->
  cs * cs = k1 - sn * sn -> er * er = k1 - ei * ei ->
  photons (beamsplitter NK (mkC er ei) sn cs k l s) k + photons (beamsplitter NK (mkC er ei) sn cs k l s) l
  = photons s k + photons s l.
Proof.
  intros Hk Hl Hkl [[Hh Hd] Hs] Hcs Hph.
  pose proof (Hd k Hk) as Hkk; norm_in Hkk.
  pose proof (Hd l Hl) as Hll; norm_in Hll.
  pose proof (f_equal re (Hh k l Hk Hl)) as Hre; norm_in Hre.
  pose proof (f_equal im (Hh k l Hk Hl)) as Him; norm_in Him.
  unfold photons. open_gen. idx. pnorm. rewrite ?Hre, ?Him.
  ring [Hcs Hph].
Qed.

Theorem beamsplitter_photons_other er ei sn cs k l s i : i <> k -> i <> l ->
  photons (beamsplitter NK (mkC er ei) sn cs k l s) i = photons s i.
Proof. intros Hik Hil. unfold photons. open_gen. idx. reflexivity. Qed.

Theorem beamsplitter_total er ei sn cs k l s :
  k < nlen s -> l < nlen s -> k <> l -> wf s ->
  cs * cs = k1 - sn * sn -> er * er = k1 - ei * ei ->
  sumn (nlen s) (photons (beamsplitter NK (mkC er ei) sn cs k l s)) = sumn (nlen s) (photons s).
Proof.
  intros Hk Hl Hkl Hw Hcs Hph. apply (sumn_two (nlen s) _ _ k l); try assumption.
  - intros i Hik Hil. apply beamsplitter_photons_other; assumption.
  - apply beamsplitter_photons_pair; assumption.
Qed.

(* loss: N_kk -> T N_kk, alpha_k -> sqrt(T) alpha_k, so the mode's photon number is multiplied by T *)
Theorem loss_photons q T k s : k < nlen s -> wf s -> q * q = T ->
  photons (loss NK q k s) k = T * photons s k.
Proof.
  intros Hk [[Hh Hd] Hs] HT. pose proof (Hd k Hk) as Hkk; norm_in Hkk.
  unfold photons. open_gen. idx. pnorm. rewrite ?Hkk. subst T. ring.
Qed.

Theorem loss_photons_other q k s i : i <> k -> photons (loss NK q k s) i = photons s i.
Proof. intros Hik. unfold photons. open_gen. idx. reflexivity. Qed.
End Phys.
