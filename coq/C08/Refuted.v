(* C08 — statements falsified by the behaviour of /repo BEFORE the fixes 23cb098 / 6125c3c (modelled by the
   explicitly named *_old definitions of Model.v), with concrete witnesses.  Nothing here is about current code. *)
From Coq Require Import List ZArith Bool Arith.
Import ListNotations.
From SFV Require Import C08.Model C08.Proofs C08.ProofsPS C08.ProofsFock C08.ProofsMain.
Open Scope nat_scope.

(* OLD GaussianBackend.state() (before /repo 23cb098) after deleting a mode that is not the last one:
   labels q[1], q[2] but the data of slots 0 and 1 *)
Definition gauss_witness : list op := [Disp 0 1%Z; Disp 1 2%Z; Disp 2 3%Z; Del [0]].

Lemma gauss_state_old_refuted :
  exists n h, gauss_state_old (snd (gauss_run n h)) <> view (spec_run n h)
              /\ map fst (gauss_state_old (snd (gauss_run n h))) = map fst (view (spec_run n h)).
Proof. exists 3, gauss_witness. split; [vm_compute; discriminate | vm_compute; reflexivity]. Qed.

(* OLD BosonicModes.add_mode (before /repo 6125c3c) for two modes: one `active` entry *)
Lemma bos_agree_old_refuted :
  exists n h, ps_modes (snd (bos_run_old n h)) <> slives (spec_run n h)
              /\ prog_register (fst (bos_run_old n h)) = slives (spec_run n h).
Proof. exists 1, [New 2]. split; [vm_compute; discriminate | vm_compute; reflexivity]. Qed.

(* ... and the last new index was then rejected by the simulator although the register holds it *)
Lemma bos_accept_old_refuted :
  exists n h o s', sstep (spec_run n h) o = Some s' /\ snd (pstep ps bos_step_old (bos_run_old n h) o) = Err IndexError.
Proof. exists 1, [New 2], (Disp 2 1%Z), [Some 0%Z; Some 0%Z; Some 1%Z]. split; vm_compute; reflexivity. Qed.
