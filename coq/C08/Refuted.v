(* C08 — statements the faithful model falsifies (each is a recorded finding, see
   known_findings.d/C08.json), with concrete witnesses. *)
From Coq Require Import List ZArith Bool Arith.
Import ListNotations.
From SFV Require Import C08.Model C08.Proofs C08.ProofsPS C08.ProofsFock C08.ProofsMain.
Open Scope nat_scope.

(* GaussianBackend.state() after deleting a mode that is not the last one: labels q[1], q[2] but
   the data of slots 0 and 1 *)
Definition gauss_witness : list op := [Disp 0 1%Z; Disp 1 2%Z; Disp 2 3%Z; Del [0]].

Lemma gauss_state_refuted :
  exists n h, gauss_state (snd (gauss_run n h)) <> view (spec_run n h)
              /\ map fst (gauss_state (snd (gauss_run n h))) = map fst (view (spec_run n h)).
Proof. exists 3, gauss_witness. split; [vm_compute; discriminate | vm_compute; reflexivity]. Qed.

(* BosonicModes.add_mode for two modes: one `active` entry *)
Lemma bos_agree_refuted :
  exists n h, ps_modes (snd (bos_run n h)) <> slives (spec_run n h)
              /\ prog_register (fst (bos_run n h)) = slives (spec_run n h).
Proof. exists 1, [New 2]. split; [vm_compute; discriminate | vm_compute; reflexivity]. Qed.

(* ... and the last new index is then rejected by the simulator although the register holds it *)
Lemma bos_accept_refuted :
  exists n h o s', sstep (spec_run n h) o = Some s' /\ snd (pstep ps bos_step (bos_run n h) o) = Err IndexError.
Proof. exists 1, [New 2], (Disp 2 1%Z), [Some 0%Z; Some 0%Z; Some 1%Z]. split; vm_compute; reflexivity. Qed.
