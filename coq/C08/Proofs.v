(* C08 — lemmas: every concrete bookkeeping state is a FUNCTION of the specification state
   (P for the Program register, F for the Fock backend, G for the phase-space backends) and every
   accepted operation commutes with these abstraction functions.  Histories then follow by
   induction. *)
From Coq Require Import List ZArith Bool Arith Lia.
Import ListNotations.
From SFV Require Import C08.Model.
Open Scope nat_scope.

(* ------------------------------------------------------------------ generic list facts *)
Lemma upd_length {A} (f : A -> A) : forall l i, length (upd i f l) = length l.
Proof. induction l as [|x l IH]; intros [|i]; simpl; auto. Qed.

Lemma nth_error_upd_same {A} (f : A -> A) : forall l i x, nth_error l i = Some x -> nth_error (upd i f l) i = Some (f x).
Proof. induction l as [|y l IH]; intros [|i] x H; simpl in *; try discriminate; [congruence | auto]. Qed.

Lemma nth_error_upd_other {A} (f : A -> A) : forall l i j, i <> j -> nth_error (upd i f l) j = nth_error l j.
Proof. induction l as [|y l IH]; intros [|i] [|j] H; simpl; auto; try congruence; try (apply IH; lia). Qed.

Lemma map_upd {A B} (g : A -> B) (f : A -> A) (f' : B -> B) :
  (forall x, g (f x) = f' (g x)) -> forall l i, map g (upd i f l) = upd i f' (map g l).
Proof. intros H; induction l as [|x l IH]; intros [|i]; simpl; auto; [rewrite H | rewrite IH]; reflexivity. Qed.

Lemma map_repeat {A B} (g : A -> B) x n : map g (repeat x n) = repeat (g x) n.
Proof. induction n; simpl; congruence. Qed.

Lemma mem_cons x a l : mem x (a :: l) = (x =? a) || mem x l.
Proof. reflexivity. Qed.

Lemma mem_In x l : mem x l = true <-> In x l.
Proof.
  unfold mem; rewrite existsb_exists; split.
  - intros [y [Hy E]]. apply Nat.eqb_eq in E; subst; auto.
  - intros H; exists x; split; auto. apply Nat.eqb_refl.
Qed.

Lemma nodupb_NoDup l : nodupb l = true -> NoDup l.
Proof.
  induction l as [|x l IH]; simpl; intros H; constructor.
  - apply andb_prop in H as [H _]. intros Hin. apply mem_In in Hin. rewrite Hin in H; discriminate.
  - apply IH. apply andb_prop in H as [_ H]; exact H.
Qed.

Lemma fold_left_map_commute {A B} (g : A -> B) (fa : A -> nat -> A) (fb : B -> nat -> B) :
  (forall a i, g (fa a i) = fb (g a) i) -> forall l a, g (fold_left fa l a) = fold_left fb l (g a).
Proof. intros H; induction l as [|i l IH]; intros a; simpl; auto. rewrite IH, H; reflexivity. Qed.

(* ------------------------------------------------------------------ specification facts *)
Lemma slive_lt s i : slive s i = true -> i < length s.
Proof. unfold slive; intros H. apply nth_error_Some. destruct (nth_error s i); [discriminate | discriminate]. Qed.

Lemma slive_cons_S x s i : slive (x :: s) (S i) = slive s i.
Proof. reflexivity. Qed.

Lemma sget_cons_S x s i : sget (x :: s) (S i) = sget s i.
Proof. reflexivity. Qed.

Lemma slive_sset s i v j : slive s i = true -> slive (sset i v s) j = slive s j.
Proof.
  intros H. destruct (Nat.eq_dec i j) as [<-|Hne].
  - rewrite H. unfold slive, sset in *. destruct (nth_error s i) as [x|] eqn:E; [|discriminate].
    rewrite (nth_error_upd_same _ _ _ _ E); reflexivity.
  - unfold slive, sset. rewrite nth_error_upd_other; auto.
Qed.

Lemma slive_skill s : forall i j, i <> j -> slive (skill i s) j = slive s j.
Proof. intros i j H; unfold slive, skill. rewrite nth_error_upd_other; auto. Qed.

Lemma sget_sset_other s i v j : i <> j -> sget (sset i v s) j = sget s j.
Proof. intros H; unfold sget, sset. rewrite nth_error_upd_other; auto. Qed.

Lemma sel_ok_parts s l : sel_ok s l = true -> l <> [] /\ forallb (slive s) l = true /\ nodupb l = true.
Proof.
  unfold sel_ok; intros H. apply andb_prop in H as [H H3]. apply andb_prop in H as [H1 H2].
  repeat split; auto. intros ->; discriminate.
Qed.

(* --- an index, once assigned, stays assigned, and a dead index stays dead *)
Definition grows (s s' : sstate) : Prop :=
  length s <= length s' /\ forall i, i < length s -> slive s i = false -> slive s' i = false.

Lemma grows_refl s : grows s s.
Proof. split; auto. Qed.

Lemma grows_trans a b c : grows a b -> grows b c -> grows a c.
Proof. intros [L1 D1] [L2 D2]; split; [lia|]. intros i Hi Hd. apply D2; [lia | apply D1; auto]. Qed.

Lemma grows_sset s i v : slive s i = true -> grows s (sset i v s).
Proof.
  intros H; split; [unfold sset; rewrite upd_length; auto|]. intros j _ Hd. rewrite slive_sset; auto.
Qed.

Lemma grows_skill s i : grows s (skill i s).
Proof.
  split; [unfold skill; rewrite upd_length; auto|]. intros j Hj Hd.
  destruct (Nat.eq_dec i j) as [->|Hne]; [|rewrite slive_skill; auto].
  unfold slive, skill. destruct (nth_error s j) eqn:E.
  - rewrite (nth_error_upd_same _ _ _ _ E); reflexivity.
  - apply nth_error_None in E; lia.
Qed.

Lemma grows_fold_skill l : forall s, grows s (fold_left (fun s i => skill i s) l s).
Proof. induction l as [|i l IH]; intros s; simpl; [apply grows_refl|]. eapply grows_trans; [apply grows_skill | apply IH]. Qed.

Lemma grows_fold_sset0 l : forall s, forallb (slive s) l = true -> grows s (fold_left (fun s i => sset i 0%Z s) l s).
Proof.
  induction l as [|i l IH]; intros s H; simpl; [apply grows_refl|].
  simpl in H. apply andb_prop in H as [Hi Hl].
  eapply grows_trans; [apply grows_sset; exact Hi | apply IH].
  rewrite forallb_forall in *. intros x Hx. rewrite slive_sset; auto.
Qed.

Lemma grows_app s t : grows s (s ++ t).
Proof.
  split; [rewrite app_length; lia|]. intros i Hi Hd. unfold slive in *. rewrite nth_error_app1; auto.
Qed.

Lemma sstep_grows s o s' : sstep s o = Some s' -> grows s s'.
Proof.
  destruct o as [n|l|i k|i j|l|[k|]]; simpl; intros H.
  - destruct (n =? 0); inversion H; subst. apply grows_app.
  - destruct (sel_ok s l); inversion H; subst. apply grows_fold_skill.
  - destruct (slive s i) eqn:E; inversion H; subst. apply grows_sset; auto.
  - destruct (sel_ok s [i; j]) eqn:E; inversion H; subst.
    apply sel_ok_parts in E as [_ [E _]]. simpl in E. apply andb_prop in E as [Ei E]. apply andb_prop in E as [Ej _].
    eapply grows_trans; [apply grows_sset; exact Ei | apply grows_sset; rewrite slive_sset; auto].
  - destruct (sel_ok s l) eqn:E; inversion H; subst. apply sel_ok_parts in E as [_ [E _]]. apply grows_fold_sset0; auto.
  - destruct ((length s =? k) && forallb is_some s); inversion H; subst; apply grows_refl.
  - inversion H; subst; apply grows_refl.
Qed.

Lemma srun_grows h : forall s, grows s (srun s h).
Proof.
  induction h as [|o h IH]; intros s; simpl; [apply grows_refl|].
  eapply grows_trans; [|apply IH]. unfold sstep'. destruct (sstep s o) eqn:E; [eapply sstep_grows; eauto | apply grows_refl].
Qed.

Lemma srun_app s h1 h2 : srun s (h1 ++ h2) = srun (srun s h1) h2.
Proof. unfold srun; apply fold_left_app. Qed.

(* ------------------------------------------------------------------ Program register *)
Definition P (s : sstate) : refs := map is_some s.

Lemma P_length s : length (P s) = length s.
Proof. apply map_length. Qed.

Lemma P_nth s : forall i, nth i (P s) false = slive s i.
Proof.
  induction s as [|x s IH]; intros [|i]; try reflexivity.
  change (nth i (P s) false = slive s i). apply IH.
Qed.

Fixpoint nodup_acc (seen l : list nat) : bool :=
  match l with [] => true | i :: l' => negb (mem i seen) && nodup_acc (i :: seen) l' end.

Lemma test_regrefs_char r : forall l seen,
  test_regrefs r seen l =
  if forallb (fun i => (i <? length r) && nth i r false) l && nodup_acc seen l then Ok else Err RegRefError.
Proof.
  induction l as [|i l IH]; intros seen; simpl; auto.
  destruct (i <? length r); simpl; auto.
  destruct (nth i r false); simpl; auto.
  destruct (mem i seen); simpl; auto.
  - destruct (forallb _ l); reflexivity.
Qed.

Lemma forallb_notmem_cons i seen : forall l,
  forallb (fun x => negb (mem x (i :: seen))) l = negb (mem i l) && forallb (fun x => negb (mem x seen)) l.
Proof.
  induction l as [|y l IH]; [reflexivity|].
  change (negb (mem y (i :: seen)) && forallb (fun x => negb (mem x (i :: seen))) l =
          negb (mem i (y :: l)) && (negb (mem y seen) && forallb (fun x => negb (mem x seen)) l)).
  rewrite IH, !mem_cons, (Nat.eqb_sym y i).
  destruct (i =? y), (mem y seen), (mem i l); reflexivity.
Qed.

Lemma nodup_acc_char : forall l seen,
  nodup_acc seen l = nodupb l && forallb (fun x => negb (mem x seen)) l.
Proof.
  induction l as [|i l IH]; intros seen; [reflexivity|].
  change (negb (mem i seen) && nodup_acc (i :: seen) l =
          (negb (mem i l) && nodupb l) && (negb (mem i seen) && forallb (fun x => negb (mem x seen)) l)).
  rewrite IH, forallb_notmem_cons.
  destruct (mem i seen), (mem i l), (nodupb l); reflexivity.
Qed.

Lemma nodup_acc_nil l : nodup_acc [] l = nodupb l.
Proof.
  rewrite nodup_acc_char. assert (forallb (fun x => negb (mem x [])) l = true) as -> by (apply forallb_forall; auto).
  apply andb_true_r.
Qed.

Lemma op_or_char s l :
  op_or (P s) l = if is_nil l then Err ValueError else if forallb (slive s) l && nodupb l then Ok else Err RegRefError.
Proof.
  unfold op_or. destruct (is_nil l); auto. rewrite test_regrefs_char, nodup_acc_nil.
  assert (forallb (fun i => (i <? length (P s)) && nth i (P s) false) l = forallb (slive s) l) as ->; auto.
  apply forallb_ext_in || idtac.
  clear. induction l as [|i l IH]; simpl; auto. rewrite IH, P_nth, P_length. f_equal.
  destruct (slive s i) eqn:E; [|apply andb_false_r]. apply slive_lt in E. apply Nat.ltb_lt in E. rewrite E; reflexivity.
Qed.

Lemma op_or_ok s l : sel_ok s l = true -> op_or (P s) l = Ok.
Proof.
  intros H. rewrite op_or_char. unfold sel_ok in H. destruct (is_nil l); [discriminate|]. simpl in H. rewrite H; reflexivity.
Qed.

Lemma op_or_bad s l : sel_ok s l = false -> exists e, op_or (P s) l = Err e.
Proof.
  intros H. rewrite op_or_char. unfold sel_ok in H. destruct (is_nil l); [eauto|]. simpl in H. rewrite H; eauto.
Qed.

Lemma sel_ok_single s i : sel_ok s [i] = slive s i.
Proof. unfold sel_ok; simpl. rewrite !andb_true_r; reflexivity. Qed.

Lemma P_skill s i : P (skill i s) = deactivate i (P s).
Proof. unfold P, skill, deactivate. apply map_upd; reflexivity. Qed.

Lemma P_sset s : forall i v, slive s i = true -> P (sset i v s) = P s.
Proof.
  induction s as [|x s IH]; intros [|i] v H; try (simpl in H; discriminate).
  - unfold slive in H; simpl in H. destruct x; [reflexivity | discriminate].
  - unfold P, sset in *; simpl. f_equal. apply IH. exact H.
Qed.

Lemma P_fold_sset0 l : forall s, forallb (slive s) l = true -> P (fold_left (fun s i => sset i 0%Z s) l s) = P s.
Proof.
  induction l as [|i l IH]; intros s H; simpl; auto. simpl in H. apply andb_prop in H as [Hi Hl].
  rewrite IH; [apply P_sset; auto|]. rewrite forallb_forall in *. intros x Hx. rewrite slive_sset; auto.
Qed.

Lemma list_beq_repeat s : forall k, list_beq (repeat true k) (P s) = (length s =? k) && forallb is_some s.
Proof.
  induction s as [|x s IH]; intros [|k]; simpl; auto.
  rewrite IH. destruct x, (length s =? k), (forallb is_some s); reflexivity.
Qed.

Lemma prog_step_ok s o s' : sstep s o = Some s' -> prog_step (P s) o = (P s', Ok).
Proof.
  destruct o as [n|l|i k|i j|l|[k|]]; simpl; intros H.
  - destruct (n =? 0) eqn:E; [discriminate|]. injection H as <-.
    assert (n <? 1 = false) as -> by (apply Nat.eqb_neq in E; apply Nat.ltb_ge; lia).
    unfold P. rewrite map_app, map_repeat. reflexivity.
  - destruct (sel_ok s l) eqn:E; inversion H; subst. rewrite (op_or_ok _ _ E). f_equal.
    symmetry. apply (fold_left_map_commute P (fun s i => skill i s) (fun r i => deactivate i r)). intros; apply P_skill.
  - destruct (slive s i) eqn:E; inversion H; subst. rewrite op_or_ok by (rewrite sel_ok_single; auto). rewrite P_sset; auto.
  - destruct (sel_ok s [i; j]) eqn:E; inversion H; subst. rewrite (op_or_ok _ _ E).
    apply sel_ok_parts in E as [_ [E _]]. simpl in E. apply andb_prop in E as [Ei E]. apply andb_prop in E as [Ej _].
    rewrite P_sset, P_sset; auto. rewrite slive_sset; auto.
  - destruct (sel_ok s l) eqn:E; inversion H; subst. rewrite (op_or_ok _ _ E).
    apply sel_ok_parts in E as [_ [E _]]. rewrite P_fold_sset0; auto.
  - rewrite list_beq_repeat. destruct ((length s =? k) && forallb is_some s); inversion H; subst; reflexivity.
  - inversion H; subst; reflexivity.
Qed.

Lemma prog_step_bad s o : sstep s o = None -> exists e, prog_step (P s) o = (P s, Err e).
Proof.
  destruct o as [n|l|i k|i j|l|[k|]]; simpl; intros H.
  - destruct n; simpl in *; [eauto | discriminate].
  - destruct (sel_ok s l) eqn:E; [discriminate|]. destruct (op_or_bad _ _ E) as [e ->]; eauto.
  - destruct (slive s i) eqn:E; [discriminate|]. rewrite <- sel_ok_single in E. destruct (op_or_bad _ _ E) as [e ->]; eauto.
  - destruct (sel_ok s [i; j]) eqn:E; [discriminate|]. destruct (op_or_bad _ _ E) as [e ->]; eauto.
  - destruct (sel_ok s l) eqn:E; [discriminate|]. destruct (op_or_bad _ _ E) as [e ->]; eauto.
  - rewrite list_beq_repeat. destruct ((length s =? k) && forallb is_some s); [discriminate | eauto].
  - discriminate.
Qed.

Lemma somes_from_map_flags : forall s c,
  somes_from c (map (fun b : bool => if b then Some tt else None) (P s)) = somes_from c s.
Proof. induction s as [|x s IH]; intros c; simpl; auto. destruct x; simpl; rewrite IH; reflexivity. Qed.

Lemma prog_register_P s : prog_register (P s) = slives s.
Proof. apply somes_from_map_flags. Qed.
