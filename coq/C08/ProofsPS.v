(* C08 — phase-space backends (Gaussian / bosonic `active` list and slots) as a function G of the
   specification state. *)
From Coq Require Import List ZArith Bool Arith Lia.
Import ListNotations.
From SFV Require Import C08.Model C08.Proofs.
Open Scope nat_scope.

Definition dat (o : option Z) : Z := match o with Some d => d | None => 0%Z end.

Fixpoint gact (c : nat) (s : sstate) : list (option nat) :=
  match s with
  | [] => []
  | Some _ :: r => Some c :: gact (S c) r
  | None :: r => None :: gact (S c) r
  end.

Definition G (s : sstate) : ps := mkPs (gact 0 s) (map dat s).

Lemma gact_nth : forall s c i,
  nth_error (gact c s) i =
  match nth_error s i with Some (Some _) => Some (Some (c + i)) | Some None => Some None | None => None end.
Proof.
  induction s as [|x s IH]; intros c [|i]; try reflexivity.
  - destruct x; simpl; [rewrite Nat.add_0_r|]; reflexivity.
  - destruct x; simpl; rewrite IH; destruct (nth_error s i) as [[?|]|]; try reflexivity; do 2 f_equal; lia.
Qed.

Lemma ps_check_G s i :
  ps_check (G s) i = if slive s i then Ok else if i <? length s then Err ValueError else Err IndexError.
Proof.
  unfold ps_check, G, slive; simpl. rewrite gact_nth.
  destruct (nth_error s i) as [[?|]|] eqn:E; try reflexivity.
  - assert (i < length s) by (apply nth_error_Some; congruence). apply Nat.ltb_lt in H; rewrite H; reflexivity.
  - apply nth_error_None in E. apply Nat.ltb_ge in E; rewrite E; reflexivity.
Qed.

Lemma gact_sset : forall s i v c, slive s i = true -> gact c (sset i v s) = gact c s.
Proof.
  induction s as [|x s IH]; intros [|i] v c H; try discriminate H.
  - unfold slive in H; simpl in H. destruct x; [reflexivity | discriminate].
  - change (slive s i = true) in H. unfold sset; simpl. destruct x; f_equal; apply IH; exact H.
Qed.

Lemma gact_skill : forall s i c, gact c (skill i s) = upd i (fun _ => None) (gact c s).
Proof.
  induction s as [|x s IH]; intros [|i] c; try reflexivity.
  - destruct x; reflexivity.
  - unfold skill; simpl. destruct x; simpl; f_equal; apply IH.
Qed.

Lemma dat_upd : forall s i (f : Z -> Z), slive s i = true ->
  upd i f (map dat s) = map dat (sset i (f (sget s i)) s).
Proof.
  induction s as [|x s IH]; intros [|i] f H; try discriminate H.
  - unfold slive in H; simpl in H. destruct x; [reflexivity | discriminate].
  - change (slive s i = true) in H. unfold sset; simpl. f_equal. apply IH; exact H.
Qed.

Lemma dat_skill : forall s i, map dat (skill i s) = upd i (fun _ => 0%Z) (map dat s).
Proof. intros; unfold skill. apply map_upd; reflexivity. Qed.

Lemma dat_nth : forall s i, nth i (map dat s) 0%Z = sget s i.
Proof.
  induction s as [|x s IH]; intros [|i]; try reflexivity.
  change (nth i (map dat s) 0%Z = sget s i). apply IH.
Qed.

Lemma G_sset s i (f : Z -> Z) : slive s i = true ->
  mkPs (pact (G s)) (upd i f (pslots (G s))) = G (sset i (f (sget s i)) s).
Proof. intros H; unfold G; simpl. rewrite dat_upd, gact_sset; auto. Qed.

Lemma G_skill s i : mkPs (upd i (fun _ => None) (pact (G s))) (upd i (fun _ => 0%Z) (pslots (G s))) = G (skill i s).
Proof. unfold G; simpl. rewrite gact_skill, dat_skill; reflexivity. Qed.

Lemma ps_del_cons b i l :
  ps_del b (i :: l) = match ps_check b i with
                      | Ok => ps_del (mkPs (upd i (fun _ => None) (pact b)) (upd i (fun _ => 0%Z) (pslots b))) l
                      | e => (b, e)
                      end.
Proof. reflexivity. Qed.

Lemma ps_meas_cons b i l :
  ps_meas b (i :: l) = match ps_check b i with
                       | Ok => ps_meas (mkPs (pact b) (upd i (fun _ => 0%Z) (pslots b))) l
                       | e => (b, e)
                       end.
Proof. reflexivity. Qed.

Lemma ps_common_disp b i k :
  ps_step_common b (Disp i k) = match ps_check b i with
                                | Ok => (mkPs (pact b) (upd i (fun d => (d + k)%Z) (pslots b)), Ok)
                                | e => (b, e)
                                end.
Proof. reflexivity. Qed.

Lemma ps_common_swap b i j :
  ps_step_common b (Swap i j) =
  match ps_check b i with
  | Ok => match ps_check b j with
          | Ok => (mkPs (pact b) (upd j (fun _ => nth i (pslots b) 0%Z) (upd i (fun _ => (- nth j (pslots b) 0%Z)%Z) (pslots b))), Ok)
          | e => (b, e)
          end
  | e => (b, e)
  end.
Proof. reflexivity. Qed.

Lemma ps_del_G : forall l s, forallb (slive s) l = true -> nodupb l = true ->
  ps_del (G s) l = (G (fold_left (fun s i => skill i s) l s), Ok).
Proof.
  induction l as [|i l IH]; intros s Hl Hn; [reflexivity|].
  simpl in Hl, Hn. apply andb_prop in Hl as [Hi Hl]. apply andb_prop in Hn as [Hni Hn].
  rewrite ps_del_cons, ps_check_G, Hi, G_skill. apply IH; auto.
  rewrite forallb_forall in *. intros x Hx. rewrite slive_skill; auto.
  intros ->. apply mem_In in Hx. rewrite Hx in Hni; discriminate.
Qed.

Lemma ps_meas_G : forall l s, forallb (slive s) l = true ->
  ps_meas (G s) l = (G (fold_left (fun s i => sset i 0%Z s) l s), Ok).
Proof.
  induction l as [|i l IH]; intros s Hl; [reflexivity|].
  simpl in Hl. apply andb_prop in Hl as [Hi Hl].
  rewrite ps_meas_cons, ps_check_G, Hi. rewrite (G_sset s i (fun _ => 0%Z) Hi). apply IH.
  rewrite forallb_forall in *. intros x Hx. rewrite slive_sset; auto.
Qed.

Lemma ps_common_ok s o s' :
  (forall n, o <> New n) -> sstep s o = Some s' -> ps_step_common (G s) o = (G s', Ok).
Proof.
  destruct o as [n|l|i k|i j|l|[k|]]; intros Hnew H; simpl in H.
  - exfalso; eapply Hnew; reflexivity.
  - destruct (sel_ok s l) eqn:E; inversion H; subst. apply sel_ok_parts in E as [_ [E1 E2]].
    change (ps_step_common (G s) (Del l)) with (ps_del (G s) l). apply ps_del_G; auto.
  - destruct (slive s i) eqn:E; inversion H; subst. rewrite ps_common_disp, ps_check_G, E.
    rewrite (G_sset s i (fun d => (d + k)%Z) E). reflexivity.
  - destruct (sel_ok s [i; j]) eqn:E; inversion H; subst.
    apply sel_ok_parts in E as [_ [E En]]. simpl in E. apply andb_prop in E as [Ei E]. apply andb_prop in E as [Ej _].
    rewrite ps_common_swap, !ps_check_G, Ei, Ej.
    replace (nth i (pslots (G s)) 0%Z) with (sget s i) by (symmetry; apply dat_nth).
    replace (nth j (pslots (G s)) 0%Z) with (sget s j) by (symmetry; apply dat_nth).
    pose proof (G_sset s i (fun _ => (- sget s j)%Z) Ei) as E1.
    assert (Ej' : slive (sset i (- sget s j) s) j = true) by (rewrite slive_sset; auto).
    pose proof (G_sset _ j (fun _ => sget s i) Ej') as E2.
    rewrite <- E1 in E2. simpl pact in E2. simpl pslots in E2. simpl pact. simpl pslots. rewrite E2. reflexivity.
  - destruct (sel_ok s l) eqn:E; inversion H; subst. apply sel_ok_parts in E as [_ [E1 _]].
    change (ps_step_common (G s) (Meas l)) with (ps_meas (G s) l). apply ps_meas_G; auto.
  - destruct ((length s =? k) && forallb is_some s); inversion H; subst; reflexivity.
  - inversion H; subst; reflexivity.
Qed.

Lemma gact_app : forall s t c, gact c (s ++ t) = gact c s ++ gact (c + length s) t.
Proof.
  induction s as [|x s IH]; intros t c; simpl; [rewrite Nat.add_0_r; reflexivity|].
  destruct x; simpl; rewrite IH; do 2 f_equal; f_equal; lia.
Qed.

Lemma gact_repeat : forall n c z, gact c (repeat (Some z) n) = map Some (seq c n).
Proof. induction n; intros c z; simpl; auto. rewrite IHn; reflexivity. Qed.

Lemma gauss_step_ok s o s' : sstep s o = Some s' -> gauss_step (G s) o = (G s', Ok).
Proof.
  destruct o as [n|l|i k|i j|l|f] eqn:Eo; intros H;
    try (apply ps_common_ok; [intros n' Hn'; discriminate | exact H]).
  simpl in H. destruct (n =? 0); [discriminate|]. injection H as <-.
  unfold gauss_step, G; simpl. rewrite gact_app, map_app, map_length, map_repeat, gact_repeat. reflexivity.
Qed.

(* the repaired bosonic add_mode is the Gaussian one *)
Lemma bos_step_gauss b o : bos_step b o = gauss_step b o.
Proof. destruct o; try reflexivity. unfold bos_step, gauss_step. rewrite Nat.add_sub. reflexivity. Qed.

Lemma bos_step_ok s o s' : sstep s o = Some s' -> bos_step (G s) o = (G s', Ok).
Proof. intros H. rewrite bos_step_gauss. apply gauss_step_ok; exact H. Qed.

(* the old bosonic add_mode coincides with it exactly for one new mode *)
Definition new_le1 (o : op) : bool := match o with New n => n <=? 1 | _ => true end.

Lemma bos_step_old_ok s o s' : new_le1 o = true -> sstep s o = Some s' -> bos_step_old (G s) o = (G s', Ok).
Proof.
  intros Hn H. rewrite <- (gauss_step_ok s o s' H).
  destruct o as [n|l|i k|i j|l|f]; try reflexivity.
  simpl in Hn, H. destruct n as [|[|n]]; [discriminate H | | discriminate Hn].
  unfold bos_step_old, gauss_step. simpl. rewrite Nat.add_sub. reflexivity.
Qed.

(* ---- observations *)
Lemma ps_modes_gact : forall s c, ps_modes_of (gact c s) = somes_from c s.
Proof. induction s as [|x s IH]; intros c; simpl; auto. destruct x; simpl; rewrite IH; reflexivity. Qed.

Lemma ps_modes_G s : ps_modes (G s) = slives s.
Proof. apply ps_modes_gact. Qed.

(* reading the slots named by get_modes() — what the bosonic state() and the repaired Gaussian
   state() do — gives every live index its own data *)
Lemma read_by_index : forall t p,
  map (fun v => (v, nth v (map dat (p ++ t)) 0%Z)) (somes_from (length p) t) = view_from (length p) t.
Proof.
  induction t as [|x t IH]; intros p; [reflexivity|].
  assert (E : p ++ x :: t = (p ++ [x]) ++ t) by (rewrite <- app_assoc; reflexivity).
  assert (L : S (length p) = length (p ++ [x])) by (rewrite app_length; simpl; lia).
  destruct x as [d|]; simpl.
  - f_equal.
    + f_equal. rewrite map_app. rewrite app_nth2; rewrite map_length; [|lia]. rewrite Nat.sub_diag. reflexivity.
    + rewrite E, L. apply IH.
  - rewrite E, L. apply IH.
Qed.

Lemma ps_state_G s : ps_state (G s) = view s.
Proof. unfold ps_state. rewrite ps_modes_G. apply (read_by_index s []). Qed.

Lemma gauss_state_G s : gauss_state (G s) = view s.
Proof. apply ps_state_G. Qed.

Lemma bos_state_G s : bos_state (G s) = view s.
Proof. apply ps_state_G. Qed.

(* reading slots 0..#live-1 is right exactly when nothing live sits behind a dead index *)
Definition prefix_live (s : sstate) : Prop := exists ds k, s = map Some ds ++ repeat None k.

Lemma somes_prefix : forall ds k c, somes_from c (map Some ds ++ repeat (@None Z) k) = seq c (length ds).
Proof.
  induction ds as [|d ds IH]; intros k c; simpl.
  - revert c; induction k; intros c; simpl; auto.
  - rewrite IH; reflexivity.
Qed.

Lemma view_prefix : forall ds k c, view_from c (map Some ds ++ repeat None k) = combine (seq c (length ds)) ds.
Proof.
  induction ds as [|d ds IH]; intros k c; simpl.
  - revert c; induction k; intros c; simpl; auto.
  - rewrite IH; reflexivity.
Qed.

Lemma dat_prefix : forall ds k, firstn (length ds) (map dat (map Some ds ++ repeat None k)) = ds.
Proof. induction ds as [|d ds IH]; intros k; simpl; [reflexivity|]. rewrite IH; reflexivity. Qed.

Lemma gauss_state_old_G_prefix s : prefix_live s -> gauss_state_old (G s) = view s.
Proof.
  intros [ds [k ->]]. unfold gauss_state_old. rewrite ps_modes_G. unfold slives, view.
  rewrite somes_prefix, view_prefix, seq_length. unfold G; simpl pslots. rewrite dat_prefix. reflexivity.
Qed.
