(* C08 — histories: the product machine (Program in front of a backend) simulates the
   specification, for every history; consequences stated in Properties/C08.v. *)
From Coq Require Import List ZArith Bool Arith Lia Sorted.
Import ListNotations.
From SFV Require Import C08.Model C08.Proofs C08.ProofsPS C08.ProofsFock.
Open Scope nat_scope.

Section Sim.
  Variable B : Type.
  Variable bstep : B -> op -> B * res.
  Variable Ab : sstate -> B.
  Variable okop : op -> bool.
  Hypothesis bstep_ok : forall s o s', okop o = true -> sstep s o = Some s' -> bstep (Ab s) o = (Ab s', Ok).

  Lemma pstep_ok s o s' : okop o = true -> sstep s o = Some s' ->
    pstep B bstep (P s, Ab s) o = ((P s', Ab s'), Ok).
  Proof.
    intros Hk H. unfold pstep. simpl fst. simpl snd. rewrite (prog_step_ok s o s' H), (bstep_ok s o s' Hk H). reflexivity.
  Qed.

  Lemma pstep_bad s o : sstep s o = None -> exists e, pstep B bstep (P s, Ab s) o = ((P s, Ab s), Err e).
  Proof.
    intros H. unfold pstep. simpl fst. destruct (prog_step_bad s o H) as [e ->]. exists e; reflexivity.
  Qed.

  Lemma prun_sim : forall h s, forallb okop h = true ->
    prun B bstep (P s, Ab s) h = (P (srun s h), Ab (srun s h)).
  Proof.
    induction h as [|o h IH]; intros s Hk; [reflexivity|].
    simpl in Hk. apply andb_prop in Hk as [Ho Hh].
    change (prun B bstep (P s, Ab s) (o :: h)) with (prun B bstep (fst (pstep B bstep (P s, Ab s) o)) h).
    change (srun s (o :: h)) with (srun (sstep' s o) h).
    unfold sstep'. destruct (sstep s o) as [s'|] eqn:E.
    - rewrite (pstep_ok s o s' Ho E). simpl fst. apply IH; auto.
    - destruct (pstep_bad s o E) as [e ->]. simpl fst. apply IH; auto.
  Qed.
End Sim.

Definition anyop (o : op) : bool := true.

Lemma forallb_anyop h : forallb anyop h = true.
Proof. induction h; simpl; auto. Qed.

(* initial states *)
Lemma P_init n : P (sinit n) = prog_init n.
Proof. unfold P, sinit, prog_init. apply map_repeat. Qed.

Lemma F_init n : F (sinit n) = fock_init n.
Proof. unfold F, sinit, fock_init. rewrite ranks_repeat, datas_repeat. reflexivity. Qed.

Lemma G_init n : G (sinit n) = ps_init n.
Proof. unfold G, sinit, ps_init. rewrite gact_repeat, map_repeat. reflexivity. Qed.

(* the three engines *)
Definition fock_run (n : nat) (h : list op) := prun fock fock_step (prog_init n, fock_init n) h.
Definition gauss_run (n : nat) (h : list op) := prun ps gauss_step (prog_init n, ps_init n) h.
Definition bos_run (n : nat) (h : list op) := prun ps bos_step (prog_init n, ps_init n) h.
Definition bos_run_old (n : nat) (h : list op) := prun ps bos_step_old (prog_init n, ps_init n) h.
Definition spec_run (n : nat) (h : list op) : sstate := srun (sinit n) h.

Lemma fock_run_sim n h : fock_run n h = (P (spec_run n h), F (spec_run n h)).
Proof.
  unfold fock_run. rewrite <- P_init, <- F_init.
  apply (prun_sim fock fock_step F anyop); [intros; apply fock_step_ok; auto | apply forallb_anyop].
Qed.

Lemma gauss_run_sim n h : gauss_run n h = (P (spec_run n h), G (spec_run n h)).
Proof.
  unfold gauss_run. rewrite <- P_init, <- G_init.
  apply (prun_sim ps gauss_step G anyop); [intros; apply gauss_step_ok; auto | apply forallb_anyop].
Qed.

Lemma bos_run_sim n h : bos_run n h = (P (spec_run n h), G (spec_run n h)).
Proof.
  unfold bos_run. rewrite <- P_init, <- G_init.
  apply (prun_sim ps bos_step G anyop); [intros; apply bos_step_ok; auto | apply forallb_anyop].
Qed.

Lemma bos_run_old_sim n h : forallb new_le1 h = true -> bos_run_old n h = (P (spec_run n h), G (spec_run n h)).
Proof.
  intros H. unfold bos_run_old. rewrite <- P_init, <- G_init.
  apply (prun_sim ps bos_step_old G new_le1); [intros; apply bos_step_old_ok; auto | exact H].
Qed.

(* ---- register alone: index for life *)
Definition prog_run (r : refs) (h : list op) : refs := fold_left (fun r o => fst (prog_step r o)) h r.

Lemma prog_run_sim : forall h s, prog_run (P s) h = P (srun s h).
Proof.
  induction h as [|o h IH]; intros s; [reflexivity|].
  change (prog_run (P s) (o :: h)) with (prog_run (fst (prog_step (P s) o)) h).
  change (srun s (o :: h)) with (srun (sstep' s o) h). unfold sstep'.
  destruct (sstep s o) as [s'|] eqn:E.
  - rewrite (prog_step_ok s o s' E). apply IH.
  - destruct (prog_step_bad s o E) as [e ->]. apply IH.
Qed.

Lemma prog_run_app r h1 h2 : prog_run r (h1 ++ h2) = prog_run (prog_run r h1) h2.
Proof. unfold prog_run; apply fold_left_app. Qed.

Lemma index_for_life n h1 h2 i :
  let r1 := prog_run (prog_init n) h1 in
  let r2 := prog_run (prog_init n) (h1 ++ h2) in
  i < length r1 -> i < length r2 /\ (nth i r1 false = false -> nth i r2 false = false).
Proof.
  intros r1 r2. unfold r1, r2. rewrite prog_run_app, <- P_init, !prog_run_sim.
  rewrite !P_length, !P_nth. intros Hi.
  destruct (srun_grows h2 (srun (sinit n) h1)) as [L D]. split; [lia | intros Hd; apply D; auto].
Qed.

Lemma new_assigns_fresh r n : 1 <= n ->
  prog_step r (New n) = (r ++ repeat true n, Ok).
Proof. intros H. simpl. assert (n <? 1 = false) as -> by (apply Nat.ltb_ge; lia). reflexivity. Qed.

Lemma fock_run_refs n h : fst (fock_run n h) = prog_run (prog_init n) h.
Proof. rewrite fock_run_sim, <- P_init, prog_run_sim. reflexivity. Qed.

Lemma gauss_run_refs n h : fst (gauss_run n h) = prog_run (prog_init n) h.
Proof. rewrite gauss_run_sim, <- P_init, prog_run_sim. reflexivity. Qed.

(* ---- agreement on which modes exist *)
Lemma agree_fock n h :
  prog_register (fst (fock_run n h)) = slives (spec_run n h) /\
  fock_modes (snd (fock_run n h)) = slives (spec_run n h).
Proof. rewrite fock_run_sim; simpl. split; [apply prog_register_P | apply fock_modes_F]. Qed.

Lemma agree_gauss n h :
  prog_register (fst (gauss_run n h)) = slives (spec_run n h) /\
  ps_modes (snd (gauss_run n h)) = slives (spec_run n h).
Proof. rewrite gauss_run_sim; simpl. split; [apply prog_register_P | apply ps_modes_G]. Qed.

Lemma agree_bos n h :
  prog_register (fst (bos_run n h)) = slives (spec_run n h) /\
  ps_modes (snd (bos_run n h)) = slives (spec_run n h).
Proof. rewrite bos_run_sim; simpl. split; [apply prog_register_P | apply ps_modes_G]. Qed.

Lemma agree_bos_old n h : forallb new_le1 h = true ->
  prog_register (fst (bos_run_old n h)) = slives (spec_run n h) /\
  ps_modes (snd (bos_run_old n h)) = slives (spec_run n h).
Proof. intros H. rewrite bos_run_old_sim by exact H; simpl. split; [apply prog_register_P | apply ps_modes_G]. Qed.

(* ---- rejection / acceptance *)
Lemma reject_fock n h o : sstep (spec_run n h) o = None ->
  exists e, pstep fock fock_step (fock_run n h) o = (fock_run n h, Err e).
Proof. intros H. rewrite fock_run_sim. apply pstep_bad; exact H. Qed.

Lemma accept_fock n h o s' : sstep (spec_run n h) o = Some s' ->
  pstep fock fock_step (fock_run n h) o = (fock_run n (h ++ [o]), Ok).
Proof.
  intros H. rewrite !fock_run_sim. unfold spec_run. rewrite srun_app. simpl srun. unfold sstep'. fold (spec_run n h). rewrite H.
  apply (pstep_ok fock fock_step F anyop); auto. intros; apply fock_step_ok; auto.
Qed.

Lemma reject_gauss n h o : sstep (spec_run n h) o = None ->
  exists e, pstep ps gauss_step (gauss_run n h) o = (gauss_run n h, Err e).
Proof. intros H. rewrite gauss_run_sim. apply pstep_bad; exact H. Qed.

Lemma accept_gauss n h o s' : sstep (spec_run n h) o = Some s' ->
  pstep ps gauss_step (gauss_run n h) o = (gauss_run n (h ++ [o]), Ok).
Proof.
  intros H. rewrite !gauss_run_sim. unfold spec_run. rewrite srun_app. simpl srun. unfold sstep'. fold (spec_run n h). rewrite H.
  apply (pstep_ok ps gauss_step G anyop); auto. intros; apply gauss_step_ok; auto.
Qed.

Lemma reject_bos n h o : sstep (spec_run n h) o = None ->
  exists e, pstep ps bos_step (bos_run n h) o = (bos_run n h, Err e).
Proof. intros H. rewrite bos_run_sim. apply pstep_bad; exact H. Qed.

Lemma accept_bos n h o s' : sstep (spec_run n h) o = Some s' ->
  pstep ps bos_step (bos_run n h) o = (bos_run n (h ++ [o]), Ok).
Proof.
  intros H. rewrite !bos_run_sim. unfold spec_run. rewrite srun_app. simpl srun. unfold sstep'. fold (spec_run n h). rewrite H.
  apply (pstep_ok ps bos_step G anyop); auto. intros; apply bos_step_ok; auto.
Qed.

(* ---- state content *)
Lemma state_fock n h : fock_state (snd (fock_run n h)) = view (spec_run n h).
Proof. rewrite fock_run_sim; simpl. apply fock_state_F. Qed.

Lemma state_gauss n h : gauss_state (snd (gauss_run n h)) = view (spec_run n h).
Proof. rewrite gauss_run_sim; simpl. apply gauss_state_G. Qed.

Lemma state_bos n h : bos_state (snd (bos_run n h)) = view (spec_run n h).
Proof. rewrite bos_run_sim; simpl. apply bos_state_G. Qed.

(* the old Gaussian slot selection (before /repo 23cb098) *)
Lemma state_gauss_old_prefix n h : prefix_live (spec_run n h) -> gauss_state_old (snd (gauss_run n h)) = view (spec_run n h).
Proof. intros H. rewrite gauss_run_sim; simpl. apply gauss_state_old_G_prefix; exact H. Qed.

(* histories without deletion keep every index live, so the Gaussian state() is right on them *)
Definition no_del (o : op) : bool := match o with Del _ => false | _ => true end.

Lemma all_live_prefix s : forallb is_some s = true -> prefix_live s.
Proof.
  intros H. exists (map dat s), 0. simpl. rewrite app_nil_r.
  induction s as [|x s IH]; [reflexivity|]. simpl in H. apply andb_prop in H as [Hx Hs].
  destruct x; [|discriminate]. simpl. f_equal. apply IH; exact Hs.
Qed.

Lemma forallb_is_some_live s : forallb is_some s = true <-> forall i, i < length s -> slive s i = true.
Proof.
  split.
  - induction s as [|x s IH]; intros H [|i] Hi; simpl in *; try lia.
    + apply andb_prop in H as [Hx _]. destruct x; [reflexivity | discriminate].
    + apply andb_prop in H as [_ Hs]. change (slive s i = true). apply IH; [exact Hs | lia].
  - induction s as [|x s IH]; intros H; [reflexivity|]. simpl. apply andb_true_intro; split.
    + specialize (H 0 ltac:(simpl; lia)). unfold slive in H; simpl in H. destruct x; [reflexivity | discriminate].
    + apply IH. intros i Hi. apply (H (S i)). simpl; lia.
Qed.

Lemma sset_all_live s i v : forallb is_some s = true -> forallb is_some (sset i v s) = true.
Proof.
  revert i. induction s as [|x s IH]; intros [|i] H; simpl in *; auto.
  - apply andb_prop in H as [_ Hs]. exact Hs.
  - apply andb_prop in H as [Hx Hs]. rewrite Hx. apply IH; exact Hs.
Qed.

Lemma fold_sset0_all_live l : forall s, forallb is_some s = true -> forallb is_some (fold_left (fun s i => sset i 0%Z s) l s) = true.
Proof. induction l as [|i l IH]; intros s H; simpl; auto. apply IH. apply sset_all_live; exact H. Qed.

Lemma sstep_no_del_all_live s o s' : no_del o = true -> sstep s o = Some s' ->
  forallb is_some s = true -> forallb is_some s' = true.
Proof.
  destruct o as [n|l|i k|i j|l|[k|]]; simpl; intros Hn H Hs; try discriminate Hn.
  - destruct (n =? 0); inversion H; subst. rewrite forallb_app, Hs. simpl. clear. induction n; simpl; auto.
  - destruct (slive s i); inversion H; subst. apply sset_all_live; auto.
  - destruct (sel_ok s [i; j]); inversion H; subst. apply sset_all_live, sset_all_live; auto.
  - destruct (sel_ok s l); inversion H; subst. apply fold_sset0_all_live; auto.
  - destruct ((length s =? k) && forallb is_some s); inversion H; subst; auto.
  - inversion H; subst; auto.
Qed.

Lemma srun_no_del_all_live : forall h s, forallb no_del h = true -> forallb is_some s = true -> forallb is_some (srun s h) = true.
Proof.
  induction h as [|o h IH]; intros s Hh Hs; [exact Hs|].
  simpl in Hh. apply andb_prop in Hh as [Ho Hh]. change (srun s (o :: h)) with (srun (sstep' s o) h).
  apply IH; auto. unfold sstep'. destruct (sstep s o) eqn:E; [eapply sstep_no_del_all_live; eauto | exact Hs].
Qed.

Lemma sinit_all_live n : forallb is_some (sinit n) = true.
Proof. unfold sinit. induction n; simpl; auto. Qed.

Lemma state_gauss_old_no_del n h : forallb no_del h = true -> gauss_state_old (snd (gauss_run n h)) = view (spec_run n h).
Proof.
  intros H. apply state_gauss_old_prefix. apply all_live_prefix. apply srun_no_del_all_live; [exact H | apply sinit_all_live].
Qed.

(* ---- what [view] means: exactly the live indices, in increasing order, each with its own data *)
Lemma view_from_In : forall s c i d, In (i, d) (view_from c s) <-> (c <= i /\ nth_error s (i - c) = Some (Some d)).
Proof.
  induction s as [|x s IH]; intros c i d; simpl.
  - split; [tauto | intros [_ H]; destruct (i - c); discriminate].
  - destruct x as [d'|]; simpl; rewrite IH.
    + split.
      * intros [H|[H1 H2]]; [inversion H; subst; rewrite Nat.sub_diag; auto|].
        split; [lia|]. replace (i - c) with (S (i - S c)) by lia. exact H2.
      * intros [H1 H2]. destruct (i - c) as [|k] eqn:E.
        -- left. inversion H2; subst. f_equal. lia.
        -- right. split; [lia|]. replace (i - S c) with k by lia. exact H2.
    + split.
      * intros [H1 H2]. split; [lia|]. replace (i - c) with (S (i - S c)) by lia. exact H2.
      * intros [H1 H2]. destruct (i - c) as [|k] eqn:E; [discriminate|]. split; [lia|]. replace (i - S c) with k by lia. exact H2.
Qed.

Lemma view_In s i d : In (i, d) (view s) <-> nth_error s i = Some (Some d).
Proof. unfold view. rewrite view_from_In, Nat.sub_0_r. split; [tauto | intros; split; [lia | auto]]. Qed.

Lemma view_from_labels : forall s c, map fst (view_from c s) = somes_from c s.
Proof. induction s as [|x s IH]; intros c; simpl; auto. destruct x; simpl; rewrite IH; reflexivity. Qed.

Lemma somes_from_ge : forall {A} (s : list (option A)) c x, In x (somes_from c s) -> c <= x.
Proof.
  induction s as [|y s IH]; intros c x H; simpl in H; [tauto|].
  destruct y; [destruct H as [<-|H]; [lia|] |]; specialize (IH _ _ H); lia.
Qed.

Lemma somes_from_sorted : forall {A} (s : list (option A)) c, StronglySorted lt (somes_from c s).
Proof.
  induction s as [|y s IH]; intros c; simpl; [constructor|].
  destruct y; [|apply IH]. constructor; [apply IH|].
  apply Forall_forall. intros x Hx. apply somes_from_ge in Hx. lia.
Qed.

Lemma view_sorted s : StronglySorted lt (map fst (view s)).
Proof. unfold view. rewrite view_from_labels. apply somes_from_sorted. Qed.

(* ---- Fock: ModeMap restricted to the live indices is the order isomorphism onto [0, #live) *)
Lemma fock_axis_bijection n h :
  let s := spec_run n h in let b := snd (fock_run n h) in
  (forall i, nth_error (fmap b) i =
             match nth_error s i with
             | Some (Some _) => Some (Some (rank s i)) | Some None => Some None | None => None end)
  /\ length (faxes b) = count_some s
  /\ (forall i, slive s i = true -> rank s i < count_some s)
  /\ (forall i j, i < j -> slive s i = true -> rank s i < rank s j).
Proof.
  intros s b. unfold b. rewrite fock_run_sim. simpl snd. fold s.
  split; [intros i; apply fmap_F_nth|]. split; [apply datas_length|]. split; [apply rank_bound | apply rank_lt].
Qed.
