(* C08 — register and simulator agree on which modes exist.  Definitions only.

   What is modelled (strawberryfields, read from /repo):
   * program.py      Program._add_subsystems / _delete_subsystems / _test_regrefs / append, can_follow
                     and ops.py Operation.__or__, New, _Delete.__or__            -> [prog_step]
   * backends/base.py ModeMap.add / delete / remap / valid, fockbackend/backend.py _remap_modes,
     add_mode, del_mode, get_modes, state (labels), fockbackend/circuit.py alloc / dealloc (which
     tensor axis carries which mode)                                             -> [fock_step] ...
   * gaussianbackend/gaussiancircuit.py active / add_mode / del_mode / get_modes and the guards
     `if self.active[k] is None: raise ValueError`, gaussianbackend/backend.py state() slot
     selection                                                                   -> [gauss_step] ...
   * bosonicbackend/bosoniccircuit.py active / add_mode / del_mode / get_modes,
     bosonicbackend/backend.py state() slot selection                            -> [bos_step] ...

   The numerical content of the simulators is abstracted to one integer per mode ("its data"):
   [Disp i k] adds k to the data of mode i (a displacement by k units), [Swap i j] is the
   beam splitter BSgate(pi/2,0) which maps the pair of data (di,dj) to (-dj,di), [Meas ms] resets the
   measured modes to vacuum (data 0).  What the property is about is *where* that data lives and
   under which label it is handed back. *)
From Coq Require Import List ZArith Bool Arith.
Import ListNotations.
Open Scope Z_scope.
Open Scope nat_scope.

Inductive op :=
| New (n : nat)                 (* ops.New(n) / backend.add_mode(n) *)
| Del (ms : list nat)            (* Del | ms / backend.del_mode(ms) *)
| Disp (i : nat) (k : Z)        (* single-mode gate on i *)
| Swap (i j : nat)              (* two-mode gate on (i, j), ordered *)
| Meas (ms : list nat)           (* measurement of the modes ms *)
| Seg (fresh : option nat).     (* segment boundary: None = successor Program(prev);
                                   Some k = try to run a fresh Program(k) as the next segment *)

Inductive err := RegRefError | ValueError | IndexError | RuntimeError.
Inductive res := Ok | Err (e : err).

Definition code (r : res) : nat :=
  match r with Ok => 0 | Err RegRefError => 1 | Err ValueError => 2 | Err IndexError => 3 | Err RuntimeError => 4 end.

(* ------------------------------------------------------------------ list helpers *)
Definition mem (x : nat) (l : list nat) : bool := existsb (Nat.eqb x) l.

Fixpoint upd {A} (i : nat) (f : A -> A) (l : list A) : list A :=
  match l, i with
  | [], _ => []
  | x :: r, O => f x :: r
  | x :: r, S i' => x :: upd i' f r
  end.

Definition is_nil {A} (l : list A) : bool := match l with [] => true | _ => false end.
Definition is_some {A} (o : option A) : bool := match o with Some _ => true | None => false end.
Definition is_none {A} (o : option A) : bool := negb (is_some o).

Fixpoint nodupb (l : list nat) : bool :=
  match l with [] => true | x :: r => negb (mem x r) && nodupb r end.

Fixpoint count_some {A} (l : list (option A)) : nat :=
  match l with [] => 0 | Some _ :: r => S (count_some r) | None :: r => count_some r end.

(* indices (from offset c) of the entries that are not None *)
Fixpoint somes_from {A} (c : nat) (l : list (option A)) : list nat :=
  match l with [] => [] | Some _ :: r => c :: somes_from (S c) r | None :: r => somes_from (S c) r end.

(* ------------------------------------------------------------------ the specification
   A finite map from index to "live with data d" / "dead"; positions are indices, the list never
   shrinks.  [sstep] returns None when the property demands that the operation be rejected. *)
Definition sstate := list (option Z).

Definition sinit (n : nat) : sstate := repeat (Some 0%Z) n.
Definition slive (s : sstate) (i : nat) : bool :=
  match nth_error s i with Some (Some _) => true | _ => false end.
Definition sget (s : sstate) (i : nat) : Z :=
  match nth_error s i with Some (Some d) => d | _ => 0%Z end.
Definition sset (i : nat) (v : Z) (s : sstate) : sstate := upd i (fun _ => Some v) s.
Definition skill (i : nat) (s : sstate) : sstate := upd i (fun _ => None) s.
Definition sel_ok (s : sstate) (ms : list nat) : bool :=
  negb (is_nil ms) && forallb (slive s) ms && nodupb ms.

Definition sstep (s : sstate) (o : op) : option sstate :=
  match o with
  | New n => if n =? 0 then None else Some (s ++ repeat (Some 0%Z) n)
  | Del ms => if sel_ok s ms then Some (fold_left (fun s i => skill i s) ms s) else None
  | Disp i k => if slive s i then Some (sset i (sget s i + k)%Z s) else None
  | Swap i j => if sel_ok s [i; j]
                then Some (let di := sget s i in let dj := sget s j in sset j di (sset i (- dj)%Z s))
                else None
  | Meas ms => if sel_ok s ms then Some (fold_left (fun s i => sset i 0%Z s) ms s) else None
  | Seg None => Some s
  | Seg (Some k) => if (length s =? k) && forallb is_some s then Some s else None
  end.

(* rejected operations leave the state alone *)
Definition sstep' (s : sstate) (o : op) : sstate := match sstep s o with Some s' => s' | None => s end.
Definition srun (s : sstate) (h : list op) : sstate := fold_left sstep' h s.

(* what the returned state must be: the live indices in order, each with its own data *)
Fixpoint view_from (c : nat) (s : sstate) : list (nat * Z) :=
  match s with
  | [] => []
  | Some d :: r => (c, d) :: view_from (S c) r
  | None :: r => view_from (S c) r
  end.
Definition view (s : sstate) : list (nat * Z) := view_from 0 s.
Definition slives (s : sstate) : list nat := somes_from 0 s.

(* ------------------------------------------------------------------ Program (program.py)
   reg_refs as a list of activity flags: position = RegRef.ind (dict keys are 0..len-1 by
   construction in _add_subsystems), value = RegRef.active. *)
Definition refs := list bool.

(* Program._test_regrefs: every failure is a RegRefError; [seen] is the `temp` list *)
Fixpoint test_regrefs (r : refs) (seen : list nat) (ms : list nat) : res :=
  match ms with
  | [] => Ok
  | i :: ms' =>
      if i <? length r then                       (* ind in self.reg_refs *)
        if nth i r false then                     (* rr.active *)
          if mem i seen then Err RegRefError      (* rr in temp *)
          else test_regrefs r (i :: seen) ms'
        else Err RegRefError
      else Err RegRefError
  end.

(* Operation.__or__ (ns = None for Del / measurements of several modes) then Program.append *)
Definition op_or (r : refs) (ms : list nat) : res :=
  if is_nil ms then Err ValueError else test_regrefs r [] ms.

Definition deactivate (i : nat) (r : refs) : refs := upd i (fun _ => false) r.

Fixpoint list_beq (a b : list bool) : bool :=
  match a, b with
  | [], [] => true
  | x :: a', y :: b' => Bool.eqb x y && list_beq a' b'
  | _, _ => false
  end.

Definition prog_step (r : refs) (o : op) : refs * res :=
  match o with
  | New n => if n <? 1 then (r, Err ValueError) else (r ++ repeat true n, Ok)
  | Del ms => match op_or r ms with
             | Ok => (fold_left (fun r i => deactivate i r) ms r, Ok)   (* _delete_subsystems *)
             | e => (r, e)
             end
  | Disp i _ => (r, op_or r [i])
  | Swap i j => (r, op_or r [i; j])
  | Meas ms => (r, op_or r ms)
  | Seg None => (r, Ok)                                               (* Program(prev): deepcopy *)
  | Seg (Some k) => if list_beq (repeat true k) r then (r, Ok)       (* can_follow *)
                    else (r, Err RuntimeError)                       (* BaseEngine._run *)
  end.

Definition prog_init (n : nat) : refs := repeat true n.
Definition prog_register (r : refs) : list nat :=
  somes_from 0 (map (fun b : bool => if b then Some tt else None) r).

(* ------------------------------------------------------------------ Fock backend *)
Record fock := mkFock { fmap : list (option nat);   (* ModeMap._map *)
                        faxes : list Z }.           (* data carried by tensor axis 0,1,... *)

Definition fock_init (n : nat) : fock := mkFock (map Some (seq 0 n)) (repeat 0%Z n).

(* [map_[m] for m in modes] : None = IndexError *)
Fixpoint lookup_all (m : list (option nat)) (ms : list nat) : option (list (option nat)) :=
  match ms with
  | [] => Some []
  | i :: ms' => match nth_error m i, lookup_all m ms' with
               | Some x, Some l => Some (x :: l)
               | _, _ => None
               end
  end.

Definition unsome (o : option nat) : nat := match o with Some a => a | None => 0 end.

(* FockBackend._remap_modes on a list (an int is the one-element list) *)
Definition fock_remap (m : list (option nat)) (ms : list nat) : err + list nat :=
  match lookup_all m ms with
  | None => inl IndexError
  | Some sub =>
      (* ModeMap.valid: non-empty, not longer than the map, every 0 <= m < len (implied here) *)
      if is_nil ms || (length m <? length ms) || existsb is_none sub then inl ValueError
      else inr (map unsome sub)
  end.

(* ModeMap.delete *)
Fixpoint mm_delete (ms : list nat) (i ctr : nat) (m : list (option nat)) : list (option nat) :=
  match m with
  | [] => []
  | x :: r => if mem i ms || is_none x then None :: mm_delete ms (S i) ctr r
              else Some ctr :: mm_delete ms (S i) (S ctr) r
  end.

(* ops.partial_trace: the axes whose position is in R disappear *)
Fixpoint remove_axes (R : list nat) (a : nat) (ax : list Z) : list Z :=
  match ax with
  | [] => []
  | d :: r => if mem a R then remove_axes R (S a) r else d :: remove_axes R (S a) r
  end.

Definition fock_step (b : fock) (o : op) : fock * res :=
  match o with
  | New n =>   (* circuit.alloc(n); ModeMap.add(n) *)
      (mkFock (fmap b ++ map Some (seq (count_some (fmap b)) n)) (faxes b ++ repeat 0%Z n), Ok)
  | Del ms =>
      match fock_remap (fmap b) ms with
      | inl e => (b, Err e)
      | inr R => (mkFock (mm_delete ms 0 0 (fmap b)) (remove_axes R 0 (faxes b)), Ok)
      end
  | Disp i k =>
      match fock_remap (fmap b) [i] with
      | inr [a] => (mkFock (fmap b) (upd a (fun d => (d + k)%Z) (faxes b)), Ok)
      | inl e => (b, Err e)
      | _ => (b, Err ValueError)
      end
  | Swap i j =>
      match fock_remap (fmap b) [i], fock_remap (fmap b) [j] with
      | inr [a], inr [c] =>
          let da := nth a (faxes b) 0%Z in let dc := nth c (faxes b) 0%Z in
          (mkFock (fmap b) (upd c (fun _ => da) (upd a (fun _ => (- dc)%Z) (faxes b))), Ok)
      | inl e, _ => (b, Err e)
      | _, inl e => (b, Err e)
      | _, _ => (b, Err ValueError)
      end
  | Meas ms =>
      match fock_remap (fmap b) ms with
      | inl e => (b, Err e)
      | inr R => (mkFock (fmap b) (fold_left (fun ax a => upd a (fun _ => 0%Z) ax) R (faxes b)), Ok)
      end
  | Seg _ => (b, Ok)
  end.

Definition fock_modes (b : fock) : list nat := somes_from 0 (fmap b).     (* get_modes *)
(* state(): axis j of the tensor is handed back as mode j, named q[get_modes()[j]] *)
Definition fock_state (b : fock) : list (nat * Z) := combine (fock_modes b) (faxes b).

(* ------------------------------------------------------------------ phase-space backends
   GaussianModes / BosonicModes: `active` list (entry = its own index, or None) and never
   compacted per-slot data; nlen = length pslots. *)
Record ps := mkPs { pact : list (option nat); pslots : list Z }.

Definition ps_init (n : nat) : ps := mkPs (map Some (seq 0 n)) (repeat 0%Z n).

(* `if self.active[i] is None: raise ValueError` (IndexError when i is past the list) *)
Definition ps_check (b : ps) (i : nat) : res :=
  match nth_error (pact b) i with
  | None => Err IndexError
  | Some None => Err ValueError
  | Some (Some _) => Ok
  end.

(* del_mode: for mode in modes: check; loss(0.0, mode); active[mode] = None  — sequential, so an
   error in the middle leaves the earlier deletions done *)
Fixpoint ps_del (b : ps) (ms : list nat) : ps * res :=
  match ms with
  | [] => (b, Ok)
  | i :: ms' => match ps_check b i with
               | Ok => ps_del (mkPs (upd i (fun _ => None) (pact b)) (upd i (fun _ => 0%Z) (pslots b))) ms'
               | e => (b, e)
               end
  end.

Fixpoint ps_meas (b : ps) (ms : list nat) : ps * res :=
  match ms with
  | [] => (b, Ok)
  | i :: ms' => match ps_check b i with
               | Ok => ps_meas (mkPs (pact b) (upd i (fun _ => 0%Z) (pslots b))) ms'
               | e => (b, e)
               end
  end.

Definition ps_step_common (b : ps) (o : op) : ps * res :=
  match o with
  | Del ms => ps_del b ms
  | Disp i k => match ps_check b i with
                | Ok => (mkPs (pact b) (upd i (fun d => (d + k)%Z) (pslots b)), Ok)
                | e => (b, e)
                end
  | Swap i j =>   (* `if self.active[k] is None or self.active[l] is None` : left to right *)
      match ps_check b i with
      | Ok => match ps_check b j with
              | Ok =>
                  let di := nth i (pslots b) 0%Z in let dj := nth j (pslots b) 0%Z in
                  (mkPs (pact b) (upd j (fun _ => di) (upd i (fun _ => (- dj)%Z) (pslots b))), Ok)
              | e => (b, e)
              end
      | e => (b, e)
      end
  | Meas ms => ps_meas b ms
  | _ => (b, Ok)
  end.

(* GaussianModes.add_mode(n): newactive = arange(newnlen) with the old entries copied over *)
Definition gauss_step (b : ps) (o : op) : ps * res :=
  match o with
  | New n => (mkPs (pact b ++ map Some (seq (length (pslots b)) n)) (pslots b ++ repeat 0%Z n), Ok)
  | _ => ps_step_common b o
  end.

(* BosonicModes.add_mode(peak_list of length n): nlen += n;
   active.extend(range(nlen - n, nlen))            (since /repo 6125c3c) *)
Definition bos_step (b : ps) (o : op) : ps * res :=
  match o with
  | New n => (mkPs (pact b ++ map Some (seq (length (pslots b) + n - n) n)) (pslots b ++ repeat 0%Z n), Ok)
  | _ => ps_step_common b o
  end.

(* before 6125c3c: active.append(nlen - 1) — one entry for n new modes; kept so that the refutation
   of the old behaviour stays machine-checked *)
Definition bos_step_old (b : ps) (o : op) : ps * res :=
  match o with
  | New n => (mkPs (pact b ++ [Some (length (pslots b) + n - 1)]) (pslots b ++ repeat 0%Z n), Ok)
  | _ => ps_step_common b o
  end.

(* get_modes: [x for x in self.active if x is not None]  — the stored values *)
Fixpoint ps_modes_of (a : list (option nat)) : list nat :=
  match a with [] => [] | Some v :: r => v :: ps_modes_of r | None :: r => ps_modes_of r end.
Definition ps_modes (b : ps) : list nat := ps_modes_of (pact b).

(* state(modes=None) of both phase-space backends: modes = get_modes(); the slots with these indices
   are read and named q[i] with the same values (GaussianBackend since /repo 23cb098) *)
Definition ps_state (b : ps) : list (nat * Z) :=
  map (fun v => (v, nth v (pslots b) 0%Z)) (ps_modes b).
Definition gauss_state (b : ps) : list (nat * Z) := ps_state b.
Definition bos_state (b : ps) : list (nat * Z) := ps_state b.

(* GaussianBackend.state before 23cb098: slots range(len(get_modes())), names get_modes()[j] *)
Definition gauss_state_old (b : ps) : list (nat * Z) :=
  combine (ps_modes b) (firstn (length (ps_modes b)) (pslots b)).

(* ------------------------------------------------------------------ product machine
   Program in front of a backend: the command only reaches the backend when the Program accepted
   it.  A rejected operation changes nothing. *)
Section Product.
  Variable B : Type.
  Variable bstep : B -> op -> B * res.

  Definition pstep (c : refs * B) (o : op) : (refs * B) * res :=
    match prog_step (fst c) o with
    | (r', Ok) => let (b', e) := bstep (snd c) o in ((r', b'), e)
    | (_, e) => (c, e)
    end.

  Definition prun (c : refs * B) (h : list op) : refs * B :=
    fold_left (fun c o => fst (pstep c o)) h c.

  (* trace of result codes, for the correspondence check *)
  Fixpoint ptrace (c : refs * B) (h : list op) : list ((refs * B) * res) :=
    match h with
    | [] => []
    | o :: h' => let x := pstep c o in x :: ptrace (fst x) h'
    end.

  Fixpoint btrace (b : B) (h : list op) : list (B * res) :=
    match h with
    | [] => []
    | o :: h' => let x := bstep b o in x :: btrace (fst x) h'
    end.
End Product.

(* observation tuples handed to the harness: (code, register, get_modes, state) *)
Definition obs := (nat * list nat * list nat * list (nat * Z))%type.

Definition obs_fock (x : (refs * fock) * res) : obs :=
  (code (snd x), prog_register (fst (fst x)), fock_modes (snd (fst x)), fock_state (snd (fst x))).
Definition obs_gauss (x : (refs * ps) * res) : obs :=
  (code (snd x), prog_register (fst (fst x)), ps_modes (snd (fst x)), gauss_state (snd (fst x))).
Definition obs_bos (x : (refs * ps) * res) : obs :=
  (code (snd x), prog_register (fst (fst x)), ps_modes (snd (fst x)), bos_state (snd (fst x))).

Definition run_fock (n : nat) (h : list op) : list obs :=
  map obs_fock (ptrace fock fock_step (prog_init n, fock_init n) h).
Definition run_gauss (n : nat) (h : list op) : list obs :=
  map obs_gauss (ptrace ps gauss_step (prog_init n, ps_init n) h).
Definition run_bos (n : nat) (h : list op) : list obs :=
  map obs_bos (ptrace ps bos_step (prog_init n, ps_init n) h).

(* backend alone (direct API calls, no Program in front) *)
Definition bobs_fock (x : fock * res) : obs := (code (snd x), [], fock_modes (fst x), fock_state (fst x)).
Definition bobs_gauss (x : ps * res) : obs := (code (snd x), [], ps_modes (fst x), gauss_state (fst x)).
Definition bobs_bos (x : ps * res) : obs := (code (snd x), [], ps_modes (fst x), bos_state (fst x)).
Definition brun_fock (n : nat) (h : list op) : list obs := map bobs_fock (btrace fock fock_step (fock_init n) h).
Definition brun_gauss (n : nat) (h : list op) : list obs := map bobs_gauss (btrace ps gauss_step (ps_init n) h).
Definition brun_bos (n : nat) (h : list op) : list obs := map bobs_bos (btrace ps bos_step (ps_init n) h).

(* the specification's own trace, same shape (code 0 = accepted, 9 = must be rejected) *)
Fixpoint strace (s : sstate) (h : list op) : list obs :=
  match h with
  | [] => []
  | o :: h' => match sstep s o with
               | Some s' => (0, slives s', slives s', view s') :: strace s' h'
               | None => (9, slives s, slives s, view s) :: strace s h'
               end
  end.
Definition run_spec (n : nat) (h : list op) : list obs := strace (sinit n) h.
