(* C08 — Fock backend: ModeMap + tensor axes as a function F of the specification state.
   F s = (rank of every live index among the live ones, data of the live indices in order). *)
From Coq Require Import List ZArith Bool Arith Lia.
Import ListNotations.
From SFV Require Import C08.Model C08.Proofs.
Open Scope nat_scope.

Fixpoint ranks (c : nat) (s : sstate) : list (option nat) :=
  match s with
  | [] => []
  | Some _ :: r => Some c :: ranks (S c) r
  | None :: r => None :: ranks c r
  end.

Fixpoint datas (s : sstate) : list Z :=
  match s with [] => [] | Some d :: r => d :: datas r | None :: r => datas r end.

Definition F (s : sstate) : fock := mkFock (ranks 0 s) (datas s).

(* number of live indices below i *)
Definition rank (s : sstate) (i : nat) : nat := count_some (firstn i s).

Lemma rank_0 s : rank s 0 = 0. Proof. reflexivity. Qed.
Lemma rank_some d s i : rank (Some d :: s) (S i) = S (rank s i). Proof. reflexivity. Qed.
Lemma rank_none s i : rank (None :: s) (S i) = rank s i. Proof. reflexivity. Qed.
Lemma rank_nil i : rank [] i = 0. Proof. destruct i; reflexivity. Qed.

Lemma ranks_nth : forall s c i,
  nth_error (ranks c s) i =
  match nth_error s i with Some (Some _) => Some (Some (c + rank s i)) | Some None => Some None | None => None end.
Proof.
  induction s as [|x s IH]; intros c [|i]; try reflexivity.
  - destruct x; simpl; [rewrite rank_0, Nat.add_0_r|]; reflexivity.
  - destruct x; simpl; rewrite IH; destruct (nth_error s i) as [[?|]|]; try reflexivity.
    rewrite rank_some. do 2 f_equal; lia.
Qed.

Lemma rank_lt : forall s i j, i < j -> slive s i = true -> rank s i < rank s j.
Proof.
  induction s as [|x s IH]; intros i j Hij Hl; [destruct i; discriminate Hl|].
  destruct j as [|j]; [lia|]. destruct i as [|i].
  - unfold slive in Hl; simpl in Hl. destruct x; [|discriminate]. rewrite rank_0, rank_some. lia.
  - change (slive s i = true) in Hl. assert (H := IH i j ltac:(lia) Hl).
    destruct x; [rewrite !rank_some | rewrite !rank_none]; lia.
Qed.

Lemma rank_inj s i j : slive s i = true -> slive s j = true -> rank s i = rank s j -> i = j.
Proof.
  intros Hi Hj E. destruct (Nat.lt_trichotomy i j) as [H|[H|H]]; auto.
  - pose proof (rank_lt s i j H Hi); lia.
  - pose proof (rank_lt s j i H Hj); lia.
Qed.

(* ---- _remap_modes *)
Lemma lookup_all_live s : forall l, forallb (slive s) l = true ->
  lookup_all (ranks 0 s) l = Some (map (fun i => Some (rank s i)) l).
Proof.
  induction l as [|i l IH]; intros H; [reflexivity|].
  simpl in H. apply andb_prop in H as [Hi Hl]. simpl. rewrite ranks_nth, (IH Hl).
  unfold slive in Hi. destruct (nth_error s i) as [[?|]|]; try discriminate. reflexivity.
Qed.

Lemma live_length_le s l : forallb (slive s) l = true -> nodupb l = true -> length l <= length s.
Proof.
  intros Hl Hn. rewrite <- (seq_length (length s) 0). apply NoDup_incl_length; [apply nodupb_NoDup; auto|].
  intros x Hx. rewrite forallb_forall in Hl. apply in_seq. pose proof (slive_lt _ _ (Hl x Hx)). lia.
Qed.

Lemma ranks_length : forall s c, length (ranks c s) = length s.
Proof. induction s as [|x s IH]; intros c; simpl; auto. destruct x; simpl; rewrite IH; reflexivity. Qed.

Lemma fock_remap_live s l : l <> [] -> forallb (slive s) l = true -> nodupb l = true ->
  fock_remap (ranks 0 s) l = inr (map (rank s) l).
Proof.
  intros Hne Hl Hn. unfold fock_remap. rewrite (lookup_all_live s l Hl).
  assert (is_nil l = false) as -> by (destruct l; [congruence | reflexivity]).
  assert (length (ranks 0 s) <? length l = false) as ->.
  { apply Nat.ltb_ge. rewrite ranks_length. apply live_length_le; auto. }
  assert (existsb is_none (map (fun i => Some (rank s i)) l) = false) as ->.
  { clear. induction l; simpl; auto. }
  simpl. rewrite map_map. reflexivity.
Qed.

Lemma fock_remap_one s i : slive s i = true -> fock_remap (ranks 0 s) [i] = inr [rank s i].
Proof. intros H. apply (fock_remap_live s [i]); [discriminate | simpl; rewrite H; reflexivity | reflexivity]. Qed.

(* ---- gates: update of one axis *)
Lemma ranks_sset : forall s i v c, slive s i = true -> ranks c (sset i v s) = ranks c s.
Proof.
  induction s as [|x s IH]; intros [|i] v c H; try discriminate H.
  - unfold slive in H; simpl in H. destruct x; [reflexivity | discriminate].
  - change (slive s i = true) in H. unfold sset; simpl. destruct x; f_equal; apply IH; exact H.
Qed.

Lemma datas_upd : forall s i (f : Z -> Z), slive s i = true ->
  upd (rank s i) f (datas s) = datas (sset i (f (sget s i)) s).
Proof.
  induction s as [|x s IH]; intros [|i] f H; try discriminate H.
  - unfold slive in H; simpl in H. destruct x; [reflexivity | discriminate].
  - change (slive s i = true) in H. unfold sset. destruct x as [d|].
    + rewrite rank_some. simpl. f_equal. apply IH; exact H.
    + rewrite rank_none. simpl. apply IH; exact H.
Qed.

Lemma datas_nth : forall s i, slive s i = true -> nth (rank s i) (datas s) 0%Z = sget s i.
Proof.
  induction s as [|x s IH]; intros [|i] H; try discriminate H.
  - unfold slive in H; simpl in H. destruct x; [reflexivity | discriminate].
  - change (slive s i = true) in H. destruct x as [d|].
    + rewrite rank_some. simpl. apply IH; exact H.
    + rewrite rank_none. simpl. apply IH; exact H.
Qed.

Lemma count_some_sset : forall s i v, slive s i = true -> forall j, rank (sset i v s) j = rank s j.
Proof.
  induction s as [|x s IH]; intros [|i] v H j; try discriminate H.
  - unfold slive in H; simpl in H. destruct x; [|discriminate]. destruct j; reflexivity.
  - change (slive s i = true) in H. destruct j as [|j]; [reflexivity|].
    unfold sset; simpl. destruct x; [rewrite !rank_some; f_equal | rewrite !rank_none]; apply (IH i v H j).
Qed.

Lemma F_sset s i (f : Z -> Z) : slive s i = true ->
  mkFock (ranks 0 s) (upd (rank s i) f (datas s)) = F (sset i (f (sget s i)) s).
Proof. intros H. unfold F. rewrite datas_upd, ranks_sset; auto. Qed.

Lemma fock_meas_fold : forall l s, forallb (slive s) l = true ->
  fold_left (fun ax a => upd a (fun _ => 0%Z) ax) (map (rank s) l) (datas s)
  = datas (fold_left (fun s i => sset i 0%Z s) l s).
Proof.
  induction l as [|i l IH]; intros s H; [reflexivity|].
  simpl in H. apply andb_prop in H as [Hi Hl]. simpl.
  rewrite (datas_upd s i (fun _ => 0%Z) Hi).
  assert (E : map (rank s) l = map (rank (sset i 0%Z s)) l).
  { apply map_ext. intros j. symmetry. apply count_some_sset; auto. }
  rewrite E. apply IH. rewrite forallb_forall in *. intros x Hx. rewrite slive_sset; auto.
Qed.

Lemma ranks_fold_sset0 : forall l s c, forallb (slive s) l = true ->
  ranks c (fold_left (fun s i => sset i 0%Z s) l s) = ranks c s.
Proof.
  induction l as [|i l IH]; intros s c H; [reflexivity|].
  simpl in H. apply andb_prop in H as [Hi Hl]. simpl. rewrite IH; [apply ranks_sset; auto|].
  rewrite forallb_forall in *. intros x Hx. rewrite slive_sset; auto.
Qed.

(* ---- deletion *)
Fixpoint kills (l : list nat) (m : nat) (s : sstate) : sstate :=
  match s with
  | [] => []
  | x :: r => (if mem m l then None else x) :: kills l (S m) r
  end.

Lemma kills_cons l m x r : kills l m (x :: r) = (if mem m l then None else x) :: kills l (S m) r.
Proof. reflexivity. Qed.

Lemma kills_lt : forall s a l m, a < m -> kills (a :: l) m s = kills l m s.
Proof.
  induction s as [|x s IH]; intros a l m H; [reflexivity|]. rewrite !kills_cons.
  rewrite mem_cons. assert (m =? a = false) as -> by (apply Nat.eqb_neq; lia).
  rewrite IH by lia. reflexivity.
Qed.

Lemma kills_skill : forall s i m l, kills l m (upd i (fun _ => None) s) = kills ((m + i) :: l) m s.
Proof.
  induction s as [|x s IH]; intros [|i] m l; try reflexivity.
  - change (upd 0 (fun _ => None) (x :: s)) with (@None Z :: s). rewrite !kills_cons.
    rewrite mem_cons, Nat.add_0_r, Nat.eqb_refl.
    rewrite kills_lt by lia. destruct (mem m l); reflexivity.
  - change (upd (S i) (fun _ => None) (x :: s)) with (x :: upd i (fun _ : option Z => None) s). rewrite !kills_cons.
    rewrite mem_cons.
    assert (m =? m + S i = false) as -> by (apply Nat.eqb_neq; lia).
    rewrite IH. replace (S m + i) with (m + S i) by lia. reflexivity.
Qed.

Lemma kills_nil : forall s m, kills [] m s = s.
Proof. induction s as [|x s IH]; intros m; simpl; [|rewrite IH]; reflexivity. Qed.

Lemma kills_perm_head : forall s a b l m, kills (a :: b :: l) m s = kills (b :: a :: l) m s.
Proof.
  induction s as [|x s IH]; intros; [reflexivity|]. rewrite !kills_cons, !mem_cons, IH.
  destruct (m =? a), (m =? b); reflexivity.
Qed.

(* fold of single deletions = deletion of the set; order of the list is irrelevant for [mem] *)
Lemma kills_ext : forall s l l' m, (forall x, mem x l = mem x l') -> kills l m s = kills l' m s.
Proof. induction s as [|x s IH]; intros l l' m H; [reflexivity|]. rewrite !kills_cons, H, (IH l l' (S m) H). reflexivity. Qed.

Lemma fold_skill_kills : forall l s, fold_left (fun s i => skill i s) l s = kills l 0 s.
Proof.
  induction l as [|i l IH]; intros s; simpl; [rewrite kills_nil; reflexivity|].
  rewrite IH. unfold skill. rewrite kills_skill. reflexivity.
Qed.

Lemma mm_delete_ranks : forall s l m ctr c, mm_delete l m ctr (ranks c s) = ranks ctr (kills l m s).
Proof.
  induction s as [|x s IH]; intros l m ctr c; [reflexivity|].
  destruct x as [d|]; simpl.
  - destruct (mem m l); simpl; rewrite IH; reflexivity.
  - rewrite orb_true_r. destruct (mem m l); simpl; rewrite IH; reflexivity.
Qed.

Lemma remove_axes_datas : forall s R l c m,
  (forall j, slive s j = true -> mem (c + rank s j) R = mem (m + j) l) ->
  remove_axes R c (datas s) = datas (kills l m s).
Proof.
  induction s as [|x s IH]; intros R l c m H; [reflexivity|].
  destruct x as [d|].
  - assert (H0 := H 0 eq_refl). rewrite rank_0, !Nat.add_0_r in H0.
    simpl. rewrite H0.
    assert (E : remove_axes R (S c) (datas s) = datas (kills l (S m) s)).
    { apply IH. intros j Hj. specialize (H (S j) Hj). rewrite rank_some in H.
      replace (S c + rank s j) with (c + S (rank s j)) by lia. replace (S m + j) with (m + S j) by lia. exact H. }
    destruct (mem m l); simpl; rewrite E; reflexivity.
  - simpl. assert (E : remove_axes R c (datas s) = datas (kills l (S m) s)).
    { apply IH. intros j Hj. specialize (H (S j) Hj). rewrite rank_none in H.
      replace (S m + j) with (m + S j) by lia. exact H. }
    destruct (mem m l); simpl; exact E.
Qed.

Lemma mem_rank_iff s l j : forallb (slive s) l = true -> slive s j = true ->
  mem (rank s j) (map (rank s) l) = mem j l.
Proof.
  intros Hl Hj. destruct (mem j l) eqn:E.
  - apply mem_In. apply mem_In in E. apply in_map; exact E.
  - destruct (mem (rank s j) (map (rank s) l)) eqn:E'; auto.
    apply mem_In in E'. apply in_map_iff in E' as [i [Hr Hi]].
    rewrite forallb_forall in Hl. assert (i = j) by (apply (rank_inj s); auto). subst.
    apply mem_In in Hi. congruence.
Qed.

(* ---- allocation *)
Lemma count_some_ranks : forall s c, count_some (ranks c s) = count_some s.
Proof. induction s as [|x s IH]; intros c; simpl; auto. destruct x; simpl; rewrite IH; reflexivity. Qed.

Lemma ranks_app : forall s t c, ranks c (s ++ t) = ranks c s ++ ranks (c + count_some s) t.
Proof.
  induction s as [|x s IH]; intros t c; simpl; [rewrite Nat.add_0_r; reflexivity|].
  destruct x; simpl; rewrite IH; do 2 f_equal. f_equal; lia.
Qed.

Lemma ranks_repeat : forall n c z, ranks c (repeat (Some z) n) = map Some (seq c n).
Proof. induction n; intros c z; simpl; auto. rewrite IHn; reflexivity. Qed.

Lemma datas_app : forall s t, datas (s ++ t) = datas s ++ datas t.
Proof. induction s as [|x s IH]; intros t; simpl; auto. destruct x; simpl; rewrite IH; reflexivity. Qed.

Lemma datas_repeat : forall n z, datas (repeat (Some z) n) = repeat z n.
Proof. induction n; intros z; simpl; auto. rewrite IHn; reflexivity. Qed.

(* ---- the step *)
Lemma fock_step_disp b i k :
  fock_step b (Disp i k) = match fock_remap (fmap b) [i] with
                           | inr [a] => (mkFock (fmap b) (upd a (fun d => (d + k)%Z) (faxes b)), Ok)
                           | inl e => (b, Err e)
                           | _ => (b, Err ValueError)
                           end.
Proof. reflexivity. Qed.

Lemma fock_step_ok s o s' : sstep s o = Some s' -> fock_step (F s) o = (F s', Ok).
Proof.
  destruct o as [n|l|i k|i j|l|f]; intros H; simpl in H.
  - destruct (n =? 0); [discriminate|]. injection H as <-.
    unfold fock_step, F. simpl fmap. simpl faxes.
    rewrite ranks_app, datas_app, count_some_ranks, ranks_repeat, datas_repeat. reflexivity.
  - destruct (sel_ok s l) eqn:E; inversion H; subst. apply sel_ok_parts in E as [E0 [E1 E2]].
    unfold fock_step. simpl fmap. rewrite (fock_remap_live s l E0 E1 E2).
    rewrite fold_skill_kills. unfold F. simpl faxes. f_equal. f_equal.
    + apply mm_delete_ranks.
    + apply remove_axes_datas. intros j Hj. simpl. apply mem_rank_iff; auto.
  - destruct (slive s i) eqn:E; inversion H; subst.
    rewrite fock_step_disp. simpl fmap. simpl faxes. rewrite (fock_remap_one s i E).
    rewrite (F_sset s i (fun d => (d + k)%Z) E). reflexivity.
  - destruct (sel_ok s [i; j]) eqn:E; inversion H; subst.
    apply sel_ok_parts in E as [_ [E _]]. simpl in E. apply andb_prop in E as [Ei E]. apply andb_prop in E as [Ej _].
    unfold fock_step. simpl fmap. rewrite (fock_remap_one s i Ei), (fock_remap_one s j Ej).
    simpl faxes. rewrite (datas_nth s i Ei), (datas_nth s j Ej).
    pose proof (F_sset s i (fun _ => (- sget s j)%Z) Ei) as E1.
    assert (Ej' : slive (sset i (- sget s j) s) j = true) by (rewrite slive_sset; auto).
    pose proof (F_sset _ j (fun _ => sget s i) Ej') as E2.
    rewrite (count_some_sset s i _ Ei j) in E2.
    rewrite <- E2. injection E1 as E1a E1b. rewrite <- E1a, <- E1b. reflexivity.
  - destruct (sel_ok s l) eqn:E; inversion H; subst. apply sel_ok_parts in E as [E0 [E1 E2]].
    unfold fock_step. simpl fmap. rewrite (fock_remap_live s l E0 E1 E2).
    simpl faxes. rewrite (fock_meas_fold l s E1). unfold F. rewrite ranks_fold_sset0; auto.
  - destruct f as [k|]; [destruct ((length s =? k) && forallb is_some s)|]; inversion H; subst; reflexivity.
Qed.

(* ---- observations *)
Lemma somes_ranks : forall s c d, somes_from c (ranks d s) = somes_from c s.
Proof. induction s as [|x s IH]; intros c d; simpl; auto. destruct x; simpl; rewrite IH; reflexivity. Qed.

Lemma fock_modes_F s : fock_modes (F s) = slives s.
Proof. apply somes_ranks. Qed.

Lemma combine_view : forall s c, combine (somes_from c s) (datas s) = view_from c s.
Proof. induction s as [|x s IH]; intros c; simpl; auto. destruct x; simpl; rewrite IH; reflexivity. Qed.

Lemma fock_state_F s : fock_state (F s) = view s.
Proof. unfold fock_state. rewrite fock_modes_F. apply combine_view. Qed.

(* ModeMap restricted to the live indices is the order isomorphism onto [0, #live), and the tensor
   has exactly #live axes *)
Lemma fmap_F_nth s i : nth_error (fmap (F s)) i =
  match nth_error s i with Some (Some _) => Some (Some (rank s i)) | Some None => Some None | None => None end.
Proof. unfold F; simpl. rewrite ranks_nth. reflexivity. Qed.

Lemma datas_length s : length (datas s) = count_some s.
Proof. induction s as [|x s IH]; simpl; auto. destruct x; simpl; rewrite IH; reflexivity. Qed.

Lemma rank_bound s : forall i, slive s i = true -> rank s i < count_some s.
Proof.
  induction s as [|x s IH]; intros [|i] H; try discriminate H.
  - unfold slive in H; simpl in H. destruct x; [rewrite rank_0; simpl; lia | discriminate].
  - change (slive s i = true) in H. specialize (IH i H).
    destruct x as [d|].
    + rewrite rank_some. change (count_some (Some d :: s)) with (S (count_some s)). lia.
    + rewrite rank_none. change (count_some (@None Z :: s)) with (count_some s). lia.
Qed.
