(* The behaviour of tdm/program.py BEFORE the fix commits 253979f (apply_op), 225c39f (roll) and
   5a2f473 (unroll / space_unroll), kept under *_old names so that the refutations of the old
   behaviour stay machine-checked.  Nothing here models the current code. *)
From Coq Require Import List ZArith Bool Arith Lia.
Import ListNotations.
From SFV Require Import C13.Model.

(* apply_op_old:  params[i] = self.parameters[params[i].name][t % self.timebins]  for symbolic params
   (a non-atomic expression has no .name -> AttributeError, modelled as None), then
   self.append(cmd.op.__class__ applied to params, modes): the rebuilt operation has default dagger/select. *)
Definition subst_impl_old (timebins t : nat) (p : param) : option uparam :=
  match p with
  | PNum v => Some (UNum v)
  | PSym k => Some (UArr k (t mod timebins))
  | PExpr _ _ => None
  end.
Definition apply_op_old {M} (timebins : nat) (c : rcmd) (modes : list M) (t : nat) : option (ucmd M) :=
  match mapM (subst_impl_old timebins t) (r_params c) with
  | Some ps => if r_ctor c then Some (mkU (r_op c) ps modes false false) else None   (* TypeError *)
  | None => None                                                                    (* AttributeError *)
  end.


(* ---------------------------------------------------------------- _unroll_program *)
(* One pass over the rolled circuit at time bin t.  prev is previous_mode_index (one entry per
   command, by position).  Returns the emitted commands and the updated prev. *)
Fixpoint run_cmds_old (space : bool) (timebins t : nat) (q : list nat) (cs : list rcmd) (prev : list nat)
  : option (list (ucmd nat) * list nat) :=
  match cs with
  | [] => Some ([], [])
  | c :: cs' =>
    let p := hd 0 prev in
    let modes := get_modes c q in
    let looped := existsb (fun m => m <? p) modes in
    if space && looped then
      match run_cmds_old space timebins t q cs' (tl prev) with
      | Some (out, pv) => Some (out, p :: pv)
      | None => None
      end
    else
      match apply_op_old timebins c modes t with
      | None => None
      | Some u =>
        match run_cmds_old space timebins t q cs' (tl prev) with
        | Some (out, pv) => Some (u :: out, list_min modes :: pv)
        | None => None
        end
      end
  end.


(* for i in range(timebins): ...   (k = bins still to do, t = current bin) *)
Fixpoint run_bins_old (N : list nat) (sh : shiftspec) (space : bool) (timebins : nat) (cs : list rcmd)
         (k t : nat) (q prev : list nat) : option (list (ucmd nat) * list nat) :=
  match k with
  | 0 => Some ([], q)
  | S k' =>
    match run_cmds_old space timebins t q cs prev with
    | None => None
    | Some (out, prev') =>
      match run_bins_old N sh space timebins cs k' (S t) (shift_step N sh space q) prev' with
      | None => None
      | Some (rest, q') => Some (out ++ rest, q')
      end
    end
  end.

(* for _ in range(shots): previous_mode_index reset to 0, q carried over *)
Fixpoint run_shots_old (N : list nat) (sh : shiftspec) (space : bool) (timebins : nat) (cs : list rcmd)
         (shots : nat) (q : list nat) : option (list (ucmd nat)) :=
  match shots with
  | 0 => Some []
  | S s' =>
    match run_bins_old N sh space timebins cs timebins 0 q (map (fun _ => 0) cs) with
    | None => None
    | Some (out, q') =>
      match run_shots_old N sh space timebins cs s' q' with
      | None => None
      | Some rest => Some (out ++ rest)
      end
    end
  end.

Definition unroll_program_old N sh space timebins cs shots q := run_shots_old N sh space timebins cs shots q.


(* deactivate the last k active entries *)
Fixpoint deact_from_end_old (k : nat) (rev_regs : list bool) : list bool :=
  match k, rev_regs with
  | 0, _ => rev_regs
  | _, [] => []
  | S k', true :: r => false :: deact_from_end_old k' r
  | S _, false :: r => false :: deact_from_end_old k r
  end.
Definition delete_last_old (k : nat) (regs : list bool) : list bool := rev (deact_from_end_old k (rev regs)).


Definition do_roll_old (st : pstate) : pstate :=
  if negb (is_unrolled st) then st
  else
    match st_space st with
    | Some _ =>
      if (0 <? st_added st)%Z then
        mkS CRolled (delete_last_old (Z.to_nat (st_added st)) (st_regs st)) (st_init st - st_added st)
            (st_locked st) None None None 0
      else mkS CRolled (st_regs st) (st_init st) (st_locked st) None None None (st_added st)
    | None => mkS CRolled (st_regs st) (st_init st) (st_locked st) None None None (st_added st)
    end.

Section MachineOld.
  (* the program text: fixed during a history *)
  Variable N : list nat.
  Variable sh : shiftspec.
  Variable timebins : nat.
  Variable cs : list rcmd.


  Definition build_old (space : bool) (shots : nat) (q : list nat) : list (ucmd nat) :=
    match unroll_program_old N sh space timebins cs shots q with Some u => u | None => [] end.

  Definition do_unroll_old (shots : nat) (st : pstate) : pstate * outcome :=
    let lk := st_locked st in
    match st_unrolled st with
    | Some u =>
      if match st_shots st with Some s => Nat.eqb s shots | None => false end
      then (mkS (CUnrolled u) (st_regs st) (st_init st) false (st_unrolled st) (st_space st) (st_shots st) (st_added st), Done)
      else
        (* roll(): clears both caches, so the space-unrolled test below cannot fire *)
        let st1 := do_roll_old (mkS (st_circ st) (st_regs st) (st_init st) false (st_unrolled st) (st_space st) (st_shots st) (st_added st)) in
        let u' := build_old false shots (register st1) in
        (mkS (CUnrolled u') (st_regs st1) (st_init st1) lk (Some u') None (Some shots) (st_added st1), Done)
    | None =>
      match st_space st with
      | Some _ =>
        (mkS (st_circ st) (st_regs st) (st_init st) false None (st_space st) (Some shots) (st_added st), ValueError)
      | None =>
        let u' := build_old false shots (register st) in
        (mkS (CUnrolled u') (st_regs st) (st_init st) lk (Some u') None (Some shots) (st_added st), Done)
      end
    end.

  Definition do_space_unroll_fresh_old (shots : nat) (lk : bool) (st : pstate) : pstate * outcome :=
    let st1 := do_roll_old (mkS (st_circ st) (st_regs st) (st_init st) false (st_unrolled st) (st_space st) (st_shots st) (st_added st)) in
    let added := (Z.of_nat timebins - st_init st1 + (Z.of_nat (concurr N) - 1))%Z in
    let regs2 := if (0 <? added)%Z then st_regs st1 ++ repeat true (Z.to_nat added) else st_regs st1 in
    let init2 := if (0 <? added)%Z then (st_init st1 + added)%Z else st_init st1 in
    let u' := build_old true shots (register_of 0 regs2) in
    (mkS (CUnrolled u') regs2 init2 lk None (Some u') (Some shots) added, Done).

  Definition do_space_unroll_old (shots : nat) (st : pstate) : pstate * outcome :=
    let lk := st_locked st in
    match st_space st with
    | Some u =>
      if match st_shots st with Some s => Nat.eqb s shots | None => false end
      then (mkS (CUnrolled u) (st_regs st) (st_init st) false (st_unrolled st) (st_space st) (st_shots st) (st_added st), Done)
      else do_space_unroll_fresh_old shots lk st
    | None => do_space_unroll_fresh_old shots lk st
    end.

  Definition step_old (st : pstate) (c : call) : pstate * outcome :=
    match c with
    | Unroll s => do_unroll_old s st
    | SpaceUnroll s => do_space_unroll_old s st
    | Roll => (do_roll_old st, Done)
    | Lock => (mkS (st_circ st) (st_regs st) (st_init st) true (st_unrolled st) (st_space st) (st_shots st) (st_added st), Done)
    end.


  Fixpoint run_calls_old (st : pstate) (h : list call) : pstate :=
    match h with [] => st | c :: h' => run_calls_old (fst (step_old st c)) h' end.
  Fixpoint run_outcomes_old (st : pstate) (h : list call) : list outcome :=
    match h with [] => [] | c :: h' => snd (step_old st c) :: run_outcomes_old (fst (step_old st c)) h' end.
End MachineOld.

