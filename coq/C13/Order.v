(* _get_mode_order computes exactly the order in which a register-shifting run measures the modes,
   for every list of (non-empty) bands and every number of time bins -- unbounded. *)
From Coq Require Import List ZArith Bool Arith Lia.
Import ListNotations.
From SFV Require Import C13.Model C13.Proofs C13.Layout.

Lemma repeat_list_length : forall A k (l : list A), length (repeat_list k l) = k * length l.
Proof. induction k; intros; simpl; [reflexivity|]. now rewrite app_length, IHk. Qed.

Lemma map_nth_id : forall A (l : list A) d, map (fun i => nth i l d) (seq 0 (length l)) = l.
Proof.
  intros. apply nth_ext with (d := d) (d' := d); [now rewrite map_length, seq_length|].
  intros i Hi. rewrite map_length, seq_length in Hi.
  rewrite (nth_indep _ d (nth 0 l d)) by (now rewrite map_length, seq_length).
  rewrite (map_nth (fun i => nth i l d)). now rewrite seq_nth.
Qed.

Lemma repeat_list_nth : forall A k (l : list A) d, length l <> 0 ->
  repeat_list k l = map (fun i => nth (i mod length l) l d) (seq 0 (k * length l)).
Proof.
  induction k; intros l d Hl; [reflexivity|].
  simpl repeat_list. simpl Nat.mul. rewrite seq_app, map_app. f_equal.
  - rewrite <- (map_nth_id _ l d) at 1. apply map_ext_in. intros i Hi. apply in_seq in Hi.
    now rewrite Nat.mod_small by lia.
  - rewrite (IHk l d Hl). rewrite (seq_as_map (0 + length l)), map_map. apply map_ext. intros i.
    f_equal. simpl. replace (length l + i) with (i + 1 * length l) by lia. now rewrite Nat.mod_add.
Qed.

(* one row of _get_mode_order: timebin_modes * (1 + num // len) truncated to num *)
Lemma row_closed : forall s n num, 0 < n ->
  firstn num (repeat_list (1 + num / n) (seq s n)) = map (fun i => s + i mod n) (seq 0 num).
Proof.
  intros s n num Hn.
  rewrite (repeat_list_nth _ _ (seq s n) 0) by (rewrite seq_length; lia).
  rewrite seq_length, firstn_map.
  assert (num <= (1 + num / n) * n).
  { pose proof (Nat.div_mod num n ltac:(lia)). pose proof (Nat.mod_upper_bound num n ltac:(lia)). nia. }
  rewrite firstn_seq0 by assumption.
  apply map_ext_in. intros i Hi. rewrite seq_nth by (apply Nat.mod_upper_bound; lia). reflexivity.
Qed.

(* the bands as functions bin index -> measured mode *)
Definition band_fun (s : nat) (N : list nat) (b : nat) : nat -> nat :=
  fun i => s + band_start N b + i mod nth b N 1.

Fixpoint starts_from (s : nat) (N : list nat) : list nat :=
  match N with [] => [] | n :: N' => s :: starts_from (s + n) N' end.

Lemma starts_from_spec : forall N s, starts_from s N = map (fun b => s + band_start N b) (seq 0 (length N)).
Proof.
  induction N; intros; [reflexivity|].
  simpl. f_equal; [lia|].
  rewrite IHN. rewrite (seq_as_map 1), map_map. apply map_ext. intros b. simpl. lia.
Qed.

Lemma measured_starts : forall N, measured N = starts_from 0 N.
Proof. intros. unfold measured. now rewrite starts_from_spec. Qed.

Lemma band_rows_closed : forall num N s, Forall (fun n => 0 < n) N ->
  band_rows num s N (starts_from s N)
  = Some (map (fun b => map (band_fun s N b) (seq 0 num)) (seq 0 (length N))).
Proof.
  induction N; intros s H; [reflexivity|].
  inversion H; subst. simpl starts_from. cbv beta iota zeta delta [band_rows]. fold band_rows.
  rewrite Z.sub_diag, shift_by_0, seq_length.
  rewrite row_closed by assumption.
  destruct a as [|a']; [lia|].
  rewrite IHN by assumption. f_equal.
  simpl length. simpl seq. rewrite (seq_as_map 1). simpl map. f_equal.
  - apply map_ext. intros i. unfold band_fun. simpl. lia.
  - rewrite map_map. apply map_ext. intros b. apply map_ext. intros i. unfold band_fun. simpl. lia.
Qed.

Lemma heads_cols : forall (fs : list (nat -> nat)) a len,
  heads (map (fun f => map f (seq a (S len))) fs) = Some (map (fun f => f a) fs).
Proof. induction fs; intros; [reflexivity|]. specialize (IHfs a0 len). simpl in *. now rewrite IHfs. Qed.

Lemma interleave_cols : forall fuel (fs : list (nat -> nat)) a len, fs <> [] -> len <= fuel ->
  interleave fuel (map (fun f => map f (seq a len)) fs)
  = flat_map (fun i => map (fun f => f i) fs) (seq a len).
Proof.
  induction fuel; intros fs a len Hfs Hlen.
  - destruct len; [reflexivity|lia].
  - destruct fs as [|f fs]; [contradiction|].
    destruct len as [|len].
    + reflexivity.
    + cbv beta iota delta [interleave]. fold (@interleave nat).
      change (map (fun f0 => map f0 (seq a (S len))) (f :: fs))
        with ((map f (seq a (S len))) :: map (fun f0 => map f0 (seq a (S len))) fs) at 1.
      cbv iota. rewrite heads_cols.
      replace (map (@tl nat) (map (fun f0 => map f0 (seq a (S len))) (f :: fs)))
        with (map (fun f0 => map f0 (seq (S a) len)) (f :: fs))
        by (rewrite map_map; reflexivity).
      rewrite IHfuel by (try discriminate; lia). reflexivity.
Qed.

Lemma flat_map_chunks_length : forall A (g : nat -> list A) nb l,
  (forall i, length (g i) = nb) -> length (flat_map g l) = length l * nb.
Proof. induction l; intros H; simpl; [reflexivity|]. now rewrite app_length, H, IHl. Qed.

Lemma firstn_chunks : forall A (g : nat -> list A) nb G M, (forall i, length (g i) = nb) -> G <= M ->
  firstn (G * nb) (flat_map g (seq 0 M)) = flat_map g (seq 0 G).
Proof.
  intros A g nb G M Hg HGM. replace M with (G + (M - G)) by lia.
  rewrite seq_app, flat_map_app, firstn_app.
  rewrite (flat_map_chunks_length _ g nb) by assumption. rewrite seq_length.
  replace (G * nb - G * nb) with 0 by lia. simpl. rewrite app_nil_r.
  apply firstn_all2. rewrite (flat_map_chunks_length _ g nb) by assumption. rewrite seq_length. lia.
Qed.

(* the order in which an unrolled default-shift circuit measures: bin by bin, band by band, band b
   on register reference start_b + g mod N_b *)
Definition measurement_order (N : list nat) (G : nat) : list nat :=
  flat_map (fun g => map (fun b => band_start N b + g mod nth b N 1) (seq 0 (length N))) (seq 0 G).

Theorem mode_order_is_measurement_order : forall N G,
  N <> [] -> Forall (fun n => 0 < n) N ->
  get_mode_order (G * length N) (measured N) N = Some (measurement_order N G).
Proof.
  intros N G HN HF. unfold get_mode_order. rewrite measured_starts, band_rows_closed by assumption.
  f_equal.
  replace (map (fun b => map (band_fun 0 N b) (seq 0 (G * length N))) (seq 0 (length N)))
    with (map (fun f => map f (seq 0 (G * length N))) (map (band_fun 0 N) (seq 0 (length N))))
    by (now rewrite map_map).
  rewrite interleave_cols; [| |lia].
  - rewrite (firstn_chunks _ _ (length N)).
    + unfold measurement_order. apply flat_map_ext. intros g. rewrite map_map. reflexivity.
    + intros i. now rewrite !map_length, seq_length.
    + destruct N; [contradiction|]. simpl. nia.
  - destruct N; [contradiction|]. discriminate.
Qed.

Lemma events_order : forall N T shots, map fst (events N T shots) = measurement_order N (shots * T).
Proof.
  intros. unfold events, measurement_order. rewrite map_flat_map.
  apply flat_map_ext. intros g. rewrite map_map. reflexivity.
Qed.
