(* Refutations of the behaviour BEFORE the fix commits (definitions *_old of Old.v).  The current
   model satisfies the corresponding full theorems (Proofs.v, Machine.v). *)
From Coq Require Import List ZArith Bool Arith Lia.
Import ListNotations.
From SFV Require Import C13.Model C13.Old C13.Proofs.

(* ---------------------------------------------------------------- what the faithful model refutes *)
(* a daggered gate: the unrolled circuit is not the image of the explicit loop *)
Lemma dagger_old_refuted : exists cs, regs_ok [2] cs /\
  unroll_program_old [2] ShDefault false 3 cs 1 (seq 0 2) <> Some (map (rename (rho [2])) (loop_program [2] 3 cs 1)).
Proof.
  exists (ex_cs true false (PSym 0)). split.
  - repeat constructor.
  - vm_compute. discriminate.
Qed.

Lemma select_old_refuted : exists cs, regs_ok [2] cs /\
  unroll_program_old [2] ShDefault false 3 cs 1 (seq 0 2) <> Some (map (rename (rho [2])) (loop_program [2] 3 cs 1)).
Proof.
  exists (ex_cs false true (PSym 0)). split.
  - repeat constructor.
  - vm_compute. discriminate.
Qed.

(* a parameter that is an expression in p[0]: unrolling fails altogether *)
Lemma expr_old_refuted : exists cs, regs_ok [2] cs /\ unroll_program_old [2] ShDefault false 3 cs 1 (seq 0 2) = None.
Proof. exists (ex_cs false false (PExpr 0 0)). split; [repeat constructor|reflexivity]. Qed.

(* an operation whose class cannot be rebuilt from op.p (Fouriergate) *)
Lemma ctor_old_refuted : exists cs, regs_ok [2] cs /\ unroll_program_old [2] ShDefault false 3 cs 1 (seq 0 2) = None.
Proof. exists [mkR 3 [PNum 0] [1] false false false false]. split; [repeat constructor|reflexivity]. Qed.


(* ---------------------------------------------------------------- refuted parts of "restores exactly" *)
Definition ex_prog : list rcmd :=
  [ mkR 0 [PNum 0; PNum 1] [1] false false false true;
    mkR 1 [PSym 0; PNum 1] [0; 1] false false false true;
    mkR 2 [PSym 1] [0] true false false true ].

(* the whole register (including inactive references) is NOT restored *)
Lemma roll_register_old_refuted : exists h,
  st_regs (run_calls_old [2] ShDefault 3 ex_prog (init_state [2]) h) <> st_regs (init_state [2])
  /\ last h Lock = Roll.
Proof. exists [SpaceUnroll 1; Roll]. split; [vm_compute; discriminate|reflexivity]. Qed.

(* the lock flag is lost by the early returns *)
Lemma lock_old_refuted : exists h, In Lock h /\
  st_locked (run_calls_old [2] ShDefault 3 ex_prog (init_state [2]) h) = false.
Proof. exists [Lock; Unroll 1; Unroll 1]. split; [now left|reflexivity]. Qed.

(* a second space-unrolling after roll() acts on modes beyond init_num_subsystems *)
Definition max_mode (c : circ) : nat :=
  match c with CRolled => 0 | CUnrolled u => fold_right Nat.max 0 (flat_map (fun x => u_modes x) u) end.
Lemma space_unroll_again_old_refuted : exists h,
  let st := run_calls_old [2] ShDefault 3 ex_prog (init_state [2]) h in
  (st_init st <= Z.of_nat (max_mode (st_circ st)))%Z.
Proof. exists [SpaceUnroll 1; Roll; SpaceUnroll 1]. vm_compute. discriminate. Qed.

(* a failed unroll() poisons _unrolled_shots: space_unroll(2) then returns the 1-shot circuit *)
Lemma stale_shots_old_refuted : exists h,
  st_circ (run_calls_old [2] ShDefault 3 ex_prog (init_state [2]) (h ++ [SpaceUnroll 2]))
  <> st_circ (run_calls_old [2] ShDefault 3 ex_prog (init_state [2]) [SpaceUnroll 2]).
Proof. exists [SpaceUnroll 1; Unroll 2]. vm_compute. discriminate. Qed.
