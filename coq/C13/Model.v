(* Model of strawberryfields/tdm/program.py (TDMProgram unrolling, rolling, sample reshaping) — definitions only.

   Register references are natural numbers (RegRef.ind).  A rolled command carries an operation
   class id, its parameter list, the register *positions* it was written on inside the context
   (cmd.reg[i].ind), whether it is a Measurement, and the two keyword flags an Operation can carry
   besides its positional parameters (dagger, select).  Parameter values are opaque: a constant is
   an id into a table kept by the harness, `PSym k` is the bare loop symbol p[k], `PExpr e k` is
   any non-atomic symbolic expression (id e) over p[k], e.g. 2*p[k]. *)
From Coq Require Import List ZArith Bool Arith Lia.
Import ListNotations.

(* ---------------------------------------------------------------- Python slicing, shift_by *)
(* l[n:] and l[:n] for an arbitrary Python int n (nat subtraction truncates: |n| >= len l gives
   the whole list / the empty list, as in Python). *)
Definition py_from {A} (l : list A) (n : Z) : list A :=
  if (0 <=? n)%Z then skipn (Z.to_nat n) l else skipn (length l - Z.to_nat (- n)) l.
Definition py_upto {A} (l : list A) (n : Z) : list A :=
  if (0 <=? n)%Z then firstn (Z.to_nat n) l else firstn (length l - Z.to_nat (- n)) l.
(* def shift_by(l, n): return l[n:] + l[:n] *)
Definition shift_by {A} (l : list A) (n : Z) : list A := py_from l n ++ py_upto l n.

(* q_aux[sm[j]] = shift_by(q_aux[sm[j]], 1) for every band j, sm[j] = slice(sum N[:j], sum N[:j+1]) *)
Fixpoint shift_bands {A} (N : list nat) (q : list A) : list A :=
  match N with
  | [] => q
  | n :: N' => shift_by (firstn n q) 1 ++ shift_bands N' (skipn n q)
  end.

(* ---------------------------------------------------------------- commands *)
Inductive param := PNum (v : Z) | PSym (k : nat) | PExpr (e k : nat).
Inductive uparam := UNum (v : Z) | UArr (k t : nat) | UExpr (e k t : nat).

Record rcmd := mkR { r_op : nat; r_params : list param; r_regs : list nat;
                     r_meas : bool; r_dag : bool; r_sel : bool;
                     r_ctor : bool  (* type(op)( *op.p ) is a well-formed constructor call; false for
                                       Fouriergate, whose p = [pi/2] while __init__ takes no argument.
                                       Only the old apply_op (Old.v) depended on it. *) }.
Record ucmd (M : Type) := mkU { u_op : nat; u_params : list uparam; u_modes : list M;
                                u_dag : bool; u_sel : bool }.
Arguments mkU {M}. Arguments u_op {M}. Arguments u_params {M}. Arguments u_modes {M}.
Arguments u_dag {M}. Arguments u_sel {M}.

Inductive shiftspec := ShDefault | ShInt (s : Z).

Fixpoint mapM {A B} (f : A -> option B) (l : list A) : option (list B) :=
  match l with
  | [] => Some []
  | x :: l' => match f x, mapM f l' with Some y, Some r => Some (y :: r) | _, _ => None end
  end.

(* the operation at a time bin: the same operation (flags kept) with every parameter evaluated at
   the bin -- this is also what the explicit loop written by hand does *)
Definition subst_spec (timebins t : nat) (p : param) : uparam :=
  match p with
  | PNum v => UNum v
  | PSym k => UArr k (t mod timebins)
  | PExpr e k => UExpr e k (t mod timebins)
  end.
Definition spec_op {M} (timebins : nat) (c : rcmd) (modes : list M) (t : nat) : ucmd M :=
  mkU (r_op c) (map (subst_spec timebins t) (r_params c)) modes (r_dag c) (r_sel c).

(* apply_op (after fix 253979f): the operation is copied (copy.copy(cmd.op)), so dagger, select and
   everything else it carries are kept, and every parameter has the loop variables substituted by
   their value at the time bin, also inside composite expressions.  It cannot fail any more; the
   option type is kept only so that the unrolling functions keep their shape (see Old.v for the
   previous, partial behaviour). *)
Definition apply_op {M} (timebins : nat) (c : rcmd) (modes : list M) (t : nat) : option (ucmd M) :=
  Some (spec_op timebins c modes t).

(* _get_modes(cmd, q) = itemgetter of the inds of cmd.reg, applied to q *)
Definition get_modes (c : rcmd) (q : list nat) : list nat := map (fun r => nth r q 0) (r_regs c).

Fixpoint list_min (l : list nat) : nat :=
  match l with [] => 0 | [x] => x | x :: l' => Nat.min x (list_min l') end.

(* ---------------------------------------------------------------- _unroll_program *)
(* One pass over the rolled circuit at time bin t.  prev is previous_mode_index (one entry per
   command, by position).  Returns the emitted commands and the updated prev. *)
Fixpoint run_cmds (space : bool) (timebins t : nat) (q : list nat) (cs : list rcmd) (prev : list nat)
  : option (list (ucmd nat) * list nat) :=
  match cs with
  | [] => Some ([], [])
  | c :: cs' =>
    let p := hd 0 prev in
    let modes := get_modes c q in
    let looped := existsb (fun m => m <? p) modes in
    if space && looped then
      match run_cmds space timebins t q cs' (tl prev) with
      | Some (out, pv) => Some (out, p :: pv)
      | None => None
      end
    else
      match apply_op timebins c modes t with
      | None => None
      | Some u =>
        match run_cmds space timebins t q cs' (tl prev) with
        | Some (out, pv) => Some (u :: out, list_min modes :: pv)
        | None => None
        end
      end
  end.

Definition shift_step (N : list nat) (sh : shiftspec) (space : bool) (q : list nat) : list nat :=
  if space then shift_by q 1
  else match sh with ShDefault => shift_bands N q | ShInt s => shift_by q s end.

(* for i in range(timebins): ...   (k = bins still to do, t = current bin) *)
Fixpoint run_bins (N : list nat) (sh : shiftspec) (space : bool) (timebins : nat) (cs : list rcmd)
         (k t : nat) (q prev : list nat) : option (list (ucmd nat) * list nat) :=
  match k with
  | 0 => Some ([], q)
  | S k' =>
    match run_cmds space timebins t q cs prev with
    | None => None
    | Some (out, prev') =>
      match run_bins N sh space timebins cs k' (S t) (shift_step N sh space q) prev' with
      | None => None
      | Some (rest, q') => Some (out ++ rest, q')
      end
    end
  end.

(* for _ in range(shots): previous_mode_index reset to 0, q carried over *)
Fixpoint run_shots (N : list nat) (sh : shiftspec) (space : bool) (timebins : nat) (cs : list rcmd)
         (shots : nat) (q : list nat) : option (list (ucmd nat)) :=
  match shots with
  | 0 => Some []
  | S s' =>
    match run_bins N sh space timebins cs timebins 0 q (map (fun _ => 0) cs) with
    | None => None
    | Some (out, q') =>
      match run_shots N sh space timebins cs s' q' with
      | None => None
      | Some rest => Some (out ++ rest)
      end
    end
  end.

Definition unroll_program N sh space timebins cs shots q := run_shots N sh space timebins cs shots q.

(* ---------------------------------------------------------------- the explicit loop (specification) *)
(* Fresh modes are pairs (band, pulse number).  Register position r lies in band b at offset o;
   at global time bin g it holds pulse g + o of band b. *)
Fixpoint band_of (N : list nat) (r : nat) : nat * nat :=
  match N with
  | [] => (0, r)
  | n :: N' => if r <? n then (0, r) else let '(b, o) := band_of N' (r - n) in (S b, o)
  end.
Definition pulse_modes (N : list nat) (c : rcmd) (g : nat) : list (nat * nat) :=
  map (fun r => let '(b, o) := band_of N r in (b, g + o)) (r_regs c).
Definition loop_bin (N : list nat) (timebins : nat) (cs : list rcmd) (g : nat) : list (ucmd (nat * nat)) :=
  map (fun c => spec_op timebins c (pulse_modes N c g) (g mod timebins)) cs.
Definition loop_program (N : list nat) (timebins : nat) (cs : list rcmd) (shots : nat) : list (ucmd (nat * nat)) :=
  flat_map (loop_bin N timebins cs) (seq 0 (shots * timebins)).

(* the renaming of fresh modes onto register references done by the default shift *)
Fixpoint band_start (N : list nat) (b : nat) : nat :=
  match N, b with
  | _, 0 => 0
  | [], S _ => 0
  | n :: N', S b' => n + band_start N' b'
  end.
Definition rho (N : list nat) (m : nat * nat) : nat :=
  let '(b, j) := m in band_start N b + j mod (nth b N 1).
Definition rename {A B} (f : A -> B) (u : ucmd A) : ucmd B :=
  mkU (u_op u) (u_params u) (map f (u_modes u)) (u_dag u) (u_sel u).

(* single band, integer shift s >= 0 of the whole register: position o at bin g holds pulse o + s*g *)
Definition loop_bin_int (s timebins : nat) (cs : list rcmd) (g : nat) : list (ucmd nat) :=
  map (fun c => spec_op timebins c (map (fun r => r + s * g) (r_regs c)) (g mod timebins)) cs.
Definition loop_program_int (s timebins : nat) (cs : list rcmd) (shots : nat) : list (ucmd nat) :=
  flat_map (loop_bin_int s timebins cs) (seq 0 (shots * timebins)).

(* a rolled circuit the implementation's apply_op treats faithfully *)
Definition plain_param (p : param) : bool := match p with PExpr _ _ => false | _ => true end.
Definition plain_cmd (c : rcmd) : bool :=
  forallb plain_param (r_params c) && negb (r_dag c) && negb (r_sel c) && r_ctor c.

(* ---------------------------------------------------------------- unroll / space_unroll / roll *)
Inductive circ := CRolled | CUnrolled (u : list (ucmd nat)).

Set Primitive Projections.
Record pstate := mkS {
  st_circ : circ;                        (* self.circuit: the rolled circuit or an unrolled form *)
  st_regs : list bool;                   (* reg_refs: active flag of RegRef i *)
  st_init : Z;                           (* init_num_subsystems *)
  st_locked : bool;
  st_unrolled : option (list (ucmd nat));
  st_space : option (list (ucmd nat));
  st_shots : option nat;                 (* _unrolled_shots *)
  st_added : Z;                          (* _num_added_subsystems *)
}.
Unset Primitive Projections.

Inductive call := Unroll (shots : nat) | SpaceUnroll (shots : nat) | Roll | Lock.
Inductive outcome := Done | ValueError.

Fixpoint register_of (i : nat) (regs : list bool) : list nat :=
  match regs with
  | [] => []
  | a :: r => if a then i :: register_of (S i) r else register_of (S i) r
  end.
Definition register (st : pstate) : list nat := register_of 0 (st_regs st).

(* remove the last k active entries (del self.reg_refs[ref.ind] for ref in self.register[-k:]) *)
Fixpoint remove_from_end (k : nat) (rev_regs : list bool) : list bool :=
  match k, rev_regs with
  | 0, _ => rev_regs
  | _, [] => []
  | S k', true :: r => remove_from_end k' r
  | S _, false :: r => false :: remove_from_end k r
  end.
Definition delete_last (k : nat) (regs : list bool) : list bool := rev (remove_from_end k (rev regs)).

Definition is_unrolled (st : pstate) : bool :=
  match st_unrolled st, st_space st with None, None => false | _, _ => true end.

Definition do_roll (st : pstate) : pstate :=
  if negb (is_unrolled st) then st
  else
    match st_space st with
    | Some _ =>
      if (0 <? st_added st)%Z then
        mkS CRolled (delete_last (Z.to_nat (st_added st)) (st_regs st)) (st_init st - st_added st)
            (st_locked st) None None None 0
      else mkS CRolled (st_regs st) (st_init st) (st_locked st) None None None (st_added st)
    | None => mkS CRolled (st_regs st) (st_init st) (st_locked st) None None None (st_added st)
    end.

Section Machine.
  (* the program text: fixed during a history *)
  Variable N : list nat.
  Variable sh : shiftspec.
  Variable timebins : nat.
  Variable cs : list rcmd.

  Definition concurr : nat := fold_right Nat.add 0 N.

  Definition build (space : bool) (shots : nat) (q : list nat) : list (ucmd nat) :=
    match unroll_program N sh space timebins cs shots q with Some u => u | None => [] end.

  (* unroll (after fix 5a2f473): the space-unrolled test comes first and leaves the state untouched;
     the lock flag is restored on every path (try/finally). *)
  Definition do_unroll (shots : nat) (st : pstate) : pstate * outcome :=
    match st_unrolled st with
    | Some u =>
      if match st_shots st with Some s => Nat.eqb s shots | None => false end
      then (mkS (CUnrolled u) (st_regs st) (st_init st) (st_locked st) (st_unrolled st) (st_space st) (st_shots st) (st_added st), Done)
      else
        let st1 := do_roll st in
        let u' := build false shots (register st1) in
        (mkS (CUnrolled u') (st_regs st1) (st_init st1) (st_locked st) (Some u') None (Some shots) (st_added st1), Done)
    | None =>
      match st_space st with
      | Some _ => (st, ValueError)
      | None =>
        let u' := build false shots (register st) in
        (mkS (CUnrolled u') (st_regs st) (st_init st) (st_locked st) (Some u') None (Some shots) (st_added st), Done)
      end
    end.

  Definition do_space_unroll_fresh (shots : nat) (st : pstate) : pstate * outcome :=
    let st1 := do_roll st in
    let added := (Z.of_nat timebins - st_init st1 + (Z.of_nat concurr - 1))%Z in
    let regs2 := if (0 <? added)%Z then st_regs st1 ++ repeat true (Z.to_nat added) else st_regs st1 in
    let init2 := if (0 <? added)%Z then (st_init st1 + added)%Z else st_init st1 in
    let u' := build true shots (register_of 0 regs2) in
    (mkS (CUnrolled u') regs2 init2 (st_locked st) None (Some u') (Some shots) added, Done).

  Definition do_space_unroll (shots : nat) (st : pstate) : pstate * outcome :=
    match st_space st with
    | Some u =>
      if match st_shots st with Some s => Nat.eqb s shots | None => false end
      then (mkS (CUnrolled u) (st_regs st) (st_init st) (st_locked st) (st_unrolled st) (st_space st) (st_shots st) (st_added st), Done)
      else do_space_unroll_fresh shots st
    | None => do_space_unroll_fresh shots st
    end.

  Definition step (st : pstate) (c : call) : pstate * outcome :=
    match c with
    | Unroll s => do_unroll s st
    | SpaceUnroll s => do_space_unroll s st
    | Roll => (do_roll st, Done)
    | Lock => (mkS (st_circ st) (st_regs st) (st_init st) true (st_unrolled st) (st_space st) (st_shots st) (st_added st), Done)
    end.

  (* BaseEngine.get_tdm_options(program, shots=..., space_unroll=..., crop=...):
       shots = kwargs shots (None modelled as None; `shots or 1` is the unrolling count)
       received_rolled = program.is_unrolled                      (sic: the name is inverted in the source)
       space_unroll=True : space-unroll unless a space-unrolled circuit is already cached
       otherwise         : unroll unless the program is already (space-)unrolled
       modes = range(crop value or 0, timebins) iff the program is now space-unrolled, else None.
     cropv is program.get_crop_value() (modelled separately by crop_value).  Result:
     (state, modes as (lo, hi), "shots" handed to the operations is 1 (true) or None (false), received_rolled). *)
  Definition tdm_options (space_kw : bool) (shots : option nat) (crop : bool) (cropv : nat) (st : pstate)
    : pstate * option (nat * nat) * bool * bool :=
    let s := match shots with Some k => k | None => 1 end in
    let st1 := if space_kw
               then match st_space st with None => fst (do_space_unroll s st) | Some _ => st end
               else if is_unrolled st then st else fst (do_unroll s st) in
    let modes := match st_space st1 with
                 | Some _ => Some ((if crop then cropv else 0), timebins)
                 | None => None
                 end in
    (st1, modes, match shots with Some _ => true | None => false end, is_unrolled st).

  Definition init_state : pstate :=
    mkS CRolled (repeat true concurr) (Z.of_nat concurr) false None None None 0.

  Fixpoint run_calls (st : pstate) (h : list call) : pstate :=
    match h with [] => st | c :: h' => run_calls (fst (step st c)) h' end.
  Fixpoint run_outcomes (st : pstate) (h : list call) : list outcome :=
    match h with [] => [] | c :: h' => snd (step st c) :: run_outcomes (fst (step st c)) h' end.
End Machine.

(* ---------------------------------------------------------------- _get_mode_order, reshape_samples *)
Fixpoint sum_list (l : list nat) : nat := match l with [] => 0 | x :: r => x + sum_list r end.

Fixpoint repeat_list {A} (k : nat) (l : list A) : list A :=
  match k with 0 => [] | S k' => l ++ repeat_list k' l end.

(* zip of all rows, flattened: column-major interleaving, truncated at the shortest row *)
Fixpoint heads {A} (rows : list (list A)) : option (list A) :=
  match rows with
  | [] => Some []
  | [] :: _ => None
  | (x :: _) :: r => match heads r with Some h => Some (x :: h) | None => None end
  end.
Fixpoint interleave {A} (fuel : nat) (rows : list (list A)) : list A :=
  match fuel with
  | 0 => []
  | S f => match rows with
           | [] => []
           | _ => match heads rows with
                  | Some h => h ++ interleave f (map (@tl A) rows)
                  | None => []
                  end
           end
  end.

(* the mode order computed after the LAST band has been processed (the loop recomputes it each
   iteration; only the last value is returned).  modes.(i) is the measured mode of band i.
   Python's negative `shift` slicing is covered by shift_by on Z. *)
Fixpoint band_rows (num : nat) (start : nat) (N modes : list nat) : option (list (list nat)) :=
  match N with
  | [] => Some []
  | n :: N' =>
    match modes with
    | [] => None                                   (* modes[i] : IndexError *)
    | m :: modes' =>
      let tb := shift_by (seq start n) (Z.of_nat m - Z.of_nat start) in
      match length tb with
      | 0 => None                                  (* num // 0 : ZeroDivisionError *)
      | _ =>
        match band_rows num (start + n) N' modes' with
        | Some rows => Some (firstn num (repeat_list (1 + num / length tb) tb) :: rows)
        | None => None
        end
      end
    end
  end.
Definition get_mode_order (num : nat) (modes N : list nat) : option (list nat) :=
  match band_rows num 0 N modes with
  | Some rows => Some (firstn num (interleave num rows))
  | None => None
  end.

(* reshape_samples on abstract samples: samples_dict maps a mode to the list of its outcomes in
   measurement order.  Result: for every spatial key (measured mode of the band) the matrix
   [timebin][shot], i.e. new_samples before the final transpose. *)
Definition lookup {A} (d : list (nat * A)) (k : nat) : option A :=
  match find (fun kv => Nat.eqb (fst kv) k) d with Some kv => Some (snd kv) | None => None end.
Fixpoint update {A} (d : list (nat * A)) (k : nat) (v : A) : list (nat * A) :=
  match d with
  | [] => [(k, v)]
  | (k', v') :: r => if Nat.eqb k' k then (k, v) :: r else (k', v') :: update r k v
  end.
Fixpoint app_at {A} (rows : list (list A)) (i : nat) (x : A) : list (list A) :=
  match rows, i with
  | [], _ => []
  | r :: rs, 0 => (r ++ [x]) :: rs
  | r :: rs, S i' => r :: app_at rs i' x
  end.

(* returns None where Python raises (IndexError / KeyError / ZeroDivisionError) *)
Fixpoint reshape_loop {V} (samples : list (nat * list V)) (modes : list nat) (nb timebins : nat)
         (order : list nat) (i : nat) (tracker : list (nat * nat)) (tb : nat)
         (acc : list (nat * list (list V))) : option (list (nat * list (list V))) :=
  match order with
  | [] => Some acc
  | mode :: order' =>
    match nb with
    | 0 => None
    | _ =>
      match nth_error modes (i mod nb), lookup samples mode, lookup tracker mode with
      | Some key, Some vals, Some idx =>
        match nth_error vals idx with
        | None => None
        | Some s =>
          let rows := match lookup acc key with Some r => r | None => repeat [] timebins end in
          if tb <? length rows then
            let acc' := update acc key (app_at rows tb s) in
            let tb' := if Nat.eqb ((i + 1) mod nb) 0
                       then (match timebins with 0 => 0 | _ => (tb + 1) mod timebins end) else tb in
            match timebins, Nat.eqb ((i + 1) mod nb) 0 with
            | 0, true => None
            | _, _ => reshape_loop samples modes nb timebins order' (S i) (update tracker mode (S idx)) tb' acc'
            end
          else None
        end
      | _, _, _ => None
      end
    end
  end.
Definition reshape_samples {V} (samples : list (nat * list V)) (modes N : list nat) (timebins : nat)
  : option (list (nat * list (list V))) :=
  let num := sum_list (map (fun kv => length (snd kv)) samples) in
  match get_mode_order num modes N with
  | Some order => reshape_loop samples modes (length N) timebins order 0 (map (fun m => (m, 0)) order) 0 []
  | None => None
  end.

(* ---------------------------------------------------------------- get_delays / get_crop_value *)
(* bs: for every BSgate of the rolled circuit, its two register positions *)
Fixpoint insert_desc (x : nat) (l : list nat) : list nat :=
  match l with
  | [] => [x]
  | y :: r => if y <? x then x :: l else if Nat.eqb x y then l else y :: insert_desc x r
  end.
Definition sorted_set_desc (l : list nat) : list nat := fold_right insert_desc [] l.
Fixpoint diffs (l : list nat) : list nat :=
  match l with
  | a :: ((b :: _) as r) => (a - b) :: diffs r
  | _ => []
  end.
Definition get_delays (bs : list (nat * nat)) : list nat :=
  diffs (sorted_set_desc (flat_map (fun ab => [fst ab; snd ab]) bs)).

Fixpoint start_zeros (l : list bool) : nat :=   (* l.(i) = (alpha[i] != 0) *)
  match l with [] => 0 | true :: _ => 0 | false :: r => S (start_zeros r) end.
(* arrays: for each BSgate having a bare symbolic parameter, the non-zero pattern of that array *)
Fixpoint crop_value (arrival : nat) (arrays : list (list bool)) (delays : list nat) : nat :=
  match arrays, delays with
  | a :: arrays', d :: delays' => crop_value (arrival + Nat.min (start_zeros (skipn arrival a)) d) arrays' delays'
  | _, _ => arrival
  end.

(* ---------------------------------------------------------------- guards of get_delays / get_crop_value *)
(* get_delays raises NotImplementedError for more than one spatial mode, and -- when there is more
   than one beamsplitter -- when the ranges range(min, max) of all beamsplitters have a common
   element ("nested loops"): the intersection of intervals [lo_i, hi_i) is [max lo, min hi). *)
Definition bs_sorted (ab : nat * nat) : nat * nat := (Nat.min (fst ab) (snd ab), Nat.max (fst ab) (snd ab)).
Definition nested (bs : list (nat * nat)) : bool :=
  match bs with
  | [] | [_] => false
  | _ =>
    let s := map bs_sorted bs in
    fold_right Nat.max 0 (map fst s) <? fold_right Nat.min (fold_right Nat.max 0 (map snd s)) (map snd s)
  end.
Definition get_delays_opt (bands : nat) (bs : list (nat * nat)) : option (list nat) :=
  if 1 <? bands then None else if nested bs then None else Some (get_delays bs).
Definition get_crop_opt (bands : nat) (bs : list (nat * nat)) (arrays : list (list bool)) : option nat :=
  match get_delays_opt bands bs with
  | Some d => Some (crop_value 0 arrays d)
  | None => None
  end.

(* ---------------------------------------------------------------- shots resolution in get_tdm_options *)
(* shots = kwargs.get("shots", program.run_options.get("shots", 1)); outer None = key absent,
   inner None = the Python value None *)
Definition resolve_shots (kw ro : option (option nat)) : option nat :=
  match kw with
  | Some v => v
  | None => match ro with Some v => v | None => Some 1 end
  end.

(* ---------------------------------------------------------------- tdm/utils.py: vacuum_padding *)
(* loops: for each loop (in sorted key order) its BSgate argument list and its maximal delay.
   Values are opaque ids, id 0 is the number 0.  Returns the prologue of every loop and the total
   arrival time (the returned "crop"). *)
Fixpoint start_zeros_z (l : list Z) : nat :=
  match l with [] => 0 | x :: r => if (x =? 0)%Z then S (start_zeros_z r) else 0 end.
Fixpoint vp_arrivals (arrival : nat) (loops : list (list Z * nat)) : list nat * nat :=
  match loops with
  | [] => ([], arrival)
  | (alpha, d) :: r =>
    let z := start_zeros_z alpha in
    let delay := if Nat.eqb z (length alpha) then d else Nat.min z d in
    let '(ps, tot) := vp_arrivals (arrival + delay) r in
    (arrival :: ps, tot)
  end.
Definition pad (pro tot : nat) (l : list Z) : list Z := repeat 0%Z pro ++ l ++ repeat 0%Z (tot - pro).
(* gate_args = Sgate list, and per loop (Rgate list, BSgate list); delays *)
Definition vacuum_padding (sg : list Z) (loops : list (list Z * list Z)) (delays : list nat)
  : list Z * list (list Z * list Z) * nat :=
  let '(ps, tot) := vp_arrivals 0 (combine (map snd loops) delays) in
  (pad (hd 0 ps) tot sg,
   map (fun lp => (pad (snd lp) tot (fst (fst lp)), pad (snd lp) tot (snd (fst lp)))) (combine loops ps),
   tot).
