(* Observation functions used by the harness (tools/props/c13.py) to print model values as plain
   tuples of numbers / booleans / lists.  Definitions only. *)
From Coq Require Import List ZArith Bool Arith.
Import ListNotations.
From SFV Require Import C13.Model.

Definition obs_param (p : uparam) : nat * Z * nat * nat :=
  match p with
  | UNum v => (0, v, 0, 0)
  | UArr k t => (1, 0%Z, k, t)
  | UExpr e k t => (2, Z.of_nat e, k, t)
  end.
Definition obs_ucmd (u : ucmd nat) := (u_op u, map obs_param (u_params u), u_modes u, u_dag u, u_sel u).
Definition obs_pcmd (u : ucmd (nat * nat)) := (u_op u, map obs_param (u_params u), u_modes u, u_dag u, u_sel u).
Definition obs_circ (c : circ) := match c with CRolled => (true, []) | CUnrolled u => (false, map obs_ucmd u) end.
Definition obs_opt {A} (d : A) (o : option A) : bool * A := match o with Some x => (true, x) | None => (false, d) end.
Definition obs_state (st : pstate) :=
  (obs_circ (st_circ st), st_regs st, st_init st, st_locked st,
   (match st_unrolled st with Some _ => true | None => false end,
    match st_space st with Some _ => true | None => false end,
    obs_opt 0 (st_shots st), st_added st)).
Definition obs_outcome (o : outcome) : nat := match o with Done => 0 | ValueError => 1 end.

(* run a history, observing the state after every call *)
Fixpoint trace (N : list nat) (sh : shiftspec) (timebins : nat) (cs : list rcmd) (st : pstate) (h : list call) :=
  match h with
  | [] => []
  | c :: h' => let r := step N sh timebins cs st c in
               (obs_outcome (snd r), obs_state (fst r)) :: trace N sh timebins cs (fst r) h'
  end.

Definition obs_unroll N sh space timebins cs shots q :=
  match unroll_program N sh space timebins cs shots q with
  | Some u => (true, map obs_ucmd u)
  | None => (false, [])
  end.

(* get_tdm_options after a history *)
Definition obs_options N sh timebins cs (h : list call) (space_kw : bool) (kw ro : option (option nat)) (crop : bool) (cropv : nat) :=
  let st := run_calls N sh timebins cs (init_state N) h in
  let r := tdm_options N sh timebins cs space_kw (resolve_shots kw ro) crop cropv st in
  (obs_state (fst (fst (fst r))), (obs_opt (0, 0) (snd (fst (fst r))), snd (fst r), snd r)).

Definition obs_delays (bands : nat) (bs : list (nat * nat)) (arrays : list (list bool)) :=
  match get_delays_opt bands bs with
  | Some d => (true, d, crop_value 0 arrays d)
  | None => (false, [], 0)
  end.
