(* Register shifting refines the explicit loop: lemmas about coq/C13/Model.v. *)
From Coq Require Import List ZArith Bool Arith Lia.
Import ListNotations.
From SFV Require Import C13.Model.

(* ---------------------------------------------------------------- small list facts *)
Lemma shift_by_0 : forall A (l : list A), shift_by l 0 = l.
Proof. intros. unfold shift_by, py_from, py_upto. simpl. now rewrite app_nil_r. Qed.

Lemma shift_by_nat : forall A (l : list A) (s : nat),
  shift_by l (Z.of_nat s) = skipn s l ++ firstn s l.
Proof.
  intros. unfold shift_by, py_from, py_upto.
  destruct (0 <=? Z.of_nat s)%Z eqn:E; [|apply Z.leb_gt in E; lia].
  now rewrite Nat2Z.id.
Qed.

Lemma seq_as_map : forall a n, seq a n = map (fun d => a + d) (seq 0 n).
Proof.
  intros a n. revert a. induction n; intros; [reflexivity|].
  simpl. rewrite (IHn (S a)), (IHn 1), map_map. f_equal; [lia|]. apply map_ext. intros; lia.
Qed.

Lemma flat_map_map : forall A B C (g : A -> B) (f : B -> list C) l,
  flat_map f (map g l) = flat_map (fun x => f (g x)) l.
Proof. induction l; simpl; [reflexivity|]. now rewrite IHl. Qed.

Lemma flat_map_seq_shift : forall A (f : nat -> list A) a k,
  flat_map f (seq a k) = flat_map (fun d => f (a + d)) (seq 0 k).
Proof. intros. rewrite seq_as_map. apply flat_map_map. Qed.

Lemma flat_map_seq_S : forall A (f : nat -> list A) k,
  flat_map f (seq 0 (S k)) = f 0 ++ flat_map (fun d => f (S d)) (seq 0 k).
Proof. intros. simpl. f_equal. rewrite (flat_map_seq_shift _ f 1 k). reflexivity. Qed.

Lemma firstn_seq0 : forall s n, s <= n -> firstn s (seq 0 n) = seq 0 s.
Proof.
  intros. replace n with (s + (n - s)) by lia. rewrite seq_app.
  rewrite firstn_app. rewrite seq_length. replace (s - s) with 0 by lia. simpl.
  rewrite app_nil_r. apply firstn_all2. rewrite seq_length. lia.
Qed.

Lemma skipn_seq0 : forall s n, s <= n -> skipn s (seq 0 n) = seq s (n - s).
Proof.
  intros. replace n with (s + (n - s)) at 1 by lia. rewrite seq_app.
  rewrite skipn_app. rewrite seq_length. replace (s - s) with 0 by lia. simpl.
  rewrite skipn_all2; [reflexivity| rewrite seq_length; lia].
Qed.

(* rotating the closed form by s positions advances time by one bin *)
Lemma rotate_closed_form : forall base n s g, s <= n ->
  shift_by (map (fun o => base + (o + s * g) mod n) (seq 0 n)) (Z.of_nat s)
  = map (fun o => base + (o + s * S g) mod n) (seq 0 n).
Proof.
  intros base n s g Hs. rewrite shift_by_nat. rewrite skipn_map, firstn_map.
  rewrite skipn_seq0, firstn_seq0 by assumption.
  assert (E : seq 0 n = seq 0 (n - s) ++ seq (0 + (n - s)) s)
    by (rewrite <- seq_app; f_equal; lia).
  etransitivity; [|symmetry; rewrite E; reflexivity]. simpl. rewrite map_app. f_equal.
  - rewrite (seq_as_map s). rewrite map_map. apply map_ext. intros o. rewrite Nat.mul_succ_r. f_equal. f_equal. lia.
  - rewrite (seq_as_map (n - s)). rewrite map_map. apply map_ext_in. intros o Ho. apply in_seq in Ho. f_equal.
    destruct n; [lia|]. rewrite Nat.mul_succ_r.
    replace (S n - s + o + (s * g + s)) with (o + s * g + 1 * S n) by lia.
    now rewrite Nat.mod_add by lia.
Qed.

(* ---------------------------------------------------------------- plain commands *)
Lemma mapM_plain : forall T t ps, forallb plain_param ps = true ->
  mapM (subst_impl T t) ps = Some (map (subst_spec T t) ps).
Proof.
  induction ps; simpl; intros H; [reflexivity|].
  apply andb_true_iff in H. destruct H as [Ha Hps]. rewrite (IHps Hps).
  destruct a; simpl in *; try reflexivity. discriminate.
Qed.

Lemma apply_op_plain : forall M T c (modes : list M) t, plain_cmd c = true ->
  apply_op T c modes t = Some (spec_op T c modes t).
Proof.
  intros M T c modes t H. unfold plain_cmd in H.
  repeat (apply andb_true_iff in H; destruct H as [H ?]).
  unfold apply_op, spec_op. rewrite (mapM_plain _ _ _ H).
  apply negb_true_iff in H1. apply negb_true_iff in H2. rewrite H0, H1, H2. reflexivity.
Qed.

Definition all_plain (cs : list rcmd) : Prop := Forall (fun c => plain_cmd c = true) cs.

Lemma run_cmds_shift_plain : forall T t q cs prev, all_plain cs ->
  run_cmds false T t q cs prev
  = Some (map (fun c => spec_op T c (get_modes c q) t) cs, map (fun c => list_min (get_modes c q)) cs).
Proof.
  induction cs; intros prev H; simpl; [reflexivity|].
  inversion H; subst. rewrite apply_op_plain by assumption.
  rewrite (IHcs (tl prev)) by assumption. reflexivity.
Qed.

(* ---------------------------------------------------------------- default shift: closed form of q *)
Fixpoint qform (base : nat) (N : list nat) (g : nat) : list nat :=
  match N with
  | [] => []
  | n :: N' => map (fun o => base + (o + g) mod n) (seq 0 n) ++ qform (base + n) N' g
  end.

Lemma qform_0 : forall N base, qform base N 0 = seq base (sum_list N).
Proof.
  induction N; intros; simpl; [reflexivity|].
  rewrite seq_app. f_equal; [|apply IHN].
  rewrite (seq_as_map base). apply map_ext_in. intros o Ho. apply in_seq in Ho.
  rewrite Nat.add_0_r. rewrite Nat.mod_small by lia. reflexivity.
Qed.

Lemma shift_bands_qform : forall N base g, shift_bands N (qform base N g) = qform base N (S g).
Proof.
  induction N; intros; simpl; [reflexivity|].
  assert (L : length (map (fun o => base + (o + g) mod a) (seq 0 a)) = a)
    by now rewrite map_length, seq_length.
  rewrite firstn_app, skipn_app, L. replace (a - a) with 0 by lia. simpl firstn at 2. simpl skipn at 2.
  rewrite app_nil_r. rewrite firstn_all2 by lia. rewrite skipn_all2 by lia. simpl app at 2.
  rewrite IHN. f_equal.
  pose proof (rotate_closed_form base a 1 g) as R.
  destruct a as [|a']; [reflexivity|].
  specialize (R ltac:(lia)). simpl Z.of_nat in R.
  etransitivity; [etransitivity; [|exact R]|].
  - f_equal. apply map_ext. intros. f_equal. f_equal. lia.
  - apply map_ext. intros. f_equal. f_equal. lia.
Qed.

Lemma nth_map_seq : forall (f : nat -> nat) n r d, r < n -> nth r (map f (seq 0 n)) d = f r.
Proof.
  intros. rewrite (nth_indep _ d (f 0)) by (now rewrite map_length, seq_length).
  rewrite map_nth, seq_nth by assumption. reflexivity.
Qed.

Lemma nth_qform : forall N base g r, r < sum_list N ->
  nth r (qform base N g) 0 = base + rho N (fst (band_of N r), g + snd (band_of N r)).
Proof.
  induction N; intros base g r Hr; simpl in Hr; [lia|].
  simpl qform. simpl band_of.
  destruct (r <? a) eqn:E.
  - apply Nat.ltb_lt in E. rewrite app_nth1 by (now rewrite map_length, seq_length).
    rewrite nth_map_seq by assumption. simpl. f_equal. f_equal. lia.
  - apply Nat.ltb_ge in E.
    rewrite app_nth2 by (rewrite map_length, seq_length; lia).
    rewrite map_length, seq_length. rewrite IHN by lia.
    destruct (band_of N (r - a)) as [b o] eqn:B. simpl. lia.
Qed.

Lemma get_modes_qform : forall N g c, Forall (fun r => r < sum_list N) (r_regs c) ->
  get_modes c (qform 0 N g) = map (rho N) (pulse_modes N c g).
Proof.
  intros N g c H. unfold get_modes, pulse_modes. rewrite map_map.
  apply map_ext_in. intros r Hr. rewrite Forall_forall in H. specialize (H r Hr).
  rewrite nth_qform by assumption. simpl.
  destruct (band_of N r) as [b o]. reflexivity.
Qed.

Definition regs_ok (N : list nat) (cs : list rcmd) : Prop :=
  Forall (fun c => Forall (fun r => r < sum_list N) (r_regs c)) cs.

Section Default.
  Variable N : list nat.
  Variable T : nat.
  Variable cs : list rcmd.
  Hypothesis Hplain : all_plain cs.
  Hypothesis Hregs : regs_ok N cs.

  Definition bin_out (i g : nat) : list (ucmd nat) :=
    map (fun c => spec_op T c (get_modes c (qform 0 N g)) i) cs.

  Lemma run_bins_default : forall k i g prev,
    run_bins N ShDefault false T cs k i (qform 0 N g) prev
    = Some (flat_map (fun d => bin_out (i + d) (g + d)) (seq 0 k), qform 0 N (g + k)).
  Proof.
    induction k; intros i g prev.
    - simpl. now rewrite Nat.add_0_r.
    - cbv beta iota delta [run_bins]. fold run_bins.
      rewrite run_cmds_shift_plain by exact Hplain.
      unfold shift_step. rewrite shift_bands_qform. rewrite IHk.
      rewrite flat_map_seq_S. rewrite !Nat.add_0_r.
      replace (S g + k) with (g + S k) by lia. f_equal. f_equal. f_equal.
      apply flat_map_ext. intros d. f_equal; lia.
  Qed.

  Lemma bin_out_loop : forall g, T <> 0 ->
    bin_out (g mod T) g = map (rename (rho N)) (loop_bin N T cs g).
  Proof.
    intros g HT. unfold bin_out, loop_bin. rewrite map_map.
    apply map_ext_in. intros c Hc. unfold rename, spec_op. simpl.
    unfold regs_ok in Hregs. rewrite Forall_forall in Hregs.
    rewrite get_modes_qform by (apply Hregs; exact Hc).
    reflexivity.
  Qed.

  Lemma run_shots_default : forall shots a,
    run_shots N ShDefault false T cs shots (qform 0 N (a * T))
    = Some (map (rename (rho N)) (flat_map (loop_bin N T cs) (seq (a * T) (shots * T)))).
  Proof.
    induction shots; intros a; [reflexivity|].
    cbv beta iota delta [run_shots]. fold run_shots.
    rewrite run_bins_default.
    replace (a * T + T) with (S a * T) by lia. rewrite IHshots.
    f_equal. simpl Nat.mul. rewrite seq_app, flat_map_app, map_app. f_equal.
    - rewrite (flat_map_seq_shift _ (loop_bin N T cs) (a * T) T).
      destruct (Nat.eq_dec T 0) as [->|HT]; [reflexivity|].
      rewrite flat_map_concat_map, concat_map, map_map, <- flat_map_concat_map.
      apply flat_map_ext_in || idtac.
      rewrite !flat_map_concat_map. f_equal. apply map_ext_in. intros d Hd. apply in_seq in Hd.
      rewrite <- bin_out_loop by assumption. simpl.
      replace ((a * T + d) mod T) with d; [reflexivity|].
      rewrite Nat.add_comm, Nat.mod_add by assumption. symmetry. apply Nat.mod_small. lia.
    - f_equal. f_equal. f_equal. lia.
  Qed.

  Theorem shift_refines_loop : forall shots,
    unroll_program N ShDefault false T cs shots (seq 0 (sum_list N))
    = Some (map (rename (rho N)) (loop_program N T cs shots)).
  Proof.
    intros shots. unfold unroll_program, loop_program.
    rewrite <- (qform_0 N 0). exact (run_shots_default shots 0).
  Qed.
End Default.
