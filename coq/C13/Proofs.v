(* Register shifting refines the explicit loop: lemmas about coq/C13/Model.v. *)
From Coq Require Import List ZArith Bool Arith Lia.
Import ListNotations.
From SFV Require Import C13.Model.

(* ---------------------------------------------------------------- small list facts *)
Lemma shift_by_0 : forall A (l : list A), shift_by l 0 = l.
Proof. intros. unfold shift_by, py_from, py_upto. simpl. now rewrite app_nil_r. Qed.

Lemma shift_by_nat : forall A (l : list A) (s : nat),
  shift_by l (Z.of_nat s) = skipn s l ++ firstn s l.
Proof.
  intros. unfold shift_by, py_from, py_upto.
  destruct (0 <=? Z.of_nat s)%Z eqn:E; [|apply Z.leb_gt in E; lia].
  now rewrite Nat2Z.id.
Qed.

Lemma seq_as_map : forall a n, seq a n = map (fun d => a + d) (seq 0 n).
Proof.
  intros a n. revert a. induction n; intros; [reflexivity|].
  simpl. rewrite (IHn (S a)), (IHn 1), map_map. f_equal; [lia|]. apply map_ext. intros; lia.
Qed.

Lemma flat_map_map : forall A B C (g : A -> B) (f : B -> list C) l,
  flat_map f (map g l) = flat_map (fun x => f (g x)) l.
Proof. induction l; simpl; [reflexivity|]. now rewrite IHl. Qed.

Lemma flat_map_seq_shift : forall A (f : nat -> list A) a k,
  flat_map f (seq a k) = flat_map (fun d => f (a + d)) (seq 0 k).
Proof. intros. rewrite seq_as_map. apply flat_map_map. Qed.

Lemma flat_map_seq_S : forall A (f : nat -> list A) k,
  flat_map f (seq 0 (S k)) = f 0 ++ flat_map (fun d => f (S d)) (seq 0 k).
Proof. intros. simpl. f_equal. rewrite (flat_map_seq_shift _ f 1 k). reflexivity. Qed.

Lemma map_flat_map : forall A B C (f : B -> C) (g : A -> list B) l,
  map f (flat_map g l) = flat_map (fun x => map f (g x)) l.
Proof. induction l; simpl; [reflexivity|]. now rewrite map_app, IHl. Qed.

Lemma flat_map_ext_In : forall A B (f g : A -> list B) l,
  (forall x, In x l -> f x = g x) -> flat_map f l = flat_map g l.
Proof.
  induction l; simpl; intros H; [reflexivity|].
  rewrite (H a) by now left. rewrite IHl; [reflexivity|]. intros; apply H; now right.
Qed.

Lemma firstn_seq0 : forall s n, s <= n -> firstn s (seq 0 n) = seq 0 s.
Proof.
  intros. replace n with (s + (n - s)) by lia. rewrite seq_app.
  rewrite firstn_app. rewrite seq_length. replace (s - s) with 0 by lia. simpl.
  rewrite app_nil_r. apply firstn_all2. rewrite seq_length. lia.
Qed.

Lemma skipn_seq0 : forall s n, s <= n -> skipn s (seq 0 n) = seq s (n - s).
Proof.
  intros. replace n with (s + (n - s)) at 1 by lia. rewrite seq_app.
  rewrite skipn_app. rewrite seq_length. replace (s - s) with 0 by lia. simpl.
  rewrite skipn_all2; [reflexivity| rewrite seq_length; lia].
Qed.

(* rotating the closed form by s positions advances time by one bin *)
Lemma rotate_closed_form : forall base n s g, s <= n ->
  shift_by (map (fun o => base + (o + s * g) mod n) (seq 0 n)) (Z.of_nat s)
  = map (fun o => base + (o + s * S g) mod n) (seq 0 n).
Proof.
  intros base n s g Hs. rewrite shift_by_nat. rewrite skipn_map, firstn_map.
  rewrite skipn_seq0, firstn_seq0 by assumption.
  assert (E : seq 0 n = seq 0 (n - s) ++ seq (0 + (n - s)) s)
    by (rewrite <- seq_app; f_equal; lia).
  etransitivity; [|symmetry; rewrite E; reflexivity]. simpl. rewrite map_app. f_equal.
  - rewrite (seq_as_map s). rewrite map_map. apply map_ext. intros o. rewrite Nat.mul_succ_r. f_equal. f_equal. lia.
  - rewrite (seq_as_map (n - s)). rewrite map_map. apply map_ext_in. intros o Ho. apply in_seq in Ho. f_equal.
    destruct n; [lia|]. rewrite Nat.mul_succ_r.
    replace (S n - s + o + (s * g + s)) with (o + s * g + 1 * S n) by lia.
    now rewrite Nat.mod_add by lia.
Qed.

(* ---------------------------------------------------------------- one pass over the rolled circuit *)
Lemma run_cmds_shift : forall T t q cs prev,
  run_cmds false T t q cs prev
  = Some (map (fun c => spec_op T c (get_modes c q) t) cs, map (fun c => list_min (get_modes c q)) cs).
Proof.
  induction cs; intros prev; simpl; [reflexivity|].
  unfold apply_op. rewrite (IHcs (tl prev)). reflexivity.
Qed.

(* ---------------------------------------------------------------- default shift: closed form of q *)
Fixpoint qform (base : nat) (N : list nat) (g : nat) : list nat :=
  match N with
  | [] => []
  | n :: N' => map (fun o => base + (o + g) mod n) (seq 0 n) ++ qform (base + n) N' g
  end.

Lemma qform_0 : forall N base, qform base N 0 = seq base (sum_list N).
Proof.
  induction N; intros; simpl; [reflexivity|].
  rewrite seq_app. f_equal; [|apply IHN].
  rewrite (seq_as_map base). apply map_ext_in. intros o Ho. apply in_seq in Ho.
  rewrite Nat.add_0_r. rewrite Nat.mod_small by lia. reflexivity.
Qed.

Lemma shift_bands_qform : forall N base g, shift_bands N (qform base N g) = qform base N (S g).
Proof.
  induction N; intros; simpl; [reflexivity|].
  assert (L : length (map (fun o => base + (o + g) mod a) (seq 0 a)) = a)
    by now rewrite map_length, seq_length.
  rewrite firstn_app, skipn_app, L. replace (a - a) with 0 by lia. simpl firstn at 2. simpl skipn at 2.
  rewrite app_nil_r. rewrite firstn_all2 by lia. rewrite skipn_all2 by lia. simpl app at 2.
  rewrite IHN. f_equal.
  pose proof (rotate_closed_form base a 1 g) as R.
  destruct a as [|a']; [reflexivity|].
  specialize (R ltac:(lia)). simpl Z.of_nat in R.
  etransitivity; [etransitivity; [|exact R]|].
  - f_equal. apply map_ext. intros. f_equal. f_equal. lia.
  - apply map_ext. intros. f_equal. f_equal. lia.
Qed.

Lemma nth_map_seq : forall (f : nat -> nat) n r d, r < n -> nth r (map f (seq 0 n)) d = f r.
Proof.
  intros. rewrite (nth_indep _ d (f 0)) by (now rewrite map_length, seq_length).
  rewrite map_nth, seq_nth by assumption. reflexivity.
Qed.

Lemma nth_qform : forall N base g r, r < sum_list N ->
  nth r (qform base N g) 0 = base + rho N (fst (band_of N r), g + snd (band_of N r)).
Proof.
  induction N; intros base g r Hr; simpl in Hr; [lia|].
  simpl qform. simpl band_of.
  destruct (r <? a) eqn:E.
  - apply Nat.ltb_lt in E. rewrite app_nth1 by (now rewrite map_length, seq_length).
    rewrite nth_map_seq by assumption. simpl. f_equal. f_equal. lia.
  - apply Nat.ltb_ge in E.
    rewrite app_nth2 by (rewrite map_length, seq_length; lia).
    rewrite map_length, seq_length. rewrite IHN by lia.
    destruct (band_of N (r - a)) as [b o] eqn:B. simpl. lia.
Qed.

Lemma get_modes_qform : forall N g c, Forall (fun r => r < sum_list N) (r_regs c) ->
  get_modes c (qform 0 N g) = map (rho N) (pulse_modes N c g).
Proof.
  intros N g c H. unfold get_modes, pulse_modes. rewrite map_map.
  apply map_ext_in. intros r Hr. rewrite Forall_forall in H. specialize (H r Hr).
  rewrite nth_qform by assumption. simpl.
  destruct (band_of N r) as [b o]. reflexivity.
Qed.

Definition regs_ok (N : list nat) (cs : list rcmd) : Prop :=
  Forall (fun c => Forall (fun r => r < sum_list N) (r_regs c)) cs.

Section Default.
  Variable N : list nat.
  Variable T : nat.
  Variable cs : list rcmd.
  Hypothesis Hregs : regs_ok N cs.

  Definition bin_out (i g : nat) : list (ucmd nat) :=
    map (fun c => spec_op T c (get_modes c (qform 0 N g)) i) cs.

  Lemma run_bins_default : forall k i g prev,
    run_bins N ShDefault false T cs k i (qform 0 N g) prev
    = Some (flat_map (fun d => bin_out (i + d) (g + d)) (seq 0 k), qform 0 N (g + k)).
  Proof.
    induction k; intros i g prev.
    - simpl. now rewrite Nat.add_0_r.
    - cbv beta iota delta [run_bins]. fold run_bins.
      rewrite run_cmds_shift.
      unfold shift_step. rewrite shift_bands_qform. rewrite IHk.
      rewrite flat_map_seq_S. rewrite !Nat.add_0_r.
      replace (S g + k) with (g + S k) by lia. f_equal. f_equal. f_equal.
      apply flat_map_ext. intros d. f_equal; lia.
  Qed.

  Lemma bin_out_loop : forall g, T <> 0 ->
    bin_out (g mod T) g = map (rename (rho N)) (loop_bin N T cs g).
  Proof.
    intros g HT. unfold bin_out, loop_bin. rewrite map_map.
    apply map_ext_in. intros c Hc. unfold rename, spec_op. simpl.
    unfold regs_ok in Hregs. rewrite Forall_forall in Hregs.
    rewrite get_modes_qform by (apply Hregs; exact Hc).
    reflexivity.
  Qed.

  Lemma run_shots_default : forall shots a,
    run_shots N ShDefault false T cs shots (qform 0 N (a * T))
    = Some (map (rename (rho N)) (flat_map (loop_bin N T cs) (seq (a * T) (shots * T)))).
  Proof.
    induction shots; intros a; [reflexivity|].
    cbv beta iota delta [run_shots]. fold run_shots.
    rewrite run_bins_default.
    replace (a * T + T) with (S a * T) by lia. rewrite IHshots.
    f_equal. simpl Nat.mul. rewrite seq_app, flat_map_app, map_app. f_equal.
    - rewrite (flat_map_seq_shift _ (loop_bin N T cs) (a * T) T).
      destruct (Nat.eq_dec T 0) as [HT|HT]; [rewrite HT; reflexivity|].
      rewrite map_flat_map. apply flat_map_ext_In. intros d Hd. apply in_seq in Hd.
      rewrite <- bin_out_loop by assumption. simpl.
      replace ((a * T + d) mod T) with d; [reflexivity|].
      rewrite Nat.add_comm, Nat.mod_add by assumption. symmetry. apply Nat.mod_small. lia.
    - f_equal. f_equal. f_equal. lia.
  Qed.

  Theorem shift_refines_loop : forall shots,
    unroll_program N ShDefault false T cs shots (seq 0 (sum_list N))
    = Some (map (rename (rho N)) (loop_program N T cs shots)).
  Proof.
    intros shots. unfold unroll_program, loop_program.
    rewrite <- (qform_0 N 0). exact (run_shots_default shots 0).
  Qed.
End Default.

(* ---------------------------------------------------------------- integer shift of the whole register *)
Section IntShift.
  Variable N : list nat.     (* irrelevant for an integer shift *)
  Variable n s T : nat.
  Variable cs : list rcmd.
  Hypothesis Hs : s <= n.
  Hypothesis Hregs : Forall (fun c => Forall (fun r => r < n) (r_regs c)) cs.

  Definition qint (g : nat) : list nat := map (fun o => 0 + (o + s * g) mod n) (seq 0 n).

  Lemma qint_0 : qint 0 = seq 0 n.
  Proof.
    unfold qint. rewrite <- (map_id (seq 0 n)) at 2. apply map_ext_in. intros o Ho. apply in_seq in Ho.
    rewrite Nat.mul_0_r, Nat.add_0_r. simpl. apply Nat.mod_small. lia.
  Qed.

  Lemma get_modes_qint : forall g c, Forall (fun r => r < n) (r_regs c) ->
    get_modes c (qint g) = map (fun j => j mod n) (map (fun r => r + s * g) (r_regs c)).
  Proof.
    intros g c H. unfold get_modes, qint. rewrite map_map. apply map_ext_in. intros r Hr.
    rewrite Forall_forall in H. rewrite nth_map_seq by (apply H; exact Hr). reflexivity.
  Qed.

  Definition bin_out_int (i g : nat) : list (ucmd nat) :=
    map (fun c => spec_op T c (get_modes c (qint g)) i) cs.

  Lemma run_bins_int : forall k i g prev,
    run_bins N (ShInt (Z.of_nat s)) false T cs k i (qint g) prev
    = Some (flat_map (fun d => bin_out_int (i + d) (g + d)) (seq 0 k), qint (g + k)).
  Proof.
    induction k; intros i g prev.
    - simpl. now rewrite Nat.add_0_r.
    - cbv beta iota delta [run_bins]. fold run_bins.
      rewrite run_cmds_shift.
      unfold shift_step. unfold qint at 1. rewrite rotate_closed_form by exact Hs. fold (qint (S g)).
      rewrite IHk. rewrite flat_map_seq_S. rewrite !Nat.add_0_r.
      replace (S g + k) with (g + S k) by lia. f_equal. f_equal. f_equal.
      apply flat_map_ext. intros d. f_equal; lia.
  Qed.

  Lemma bin_out_int_loop : forall g,
    bin_out_int (g mod T) g = map (rename (fun j => j mod n)) (loop_bin_int s T cs g).
  Proof.
    intros g. unfold bin_out_int, loop_bin_int. rewrite map_map.
    apply map_ext_in. intros c Hc. unfold rename, spec_op. simpl.
    rewrite Forall_forall in Hregs. rewrite get_modes_qint by (apply Hregs; exact Hc). reflexivity.
  Qed.

  Lemma run_shots_int : forall shots a,
    run_shots N (ShInt (Z.of_nat s)) false T cs shots (qint (a * T))
    = Some (map (rename (fun j => j mod n)) (flat_map (loop_bin_int s T cs) (seq (a * T) (shots * T)))).
  Proof.
    induction shots; intros a; [reflexivity|].
    cbv beta iota delta [run_shots]. fold run_shots.
    rewrite run_bins_int.
    replace (a * T + T) with (S a * T) by lia. rewrite IHshots.
    f_equal. simpl Nat.mul. rewrite seq_app, flat_map_app, map_app. f_equal.
    - rewrite (flat_map_seq_shift _ (loop_bin_int s T cs) (a * T) T).
      destruct (Nat.eq_dec T 0) as [HT|HT]; [rewrite HT; reflexivity|].
      rewrite map_flat_map. apply flat_map_ext_In. intros d Hd. apply in_seq in Hd.
      rewrite <- bin_out_int_loop. simpl.
      replace ((a * T + d) mod T) with d; [reflexivity|].
      rewrite Nat.add_comm, Nat.mod_add by assumption. symmetry. apply Nat.mod_small. lia.
    - f_equal. f_equal. f_equal. lia.
  Qed.

  Theorem shift_int_refines_loop : forall shots,
    unroll_program N (ShInt (Z.of_nat s)) false T cs shots (seq 0 n)
    = Some (map (rename (fun j => j mod n)) (loop_program_int s T cs shots)).
  Proof.
    intros shots. unfold unroll_program, loop_program_int.
    rewrite <- qint_0. exact (run_shots_int shots 0).
  Qed.
End IntShift.

(* ---------------------------------------------------------------- space unrolling, one band, one shot *)
Lemma list_min_le : forall l x, In x l -> list_min l <= x.
Proof.
  induction l as [|a l IH]; intros x H; [destruct H|].
  destruct l as [|b l'].
  - destruct H as [->|[]]. simpl. lia.
  - change (list_min (a :: b :: l')) with (Nat.min a (list_min (b :: l'))).
    destruct H as [->|H]; [apply Nat.le_min_l|].
    etransitivity; [apply Nat.le_min_r|]. apply IH. exact H.
Qed.

Lemma run_cmds_space : forall T t q cs prev,
  Forall2 (fun c p => Forall (fun m => p <= m) (get_modes c q)) cs prev ->
  run_cmds true T t q cs prev
  = Some (map (fun c => spec_op T c (get_modes c q) t) cs, map (fun c => list_min (get_modes c q)) cs).
Proof.
  induction cs; intros prev H.
  - inversion H; subst. reflexivity.
  - inversion H as [|c0 y cs0 l' Hy Hrest]; subst. simpl.
    assert (E : existsb (fun m => m <? y) (get_modes a q) = false).
    { apply not_true_is_false. intros C. apply existsb_exists in C. destruct C as [m [Hm Hlt]].
      apply Nat.ltb_lt in Hlt. rewrite Forall_forall in Hy. specialize (Hy m Hm). lia. }
    rewrite E. simpl. unfold apply_op.
    rewrite (IHcs l') by assumption. reflexivity.
Qed.

Section Space.
  Variable N : list nat.
  Variable sh : shiftspec.
  Variable n T : nat.
  Variable cs : list rcmd.
  Hypothesis Hn : 0 < n.
  Hypothesis Hregs : Forall (fun c => Forall (fun r => r < n) (r_regs c)) cs.

  Let L := n + (T - 1).
  Let qs (g : nat) := qint L 1 g.

  Lemma regs_lt_L : Forall (fun c => Forall (fun r => r < L) (r_regs c)) cs.
  Proof.
    eapply Forall_impl; [|exact Hregs]. intros c Hc. eapply Forall_impl; [|exact Hc].
    intros r Hr. unfold L. simpl in *. lia.
  Qed.

  Lemma modes_space : forall g c, g < T -> In c cs ->
    get_modes c (qs g) = map (fun r => r + 1 * g) (r_regs c).
  Proof.
    intros g c Hg Hc. unfold qs. pose proof regs_lt_L as HL. rewrite Forall_forall in HL.
    rewrite get_modes_qint by (apply HL; exact Hc). rewrite map_map.
    apply map_ext_in. intros r Hr. rewrite Forall_forall in Hregs. specialize (Hregs c Hc).
    rewrite Forall_forall in Hregs. specialize (Hregs r Hr). apply Nat.mod_small. unfold L. lia.
  Qed.

  Definition inv (g : nat) (prev : list nat) : Prop :=
    Forall2 (fun c p => forall r, In r (r_regs c) -> p <= r + g) cs prev.

  Lemma inv_modes : forall g prev, g < T -> inv g prev ->
    Forall2 (fun c p => Forall (fun m => p <= m) (get_modes c (qs g))) cs prev.
  Proof.
    intros g prev Hg H. unfold inv in H.
    assert (G : forall l prev', (forall c, In c l -> In c cs) ->
              Forall2 (fun c p => forall r, In r (r_regs c) -> p <= r + g) l prev' ->
              Forall2 (fun c p => Forall (fun m => p <= m) (get_modes c (qs g))) l prev').
    { induction l; intros prev' Hin F; inversion F; subst; constructor.
      - rewrite modes_space by (auto; apply Hin; now left). apply Forall_forall. intros m Hm.
        apply in_map_iff in Hm. destruct Hm as [r [<- Hr]]. specialize (H2 r Hr). lia.
      - apply IHl; [intros; apply Hin; now right|assumption]. }
    apply G; auto.
  Qed.

  Lemma inv_step : forall g, g < T ->
    inv (S g) (map (fun c => list_min (get_modes c (qs g))) cs).
  Proof.
    intros g Hg. unfold inv.
    assert (G : forall l, (forall c, In c l -> In c cs) ->
      Forall2 (fun c p => forall r, In r (r_regs c) -> p <= r + S g) l (map (fun c => list_min (get_modes c (qs g))) l)).
    { induction l; intros Hin; simpl; constructor.
      - intros r Hr. rewrite modes_space by (auto; apply Hin; now left).
        etransitivity; [apply (list_min_le _ (r + 1 * g))|lia].
        apply in_map_iff. exists r. split; [reflexivity|exact Hr].
      - apply IHl. intros; apply Hin; now right. }
    apply G; auto.
  Qed.

  Lemma inv_0 : inv 0 (map (fun _ => 0) cs).
  Proof.
    unfold inv. generalize cs as l. induction l; simpl; constructor; [intros; lia|assumption].
  Qed.

  Lemma run_bins_space : forall k g prev, g + k <= T -> inv g prev ->
    run_bins N sh true T cs k g (qs g) prev
    = Some (flat_map (fun d => loop_bin_int 1 T cs (g + d)) (seq 0 k), qs (g + k)).
  Proof.
    induction k; intros g prev Hk Hinv.
    - simpl. now rewrite Nat.add_0_r.
    - cbv beta iota delta [run_bins]. fold run_bins.
      rewrite run_cmds_space; [|apply inv_modes; [lia|exact Hinv]].
      unfold shift_step.
      assert (HL : 1 <= L) by (unfold L; lia).
      replace (if true then shift_by (qs g) 1 else match sh with ShDefault => shift_bands N (qs g) | ShInt s => shift_by (qs g) s end)
        with (qs (S g))
        by (unfold qs, qint; symmetry; exact (rotate_closed_form 0 L 1 g HL)).
      rewrite IHk; [|lia|apply inv_step; lia].
      rewrite flat_map_seq_S. rewrite !Nat.add_0_r.
      replace (S g + k) with (g + S k) by lia. f_equal. f_equal. f_equal.
      + unfold loop_bin_int. apply map_ext_in. intros c Hc.
        rewrite modes_space by (auto; lia). rewrite Nat.mod_small by lia. reflexivity.
      + apply flat_map_ext. intros d. f_equal; lia.
  Qed.

  Theorem space_unroll_is_loop :
    unroll_program N sh true T cs 1 (seq 0 (n + (T - 1))) = Some (loop_program_int 1 T cs 1).
  Proof.
    unfold unroll_program, loop_program_int. cbv beta iota delta [run_shots].
    fold L. rewrite <- (qint_0 L 1). fold (qs 0).
    rewrite run_bins_space; [|lia|apply inv_0].
    - simpl Nat.add. rewrite Nat.mul_1_l, app_nil_r. reflexivity.
    - unfold L. lia.
  Qed.
End Space.

(* ---------------------------------------------------------------- re-use of a register reference *)
Lemma band_of_offset : forall N r, r < sum_list N ->
  snd (band_of N r) < nth (fst (band_of N r)) N 1.
Proof.
  induction N; intros r Hr; simpl in Hr; [lia|].
  simpl. destruct (r <? a) eqn:E.
  - apply Nat.ltb_lt in E. simpl. exact E.
  - apply Nat.ltb_ge in E. specialize (IHN (r - a) ltac:(lia)).
    destruct (band_of N (r - a)) as [b o]. simpl in *. exact IHN.
Qed.

Lemma same_residue_gap : forall n j j', 0 < n -> j < j' -> j mod n = j' mod n -> j + n <= j'.
Proof.
  intros n j j' Hn Hlt Hm.
  pose proof (Nat.div_mod j n ltac:(lia)) as E1. pose proof (Nat.div_mod j' n ltac:(lia)) as E2.
  rewrite Hm in E1.
  assert (j / n < j' / n) by nia.
  nia.
Qed.

(* Two different pulses of a band that the default shift maps to the same register reference are
   used in disjoint, ordered windows of time bins, and the earlier pulse sits at the leading
   position of its band in the bin that separates them (bin j, where it is measured if the rolled
   circuit measures the leading position of every band last). *)
Theorem reuse_separated : forall N c c' g g' b j j',
  Forall (fun r => r < sum_list N) (r_regs c) ->
  Forall (fun r => r < sum_list N) (r_regs c') ->
  In (b, j) (pulse_modes N c g) -> In (b, j') (pulse_modes N c' g') ->
  j < j' -> rho N (b, j) = rho N (b, j') ->
  g <= j /\ j < g'.
Proof.
  intros N c c' g g' b j j' Hc Hc' Hin Hin' Hlt Hrho.
  unfold pulse_modes in *. apply in_map_iff in Hin. apply in_map_iff in Hin'.
  destruct Hin as [r [Er Hr]]. destruct Hin' as [r' [Er' Hr']].
  rewrite Forall_forall in Hc, Hc'.
  pose proof (band_of_offset N r (Hc r Hr)) as Ho.
  pose proof (band_of_offset N r' (Hc' r' Hr')) as Ho'.
  destruct (band_of N r) as [b0 o]. destruct (band_of N r') as [b1 o'].
  inversion Er; subst. inversion Er'; subst. simpl in *.
  assert (Hn : 0 < nth b N 1) by lia.
  apply Nat.add_cancel_l in Hrho.
  pose proof (same_residue_gap _ _ _ Hn Hlt Hrho). lia.
Qed.


(* ---------------------------------------------------------------- refuted for the current code *)
Definition ex_cs (dag sel : bool) (p : param) : list rcmd :=
  [ mkR 0 [PNum 0; PNum 1] [1] false false false true;
    mkR 1 [p; PNum 1] [0; 1] false dag false true;
    mkR 2 [PSym 1] [0] true false sel true ].


(* space unrolling for two shots is not the explicit loop over 2*timebins pulses *)
Lemma space_shots_refuted : exists cs, Forall (fun c => Forall (fun r => r < 2) (r_regs c)) cs /\
  unroll_program [2] ShDefault true 3 cs 2 (seq 0 (2 + (3 - 1))) <> Some (loop_program_int 1 3 cs 2).
Proof.
  exists (ex_cs false false (PSym 0)). split.
  - repeat constructor.
  - vm_compute. discriminate.
Qed.
