(* unroll / space_unroll / roll as a state machine: what roll() restores, for every call history. *)
From Coq Require Import List ZArith Bool Arith Lia.
Import ListNotations.
From SFV Require Import C13.Model.

Lemma register_of_true : forall n i, register_of i (repeat true n) = seq i n.
Proof. induction n; intros; simpl; [reflexivity|]. now rewrite IHn. Qed.

Lemma register_of_app : forall a b i, register_of i (a ++ b) = register_of i a ++ register_of (i + length a) b.
Proof.
  induction a as [|x a IH]; intros; simpl.
  - now rewrite Nat.add_0_r.
  - destruct x; simpl; rewrite IH; replace (S i + length a) with (i + S (length a)) by lia; reflexivity.
Qed.

Lemma register_of_dead : forall d i, Forall (fun b => b = false) d -> register_of i d = [].
Proof. induction d; intros i H; [reflexivity|]. inversion H; subst. simpl. auto. Qed.

Lemma rev_repeat : forall A (x : A) k, rev (repeat x k) = repeat x k.
Proof.
  induction k; [reflexivity|]. simpl. rewrite IHk.
  clear. induction k; [reflexivity|]. simpl. now rewrite IHk.
Qed.

Lemma deact_repeat : forall k Y, deact_from_end k (repeat true k ++ Y) = repeat false k ++ Y.
Proof. induction k; intros; simpl; [destruct Y; reflexivity|]. now rewrite IHk. Qed.

Lemma delete_last_tail : forall k X, delete_last k (X ++ repeat true k) = X ++ repeat false k.
Proof.
  intros. unfold delete_last. rewrite rev_app_distr, rev_repeat, deact_repeat.
  rewrite rev_app_distr, rev_involutive, rev_repeat. reflexivity.
Qed.

Section Histories.
  Variable N : list nat.
  Variable sh : shiftspec.
  Variable T : nat.
  Variable cs : list rcmd.
  Let n := concurr N.

  (* reachable states: the original n references, then deactivated leftovers of earlier
     space-unrollings, then the k references added by the current space-unrolling *)
  Definition Inv (st : pstate) : Prop :=
    exists dead k,
      st_regs st = repeat true n ++ dead ++ repeat true k /\
      Forall (fun b => b = false) dead /\
      st_init st = (Z.of_nat n + Z.of_nat k)%Z /\
      match st_space st with
      | None => k = 0
      | Some _ => ((0 < st_added st)%Z -> Z.of_nat k = st_added st) /\ ((st_added st <= 0)%Z -> k = 0)
      end /\
      (is_unrolled st = false -> st_circ st = CRolled /\ st_shots st = None).

  Definition Rolled (st : pstate) : Prop :=
    st_circ st = CRolled /\ register st = seq 0 n /\ st_init st = Z.of_nat n /\
    st_unrolled st = None /\ st_space st = None /\ st_shots st = None.

  Lemma Inv_locked : forall c r i l u s o a l',
    Inv (mkS c r i l u s o a) -> Inv (mkS c r i l' u s o a).
  Proof. intros. exact H. Qed.

  Lemma reg_orig : forall dead, Forall (fun b => b = false) dead ->
    register_of 0 (repeat true n ++ dead ++ repeat true 0) = seq 0 n.
  Proof.
    intros dead Hd. simpl. rewrite app_nil_r, register_of_app, register_of_true.
    rewrite register_of_dead by exact Hd. now rewrite app_nil_r.
  Qed.

  Lemma dead_ext : forall dead k, Forall (fun b => b = false) dead ->
    Forall (fun b => b = false) (dead ++ repeat false k).
  Proof.
    intros. apply Forall_app. split; [assumption|]. apply Forall_forall. intros x Hx. now apply repeat_spec in Hx.
  Qed.

  Ltac fin := try assumption; try reflexivity; try lia; try discriminate.

  Lemma roll_spec : forall st, Inv st -> Inv (do_roll st) /\ Rolled (do_roll st) /\ st_locked (do_roll st) = st_locked st.
  Proof.
    intros st (dead & k & Hr & Hd & Hi & Hs & Hc).
    unfold do_roll. destruct (is_unrolled st) eqn:U; simpl.
    - destruct (st_space st) eqn:S.
      + destruct Hs as [Hpos Hneg]. destruct (0 <? st_added st)%Z eqn:A.
        * apply Z.ltb_lt in A. specialize (Hpos A).
          assert (Ek : Z.to_nat (st_added st) = k) by lia.
          assert (Er : delete_last (Z.to_nat (st_added st)) (st_regs st) = repeat true n ++ (dead ++ repeat false k) ++ repeat true 0).
          { rewrite Ek, Hr. rewrite !app_assoc. rewrite delete_last_tail. simpl. now rewrite app_nil_r, <- !app_assoc. }
          split; [|split].
          -- exists (dead ++ repeat false k), 0. simpl. rewrite Er.
             split; [reflexivity|]. split; [apply dead_ext; exact Hd|]. split; [lia|]. split; [reflexivity|].
             intros _. split; reflexivity.
          -- unfold Rolled, register. simpl. rewrite Er. rewrite reg_orig by (apply dead_ext; exact Hd).
             split; [reflexivity|]. split; [reflexivity|]. split; [lia|]. repeat split.
          -- reflexivity.
        * apply Z.ltb_ge in A. specialize (Hneg A). subst k.
          split; [|split].
          -- exists dead, 0. simpl. split; [exact Hr|]. split; [exact Hd|]. split; [exact Hi|]. split; [reflexivity|].
             intros _. split; reflexivity.
          -- unfold Rolled, register. simpl. rewrite Hr, Hi. rewrite reg_orig by exact Hd.
             split; [reflexivity|]. split; [reflexivity|]. split; [lia|]. repeat split.
          -- reflexivity.
      + subst k. split; [|split].
        * exists dead, 0. simpl. split; [exact Hr|]. split; [exact Hd|]. split; [exact Hi|]. split; [reflexivity|].
          intros _. split; reflexivity.
        * unfold Rolled, register. simpl. rewrite Hr, Hi. rewrite reg_orig by exact Hd.
          split; [reflexivity|]. split; [reflexivity|]. split; [lia|]. repeat split.
        * reflexivity.
    - destruct (Hc eq_refl) as [Hc1 Hc2].
      unfold is_unrolled in U. destruct (st_unrolled st) eqn:Un; [discriminate|].
      destruct (st_space st) eqn:S; [discriminate|]. subst k.
      split; [|split].
      + exists dead, 0. rewrite S. split; [exact Hr|]. split; [exact Hd|]. split; [exact Hi|]. split; [reflexivity|].
        intros _. split; assumption.
      + unfold Rolled, register. rewrite Hr, Hi. rewrite reg_orig by exact Hd.
        split; [exact Hc1|]. split; [reflexivity|]. split; [lia|]. split; [exact Un|]. split; [exact S|exact Hc2].
      + reflexivity.
  Qed.

  Lemma Inv_init : Inv (init_state N).
  Proof.
    exists [], 0. unfold init_state. simpl. fold n. rewrite app_nil_r.
    repeat split; try reflexivity; try constructor. lia.
  Qed.

  Ltac notrolled := let X := fresh in intros X; exfalso; revert X; unfold is_unrolled; simpl;
                    repeat match goal with |- context [match ?x with _ => _ end] => destruct x end; discriminate.

  Lemma Inv_unroll : forall s st, Inv st -> Inv (fst (do_unroll N sh T cs s st)).
  Proof.
    intros s st H. unfold do_unroll.
    destruct (st_unrolled st) eqn:U.
    - destruct (match st_shots st with Some s0 => s0 =? s | None => false end).
      + simpl. destruct H as (dead & k & Hr & Hd & Hi & Hs & Hc).
        exists dead, k. simpl.
        split; [exact Hr|]. split; [exact Hd|]. split; [exact Hi|]. split; [exact Hs|]. notrolled.
      + cbv zeta.
        set (st0 := mkS (st_circ st) (st_regs st) (st_init st) false (Some l) (st_space st) (st_shots st) (st_added st)).
        assert (H0 : Inv st0).
        { destruct H as (dead & k & Hr & Hd & Hi & Hs & Hc). exists dead, k. simpl.
          split; [exact Hr|]. split; [exact Hd|]. split; [exact Hi|]. split; [exact Hs|]. notrolled. }
        destruct (roll_spec st0 H0) as ((dead & k & Hr & Hd & Hi & Hs & Hc) & (R1 & R2 & R3 & R4 & R5 & R6) & _).
        simpl. exists dead, k. simpl. rewrite R5 in Hs.
        split; [exact Hr|]. split; [exact Hd|]. split; [exact Hi|]. split; [exact Hs|]. notrolled.
    - destruct (st_space st) eqn:S.
      + simpl. destruct H as (dead & k & Hr & Hd & Hi & Hs & Hc).
        exists dead, k. simpl. rewrite S in Hs.
        split; [exact Hr|]. split; [exact Hd|]. split; [exact Hi|]. split; [exact Hs|]. notrolled.
      + simpl. destruct H as (dead & k & Hr & Hd & Hi & Hs & Hc).
        exists dead, k. simpl. rewrite S in Hs.
        split; [exact Hr|]. split; [exact Hd|]. split; [exact Hi|]. split; [exact Hs|]. notrolled.
  Qed.

  Lemma Inv_space_fresh : forall s lk st, Inv st -> Inv (fst (do_space_unroll_fresh N sh T cs s lk st)).
  Proof.
    intros s lk st H. unfold do_space_unroll_fresh. cbv zeta.
    set (st0 := mkS (st_circ st) (st_regs st) (st_init st) false (st_unrolled st) (st_space st) (st_shots st) (st_added st)).
    assert (H0 : Inv st0) by exact H.
    destruct (roll_spec st0 H0) as ((dead & k & Hr & Hd & Hi & Hs & Hc) & (R1 & R2 & R3 & R4 & R5 & R6) & _).
    rewrite R5 in Hs. subst k. simpl in Hr, Hi.
    set (added := (Z.of_nat T - st_init (do_roll st0) + (Z.of_nat (concurr N) - 1))%Z).
    simpl. destruct (0 <? added)%Z eqn:A.
    - apply Z.ltb_lt in A. exists dead, (Z.to_nat added). simpl.
      split; [rewrite Hr; now rewrite app_nil_r, <- app_assoc|]. split; [exact Hd|].
      split; [rewrite Hi; fold n; lia|]. split; [split; intros; lia|]. notrolled.
    - apply Z.ltb_ge in A. exists dead, 0. simpl.
      split; [exact Hr|]. split; [exact Hd|]. split; [rewrite Hi; reflexivity|]. split; [split; intros; [lia|reflexivity]|]. notrolled.
  Qed.

  Lemma Inv_space : forall s st, Inv st -> Inv (fst (do_space_unroll N sh T cs s st)).
  Proof.
    intros s st H. unfold do_space_unroll.
    destruct (st_space st) eqn:S; [|apply Inv_space_fresh; exact H].
    destruct (match st_shots st with Some s0 => s0 =? s | None => false end); [|apply Inv_space_fresh; exact H].
    simpl. destruct H as (dead & k & Hr & Hd & Hi & Hs & Hc).
    exists dead, k. simpl. rewrite S in Hs.
    split; [exact Hr|]. split; [exact Hd|]. split; [exact Hi|]. split; [exact Hs|]. notrolled.
  Qed.

  Lemma Inv_step : forall st c, Inv st -> Inv (fst (step N sh T cs st c)).
  Proof.
    intros st c H. destruct c; simpl.
    - apply Inv_unroll; exact H.
    - apply Inv_space; exact H.
    - apply roll_spec; exact H.
    - exact H.
  Qed.

  Lemma Inv_run : forall h st, Inv st -> Inv (run_calls N sh T cs st h).
  Proof. induction h; intros st H; simpl; [exact H|]. apply IHh. apply Inv_step. exact H. Qed.

  (* After any history of calls, roll() gives back the rolled circuit, the original list of ACTIVE
     register references, init_num_subsystems, empty caches, and leaves the lock flag alone. *)
  Theorem roll_restores_active : forall h,
    let st := run_calls N sh T cs (init_state N) h in
    Rolled (do_roll st) /\ st_locked (do_roll st) = st_locked st.
  Proof.
    intros h st. destruct (roll_spec st (Inv_run h _ Inv_init)) as (_ & R & L). split; assumption.
  Qed.
End Histories.

(* ---------------------------------------------------------------- refuted parts of "restores exactly" *)
Definition ex_prog : list rcmd :=
  [ mkR 0 [PNum 0; PNum 1] [1] false false false true;
    mkR 1 [PSym 0; PNum 1] [0; 1] false false false true;
    mkR 2 [PSym 1] [0] true false false true ].

(* the whole register (including inactive references) is NOT restored *)
Lemma roll_register_refuted : exists h,
  st_regs (run_calls [2] ShDefault 3 ex_prog (init_state [2]) h) <> st_regs (init_state [2])
  /\ last h Lock = Roll.
Proof. exists [SpaceUnroll 1; Roll]. split; [vm_compute; discriminate|reflexivity]. Qed.

(* the lock flag is lost by the early returns *)
Lemma lock_refuted : exists h, In Lock h /\
  st_locked (run_calls [2] ShDefault 3 ex_prog (init_state [2]) h) = false.
Proof. exists [Lock; Unroll 1; Unroll 1]. split; [now left|reflexivity]. Qed.

(* a second space-unrolling after roll() acts on modes beyond init_num_subsystems *)
Definition max_mode (c : circ) : nat :=
  match c with CRolled => 0 | CUnrolled u => fold_right Nat.max 0 (flat_map (fun x => u_modes x) u) end.
Lemma space_unroll_again_refuted : exists h,
  let st := run_calls [2] ShDefault 3 ex_prog (init_state [2]) h in
  (st_init st <= Z.of_nat (max_mode (st_circ st)))%Z.
Proof. exists [SpaceUnroll 1; Roll; SpaceUnroll 1]. vm_compute. discriminate. Qed.

(* a failed unroll() poisons _unrolled_shots: space_unroll(2) then returns the 1-shot circuit *)
Lemma stale_shots_refuted : exists h,
  st_circ (run_calls [2] ShDefault 3 ex_prog (init_state [2]) (h ++ [SpaceUnroll 2]))
  <> st_circ (run_calls [2] ShDefault 3 ex_prog (init_state [2]) [SpaceUnroll 2]).
Proof. exists [SpaceUnroll 1; Unroll 2]. vm_compute. discriminate. Qed.
