(* unroll / space_unroll / roll as a state machine (behaviour after the fix commits 225c39f, 5a2f473):
   roll() restores circuit and register exactly, for every call history; the lock flag is only ever
   changed by lock(). *)
From Coq Require Import List ZArith Bool Arith Lia.
Import ListNotations.
From SFV Require Import C13.Model.

Lemma register_of_true : forall n i, register_of i (repeat true n) = seq i n.
Proof. induction n; intros; simpl; [reflexivity|]. now rewrite IHn. Qed.

Lemma rev_repeat : forall A (x : A) k, rev (repeat x k) = repeat x k.
Proof.
  induction k; [reflexivity|]. simpl. rewrite IHk.
  clear. induction k; [reflexivity|]. simpl. now rewrite IHk.
Qed.

Lemma remove_repeat : forall k Y, remove_from_end k (repeat true k ++ Y) = Y.
Proof. induction k; intros; simpl; [destruct Y; reflexivity|]. now rewrite IHk. Qed.

Lemma delete_last_tail : forall k X, delete_last k (X ++ repeat true k) = X.
Proof.
  intros. unfold delete_last. rewrite rev_app_distr, rev_repeat, remove_repeat.
  apply rev_involutive.
Qed.

Section Histories.
  Variable N : list nat.
  Variable sh : shiftspec.
  Variable T : nat.
  Variable cs : list rcmd.
  Let n := concurr N.

  (* reachable states: the original n references followed by the k references added by the current
     space-unrolling; never an inactive reference *)
  Definition Inv (st : pstate) : Prop :=
    exists k,
      st_regs st = repeat true n ++ repeat true k /\
      st_init st = (Z.of_nat n + Z.of_nat k)%Z /\
      match st_space st with
      | None => k = 0
      | Some _ => ((0 < st_added st)%Z -> Z.of_nat k = st_added st) /\ ((st_added st <= 0)%Z -> k = 0)
      end /\
      (is_unrolled st = false -> st_circ st = CRolled /\ st_shots st = None).

  Definition Rolled (st : pstate) : Prop :=
    st_circ st = CRolled /\ st_regs st = repeat true n /\ st_init st = Z.of_nat n /\
    st_unrolled st = None /\ st_space st = None /\ st_shots st = None.

  Lemma roll_locked : forall st, st_locked (do_roll st) = st_locked st.
  Proof.
    intros st. unfold do_roll. destruct (negb (is_unrolled st)); [reflexivity|].
    destruct (st_space st); [destruct (0 <? st_added st)%Z|]; reflexivity.
  Qed.

  Lemma roll_spec : forall st, Inv st -> Inv (do_roll st) /\ Rolled (do_roll st).
  Proof.
    intros st (k & Hr & Hi & Hs & Hc).
    unfold do_roll. destruct (is_unrolled st) eqn:U; simpl.
    - destruct (st_space st) eqn:S.
      + destruct Hs as [Hpos Hneg]. destruct (0 <? st_added st)%Z eqn:A.
        * apply Z.ltb_lt in A. specialize (Hpos A).
          assert (Ek : Z.to_nat (st_added st) = k) by lia.
          assert (Er : delete_last (Z.to_nat (st_added st)) (st_regs st) = repeat true n)
            by (rewrite Ek, Hr; apply delete_last_tail).
          split.
          -- exists 0. simpl. rewrite Er, app_nil_r.
             split; [reflexivity|]. split; [lia|]. split; [reflexivity|]. intros _. split; reflexivity.
          -- unfold Rolled. simpl. rewrite Er.
             split; [reflexivity|]. split; [reflexivity|]. split; [lia|]. repeat split.
        * apply Z.ltb_ge in A. specialize (Hneg A). subst k. simpl in Hr, Hi. rewrite app_nil_r in Hr.
          split.
          -- exists 0. simpl. rewrite app_nil_r.
             split; [exact Hr|]. split; [exact Hi|]. split; [reflexivity|]. intros _. split; reflexivity.
          -- unfold Rolled. simpl.
             split; [reflexivity|]. split; [exact Hr|]. split; [lia|]. repeat split.
      + subst k. simpl in Hr, Hi. rewrite app_nil_r in Hr. split.
        * exists 0. simpl. rewrite app_nil_r.
          split; [exact Hr|]. split; [exact Hi|]. split; [reflexivity|]. intros _. split; reflexivity.
        * unfold Rolled. simpl.
          split; [reflexivity|]. split; [exact Hr|]. split; [lia|]. repeat split.
    - destruct (Hc eq_refl) as [Hc1 Hc2].
      unfold is_unrolled in U. destruct (st_unrolled st) eqn:Un; [discriminate|].
      destruct (st_space st) eqn:S; [discriminate|]. subst k. simpl in Hr, Hi. rewrite app_nil_r in Hr.
      split.
      + exists 0. rewrite S, app_nil_r. split; [exact Hr|]. split; [exact Hi|]. split; [reflexivity|].
        intros _. split; assumption.
      + unfold Rolled.
        split; [exact Hc1|]. split; [exact Hr|]. split; [lia|]. split; [exact Un|]. split; [exact S|exact Hc2].
  Qed.

  Lemma Inv_init : Inv (init_state N).
  Proof.
    exists 0. unfold init_state. simpl. fold n. rewrite app_nil_r.
    repeat split; try reflexivity. lia.
  Qed.

  Ltac notrolled := let X := fresh in intros X; exfalso; revert X; unfold is_unrolled; simpl;
                    repeat match goal with |- context [match ?x with _ => _ end] => destruct x end; discriminate.

  Lemma Inv_unroll : forall s st, Inv st -> Inv (fst (do_unroll N sh T cs s st)).
  Proof.
    intros s st H. unfold do_unroll.
    destruct (st_unrolled st) eqn:U.
    - destruct (match st_shots st with Some s0 => s0 =? s | None => false end).
      + simpl. destruct H as (k & Hr & Hi & Hs & Hc).
        exists k. simpl. split; [exact Hr|]. split; [exact Hi|]. split; [exact Hs|]. notrolled.
      + cbv zeta.
        destruct (roll_spec st H) as ((k & Hr & Hi & Hs & Hc) & (R1 & R2 & R3 & R4 & R5 & R6)).
        simpl. exists k. simpl. rewrite R5 in Hs.
        split; [exact Hr|]. split; [exact Hi|]. split; [exact Hs|]. notrolled.
    - destruct (st_space st) eqn:S.
      + simpl. exact H.
      + simpl. destruct H as (k & Hr & Hi & Hs & Hc).
        exists k. simpl. rewrite S in Hs.
        split; [exact Hr|]. split; [exact Hi|]. split; [exact Hs|]. notrolled.
  Qed.

  Lemma Inv_space_fresh : forall s st, Inv st -> Inv (fst (do_space_unroll_fresh N sh T cs s st)).
  Proof.
    intros s st H. unfold do_space_unroll_fresh. cbv zeta.
    destruct (roll_spec st H) as ((k & Hr & Hi & Hs & Hc) & (R1 & R2 & R3 & R4 & R5 & R6)).
    rewrite R5 in Hs. subst k. simpl in Hr, Hi. rewrite app_nil_r in Hr.
    set (added := (Z.of_nat T - st_init (do_roll st) + (Z.of_nat (concurr N) - 1))%Z).
    simpl. destruct (0 <? added)%Z eqn:A.
    - apply Z.ltb_lt in A. exists (Z.to_nat added). simpl.
      split; [rewrite Hr; reflexivity|].
      split; [rewrite Hi; fold n; lia|]. split; [split; intros; lia|]. notrolled.
    - apply Z.ltb_ge in A. exists 0. simpl. rewrite app_nil_r.
      split; [exact Hr|]. split; [rewrite Hi; reflexivity|]. split; [split; intros; [lia|reflexivity]|]. notrolled.
  Qed.

  Lemma Inv_space : forall s st, Inv st -> Inv (fst (do_space_unroll N sh T cs s st)).
  Proof.
    intros s st H. unfold do_space_unroll.
    destruct (st_space st) eqn:S; [|apply Inv_space_fresh; exact H].
    destruct (match st_shots st with Some s0 => s0 =? s | None => false end); [|apply Inv_space_fresh; exact H].
    simpl. destruct H as (k & Hr & Hi & Hs & Hc).
    exists k. simpl. rewrite S in Hs.
    split; [exact Hr|]. split; [exact Hi|]. split; [exact Hs|]. notrolled.
  Qed.

  Lemma Inv_step : forall st c, Inv st -> Inv (fst (step N sh T cs st c)).
  Proof.
    intros st c H. destruct c; simpl.
    - apply Inv_unroll; exact H.
    - apply Inv_space; exact H.
    - apply roll_spec; exact H.
    - exact H.
  Qed.

  Lemma Inv_run : forall h st, Inv st -> Inv (run_calls N sh T cs st h).
  Proof. induction h; intros st H; simpl; [exact H|]. apply IHh. apply Inv_step. exact H. Qed.

  (* the lock flag is changed by lock() only -- in ANY state, reachable or not *)
  Lemma step_locked : forall st c, c <> Lock -> st_locked (fst (step N sh T cs st c)) = st_locked st.
  Proof.
    intros st c Hc. destruct c; simpl; try contradiction.
    - unfold do_unroll. destruct (st_unrolled st).
      + destruct (match st_shots st with Some s0 => s0 =? shots | None => false end); reflexivity.
      + destruct (st_space st); reflexivity.
    - unfold do_space_unroll, do_space_unroll_fresh.
      destruct (st_space st); [destruct (match st_shots st with Some s0 => s0 =? shots | None => false end)|]; reflexivity.
    - apply roll_locked.
  Qed.

  Definition is_lock (c : call) : bool := match c with Lock => true | _ => false end.

  Lemma run_locked : forall h st,
    st_locked (run_calls N sh T cs st h) = st_locked st || existsb is_lock h.
  Proof.
    induction h; intros st; simpl; [now rewrite orb_false_r|].
    rewrite IHh. destruct a; try (rewrite step_locked by discriminate; reflexivity).
    simpl. now rewrite orb_true_r.
  Qed.

  (* After any history of calls, roll() restores the circuit, the WHOLE register (every RegRef and
     its active flag), init_num_subsystems and the caches exactly, and the lock flag is what the
     lock() calls of the history made it. *)
  Theorem roll_restores : forall h,
    let st := run_calls N sh T cs (init_state N) h in
    st_circ (do_roll st) = CRolled /\
    st_regs (do_roll st) = st_regs (init_state N) /\
    st_init (do_roll st) = st_init (init_state N) /\
    st_unrolled (do_roll st) = None /\ st_space (do_roll st) = None /\ st_shots (do_roll st) = None /\
    st_locked (do_roll st) = existsb is_lock h.
  Proof.
    intros h st. destruct (roll_spec st (Inv_run h _ Inv_init)) as (_ & R1 & R2 & R3 & R4 & R5 & R6).
    repeat (split; [assumption|]). rewrite roll_locked. unfold st. rewrite run_locked. reflexivity.
  Qed.

  (* an unroll / space_unroll after any history (ending rolled or not) that starts from the rolled
     form builds its circuit on the original register: the same as on a fresh program *)
  Theorem unroll_after_history_is_fresh : forall h s,
    let st := do_roll (run_calls N sh T cs (init_state N) h) in
    st_circ (fst (do_unroll N sh T cs s st)) = st_circ (fst (do_unroll N sh T cs s (init_state N))) /\
    st_circ (fst (do_space_unroll N sh T cs s st)) = st_circ (fst (do_space_unroll N sh T cs s (init_state N))).
  Proof.
    intros h s st. destruct (roll_spec _ (Inv_run h _ Inv_init)) as (_ & R1 & R2 & R3 & R4 & R5 & R6).
    fold st in R1, R2, R3, R4, R5, R6.
    assert (Ei : is_unrolled st = false) by (unfold is_unrolled; now rewrite R4, R5).
    assert (Er : do_roll st = st) by (unfold do_roll; now rewrite Ei).
    split.
    - unfold do_unroll. rewrite R4, R5. simpl. unfold register. rewrite R2. reflexivity.
    - unfold do_space_unroll. rewrite R5. simpl. unfold do_space_unroll_fresh. cbv zeta.
      rewrite Er. simpl. rewrite R2, R3. reflexivity.
  Qed.
  (* engine-side option handling, in ANY program state: with space_unroll=True the program that is
     executed is space-unrolled and the returned state is restricted to the timebins measured
     pulses; without it the program is (space-)unrolled one way or the other; modes are selected
     exactly when the executed program is space-unrolled; the lock flag is untouched. *)
  Theorem tdm_options_effective : forall st space_kw shots crop cropv,
    let r := tdm_options N sh T cs space_kw shots crop cropv st in
    let st1 := fst (fst (fst r)) in
    (space_kw = true -> st_space st1 <> None /\ snd (fst (fst r)) = Some ((if crop then cropv else 0), T)) /\
    is_unrolled st1 = true /\
    (st_space st1 = None <-> snd (fst (fst r)) = None) /\
    st_locked st1 = st_locked st.
  Proof.
    intros st space_kw shots crop cropv. unfold tdm_options. cbv zeta.
    set (s := match shots with Some k => k | None => 1 end).
    destruct space_kw.
    - destruct (st_space st) eqn:S.
      + simpl. rewrite S. repeat split; try discriminate; try reflexivity.
        unfold is_unrolled. rewrite S. destruct (st_unrolled st); reflexivity.
      + assert (E : st_space (fst (do_space_unroll N sh T cs s st)) <> None /\
                    st_locked (fst (do_space_unroll N sh T cs s st)) = st_locked st).
        { unfold do_space_unroll. rewrite S. unfold do_space_unroll_fresh. simpl. split; [discriminate|reflexivity]. }
        destruct E as [E1 E2]. simpl.
        destruct (st_space (fst (do_space_unroll N sh T cs s st))) eqn:S2; [|contradiction].
        repeat split; try discriminate; try reflexivity; try assumption.
        unfold is_unrolled. rewrite S2. destruct (st_unrolled _); reflexivity.
    - destruct (is_unrolled st) eqn:U.
      + simpl. repeat split; try discriminate; try assumption.
        * destruct (st_space st); [discriminate|reflexivity].
        * destruct (st_space st); [discriminate|reflexivity].
      + unfold is_unrolled in U. destruct (st_unrolled st) eqn:Un; [discriminate|].
        destruct (st_space st) eqn:S; [discriminate|].
        unfold do_unroll. rewrite Un, S. simpl. repeat split; try discriminate; reflexivity.
  Qed.
End Histories.
