(* reshape_samples / _get_mode_order: entry (shot, spatial mode, time bin) is the outcome of that pulse. *)
From Coq Require Import List ZArith Bool Arith Lia.
Import ListNotations.
From SFV Require Import C13.Model.

(* the raw samples_dict of a register-shifting run: band b is measured in global bin g on register
   reference start_b + g mod N_b; the outcome is tagged (g, b) -> g * #bands + b; dict keys appear in
   first-insertion order *)
Fixpoint push (d : list (nat * list nat)) (k v : nat) : list (nat * list nat) :=
  match d with
  | [] => [(k, [v])]
  | (k', vs) :: r => if Nat.eqb k' k then (k', vs ++ [v]) :: r else (k', vs) :: push r k v
  end.
Definition events (N : list nat) (T shots : nat) : list (nat * nat) :=
  flat_map (fun g => map (fun b => (band_start N b + g mod nth b N 1, g * length N + b)) (seq 0 (length N)))
           (seq 0 (shots * T)).
Definition raw_samples (N : list nat) (T shots : nat) : list (nat * list nat) :=
  fold_left (fun d e => push d (fst e) (snd e)) (events N T shots) [].
Definition measured (N : list nat) : list nat := map (band_start N) (seq 0 (length N)).

(* what the property demands: key = leading mode of band b; row t, column s = outcome of pulse
   (b, s*T + t) *)
Definition expected (N : list nat) (T shots : nat) : list (nat * list (list nat)) :=
  map (fun b => (band_start N b,
                 map (fun t => map (fun s => (s * T + t) * length N + b) (seq 0 shots)) (seq 0 T)))
      (seq 0 (length N)).

Definition layout_statement (N : list nat) (T shots : nat) : Prop :=
  reshape_samples (raw_samples N T shots) (measured N) N T = Some (expected N T shots).

Definition result_eq_dec : forall a b : option (list (nat * list (list nat))), {a = b} + {a <> b}.
Proof. repeat decide equality. Defined.

Definition layout_check (N : list nat) (T shots : nat) : bool :=
  if result_eq_dec (reshape_samples (raw_samples N T shots) (measured N) N T) (Some (expected N T shots))
  then true else false.

Lemma layout_check_sound : forall N T shots, layout_check N T shots = true -> layout_statement N T shots.
Proof. intros N T shots. unfold layout_check, layout_statement. destruct (result_eq_dec _ _); [auto|discriminate]. Qed.

(* all band lists with at most nb bands of 1..m concurrent modes *)
Fixpoint band_lists (nb m : nat) : list (list nat) :=
  match nb with
  | 0 => [[]]
  | S k => [] :: flat_map (fun n => map (cons n) (band_lists k m)) (seq 1 m)
  end.

Definition sweep (nb m Tmax smax : nat) : bool :=
  forallb (fun N => match N with [] => true | _ =>
    forallb (fun T => forallb (fun s => layout_check N T s) (seq 1 smax)) (seq 1 Tmax) end) (band_lists nb m).

Lemma sweep_3_4_5_3 : sweep 3 4 5 3 = true.
Proof. vm_compute. reflexivity. Qed.

Lemma in_band_lists : forall nb m N, length N <= nb -> Forall (fun n => 1 <= n <= m) N -> In N (band_lists nb m).
Proof.
  induction nb; intros m N HL HF.
  - destruct N; [now left|simpl in HL; lia].
  - destruct N as [|n N']; [now left|]. right.
    inversion HF; subst. apply in_flat_map. exists n. split; [apply in_seq; lia|].
    apply in_map. apply IHnb; [simpl in HL; lia|assumption].
Qed.

(* bounded: at most 3 bands of 1..4 modes, 1..5 time bins, 1..3 shots *)
Theorem samples_layout_bounded : forall N T shots,
  N <> [] -> length N <= 3 -> Forall (fun n => 1 <= n <= 4) N -> 1 <= T <= 5 -> 1 <= shots <= 3 ->
  layout_statement N T shots.
Proof.
  intros N T shots HN HL HF HT Hs. apply layout_check_sound.
  pose proof sweep_3_4_5_3 as S. unfold sweep in S. rewrite forallb_forall in S.
  specialize (S N (in_band_lists 3 4 N HL HF)). destruct N; [contradiction|].
  rewrite forallb_forall in S. specialize (S T ltac:(apply in_seq; lia)).
  rewrite forallb_forall in S. apply S. apply in_seq. lia.
Qed.

(* a space-unrolled run measures modes 0,1,2,...: reshaping fails as soon as timebins > N *)
Lemma space_reshape_refuted : exists n T, 
  reshape_samples (map (fun g => (g, [g])) (seq 0 T)) [0] [n] T = None.
Proof. exists 2, 3. reflexivity. Qed.

(* ---------------------------------------------------------------- vacuum_padding: all padded lists get the same extra length *)
Lemma vp_arrivals_bound : forall loops arrival,
  arrival <= snd (vp_arrivals arrival loops) /\
  Forall (fun p => arrival <= p /\ p <= snd (vp_arrivals arrival loops)) (fst (vp_arrivals arrival loops)).
Proof.
  induction loops as [|[alpha d] r IH]; intros arrival; simpl; [split; [lia|constructor]|].
  set (delay := if Nat.eqb (start_zeros_z alpha) (length alpha) then d else Nat.min (start_zeros_z alpha) d).
  specialize (IH (arrival + delay)). destruct (vp_arrivals (arrival + delay) r) as [ps tot]. simpl in *.
  destruct IH as [H1 H2]. split; [lia|]. constructor; [lia|].
  eapply Forall_impl; [|exact H2]. simpl. intros; lia.
Qed.

Lemma pad_length : forall pro tot l, pro <= tot -> length (pad pro tot l) = length l + tot.
Proof. intros. unfold pad. rewrite !app_length, !repeat_length. lia. Qed.

(* every list returned by vacuum_padding is its input list plus exactly `crop` zeros (so lists of
   equal length stay of equal length), and its prologue is at most `crop` *)
Theorem vacuum_padding_lengths : forall sg loops delays,
  length delays = length loops ->
  let r := vacuum_padding sg loops delays in
  let tot := snd r in
  length (fst (fst r)) = length sg + tot /\
  length (snd (fst r)) = length loops /\
  forall i rg bs, nth_error loops i = Some (rg, bs) ->
    exists rg' bs', nth_error (snd (fst r)) i = Some (rg', bs') /\
      length rg' = length rg + tot /\ length bs' = length bs + tot.
Proof.
  intros sg loops delays HL. unfold vacuum_padding.
  pose proof (vp_arrivals_bound (combine (map snd loops) delays) 0) as B.
  assert (Lp : length (fst (vp_arrivals 0 (combine (map snd loops) delays))) = length loops).
  { assert (G : forall l a, length (fst (vp_arrivals a l)) = length l).
    { induction l as [|[al d] l IHl]; intros a; simpl; [reflexivity|].
      specialize (IHl (a + (if Nat.eqb (start_zeros_z al) (length al) then d else Nat.min (start_zeros_z al) d))).
      destruct (vp_arrivals _ l). simpl in *. now rewrite IHl. }
    rewrite G, combine_length, map_length. lia. }
  destruct (vp_arrivals 0 (combine (map snd loops) delays)) as [ps tot]. simpl in *.
  destruct B as [_ B]. split; [|split].
  - apply pad_length. destruct ps; simpl; [lia|]. inversion B; subst. lia.
  - rewrite map_length, combine_length. lia.
  - intros i rg bs Hi.
    assert (Hlt : i < length ps) by (rewrite Lp; apply nth_error_Some; congruence).
    destruct (nth_error ps i) as [p|] eqn:Hp; [|apply nth_error_None in Hp; lia].
    assert (Hc : nth_error (combine loops ps) i = Some ((rg, bs), p)).
    { clear - Hi Hp. revert loops ps Hi Hp. induction i; intros [|l loops] [|q ps]; simpl; intros; try discriminate.
      - inversion Hi; inversion Hp; subst. reflexivity.
      - apply IHi; assumption. }
    exists (pad p tot rg), (pad p tot bs). split.
    + rewrite nth_error_map, Hc. reflexivity.
    + rewrite Forall_forall in B. assert (Hin : In p ps) by (eapply nth_error_In; eauto).
      specialize (B p Hin). split; apply pad_length; lia.
Qed.
