From Coq Require Import List ZArith Bool Arith Lia.
Import ListNotations.
From SFV Require Import C13.Model.
