(* Bosonic component — executable instance used ONLY by the correspondence check: the model of Model.v at
   K = complex binary64 (the backend stores complex means and covariances), literals -> states, tolerant comparison.
   No theorem file imports this. *)
From Coq Require Import PrimFloat List Bool Arith.
Import ListNotations.
From SFV Require Import Base.Num Base.FloatInst Base.PhaseSpace Bosonic.Sum Bosonic.Model.

Definition CFl := C float.
Definition NCF : Num CFl := mkNum (C0 NF) (C1 NF) (Cadd NF) (Cmul NF) (Csub NF) (Copp NF).
Definition cr (x : float) : CFl := mkC x 0%float.

Definition bst_of (n W : nat) (w : list CFl) (means : list (list CFl)) (covs : list (list (list CFl))) : @bst CFl :=
  mkB n W (vec_of w) (fun k => vec_of (nth_d [] means k)) (fun k => mat_of (nth_d [] covs k)).

Definition vec_close (tol : float) (m : nat) (u v : nat -> CFl) : bool :=
  forall_lt m (fun i => cclose tol (u i) (v i)).
Definition mat_close (tol : float) (m : nat) (A B : nat -> nat -> CFl) : bool :=
  forall_lt m (fun i => forall_lt m (fun j => cclose tol (A i j) (B i j))).
Definition bst_close (tol : float) (s t : @bst CFl) : bool :=
  Nat.eqb (bn s) (bn t) && Nat.eqb (bnw s) (bnw t) &&
  vec_close tol (bnw s) (bweights s) (bweights t) &&
  forall_lt (bnw s) (fun w => vec_close tol (2 * bn s) (bmeans s w) (bmeans t w) &&
                              mat_close tol (2 * bn s) (bcovs s w) (bcovs t w)).
(* weights must be bit-for-bit untouched *)
Definition ceqb (a b : CFl) : bool := PrimFloat.eqb (re a) (re b) && PrimFloat.eqb (im a) (im b).
Definition weights_same (s t : @bst CFl) : bool := forall_lt (bnw s) (fun w => ceqb (bweights s w) (bweights t w)).

Definition nat_list_eq (f : nat -> nat) (l : list nat) : bool :=
  forallb (fun p => Nat.eqb (f (fst p)) (snd p)) (combine (seq 0 (length l)) l).

(* materialise a state (functions -> tables) so that multi-step programs do not recompute earlier steps per entry *)
Definition tab {A} (m : nat) (f : nat -> A) : list A := map f (seq 0 m).
Definition freeze (s : @bst CFl) : @bst CFl :=
  let m := 2 * bn s in
  let w := tab (bnw s) (bweights s) in
  let means := tab (bnw s) (fun k => tab m (bmeans s k)) in
  let covs := tab (bnw s) (fun k => tab m (fun i => tab m (bcovs s k i))) in
  mkB (bn s) (bnw s) (vec_of w) (fun k => vec_of (nth_d [] means k)) (fun k => mat_of (nth_d [] covs k)).
