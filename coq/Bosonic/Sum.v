(* Bosonic component — finite sums over an arbitrary commutative ring, and the two-level collapse:
   a matrix equal to the identity outside a (short, duplicate-free) index list T turns a full matrix product
   into a sum over T only.  [sumn] is defined over a [Num K] record so that the very same definition is executed
   at floats by the correspondence check; the lemmas are proved for any commutative ring. *)
From Coq Require Import Arith Bool List Lia Ring.
Import ListNotations.
From SFV Require Import Base.Num Base.PhaseSpace.

Section SumDef.
Context {K : Type} (N : Num K).
(* sum_{a < n} f a, in index order *)
Fixpoint sumn (n : nat) (f : nat -> K) : K :=
  match n with 0 => n0 N | S m => nadd N (sumn m f) (f m) end.
End SumDef.

Lemma mem_In x l : mem x l = true <-> In x l.
Proof.
  induction l as [|y l IH]; simpl; [split; [discriminate|tauto]|].
  rewrite orb_true_iff, IH, Nat.eqb_eq. split; intros [H|H]; auto.
Qed.
Lemma mem_false x l : mem x l = false <-> ~ In x l.
Proof. rewrite <- mem_In. destruct (mem x l); split; congruence. Qed.

Section SumLemmas.
Variable K : Type.
Variables (k0 k1 : K) (kadd kmul ksub : K -> K -> K) (kopp : K -> K).
Hypothesis Kring : ring_theory k0 k1 kadd kmul ksub kopp (@eq K).
Add Ring KrSum : Kring.
Notation "x + y" := (kadd x y). Notation "x * y" := (kmul x y). Notation "x - y" := (ksub x y). Notation "- x" := (kopp x).
Notation NK := (mkNum k0 k1 kadd kmul ksub kopp).
Notation sum := (sumn NK).
Notation dl := (kdelta NK).

Lemma sumn_S m f : sum (S m) f = sum m f + f m.
Proof. reflexivity. Qed.

Lemma sumn_ext n f g : (forall a, a < n -> f a = g a) -> sum n f = sum n g.
Proof.
  induction n as [|n IH]; intros H; [reflexivity|].
  rewrite !sumn_S, IH, H by (intros; try apply H; lia). reflexivity.
Qed.

Lemma sumn_zero n : sum n (fun _ => k0) = k0.
Proof. induction n as [|n IH]; [reflexivity|]. rewrite sumn_S, IH. ring. Qed.

Lemma sumn_add n f g : sum n (fun a => f a + g a) = sum n f + sum n g.
Proof. induction n as [|n IH]; [simpl; ring|]. rewrite !sumn_S, IH. ring. Qed.

Lemma sumn_mul_l n c f : sum n (fun a => c * f a) = c * sum n f.
Proof. induction n as [|n IH]; [simpl; ring|]. rewrite !sumn_S, IH. ring. Qed.

Lemma sumn_mul_r n c f : sum n (fun a => f a * c) = sum n f * c.
Proof. induction n as [|n IH]; [simpl; ring|]. rewrite !sumn_S, IH. ring. Qed.

Lemma sumn_swap n m (f : nat -> nat -> K) :
  sum n (fun a => sum m (fun b => f a b)) = sum m (fun b => sum n (fun a => f a b)).
Proof.
  induction n as [|n IH].
  - simpl. symmetry. apply sumn_zero.
  - rewrite sumn_S, IH. rewrite <- sumn_add. apply sumn_ext. intros b _. reflexivity.
Qed.

Lemma kdelta_refl i : dl i i = k1.
Proof. unfold kdelta. now rewrite Nat.eqb_refl. Qed.
Lemma kdelta_neq i j : i <> j -> dl i j = k0.
Proof. intros H. unfold kdelta. now rewrite (proj2 (Nat.eqb_neq i j) H). Qed.
Lemma kdelta_sym i j : dl i j = dl j i.
Proof. unfold kdelta. now rewrite Nat.eqb_sym. Qed.

(* take one index out of a sum *)
Lemma sumn_remove n f t : t < n -> sum n f = f t + sum n (fun a => if Nat.eqb a t then k0 else f a).
Proof.
  induction n as [|n IH]; intros Ht; [lia|].
  rewrite !sumn_S. destruct (Nat.eq_dec t n) as [->|Hne].
  - rewrite Nat.eqb_refl.
    rewrite (sumn_ext n (fun a => if Nat.eqb a n then k0 else f a) f).
    + ring.
    + intros a Ha. now rewrite (proj2 (Nat.eqb_neq a n)) by lia.
  - rewrite IH by lia. rewrite (proj2 (Nat.eqb_neq n t)) by lia. ring.
Qed.

Lemma lsum_ext (l : list nat) (f g : nat -> K) : (forall a, In a l -> f a = g a) -> lsum NK l f = lsum NK l g.
Proof.
  induction l as [|c l IH]; intros H; [reflexivity|].
  simpl. rewrite IH, (H c) by (intros; try apply H; simpl; auto). reflexivity.
Qed.

Lemma lsum_add (l : list nat) (f g : nat -> K) : lsum NK l (fun a => f a + g a) = lsum NK l f + lsum NK l g.
Proof. induction l as [|c l IH]; simpl; [ring|]. rewrite IH. ring. Qed.

Lemma lsum_mul_l (l : list nat) c (f : nat -> K) : lsum NK l (fun a => c * f a) = c * lsum NK l f.
Proof. induction l as [|x l IH]; simpl; [ring|]. rewrite IH. ring. Qed.

Lemma lsum_mul_r (l : list nat) c (f : nat -> K) : lsum NK l (fun a => f a * c) = lsum NK l f * c.
Proof. induction l as [|x l IH]; simpl; [ring|]. rewrite IH. ring. Qed.

Lemma lsum_swap (l1 l2 : list nat) (f : nat -> nat -> K) :
  lsum NK l1 (fun a => lsum NK l2 (fun b => f a b)) = lsum NK l2 (fun b => lsum NK l1 (fun a => f a b)).
Proof.
  induction l1 as [|c l1 IH]; simpl.
  - induction l2 as [|d l2 IH2]; simpl; [reflexivity|]. rewrite <- IH2. ring.
  - rewrite IH, <- lsum_add. reflexivity.
Qed.

(* a function supported on the duplicate-free list T sums, over 0..n-1, to its sum over T *)
Lemma sumn_support n (T : list nat) f :
  NoDup T -> (forall t, In t T -> t < n) -> (forall a, a < n -> ~ In a T -> f a = k0) ->
  sum n f = lsum NK T f.
Proof.
  revert f. induction T as [|t T IH]; intros f Hnd Hlt H0.
  - simpl. rewrite (sumn_ext n f (fun _ => k0)) by (intros a Ha; apply H0; auto). apply sumn_zero.
  - inversion Hnd as [|? ? Hnt Hnd']; subst.
    rewrite (sumn_remove n f t) by (apply Hlt; simpl; auto).
    rewrite IH; auto.
    + simpl. f_equal. apply lsum_ext. intros a Ha.
      destruct (Nat.eqb_spec a t) as [->|]; [contradiction|reflexivity].
    + intros x Hx. apply Hlt. simpl; auto.
    + intros a Ha Hna. destruct (Nat.eqb_spec a t) as [->|Hne]; [reflexivity|].
      apply H0; auto. simpl. intros [E|E]; [congruence|contradiction].
Qed.

Lemma sumn_delta n i f : i < n -> sum n (fun a => dl i a * f a) = f i.
Proof.
  intros Hi. rewrite (sumn_support n [i]).
  - simpl. rewrite kdelta_refl. ring.
  - constructor; [simpl; tauto|constructor].
  - simpl. intros t [<-|[]]. exact Hi.
  - intros a _ Ha. rewrite kdelta_neq; [ring|]. simpl in Ha. intuition.
Qed.

Lemma sumn_delta_r n i f : i < n -> sum n (fun a => f a * dl i a) = f i.
Proof.
  intros Hi. rewrite <- (sumn_delta n i f Hi). apply sumn_ext. intros; ring.
Qed.

(* ---- two-level matrices: identity outside the index list T (on the m x m block) ---- *)
Definition two_level (m : nat) (T : list nat) (X : nat -> nat -> K) : Prop :=
  forall i j, i < m -> j < m -> (~ In i T \/ ~ In j T) -> X i j = dl i j.

(* row of a product with a two-level matrix: sum_a X i a * f a collapses to the sum over T (i in T) or to f i *)
Lemma row_collapse m T X f i :
  NoDup T -> (forall t, In t T -> t < m) -> two_level m T X -> i < m ->
  sum m (fun a => X i a * f a) = if mem i T then lsum NK T (fun a => X i a * f a) else f i.
Proof.
  intros Hnd Hlt HX Hi. destruct (mem i T) eqn:Hm.
  - apply sumn_support; auto. intros a Ha Hna.
    rewrite HX by auto. rewrite kdelta_neq; [ring|].
    intros ->. apply Hna. now apply mem_In.
  - apply mem_false in Hm.
    rewrite (sumn_ext m _ (fun a => dl i a * f a)).
    + now apply sumn_delta.
    + intros a Ha. now rewrite HX by auto.
Qed.

Lemma col_collapse m T X f j :
  NoDup T -> (forall t, In t T -> t < m) -> two_level m T X -> j < m ->
  sum m (fun b => f b * X j b) = if mem j T then lsum NK T (fun b => f b * X j b) else f j.
Proof.
  intros Hnd Hlt HX Hj.
  rewrite (sumn_ext m _ (fun b => X j b * f b)) by (intros; ring).
  rewrite (row_collapse m T X f j) by auto. destruct (mem j T); [|reflexivity].
  apply lsum_ext. intros; ring.
Qed.
End SumLemmas.
