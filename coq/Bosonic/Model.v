(* Bosonic component — hand model of the Gaussian-operation part of
     /repo/strawberryfields/backends/bosonicbackend/bosoniccircuit.py
   and of the helpers it takes from thewalrus.symplectic.  Definitions only.

   Scalars: any [Num K] (the theorems take K a commutative ring; the correspondence check executes the very same
   definitions at K = complex binary64, because the backend stores complex means / covariances).
   Vectors / matrices are functions nat -> K, nat -> nat -> K (dimension-free).  Transcendental values
   (cos, sin, cosh, sinh, sqrt) are named inputs.

   Index conventions.  The backend stores every weight's mean vector / covariance matrix in "xpxp" order
   (x_0,p_0,x_1,p_1,...): quadrature q (false = x, true = p) of mode a sits at index [xp q a = 2a + q].
   thewalrus builds symplectic matrices in "xxpp" order (x_0..x_{n-1},p_0..p_{n-1}): index [enc n q a = a + q n].
   update_means / update_covs convert with the index array from_xp.

   Not modelled: the `active` bookkeeping (ValueError on deleted modes), numpy's error on out-of-range indices and
   the unspecified result of fancy-index assignment with repeated modes — the harness drives in-range, duplicate-free
   targets.  hbar is the constant 2 of BosonicModes.__init__, so sqrt(2 hbar) = 2 and (hbar * y) / 2 = y. *)
From Coq Require Import Arith Bool List.
Import ListNotations.
From SFV Require Import Base.Num Base.PhaseSpace Bosonic.Sum.

Definition b2n (b : bool) : nat := if b then 1 else 0.
(* position of quadrature q of mode a in the two orderings *)
Definition xp (q : bool) (a : nat) : nat := 2 * a + b2n q.
Definition enc (n : nat) (q : bool) (a : nat) : nat := a + b2n q * n.

(* from_xp(n) = [0, n, 1, n+1, ...] : entry j of the array *)
Definition from_xp (n j : nat) : nat := if Nat.even j then Nat.div2 j else Nat.div2 j + n.
(* to_xp(n) = [0, 2, 4, ..., 1, 3, 5, ...] : entry i of the array *)
Definition to_xp (n i : nat) : nat := if Nat.ltb i n then 2 * i else 2 * (i - n) + 1.

(* an xxpp index i < 2n split into (is it a p-quadrature?, mode) *)
Definition quad (n i : nat) : bool := Nat.leb n i.
Definition modeof (n i : nat) : nat := if Nat.leb n i then i - n else i.

Fixpoint pos_of (a : nat) (modes : list nat) : option nat :=
  match modes with
  | [] => None
  | m :: r => if Nat.eqb a m then Some 0 else option_map S (pos_of a r)
  end.

Section Model.
Context {K : Type} (N : Num K).
Local Notation "x + y" := (nadd N x y). Local Notation "x * y" := (nmul N x y).
Local Notation "x - y" := (nsub N x y). Local Notation "- x" := (nopp N x).
Local Notation zero := (n0 N). Local Notation one := (n1 N).

Definition mat := nat -> nat -> K.
Definition vect := nat -> K.

Definition mat2 (a b c d : K) : mat := fun i j =>
  match i, j with O, O => a | O, S _ => b | S _, O => c | S _, S _ => d end.
Definition mat_of_rows (d : K) (rows : list (list K)) : mat := fun i j => nth j (nth i rows []) d.

(* ---------------- thewalrus.symplectic helpers ---------------- *)

(* interferometer(U) = [[Re U, -Im U], [Im U, Re U]]  (xxpp, U an M x M complex matrix given as (Ur, Ui)) *)
Definition interferometer (M : nat) (Ur Ui : mat) : mat := fun i j =>
  let a := modeof M i in let b := modeof M j in
  match quad M i, quad M j with
  | false, false => Ur a b
  | false, true => - (Ui a b)
  | true, false => Ui a b
  | true, true => Ur a b
  end.

(* rotation(theta) = interferometer([[cos + i sin]]) *)
Definition rotation (c s : K) : mat := interferometer 1 (fun _ _ => c) (fun _ _ => s).

(* squeezing(r, phi) for one mode *)
Definition squeezing (c s sh ch : K) : mat :=
  mat2 (ch - sh * c) ((- sh) * s) ((- sh) * s) (ch + sh * c).

(* beam_splitter(theta, phi) = interferometer([[ct, -conj(eip) st], [eip st, ct]]),  eip = cp + i sp *)
Definition beam_splitter (ct st cp sp : K) : mat :=
  interferometer 2 (mat2 ct (- (cp * st)) (cp * st) ct) (mat2 zero (sp * st) (sp * st) zero).

(* expand(S, modes, n): S a 2M x 2M xxpp matrix acting on `modes`, identity elsewhere; the M == 1 branch puts the
   same 2x2 matrix on every listed mode *)
Definition expand (M : nat) (S : mat) (modes : list nat) (n : nat) : mat := fun i j =>
  let a := modeof n i in let b := modeof n j in
  if Nat.eqb M 1 then
    (if Nat.eqb a b && mem a modes then S (b2n (quad n i)) (b2n (quad n j)) else kdelta N i j)
  else
    match pos_of a modes, pos_of b modes with
    | Some pa, Some pb => S (Nat.add pa (Nat.mul (b2n (quad n i)) M)) (Nat.add pb (Nat.mul (b2n (quad n j)) M))
    | _, _ => kdelta N i j
    end.

(* expand_vector(alpha, mode, n) with hbar = 2: sqrt(2 hbar) = 2 *)
Definition expand_vector (ar ai : K) (mode n : nat) : vect := fun i =>
  if Nat.eqb i (Nat.add n mode) then two N * ai else if Nat.eqb i mode then two N * ar else zero.

(* S[:, ind][ind] *)
Definition permute (p : nat -> nat) (X : mat) : mat := fun i j => X (p i) (p j).
Definition xxpp_to_xpxp (n : nat) (S : mat) : mat := permute (from_xp n) S.
Definition xpxp_to_xxpp (n : nat) (S : mat) : mat := permute (to_xp n) S.

(* ---------------- bosoniccircuit.py: module-level helpers ---------------- *)
Definition mmul (m : nat) (A B : mat) : mat := fun i j => sumn N m (fun a => A i a * B a j).
Definition mT (A : mat) : mat := fun i j => A j i.
Definition madd (A B : mat) : mat := fun i j => A i j + B i j.
Definition mvec (m : nat) (A : mat) (v : vect) : vect := fun i => sumn N m (fun a => A i a * v a).

(* update_means(means, X, perm_out) for one weight:  (X_perm @ means.T).T *)
Definition update_means (n : nat) (r : vect) (X : mat) : vect :=
  mvec (Nat.mul 2 n) (permute (from_xp n) X) r.
(* update_covs(covs, X, perm_out, Y) for one weight:  X_perm @ cov @ X_perm.T + Y_perm  (Y = None: + 0.0) *)
Definition update_covs (n : nat) (V : mat) (X : mat) (Y : option mat) : mat :=
  let Xp := permute (from_xp n) X in
  madd (mmul (Nat.mul 2 n) (mmul (Nat.mul 2 n) Xp V) (mT Xp))
       (match Y with Some Y => permute (from_xp n) Y | None => fun _ _ => zero end).

(* get_covmat_xp / get_mean_xp : covs[:, to_xp][..., to_xp] *)
Definition get_covmat_xp (n : nat) (V : mat) : mat := permute (to_xp n) V.
Definition get_mean_xp (n : nat) (r : vect) : vect := fun i => r (to_xp n i).

(* ---------------- the state: per weight a mean vector and a covariance matrix ---------------- *)
Set Primitive Projections.
Record bst := mkB { bn : nat; bnw : nat; bweights : nat -> K; bmeans : nat -> vect; bcovs : nat -> mat }.
Unset Primitive Projections.

(* expandS / expandXY (the loop zeroes the diagonal of Y2 on every mode not in `modes`) *)
Definition expandS (M : nat) (modes : list nat) (S : mat) (n : nat) : mat := expand M S modes n.
Definition expandXY (M : nat) (modes : list nat) (X Y : mat) (n : nat) : mat * mat :=
  (expand M X modes n,
   fun i j => if Nat.eqb i j && negb (mem (modeof n i) modes) then zero else expand M Y modes n i j).

(* self.means = update_means(self.means, X, self.from_xp); self.covs = update_covs(self.covs, X, self.from_xp, Y) *)
Definition apply_XY (X : mat) (Y : option mat) (s : bst) : bst :=
  mkB (bn s) (bnw s) (bweights s)
      (fun w => update_means (bn s) (bmeans s w) X)
      (fun w => update_covs (bn s) (bcovs s w) X Y).
Definition apply_channel (X Y : mat) (s : bst) : bst := apply_XY X (Some Y) s.
(* apply_u(U): Us = interferometer(U) for an nlen x nlen unitary U = Ur + i Ui *)
Definition apply_u (Ur Ui : mat) (s : bst) : bst := apply_XY (interferometer (bn s) Ur Ui) None s.

(* displace(r, phi, i): self.means += expand_vector(r * exp(i phi), i, nlen)[from_xp]   (c = cos phi, sn = sin phi) *)
Definition displace (r c sn : K) (i : nat) (s : bst) : bst :=
  mkB (bn s) (bnw s) (bweights s)
      (fun w j => bmeans s w j + expand_vector (r * c) (r * sn) i (bn s) (from_xp (bn s) j))
      (bcovs s).

Definition squeeze (c sn sh ch : K) (k : nat) (s : bst) : bst :=
  apply_XY (expand 1 (squeezing c sn sh ch) [k] (bn s)) None s.
Definition phase_shift (c sn : K) (k : nat) (s : bst) : bst :=
  apply_XY (expand 1 (rotation c sn) [k] (bn s)) None s.
Definition beamsplitter (ct st cp sp : K) (k l : nat) (s : bst) : bst :=
  apply_XY (expand 2 (beam_splitter ct st cp sp) [k; l] (bn s)) None s.

(* loss(T, k): X = sqrt(T) Id_2, Y = hbar (1 - T) Id_2 / 2   (sqT = sqrt T) *)
Definition scal2 (x : K) : mat := fun i j => x * kdelta N i j.
Definition loss (T sqT : K) (k : nat) (s : bst) : bst :=
  let XY := expandXY 1 [k] (scal2 sqT) (scal2 (one - T)) (bn s) in
  apply_channel (fst XY) (snd XY) s.
(* thermal_loss(T, nbar, k): Y = hbar (1 - T)(2 nbar + 1) Id_2 / 2 *)
Definition thermal_loss (T nbar sqT : K) (k : nat) (s : bst) : bst :=
  let XY := expandXY 1 [k] (scal2 sqT) (scal2 ((one - T) * (two N * nbar + one))) (bn s) in
  apply_channel (fst XY) (snd XY) s.
(* init_thermal(nbar, mode) = thermal_loss(0.0, nbar, mode);  sqrt(0.0) = 0.0 *)
Definition init_thermal (nbar : K) (k : nat) (s : bst) : bst := thermal_loss zero nbar zero k s.

(* ---------------- operations as data; programs ---------------- *)
Inductive bop :=
| ORot (c sn : K) (k : nat)
| OSq (c sn sh ch : K) (k : nat)
| OBs (ct st cp sp : K) (k l : nat)
| ODisp (r c sn : K) (k : nat)
| OLoss (T sqT : K) (k : nat)
| OThLoss (T nbar sqT : K) (k : nat)
| OInitTh (nbar : K) (k : nat)
| OChannel (M : nat) (modes : list nat) (X Y : mat)      (* gaussian_cptp: expandXY + apply_channel *)
| OUnitary (Ur Ui : mat).                                (* apply_u *)

Definition apply_op (o : bop) (s : bst) : bst :=
  match o with
  | ORot c sn k => phase_shift c sn k s
  | OSq c sn sh ch k => squeeze c sn sh ch k s
  | OBs ct st cp sp k l => beamsplitter ct st cp sp k l s
  | ODisp r c sn k => displace r c sn k s
  | OLoss T sqT k => loss T sqT k s
  | OThLoss T nb sqT k => thermal_loss T nb sqT k s
  | OInitTh nb k => init_thermal nb k s
  | OChannel M modes X Y => let XY := expandXY M modes X Y (bn s) in apply_channel (fst XY) (snd XY) s
  | OUnitary Ur Ui => apply_u Ur Ui s
  end.
Definition run (prog : list bop) (s : bst) : bst := fold_left (fun s o => apply_op o s) prog s.

(* modes an operation is allowed to touch *)
Definition targets (o : bop) (n : nat) : list nat :=
  match o with
  | ORot _ _ k | OSq _ _ _ _ k | ODisp _ _ _ k | OLoss _ _ k | OThLoss _ _ _ k | OInitTh _ k => [k]
  | OBs _ _ _ _ k l => [k; l]
  | OChannel _ modes _ _ => modes
  | OUnitary _ _ => seq 0 n
  end.

(* ---------------- read-out into the vocabulary of Base/PhaseSpace.v ---------------- *)
Definition bcov (V : mat) : cov := fun q1 q2 a b => V (xp q1 a) (xp q2 b).
Definition bvec (r : vect) : vec := fun q a => r (xp q a).
End Model.

Arguments bn {K}. Arguments bnw {K}. Arguments bweights {K}. Arguments bmeans {K}. Arguments bcovs {K}. Arguments mkB {K}.
