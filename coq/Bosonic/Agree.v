(* Bosonic component — the Gaussian simulator and the bosonic simulator agree, operation by operation:
   if the xp read-out of a GaussianModes state (Base/PhaseSpace.rcov / rmean) equals the read-out of one weight
   component of a BosonicModes state (bcov / bvec) before an operation, it does so after it.  Both sides are proved
   against the SAME documented matrices of Base/PhaseSpace.v (C01/GaussPhaseSpace.v for the Gaussian side,
   Bosonic/Proofs.v for the bosonic side). *)
From Coq Require Import Arith Bool List Lia Ring.
Import ListNotations.
From SFV Require Import Base.Num Base.PhaseSpace Gen.GaussCirc C01.GaussPhaseSpace.
From SFV Require Import Bosonic.Sum Bosonic.Model Bosonic.Index Bosonic.Proofs.

Section Agree.
Variable K : Type.
Variables (k0 k1 : K) (kadd kmul ksub : K -> K -> K) (kopp : K -> K).
Hypothesis Kring : ring_theory k0 k1 kadd kmul ksub kopp (@eq K).
Add Ring KrAgree : Kring.
Notation "x + y" := (kadd x y). Notation "x * y" := (kmul x y). Notation "x - y" := (ksub x y). Notation "- x" := (kopp x).
Notation NK := (GaussPhaseSpace.NK K k0 k1 kadd kmul ksub kopp).
Notation wf := (GaussPhaseSpace.wf K k0 k1 kadd kmul ksub kopp).
Notation bst := (@bst K).

(* the Gaussian state s and weight component w of the bosonic state b describe the same Gaussian state *)
Definition agree (s : st K) (b : bst) (w : nat) : Prop :=
  nlen s = bn b /\
  (forall q1 q2 a c, a < nlen s -> c < nlen s -> rcov NK s q1 q2 a c = bcov (bcovs b w) q1 q2 a c) /\
  (forall q a, a < nlen s -> rmean NK s q a = bvec (bmeans b w) q a).

Lemma in1 n k : k < n -> forall c, In c [k] -> c < n.
Proof. intros H c [<-|[]]. exact H. Qed.
Lemma in2 n k l : k < n -> l < n -> forall c, In c [k; l] -> c < n.
Proof. intros Hk Hl c [<-|[<-|[]]]; assumption. Qed.

Theorem agree_rotation er ei k s b w :
  k < nlen s -> wf s -> er * er = k1 - ei * ei -> agree s b w ->
  agree (GaussCirc.phase_shift NK (mkC er ei) k s) (Model.phase_shift NK er ei k b) w.
Proof.
  intros Hk Hwf Hph (Hn & Hc & Hm). assert (Hkb : k < bn b) by now rewrite <- Hn.
  split; [exact Hn|split].
  - intros q1 q2 a c Ha Hc'.
    etransitivity; [exact (GaussPhaseSpace.phase_shift_phase_space K k0 k1 kadd kmul ksub kopp Kring er ei k s q1 q2 a c Hk Ha Hc' Hwf Hph)|].
    symmetry. etransitivity;
      [exact (Proofs.phase_shift_phase_space K k0 k1 kadd kmul ksub kopp Kring b w er ei k q1 q2 a c Hkb
                (eq_ind _ (fun m => a < m) Ha _ Hn) (eq_ind _ (fun m => c < m) Hc' _ Hn))|].
    symmetry. apply (congr_ext_V K k0 k1 kadd kmul ksub kopp _ (nlen s)); eauto using in1.
  - intros q a Ha.
    etransitivity; [exact (GaussPhaseSpace.phase_shift_means K k0 k1 kadd kmul ksub kopp Kring er ei k s q a)|].
    symmetry. etransitivity;
      [exact (Proofs.phase_shift_means K k0 k1 kadd kmul ksub kopp Kring b w er ei k q a Hkb (eq_ind _ (fun m => a < m) Ha _ Hn))|].
    symmetry. apply (vmix_ext_r K k0 k1 kadd kmul ksub kopp _ (nlen s)); eauto using in1.
Qed.

Theorem agree_squeeze er ei sh ch k s b w :
  k < nlen s -> wf s -> er * er = k1 - ei * ei -> ch * ch = k1 + sh * sh -> agree s b w ->
  agree (GaussCirc.squeeze NK (mkC er ei) sh ch k s) (Model.squeeze NK er ei sh ch k b) w.
Proof.
  intros Hk Hwf Hph Hch (Hn & Hc & Hm). assert (Hkb : k < bn b) by now rewrite <- Hn.
  split; [exact Hn|split].
  - intros q1 q2 a c Ha Hc'.
    etransitivity; [exact (GaussPhaseSpace.squeeze_phase_space K k0 k1 kadd kmul ksub kopp Kring er ei sh ch k s q1 q2 a c Hk Ha Hc' Hwf Hph Hch)|].
    symmetry. etransitivity;
      [exact (Proofs.squeeze_phase_space K k0 k1 kadd kmul ksub kopp Kring b w er ei sh ch k q1 q2 a c Hkb
                (eq_ind _ (fun m => a < m) Ha _ Hn) (eq_ind _ (fun m => c < m) Hc' _ Hn))|].
    symmetry. apply (congr_ext_V K k0 k1 kadd kmul ksub kopp _ (nlen s)); eauto using in1.
  - intros q a Ha.
    etransitivity; [exact (GaussPhaseSpace.squeeze_means K k0 k1 kadd kmul ksub kopp Kring er ei sh ch k s q a)|].
    symmetry. etransitivity;
      [exact (Proofs.squeeze_means K k0 k1 kadd kmul ksub kopp Kring b w er ei sh ch k q a Hkb (eq_ind _ (fun m => a < m) Ha _ Hn))|].
    symmetry. apply (vmix_ext_r K k0 k1 kadd kmul ksub kopp _ (nlen s)); eauto using in1.
Qed.

(* The two backend wrappers.  GaussianBackend.beamsplitter(theta, phi, m1, m2) calls
   GaussianModes.beamsplitter(-theta, -phi, m1, m2), whose named inputs are then st' = sin(-theta), ct' = cos(-theta),
   (cp', sp') = exp(-i phi); BosonicBackend.beamsplitter(theta, phi, m1, m2) calls BosonicModes.beamsplitter(theta, phi, m1, m2)
   with ct = cos theta, st = sin theta, cp = cos phi, sp = sin phi.  The hypotheses are the parity identities of sin / cos. *)
Theorem agree_beamsplitter ct st cp sp ct' st' cp' sp' k l s b w :
  k < nlen s -> l < nlen s -> k <> l -> wf s ->
  st' = - st -> ct' = ct -> cp' = cp -> sp' = - sp ->
  cp * cp = k1 - sp * sp -> ct * ct = k1 - st * st -> agree s b w ->
  agree (GaussCirc.beamsplitter NK (mkC cp' sp') st' ct' k l s) (Model.beamsplitter NK ct st cp sp k l b) w.
Proof.
  intros Hk Hl Hkl Hwf -> -> -> -> Hph Hcs (Hn & Hc & Hm).
  assert (Hkb : k < bn b) by now rewrite <- Hn. assert (Hlb : l < bn b) by now rewrite <- Hn.
  assert (Hph' : cp * cp = k1 - (- sp) * (- sp)) by (rewrite Hph; ring).
  assert (Hcs' : ct * ct = k1 - (- st) * (- st)) by (rewrite Hcs; ring).
  split; [exact Hn|split].
  - intros q1 q2 a c Ha Hc'.
    etransitivity; [exact (GaussPhaseSpace.beamsplitter_phase_space K k0 k1 kadd kmul ksub kopp Kring cp (- sp) (- st) ct k l s q1 q2 a c
                             Hk Hl Hkl Ha Hc' Hwf Hph' Hcs')|].
    symmetry. etransitivity;
      [exact (Proofs.beamsplitter_phase_space K k0 k1 kadd kmul ksub kopp Kring b w ct st cp sp k l q1 q2 a c Hkb Hlb Hkl
                (eq_ind _ (fun m => a < m) Ha _ Hn) (eq_ind _ (fun m => c < m) Hc' _ Hn))|].
    symmetry. apply (congr_ext_V K k0 k1 kadd kmul ksub kopp _ (nlen s)); eauto using in2.
  - intros q a Ha.
    etransitivity; [exact (GaussPhaseSpace.beamsplitter_means K k0 k1 kadd kmul ksub kopp Kring cp (- sp) (- st) ct k l s q a Hkl)|].
    symmetry. etransitivity;
      [exact (Proofs.beamsplitter_means K k0 k1 kadd kmul ksub kopp Kring b w ct st cp sp k l q a Hkb Hlb Hkl (eq_ind _ (fun m => a < m) Ha _ Hn))|].
    symmetry. apply (vmix_ext_r K k0 k1 kadd kmul ksub kopp _ (nlen s)); eauto using in2.
Qed.

Theorem agree_displace r er ei k s b w :
  k < nlen s -> agree s b w ->
  agree (GaussCirc.displace NK r (mkC er ei) k s) (Model.displace NK r er ei k b) w.
Proof.
  intros Hk (Hn & Hc & Hm). assert (Hkb : k < bn b) by now rewrite <- Hn.
  split; [exact Hn|split].
  - intros q1 q2 a c Ha Hc'. exact (Hc q1 q2 a c Ha Hc').
  - intros q a Ha.
    etransitivity; [exact (GaussPhaseSpace.displace_means K k0 k1 kadd kmul ksub kopp Kring r er ei k s q a)|].
    symmetry. etransitivity;
      [exact (Proofs.displace_means K k0 k1 kadd kmul ksub kopp b w r er ei k q a Hkb (eq_ind _ (fun m => a < m) Ha _ Hn))|].
    f_equal. symmetry. apply Hm. exact Ha.
Qed.

Theorem agree_loss T qq k s b w :
  k < nlen s -> wf s -> qq * qq = T -> agree s b w ->
  agree (GaussCirc.loss NK qq k s) (Model.loss NK T qq k b) w.
Proof.
  intros Hk Hwf HT (Hn & Hc & Hm). assert (Hkb : k < bn b) by now rewrite <- Hn.
  split; [exact Hn|split].
  - intros q1 q2 a c Ha Hc'.
    etransitivity; [exact (GaussPhaseSpace.loss_phase_space K k0 k1 kadd kmul ksub kopp Kring qq k s q1 q2 a c Hk Ha Hc' Hwf)|].
    symmetry. etransitivity;
      [exact (Proofs.loss_phase_space K k0 k1 kadd kmul ksub kopp Kring b w T qq k q1 q2 a c Hkb
                (eq_ind _ (fun m => a < m) Ha _ Hn) (eq_ind _ (fun m => c < m) Hc' _ Hn))|].
    rewrite <- HT. unfold add_diag.
    rewrite (congr_ext_V K k0 k1 kadd kmul ksub kopp _ (nlen s) [k] _ (rcov NK s)); eauto using in1.
    intros; symmetry; auto.
  - intros q a Ha.
    etransitivity; [exact (GaussPhaseSpace.loss_means K k0 k1 kadd kmul ksub kopp Kring qq k s q a)|].
    symmetry. etransitivity;
      [exact (Proofs.loss_means K k0 k1 kadd kmul ksub kopp Kring b w T qq k q a Hkb (eq_ind _ (fun m => a < m) Ha _ Hn))|].
    symmetry. apply (vmix_ext_r K k0 k1 kadd kmul ksub kopp _ (nlen s)); eauto using in1.
Qed.

Theorem agree_thermal_loss T nb qq k s b w :
  k < nlen s -> wf s -> qq * qq = T -> agree s b w ->
  agree (GaussCirc.thermal_loss NK T nb qq k s) (Model.thermal_loss NK T nb qq k b) w.
Proof.
  intros Hk Hwf HT (Hn & Hc & Hm). assert (Hkb : k < bn b) by now rewrite <- Hn.
  split; [exact Hn|split].
  - intros q1 q2 a c Ha Hc'.
    etransitivity; [exact (GaussPhaseSpace.thermal_loss_phase_space K k0 k1 kadd kmul ksub kopp Kring T nb qq k s q1 q2 a c Hk Ha Hc' Hwf HT)|].
    symmetry. etransitivity;
      [exact (Proofs.thermal_loss_phase_space K k0 k1 kadd kmul ksub kopp Kring b w T nb qq k q1 q2 a c Hkb
                (eq_ind _ (fun m => a < m) Ha _ Hn) (eq_ind _ (fun m => c < m) Hc' _ Hn))|].
    unfold add_diag.
    rewrite (congr_ext_V K k0 k1 kadd kmul ksub kopp _ (nlen s) [k] _ (rcov NK s)); eauto using in1.
    intros; symmetry; auto.
  - intros q a Ha.
    (* the Gaussian thermal_loss is loss followed by an update of N[k][k]: the means are those of loss *)
    change (rmean NK (GaussCirc.thermal_loss NK T nb qq k s) q a) with (rmean NK (GaussCirc.loss NK qq k s) q a).
    etransitivity; [exact (GaussPhaseSpace.loss_means K k0 k1 kadd kmul ksub kopp Kring qq k s q a)|].
    symmetry. etransitivity;
      [exact (Proofs.thermal_loss_means K k0 k1 kadd kmul ksub kopp Kring b w T nb qq k q a Hkb (eq_ind _ (fun m => a < m) Ha _ Hn))|].
    symmetry. apply (vmix_ext_r K k0 k1 kadd kmul ksub kopp _ (nlen s)); eauto using in1.
Qed.

Theorem agree_init_thermal nb k s b w :
  k < nlen s -> wf s -> agree s b w ->
  agree (GaussCirc.init_thermal NK nb k s) (Model.init_thermal NK nb k b) w.
Proof.
  intros Hk Hwf (Hn & Hc & Hm). assert (Hkb : k < bn b) by now rewrite <- Hn.
  split; [exact Hn|split].
  - intros q1 q2 a c Ha Hc'.
    etransitivity; [exact (GaussPhaseSpace.init_thermal_phase_space K k0 k1 kadd kmul ksub kopp Kring nb k s q1 q2 a c Hk Ha Hc' Hwf)|].
    symmetry. etransitivity;
      [exact (Proofs.init_thermal_phase_space K k0 k1 kadd kmul ksub kopp Kring b w nb k q1 q2 a c Hkb
                (eq_ind _ (fun m => a < m) Ha _ Hn) (eq_ind _ (fun m => c < m) Hc' _ Hn))|].
    destruct (Nat.eqb a k || Nat.eqb c k); [reflexivity|]. symmetry. auto.
  - intros q a Ha.
    change (rmean NK (GaussCirc.init_thermal NK nb k s) q a) with (rmean NK (GaussCirc.loss NK k0 k s) q a).
    etransitivity; [exact (GaussPhaseSpace.loss_means K k0 k1 kadd kmul ksub kopp Kring k0 k s q a)|].
    symmetry. etransitivity;
      [exact (Proofs.init_thermal_means K k0 k1 kadd kmul ksub kopp Kring b w nb k q a Hkb (eq_ind _ (fun m => a < m) Ha _ Hn))|].
    unfold vmix, mem, S_scale, S1, qsum, lsum.
    destruct (Nat.eqb a k); simpl.
    + destruct q; lazy beta iota delta [n0 n1 nadd nmul nsub nopp GaussPhaseSpace.NK]; ring.
    + symmetry. auto.
Qed.
End Agree.
