(* Bosonic component — spectators (C05), symmetry preservation and weights (C07), for every operation of the
   model and for whole programs. *)
From Coq Require Import Arith Bool List Lia Ring.
Import ListNotations.
From SFV Require Import Base.Num Base.PhaseSpace Bosonic.Sum Bosonic.Model Bosonic.Index Bosonic.Proofs.

Section BosonicPhysical.
Variable K : Type.
Variables (k0 k1 : K) (kadd kmul ksub : K -> K -> K) (kopp : K -> K).
Hypothesis Kring : ring_theory k0 k1 kadd kmul ksub kopp (@eq K).
Add Ring KrBosPh : Kring.
Notation "x + y" := (kadd x y). Notation "x * y" := (kmul x y). Notation "x - y" := (ksub x y). Notation "- x" := (kopp x).
Notation NK := (mkNum k0 k1 kadd kmul ksub kopp).
Notation sum := (sumn NK).
Notation smat := (@smat K).
Notation mat := (@mat K).
Notation vect := (@vect K).
Notation bst := (@bst K).
Notation bop := (@bop K).
Notation blockform := (blockform K k0 k1).
Notation Bexp := (Bexp K k0).

Ltac kn := lazy beta iota delta [n0 n1 nadd nmul nsub nopp].

(* ---------------- spectators ---------------- *)
(* Y (xxpp) vanishes unless both quadratures belong to target modes *)
Definition Y_local (n : nat) (tg : list nat) (Y : option mat) : Prop :=
  match Y with
  | None => True
  | Some Y => forall q1 q2 a b, a < n -> b < n -> ~ In a tg \/ ~ In b tg -> Y (enc n q1 a) (enc n q2 b) = k0
  end.

Theorem update_covs_spectators n tg B X2 Y V i j :
  blockform n tg B X2 -> good_targets n tg -> Y_local n tg Y ->
  i < 2 * n -> j < 2 * n -> ~ In (Nat.div2 i) tg -> ~ In (Nat.div2 j) tg ->
  update_covs NK n V X2 Y i j = V i j.
Proof.
  intros HB Hg HY Hi Hj Hni Hnj.
  destruct (xp_cover n i Hi) as (q1 & a & -> & Ha). destruct (xp_cover n j Hj) as (q2 & b & -> & Hb).
  rewrite div2_xp in Hni, Hnj.
  pose proof (update_covs_congr K k0 k1 kadd kmul ksub kopp Kring n tg B X2 Y V q1 q2 a b HB Hg Ha Hb) as E.
  unfold bcov in E at 1. rewrite E.
  rewrite (congr_spectator K k0 k1 kadd kmul ksub kopp) by assumption. unfold bcov.
  destruct Y as [Y|]; simpl in HY; [rewrite HY by auto|]; ring.
Qed.

Theorem update_means_spectators n tg B X2 r i :
  blockform n tg B X2 -> good_targets n tg -> i < 2 * n -> ~ In (Nat.div2 i) tg ->
  update_means NK n r X2 i = r i.
Proof.
  intros HB Hg Hi Hni.
  destruct (xp_cover n i Hi) as (q & a & -> & Ha). rewrite div2_xp in Hni.
  pose proof (update_means_vmix K k0 k1 kadd kmul ksub kopp Kring n tg B X2 r q a HB Hg Ha) as E.
  unfold bvec in E at 1. rewrite E.
  now rewrite (vmix_spectator K k0 k1 kadd kmul ksub kopp).
Qed.

Lemma expandXY_Y_local M modes X Y n : Y_local n modes (Some (snd (expandXY NK M modes X Y n))).
Proof.
  intros q1 q2 a b Ha Hb Hor.
  rewrite (expandXY_Y K k0 k1 kadd kmul ksub kopp) by assumption.
  replace (mem a modes && mem b modes) with false; [reflexivity|].
  symmetry. apply andb_false_iff. destruct Hor as [H|H]; [left|right]; now apply mem_false.
Qed.

(* side conditions under which the Python call is legal: targets in range and distinct *)
Definition op_wf (o : bop) (n : nat) : Prop :=
  match o with
  | ORot _ _ k | OSq _ _ _ _ k | ODisp _ _ _ k | OLoss _ _ k | OThLoss _ _ _ k | OInitTh _ k => k < n
  | OBs _ _ _ _ k l => k < n /\ l < n /\ k <> l
  | OChannel _ modes _ _ => good_targets n modes
  | OUnitary _ _ => True
  end.

Lemma op_wf_good o n : op_wf o n -> good_targets n (targets o n).
Proof.
  destruct o; simpl; intros H; try (now apply good1); try exact H.
  - destruct H as (Hk & Hl & Hkl). now apply good2.
  - split; [apply seq_NoDup|]. intros c Hc. apply in_seq in Hc. lia.
Qed.

Lemma channel_spect_cov M modes X Y (s : bst) w i j :
  good_targets (bn s) modes -> i < 2 * bn s -> j < 2 * bn s -> ~ In (Nat.div2 i) modes -> ~ In (Nat.div2 j) modes ->
  bcovs (apply_channel NK (fst (expandXY NK M modes X Y (bn s))) (snd (expandXY NK M modes X Y (bn s))) s) w i j = bcovs s w i j.
Proof.
  intros Hg Hi Hj Hni Hnj. unfold apply_channel, apply_XY. cbv beta iota delta [bcovs].
  apply (update_covs_spectators (bn s) modes (Bexp M X modes) _ (Some (snd (expandXY NK M modes X Y (bn s))))); auto.
  - apply (expand_blockform K k0 k1 kadd kmul ksub kopp).
  - apply expandXY_Y_local.
Qed.

Lemma channel_spect_mean M modes X Y (s : bst) w i :
  good_targets (bn s) modes -> i < 2 * bn s -> ~ In (Nat.div2 i) modes ->
  bmeans (apply_channel NK (fst (expandXY NK M modes X Y (bn s))) (snd (expandXY NK M modes X Y (bn s))) s) w i = bmeans s w i.
Proof.
  intros Hg Hi Hni. unfold apply_channel, apply_XY. cbv beta iota delta [bmeans].
  apply (update_means_spectators (bn s) modes (Bexp M X modes)); auto.
  apply (expand_blockform K k0 k1 kadd kmul ksub kopp).
Qed.

Lemma unitary_spect_cov M modes X (s : bst) w i j :
  good_targets (bn s) modes -> i < 2 * bn s -> j < 2 * bn s -> ~ In (Nat.div2 i) modes -> ~ In (Nat.div2 j) modes ->
  bcovs (apply_XY NK (expand NK M X modes (bn s)) None s) w i j = bcovs s w i j.
Proof.
  intros Hg Hi Hj Hni Hnj. unfold apply_XY. cbv beta iota delta [bcovs].
  apply (update_covs_spectators (bn s) modes (Bexp M X modes) _ None); auto.
  - apply (expand_blockform K k0 k1 kadd kmul ksub kopp).
  - exact I.
Qed.

Lemma unitary_spect_mean M modes X (s : bst) w i :
  good_targets (bn s) modes -> i < 2 * bn s -> ~ In (Nat.div2 i) modes ->
  bmeans (apply_XY NK (expand NK M X modes (bn s)) None s) w i = bmeans s w i.
Proof.
  intros Hg Hi Hni. unfold apply_XY. cbv beta iota delta [bmeans].
  apply (update_means_spectators (bn s) modes (Bexp M X modes)); auto.
  apply (expand_blockform K k0 k1 kadd kmul ksub kopp).
Qed.

Theorem spectators_cov o (s : bst) w i j :
  op_wf o (bn s) -> i < 2 * bn s -> j < 2 * bn s ->
  ~ In (Nat.div2 i) (targets o (bn s)) -> ~ In (Nat.div2 j) (targets o (bn s)) ->
  bcovs (apply_op NK o s) w i j = bcovs s w i j.
Proof.
  intros Hwf Hi Hj Hni Hnj. pose proof (op_wf_good o (bn s) Hwf) as Hg.
  destruct o; simpl targets in Hni, Hnj, Hg; cbv beta iota delta [apply_op].
  - now apply unitary_spect_cov.
  - now apply unitary_spect_cov.
  - now apply unitary_spect_cov.
  - reflexivity.
  - now apply (channel_spect_cov 1 [k]).
  - now apply (channel_spect_cov 1 [k]).
  - now apply (channel_spect_cov 1 [k]).
  - now apply channel_spect_cov.
  - exfalso. apply Hni. apply in_seq. pose proof (div2_lt (bn s) i Hi). lia.
Qed.

Theorem spectators_mean o (s : bst) w i :
  op_wf o (bn s) -> i < 2 * bn s -> ~ In (Nat.div2 i) (targets o (bn s)) ->
  bmeans (apply_op NK o s) w i = bmeans s w i.
Proof.
  intros Hwf Hi Hni. pose proof (op_wf_good o (bn s) Hwf) as Hg.
  destruct o; simpl targets in Hni, Hg; cbv beta iota delta [apply_op].
  - now apply unitary_spect_mean.
  - now apply unitary_spect_mean.
  - now apply unitary_spect_mean.
  - (* displace *)
    unfold displace. cbv beta iota delta [bmeans].
    destruct (xp_cover (bn s) i Hi) as (q & a & -> & Ha). rewrite div2_xp in Hni.
    rewrite from_xp_xp. unfold expand_vector. simpl in Hwf.
    replace (Nat.add (bn s) k) with (enc (bn s) true k) by (unfold enc; simpl; lia).
    replace k with (enc (bn s) false k) at 2 by (unfold enc; simpl; lia).
    rewrite !enc_eqb by assumption.
    replace (Nat.eqb a k) with false by (symmetry; apply Nat.eqb_neq; intros ->; apply Hni; simpl; auto).
    simpl. kn. ring.
  - now apply (channel_spect_mean 1 [k]).
  - now apply (channel_spect_mean 1 [k]).
  - now apply (channel_spect_mean 1 [k]).
  - now apply channel_spect_mean.
  - exfalso. apply Hni. apply in_seq. pose proof (div2_lt (bn s) i Hi). lia.
Qed.

(* ---------------- weights and shapes ---------------- *)
Theorem weights_untouched o (s : bst) :
  bweights (apply_op NK o s) = bweights s /\ bn (apply_op NK o s) = bn s /\ bnw (apply_op NK o s) = bnw s.
Proof. destruct o; repeat split; reflexivity. Qed.

Theorem run_weights_untouched prog (s : bst) :
  bweights (run NK prog s) = bweights s /\ bn (run NK prog s) = bn s /\ bnw (run NK prog s) = bnw s.
Proof.
  revert s. induction prog as [|o prog IH]; intros s; [repeat split; reflexivity|].
  unfold run. simpl. fold (run NK prog (apply_op NK o s)).
  destruct (IH (apply_op NK o s)) as (H1 & H2 & H3). destruct (weights_untouched o s) as (G1 & G2 & G3).
  repeat split; congruence.
Qed.

(* ---------------- symmetry of the covariance matrices ---------------- *)
Definition msym (m : nat) (V : mat) : Prop := forall i j, i < m -> j < m -> V i j = V j i.

Lemma xvxt_sym m (X V : mat) : msym m V -> forall i j, mmul NK m (mmul NK m X V) (mT X) i j = mmul NK m (mmul NK m X V) (mT X) j i.
Proof.
  intros HV i j. unfold mmul, mT. kn.
  transitivity (sum m (fun b => sum m (fun a => X i a * V a b * X j b))).
  { apply (sumn_ext K k0 k1 kadd kmul ksub kopp). intros b _.
    rewrite <- (sumn_mul_r K k0 k1 kadd kmul ksub kopp Kring). reflexivity. }
  symmetry.
  transitivity (sum m (fun b => sum m (fun a => X j a * V a b * X i b))).
  { apply (sumn_ext K k0 k1 kadd kmul ksub kopp). intros b _.
    rewrite <- (sumn_mul_r K k0 k1 kadd kmul ksub kopp Kring). reflexivity. }
  rewrite (sumn_swap K k0 k1 kadd kmul ksub kopp Kring).
  apply (sumn_ext K k0 k1 kadd kmul ksub kopp). intros b Hb.
  apply (sumn_ext K k0 k1 kadd kmul ksub kopp). intros a Ha.
  rewrite (HV a b Ha Hb). ring.
Qed.

Theorem update_covs_symmetric n X Y V :
  msym (2 * n) V ->
  match Y with Some Y => msym (2 * n) (permute (from_xp n) Y) | None => True end ->
  msym (2 * n) (update_covs NK n V X Y).
Proof.
  intros HV HY i j Hi Hj. unfold update_covs, madd. kn.
  rewrite (xvxt_sym (2 * n) _ V HV i j). f_equal.
  destruct Y; [now apply HY|reflexivity].
Qed.

Lemma expandXY_Y_sym M modes X Y n : (forall i j, Y i j = Y j i) ->
  msym (2 * n) (permute (from_xp n) (snd (expandXY NK M modes X Y n))).
Proof.
  intros HY i j Hi Hj.
  destruct (xp_cover n i Hi) as (q1 & a & -> & Ha). destruct (xp_cover n j Hj) as (q2 & b & -> & Hb).
  unfold permute. rewrite !from_xp_xp, !(expandXY_Y K k0 k1 kadd kmul ksub kopp) by assumption.
  rewrite (andb_comm (mem b modes)). destruct (mem a modes && mem b modes); [|reflexivity].
  unfold Proofs.Bexp, B1, Bgen. destruct (Nat.eqb M 1).
  - rewrite (Nat.eqb_sym b a). destruct (Nat.eqb a b); [apply HY|reflexivity].
  - destruct (pos_of a modes), (pos_of b modes); try reflexivity. apply HY.
Qed.

Lemma scal2_sym x i j : scal2 NK x i j = scal2 NK x j i.
Proof. unfold scal2. now rewrite (kdelta_sym K k0 k1 kadd kmul ksub kopp). Qed.

Definition sym_ok (o : bop) : Prop :=
  match o with OChannel _ _ _ Y => forall i j, Y i j = Y j i | _ => True end.

Theorem symmetric_op o (s : bst) : sym_ok o ->
  (forall w, msym (2 * bn s) (bcovs s w)) -> forall w, msym (2 * bn s) (bcovs (apply_op NK o s) w).
Proof.
  intros Hok Hs w. specialize (Hs w).
  destruct o; cbv beta iota delta [apply_op];
    try (unfold phase_shift, squeeze, beamsplitter, apply_u, apply_XY; cbv beta iota delta [bcovs bn];
         apply update_covs_symmetric; [exact Hs|exact I]).
  - exact Hs.
  - unfold loss. cbv zeta. unfold apply_channel, apply_XY. cbv beta iota delta [bcovs bn].
    apply update_covs_symmetric; [exact Hs|apply expandXY_Y_sym; apply scal2_sym].
  - unfold thermal_loss. cbv zeta. unfold apply_channel, apply_XY. cbv beta iota delta [bcovs bn].
    apply update_covs_symmetric; [exact Hs|apply expandXY_Y_sym; apply scal2_sym].
  - unfold init_thermal, thermal_loss. cbv zeta. unfold apply_channel, apply_XY. cbv beta iota delta [bcovs bn].
    apply update_covs_symmetric; [exact Hs|apply expandXY_Y_sym; apply scal2_sym].
  - cbv zeta. unfold apply_channel, apply_XY. cbv beta iota delta [bcovs bn].
    apply update_covs_symmetric; [exact Hs|apply expandXY_Y_sym; exact Hok].
Qed.

Theorem run_symmetric prog (s : bst) : Forall sym_ok prog ->
  (forall w, msym (2 * bn s) (bcovs s w)) -> forall w, msym (2 * bn (run NK prog s)) (bcovs (run NK prog s) w).
Proof.
  revert s. induction prog as [|o prog IH]; intros s Hok Hs; [exact Hs|].
  inversion Hok as [|? ? Ho Hrest]; subst.
  unfold run. simpl. fold (run NK prog (apply_op NK o s)).
  apply IH; [exact Hrest|].
  destruct (weights_untouched o s) as (_ & -> & _). now apply symmetric_op.
Qed.

(* ---------------- programs: entries not involving any mode touched by any operation are unchanged ---------------- *)
Definition prog_targets (prog : list bop) (n : nat) : list nat := flat_map (fun o => targets o n) prog.

Theorem run_spectators prog (s : bst) w i j :
  Forall (fun o => op_wf o (bn s)) prog -> i < 2 * bn s -> j < 2 * bn s ->
  ~ In (Nat.div2 i) (prog_targets prog (bn s)) -> ~ In (Nat.div2 j) (prog_targets prog (bn s)) ->
  bcovs (run NK prog s) w i j = bcovs s w i j /\ bmeans (run NK prog s) w i = bmeans s w i.
Proof.
  revert s. induction prog as [|o prog IH]; intros s Hwf Hi Hj Hni Hnj; [split; reflexivity|].
  inversion Hwf as [|? ? Ho Hrest]; subst.
  unfold run. simpl. fold (run NK prog (apply_op NK o s)).
  unfold prog_targets in Hni, Hnj. simpl in Hni, Hnj. rewrite in_app_iff in Hni, Hnj.
  destruct (weights_untouched o s) as (_ & Hn & _).
  destruct (IH (apply_op NK o s)) as [E1 E2]; rewrite ?Hn; auto.
  rewrite E1, E2. split; [apply spectators_cov|apply spectators_mean]; auto.
Qed.
End BosonicPhysical.
