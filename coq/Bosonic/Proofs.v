(* Bosonic component — proofs.
   1. General: if the xxpp matrix X2 handed to update_means / update_covs has block form B on the modes tg (identity
      elsewhere) then, after converting the index convention, the new covariance is congr B tg V (= X V X^T as a full
      (2n)x(2n) matrix product, collapsed by Sum.row_collapse) and the new means are vmix B tg r.
   2. thewalrus' expand produces such block forms; expandXY's Y is zero outside the target modes.
   3. Per operation: the block is the documented S_rot / S_sq / S_bs / S_scale of Base/PhaseSpace.v.
   4. Spectators, symmetry, weights. *)
From Coq Require Import Arith Bool List Lia Ring.
Import ListNotations.
From SFV Require Import Base.Num Base.PhaseSpace Bosonic.Sum Bosonic.Model Bosonic.Index.

Lemma xp_cover n i : i < 2 * n -> exists q a, i = xp q a /\ a < n.
Proof. intros H. exists (Nat.odd i), (Nat.div2 i). split; [apply xp_decomp|now apply div2_lt]. Qed.

Section BosonicProofs.
Variable K : Type.
Variables (k0 k1 : K) (kadd kmul ksub : K -> K -> K) (kopp : K -> K).
Hypothesis Kring : ring_theory k0 k1 kadd kmul ksub kopp (@eq K).
Add Ring KrBos : Kring.
Notation "x + y" := (kadd x y). Notation "x * y" := (kmul x y). Notation "x - y" := (ksub x y). Notation "- x" := (kopp x).
Notation NK := (mkNum k0 k1 kadd kmul ksub kopp).
Notation sum := (sumn NK).
Notation two_level := (two_level K k0 k1 kadd kmul ksub kopp).
Notation smat := (@smat K).
Notation mat := (@mat K).
Notation vect := (@vect K).
Notation bst := (@bst K).

Ltac kn := lazy beta iota delta [n0 n1 nadd nmul nsub nopp].

(* X2 (xxpp) acts as B on the modes tg and as the identity elsewhere *)
Definition blockform (n : nat) (tg : list nat) (B : smat) (X2 : mat) : Prop :=
  forall q a p b, a < n -> b < n ->
    X2 (enc n q a) (enc n p b)
    = if mem a tg && mem b tg then B q a p b else (if Nat.eqb a b && Bool.eqb q p then k1 else k0).

Definition good_targets (n : nat) (tg : list nat) : Prop := NoDup tg /\ forall c, In c tg -> c < n.

Lemma perm_two_level n tg B X2 :
  blockform n tg B X2 -> (forall c, In c tg -> c < n) ->
  two_level (2 * n) (xpl tg) (permute (from_xp n) X2).
Proof.
  intros HB Hlt i j Hi Hj Hor.
  destruct (xp_cover n i Hi) as (q & a & -> & Ha). destruct (xp_cover n j Hj) as (p & b & -> & Hb).
  unfold permute. rewrite !from_xp_xp, HB by assumption.
  rewrite !In_xpl in Hor.
  replace (mem a tg && mem b tg) with false.
  - symmetry. apply kdelta_xp.
  - symmetry. apply andb_false_iff. destruct Hor as [H|H]; [left|right]; now apply mem_false.
Qed.

(* one row of  X_perm @ f  in phase-space vocabulary *)
Lemma row_mix n tg B X2 (f : nat -> K) q a :
  blockform n tg B X2 -> good_targets n tg -> a < n ->
  sum (2 * n) (fun j => permute (from_xp n) X2 (xp q a) j * f j)
  = if mem a tg then qsum NK (fun p => lsum NK tg (fun c => B q a p c * f (xp p c))) else f (xp q a).
Proof.
  intros HB [Hnd Hlt] Ha.
  rewrite (row_collapse K k0 k1 kadd kmul ksub kopp Kring (2 * n) (xpl tg)).
  - rewrite mem_xpl. destruct (mem a tg) eqn:Hm; [|reflexivity].
    rewrite (lsum_xpl K k0 k1 kadd kmul ksub kopp Kring). unfold qsum. kn.
    rewrite <- (lsum_add K k0 k1 kadd kmul ksub kopp Kring).
    apply (lsum_ext K k0 k1 kadd kmul ksub kopp). intros c Hc.
    unfold permute. rewrite !from_xp_xp, !HB by auto.
    rewrite Hm. replace (mem c tg) with true by (symmetry; now apply mem_In). reflexivity.
  - now apply NoDup_xpl.
  - now apply xpl_lt.
  - now apply (perm_two_level n tg B).
  - now apply xp_lt.
Qed.

Lemma col_mix n tg B X2 (f : nat -> K) q b :
  blockform n tg B X2 -> good_targets n tg -> b < n ->
  sum (2 * n) (fun j => f j * permute (from_xp n) X2 (xp q b) j)
  = if mem b tg then qsum NK (fun p => lsum NK tg (fun c => f (xp p c) * B q b p c)) else f (xp q b).
Proof.
  intros HB Hg Hb.
  rewrite (sumn_ext K k0 k1 kadd kmul ksub kopp _ _ (fun j => permute (from_xp n) X2 (xp q b) j * f j)) by (intros; ring).
  rewrite (row_mix n tg B) by assumption.
  destruct (mem b tg); [|reflexivity].
  unfold qsum. f_equal; apply (lsum_ext K k0 k1 kadd kmul ksub kopp); intros; ring.
Qed.

(* ---------------- the general theorems about update_means / update_covs ---------------- *)
Theorem update_means_vmix n tg B X2 r q a :
  blockform n tg B X2 -> good_targets n tg -> a < n ->
  bvec (update_means NK n r X2) q a = vmix NK B tg (bvec r) q a.
Proof.
  intros HB Hg Ha. unfold bvec, update_means, mvec, vmix. kn.
  now rewrite (row_mix n tg B).
Qed.

Lemma xvxt_congr n tg B X2 V q1 q2 a b :
  blockform n tg B X2 -> good_targets n tg -> a < n -> b < n ->
  bcov (mmul NK (2 * n) (mmul NK (2 * n) (permute (from_xp n) X2) V) (mT (permute (from_xp n) X2))) q1 q2 a b
  = congr NK B tg (bcov V) q1 q2 a b.
Proof.
  intros HB Hg Ha Hb. unfold bcov, mmul, mT, congr, colmix. kn.
  rewrite (col_mix n tg B X2 (fun j => sum (2 * n) (fun a0 => permute (from_xp n) X2 (xp q1 a) a0 * V a0 j))) by assumption.
  assert (R : forall j, sum (2 * n) (fun a0 => permute (from_xp n) X2 (xp q1 a) a0 * V a0 j)
              = if mem a tg then qsum NK (fun p => lsum NK tg (fun c => B q1 a p c * V (xp p c) j)) else V (xp q1 a) j)
    by (intros j; now apply (row_mix n tg B X2 (fun a0 => V a0 j))).
  destruct (mem b tg).
  - unfold qsum. kn. f_equal; apply (lsum_ext K k0 k1 kadd kmul ksub kopp); intros c _; rewrite R; reflexivity.
  - rewrite R. reflexivity.
Qed.

Theorem update_covs_congr n tg B X2 Y V q1 q2 a b :
  blockform n tg B X2 -> good_targets n tg -> a < n -> b < n ->
  bcov (update_covs NK n V X2 Y) q1 q2 a b
  = congr NK B tg (bcov V) q1 q2 a b
    + match Y with Some Y => Y (enc n q1 a) (enc n q2 b) | None => k0 end.
Proof.
  intros HB Hg Ha Hb. unfold update_covs.
  change (bcov (madd NK ?A ?Yp) q1 q2 a b) with (bcov A q1 q2 a b + Yp (xp q1 a) (xp q2 b)).
  rewrite (xvxt_congr n tg B) by assumption. f_equal.
  destruct Y; [|reflexivity]. unfold permute. now rewrite !from_xp_xp.
Qed.

(* congr / vmix read their matrix only on the target modes *)
Lemma congr_ext_B (B B' : smat) tg V q1 q2 a b :
  (forall q x p c, In x tg -> In c tg -> B q x p c = B' q x p c) ->
  congr NK B tg V q1 q2 a b = congr NK B' tg V q1 q2 a b.
Proof.
  intros H. unfold congr, colmix, rowmix.
  destruct (mem b tg) eqn:Hb; destruct (mem a tg) eqn:Ha; try reflexivity.
  - unfold qsum. kn. f_equal; apply (lsum_ext K k0 k1 kadd kmul ksub kopp); intros c Hc;
      (rewrite (H _ b _ c) by (auto; now apply mem_In)); f_equal;
      f_equal; apply (lsum_ext K k0 k1 kadd kmul ksub kopp); intros d Hd;
      (rewrite (H _ a _ d) by (auto; now apply mem_In)); reflexivity.
  - unfold qsum. kn. f_equal; apply (lsum_ext K k0 k1 kadd kmul ksub kopp); intros c Hc;
      (rewrite (H _ b _ c) by (auto; now apply mem_In)); reflexivity.
  - unfold qsum. kn. f_equal; apply (lsum_ext K k0 k1 kadd kmul ksub kopp); intros d Hd;
      (rewrite (H _ a _ d) by (auto; now apply mem_In)); reflexivity.
Qed.

Lemma vmix_ext_B (B B' : smat) tg r q a :
  (forall q x p c, In x tg -> In c tg -> B q x p c = B' q x p c) ->
  vmix NK B tg r q a = vmix NK B' tg r q a.
Proof.
  intros H. unfold vmix. destruct (mem a tg) eqn:Ha; [|reflexivity].
  unfold qsum. kn. f_equal; apply (lsum_ext K k0 k1 kadd kmul ksub kopp); intros c Hc;
    (rewrite (H _ a _ c) by (auto; now apply mem_In)); reflexivity.
Qed.

(* ... and their argument only at target / own positions: extensionality on the n x n block *)
Lemma congr_ext_V (B : smat) n tg V V' q1 q2 a b :
  (forall c, In c tg -> c < n) -> a < n -> b < n ->
  (forall p1 p2 x y, x < n -> y < n -> V p1 p2 x y = V' p1 p2 x y) ->
  congr NK B tg V q1 q2 a b = congr NK B tg V' q1 q2 a b.
Proof.
  intros Hlt Ha Hb H. unfold congr, colmix, rowmix.
  destruct (mem b tg) eqn:Eb; destruct (mem a tg) eqn:Ea.
  - unfold qsum. kn. f_equal; apply (lsum_ext K k0 k1 kadd kmul ksub kopp); intros c Hc; f_equal;
      f_equal; apply (lsum_ext K k0 k1 kadd kmul ksub kopp); intros d Hd; f_equal; apply H; auto.
  - unfold qsum. kn. f_equal; apply (lsum_ext K k0 k1 kadd kmul ksub kopp); intros c Hc; f_equal; apply H; auto.
  - unfold qsum. kn. f_equal; apply (lsum_ext K k0 k1 kadd kmul ksub kopp); intros d Hd; f_equal; apply H; auto.
  - apply H; auto.
Qed.

Lemma vmix_ext_r (B : smat) n tg r r' q a :
  (forall c, In c tg -> c < n) -> a < n ->
  (forall p x, x < n -> r p x = r' p x) ->
  vmix NK B tg r q a = vmix NK B tg r' q a.
Proof.
  intros Hlt Ha H. unfold vmix. destruct (mem a tg).
  - unfold qsum. kn. f_equal; apply (lsum_ext K k0 k1 kadd kmul ksub kopp); intros c Hc; f_equal; apply H; auto.
  - apply H; auto.
Qed.

Lemma congr_spectator (B : smat) tg V q1 q2 a b :
  ~ In a tg -> ~ In b tg -> congr NK B tg V q1 q2 a b = V q1 q2 a b.
Proof.
  intros Ha Hb. apply mem_false in Ha. apply mem_false in Hb.
  unfold congr, colmix, rowmix. now rewrite Hb, Ha.
Qed.

Lemma vmix_spectator (B : smat) tg r q a : ~ In a tg -> vmix NK B tg r q a = r q a.
Proof. intros Ha. apply mem_false in Ha. unfold vmix. now rewrite Ha. Qed.

(* ---------------- thewalrus.expand produces block forms ---------------- *)
Definition B1 (S : mat) : smat := fun q a p b => if Nat.eqb a b then S (b2n q) (b2n p) else k0.
Definition Bgen (M : nat) (S : mat) (modes : list nat) : smat := fun q a p b =>
  match pos_of a modes, pos_of b modes with
  | Some pa, Some pb => S (Nat.add pa (Nat.mul (b2n q) M)) (Nat.add pb (Nat.mul (b2n p) M))
  | _, _ => k0
  end.
Definition Bexp (M : nat) (S : mat) (modes : list nat) : smat := if Nat.eqb M 1 then B1 S else Bgen M S modes.

Lemma pos_of_mem a modes : mem a modes = match pos_of a modes with Some _ => true | None => false end.
Proof.
  induction modes as [|m r IH]; [reflexivity|].
  simpl. destruct (Nat.eqb a m); [reflexivity|]. simpl. rewrite IH. now destruct (pos_of a r).
Qed.

Lemma expand_blockform M S modes n : blockform n modes (Bexp M S modes) (expand NK M S modes n).
Proof.
  intros q a p b Ha Hb. unfold expand, Bexp.
  rewrite !modeof_enc, !quad_enc by assumption.
  rewrite (kdelta_enc K k0 k1 kadd kmul ksub kopp) by assumption.
  destruct (Nat.eqb M 1).
  - unfold B1. destruct (Nat.eqb_spec a b) as [->|Hne].
    + rewrite andb_diag. simpl. destruct (mem b modes); reflexivity.
    + simpl. destruct (mem a modes && mem b modes); reflexivity.
  - unfold Bgen. rewrite !pos_of_mem.
    destruct (pos_of a modes), (pos_of b modes); reflexivity.
Qed.

(* expandXY: the additive part is zero unless both quadratures belong to target modes *)
Lemma expandXY_Y M modes X Y n q1 q2 a b : a < n -> b < n ->
  snd (expandXY NK M modes X Y n) (enc n q1 a) (enc n q2 b)
  = if mem a modes && mem b modes then Bexp M Y modes q1 a q2 b else k0.
Proof.
  intros Ha Hb. unfold expandXY, snd.
  rewrite (expand_blockform M Y modes n q1 a q2 b Ha Hb).
  rewrite enc_eqb, modeof_enc by assumption. kn.
  destruct (Nat.eqb_spec a b) as [->|Hne]; simpl.
  - rewrite andb_diag. destruct (mem b modes); simpl; [now rewrite andb_false_r|].
    destruct (Bool.eqb q1 q2); reflexivity.
  - destruct (mem a modes && mem b modes); reflexivity.
Qed.

Lemma expandXY_X M modes X Y n : fst (expandXY NK M modes X Y n) = expand NK M X modes n.
Proof. reflexivity. Qed.

(* ---------------- the documented matrices ---------------- *)
Lemma rotation_block c s k q x p y : In x [k] -> In y [k] ->
  Bexp 1 (rotation NK c s) [k] q x p y = S_rot NK c s q x p y.
Proof.
  simpl. intros [<-|[]] [<-|[]]. unfold Bexp, B1. rewrite !Nat.eqb_refl.
  destruct q, p; reflexivity.
Qed.

Lemma squeezing_block c s sh ch k q x p y : In x [k] -> In y [k] ->
  Bexp 1 (squeezing NK c s sh ch) [k] q x p y = S_sq NK c s sh ch q x p y.
Proof.
  simpl. intros [<-|[]] [<-|[]]. unfold Bexp, B1. rewrite !Nat.eqb_refl.
  destruct q, p; unfold squeezing, S_sq, S1, mat2, b2n; kn; ring.
Qed.

Lemma scal2_block x k q a p b : In a [k] -> In b [k] ->
  Bexp 1 (scal2 NK x) [k] q a p b = S_scale NK x q a p b.
Proof.
  simpl. intros [<-|[]] [<-|[]]. unfold Bexp, B1. rewrite !Nat.eqb_refl.
  destruct q, p; unfold scal2, S_scale, S1, kdelta, b2n; simpl Nat.eqb; kn; ring.
Qed.

(* thewalrus beam_splitter(theta, phi) on (k, l) is S_bs with e = exp(-i phi), sn = -sin(theta): exactly the arguments
   GaussianBackend.beamsplitter hands to GaussianModes.beamsplitter (-theta, -phi) *)
Lemma beam_splitter_block ct st cp sp k l q x p y : k <> l -> In x [k; l] -> In y [k; l] ->
  Bexp 2 (beam_splitter NK ct st cp sp) [k; l] q x p y = S_bs NK cp (- sp) (- st) ct k l q x p y.
Proof.
  intros Hkl Hx Hy. unfold Bexp, Bgen. change (Nat.eqb 2 1) with false. cbv iota.
  assert (Hlk : Nat.eqb l k = false) by (apply Nat.eqb_neq; congruence).
  assert (Pk : pos_of k [k; l] = Some 0) by (simpl; now rewrite Nat.eqb_refl).
  assert (Pl : pos_of l [k; l] = Some 1) by (simpl; now rewrite Hlk, Nat.eqb_refl).
  simpl in Hx, Hy.
  destruct Hx as [<-|[<-|[]]]; destruct Hy as [<-|[<-|[]]]; rewrite ?Pk, ?Pl; unfold S_bs;
    rewrite ?Nat.eqb_refl, ?Hlk;
    destruct q, p; unfold beam_splitter, interferometer, mat2, b2n, quad, modeof; simpl; kn; ring.
Qed.

(* ---------------- per-operation theorems (one weight component) ---------------- *)
Lemma good1 n k : k < n -> good_targets n [k].
Proof. intros H. split; [constructor; [simpl; tauto|constructor]|]. simpl. intros c [<-|[]]. exact H. Qed.
Lemma good2 n k l : k < n -> l < n -> k <> l -> good_targets n [k; l].
Proof.
  intros Hk Hl Hkl. split.
  - constructor; [simpl; intuition|constructor; [simpl; tauto|constructor]].
  - simpl. intros c [<-|[<-|[]]]; assumption.
Qed.

Section PerOp.
Variables (s : bst) (w : nat).
Let n := bn s.

Theorem phase_shift_phase_space c sn k q1 q2 a b : k < n -> a < n -> b < n ->
  bcov (bcovs (phase_shift NK c sn k s) w) q1 q2 a b = congr NK (S_rot NK c sn) [k] (bcov (bcovs s w)) q1 q2 a b.
Proof.
  intros Hk Ha Hb. unfold phase_shift, apply_XY. cbv beta iota delta [bcovs].
  rewrite (update_covs_congr n [k] _ _ None _ _ _ _ _ (expand_blockform 1 _ [k] n) (good1 n k Hk) Ha Hb).
  rewrite (congr_ext_B _ (S_rot NK c sn)) by (intros; now apply rotation_block). ring.
Qed.

Theorem phase_shift_means c sn k q a : k < n -> a < n ->
  bvec (bmeans (phase_shift NK c sn k s) w) q a = vmix NK (S_rot NK c sn) [k] (bvec (bmeans s w)) q a.
Proof.
  intros Hk Ha. unfold phase_shift, apply_XY. cbv beta iota delta [bmeans].
  rewrite (update_means_vmix n [k] _ _ _ _ _ (expand_blockform 1 _ [k] n) (good1 n k Hk) Ha).
  apply vmix_ext_B. intros; now apply rotation_block.
Qed.

Theorem squeeze_phase_space c sn sh ch k q1 q2 a b : k < n -> a < n -> b < n ->
  bcov (bcovs (squeeze NK c sn sh ch k s) w) q1 q2 a b = congr NK (S_sq NK c sn sh ch) [k] (bcov (bcovs s w)) q1 q2 a b.
Proof.
  intros Hk Ha Hb. unfold squeeze, apply_XY. cbv beta iota delta [bcovs].
  rewrite (update_covs_congr n [k] _ _ None _ _ _ _ _ (expand_blockform 1 _ [k] n) (good1 n k Hk) Ha Hb).
  rewrite (congr_ext_B _ (S_sq NK c sn sh ch)) by (intros; now apply squeezing_block). ring.
Qed.

Theorem squeeze_means c sn sh ch k q a : k < n -> a < n ->
  bvec (bmeans (squeeze NK c sn sh ch k s) w) q a = vmix NK (S_sq NK c sn sh ch) [k] (bvec (bmeans s w)) q a.
Proof.
  intros Hk Ha. unfold squeeze, apply_XY. cbv beta iota delta [bmeans].
  rewrite (update_means_vmix n [k] _ _ _ _ _ (expand_blockform 1 _ [k] n) (good1 n k Hk) Ha).
  apply vmix_ext_B. intros; now apply squeezing_block.
Qed.

Theorem beamsplitter_phase_space ct st cp sp k l q1 q2 a b : k < n -> l < n -> k <> l -> a < n -> b < n ->
  bcov (bcovs (beamsplitter NK ct st cp sp k l s) w) q1 q2 a b
  = congr NK (S_bs NK cp (- sp) (- st) ct k l) [k; l] (bcov (bcovs s w)) q1 q2 a b.
Proof.
  intros Hk Hl Hkl Ha Hb. unfold beamsplitter, apply_XY. cbv beta iota delta [bcovs].
  rewrite (update_covs_congr n [k; l] _ _ None _ _ _ _ _ (expand_blockform 2 _ [k; l] n) (good2 n k l Hk Hl Hkl) Ha Hb).
  rewrite (congr_ext_B _ (S_bs NK cp (- sp) (- st) ct k l)) by (intros; now apply beam_splitter_block). ring.
Qed.

Theorem beamsplitter_means ct st cp sp k l q a : k < n -> l < n -> k <> l -> a < n ->
  bvec (bmeans (beamsplitter NK ct st cp sp k l s) w) q a
  = vmix NK (S_bs NK cp (- sp) (- st) ct k l) [k; l] (bvec (bmeans s w)) q a.
Proof.
  intros Hk Hl Hkl Ha. unfold beamsplitter, apply_XY. cbv beta iota delta [bmeans].
  rewrite (update_means_vmix n [k; l] _ _ _ _ _ (expand_blockform 2 _ [k; l] n) (good2 n k l Hk Hl Hkl) Ha).
  apply vmix_ext_B. intros; now apply beam_splitter_block.
Qed.

(* displacement: covariances untouched; means shifted by (2 r cos, 2 r sin) on mode k *)
Theorem displace_phase_space r c sn k : bcovs (displace NK r c sn k s) w = bcovs s w.
Proof. reflexivity. Qed.

Theorem displace_means r c sn k q a : k < n -> a < n ->
  bvec (bmeans (displace NK r c sn k s) w) q a
  = bvec (bmeans s w) q a + (if Nat.eqb a k then (if q then (k1 + k1) * (r * sn) else (k1 + k1) * (r * c)) else k0).
Proof.
  intros Hk Ha. unfold displace, bvec. cbv beta iota delta [bmeans]. kn. f_equal.
  rewrite from_xp_xp. unfold expand_vector, two. kn. fold n.
  replace (Nat.add n k) with (enc n true k) by (unfold enc; simpl; lia).
  replace k with (enc n false k) at 2 by (unfold enc; simpl; lia).
  rewrite !enc_eqb by assumption.
  destruct (Nat.eqb a k), q; reflexivity.
Qed.

(* loss-type channels: X = x Id, Y = y Id on mode k *)
Lemma channel1_cov x y k q1 q2 a b : k < n -> a < n -> b < n ->
  bcov (bcovs (let XY := expandXY NK 1 [k] (scal2 NK x) (scal2 NK y) n in apply_channel NK (fst XY) (snd XY) s) w) q1 q2 a b
  = add_diag NK y k (congr NK (S_scale NK x) [k] (bcov (bcovs s w))) q1 q2 a b.
Proof.
  intros Hk Ha Hb. cbv zeta. unfold apply_channel, apply_XY. cbv beta iota delta [bcovs]. fold n.
  rewrite (update_covs_congr n [k] (Bexp 1 (scal2 NK x) [k]) _ _ _ _ _ _ _
             (expand_blockform 1 _ [k] n) (good1 n k Hk) Ha Hb).
  rewrite (congr_ext_B _ (S_scale NK x)) by (intros; now apply scal2_block).
  rewrite expandXY_Y by assumption.
  unfold add_diag, Bexp, B1, scal2, kdelta, mem, b2n. simpl Nat.eqb. kn.
  destruct (Nat.eqb_spec a k) as [->|Hak]; destruct (Nat.eqb_spec b k) as [->|Hbk]; simpl;
    rewrite ?Nat.eqb_refl; try (rewrite (proj2 (Nat.eqb_neq a b)) by congruence);
    destruct q1, q2; simpl; ring.
Qed.

Lemma channel1_means x y k q a : k < n -> a < n ->
  bvec (bmeans (let XY := expandXY NK 1 [k] (scal2 NK x) (scal2 NK y) n in apply_channel NK (fst XY) (snd XY) s) w) q a
  = vmix NK (S_scale NK x) [k] (bvec (bmeans s w)) q a.
Proof.
  intros Hk Ha. cbv zeta. unfold apply_channel, apply_XY. cbv beta iota delta [bmeans]. fold n.
  rewrite expandXY_X.
  rewrite (update_means_vmix n [k] _ _ _ _ _ (expand_blockform 1 _ [k] n) (good1 n k Hk) Ha).
  apply vmix_ext_B. intros; now apply scal2_block.
Qed.

Theorem loss_phase_space T sqT k q1 q2 a b : k < n -> a < n -> b < n ->
  bcov (bcovs (loss NK T sqT k s) w) q1 q2 a b
  = add_diag NK (k1 - T) k (congr NK (S_scale NK sqT) [k] (bcov (bcovs s w))) q1 q2 a b.
Proof. intros. now apply (channel1_cov sqT (k1 - T)). Qed.

Theorem loss_means T sqT k q a : k < n -> a < n ->
  bvec (bmeans (loss NK T sqT k s) w) q a = vmix NK (S_scale NK sqT) [k] (bvec (bmeans s w)) q a.
Proof. intros. now apply (channel1_means sqT (k1 - T)). Qed.

Theorem thermal_loss_phase_space T nb sqT k q1 q2 a b : k < n -> a < n -> b < n ->
  bcov (bcovs (thermal_loss NK T nb sqT k s) w) q1 q2 a b
  = add_diag NK ((k1 - T) * ((k1 + k1) * nb + k1)) k (congr NK (S_scale NK sqT) [k] (bcov (bcovs s w))) q1 q2 a b.
Proof. intros. now apply (channel1_cov sqT ((k1 - T) * ((k1 + k1) * nb + k1))). Qed.

Theorem thermal_loss_means T nb sqT k q a : k < n -> a < n ->
  bvec (bmeans (thermal_loss NK T nb sqT k s) w) q a = vmix NK (S_scale NK sqT) [k] (bvec (bmeans s w)) q a.
Proof. intros. now apply (channel1_means sqT ((k1 - T) * ((k1 + k1) * nb + k1))). Qed.

(* init_thermal(nbar, k) = thermal_loss(0, nbar, k): mode k ends in the thermal state (2 nbar + 1) Id, uncorrelated with the rest *)
Theorem init_thermal_phase_space nb k q1 q2 a b : k < n -> a < n -> b < n ->
  bcov (bcovs (init_thermal NK nb k s) w) q1 q2 a b
  = if Nat.eqb a k || Nat.eqb b k
    then (if Nat.eqb a k && Nat.eqb b k && Bool.eqb q1 q2 then (k1 + k1) * nb + k1 else k0)
    else bcov (bcovs s w) q1 q2 a b.
Proof.
  intros Hk Ha Hb. unfold init_thermal. rewrite thermal_loss_phase_space by assumption.
  unfold add_diag, congr, colmix, rowmix, mem, S_scale, S1, qsum, lsum. kn.
  destruct (Nat.eqb a k), (Nat.eqb b k); simpl; destruct q1, q2; simpl; ring.
Qed.

Theorem init_thermal_means nb k q a : k < n -> a < n ->
  bvec (bmeans (init_thermal NK nb k s) w) q a = if Nat.eqb a k then k0 else bvec (bmeans s w) q a.
Proof.
  intros Hk Ha. unfold init_thermal. rewrite thermal_loss_means by assumption.
  unfold vmix, mem, S_scale, S1, qsum, lsum. kn.
  destruct (Nat.eqb a k); simpl; [destruct q; ring|reflexivity].
Qed.
(* gaussian_cptp(modes, X, Y) = expandXY + apply_channel, for any block size M and any (duplicate-free, in-range) modes *)
Theorem channel_phase_space M modes X Y q1 q2 a b : good_targets n modes -> a < n -> b < n ->
  bcov (bcovs (apply_op NK (OChannel M modes X Y) s) w) q1 q2 a b
  = congr NK (Bexp M X modes) modes (bcov (bcovs s w)) q1 q2 a b
    + (if mem a modes && mem b modes then Bexp M Y modes q1 a q2 b else k0).
Proof.
  intros Hg Ha Hb. cbv beta iota delta [apply_op]. cbv zeta. unfold apply_channel, apply_XY. cbv beta iota delta [bcovs]. fold n.
  rewrite (update_covs_congr n modes (Bexp M X modes) _ _ _ _ _ _ _ (expand_blockform M X modes n) Hg Ha Hb).
  now rewrite expandXY_Y by assumption.
Qed.

Theorem channel_means M modes X Y q a : good_targets n modes -> a < n ->
  bvec (bmeans (apply_op NK (OChannel M modes X Y) s) w) q a = vmix NK (Bexp M X modes) modes (bvec (bmeans s w)) q a.
Proof.
  intros Hg Ha. cbv beta iota delta [apply_op]. cbv zeta. unfold apply_channel, apply_XY. cbv beta iota delta [bmeans]. fold n.
  rewrite expandXY_X.
  now rewrite (update_means_vmix n modes _ _ _ _ _ (expand_blockform M X modes n) Hg Ha).
Qed.
End PerOp.

(* ---------------- read-out conventions ---------------- *)
(* the backend's own xxpp read-out get_covmat_xp / get_mean_xp, block (q1, q2) entry (a, b), is bcov / bvec *)
Theorem readout_xp_cov n (V : mat) q1 q2 a b : a < n -> b < n ->
  get_covmat_xp n V (enc n q1 a) (enc n q2 b) = bcov V q1 q2 a b.
Proof. intros Ha Hb. unfold get_covmat_xp, permute, bcov. now rewrite !to_xp_enc. Qed.

Theorem readout_xp_mean n (r : vect) q a : a < n -> get_mean_xp n r (enc n q a) = bvec r q a.
Proof. intros Ha. unfold get_mean_xp, bvec. now rewrite to_xp_enc. Qed.

(* xxpp_to_xpxp and xpxp_to_xxpp are mutually inverse on the 2n x 2n block *)
Theorem reorder_roundtrip n (S : mat) i j : i < 2 * n -> j < 2 * n ->
  xpxp_to_xxpp n (xxpp_to_xpxp n S) i j = S i j /\ xxpp_to_xpxp n (xpxp_to_xxpp n S) i j = S i j.
Proof.
  intros Hi Hj. unfold xpxp_to_xxpp, xxpp_to_xpxp, permute.
  now rewrite !from_to_xp, !to_from_xp.
Qed.

End BosonicProofs.
