(* Bosonic component — the Gaussian and the bosonic simulator agree on every PROGRAM over the operations both
   support (by induction over the command list, from the per-operation theorems of Agree.v and the
   well-formedness preservation theorems of C07/GaussPhysical.v). *)
From Coq Require Import Arith Bool List Lia Ring.
Import ListNotations.
From SFV Require Import Base.Num Base.PhaseSpace Gen.GaussCirc C01.GaussPhaseSpace C07.GaussPhysical.
From SFV Require Import Bosonic.Sum Bosonic.Model Bosonic.Index Bosonic.Proofs Bosonic.Agree.

Section AgreeProg.
Variable K : Type.
Variables (k0 k1 : K) (kadd kmul ksub : K -> K -> K) (kopp : K -> K).
Hypothesis Kring : ring_theory k0 k1 kadd kmul ksub kopp (@eq K).
Add Ring KrAgreeProg : Kring.
Notation "x + y" := (kadd x y). Notation "x * y" := (kmul x y). Notation "x - y" := (ksub x y). Notation "- x" := (kopp x).
Notation NK := (GaussPhaseSpace.NK K k0 k1 kadd kmul ksub kopp).
Notation wf := (GaussPhaseSpace.wf K k0 k1 kadd kmul ksub kopp).
Notation agree := (Agree.agree K k0 k1 kadd kmul ksub kopp).
Notation bst := (@bst K).
Notation bop := (@bop K).

(* a backend-level command, parameters given by their trigonometric / hyperbolic values:
   rotation(phi): c = cos phi, sn = sin phi;  squeeze(r, phi): sh = sinh r, ch = cosh r;
   beamsplitter(theta, phi): ct, st, cp, sp;  displacement(r, phi);  loss(T): sqT = sqrt T;  thermal_loss(T, nbar);
   prepare_thermal_state(nbar) *)
Inductive gop :=
| GRot (c sn : K) (k : nat)
| GSq (c sn sh ch : K) (k : nat)
| GBs (ct st cp sp : K) (k l : nat)
| GDisp (r c sn : K) (k : nat)
| GLoss (T sqT : K) (k : nat)
| GThLoss (T nb sqT : K) (k : nat)
| GInitTh (nb : K) (k : nat).

(* GaussianBackend.<method> in terms of GaussianModes (Gen/GaussCirc.v, regenerated from the source).
   beamsplitter passes (-theta, -phi): sin(-theta) = -st, cos(-theta) = ct, exp(-i phi) = cp - i sp. *)
Definition gaussian_backend (o : gop) (s : st K) : st K :=
  match o with
  | GRot c sn k => GaussCirc.phase_shift NK (mkC c sn) k s
  | GSq c sn sh ch k => GaussCirc.squeeze NK (mkC c sn) sh ch k s
  | GBs ct st cp sp k l => GaussCirc.beamsplitter NK (mkC cp (- sp)) (- st) ct k l s
  | GDisp r c sn k => GaussCirc.displace NK r (mkC c sn) k s
  | GLoss T sqT k => GaussCirc.loss NK sqT k s
  | GThLoss T nb sqT k => GaussCirc.thermal_loss NK T nb sqT k s
  | GInitTh nb k => GaussCirc.init_thermal NK nb k s
  end.
(* BosonicBackend.<method>: passes its arguments unchanged to BosonicModes *)
Definition bosonic_backend (o : gop) : bop :=
  match o with
  | GRot c sn k => ORot c sn k
  | GSq c sn sh ch k => OSq c sn sh ch k
  | GBs ct st cp sp k l => OBs ct st cp sp k l
  | GDisp r c sn k => ODisp r c sn k
  | GLoss T sqT k => OLoss T sqT k
  | GThLoss T nb sqT k => OThLoss T nb sqT k
  | GInitTh nb k => OInitTh nb k
  end.

(* targets in range / distinct, and the named values satisfy the identities of the functions they stand for *)
Definition gop_ok (n : nat) (o : gop) : Prop :=
  match o with
  | GRot c sn k => k < n /\ c * c = k1 - sn * sn
  | GSq c sn sh ch k => k < n /\ c * c = k1 - sn * sn /\ ch * ch = k1 + sh * sh
  | GBs ct st cp sp k l => k < n /\ l < n /\ k <> l /\ cp * cp = k1 - sp * sp /\ ct * ct = k1 - st * st
  | GDisp _ _ _ k => k < n
  | GLoss T sqT k => k < n /\ sqT * sqT = T
  | GThLoss T _ sqT k => k < n /\ sqT * sqT = T
  | GInitTh _ k => k < n
  end.

Lemma step o s (b : bst) w : gop_ok (nlen s) o -> wf s -> agree s b w ->
  agree (gaussian_backend o s) (apply_op NK (bosonic_backend o) b) w /\ wf (gaussian_backend o s) /\
  nlen (gaussian_backend o s) = nlen s.
Proof.
  intros Hok Hwf Hag. destruct o; simpl in Hok; cbv beta iota delta [gaussian_backend bosonic_backend apply_op].
  - destruct Hok as (Hk & Hph). split; [|split; [|reflexivity]].
    + now apply (agree_rotation K k0 k1 kadd kmul ksub kopp Kring).
    + exact (GaussPhysical.phase_shift_wf K k0 k1 kadd kmul ksub kopp Kring _ k s Hk Hwf).
  - destruct Hok as (Hk & Hph & Hch). split; [|split; [|reflexivity]].
    + now apply (agree_squeeze K k0 k1 kadd kmul ksub kopp Kring).
    + exact (GaussPhysical.squeeze_wf K k0 k1 kadd kmul ksub kopp Kring _ sh ch k s Hk Hwf).
  - destruct Hok as (Hk & Hl & Hkl & Hph & Hcs). split; [|split; [|reflexivity]].
    + now apply (agree_beamsplitter K k0 k1 kadd kmul ksub kopp Kring ct st cp sp ct (- st) cp (- sp)).
    + exact (GaussPhysical.beamsplitter_wf K k0 k1 kadd kmul ksub kopp Kring _ (- st) ct k l s Hk Hl Hkl Hwf).
  - split; [|split; [|reflexivity]].
    + now apply (agree_displace K k0 k1 kadd kmul ksub kopp Kring).
    + exact (GaussPhysical.displace_wf K k0 k1 kadd kmul ksub kopp r _ k s Hwf).
  - destruct Hok as (Hk & HT). split; [|split; [|reflexivity]].
    + now apply (agree_loss K k0 k1 kadd kmul ksub kopp Kring).
    + exact (GaussPhysical.loss_wf K k0 k1 kadd kmul ksub kopp Kring sqT k s Hk Hwf).
  - destruct Hok as (Hk & HT). split; [|split; [|reflexivity]].
    + now apply (agree_thermal_loss K k0 k1 kadd kmul ksub kopp Kring).
    + exact (GaussPhysical.thermal_loss_wf K k0 k1 kadd kmul ksub kopp Kring T nb sqT k s Hk Hwf).
  - split; [|split; [|reflexivity]].
    + now apply (agree_init_thermal K k0 k1 kadd kmul ksub kopp Kring).
    + exact (GaussPhysical.init_thermal_wf K k0 k1 kadd kmul ksub kopp Kring nb k s Hok Hwf).
Qed.

Definition gaussian_run (prog : list gop) (s : st K) : st K := fold_left (fun s o => gaussian_backend o s) prog s.
Definition bosonic_run (prog : list gop) (b : bst) : bst := run NK (map bosonic_backend prog) b.

Theorem agree_program prog s (b : bst) w :
  Forall (gop_ok (nlen s)) prog -> wf s -> agree s b w ->
  agree (gaussian_run prog s) (bosonic_run prog b) w /\ wf (gaussian_run prog s).
Proof.
  revert s b. induction prog as [|o prog IH]; intros s b Hok Hwf Hag; [split; assumption|].
  inversion Hok as [|? ? Ho Hrest]; subst.
  destruct (step o s b w Ho Hwf Hag) as (Hag' & Hwf' & Hn).
  unfold gaussian_run, bosonic_run, run. simpl.
  apply IH; [now rewrite Hn|assumption|assumption].
Qed.
End AgreeProg.
