(* Bosonic component — index arithmetic: the two quadrature orderings, from_xp / to_xp, and the index list
   [xpl tg] of all quadratures of the modes in tg. *)
From Coq Require Import Arith Bool List Lia Ring.
Import ListNotations.
From SFV Require Import Base.Num Base.PhaseSpace Bosonic.Sum Bosonic.Model.

Lemma b2n_le q : b2n q <= 1.  Proof. destruct q; simpl; lia. Qed.

Lemma xp_lt n q a : a < n -> xp q a < 2 * n.
Proof. unfold xp. pose proof (b2n_le q). lia. Qed.

Lemma enc_lt n q a : a < n -> enc n q a < 2 * n.
Proof. unfold enc. destruct q; simpl; lia. Qed.

Lemma xp_inj q a p b : xp q a = xp p b -> q = p /\ a = b.
Proof. unfold xp. destruct q, p; simpl; intros; split; try reflexivity; lia. Qed.

Lemma xp_eqb q a p b : Nat.eqb (xp q a) (xp p b) = Nat.eqb a b && Bool.eqb q p.
Proof.
  destruct (Nat.eqb_spec (xp q a) (xp p b)) as [E|E].
  - apply xp_inj in E. destruct E as [-> ->]. now rewrite Nat.eqb_refl, eqb_reflx.
  - destruct (Nat.eqb_spec a b) as [->|]; [|reflexivity].
    destruct q, p; simpl; try reflexivity; exfalso; apply E; reflexivity.
Qed.

Lemma enc_eqb n q a p b : a < n -> b < n -> Nat.eqb (enc n q a) (enc n p b) = Nat.eqb a b && Bool.eqb q p.
Proof.
  intros Ha Hb. unfold enc.
  destruct (Nat.eqb_spec a b) as [->|Hne]; destruct q, p; simpl;
    try (apply Nat.eqb_refl); apply Nat.eqb_neq; lia.
Qed.

Lemma div2_xp q a : Nat.div2 (xp q a) = a.
Proof.
  unfold xp. destruct q; simpl b2n.
  - replace (2 * a + 1) with (S (2 * a)) by lia. apply Nat.div2_succ_double.
  - rewrite Nat.add_0_r. apply Nat.div2_double.
Qed.

Lemma even_xp q a : Nat.even (xp q a) = negb q.
Proof.
  unfold xp. destruct q; simpl b2n.
  - replace (2 * a + 1) with (S (2 * a)) by lia. rewrite Nat.even_succ, Nat.odd_mul. reflexivity.
  - rewrite Nat.add_0_r, Nat.even_mul. reflexivity.
Qed.

(* every index is the position of a quadrature of a mode *)
Lemma xp_decomp i : i = xp (Nat.odd i) (Nat.div2 i).
Proof. unfold xp. rewrite (Nat.div2_odd i) at 1. unfold b2n. destruct (Nat.odd i); simpl; lia. Qed.

Lemma div2_lt n i : i < 2 * n -> Nat.div2 i < n.
Proof. intros H. rewrite (Nat.div2_odd i) in H. destruct (Nat.odd i); simpl in H; lia. Qed.

(* from_xp is the array that converts an xpxp position into the xxpp position of the same quadrature *)
Lemma from_xp_xp n q a : from_xp n (xp q a) = enc n q a.
Proof.
  unfold from_xp, enc. rewrite even_xp, div2_xp. destruct q; simpl; lia.
Qed.

Lemma to_xp_enc n q a : a < n -> to_xp n (enc n q a) = xp q a.
Proof.
  intros Ha. unfold to_xp, enc, xp. destruct q; simpl b2n.
  - replace (a + 1 * n <? n) with false by (symmetry; apply Nat.ltb_ge; lia). lia.
  - replace (a + 0 * n <? n) with true by (symmetry; apply Nat.ltb_lt; lia). lia.
Qed.

Lemma to_from_xp n j : j < 2 * n -> to_xp n (from_xp n j) = j.
Proof.
  intros Hj. rewrite (xp_decomp j) at 1. rewrite from_xp_xp, to_xp_enc by now apply div2_lt.
  symmetry. apply xp_decomp.
Qed.

Lemma quad_enc n q a : a < n -> quad n (enc n q a) = q.
Proof.
  intros Ha. unfold quad, enc. destruct q; simpl b2n.
  - apply Nat.leb_le. lia.
  - apply Nat.leb_gt. lia.
Qed.

Lemma modeof_enc n q a : a < n -> modeof n (enc n q a) = a.
Proof.
  intros Ha. unfold modeof, enc. destruct q; simpl b2n.
  - replace (n <=? a + 1 * n) with true by (symmetry; apply Nat.leb_le; lia). lia.
  - replace (n <=? a + 0 * n) with false by (symmetry; apply Nat.leb_gt; lia). lia.
Qed.

Lemma from_to_xp n i : i < 2 * n -> from_xp n (to_xp n i) = i.
Proof.
  intros Hi. destruct (Nat.ltb_spec i n) as [H|H].
  - replace i with (enc n false i) at 1 by (unfold enc; simpl; lia).
    rewrite to_xp_enc, from_xp_xp by assumption. unfold enc; simpl; lia.
  - replace i with (enc n true (i - n)) at 1 by (unfold enc; simpl; lia).
    rewrite to_xp_enc, from_xp_xp by lia. unfold enc; simpl; lia.
Qed.

(* ---- all quadrature positions of the modes in tg ---- *)
Definition xpl (tg : list nat) : list nat := flat_map (fun c => [xp false c; xp true c]) tg.

Lemma In_xpl q a tg : In (xp q a) (xpl tg) <-> In a tg.
Proof.
  unfold xpl. rewrite in_flat_map. split.
  - intros [c [Hc [E|[E|[]]]]]; apply xp_inj in E; destruct E as [_ ->]; exact Hc.
  - intros H. exists a. split; [exact H|]. destruct q; simpl; auto.
Qed.

Lemma mem_xpl q a tg : mem (xp q a) (xpl tg) = mem a tg.
Proof.
  destruct (mem a tg) eqn:E.
  - apply mem_In. apply In_xpl. now apply mem_In.
  - apply mem_false. rewrite In_xpl. now apply mem_false.
Qed.

Lemma xpl_lt n tg : (forall c, In c tg -> c < n) -> forall t, In t (xpl tg) -> t < 2 * n.
Proof.
  intros H t Ht. unfold xpl in Ht. apply in_flat_map in Ht. destruct Ht as [c [Hc [<-|[<-|[]]]]]; apply xp_lt; auto.
Qed.

Lemma NoDup_xpl tg : NoDup tg -> NoDup (xpl tg).
Proof.
  induction 1 as [|c tg Hc Hnd IH]; [constructor|].
  simpl. constructor; [|constructor].
  - simpl. intros [E|E]; [apply xp_inj in E; destruct E; discriminate|].
    apply (In_xpl false c tg) in E. contradiction.
  - intros E. apply (In_xpl true c tg) in E. contradiction.
  - exact IH.
Qed.

Section IndexSums.
Variable K : Type.
Variables (k0 k1 : K) (kadd kmul ksub : K -> K -> K) (kopp : K -> K).
Hypothesis Kring : ring_theory k0 k1 kadd kmul ksub kopp (@eq K).
Add Ring KrIdx : Kring.
Notation "x + y" := (kadd x y). Notation "x * y" := (kmul x y).
Notation NK := (mkNum k0 k1 kadd kmul ksub kopp).

Lemma lsum_xpl tg (g : nat -> K) :
  lsum NK (xpl tg) g = lsum NK tg (fun c => g (xp false c) + g (xp true c)).
Proof.
  induction tg as [|c tg IH]; [reflexivity|].
  simpl. simpl in IH. rewrite IH. ring.
Qed.

Lemma kdelta_xp q a p b :
  kdelta NK (xp q a) (xp p b) = if Nat.eqb a b && Bool.eqb q p then k1 else k0.
Proof. unfold kdelta. now rewrite xp_eqb. Qed.

Lemma kdelta_enc n q a p b : a < n -> b < n ->
  kdelta NK (enc n q a) (enc n p b) = if Nat.eqb a b && Bool.eqb q p then k1 else k0.
Proof. intros. unfold kdelta. now rewrite enc_eqb. Qed.
End IndexSums.
