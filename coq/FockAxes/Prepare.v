(* FockAxes — prepare_multimode: the np.argsort index permutation puts the prepared subsystems into
   `modes` in the order listed and leaves the remaining modes in their (ascending) order. *)
From Coq Require Import List Arith Bool Lia Permutation Sorted.
Import ListNotations.
From SFV Require Import FockAxes.Model FockAxes.Lists FockAxes.Proofs.

(* ---------------------------------------------------------------- argsort of a permutation is its inverse *)

Definition key_le (a b : nat * nat) : Prop := fst a <= fst b.

Lemma ins_key_perm x l : Permutation (ins_key x l) (x :: l).
Proof.
  induction l as [|y r IH]; simpl; auto.
  destruct (Nat.leb (fst x) (fst y)); auto.
  rewrite IH. apply perm_swap.
Qed.

Lemma isort_perm l : Permutation (fold_right ins_key [] l) l.
Proof. induction l as [|x r IH]; simpl; auto. rewrite ins_key_perm. now constructor. Qed.

Lemma ins_key_sorted x l : StronglySorted key_le l -> StronglySorted key_le (ins_key x l).
Proof.
  induction 1 as [|y r Hs IH Hf]; simpl.
  - constructor; constructor.
  - destruct (Nat.leb_spec (fst x) (fst y)) as [Hle|Hlt].
    + constructor; [constructor; auto|]. constructor; [exact Hle|].
      rewrite Forall_forall in *. intros z Hz. specialize (Hf z Hz). unfold key_le in *. lia.
    + constructor; auto. rewrite Forall_forall in *. intros z Hz.
      apply (Permutation_in _ (ins_key_perm x r)) in Hz. destruct Hz as [<-|Hz].
      * unfold key_le. lia.
      * auto.
Qed.

Lemma isort_sorted l : StronglySorted key_le (fold_right ins_key [] l).
Proof. induction l; simpl; [constructor|]. now apply ins_key_sorted. Qed.

Lemma sorted_lt_length (r : list nat) : forall c m,
  StronglySorted lt r -> (forall k, In k r -> c <= k < c + m) -> length r <= m.
Proof.
  induction r as [|x r IH]; intros c m Hs Hin; simpl; [lia|].
  inversion Hs as [|? ? Hs' Hf]; subst.
  pose proof (Hin x (or_introl eq_refl)) as Hx.
  assert (length r <= m - 1).
  { apply (IH (c + 1)); auto. intros k Hk. rewrite Forall_forall in Hf. specialize (Hf k Hk).
    specialize (Hin k (or_intror Hk)). lia. }
  lia.
Qed.

Lemma sorted_lt_range (ks : list nat) : forall b,
  StronglySorted lt ks -> (forall k, In k ks -> b <= k < b + length ks) -> ks = seq b (length ks).
Proof.
  induction ks as [|k r IH]; intros b Hs Hin; simpl; auto.
  inversion Hs as [|? ? Hs' Hf]; subst. rewrite Forall_forall in Hf.
  pose proof (Hin k (or_introl eq_refl)) as Hk. simpl in Hk.
  assert (k = b).
  { destruct (Nat.eq_dec k b); auto. exfalso.
    assert (length r <= length r - 1).
    { apply (sorted_lt_length r (k + 1)); auto. intros x Hx. specialize (Hf x Hx).
      specialize (Hin x (or_intror Hx)). simpl in Hin. lia. }
    destruct r as [|y r']; simpl in *; [|lia].
    lia. }
  subst k. f_equal. apply IH; auto. intros x Hx. specialize (Hf x Hx).
  specialize (Hin x (or_intror Hx)). simpl in Hin. lia.
Qed.

Lemma sorted_le_nodup_lt (ks : list nat) : StronglySorted le ks -> NoDup ks -> StronglySorted lt ks.
Proof.
  induction 1 as [|k r Hs IH Hf]; intros Hnd; constructor; inversion Hnd; subst; auto.
  rewrite Forall_forall in *. intros x Hx. specialize (Hf x Hx).
  assert (x <> k) by (intros ->; tauto). lia.
Qed.

Lemma sorted_map_fst (S : list (nat * nat)) : StronglySorted key_le S -> StronglySorted le (map fst S).
Proof.
  induction 1 as [|x r Hs IH Hf]; simpl; constructor; auto.
  rewrite Forall_forall in *. intros k Hk. apply in_map_iff in Hk. destruct Hk as [y [<- Hy]].
  apply (Hf y Hy).
Qed.

Lemma map_fst_combine (l : list nat) : forall (r : list nat), length l = length r -> map fst (combine l r) = l.
Proof. induction l; destruct r; simpl; intros; try lia; auto. f_equal. apply IHl. lia. Qed.

Lemma in_combine_seq (l : list nat) : forall b k p,
  In (k, p) (combine l (seq b (length l))) -> b <= p < b + length l /\ nth (p - b) l 0 = k.
Proof.
  induction l as [|x r IH]; simpl; intros b k p H; [tauto|].
  destruct H as [E|H].
  - inversion E; subst. rewrite Nat.sub_diag. split; [lia|reflexivity].
  - apply IH in H. destruct H as [Hp Hn]. split; [lia|].
    replace (p - b) with (S (p - S b)) by lia. exact Hn.
Qed.

Theorem argsort_perm_is_inverse l : is_perm l -> argsort l = inv_perm l.
Proof.
  intros Hp. pose proof Hp as [Hnd Hlt]. unfold argsort.
  set (S := fold_right ins_key [] (combine l (seq 0 (length l)))).
  assert (HP : Permutation S (combine l (seq 0 (length l)))) by apply isort_perm.
  assert (Hfst : Permutation (map fst S) l).
  { rewrite HP. rewrite map_fst_combine; auto. now rewrite seq_length. }
  assert (Hkeys : map fst S = seq 0 (length l)).
  { rewrite <- (Permutation_length Hfst).
    apply sorted_lt_range.
    - apply sorted_le_nodup_lt.
      + apply sorted_map_fst. apply isort_sorted.
      + apply (Permutation_NoDup (Permutation_sym Hfst)); auto.
    - intros k Hk. rewrite (Permutation_length Hfst).
      apply (Permutation_in _ Hfst) in Hk. specialize (Hlt k Hk). lia. }
  assert (Hsnd : forall x, In x S -> snd x = index_of (fst x) l).
  { intros [k p] Hx. apply (Permutation_in _ HP) in Hx. apply in_combine_seq in Hx.
    destruct Hx as [Hpl Hn]. rewrite Nat.sub_0_r in Hn. simpl.
    symmetry. apply index_of_unique; auto. lia. }
  unfold inv_perm. rewrite <- Hkeys. rewrite map_map.
  apply map_ext_in. exact Hsnd.
Qed.

(* ---------------------------------------------------------------- the index permutation is a permutation *)

Definition pair_axes (ms : list nat) : list nat := flat_map (fun x => [2 * x; 2 * x + 1]) ms.

Lemma in_pair_axes a ms : In a (pair_axes ms) <-> In (a / 2) ms.
Proof.
  unfold pair_axes. rewrite in_flat_map. split.
  - intros [x [Hx Ha]]. destruct Ha as [<-|[<-|[]]].
    + replace (2 * x) with (x * 2) by lia. now rewrite Nat.div_mul.
    + replace (2 * x + 1) with (1 + x * 2) by lia. now rewrite Nat.div_add.
  - intros H. exists (a / 2). split; auto.
    change (2 * (a / 2) = a \/ 2 * (a / 2) + 1 = a \/ False).
    pose proof (Nat.div_mod a 2 ltac:(lia)). pose proof (Nat.mod_upper_bound a 2 ltac:(lia)). lia.
Qed.

Lemma pair_axes_NoDup ms : NoDup ms -> NoDup (pair_axes ms).
Proof.
  induction 1 as [|x r Hx Hnd IH]; simpl; [constructor|].
  assert (H0 : ~ In (2 * x) (pair_axes r)).
  { rewrite in_pair_axes. replace (2 * x) with (x * 2) by lia. now rewrite Nat.div_mul. }
  assert (H1 : ~ In (2 * x + 1) (pair_axes r)).
  { rewrite in_pair_axes. replace (2 * x + 1) with (1 + x * 2) by lia. now rewrite Nat.div_add. }
  constructor; [|constructor; auto].
  simpl. intros [E|E]; [lia|tauto].
Qed.

Lemma pair_axes_length ms : length (pair_axes ms) = 2 * length ms.
Proof. induction ms; simpl; auto. rewrite IHms. lia. Qed.

Lemma pair_axes_is_perm p : is_perm p -> is_perm (pair_axes p).
Proof.
  intros [Hnd Hlt]. split; [now apply pair_axes_NoDup|].
  intros a Ha. rewrite pair_axes_length. apply in_pair_axes in Ha. specialize (Hlt _ Ha).
  pose proof (Nat.div_mod a 2 ltac:(lia)). pose proof (Nat.mod_upper_bound a 2 ltac:(lia)). lia.
Qed.

Lemma pair_axes_app a b : pair_axes (a ++ b) = pair_axes a ++ pair_axes b.
Proof. unfold pair_axes. apply flat_map_app. Qed.

Section Prepare.
  Context {V : Type}.
  Notation tensor := (@tensor V).
  Variable vmul : V -> V -> V.

  Lemma index_permutation_is_perm pure n modes :
    good_targets n modes -> is_perm (index_permutation pure n modes).
  Proof.
    intros Hg. unfold index_permutation, mode_permutation. fold (spectators n modes).
    destruct pure.
    - now apply spectators_targets_is_perm.
    - apply pair_axes_is_perm. now apply spectators_targets_is_perm.
  Qed.

  (* np.transpose(T, np.argsort(ip))[idx] = T[[idx[ip[0]], idx[ip[1]], ...]] *)
  Theorem prepare_permute_gathers pure n modes (T : tensor) idx :
    good_targets n modes ->
    prepare_permute pure n modes T idx = T (gather idx (index_permutation pure n modes)).
  Proof.
    intros Hg. unfold prepare_permute, transpose.
    pose proof (index_permutation_is_perm pure n modes Hg) as Hp.
    rewrite argsort_perm_is_inverse by auto. now rewrite unperm_inv_perm.
  Qed.

  (* mixed representation: T = reduced (x) prepared (np.tensordot(reduced_state, state, axes=0));
     after the permutation the prepared state's m-th subsystem sits on mode modes[m] and the q-th remaining
     mode of the reduced state sits on the q-th spectator (ascending). *)
  Theorem prepare_mixed_axes n modes (reduced prepared : tensor) idx :
    good_targets n modes ->
    prepare_permute false n modes (tensordot0 vmul (2 * (n - length modes)) reduced prepared) idx
    = vmul (reduced (gather idx (pair_axes (spectators n modes))))
           (prepared (gather idx (pair_axes modes))).
  Proof.
    intros Hg. rewrite prepare_permute_gathers by auto.
    unfold index_permutation, mode_permutation. fold (spectators n modes). fold (pair_axes (spectators n modes ++ modes)).
    rewrite pair_axes_app, gather_app.
    pose proof (spectators_targets_length n modes Hg) as Hlen.
    replace (2 * (n - length modes)) with (length (gather idx (pair_axes (spectators n modes))))
      by (rewrite length_gather, pair_axes_length; lia).
    unfold tensordot0. now rewrite firstn_app_len, skipn_app_len.
  Qed.

  (* pure representation, num_modes == len(modes): state replaced by the prepared ket, then permuted *)
  Theorem prepare_pure_all_axes n modes (prepared : tensor) idx :
    good_targets n modes -> length modes = n ->
    prepare_permute true n modes prepared idx = prepared (gather idx modes).
  Proof.
    intros Hg Hn. rewrite prepare_permute_gathers by auto.
    unfold index_permutation, mode_permutation. fold (spectators n modes).
    pose proof (spectators_targets_length n modes Hg) as Hlen.
    assert (E : spectators n modes = []) by (apply length_zero_iff_nil; lia).
    now rewrite E.
  Qed.

End Prepare.
