(* FockAxes — model of the AXIS BOOKKEEPING of strawberryfields/backends/fockbackend/circuit.py
   (class Circuit) and the helpers of fockbackend/ops.py it relies on.  Definitions only.

   Everything that decides WHERE a matrix is applied is modelled literally (transpose lists, the
   untranspose loop, numpy fancy-index swaps, successive np.transpose calls, the split of an index
   into "spectator part" and "target part").  WHAT is applied (the matrix product) is abstract:

     * a tensor is a function  list nat -> V  of the multi-index (V arbitrary);
     * np.transpose(t, axes)[i] = t[j]  with  j[axes[m]] = i[m];
     * `np.dot(matview, view[i].ravel()).reshape(stshape)` is an abstract map F from the substate
       (the function of the target indices obtained by fixing the leading indices i) to the new
       substate.  The execution instance (Exec.v) plugs in the explicit integer matrix product.

   Python errors (IndexError for out-of-range axes) are not modelled: list updates / lookups out of
   range are no-ops / return 0.  The theorems carry the in-range hypotheses. *)
From Coq Require Import List Arith Bool.
Import ListNotations.

(* ---------------------------------------------------------------- index lists *)

(* position of the first occurrence of a in l (length l if absent) *)
Fixpoint index_of (a : nat) (l : list nat) : nat :=
  match l with
  | [] => 0
  | x :: r => if Nat.eqb a x then 0 else S (index_of a r)
  end.

Definition mem (a : nat) (l : list nat) : bool := existsb (Nat.eqb a) l.

(* [idx[a] for a in p] *)
Definition gather (idx p : list nat) : list nat := map (fun a => nth a idx 0) p.

(* l[k] = v *)
Fixpoint upd (l : list nat) (k v : nat) : list nat :=
  match l, k with
  | [], _ => []
  | _ :: r, 0 => v :: r
  | x :: r, S k' => x :: upd r k' v
  end.

(* the inverse of a permutation of range(len) written as a list: position of a, for each a *)
Definition inv_perm (p : list nat) : list nat := map (fun a => index_of a p) (seq 0 (length p)).

(* the multi-index j with j[axes[m]] = i[m] *)
Definition unperm (axes i : list nat) : list nat := gather i (inv_perm axes).

(* numpy fancy-index assignment  l[idxs] = vals  (sequential, later writes win) *)
Definition fancy_assign (l idxs vals : list nat) : list nat :=
  fold_left (fun u p => upd u (fst p) (snd p)) (combine idxs vals) l.

(* l[dst] = l[src]  (right-hand side is evaluated first, as numpy does) *)
Definition fancy_move (l dst src : list nat) : list nat := fancy_assign l dst (gather l src).

(* insertion sort of (key, position) pairs by key; np.argsort for lists without repeated keys *)
Fixpoint ins_key (x : nat * nat) (l : list (nat * nat)) : list (nat * nat) :=
  match l with
  | [] => [x]
  | y :: r => if Nat.leb (fst x) (fst y) then x :: y :: r else y :: ins_key x r
  end.
Definition argsort (l : list nat) : list nat :=
  map snd (fold_right ins_key [] (combine l (seq 0 (length l)))).

(* ---------------------------------------------------------------- tensors *)

Section Tensors.
  Context {V : Type}.

  Definition tensor := list nat -> V.

  (* np.transpose(t, axes) *)
  Definition transpose (t : tensor) (axes : list nat) : tensor := fun i => t (unperm axes i).

  (* untranspose_list = [0]*len(tl); for i in range(len(tl)): untranspose_list[tl[i]] = i *)
  Definition untranspose_list (tl : list nat) : list nat :=
    fold_left (fun u i => upd u (nth i tl 0) i) (seq 0 (length tl)) (repeat 0 (length tl)).

  (* ret[i] = F(view[i])  for every i in product(range(trunc), repeat = lead):
     the leading `lead` indices select the substate, F maps it to the new substate *)
  Definition apply_trailing (F : tensor -> tensor) (lead : nat) (view : tensor) : tensor :=
    fun idx => F (fun j => view (firstn lead idx ++ j)) (skipn lead idx).

  (* common tail of apply_gate_BLAS (both branches): transpose, act on substates, untranspose *)
  Definition apply_with_tl (F : tensor -> tensor) (lead : nat) (tl : list nat) (st : tensor) : tensor :=
    let view := transpose st tl in
    let ret := apply_trailing F lead view in
    transpose ret (untranspose_list tl).

  (* ---- apply_gate_BLAS, pure ----
     transpose_list = [i for i in range(n) if not i in modes] + modes
     F is `np.dot(matview, .)` or, on the diag fast path, `np.multiply(mat_diag, .)`  *)
  Definition pure_transpose_list (n : nat) (modes : list nat) : list nat :=
    filter (fun i => negb (mem i modes)) (seq 0 n) ++ modes.

  Definition apply_gate_pure (F : tensor -> tensor) (n : nat) (modes : list nat) (st : tensor) : tensor :=
    if Nat.eqb n 1 then F st   (* `if n == 1: return np.dot(mat, state)` — modes is not looked at *)
    else apply_with_tl F (n - length modes) (pure_transpose_list n modes) st.

  (* ---- apply_gate_BLAS, mixed ----
     transpose_list = [i for i in range(2n) if not i//2 in modes] + [2i for i in modes] + [2i+1 for i in modes]
     G maps the sub-density-matrix (function of rows ++ cols of the targets) to the new one:
     `matview . view[i].reshape(dim,dim) . matview^dagger` (or the diag variant). *)
  Definition mixed_transpose_list (n : nat) (modes : list nat) : list nat :=
    filter (fun i => negb (mem (i / 2) modes)) (seq 0 (n * 2))
      ++ map (fun i => 2 * i) modes ++ map (fun i => 2 * i + 1) modes.

  Definition apply_gate_mixed (G : tensor -> tensor) (n : nat) (modes : list nat) (st : tensor) : tensor :=
    if Nat.eqb n 1 then G st   (* np.dot(mat, np.dot(state, mat.conj().T)) *)
    else apply_with_tl G ((n - length modes) * 2) (mixed_transpose_list n modes) st.

  (* ---- apply_twomode_gate ----
     `_apply_two_mode_passive(mat, state, trunc)` / `_apply_S2` read state[k, l] and write
     ret[i, j] (trailing axes ride along): an abstract map on the first two axes. *)
  Definition apply_front2 (F : tensor -> tensor) (st : tensor) : tensor :=
    fun idx => F (fun j => st (j ++ skipn 2 idx)) (firstn 2 idx).

  Definition switch_list_1_pure (n t1 : nat) : list nat :=
    fancy_move (seq 0 n) [0; t1] [t1; 0].
  (* current code: p2 = t1 if t2 == 0 else t2 *)
  Definition switch_list_2_pure (n t1 t2 : nat) : list nat :=
    let p2 := if Nat.eqb t2 0 then t1 else t2 in
    fancy_move (seq 0 n) [1; p2] [p2; 1].
  (* code before commit e03aca1: switch_list_2[[1, t2]] = switch_list_2[[t2, 1]] *)
  Definition switch_list_2_pure_old (n t2 : nat) : list nat :=
    fancy_move (seq 0 n) [1; t2] [t2; 1].

  Definition twomode_pure_with (sw1 sw2 : list nat) (F : tensor -> tensor) (st : tensor) : tensor :=
    let s := transpose st sw1 in
    let s := transpose s sw2 in
    let s := apply_front2 F s in
    let s := transpose s sw2 in
    transpose s sw1.

  Definition apply_twomode_pure (F : tensor -> tensor) (n t1 t2 : nat) (st : tensor) : tensor :=
    twomode_pure_with (switch_list_1_pure n t1) (switch_list_2_pure n t1 t2) F st.

  Definition apply_twomode_pure_old (F : tensor -> tensor) (n t1 t2 : nat) (st : tensor) : tensor :=
    twomode_pure_with (switch_list_1_pure n t1) (switch_list_2_pure_old n t2) F st.

  (* mixed: t1 = 2*modes[0], t2 = 2*modes[1]; F acts on the rows, Fc (= same kernel with mat.conj()) on the columns *)
  Definition switch_list_mixed (n t : nat) : list nat :=
    fancy_move (seq 0 (2 * n)) [0; 1; t; t + 1] [t; t + 1; 0; 1].
  Definition transpose_list_mixed2 (n t1 t2 : nat) : list nat :=
    fancy_move (seq 0 (2 * n)) [t1 + 1; t2] [t2; t1 + 1].

  Definition apply_twomode_mixed (F Fc : tensor -> tensor) (n m1 m2 : nat) (st : tensor) : tensor :=
    let t1 := 2 * m1 in
    let t2 := 2 * m2 in
    let sw1 := switch_list_mixed n t1 in
    let sw2 := switch_list_mixed n t2 in
    let tr := transpose_list_mixed2 n t1 t2 in
    let s := transpose st tr in
    let s := transpose s sw1 in
    let s := apply_front2 F s in
    let s := transpose s sw1 in
    let s := transpose s sw2 in
    let s := apply_front2 Fc s in
    let s := transpose s sw2 in
    transpose s tr.

  (* ---- ops.mix, _apply_channel ---- *)
  Variable vmul vadd : V -> V -> V.
  Variable vconj : V -> V.
  Variable vzero : V.

  (* einsum("ace..,bdf..->abcdef..", state, state.conj()) *)
  Definition mix (n : nat) (st : tensor) : tensor :=
    fun idx => vmul (st (gather idx (map (fun i => 2 * i) (seq 0 n))))
                    (vconj (st (gather idx (map (fun i => 2 * i + 1) (seq 0 n))))).

  (* states = [apply_gate_BLAS(k, modes, pure=False) for k in kraus_ops]; sum(states)  (0 + s1 + s2 + ...) *)
  Definition apply_channel (Gs : list (tensor -> tensor)) (n : nat) (modes : list nat) (rho : tensor) : tensor :=
    fun idx => fold_left (fun acc G => vadd acc (apply_gate_mixed G n modes rho idx)) Gs vzero.

  Definition apply_channel_from_pure (Gs : list (tensor -> tensor)) (n : nat) (modes : list nat) (psi : tensor) : tensor :=
    apply_channel Gs n modes (mix n psi).

  (* ---- alloc: ops.tensor(state, vac, n, pure) = np.tensordot(state, vac, axes=0) ---- *)
  Definition tensordot0 (lenu : nat) (u v : tensor) : tensor :=
    fun idx => vmul (u (firstn lenu idx)) (v (skipn lenu idx)).

  (* ---- prepare_multimode: the final index permutation ----
     mode_permutation = [x for x in range(n) if x not in modes] + modes
     pure : index_permutation = mode_permutation
     mixed: index_permutation = [2*x + i for x in mode_permutation for i in (0, 1)]
     state = np.transpose(state, np.argsort(index_permutation)) *)
  Definition mode_permutation (n : nat) (modes : list nat) : list nat :=
    filter (fun x => negb (mem x modes)) (seq 0 n) ++ modes.
  Definition index_permutation (pure : bool) (n : nat) (modes : list nat) : list nat :=
    if pure then mode_permutation n modes
    else flat_map (fun x => [2 * x; 2 * x + 1]) (mode_permutation n modes).
  Definition prepare_permute (pure : bool) (n : nat) (modes : list nat) (st : tensor) : tensor :=
    transpose st (argsort (index_permutation pure n modes)).

End Tensors.

(* ---------------------------------------------------------------- specification vocabulary *)

(* idx with the entries at positions taxes[m] replaced by j[m] (all other entries kept) *)
Definition put (idx taxes j : list nat) : list nat :=
  map (fun a => if mem a taxes then nth (index_of a taxes) j 0 else nth a idx 0) (seq 0 (length idx)).

(* a list that is a permutation of range(len) *)
Definition is_perm (p : list nat) : Prop := NoDup p /\ forall a, In a p -> a < length p.

(* duplicate-free targets inside range(n) *)
Definition good_targets (n : nat) (t : list nat) : Prop := NoDup t /\ forall a, In a t -> a < n.

Definition row_axes (modes : list nat) := map (fun i => 2 * i) modes.
Definition col_axes (modes : list nat) := map (fun i => 2 * i + 1) modes.
