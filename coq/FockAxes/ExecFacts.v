(* FockAxes — the hypotheses of the theorems are met by the concrete integer kernels of Exec.v
   (so the theorems apply verbatim to what the correspondence check executes). *)
From Coq Require Import List Arith Bool ZArith Lia.
Import ListNotations.
From SFV Require Import FockAxes.Model FockAxes.Lists FockAxes.Proofs FockAxes.Exec.

Lemma length_unIndex i n trunc : length (unIndex i n trunc) = n.
Proof. unfold unIndex. now rewrite map_length, seq_length. Qed.

Lemma csum_map_ext {A} (f g : A -> C) l : (forall x, In x l -> f x = g x) -> csum (map f l) = csum (map g l).
Proof. intros H. f_equal. now apply map_ext_in. Qed.

Theorem F_gate_respects_shape mat size trunc : respects_shape size (F_gate mat size trunc).
Proof.
  intros s1 s2 H o. unfold F_gate. destruct (is_diag _ _).
  - now rewrite H by apply length_unIndex.
  - apply csum_map_ext. intros c _. now rewrite H by apply length_unIndex.
Qed.

Theorem G_gate_respects_shape mat size trunc : respects_shape (2 * size) (G_gate mat size trunc).
Proof.
  assert (L : forall a b, length (unIndex a size trunc ++ unIndex b size trunc) = 2 * size)
    by (intros; rewrite app_length, !length_unIndex; lia).
  intros s1 s2 H o. unfold G_gate. destruct (is_diag _ _).
  - now rewrite H by apply L.
  - apply csum_map_ext. intros a _. f_equal. apply csum_map_ext. intros b _. now rewrite H by apply L.
Qed.

Theorem F_passive_respects_shape mat trunc : respects_shape 2 (F_passive mat trunc).
Proof.
  intros s1 s2 H o. unfold F_passive. apply csum_map_ext. intros k _. now rewrite H by reflexivity.
Qed.

Theorem F_S2_respects_shape mat trunc : respects_shape 2 (F_S2 mat trunc).
Proof.
  intros s1 s2 H o. unfold F_S2. apply csum_map_ext. intros j _.
  destruct (_ && _); auto. now rewrite H by reflexivity.
Qed.
