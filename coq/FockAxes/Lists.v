(* FockAxes — list / permutation lemmas used by the axis-bookkeeping proofs. *)
From Coq Require Import List Arith Bool Lia Permutation.
Import ListNotations.
From SFV Require Import FockAxes.Model.

(* ---------------------------------------------------------------- mem / index_of *)

Lemma mem_In a l : mem a l = true <-> In a l.
Proof.
  unfold mem. rewrite existsb_exists. split.
  - intros [x [Hx He]]. apply Nat.eqb_eq in He. now subst.
  - intros H. exists a. split; auto. apply Nat.eqb_refl.
Qed.

Lemma mem_false a l : mem a l = false <-> ~ In a l.
Proof.
  rewrite <- mem_In. destruct (mem a l); split; intros; congruence.
Qed.

Lemma index_of_lt a l : In a l -> index_of a l < length l.
Proof.
  induction l as [|x r IH]; simpl; intros H; [tauto|].
  destruct (Nat.eqb_spec a x); [lia|]. destruct H; [congruence|]. specialize (IH H). lia.
Qed.

Lemma nth_index_of a l : In a l -> nth (index_of a l) l 0 = a.
Proof.
  induction l as [|x r IH]; simpl; intros H; [tauto|].
  destruct (Nat.eqb_spec a x); [congruence|]. destruct H; [congruence|]. auto.
Qed.

Lemma index_of_notin a l : ~ In a l -> index_of a l = length l.
Proof.
  induction l as [|x r IH]; simpl; intros H; auto.
  destruct (Nat.eqb_spec a x); [subst; tauto|]. f_equal. apply IH. tauto.
Qed.

Lemma index_of_nth l : NoDup l -> forall m, m < length l -> index_of (nth m l 0) l = m.
Proof.
  induction 1 as [|x r Hx Hnd IH]; simpl; intros m Hm; [lia|].
  destruct m as [|m].
  - now rewrite Nat.eqb_refl.
  - destruct (Nat.eqb_spec (nth m r 0) x) as [E|E].
    + exfalso. apply Hx. rewrite <- E. apply nth_In. lia.
    + f_equal. apply IH. lia.
Qed.

Lemma index_of_unique l a k : NoDup l -> k < length l -> nth k l 0 = a -> index_of a l = k.
Proof. intros Hnd Hk <-. now apply index_of_nth. Qed.

Lemma index_of_app_l a l1 l2 : In a l1 -> index_of a (l1 ++ l2) = index_of a l1.
Proof.
  induction l1 as [|x r IH]; simpl; intros H; [tauto|].
  destruct (Nat.eqb_spec a x); auto. destruct H; [congruence|]. f_equal; auto.
Qed.

Lemma index_of_app_r a l1 l2 : ~ In a l1 -> index_of a (l1 ++ l2) = length l1 + index_of a l2.
Proof.
  induction l1 as [|x r IH]; simpl; intros H; auto.
  destruct (Nat.eqb_spec a x); [subst; tauto|]. f_equal. apply IH. tauto.
Qed.

(* ---------------------------------------------------------------- gather / seq *)

Lemma firstn_app_len {A} (l1 l2 : list A) : firstn (length l1) (l1 ++ l2) = l1.
Proof. induction l1; simpl; [now destruct l2|]. now f_equal. Qed.

Lemma skipn_app_len {A} (l1 l2 : list A) : skipn (length l1) (l1 ++ l2) = l2.
Proof. induction l1; simpl; auto. Qed.

Lemma length_gather idx p : length (gather idx p) = length p.
Proof. unfold gather. apply map_length. Qed.

Lemma nth_map_lt (f : nat -> nat) l m d d' : m < length l -> nth m (map f l) d' = f (nth m l d).
Proof.
  revert m. induction l as [|x r IH]; simpl; intros m Hm; [lia|].
  destruct m; auto. apply IH. lia.
Qed.

Lemma nth_gather idx p m : m < length p -> nth m (gather idx p) 0 = nth (nth m p 0) idx 0.
Proof. intros Hm. unfold gather. now rewrite (nth_map_lt _ _ _ 0). Qed.

Lemma gather_app idx p q : gather idx (p ++ q) = gather idx p ++ gather idx q.
Proof. unfold gather. apply map_app. Qed.

Lemma nth_map_seq (f : nat -> nat) n a : a < n -> nth a (map f (seq 0 n)) 0 = f a.
Proof.
  intros Ha. rewrite (nth_map_lt _ _ _ 0) by (now rewrite seq_length). now rewrite seq_nth.
Qed.

Lemma map_nth_seq (l : list nat) : map (fun i => nth i l 0) (seq 0 (length l)) = l.
Proof.
  apply (nth_ext _ _ 0 0).
  - now rewrite map_length, seq_length.
  - intros a Ha. rewrite map_length, seq_length in Ha. now rewrite nth_map_seq.
Qed.

Lemma gather_seq idx : gather idx (seq 0 (length idx)) = idx.
Proof. apply map_nth_seq. Qed.

(* ---------------------------------------------------------------- permutations of range(n) *)

Lemma perm_all_in p : is_perm p -> forall a, a < length p -> In a p.
Proof.
  intros [Hnd Hlt] a Ha.
  assert (Hincl : incl (seq 0 (length p)) p).
  { apply NoDup_length_incl; auto.
    - now rewrite seq_length.
    - intros x Hx. apply in_seq. specialize (Hlt x Hx). lia. }
  apply Hincl. apply in_seq. lia.
Qed.

Lemma length_inv_perm p : length (inv_perm p) = length p.
Proof. unfold inv_perm. now rewrite map_length, seq_length. Qed.

Lemma nth_inv_perm p a : a < length p -> nth a (inv_perm p) 0 = index_of a p.
Proof. intros. unfold inv_perm. now rewrite nth_map_seq. Qed.

Lemma inv_perm_is_perm p : is_perm p -> is_perm (inv_perm p).
Proof.
  intros Hp. split.
  - apply (NoDup_nth _ 0). intros i j Hi Hj E.
    rewrite length_inv_perm in Hi, Hj. rewrite !nth_inv_perm in E by auto.
    rewrite <- (nth_index_of i p), <- (nth_index_of j p) by (now apply perm_all_in).
    now rewrite E.
  - intros a Ha. unfold inv_perm in Ha. apply in_map_iff in Ha. destruct Ha as [x [<- Hx]].
    apply in_seq in Hx. rewrite length_inv_perm. apply index_of_lt. apply perm_all_in; auto. lia.
Qed.

Lemma index_of_inv_perm p a : is_perm p -> a < length p -> index_of a (inv_perm p) = nth a p 0.
Proof.
  intros Hp Ha. destruct (inv_perm_is_perm p Hp) as [Hnd _].
  destruct Hp as [Hnd' Hlt].
  apply index_of_unique; auto.
  - rewrite length_inv_perm. apply Hlt. apply nth_In. auto.
  - rewrite nth_inv_perm by (apply Hlt; now apply nth_In). now apply index_of_nth.
Qed.

Lemma inv_perm_involutive p : is_perm p -> inv_perm (inv_perm p) = p.
Proof.
  intros Hp. apply (nth_ext _ _ 0 0).
  - now rewrite !length_inv_perm.
  - intros a Ha. rewrite !length_inv_perm in Ha.
    rewrite nth_inv_perm by (now rewrite length_inv_perm). now apply index_of_inv_perm.
Qed.

(* ---------------------------------------------------------------- unperm: numpy transpose semantics *)

Lemma length_unperm axes i : length (unperm axes i) = length axes.
Proof. unfold unperm. now rewrite length_gather, length_inv_perm. Qed.

Lemma nth_unperm axes i a : a < length axes -> nth a (unperm axes i) 0 = nth (index_of a axes) i 0.
Proof.
  intros Ha. unfold unperm. rewrite nth_gather by (now rewrite length_inv_perm).
  now rewrite nth_inv_perm.
Qed.

(* j[axes[m]] = i[m] *)
Lemma unperm_spec axes i m :
  is_perm axes -> m < length axes -> nth (nth m axes 0) (unperm axes i) 0 = nth m i 0.
Proof.
  intros [Hnd Hlt] Hm. rewrite nth_unperm by (apply Hlt; now apply nth_In).
  now rewrite index_of_nth.
Qed.

(* transposing by the inverse permutation gathers: unperm (inv_perm p) i = [i[p[0]], i[p[1]], ...] *)
Lemma unperm_inv_perm p i : is_perm p -> unperm (inv_perm p) i = gather i p.
Proof. intros Hp. unfold unperm. now rewrite inv_perm_involutive. Qed.

(* ---------------------------------------------------------------- upd / the untranspose loop *)

Lemma length_upd l k v : length (upd l k v) = length l.
Proof. revert k. induction l; destruct k; simpl; auto. Qed.

Lemma nth_upd l k v a : k < length l -> nth a (upd l k v) 0 = if Nat.eqb a k then v else nth a l 0.
Proof.
  revert k a. induction l as [|x r IH]; simpl; intros k a Hk; [lia|].
  destruct k as [|k]; destruct a as [|a]; simpl; auto.
  apply IH. lia.
Qed.

Lemma nth_upd_out l k v a : length l <= k -> nth a (upd l k v) 0 = nth a l 0.
Proof.
  revert k a. induction l as [|x r IH]; simpl; intros k a Hk; auto.
  destruct k as [|k]; [lia|]. destruct a; simpl; auto. apply IH. lia.
Qed.

Section UntransposeLoop.
  Variable tl : list nat.
  Let step := fun (u : list nat) (i : nat) => upd u (nth i tl 0) i.

  Lemma fold_step_length is u : length (fold_left step is u) = length u.
  Proof. revert u. induction is; simpl; intros; auto. rewrite IHis. apply length_upd. Qed.

  Lemma fold_step_other is : forall u a,
    (forall i, In i is -> nth i tl 0 <> a) -> nth a (fold_left step is u) 0 = nth a u 0.
  Proof.
    induction is as [|i0 r IH]; simpl; intros u a H; auto.
    rewrite IH by auto. unfold step.
    destruct (Nat.lt_ge_cases (nth i0 tl 0) (length u)).
    - rewrite nth_upd by auto. destruct (Nat.eqb_spec a (nth i0 tl 0)); auto.
      exfalso. apply (H i0); auto.
    - now apply nth_upd_out.
  Qed.

  Lemma fold_step_hit is : forall u i,
    In i is -> NoDup (map (fun i => nth i tl 0) is) -> nth i tl 0 < length u ->
    nth (nth i tl 0) (fold_left step is u) 0 = i.
  Proof.
    induction is as [|i0 r IH]; simpl; intros u i Hin Hnd Hlt; [tauto|].
    inversion Hnd as [|x xs Hx Hnd']; subst.
    destruct (in_dec Nat.eq_dec i r) as [Hr|Hr].
    - apply IH; auto. unfold step. now rewrite length_upd.
    - destruct Hin as [->|]; [|tauto].
      rewrite fold_step_other.
      + unfold step. rewrite nth_upd by auto. now rewrite Nat.eqb_refl.
      + intros j Hj E. apply Hx. rewrite <- E. apply in_map_iff. eauto.
  Qed.
End UntransposeLoop.

(* the loop of apply_gate_BLAS builds the inverse permutation *)
Lemma untranspose_list_is_inverse tl : is_perm tl -> untranspose_list tl = inv_perm tl.
Proof.
  intros Hp. unfold untranspose_list.
  apply (nth_ext _ _ 0 0).
  - now rewrite fold_step_length, repeat_length, length_inv_perm.
  - intros a Ha. rewrite fold_step_length, repeat_length in Ha.
    rewrite nth_inv_perm by auto.
    pose proof (perm_all_in tl Hp a Ha) as Hin.
    rewrite <- (nth_index_of a tl Hin) at 1.
    apply fold_step_hit.
    + apply in_seq. pose proof (index_of_lt a tl Hin). lia.
    + rewrite map_nth_seq. apply Hp.
    + rewrite repeat_length, nth_index_of; auto.
Qed.

(* untranspose_list[transpose_list[m]] = m  and  transpose_list[untranspose_list[a]] = a *)
Lemma untranspose_list_inverse_pointwise tl m :
  is_perm tl -> m < length tl ->
  nth (nth m tl 0) (untranspose_list tl) 0 = m /\ nth (nth m (untranspose_list tl) 0) tl 0 = m.
Proof.
  intros Hp Hm. rewrite (untranspose_list_is_inverse tl Hp). destruct Hp as [Hnd Hlt]. split.
  - rewrite nth_inv_perm by (apply Hlt; now apply nth_In). now apply index_of_nth.
  - rewrite nth_inv_perm by auto. apply nth_index_of. apply perm_all_in; [split|]; auto.
Qed.

Lemma unperm_gather_id tl idx : is_perm tl -> length idx = length tl -> unperm tl (gather idx tl) = idx.
Proof.
  intros Hp Hl. apply (nth_ext _ _ 0 0); [now rewrite length_unperm|].
  intros a Ha. rewrite length_unperm in Ha. rewrite nth_unperm by auto.
  pose proof (perm_all_in tl Hp a Ha) as Hin.
  rewrite nth_gather by (now apply index_of_lt). now rewrite nth_index_of.
Qed.

(* ---------------------------------------------------------------- spectators ++ targets is a permutation *)

Definition spectators (N : nat) (taxes : list nat) : list nat :=
  filter (fun i => negb (mem i taxes)) (seq 0 N).

Lemma in_spectators N taxes a : In a (spectators N taxes) <-> a < N /\ ~ In a taxes.
Proof.
  unfold spectators. rewrite filter_In, in_seq, negb_true_iff, mem_false. intuition lia.
Qed.

Lemma NoDup_app_intro (l1 l2 : list nat) :
  NoDup l1 -> NoDup l2 -> (forall a, In a l1 -> ~ In a l2) -> NoDup (l1 ++ l2).
Proof.
  induction 1 as [|x r Hx Hnd IH]; simpl; intros H2 Hd; auto.
  constructor.
  - rewrite in_app_iff. intros [H|H]; [tauto|]. apply (Hd x); auto.
  - apply IH; auto.
Qed.

Lemma spectators_targets_perm N taxes :
  good_targets N taxes -> Permutation (spectators N taxes ++ taxes) (seq 0 N).
Proof.
  intros [Hnd Hlt]. apply NoDup_Permutation.
  - apply NoDup_app_intro; auto.
    + unfold spectators. apply NoDup_filter. apply seq_NoDup.
    + intros a Ha. apply in_spectators in Ha. tauto.
  - apply seq_NoDup.
  - intros a. rewrite in_app_iff, in_spectators, in_seq.
    split.
    + intros [[H _]|H]; [lia|]. specialize (Hlt a H). lia.
    + intros H. destruct (in_dec Nat.eq_dec a taxes); [right; auto|left; split; [lia|auto]].
Qed.

Lemma spectators_targets_length N taxes :
  good_targets N taxes -> length (spectators N taxes) + length taxes = N.
Proof.
  intros H. apply spectators_targets_perm in H. apply Permutation_length in H.
  now rewrite app_length, seq_length in H.
Qed.

Lemma spectators_targets_is_perm N taxes :
  good_targets N taxes -> is_perm (spectators N taxes ++ taxes).
Proof.
  intros H. pose proof (spectators_targets_perm N taxes H) as HP.
  split.
  - apply (Permutation_NoDup (Permutation_sym HP)). apply seq_NoDup.
  - intros a Ha. rewrite (Permutation_length HP), seq_length.
    apply (Permutation_in _ HP) in Ha. apply in_seq in Ha. lia.
Qed.

(* ---------------------------------------------------------------- put: characterisation *)

Lemma length_put idx taxes j : length (put idx taxes j) = length idx.
Proof. unfold put. now rewrite map_length, seq_length. Qed.

Lemma nth_put idx taxes j a : a < length idx ->
  nth a (put idx taxes j) 0 = if mem a taxes then nth (index_of a taxes) j 0 else nth a idx 0.
Proof. intros Ha. unfold put. now rewrite nth_map_seq. Qed.

(* entry at taxes[m] is j[m] *)
Lemma put_target idx taxes j m :
  good_targets (length idx) taxes -> m < length taxes ->
  nth (nth m taxes 0) (put idx taxes j) 0 = nth m j 0.
Proof.
  intros [Hnd Hlt] Hm.
  assert (Hin : In (nth m taxes 0) taxes) by (now apply nth_In).
  rewrite nth_put by (now apply Hlt).
  apply mem_In in Hin. rewrite Hin. now rewrite index_of_nth.
Qed.

(* every other entry is kept *)
Lemma put_spectator idx taxes j a : ~ In a taxes -> nth a (put idx taxes j) 0 = nth a idx 0.
Proof.
  intros Hn. destruct (Nat.lt_ge_cases a (length idx)).
  - rewrite nth_put by auto. apply mem_false in Hn. now rewrite Hn.
  - rewrite !nth_overflow; auto. now rewrite length_put.
Qed.

(* putting back what is there changes nothing *)
Lemma put_gather_id idx taxes : put idx taxes (gather idx taxes) = idx.
Proof.
  apply (nth_ext _ _ 0 0); [apply length_put|].
  intros a Ha. rewrite length_put in Ha. rewrite nth_put by auto.
  destruct (mem a taxes) eqn:E; auto.
  apply mem_In in E. rewrite nth_gather by (now apply index_of_lt). now rewrite nth_index_of.
Qed.

(* reading the targets of a put gives j back *)
Lemma gather_put idx taxes j :
  good_targets (length idx) taxes -> length j = length taxes -> gather (put idx taxes j) taxes = j.
Proof.
  intros Hg Hj. apply (nth_ext _ _ 0 0); [now rewrite length_gather|].
  intros m Hm. rewrite length_gather in Hm. rewrite nth_gather by auto. now apply put_target.
Qed.
