(* FockAxes — apply_gate_BLAS (pure and mixed): the gate acts on exactly the listed axes, in the listed
   order, and reads only entries that agree with the output index off the targets. *)
From Coq Require Import List Arith Bool Lia Permutation.
Import ListNotations.
From SFV Require Import FockAxes.Model FockAxes.Lists.

(* The abstract matrix action only looks at its substate argument on multi-indices of the right
   length (true of every sum over product(range(trunc), repeat=k)).  Needed because Coq functions
   are not extensional. *)
Definition respects_shape {V : Type} (k : nat) (F : @tensor V -> @tensor V) : Prop :=
  forall s1 s2 : @tensor V, (forall j, length j = k -> s1 j = s2 j) -> forall o, F s1 o = F s2 o.

Section Gate.
  Context {V : Type}.
  Notation tensor := (@tensor V).

  (* np.transpose(np.transpose(t, tl), untranspose_list) = t *)
  Lemma transpose_untranspose_id (t : tensor) tl idx :
    is_perm tl -> length idx = length tl ->
    transpose (transpose t tl) (untranspose_list tl) idx = t idx.
  Proof.
    intros Hp Hl. unfold transpose.
    rewrite (untranspose_list_is_inverse _ Hp), (unperm_inv_perm _ _ Hp).
    now rewrite unperm_gather_id.
  Qed.

  (* ---- the common tail: transpose by tl = rest ++ taxes, act on trailing axes, untranspose ---- *)
  Lemma apply_with_tl_gather (F : tensor -> tensor) rest taxes (st : tensor) idx :
    is_perm (rest ++ taxes) ->
    apply_with_tl F (length rest) (rest ++ taxes) st idx
    = F (fun j => st (unperm (rest ++ taxes) (gather idx rest ++ j))) (gather idx taxes).
  Proof.
    intros Hp. unfold apply_with_tl, transpose, apply_trailing.
    rewrite (untranspose_list_is_inverse _ Hp), (unperm_inv_perm _ _ Hp), gather_app.
    replace (length rest) with (length (gather idx rest)) by apply length_gather.
    now rewrite firstn_app_len, skipn_app_len.
  Qed.

  Lemma unperm_spectators_put N taxes idx j :
    good_targets N taxes -> length idx = N ->
    unperm (spectators N taxes ++ taxes) (gather idx (spectators N taxes) ++ j) = put idx taxes j.
  Proof.
    intros Hg Hl.
    pose proof (spectators_targets_length N taxes Hg) as Hlen.
    apply (nth_ext _ _ 0 0).
    - rewrite length_unperm, length_put, app_length. lia.
    - intros a Ha. rewrite length_unperm, app_length in Ha.
      rewrite nth_unperm by (rewrite app_length; lia).
      rewrite nth_put by lia.
      destruct (mem a taxes) eqn:E.
      + apply mem_In in E.
        rewrite index_of_app_r by (rewrite in_spectators; tauto).
        rewrite app_nth2 by (rewrite length_gather; lia).
        rewrite length_gather. f_equal. lia.
      + apply mem_false in E.
        assert (Hin : In a (spectators N taxes)) by (apply in_spectators; split; [lia|auto]).
        rewrite index_of_app_l by auto.
        pose proof (index_of_lt _ _ Hin).
        rewrite app_nth1 by (now rewrite length_gather).
        rewrite nth_gather by auto. now rewrite nth_index_of.
  Qed.

  (* generic statement: any duplicate-free target axes inside range(N) *)
  Lemma apply_axes_correct (F : tensor -> tensor) N taxes (st : tensor) idx :
    respects_shape (length taxes) F -> good_targets N taxes -> length idx = N ->
    apply_with_tl F (N - length taxes) (spectators N taxes ++ taxes) st idx
    = F (fun j => st (put idx taxes j)) (gather idx taxes).
  Proof.
    intros HF Hg Hl.
    pose proof (spectators_targets_length N taxes Hg) as Hlen.
    replace (N - length taxes) with (length (spectators N taxes)) by lia.
    rewrite apply_with_tl_gather by (now apply spectators_targets_is_perm).
    apply HF. intros j _. now rewrite unperm_spectators_put.
  Qed.

  (* ---- apply_gate_BLAS, pure state ---- *)
  Theorem fock_axes_pure (F : tensor -> tensor) n modes (psi : tensor) idx :
    respects_shape (length modes) F ->
    good_targets n modes -> modes <> [] -> length idx = n ->
    apply_gate_pure F n modes psi idx = F (fun j => psi (put idx modes j)) (gather idx modes).
  Proof.
    intros HF Hg Hne Hl. unfold apply_gate_pure.
    destruct (Nat.eqb_spec n 1) as [->|Hn].
    - (* n == 1: np.dot(mat, state); modes must be [0] *)
      destruct Hg as [Hnd Hlt].
      destruct modes as [|m0 [|m1 r]]; [congruence| |].
      + assert (m0 = 0) by (specialize (Hlt m0 (or_introl eq_refl)); lia). subst m0.
        destruct idx as [|i [|? ?]]; simpl in Hl; try lia.
        simpl. apply HF. intros j Hj.
        destruct j as [|x [|? ?]]; simpl in Hj; try lia. reflexivity.
      + exfalso. assert (m0 = 0) by (specialize (Hlt m0 (or_introl eq_refl)); lia).
        assert (m1 = 0) by (specialize (Hlt m1 (or_intror (or_introl eq_refl))); lia).
        subst. inversion Hnd as [|? ? Hx _]. apply Hx. now left.
    - unfold pure_transpose_list. now apply apply_axes_correct.
  Qed.

  (* ---- apply_gate_BLAS, mixed state ---- *)
  Lemma div2_mem i modes : mem (i / 2) modes = mem i (row_axes modes ++ col_axes modes).
  Proof.
    destruct (mem (i / 2) modes) eqn:E; symmetry.
    - apply mem_In in E. apply mem_In. rewrite in_app_iff. unfold row_axes, col_axes. rewrite !in_map_iff.
      pose proof (Nat.div_mod i 2 ltac:(lia)) as D.
      pose proof (Nat.mod_upper_bound i 2 ltac:(lia)) as B.
      destruct (Nat.eq_dec (i mod 2) 0); [left|right]; exists (i / 2); split; auto; lia.
    - apply mem_false in E. apply mem_false. intros H. apply E.
      rewrite in_app_iff in H. unfold row_axes, col_axes in H. rewrite !in_map_iff in H.
      destruct H as [[x [<- Hx]]|[x [<- Hx]]].
      + replace (2 * x) with (x * 2) by lia. now rewrite Nat.div_mul by lia.
      + replace (2 * x + 1) with (1 + x * 2) by lia. rewrite Nat.div_add by lia. now simpl.
  Qed.

  Lemma mixed_transpose_list_eq n modes :
    mixed_transpose_list n modes
    = spectators (n * 2) (row_axes modes ++ col_axes modes) ++ (row_axes modes ++ col_axes modes).
  Proof.
    unfold mixed_transpose_list, spectators, row_axes, col_axes. f_equal.
    apply filter_ext. intros i. f_equal. apply div2_mem.
  Qed.

  Lemma good_targets_mixed n modes :
    good_targets n modes -> good_targets (n * 2) (row_axes modes ++ col_axes modes).
  Proof.
    intros [Hnd Hlt]. split.
    - apply NoDup_app_intro.
      + unfold row_axes. apply FinFun.Injective_map_NoDup; auto. intros x y. lia.
      + unfold col_axes. apply FinFun.Injective_map_NoDup; auto. intros x y. lia.
      + unfold row_axes, col_axes. intros a Ha Hb. rewrite in_map_iff in Ha, Hb.
        destruct Ha as [x [<- _]]. destruct Hb as [y [E _]]. lia.
    - intros a. rewrite in_app_iff. unfold row_axes, col_axes. rewrite !in_map_iff.
      intros [[x [<- Hx]]|[x [<- Hx]]]; specialize (Hlt x Hx); lia.
  Qed.

  Theorem fock_axes_mixed (G : tensor -> tensor) n modes (rho : tensor) idx :
    respects_shape (2 * length modes) G ->
    good_targets n modes -> modes <> [] -> length idx = n * 2 ->
    apply_gate_mixed G n modes rho idx
    = G (fun j => rho (put idx (row_axes modes ++ col_axes modes) j))
        (gather idx (row_axes modes ++ col_axes modes)).
  Proof.
    intros HG Hg Hne Hl. unfold apply_gate_mixed.
    destruct (Nat.eqb_spec n 1) as [->|Hn].
    - destruct Hg as [Hnd Hlt].
      destruct modes as [|m0 [|m1 r]]; [congruence| |].
      + assert (m0 = 0) by (specialize (Hlt m0 (or_introl eq_refl)); lia). subst m0.
        destruct idx as [|i [|i' [|? ?]]]; simpl in Hl; try lia.
        simpl. apply HG. intros j Hj.
        destruct j as [|x [|y [|? ?]]]; simpl in Hj; try lia. reflexivity.
      + exfalso. assert (m0 = 0) by (specialize (Hlt m0 (or_introl eq_refl)); lia).
        assert (m1 = 0) by (specialize (Hlt m1 (or_intror (or_introl eq_refl))); lia).
        subst. inversion Hnd as [|? ? Hx _]. apply Hx. now left.
    - rewrite mixed_transpose_list_eq.
      pose proof (good_targets_mixed n modes Hg) as Hg2.
      replace ((n - length modes) * 2) with (n * 2 - length (row_axes modes ++ col_axes modes)).
      + apply apply_axes_correct; auto.
        unfold row_axes, col_axes. rewrite app_length, !map_length.
        replace (length modes + length modes) with (2 * length modes) by lia. exact HG.
      + unfold row_axes, col_axes. rewrite app_length, !map_length. lia.
  Qed.

End Gate.
