(* FockAxes — EXECUTION-ONLY instance used by the correspondence check (tools/props/fock_axes.py).
   V := Gaussian integers Z*Z; the abstract matrix actions of Model.v are instantiated by the explicit
   integer contractions the Python performs (np.dot with the reshaped/transposed matrix, the diag
   fast path, the selection-rule loops of _apply_two_mode_passive / _apply_S2, einsum partial trace).
   No theorem depends on this file. *)
From Coq Require Import List Arith Bool ZArith.
Import ListNotations.
From SFV Require Import FockAxes.Model.

Definition C := (Z * Z)%type.
Definition czero : C := (0, 0)%Z.
Definition cone : C := (1, 0)%Z.
Definition cadd (a b : C) : C := (fst a + fst b, snd a + snd b)%Z.
Definition cmul (a b : C) : C := (fst a * fst b - snd a * snd b, fst a * snd b + snd a * fst b)%Z.
Definition cconj (a : C) : C := (fst a, - snd a)%Z.
Definition ceqb (a b : C) : bool := Z.eqb (fst a) (fst b) && Z.eqb (snd a) (snd b).
Definition csum (l : list C) : C := fold_left cadd l czero.

(* dense arrays as nested lists *)
Inductive tree := Leaf (v : C) | Node (l : list tree).

Fixpoint tget (t : tree) (idx : list nat) : C :=
  match t with
  | Leaf v => v
  | Node l =>
      match idx with
      | [] => czero
      | i :: r =>
          (fix pick (l : list tree) (i : nat) : C :=
             match l, i with
             | [], _ => czero
             | x :: _, 0 => tget x r
             | _ :: l', S i' => pick l' i'
             end) l i
      end
  end.

(* product(range(trunc), repeat=n) in row-major order *)
Fixpoint all_idx (trunc n : nat) : list (list nat) :=
  match n with
  | 0 => [[]]
  | S n' => flat_map (fun i => map (cons i) (all_idx trunc n')) (seq 0 trunc)
  end.

(* ops.index / ops.unIndex == ravel / reshape *)
Definition index (lst : list nat) (trunc : nat) : nat := fold_left (fun acc x => acc * trunc + x) lst 0.
Definition unIndex (i n trunc : nat) : list nat :=
  map (fun m => (i / trunc ^ (n - 1 - m)) mod trunc) (seq 0 n).

(* ---- apply_gate_BLAS: matview = np.transpose(mat, [0,2,..,1,3,..]).reshape((dim, dim)) ---- *)
Definition mat_transpose_list (size : nat) : list nat :=
  map (fun i => 2 * i) (seq 0 size) ++ map (fun i => 2 * i + 1) (seq 0 size).

Definition matview (mat : @tensor C) (size trunc : nat) : nat -> nat -> C :=
  fun r c => transpose mat (mat_transpose_list size) (unIndex r size trunc ++ unIndex c size trunc).

(* diag = np.all(matview == np.diag(np.diagonal(matview))) *)
Definition is_diag (mv : nat -> nat -> C) (dim : nat) : bool :=
  forallb (fun r => forallb (fun c => if Nat.eqb r c then true else ceqb (mv r c) czero) (seq 0 dim)) (seq 0 dim).

(* pure: np.dot(matview, view[i].ravel()).reshape(stshape)  |  np.multiply(mat_diag, view[i].ravel()).reshape(stshape) *)
Definition F_gate (mat : @tensor C) (size trunc : nat) : @tensor C -> @tensor C :=
  let dim := trunc ^ size in
  let mv := matview mat size trunc in
  if is_diag mv dim then
    fun s o => let r := index o trunc in cmul (mv r r) (s (unIndex r size trunc))
  else
    fun s o => let r := index o trunc in
               csum (map (fun c => cmul (mv r c) (s (unIndex c size trunc))) (seq 0 dim)).

(* mixed: matview . view[i].reshape(dim,dim) . matview^dagger ; argument / result index = rows ++ cols *)
Definition G_gate (mat : @tensor C) (size trunc : nat) : @tensor C -> @tensor C :=
  let dim := trunc ^ size in
  let mv := matview mat size trunc in
  if is_diag mv dim then
    fun s o => let r := index (firstn size o) trunc in
               let c := index (skipn size o) trunc in
               cmul (mv r r) (cmul (s (unIndex r size trunc ++ unIndex c size trunc)) (cconj (mv c c)))
  else
    fun s o => let r := index (firstn size o) trunc in
               let c := index (skipn size o) trunc in
               csum (map (fun a =>
                 cmul (mv r a)
                      (csum (map (fun b => cmul (s (unIndex a size trunc ++ unIndex b size trunc)) (cconj (mv c b)))
                                 (seq 0 dim))))
                 (seq 0 dim)).

(* ---- _apply_two_mode_passive:
     for i, j: for k in range(max(1+i+j-trunc, 0), min(i+j, trunc-1)+1): ret[i,j] += mat[i,k,j,i+j-k] * state[k,i+j-k] *)
Definition F_passive (mat : @tensor C) (trunc : nat) : @tensor C -> @tensor C :=
  fun s o =>
    let i := nth 0 o 0 in
    let j := nth 1 o 0 in
    let lo := (1 + i + j) - trunc in
    let hi := Nat.min (i + j) (trunc - 1) in
    csum (map (fun k => cmul (mat [i; k; j; i + j - k]) (s [k; i + j - k])) (seq lo (hi + 1 - lo))).

(* ---- _apply_S2:
     for i, j: for k in range(max(i-j, 0), trunc + min(i-j, 0)): ret[i,k] += mat[i,j,k,k+j-i] * state[j,k+j-i] *)
Definition F_S2 (mat : @tensor C) (trunc : nat) : @tensor C -> @tensor C :=
  fun s o =>
    let i := nth 0 o 0 in
    let k := nth 1 o 0 in
    csum (map (fun j =>
                 let lo := i - j in                                  (* max(i-j, 0) *)
                 let hi := if Nat.leb j i then trunc else trunc - (j - i) in   (* trunc + min(i-j, 0) *)
                 if Nat.leb lo k && Nat.ltb k hi
                 then cmul (mat [i; j; k; k + j - i]) (s [j; k + j - i])
                 else czero)
              (seq 0 trunc)).

Definition conj_tensor (t : @tensor C) : @tensor C := fun idx => cconj (t idx).

(* ---- ops.partial_trace: einsum with repeated letters on the traced modes ---- *)
(* index of the 2n-axis input given the output index (kept modes, 2 axes each) and the summed values *)
Fixpoint ptrace_index (n : nat) (modes : list nat) (m : nat) (kept summed : list nat) : list nat :=
  match n with
  | 0 => []
  | S n' =>
      if mem m modes
      then nth 0 summed 0 :: nth 0 summed 0 :: ptrace_index n' modes (S m) kept (tl summed)
      else nth 0 kept 0 :: nth 1 kept 0 :: ptrace_index n' modes (S m) (skipn 2 kept) summed
  end.

Definition count_traced (n : nat) (modes : list nat) : nat :=
  length (filter (fun m => mem m modes) (seq 0 n)).

Definition partial_trace (trunc n : nat) (modes : list nat) (st : @tensor C) : @tensor C :=
  fun kept => csum (map (fun summed => st (ptrace_index n modes 0 kept summed))
                        (all_idx trunc (count_traced n modes))).

(* comparison helper: positions (row-major) at which the model differs from the observed array *)
Definition mismatches (model : @tensor C) (observed : tree) (trunc rank : nat) : list (list nat * C) :=
  flat_map (fun idx => let v := model idx in if ceqb v (tget observed idx) then [] else [(idx, v)])
           (all_idx trunc rank).

(* ---- alloc / dealloc / prepare_multimode (whole methods, for the correspondence) ---- *)
Definition vacuum : @tensor C := fun idx => if forallb (Nat.eqb 0) idx then cone else czero.

Fixpoint list_eqb (a b : list nat) : bool :=
  match a, b with
  | [], [] => true
  | x :: a', y :: b' => Nat.eqb x y && list_eqb a' b'
  | _, _ => false
  end.

(* alloc(k): ops.tensor(state, vac, n, pure) with pos=None *)
Definition alloc (pure : bool) (n : nat) (st : @tensor C) : @tensor C :=
  tensordot0 cmul (if pure then n else 2 * n) st vacuum.

(* dealloc(modes): mix if pure, then partial trace *)
Definition dealloc (pure : bool) (trunc n : nat) (modes : list nat) (st : @tensor C) : @tensor C :=
  partial_trace trunc n modes (if pure then mix cmul cconj n st else st).

(* prepare_multimode(state, modes), tensor-shaped `state`:
   circuit_pure / prep_pure say which representation the circuit state / the prepared state come in *)
Definition prepare_multimode (circuit_pure prep_pure : bool) (trunc n : nat) (modes : list nat)
           (st prep : @tensor C) : bool * @tensor C :=
  let k := length modes in
  let trailing := list_eqb modes (seq (n - k) k) in
  if Nat.eqb n k then
    (* self._state = state; self._pure = (state.shape == pure_shape) *)
    (prep_pure, if trailing then prep else prepare_permute prep_pure n modes prep)
  else
    let rho := if circuit_pure then mix cmul cconj n st else st in
    let prep' := if prep_pure then mix cmul cconj k prep else prep in
    let T := tensordot0 cmul (2 * (n - k)) (partial_trace trunc n modes rho) prep' in
    (false, if trailing then T else prepare_permute false n modes T).
