From SFV Require Import FockAxes.Model FockAxes.Lists FockAxes.Proofs.
