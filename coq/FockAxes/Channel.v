(* FockAxes — locality corollaries, ops.mix commutes with gate application, _apply_channel, alloc. *)
From Coq Require Import List Arith Bool Lia.
Import ListNotations.
From SFV Require Import FockAxes.Model FockAxes.Lists FockAxes.Proofs FockAxes.TwoMode.

(* x agrees with idx on every axis that is not a target *)
Definition agrees_off (taxes idx x : list nat) : Prop :=
  length x = length idx /\ forall a, ~ In a taxes -> nth a x 0 = nth a idx 0.

Lemma put_agrees_off idx taxes j : agrees_off taxes idx (put idx taxes j).
Proof. split; [apply length_put|]. intros a Ha. now apply put_spectator. Qed.

(* ---------------------------------------------------------------- small list facts *)

Lemma nth_firstn_lt (l : list nat) k i : i < k -> nth i (firstn k l) 0 = nth i l 0.
Proof.
  revert k i. induction l as [|x r IH]; intros k i Hi.
  - now rewrite firstn_nil.
  - destruct k; [lia|]. destruct i; simpl; auto. apply IH. lia.
Qed.

Lemma nth_skipn_add (l : list nat) k i : nth i (skipn k l) 0 = nth (k + i) l 0.
Proof.
  revert k. induction l as [|x r IH]; intros k.
  - rewrite skipn_nil. destruct (k + i); destruct i; reflexivity.
  - destruct k; simpl; auto.
Qed.

Lemma index_of_map_inj (f : nat -> nat) a l :
  (forall x y, f x = f y -> x = y) -> index_of (f a) (map f l) = index_of a l.
Proof.
  intros Hf. induction l as [|x r IH]; simpl; auto.
  destruct (Nat.eqb_spec (f a) (f x)) as [E|E]; destruct (Nat.eqb_spec a x) as [E'|E']; auto.
  - apply Hf in E. congruence.
  - subst. congruence.
Qed.

Definition evens (n : nat) (idx : list nat) := gather idx (map (fun i => 2 * i) (seq 0 n)).
Definition odds (n : nat) (idx : list nat) := gather idx (map (fun i => 2 * i + 1) (seq 0 n)).

Lemma length_evens n idx : length (evens n idx) = n.
Proof. unfold evens. now rewrite length_gather, map_length, seq_length. Qed.
Lemma length_odds n idx : length (odds n idx) = n.
Proof. unfold odds. now rewrite length_gather, map_length, seq_length. Qed.

Lemma nth_evens n idx a : a < n -> nth a (evens n idx) 0 = nth (2 * a) idx 0.
Proof.
  intros Ha. unfold evens. rewrite nth_gather by (now rewrite map_length, seq_length).
  now rewrite nth_map_seq.
Qed.
Lemma nth_odds n idx a : a < n -> nth a (odds n idx) 0 = nth (2 * a + 1) idx 0.
Proof.
  intros Ha. unfold odds. rewrite nth_gather by (now rewrite map_length, seq_length).
  now rewrite nth_map_seq.
Qed.

Lemma gather_rows n idx modes :
  (forall a, In a modes -> a < n) -> gather idx (row_axes modes) = gather (evens n idx) modes.
Proof.
  intros H. unfold row_axes, gather. rewrite map_map. apply map_ext_in. intros a Ha.
  symmetry. apply nth_evens. auto.
Qed.
Lemma gather_cols n idx modes :
  (forall a, In a modes -> a < n) -> gather idx (col_axes modes) = gather (odds n idx) modes.
Proof.
  intros H. unfold col_axes, gather. rewrite map_map. apply map_ext_in. intros a Ha.
  symmetry. apply nth_odds. auto.
Qed.

Lemma mem_rows_cols_even a modes : mem (2 * a) (row_axes modes ++ col_axes modes) = mem a modes.
Proof.
  rewrite <- div2_mem. f_equal. replace (2 * a) with (a * 2) by lia. now rewrite Nat.div_mul.
Qed.
Lemma mem_rows_cols_odd a modes : mem (2 * a + 1) (row_axes modes ++ col_axes modes) = mem a modes.
Proof.
  rewrite <- div2_mem. f_equal. replace (2 * a + 1) with (1 + a * 2) by lia.
  now rewrite Nat.div_add.
Qed.

Lemma evens_put n modes idx j :
  length idx = n * 2 -> length j = 2 * length modes ->
  evens n (put idx (row_axes modes ++ col_axes modes) j) = put (evens n idx) modes (firstn (length modes) j).
Proof.
  intros Hl Hj. apply (nth_ext _ _ 0 0); [now rewrite length_put, !length_evens|].
  intros a Ha. rewrite length_evens in Ha.
  rewrite nth_evens by auto. rewrite nth_put by lia. rewrite nth_put by (now rewrite length_evens).
  rewrite mem_rows_cols_even.
  destruct (mem a modes) eqn:E.
  - apply mem_In in E.
    rewrite index_of_app_l by (unfold row_axes; apply in_map_iff; eauto).
    unfold row_axes. rewrite (index_of_map_inj (fun i => 2 * i)) by (intros; lia).
    rewrite nth_firstn_lt; auto. now apply index_of_lt.
  - now rewrite nth_evens.
Qed.

Lemma odds_put n modes idx j :
  length idx = n * 2 -> length j = 2 * length modes ->
  odds n (put idx (row_axes modes ++ col_axes modes) j) = put (odds n idx) modes (skipn (length modes) j).
Proof.
  intros Hl Hj. apply (nth_ext _ _ 0 0); [now rewrite length_put, !length_odds|].
  intros a Ha. rewrite length_odds in Ha.
  rewrite nth_odds by auto. rewrite nth_put by lia. rewrite nth_put by (now rewrite length_odds).
  rewrite mem_rows_cols_odd.
  destruct (mem a modes) eqn:E.
  - apply mem_In in E.
    rewrite index_of_app_r.
    2:{ unfold row_axes. rewrite in_map_iff. intros [x [Hx _]]. lia. }
    unfold row_axes, col_axes. rewrite map_length.
    rewrite (index_of_map_inj (fun i => 2 * i + 1)) by (intros; lia).
    now rewrite nth_skipn_add.
  - now rewrite nth_odds.
Qed.

Section Locality.
  Context {V : Type}.
  Notation tensor := (@tensor V).

  (* ------------------------------------------------------------ locality (C05) *)

  Theorem locality_pure (F : tensor -> tensor) n modes (psi psi' : tensor) idx :
    respects_shape (length modes) F -> good_targets n modes -> modes <> [] -> length idx = n ->
    (forall x, agrees_off modes idx x -> psi x = psi' x) ->
    apply_gate_pure F n modes psi idx = apply_gate_pure F n modes psi' idx.
  Proof.
    intros HF Hg Hne Hl H. rewrite !fock_axes_pure by auto.
    apply HF. intros j _. apply H. apply put_agrees_off.
  Qed.

  Theorem locality_mixed (G : tensor -> tensor) n modes (rho rho' : tensor) idx :
    respects_shape (2 * length modes) G -> good_targets n modes -> modes <> [] -> length idx = n * 2 ->
    (forall x, agrees_off (row_axes modes ++ col_axes modes) idx x -> rho x = rho' x) ->
    apply_gate_mixed G n modes rho idx = apply_gate_mixed G n modes rho' idx.
  Proof.
    intros HG Hg Hne Hl H. rewrite !fock_axes_mixed by auto.
    apply HG. intros j _. apply H. apply put_agrees_off.
  Qed.

  Theorem locality_twomode_pure (F : tensor -> tensor) n t1 t2 (psi psi' : tensor) idx :
    respects_shape 2 F -> t1 < n -> t2 < n -> t1 <> t2 -> length idx = n ->
    (forall x, agrees_off [t1; t2] idx x -> psi x = psi' x) ->
    apply_twomode_pure F n t1 t2 psi idx = apply_twomode_pure F n t1 t2 psi' idx.
  Proof.
    intros HF H1 H2 Hne Hl H. rewrite !twomode_pure_correct by auto.
    apply HF. intros j _. apply H. apply put_agrees_off.
  Qed.

  Theorem locality_twomode_mixed (F Fc : tensor -> tensor) n m1 m2 (rho rho' : tensor) idx :
    respects_shape 2 F -> respects_shape 2 Fc -> m1 < n -> m2 < n -> m1 <> m2 -> length idx = 2 * n ->
    (forall x, agrees_off [2 * m1; 2 * m2; 2 * m1 + 1; 2 * m2 + 1] idx x -> rho x = rho' x) ->
    apply_twomode_mixed F Fc n m1 m2 rho idx = apply_twomode_mixed F Fc n m1 m2 rho' idx.
  Proof.
    intros HF HFc H1 H2 Hne Hl H. rewrite !twomode_mixed_correct by auto.
    apply HFc. intros cj _. cbv zeta. apply HF. intros rj _. apply H.
    split.
    - now rewrite !length_put.
    - intros a Ha. simpl in Ha.
      rewrite put_spectator by (simpl; tauto). rewrite put_spectator by (simpl; tauto). reflexivity.
  Qed.

End Locality.

Section Channel.
  Context {V : Type}.
  Notation tensor := (@tensor V).
  Variable vmul vadd : V -> V -> V.
  Variable vconj : V -> V.
  Variable vzero : V.

  (* ------------------------------------------------------------ _apply_channel *)

  Lemma apply_channel_formula (Gs : list (tensor -> tensor)) n modes (rho : tensor) idx :
    Forall (respects_shape (2 * length modes)) Gs -> good_targets n modes -> modes <> [] -> length idx = n * 2 ->
    apply_channel vadd vzero Gs n modes rho idx
    = fold_left (fun acc G => vadd acc (G (fun j => rho (put idx (row_axes modes ++ col_axes modes) j))
                                          (gather idx (row_axes modes ++ col_axes modes)))) Gs vzero.
  Proof.
    intros HGs Hg Hne Hl. unfold apply_channel. generalize vzero.
    induction HGs as [|G Gs HG HGs IH]; intros z; simpl; auto.
    rewrite IH. now rewrite fock_axes_mixed by auto.
  Qed.

  Theorem locality_channel (Gs : list (tensor -> tensor)) n modes (rho rho' : tensor) idx :
    Forall (respects_shape (2 * length modes)) Gs -> good_targets n modes -> modes <> [] -> length idx = n * 2 ->
    (forall x, agrees_off (row_axes modes ++ col_axes modes) idx x -> rho x = rho' x) ->
    apply_channel vadd vzero Gs n modes rho idx = apply_channel vadd vzero Gs n modes rho' idx.
  Proof.
    intros HGs Hg Hne Hl H. unfold apply_channel. generalize vzero.
    induction HGs as [|G Gs HG HGs IH]; intros z; simpl; auto.
    rewrite IH. f_equal. f_equal. now apply locality_mixed.
  Qed.

  (* ------------------------------------------------------------ mix commutes with gate application *)

  (* G is "F on the rows, conj F on the columns" on product sub-states *)
  Definition is_conjugation_of (k : nat) (F G : tensor -> tensor) : Prop :=
    forall (s s' : tensor) r c, length r = k -> length c = k ->
      G (fun j => vmul (s (firstn k j)) (vconj (s' (skipn k j)))) (r ++ c) = vmul (F s r) (vconj (F s' c)).

  Lemma mix_unfold n (psi : tensor) idx :
    mix vmul vconj n psi idx = vmul (psi (evens n idx)) (vconj (psi (odds n idx))).
  Proof. reflexivity. Qed.

  Theorem mixed_of_mix_is_mix_of_pure (F G : tensor -> tensor) n modes (psi : tensor) idx :
    respects_shape (length modes) F -> respects_shape (2 * length modes) G ->
    is_conjugation_of (length modes) F G ->
    good_targets n modes -> modes <> [] -> length idx = n * 2 ->
    apply_gate_mixed G n modes (mix vmul vconj n psi) idx
    = mix vmul vconj n (apply_gate_pure F n modes psi) idx.
  Proof.
    intros HF HG HFG Hg Hne Hl.
    rewrite fock_axes_mixed by auto. rewrite mix_unfold.
    rewrite !fock_axes_pure by (auto using length_evens, length_odds).
    rewrite gather_app, (gather_rows n), (gather_cols n) by apply Hg.
    rewrite <- HFG by (now rewrite length_gather).
    apply HG. intros j Hj. rewrite mix_unfold.
    now rewrite evens_put, odds_put by auto.
  Qed.

  (* a channel applied to a pure state: mix first (what _apply_channel does) *)
  Theorem channel_from_pure_formula (Gs : list (tensor -> tensor)) n modes (psi : tensor) idx :
    Forall (respects_shape (2 * length modes)) Gs -> good_targets n modes -> modes <> [] -> length idx = n * 2 ->
    apply_channel_from_pure vmul vadd vconj vzero Gs n modes psi idx
    = fold_left (fun acc G => vadd acc (G (fun j => vmul (psi (put (evens n idx) modes (firstn (length modes) j)))
                                                         (vconj (psi (put (odds n idx) modes (skipn (length modes) j)))))
                                          (gather idx (row_axes modes ++ col_axes modes)))) Gs vzero.
  Proof.
    intros HGs Hg Hne Hl. unfold apply_channel_from_pure. rewrite apply_channel_formula by auto.
    generalize vzero. induction HGs as [|G Gs HG HGs IH]; intros z; simpl; auto.
    rewrite IH. f_equal. f_equal. apply HG. intros j Hj. rewrite mix_unfold.
    now rewrite evens_put, odds_put by auto.
  Qed.

  (* ------------------------------------------------------------ alloc: new modes are appended at the end *)
  Theorem alloc_axes (lenu : nat) (u v : tensor) idx_u idx_v :
    length idx_u = lenu ->
    tensordot0 vmul lenu u v (idx_u ++ idx_v) = vmul (u idx_u) (v idx_v).
  Proof. intros <-. unfold tensordot0. now rewrite firstn_app_len, skipn_app_len. Qed.

End Channel.
