(* FockAxes — apply_twomode_gate: the successive index switches bring the two targets to the front axes
   (for every ordered pair), the kernel acts on exactly those axes in the listed order, and the switches are
   undone afterwards.  Includes the pre-fix pure-state variant (`_old`) and its refutation. *)
From Coq Require Import List Arith Bool Lia.
Import ListNotations.
From SFV Require Import FockAxes.Model FockAxes.Lists FockAxes.Proofs.

(* case-split on the innermost index comparisons first *)
Ltac no_eqb u := lazymatch u with context [Nat.eqb _ _] => fail | _ => idtac end.
Ltac case_eqb :=
  repeat (match goal with
          | |- context [Nat.eqb ?u ?v] => no_eqb u; no_eqb v; destruct (Nat.eqb_spec u v); try lia
          end).

(* ---------------------------------------------------------------- axis lists given by a function *)

(* [i[f 0], i[f 1], ..., i[f (n-1)]] *)
Definition reindex (n : nat) (f : nat -> nat) (i : list nat) : list nat :=
  map (fun x => nth (f x) i 0) (seq 0 n).

Lemma length_reindex n f i : length (reindex n f i) = n.
Proof. unfold reindex. now rewrite map_length, seq_length. Qed.

Lemma nth_reindex n f i x : x < n -> nth x (reindex n f i) 0 = nth (f x) i 0.
Proof. intros. unfold reindex. now rewrite nth_map_seq. Qed.

Lemma reindex_ext n f g i : (forall x, x < n -> f x = g x) -> reindex n f i = reindex n g i.
Proof. intros H. unfold reindex. apply map_ext_in. intros x Hx. apply in_seq in Hx. rewrite H; auto. lia. Qed.

Lemma reindex_reindex n f g i :
  (forall x, x < n -> f x < n) -> reindex n f (reindex n g i) = reindex n (fun x => g (f x)) i.
Proof.
  intros Hf. apply (nth_ext _ _ 0 0); [now rewrite !length_reindex|].
  intros x Hx. rewrite length_reindex in Hx.
  rewrite (nth_reindex n f) by auto. rewrite (nth_reindex n g) by auto.
  now rewrite nth_reindex by auto.
Qed.

Lemma reindex_id n i : length i = n -> reindex n (fun x => x) i = i.
Proof. intros <-. unfold reindex. apply map_nth_seq. Qed.

(* the list p is the table of f on range(n) *)
Definition table_of (n : nat) (p : list nat) (f : nat -> nat) : Prop :=
  length p = n /\ forall x, x < n -> nth x p 0 = f x.

(* np.transpose by the table of f reads the index through the inverse g of f *)
Lemma unperm_table n p f g i :
  table_of n p f ->
  (forall x, x < n -> f x < n) -> (forall x, x < n -> g x < n) ->
  (forall x, x < n -> f (g x) = x) -> (forall x, x < n -> g (f x) = x) ->
  unperm p i = reindex n g i.
Proof.
  intros [Hl Ht] Hf Hg Hfg Hgf.
  assert (Hnd : NoDup p).
  { apply (NoDup_nth _ 0). intros a b Ha Hb E. rewrite Hl in Ha, Hb.
    rewrite !Ht in E by auto. rewrite <- (Hgf a), <- (Hgf b) by auto. now rewrite E. }
  apply (nth_ext _ _ 0 0); [now rewrite length_unperm, length_reindex|].
  intros x Hx. rewrite length_unperm, Hl in Hx.
  rewrite nth_unperm by lia. rewrite nth_reindex by auto. f_equal.
  apply index_of_unique; auto.
  - rewrite Hl. auto.
  - rewrite Ht by auto. auto.
Qed.

(* ---------------------------------------------------------------- the swap tables built by fancy indexing *)

Definition swapf (a b x : nat) : nat := if Nat.eqb x b then a else if Nat.eqb x a then b else x.

Lemma swapf_lt n a b x : a < n -> b < n -> x < n -> swapf a b x < n.
Proof. unfold swapf. intros. destruct (Nat.eqb x b), (Nat.eqb x a); lia. Qed.

Lemma swapf_invol a b x : swapf a b (swapf a b x) = x.
Proof.
  unfold swapf.
  case_eqb.
Qed.

Lemma nth_seq0 n x : x < n -> nth x (seq 0 n) 0 = x.
Proof. intros. now rewrite seq_nth. Qed.

(* l = arange(n); l[[a, b]] = l[[b, a]] *)
Lemma fancy_swap_table n a b :
  a < n -> b < n -> table_of n (fancy_move (seq 0 n) [a; b] [b; a]) (swapf a b).
Proof.
  intros Ha Hb. unfold fancy_move, fancy_assign, gather. simpl.
  rewrite !nth_seq0 by auto.
  split.
  - now rewrite !length_upd, seq_length.
  - intros x Hx.
    rewrite nth_upd by (now rewrite length_upd, seq_length).
    rewrite nth_upd by (now rewrite seq_length).
    rewrite nth_seq0 by auto. reflexivity.
Qed.

Lemma unperm_fancy_swap n a b i :
  a < n -> b < n -> unperm (fancy_move (seq 0 n) [a; b] [b; a]) i = reindex n (swapf a b) i.
Proof.
  intros Ha Hb. apply (unperm_table n _ (swapf a b) (swapf a b)).
  - now apply fancy_swap_table.
  - intros. now apply swapf_lt.
  - intros. now apply swapf_lt.
  - intros. apply swapf_invol.
  - intros. apply swapf_invol.
Qed.

(* l = arange(N); l[[0, 1, t, t+1]] = l[[t, t+1, 0, 1]]   (t even) *)
Definition swap2f (t x : nat) : nat :=
  if Nat.eqb x (t + 1) then 1 else if Nat.eqb x t then 0 else if Nat.eqb x 1 then t + 1 else if Nat.eqb x 0 then t else x.

Lemma swap2f_lt N t x : t + 1 < N -> x < N -> swap2f t x < N.
Proof.
  unfold swap2f. intros.
  repeat (match goal with |- context [Nat.eqb ?u ?v] => destruct (Nat.eqb_spec u v) end); lia.
Qed.

Lemma swap2f_invol t x : t <> 1 -> swap2f t (swap2f t x) = x.
Proof.
  intros Ht. unfold swap2f.
  case_eqb.
Qed.

Lemma fancy_swap2_table N t :
  t + 1 < N -> table_of N (fancy_move (seq 0 N) [0; 1; t; t + 1] [t; t + 1; 0; 1]) (swap2f t).
Proof.
  intros Ht. unfold fancy_move, fancy_assign, gather. simpl.
  rewrite !nth_seq0 by lia.
  split.
  - now rewrite !length_upd, seq_length.
  - intros x Hx.
    rewrite nth_upd by (rewrite !length_upd, seq_length; lia).
    rewrite nth_upd by (rewrite !length_upd, seq_length; lia).
    rewrite nth_upd by (rewrite !length_upd, seq_length; lia).
    rewrite nth_upd by (rewrite seq_length; lia).
    rewrite nth_seq0 by auto. reflexivity.
Qed.

Lemma unperm_fancy_swap2 N t i :
  t + 1 < N -> t <> 1 ->
  unperm (fancy_move (seq 0 N) [0; 1; t; t + 1] [t; t + 1; 0; 1]) i = reindex N (swap2f t) i.
Proof.
  intros Ht H1. apply (unperm_table N _ (swap2f t) (swap2f t)).
  - now apply fancy_swap2_table.
  - intros. now apply swap2f_lt.
  - intros. now apply swap2f_lt.
  - intros. now apply swap2f_invol.
  - intros. now apply swap2f_invol.
Qed.

(* ---------------------------------------------------------------- conjugating a front-axes kernel by a permutation *)

Lemma nth_front2 (j0 j1 : nat) (y : list nat) z :
  nth z (j0 :: j1 :: skipn 2 y) 0 = if Nat.eqb z 0 then j0 else if Nat.eqb z 1 then j1 else nth z y 0.
Proof.
  destruct z as [|[|z]]; simpl; auto.
  destruct y as [|a [|b y]]; simpl; auto; now destruct z.
Qed.

Lemma firstn2 (y : list nat) : 2 <= length y -> firstn 2 y = [nth 0 y 0; nth 1 y 0].
Proof. destruct y as [|a [|b y]]; simpl; intros; try lia. reflexivity. Qed.

Lemma length_front2 (j0 j1 : nat) (y : list nat) : 2 <= length y -> length (j0 :: j1 :: skipn 2 y) = length y.
Proof. destruct y as [|a [|b y]]; simpl; intros; lia. Qed.

Section Conjugation.
  Context {V : Type}.
  Notation tensor := (@tensor V).

  (* s1 is st read through phi; the kernel acts on the two front axes of s1; the result is read through the
     inverse phi' of phi.  Then the kernel has acted on axes (phi' 0, phi' 1) of st, in that order. *)
  Lemma front2_conjugation (F : tensor -> tensor) n (phi phi' : nat -> nat) (st s1 : tensor) idx :
    respects_shape 2 F -> 2 <= n -> length idx = n ->
    (forall x, x < n -> phi x < n) -> (forall x, x < n -> phi' x < n) ->
    (forall x, x < n -> phi' (phi x) = x) -> (forall x, x < n -> phi (phi' x) = x) ->
    (forall x, length x = n -> s1 x = st (reindex n phi x)) ->
    apply_front2 F s1 (reindex n phi' idx)
    = F (fun j => st (put idx [phi' 0; phi' 1] j)) [nth (phi' 0) idx 0; nth (phi' 1) idx 0].
  Proof.
    intros HF Hn Hl Hphi Hphi' Hinv1 Hinv2 Hs1. unfold apply_front2.
    rewrite firstn2 by (rewrite length_reindex; lia).
    rewrite !nth_reindex by lia.
    apply HF. intros j Hj.
    destruct j as [|j0 [|j1 [|? ?]]]; simpl in Hj; try lia.
    change ([j0; j1] ++ skipn 2 (reindex n phi' idx)) with (j0 :: j1 :: skipn 2 (reindex n phi' idx)).
    rewrite Hs1.
    2:{ rewrite length_front2; rewrite length_reindex; lia. }
    f_equal.
    apply (nth_ext _ _ 0 0); [now rewrite length_reindex, length_put|].
    intros x Hx. rewrite length_reindex in Hx.
    rewrite nth_reindex by auto. rewrite nth_front2.
    rewrite nth_put by lia. unfold mem, existsb, index_of.
    pose proof (Hphi x Hx) as Hpx.
    assert (E0 : phi x = 0 <-> x = phi' 0).
    { split; intros E; [rewrite <- E; symmetry; auto|rewrite E; apply Hinv2; lia]. }
    assert (E1 : phi x = 1 <-> x = phi' 1).
    { split; intros E; [rewrite <- E; symmetry; auto|rewrite E; apply Hinv2; lia]. }
    destruct (Nat.eqb_spec (phi x) 0) as [A|A]; destruct (Nat.eqb_spec x (phi' 0)) as [B|B]; try tauto;
      destruct (Nat.eqb_spec (phi x) 1) as [A1|A1]; destruct (Nat.eqb_spec x (phi' 1)) as [B1|B1];
      try tauto; try lia; simpl; auto.
    rewrite nth_reindex by auto. now rewrite Hinv1.
  Qed.

  (* ------------------------------------------------------------ pure state *)

  Definition p2_of (t1 t2 : nat) : nat := if Nat.eqb t2 0 then t1 else t2.

  Lemma twomode_pure_with_swaps (F : tensor -> tensor) n t1 q (st : tensor) idx :
    respects_shape 2 F -> 2 <= n -> t1 < n -> q < n -> length idx = n ->
    twomode_pure_with (fancy_move (seq 0 n) [0; t1] [t1; 0]) (fancy_move (seq 0 n) [1; q] [q; 1]) F st idx
    = let a := swapf 0 t1 (swapf 1 q 0) in
      let b := swapf 0 t1 (swapf 1 q 1) in
      F (fun j => st (put idx [a; b] j)) [nth a idx 0; nth b idx 0].
  Proof.
    intros HF Hn Ht1 Hq Hl. unfold twomode_pure_with, transpose.
    rewrite !unperm_fancy_swap by lia.
    rewrite reindex_reindex by (intros; apply swapf_lt; lia).
    cbv zeta.
    apply (front2_conjugation F n (fun x => swapf 1 q (swapf 0 t1 x)) (fun x => swapf 0 t1 (swapf 1 q x)) st); auto.
    - intros. apply swapf_lt; try lia. apply swapf_lt; lia.
    - intros. apply swapf_lt; try lia. apply swapf_lt; lia.
    - intros. now rewrite !swapf_invol.
    - intros. now rewrite !swapf_invol.
    - intros x Hx. rewrite !unperm_fancy_swap by lia.
      rewrite reindex_reindex by (intros; apply swapf_lt; lia). reflexivity.
  Qed.

  (* current code *)
  Theorem twomode_pure_correct (F : tensor -> tensor) n t1 t2 (psi : tensor) idx :
    respects_shape 2 F -> t1 < n -> t2 < n -> t1 <> t2 -> length idx = n ->
    apply_twomode_pure F n t1 t2 psi idx
    = F (fun j => psi (put idx [t1; t2] j)) [nth t1 idx 0; nth t2 idx 0].
  Proof.
    intros HF H1 H2 Hne Hl. unfold apply_twomode_pure, switch_list_1_pure, switch_list_2_pure.
    rewrite twomode_pure_with_swaps; auto; try lia.
    2:{ destruct (Nat.eqb t2 0); lia. }
    cbv zeta.
    assert (Ea : swapf 0 t1 (swapf 1 (if Nat.eqb t2 0 then t1 else t2) 0) = t1).
    { unfold swapf. case_eqb. }
    assert (Eb : swapf 0 t1 (swapf 1 (if Nat.eqb t2 0 then t1 else t2) 1) = t2).
    { unfold swapf. case_eqb. }
    now rewrite Ea, Eb.
  Qed.

  (* code before the fix: what it really did *)
  Theorem twomode_pure_old_action (F : tensor -> tensor) n t1 t2 (psi : tensor) idx :
    respects_shape 2 F -> t1 < n -> t2 < n -> t1 <> t2 -> length idx = n ->
    apply_twomode_pure_old F n t1 t2 psi idx
    = let a := if Nat.eqb t2 0 then (if Nat.eqb t1 1 then 0 else 1) else t1 in
      let b := if Nat.eqb t2 0 then t1 else t2 in
      F (fun j => psi (put idx [a; b] j)) [nth a idx 0; nth b idx 0].
  Proof.
    intros HF H1 H2 Hne Hl. unfold apply_twomode_pure_old, switch_list_1_pure, switch_list_2_pure_old.
    rewrite twomode_pure_with_swaps; auto; try lia.
    cbv zeta.
    assert (Ea : swapf 0 t1 (swapf 1 t2 0) = if Nat.eqb t2 0 then (if Nat.eqb t1 1 then 0 else 1) else t1).
    { unfold swapf. case_eqb. }
    assert (Eb : swapf 0 t1 (swapf 1 t2 1) = if Nat.eqb t2 0 then t1 else t2).
    { unfold swapf. case_eqb. }
    now rewrite Ea, Eb.
  Qed.

  (* the old code was right exactly when the second target is not mode 0 *)
  Corollary twomode_pure_old_correct_when (F : tensor -> tensor) n t1 t2 (psi : tensor) idx :
    respects_shape 2 F -> t1 < n -> t2 < n -> t1 <> t2 -> t2 <> 0 -> length idx = n ->
    apply_twomode_pure_old F n t1 t2 psi idx
    = F (fun j => psi (put idx [t1; t2] j)) [nth t1 idx 0; nth t2 idx 0].
  Proof.
    intros HF H1 H2 Hne H0 Hl. rewrite twomode_pure_old_action; auto.
    destruct (Nat.eqb_spec t2 0); [lia|]. reflexivity.
  Qed.

  (* ---- the bare axis statement: after the two switches axis 0 is t1 and axis 1 is t2; undoing restores ---- *)
  Theorem twomode_pure_axes n t1 t2 (psi : tensor) :
    t1 < n -> t2 < n -> t1 <> t2 ->
    let sw1 := switch_list_1_pure n t1 in
    let sw2 := switch_list_2_pure n t1 t2 in
    (forall x, length x = n ->
       exists y, transpose (transpose psi sw1) sw2 x = psi y /\ length y = n /\
                 nth t1 y 0 = nth 0 x 0 /\ nth t2 y 0 = nth 1 x 0 /\
                 (forall a, a < n -> a <> t1 -> a <> t2 -> exists b, 2 <= b < n /\ nth a y 0 = nth b x 0)) /\
    (forall idx, length idx = n ->
       transpose (transpose (transpose (transpose psi sw1) sw2) sw2) sw1 idx = psi idx).
  Proof.
    intros H1 H2 Hne sw1 sw2. subst sw1 sw2. unfold switch_list_1_pure, switch_list_2_pure.
    assert (Hn : 2 <= n) by lia.
    set (q := if Nat.eqb t2 0 then t1 else t2).
    assert (Hq : q < n) by (subst q; destruct (Nat.eqb t2 0); lia).
    split.
    - intros x Hx. unfold transpose. rewrite !unperm_fancy_swap by lia.
      rewrite reindex_reindex by (intros; apply swapf_lt; lia).
      eexists. split; [reflexivity|]. split; [apply length_reindex|].
      rewrite !nth_reindex by lia.
      subst q. unfold swapf.
      split; [|split].
      + case_eqb; reflexivity.
      + case_eqb; reflexivity.
      + intros a Ha Ha1 Ha2. rewrite nth_reindex by lia. eexists. split; [|reflexivity].
        unfold swapf.
        case_eqb.
    - intros idx Hl. unfold transpose. rewrite !unperm_fancy_swap by lia.
      rewrite !reindex_reindex by (intros; repeat apply swapf_lt; lia).
      f_equal. rewrite <- (reindex_id n idx Hl) at 2. apply reindex_ext.
      intros x Hx. now rewrite !swapf_invol.
  Qed.

  (* ------------------------------------------------------------ mixed state *)

  Lemma fancy_tr_eq n t1 t2 :
    transpose_list_mixed2 n t1 t2 = fancy_move (seq 0 (2 * n)) [t1 + 1; t2] [t2; t1 + 1].
  Proof. reflexivity. Qed.

  Theorem twomode_mixed_correct (F Fc : tensor -> tensor) n m1 m2 (rho : tensor) idx :
    respects_shape 2 F -> respects_shape 2 Fc ->
    m1 < n -> m2 < n -> m1 <> m2 -> length idx = 2 * n ->
    apply_twomode_mixed F Fc n m1 m2 rho idx
    = Fc (fun cj =>
            let idx' := put idx [2 * m1 + 1; 2 * m2 + 1] cj in
            F (fun rj => rho (put idx' [2 * m1; 2 * m2] rj)) [nth (2 * m1) idx' 0; nth (2 * m2) idx' 0])
         [nth (2 * m1 + 1) idx 0; nth (2 * m2 + 1) idx 0].
  Proof.
    intros HF HFc H1 H2 Hne Hl.
    unfold apply_twomode_mixed, switch_list_mixed, transpose_list_mixed2.
    set (N := 2 * n). set (t1 := 2 * m1). set (t2 := 2 * m2).
    assert (HN : 4 <= N) by lia.
    assert (Ht1 : t1 + 1 < N) by lia. assert (Ht2 : t2 + 1 < N) by lia.
    assert (Ht1' : t1 <> 1) by lia. assert (Ht2' : t2 <> 1) by lia.
    set (ftr := swapf (t1 + 1) t2).
    (* first stage seen as a tensor of its own: mid = F on the row axes of rho *)
    set (mid := fun w : list nat => F (fun rj => rho (put w [t1; t2] rj)) [nth t1 w 0; nth t2 w 0]).
    cbv zeta.
    unfold transpose at 1 2 3 4.
    rewrite (unperm_fancy_swap N (t1 + 1) t2) by lia.
    rewrite (unperm_fancy_swap2 N t2) by lia.
    rewrite reindex_reindex by (intros; apply swap2f_lt; lia).
    fold ftr.
    assert (Hftr : forall x, x < N -> ftr x < N) by (intros; apply swapf_lt; lia).
    assert (Hs1 : forall x, x < N -> swap2f t1 x < N) by (intros; apply swap2f_lt; lia).
    assert (Hs2 : forall x, x < N -> swap2f t2 x < N) by (intros; apply swap2f_lt; lia).
    assert (HN2 : 2 <= N) by lia.
    assert (P1 : forall x, x < N -> swap2f t1 (ftr x) < N) by (intros; apply Hs1; now apply Hftr).
    assert (P1' : forall x, x < N -> ftr (swap2f t1 x) < N) by (intros; apply Hftr; now apply Hs1).
    assert (I1 : forall x, x < N -> ftr (swap2f t1 (swap2f t1 (ftr x))) = x)
      by (intros; unfold ftr; now rewrite swap2f_invol, swapf_invol).
    assert (I1' : forall x, x < N -> swap2f t1 (ftr (ftr (swap2f t1 x))) = x)
      by (intros; unfold ftr; now rewrite swapf_invol, swap2f_invol).
    assert (P2 : forall x, x < N -> swap2f t2 (ftr x) < N) by (intros; apply Hs2; now apply Hftr).
    assert (P2' : forall x, x < N -> ftr (swap2f t2 x) < N) by (intros; apply Hftr; now apply Hs2).
    assert (I2 : forall x, x < N -> ftr (swap2f t2 (swap2f t2 (ftr x))) = x)
      by (intros; unfold ftr; now rewrite swap2f_invol, swapf_invol).
    assert (I2' : forall x, x < N -> swap2f t2 (ftr (ftr (swap2f t2 x))) = x)
      by (intros; unfold ftr; now rewrite swapf_invol, swap2f_invol).
    assert (E10 : ftr (swap2f t1 0) = t1) by (unfold ftr, swapf, swap2f; case_eqb).
    assert (E11 : ftr (swap2f t1 1) = t2) by (unfold ftr, swapf, swap2f; case_eqb).
    assert (E20 : ftr (swap2f t2 0) = t1 + 1) by (unfold ftr, swapf, swap2f; case_eqb).
    assert (E21 : ftr (swap2f t2 1) = t2 + 1) by (unfold ftr, swapf, swap2f; case_eqb).
    (* the row stage equals mid read through phi1 *)
    set (s1 := transpose (transpose rho (fancy_move (seq 0 N) [t1 + 1; t2] [t2; t1 + 1]))
                         (fancy_move (seq 0 N) [0; 1; t1; t1 + 1] [t1; t1 + 1; 0; 1])).
    assert (Hs1eq : forall x, length x = N -> s1 x = rho (reindex N (fun u => swap2f t1 (ftr u)) x)).
    { intros x Hx. subst s1. unfold transpose.
      rewrite (unperm_fancy_swap N (t1 + 1) t2) by lia.
      rewrite (unperm_fancy_swap2 N t1) by lia.
      rewrite reindex_reindex by auto. reflexivity. }
    assert (Hmid : forall z, length z = N ->
              apply_front2 F s1 z = mid (reindex N (fun u => swap2f t1 (ftr u)) z)).
    { intros z Hz.
      set (w := reindex N (fun u => swap2f t1 (ftr u)) z).
      assert (Hw : length w = N) by (subst w; apply length_reindex).
      assert (Ez : z = reindex N (fun u => ftr (swap2f t1 u)) w).
      { subst w. rewrite reindex_reindex by auto.
        rewrite <- (reindex_id N z Hz) at 1. apply reindex_ext. intros x Hx. symmetry. now apply I1'. }
      rewrite Ez.
      rewrite (front2_conjugation F N (fun u => swap2f t1 (ftr u)) (fun u => ftr (swap2f t1 u)) rho s1 w
                 HF HN2 Hw P1 P1' I1 I1' Hs1eq).
      unfold mid. now rewrite E10, E11. }
    set (c := transpose (transpose (apply_front2 F s1) (fancy_move (seq 0 N) [0; 1; t1; t1 + 1] [t1; t1 + 1; 0; 1]))
                        (fancy_move (seq 0 N) [0; 1; t2; t2 + 1] [t2; t2 + 1; 0; 1])).
    assert (Hc : forall x, length x = N -> c x = mid (reindex N (fun u => swap2f t2 (ftr u)) x)).
    { intros x Hx. subst c. unfold transpose.
      rewrite (unperm_fancy_swap2 N t2) by lia.
      rewrite (unperm_fancy_swap2 N t1) by lia.
      rewrite Hmid by apply length_reindex.
      f_equal.
      rewrite !reindex_reindex by auto.
      apply reindex_ext. intros u Hu. now rewrite swap2f_invol. }
    match goal with |- _ = ?rhs =>
      change (apply_front2 Fc c (reindex N (fun u => ftr (swap2f t2 u)) idx) = rhs) end.
    rewrite (front2_conjugation Fc N (fun u => swap2f t2 (ftr u)) (fun u => ftr (swap2f t2 u)) mid c idx
               HFc HN2 Hl P2 P2' I2 I2' Hc).
    rewrite E20, E21. reflexivity.
  Qed.

  (* same, with the row values read directly from idx (the column `put` does not touch row axes) *)
  Corollary twomode_mixed_correct_rows (F Fc : tensor -> tensor) n m1 m2 (rho : tensor) idx :
    respects_shape 2 F -> respects_shape 2 Fc ->
    m1 < n -> m2 < n -> m1 <> m2 -> length idx = 2 * n ->
    apply_twomode_mixed F Fc n m1 m2 rho idx
    = Fc (fun cj => F (fun rj => rho (put (put idx [2 * m1 + 1; 2 * m2 + 1] cj) [2 * m1; 2 * m2] rj))
                      [nth (2 * m1) idx 0; nth (2 * m2) idx 0])
         [nth (2 * m1 + 1) idx 0; nth (2 * m2 + 1) idx 0].
  Proof.
    intros HF HFc H1 H2 Hne Hl. rewrite twomode_mixed_correct by auto.
    apply HFc. intros cj _. cbv zeta.
    rewrite !put_spectator by (intros [H|[H|[]]]; lia). reflexivity.
  Qed.

End Conjugation.

(* ---------------------------------------------------------------- refutation of the pre-fix code *)

(* a kernel that is not symmetric between its two axes, on nat-valued tensors *)
Definition probe_kernel (s : @tensor nat) : @tensor nat := fun o => s [nth 0 o 0; nth 0 o 0].
Definition probe_state : @tensor nat := fun idx => nth 0 idx 0 + 2 * nth 1 idx 0 + 4 * nth 2 idx 0.

Lemma probe_kernel_respects_shape : respects_shape 2 probe_kernel.
Proof. intros s1 s2 H o. unfold probe_kernel. apply H. reflexivity. Qed.

(* BS on modes (2, 0) of a 3-mode register: the old switches put modes (1, 2) in front *)
Theorem twomode_pure_old_refuted :
  exists (F : @tensor nat -> @tensor nat) n t1 t2 (psi : @tensor nat) idx,
    respects_shape 2 F /\ t1 < n /\ t2 < n /\ t1 <> t2 /\ length idx = n /\
    apply_twomode_pure_old F n t1 t2 psi idx
    <> F (fun j => psi (put idx [t1; t2] j)) [nth t1 idx 0; nth t2 idx 0].
Proof.
  exists probe_kernel, 3, 2, 0, probe_state, [1; 0; 0].
  repeat split; try lia; try apply probe_kernel_respects_shape.
  vm_compute. discriminate.
Qed.

Theorem twomode_pure_axes_old_refuted :
  exists n t1 t2, t1 < n /\ t2 < n /\ t1 <> t2 /\
    exists x, length x = n /\
      nth t2 (unperm (switch_list_1_pure n t1) (unperm (switch_list_2_pure_old n t2) x)) 0 <> nth 1 x 0.
Proof.
  exists 3, 2, 0. repeat split; try lia.
  exists [5; 6; 7]. split; [reflexivity|]. vm_compute. discriminate.
Qed.
