(* C16 — models of the state-observable code of strawberryfields/backends/states.py,
   fockbackend/backend.py:state and utils/post_processing.py.  Definitions only.

   Scalars are an abstract type K with ring/field operations passed in (Section variables);
   the same definitions are executed at PrimFloat.float and at Z (C16/Exec.v) for the
   correspondence check and reasoned about at every field (C16/Proofs.v).
   Vectors / matrices are functions nat -> K, nat -> nat -> K (dimension free); Fock tensors
   are functions from index lists to K.  Python exceptions are result constructors. *)
From Coq Require Import List Arith Bool Lia.
Import ListNotations.

Declare Scope K_scope.
Delimit Scope K_scope with K.

Inductive res (A : Type) : Type :=
| Ok (a : A)
| ValueErr
| IndexErr.
Arguments Ok {A} a.
Arguments ValueErr {A}.
Arguments IndexErr {A}.

Fixpoint list_eqb (a b : list nat) : bool :=
  match a, b with
  | [], [] => true
  | x :: a', y :: b' => Nat.eqb x y && list_eqb a' b'
  | _, _ => false
  end.

(* Python `l == sorted(l)` : l is non-decreasing *)
Fixpoint sorted_le (l : list nat) : bool :=
  match l with
  | [] => true
  | x :: t => match t with [] => true | y :: _ => (x <=? y) && sorted_le t end
  end.

Definition memb (m : nat) (l : list nat) : bool := existsb (Nat.eqb m) l.

(* Python `len(modes) != len(set(modes))` *)
Fixpoint has_dup (l : list nat) : bool :=
  match l with
  | [] => false
  | x :: t => memb x t || has_dup t
  end.

Fixpoint insert_by (key : nat -> nat) (x : nat) (l : list nat) : list nat :=
  match l with
  | [] => [x]
  | y :: t => if key x <? key y then x :: y :: t else y :: insert_by key x t
  end.
(* Python sorted(l) *)
Definition sort_nat (l : list nat) : list nat := fold_right (insert_by (fun x => x)) [] l.

(* -------------------------------------------------------------------------------------- *)
(* BaseGaussianState                                                                      *)
Section Gauss.
  Variable K : Type.
  Variables (k0 k1 : K) (kadd kmul ksub : K -> K -> K) (kopp : K -> K)
            (kdiv : K -> K -> K) (kinv : K -> K).
  Local Notation "a + b" := (kadd a b) : K_scope.
  Local Notation "a * b" := (kmul a b) : K_scope.
  Local Notation "a - b" := (ksub a b) : K_scope.
  Local Notation "a / b" := (kdiv a b) : K_scope.
  Local Notation two := (kadd k1 k1).
  Local Open Scope K_scope.

  (* the state: vector of means (x_0..x_{n-1},p_0..p_{n-1}), covariance, number of modes *)
  Variables (mu : nat -> K) (cov : nat -> nat -> K) (n : nat).

  (* ind = np.concatenate([modes, modes + N]) *)
  Definition gidx (modes : list nat) : list nat := modes ++ map (fun m => m + n)%nat modes.

  Definition sel_mu (ind : list nat) : list K := map mu ind.
  Definition sel_cov (ind : list nat) : list (list K) := map (fun r => map (cov r) ind) ind.

  (* BaseGaussianState.reduced_gaussian(modes), modes a list *)
  Definition reduced_gaussian (modes : list nat) : res (list K * list (list K)) :=
    if list_eqb modes (seq 0 n) then Ok (sel_mu (seq 0 (2 * n)), sel_cov (seq 0 (2 * n)))
    else if negb (sorted_le modes) then ValueErr
    else if (n <? length modes)%nat then ValueErr
    else if existsb (fun m => (n <=? m)%nat) modes then IndexErr
    else Ok (sel_mu (gidx modes), sel_cov (gidx modes)).

  (* entry accessors on results *)
  Definition vnth (v : list K) (i : nat) : K := nth i v k0.
  Definition mnth (m : list (list K)) (i j : nat) : K := nth j (nth i m []) k0.

  (* displacement(modes) = self._alpha[list(modes)];  alpha_k = (mu_k + i mu_{n+k}) / sqrt(2 hbar).
     [is2h] stands for 1/sqrt(2*hbar).  No validation besides the index range. *)
  Definition displacement (is2h : K) (modes : list nat) : res (list (K * K)) :=
    if existsb (fun m => (n <=? m)%nat) modes then IndexErr
    else Ok (map (fun m => (mu m * is2h, mu (m + n)%nat * is2h)) modes).

  (* mean_photon(mode): mean and variance, via reduced_gaussian([mode]) *)
  Definition mean_photon (hbar : K) (mode : nat) : res (K * K) :=
    match reduced_gaussian [mode] with
    | Ok (m, c) =>
        let tr := mnth c 0 0 + mnth c 1 1 in
        let mm := vnth m 0 * vnth m 0 + vnth m 1 * vnth m 1 in
        let trcc := (mnth c 0 0 * mnth c 0 0 + mnth c 0 1 * mnth c 1 0)
                    + (mnth c 1 0 * mnth c 0 1 + mnth c 1 1 * mnth c 1 1) in
        let mcm := vnth m 0 * (mnth c 0 0 * vnth m 0 + mnth c 0 1 * vnth m 1)
                   + vnth m 1 * (mnth c 1 0 * vnth m 0 + mnth c 1 1 * vnth m 1) in
        Ok ((tr + mm) / (two * hbar) - k1 / two,
            (trcc + two * mcm) / (two * (hbar * hbar)) - k1 / (two * two))
    | ValueErr => ValueErr
    | IndexErr => IndexErr
    end.

  (* quad_expectation(mode, phi):  rot = [[c,-s],[s,c]];  (rot.T mu)[0], (rot.T cov rot)[0,0] *)
  Definition quad_expectation (c s : K) (mode : nat) : res (K * K) :=
    match reduced_gaussian [mode] with
    | Ok (m, v) =>
        Ok (c * vnth m 0 + s * vnth m 1,
            (c * mnth v 0 0 + s * mnth v 1 0) * c + (c * mnth v 0 1 + s * mnth v 1 1) * s)
    | ValueErr => ValueErr
    | IndexErr => IndexErr
    end.

  (* parity_expectation(modes) (after fix 5603fbf): duplicates rejected, then the Gaussian integral
     is evaluated on reduced_gaussian(sorted(modes)).  [G m v] stands for
     exp(-m.V^-1.m/2)/sqrt(det V) of the vector/matrix handed to numpy (an oracle: numpy evaluates
     it; the model records WHICH data it is applied to). *)
  Fixpoint kpow (x : K) (e : nat) : K := match e with O => k1 | S e' => x * kpow x e' end.

  Definition parity_expectation (G : list K -> list (list K) -> K) (hb2 : K) (modes : list nat) : res K :=
    if has_dup modes then ValueErr
    else match reduced_gaussian (sort_nat modes) with
         | Ok (m, v) => Ok (kpow hb2 (length modes) * G m v)
         | ValueErr => ValueErr
         | IndexErr => IndexErr
         end.

  (* what the property asks for: the same formula on the reduced state of `modes` *)
  Definition parity_spec (G : list K -> list (list K) -> K) (hb2 : K) (modes : list nat) : K :=
    kpow hb2 (length modes) * G (sel_mu (gidx modes)) (sel_cov (gidx modes)).
End Gauss.

(* GaussianBackend.state(): the simulator holds N (nmat), M (mmat), alpha (mean); scovmat/smean
   give hbar=2 quantities, state() rescales by 1 (circuit.hbar = 2) and BaseGaussianState.__init__
   multiplies means by s = sqrt(hbar/2) and cov by hbar/2.  Diagonal entries used by mean_photon: *)
Section GaussBackendData.
  Variable K : Type.
  Variables (k0 k1 : K) (kadd kmul ksub : K -> K -> K).
  Local Notation "a + b" := (kadd a b) : K_scope.
  Local Notation "a * b" := (kmul a b) : K_scope.
  Local Notation "a - b" := (ksub a b) : K_scope.
  Local Notation two := (kadd k1 k1).
  Local Open Scope K_scope.
  (* per mode k: nr = Re N_kk, mr = Re M_kk, (ar, ai) = alpha_k;  s = sqrt(hbar/2), hb2 = hbar/2 *)
  Definition bd_x (s ar : K) : K := (two * ar) * s.
  Definition bd_p (s ai : K) : K := (two * ai) * s.
  Definition bd_vxx (hb2 nr mr : K) : K := ((nr + nr) + (mr + mr) + k1) * hb2.
  Definition bd_vpp (hb2 nr mr : K) : K := ((nr + nr) - (mr + mr) + k1) * hb2.
End GaussBackendData.

(* -------------------------------------------------------------------------------------- *)
(* BaseFockState: index computations                                                      *)

(* row-major flat index of a multi-index (np.ravel / np.reshape), all dims = D *)
Fixpoint flatten (D : nat) (idx : list nat) : nat :=
  match idx with
  | [] => 0
  | i :: t => i * D ^ length t + flatten D t
  end.

Fixpoint unflatten (D N f : nat) : list nat :=
  match N with
  | O => []
  | S N' => (f / D ^ N') :: unflatten D N' (f mod D ^ N')
  end.

Fixpoint interleave (a b : list nat) : list nat :=
  match a, b with
  | x :: a', y :: b' => x :: y :: interleave a' b'
  | _, _ => []
  end.

(* np.transpose(t, axes)[idx] = t[src] with src[axes[r]] = idx[r]; for axes a permutation of
   0..len-1 this is src[q] = idx[position of q in axes] *)
Fixpoint index_of (q : nat) (l : list nat) : nat :=
  match l with
  | [] => 0
  | x :: t => if Nat.eqb x q then 0 else S (index_of q t)
  end.

Definition transpose_src (axes idx : list nat) : list nat :=
  map (fun q => nth (index_of q axes) idx 0) (seq 0 (length axes)).

Definition evens (num_axes : nat) : list nat := map (fun r => 2 * r) (seq 0 (num_axes / 2)).
Definition odds (num_axes : nat) : list nat := map (fun r => 2 * r + 1) (seq 0 (num_axes / 2)).

Section Fock.
  Variable K : Type.
  Variables (k0 k1 : K) (kadd kmul : K -> K -> K).
  Local Notation "a + b" := (kadd a b) : K_scope.
  Local Notation "a * b" := (kmul a b) : K_scope.

  Definition tensor := list nat -> K.

  (* finite sums *)
  Fixpoint sumn (D : nat) (f : nat -> K) : K :=
    match D with O => k0 | S D' => (sumn D' f + f D')%K end.

  (* sum over all index lists of length N with entries < D *)
  Fixpoint sumL (D N : nat) (f : list nat -> K) : K :=
    match N with
    | O => f []
    | S N' => sumn D (fun a => sumL D N' (fun t => f (a :: t)))
    end.

  (* all_fock_probs, mixed state (real part taken by the caller):
       s = dm; transpose(evens+odds); reshape (D^N, D^N); diag; reshape [D]*N; then [n] *)
  Definition all_fock_probs_mixed (D N : nat) (s : tensor) (nidx : list nat) : K :=
    let f := flatten D nidx in
    let row := unflatten D N f in
    let col := unflatten D N f in
    s (transpose_src (evens (2 * N) ++ odds (2 * N)) (row ++ col)).

  (* fock_prob, mixed state: dm[tuple(n[i // 2] for i in range(2 len n))] *)
  Definition fock_prob_mixed (s : tensor) (nidx : list nat) : res K :=
    Ok (s (map (fun i => nth (i / 2) nidx 0) (seq 0 (2 * length nidx)))).

  Definition fock_prob (D N : nat) (s : tensor) (nidx : list nat) : res K :=
    if negb (Nat.eqb (length nidx) N) then ValueErr
    else if (D <=? fold_right Nat.max 0 nidx)%nat then ValueErr
    else fock_prob_mixed s nidx.

  (* trace, mixed state: einsum 'iijj...' *)
  Definition trace_mixed (D N : nat) (s : tensor) : K :=
    sumL D N (fun t => s (interleave t t)).

  (* ---- reduced_dm: construction of the einsum subscripts ----
     labels are positions in the alphabet `indices`; a mode contributes a pair of labels *)
  Definition insert_at {A} (m : nat) (x : A) (l : list A) : list A := firstn m l ++ x :: skipn m l.

  Definition red_labels_step (modes : list nat) (st : list (nat * nat) * nat) (m : nat)
    : list (nat * nat) * nat :=
    let '(ind, ctr) := st in
    if memb m modes then (insert_at m (2 * ctr, 2 * ctr + 1) ind, S ctr) else (ind, ctr).

  (* ind = [i*2 for i in indices[2k : k+N]] ; for m in range(N): if m in modes: ind.insert(m, keep[2ctr:2ctr+2]) *)
  Definition red_labels (N : nat) (modes : list nat) : list (nat * nat) :=
    let k := length modes in
    let init := map (fun t => (t, t)) (seq (2 * k) (N - k)) in
    fst (fold_left (red_labels_step modes) (seq 0 N) (init, 0)).

  (* the labelling the property asks for *)
  Definition rank_in (modes : list nat) (m : nat) : nat := length (filter (fun x => x <? m) modes).
  Definition red_labels_spec (N : nat) (modes : list nat) : list (nat * nat) :=
    let k := length modes in
    map (fun m => if memb m modes then (2 * rank_in modes m, 2 * rank_in modes m + 1)
                  else (2 * k + (m - rank_in modes m), 2 * k + (m - rank_in modes m)))
        (seq 0 N).

  (* einsum(labels -> keep_indices) : output index `out` (length 2k), summed labels t (length N-k) *)
  Definition label_val (k : nat) (out t : list nat) (l : nat) : nat :=
    if l <? 2 * k then nth l out 0 else nth (l - 2 * k) t 0.

  Definition einsum_labels (D N k : nat) (labels : list (nat * nat)) (s : tensor) (out : list nat) : K :=
    sumL D (N - k) (fun t =>
      s (flat_map (fun ab => [label_val k out t (fst ab); label_val k out t (snd ab)]) labels)).

  (* numpy rejects an output subscript that never appears in the input *)
  Definition labels_cover (k : nat) (labels : list (nat * nat)) : bool :=
    forallb (fun l => existsb (fun ab => Nat.eqb (fst ab) l || Nat.eqb (snd ab) l) labels) (seq 0 (2 * k)).

  Definition reduced_dm (D N : nat) (s : tensor) (modes : list nat) : res tensor :=
    if list_eqb modes (seq 0 N) then Ok s
    else if negb (sorted_le modes) then ValueErr
    else if (N <? length modes)%nat then ValueErr
    else if negb (labels_cover (length modes) (red_labels N modes)) then ValueErr
    else Ok (einsum_labels D N (length modes) (red_labels N modes) s).

  (* mean_photon(mode)[0] for a mixed state: sum_j j * reduced_dm([mode])[j,j]; [of_nat] embeds j *)
  Definition mean_photon_fock (of_nat : nat -> K) (D N : nat) (s : tensor) (mode : nat) : res K :=
    match reduced_dm D N s [mode] with
    | Ok r => Ok (sumn D (fun j => (of_nat j * r [j; j])%K))
    | ValueErr => ValueErr
    | IndexErr => IndexErr
    end.

  (* marginal of a probability tensor on axis k *)
  Definition insert_nth (k j : nat) (t : list nat) : list nat := firstn k t ++ j :: skipn k t.
  Definition marginal (D N : nat) (p : tensor) (k j : nat) : K :=
    sumL D (N - 1) (fun t => p (insert_nth k j t)).

  (* diagonal_expectation(modes, values), mixed state:
       trace out the other modes (descending), then contract the leading (i,i) pair with
       diag(values) once per requested mode *)
  Definition trace_pair (D : nat) (m : nat) (t : tensor) : tensor :=
    fun idx => sumn D (fun a => t (firstn (2 * m) idx ++ a :: a :: skipn (2 * m) idx)).
  Definition contract_front (D : nat) (v : nat -> K) (t : tensor) : tensor :=
    fun idx => sumn D (fun a => (v a * t (a :: a :: idx))%K).
  Definition others_desc (N : nat) (modes : list nat) : list nat :=
    rev (filter (fun m => negb (memb m modes)) (seq 0 N)).
  Fixpoint iter {A} (k : nat) (f : A -> A) (x : A) : A := match k with O => x | S k' => iter k' f (f x) end.

  Definition diagonal_expectation (D N : nat) (s : tensor) (modes : list nat) (v : nat -> K) : res K :=
    if has_dup modes then ValueErr
    else
      let ps := fold_left (fun t m => trace_pair D m t) (others_desc N modes) s in
      Ok (iter (length modes) (contract_front D v) ps []).

  (* what the property asks for: sum_n prod_{m in modes} v(n_m) * p(n) *)
  Definition diag_spec (D N : nat) (s : tensor) (modes : list nat) (v : nat -> K) : K :=
    sumL D N (fun nn => (fold_right (fun m acc => (v (nth m nn 0) * acc)%K) k1 modes * s (interleave nn nn))%K).
End Fock.

(* FockBackend.state(modes): axis bookkeeping after the reduction.  The reduced tensor has the
   kept modes in ascending order; then
     mode_permutation = argsort(modes); index_permutation = [2x+i for x in mode_permutation for i in (0,1)]
     red_state = transpose(red_state, argsort(index_permutation))                               *)
(* stable argsort: indices 0..len-1 ordered by key, ties by index *)
Definition argsort (l : list nat) : list nat :=
  fold_right (insert_by (fun i => nth i l 0)) [] (seq 0 (length l)).

Definition state_axes (modes : list nat) : list nat :=
  let mp := argsort modes in
  let ip := flat_map (fun x => [2 * x; 2 * x + 1]) mp in
  if list_eqb modes (map (fun i => nth i modes 0) mp) then seq 0 (2 * length modes)  (* modes == sorted(modes): no transpose *)
  else argsort ip.

(* bosonic: ind = np.sort(np.concatenate([2 modes, 2 modes + 1])) *)
Definition bos_ind (modes : list nat) : list nat :=
  sort_nat (map (fun m => 2 * m) modes ++ map (fun m => 2 * m + 1) modes).

(* -------------------------------------------------------------------------------------- *)
(* utils/post_processing.py on integer samples (exact): numerator of samples_expectation   *)
From Coq Require Import ZArith.
Definition prod_modes (row : list Z) (modes : list nat) : Z :=
  fold_right (fun m acc => (nth m row 0%Z * acc)%Z) 1%Z modes.
(* samples_expectation(samples, modes) * shots *)
Definition samples_sum (samples : list (list Z)) (modes : list nat) : Z :=
  fold_right (fun row acc => (prod_modes row modes + acc)%Z) 0%Z samples.
(* samples_variance * shots^2 = shots * sum(prod^2) - (sum prod)^2 *)
Definition samples_sumsq (samples : list (list Z)) (modes : list nat) : Z :=
  fold_right (fun row acc => (prod_modes row modes * prod_modes row modes + acc)%Z) 0%Z samples.
(* all_fock_probs_pnr(samples)[n] * shots : how many rows equal n *)
Definition row_eqb (a : list Z) (b : list Z) : bool :=
  Nat.eqb (length a) (length b) && forallb (fun p => Z.eqb (fst p) (snd p)) (combine a b).
Definition pnr_count (samples : list (list Z)) (nidx : list Z) : Z :=
  fold_right (fun row acc => ((if row_eqb row nidx then 1 else 0) + acc)%Z) 0%Z samples.

(* -------------------------------------------------------------------------------------- *)
(* BaseBosonicState.quad_expectation(mode, phi): the state is a weighted sum of Gaussians
   (weight, means in (x0,p0,x1,p1,..) order, covariance);  c = cos phi, s = sin phi.
     mean = sum_i w_i m_i ;  var = sum_i w_i v_i + sum_i w_i m_i^2 - mean^2
   with m_i, v_i the rotated first / second moment of component i restricted to `mode`. *)
Section BosonicQuad.
  Variable K : Type.
  Variables (k0 : K) (kadd kmul ksub : K -> K -> K).
  Definition bcomp : Type := (K * list K * list (list K))%type.
  Definition bweight (cp : bcomp) : K := fst (fst cp).
  Definition bsum (l : list K) : K := fold_right kadd k0 l.
  Definition b_mphi (c s : K) (mode : nat) (cp : bcomp) : K :=
    let m := snd (fst cp) in
    kadd (kmul c (nth (2 * mode) m k0)) (kmul s (nth (2 * mode + 1) m k0)).
  Definition b_vphi (c s : K) (mode : nat) (cp : bcomp) : K :=
    let e := fun i j => nth j (nth i (snd cp) []) k0 in
    let a := 2 * mode in let b := 2 * mode + 1 in
    kadd (kmul (kadd (kmul c (e a a)) (kmul s (e b a))) c) (kmul (kadd (kmul c (e a b)) (kmul s (e b b))) s).
  Definition bosonic_quad (c s : K) (mode : nat) (comps : list bcomp) : K * K :=
    let mean := bsum (map (fun cp => kmul (bweight cp) (b_mphi c s mode cp)) comps) in
    let v1 := bsum (map (fun cp => kmul (bweight cp) (b_vphi c s mode cp)) comps) in
    let v2 := bsum (map (fun cp => kmul (bweight cp) (kmul (b_mphi c s mode cp) (b_mphi c s mode cp))) comps) in
    (mean, ksub (kadd v1 v2) (kmul mean mean)).
End BosonicQuad.
