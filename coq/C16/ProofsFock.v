(* C16 — lemmas about the Fock-state index computations of C16/Model.v *)
From Coq Require Import List Arith Bool Lia.
Import ListNotations.
From SFV Require Import C16.Model C16.Proofs.

(* ---------- interleave / seq ---------- *)
Lemma map_seq_shift2 : forall (A : Type) (g : nat -> A) m a,
  map g (seq (S (S a)) m) = map (fun i => g (S (S i))) (seq a m).
Proof. intros A g m. induction m as [|m IH]; intro a; simpl; [reflexivity|]. f_equal. apply IH. Qed.

Lemma map_seq_interleave : forall (g : nat -> nat) N a,
  map g (seq (2 * a) (2 * N)) = interleave (map (fun r => g (2 * r)) (seq a N)) (map (fun r => g (2 * r + 1)) (seq a N)).
Proof.
  intros g N. induction N as [|N IH]; intro a; [reflexivity|].
  replace (2 * S N) with (S (S (2 * N))) by lia. simpl seq. simpl map. simpl interleave.
  replace (a + (a + 0) + 1) with (S (2 * a)) by lia.
  replace (a + (a + 0)) with (2 * a) by lia.
  f_equal. f_equal. replace (S (S (2 * a))) with (2 * S a) by lia. apply IH.
Qed.

Lemma list_as_map_nth : forall (l : list nat), l = map (fun r => nth r l 0) (seq 0 (length l)).
Proof.
  induction l as [|x l IH]; [reflexivity|]. simpl. f_equal.
  rewrite <- seq_shift, map_map. exact IH.
Qed.

Lemma div2_double : forall r, (2 * r) / 2 = r.
Proof. intro r. rewrite Nat.mul_comm. apply Nat.div_mul. lia. Qed.
Lemma div2_double1 : forall r, (2 * r + 1) / 2 = r.
Proof. intro r. rewrite Nat.mul_comm, Nat.div_add_l by lia. simpl. lia. Qed.

(* fock_prob's index tuple(n[i//2] for i in range(2 len n)) is the diagonal multi-index *)
Lemma half_index_interleave : forall nn,
  map (fun i => nth (i / 2) nn 0) (seq 0 (2 * length nn)) = interleave nn nn.
Proof.
  intro nn. change (seq 0 (2 * length nn)) with (seq (2 * 0) (2 * length nn)).
  rewrite (map_seq_interleave (fun i => nth (i / 2) nn 0) (length nn) 0).
  assert (E1 : map (fun r => nth (2 * r / 2) nn 0) (seq 0 (length nn)) = nn).
  { transitivity (map (fun r => nth r nn 0) (seq 0 (length nn))); [|symmetry; apply list_as_map_nth].
    apply map_ext. intro r. rewrite div2_double. reflexivity. }
  assert (E2 : map (fun r => nth ((2 * r + 1) / 2) nn 0) (seq 0 (length nn)) = nn).
  { transitivity (map (fun r => nth r nn 0) (seq 0 (length nn))); [|symmetry; apply list_as_map_nth].
    apply map_ext. intro r. rewrite div2_double1. reflexivity. }
  rewrite E1, E2. reflexivity.
Qed.

(* ---------- flatten / unflatten ---------- *)
Lemma flatten_lt : forall D idx, Forall (fun i => i < D) idx -> flatten D idx < D ^ length idx.
Proof.
  intros D idx H. induction H as [|i t Hi Ht IH]; simpl; [lia|].
  assert (i * D ^ length t + D ^ length t <= D * D ^ length t) by (replace (i * D ^ length t + D ^ length t) with (S i * D ^ length t) by lia; apply Nat.mul_le_mono_r; lia).
  lia.
Qed.

Lemma unflatten_flatten : forall D idx, Forall (fun i => i < D) idx ->
  unflatten D (length idx) (flatten D idx) = idx.
Proof.
  intros D idx H. induction H as [|i t Hi Ht IH]; [reflexivity|].
  simpl. pose proof (flatten_lt D t Ht) as Hlt.
  assert (P : D ^ length t <> 0) by lia.
  f_equal.
  - rewrite Nat.div_add_l by assumption. rewrite Nat.div_small by assumption. lia.
  - rewrite Nat.add_comm, Nat.mod_add by assumption. rewrite Nat.mod_small by assumption. exact IH.
Qed.

(* ---------- np.transpose(s, evens + odds) ---------- *)
Lemma index_of_app_notin : forall q l1 l2, (forall x, In x l1 -> x <> q) ->
  index_of q (l1 ++ l2) = length l1 + index_of q l2.
Proof.
  intros q l1 l2. induction l1 as [|x l1 IH]; intro H; [reflexivity|].
  simpl. destruct (Nat.eqb x q) eqn:E.
  - apply Nat.eqb_eq in E. exfalso. apply (H x); [left; reflexivity|assumption].
  - f_equal. apply IH. intros y Hy. apply H. right. assumption.
Qed.

Lemma index_of_affine : forall c l len a r, c < 2 -> a <= r < a + len ->
  index_of (2 * r + c) (map (fun r => 2 * r + c) (seq a len) ++ l) = r - a.
Proof.
  intros c l len. induction len as [|len IH]; intros a r Hc Hr; [lia|].
  change (seq a (S len)) with (a :: seq (S a) len). cbn [map app index_of].
  destruct (Nat.eqb (2 * a + c) (2 * r + c)) eqn:E.
  - apply Nat.eqb_eq in E. lia.
  - apply Nat.eqb_neq in E. assert (a < r) by lia.
    rewrite IH by lia. lia.
Qed.

Lemma evens_as_affine : forall N, evens (2 * N) = map (fun r => 2 * r + 0) (seq 0 N).
Proof. intro N. unfold evens. rewrite div2_double. apply map_ext. intro; lia. Qed.
Lemma odds_as_affine : forall N, odds (2 * N) = map (fun r => 2 * r + 1) (seq 0 N).
Proof. intro N. unfold odds. rewrite div2_double. reflexivity. Qed.

Lemma transpose_evens_odds : forall N row col, length row = N -> length col = N ->
  transpose_src (evens (2 * N) ++ odds (2 * N)) (row ++ col) = interleave row col.
Proof.
  intros N row col Hr Hc. unfold transpose_src.
  assert (L : length (evens (2 * N) ++ odds (2 * N)) = 2 * N).
  { rewrite app_length, evens_as_affine, odds_as_affine, !map_length, !seq_length. lia. }
  rewrite L. change (seq 0 (2 * N)) with (seq (2 * 0) (2 * N)).
  rewrite (map_seq_interleave (fun q => nth (index_of q (evens (2 * N) ++ odds (2 * N))) (row ++ col) 0) N 0).
  f_equal.
  - transitivity (map (fun r => nth r row 0) (seq 0 N)); [|rewrite <- Hr; symmetry; apply list_as_map_nth].
    apply map_ext_in. intros r Hin. apply in_seq in Hin.
    rewrite evens_as_affine. replace (2 * r) with (2 * r + 0) by lia.
    rewrite index_of_affine by lia. rewrite Nat.sub_0_r. apply app_nth1. lia.
  - transitivity (map (fun r => nth r col 0) (seq 0 N)); [|rewrite <- Hc; symmetry; apply list_as_map_nth].
    apply map_ext_in. intros r Hin. apply in_seq in Hin.
    rewrite index_of_app_notin.
    + rewrite <- (app_nil_r (odds (2 * N))), odds_as_affine, index_of_affine by lia.
      rewrite evens_as_affine, map_length, seq_length, Nat.sub_0_r.
      rewrite app_nth2 by lia. f_equal. lia.
    + intros x Hx. rewrite evens_as_affine in Hx. apply in_map_iff in Hx as (y & Hy & _). lia.
Qed.

Section FockProofs.
  Variable K : Type.
  Variables (k0 : K) (kadd : K -> K -> K).

  (* all_fock_probs()[n] is the diagonal element dm[n0,n0,n1,n1,...] *)
  Lemma all_fock_probs_diag : forall D N (s : tensor K) nn,
    length nn = N -> Forall (fun i => i < D) nn ->
    all_fock_probs_mixed K D N s nn = s (interleave nn nn).
  Proof.
    intros D N s nn HL HB. unfold all_fock_probs_mixed. subst N.
    rewrite unflatten_flatten by assumption.
    rewrite transpose_evens_odds by reflexivity. reflexivity.
  Qed.

  (* fock_prob(n) and all_fock_probs()[n] read the same entry, for every number of modes *)
  Lemma fock_prob_is_all_fock_probs : forall D N (s : tensor K) nn p,
    fock_prob K D N s nn = Ok p -> Forall (fun i => i < D) nn ->
    length nn = N /\ p = all_fock_probs_mixed K D N s nn.
  Proof.
    intros D N s nn p H HB. unfold fock_prob in H.
    destruct (Nat.eqb (length nn) N) eqn:E; simpl in H; [|discriminate].
    apply Nat.eqb_eq in E.
    destruct (D <=? fold_right Nat.max 0 nn); [discriminate|].
    unfold fock_prob_mixed in H. inversion H; subst p. split; [assumption|].
    rewrite all_fock_probs_diag by assumption. rewrite half_index_interleave. reflexivity.
  Qed.

  (* fock_prob answers only for in-range multi-indices of the right length *)
  Lemma fock_prob_ok_bounds : forall D N (s : tensor K) nn p,
    fock_prob K D N s nn = Ok p -> length nn = N /\ Forall (fun i => i < D) nn.
  Proof.
    intros D N s nn p H. unfold fock_prob in H.
    destruct (Nat.eqb (length nn) N) eqn:E; simpl in H; [|discriminate].
    apply Nat.eqb_eq in E. split; [assumption|].
    destruct (D <=? fold_right Nat.max 0 nn) eqn:E2; [discriminate|].
    apply Nat.leb_gt in E2. clear H E. induction nn as [|x t IH]; constructor; simpl in E2; [lia|apply IH; lia].
  Qed.

  (* sums over bounded index lists *)
  Lemma sumn_ext : forall D f g, (forall a, a < D -> f a = g a) -> sumn K k0 kadd D f = sumn K k0 kadd D g.
  Proof.
    intros D f g H. induction D as [|D IH]; [reflexivity|]. simpl.
    rewrite IH by (intros; apply H; lia). rewrite H by lia. reflexivity.
  Qed.

  Lemma sumL_ext : forall D N f g,
    (forall t, length t = N -> Forall (fun i => i < D) t -> f t = g t) ->
    sumL K k0 kadd D N f = sumL K k0 kadd D N g.
  Proof.
    intros D N. induction N as [|N IH]; intros f g H; simpl.
    - apply H; [reflexivity|constructor].
    - apply sumn_ext. intros a Ha. apply IH. intros t Ht Hb. apply H; [simpl; lia|constructor; assumption].
  Qed.

  (* trace() = sum of all_fock_probs(), for every number of modes *)
  Lemma trace_is_sum_probs : forall D N (s : tensor K),
    trace_mixed K k0 kadd D N s = sumL K k0 kadd D N (all_fock_probs_mixed K D N s).
  Proof.
    intros D N s. unfold trace_mixed. apply sumL_ext. intros t Ht Hb.
    symmetry. apply all_fock_probs_diag; assumption.
  Qed.
End FockProofs.

(* ---------------------------------------------------------------------------------- *)
(* reduced_dm([k]) : the einsum subscripts built by the list.insert loop, and what they compute *)
Lemma flat_map_dup_interleave : forall l : list nat, flat_map (fun x => [x; x]) l = interleave l l.
Proof. induction l as [|x l IH]; [reflexivity|]. simpl. rewrite IH. reflexivity. Qed.

Lemma flat_map_pairs : forall (f : nat -> nat) (l : list nat),
  flat_map (fun ab : nat * nat => [f (fst ab); f (snd ab)]) (map (fun u => (u, u)) l)
  = flat_map (fun x => [x; x]) (map f l).
Proof. intros f l. induction l as [|u l IH]; [reflexivity|]. simpl. rewrite IH. reflexivity. Qed.

Lemma interleave_app : forall a a' b b' : list nat, length a = length a' ->
  interleave (a ++ b) (a' ++ b') = interleave a a' ++ interleave b b'.
Proof.
  induction a as [|x a IH]; intros [|y a'] b b' H; simpl in *; try discriminate; [reflexivity|].
  rewrite IH by lia. reflexivity.
Qed.

Lemma skipn_cons_nth : forall (t : list nat) a, a < length t -> skipn a t = nth a t 0 :: skipn (S a) t.
Proof.
  induction t as [|x t IH]; intros a H; simpl in H; [lia|].
  destruct a; [reflexivity|]. simpl. apply IH. lia.
Qed.

Lemma seg_map_nth : forall (t : list nat) len a, a + len <= length t ->
  map (fun u => nth (u - 2) t 0) (seq (2 + a) len) = firstn len (skipn a t).
Proof.
  intros t len. induction len as [|len IH]; intros a H; [reflexivity|].
  rewrite (skipn_cons_nth t a) by lia.
  change (seq (2 + a) (S len)) with ((2 + a) :: seq (2 + S a) len).
  cbn [map firstn]. replace (2 + a - 2) with a by lia. f_equal. apply IH. lia.
Qed.

Lemma fold_step_nohit : forall k l st, (forall m, In m l -> m <> k) ->
  fold_left (red_labels_step [k]) l st = st.
Proof.
  intros k l. induction l as [|m l IH]; intros st H; [reflexivity|].
  simpl. destruct st as [ind ctr]. unfold red_labels_step at 2. unfold memb. simpl.
  destruct (Nat.eqb m k) eqn:E.
  - apply Nat.eqb_eq in E. exfalso. apply (H m); [left; reflexivity|assumption].
  - simpl. apply IH. intros x Hx. apply H. right. assumption.
Qed.

Lemma red_labels_single : forall N k, k < N ->
  red_labels N [k] = insert_at k (0, 1) (map (fun t => (t, t)) (seq 2 (N - 1))).
Proof.
  intros N k Hk. unfold red_labels. cbn [length].
  assert (Hseq : seq 0 N = seq 0 k ++ k :: seq (S k) (N - S k)).
  { transitivity (seq 0 (k + S (N - S k))); [f_equal; lia|]. rewrite seq_app. reflexivity. }
  rewrite Hseq.
  rewrite fold_left_app.
  rewrite (fold_step_nohit k (seq 0 k)) by (intros m Hm; apply in_seq in Hm; lia).
  cbn [fold_left]. unfold red_labels_step at 2. unfold memb. cbn [existsb]. rewrite Nat.eqb_refl. cbn [orb].
  rewrite (fold_step_nohit k (seq (S k) (N - S k))) by (intros m Hm; apply in_seq in Hm; lia).
  reflexivity.
Qed.

Lemma labels_single_eval : forall N k (t : list nat) j j', k < N -> length t = N - 1 ->
  flat_map (fun ab : nat * nat => [label_val 1 [j; j'] t (fst ab); label_val 1 [j; j'] t (snd ab)])
           (insert_at k (0, 1) (map (fun u => (u, u)) (seq 2 (N - 1))))
  = interleave (insert_nth k j t) (insert_nth k j' t).
Proof.
  intros N k t j j' Hk Ht. unfold insert_at, insert_nth.
  rewrite flat_map_app. cbn [flat_map fst snd]. unfold label_val at 3 4. cbn [Nat.ltb Nat.leb Nat.mul Nat.add nth].
  rewrite firstn_map, skipn_map.
  replace (firstn k (seq 2 (N - 1))) with (seq (2 + 0) k).
  2:{ replace (N - 1) with (k + (N - 1 - k)) by lia. rewrite seq_app, firstn_app, seq_length, Nat.sub_diag.
      cbn [firstn]. rewrite app_nil_r. rewrite firstn_all2 by (rewrite seq_length; lia). reflexivity. }
  replace (skipn k (seq 2 (N - 1))) with (seq (2 + k) (N - 1 - k)).
  2:{ replace (N - 1) with (k + (N - 1 - k)) at 2 by lia. rewrite seq_app, skipn_app, seq_length, Nat.sub_diag.
      rewrite skipn_all2 by (rewrite seq_length; lia). reflexivity. }
  assert (E : forall l, flat_map (fun ab : nat * nat => [label_val 1 [j; j'] t (fst ab); label_val 1 [j; j'] t (snd ab)])
                          (map (fun u => (u, u)) (map (fun x => 2 + x) l))
                   = interleave (map (fun x => nth x t 0) l) (map (fun x => nth x t 0) l)).
  { intro l. rewrite flat_map_pairs, flat_map_dup_interleave, !map_map.
    assert (M : map (fun x => label_val 1 [j; j'] t (2 + x)) l = map (fun x => nth x t 0) l).
    { apply map_ext. intro x. unfold label_val. replace (2 + x <? 2 * 1) with false by (symmetry; apply Nat.ltb_ge; lia).
      f_equal. lia. }
    rewrite M. reflexivity. }
  assert (S1 : seq (2 + 0) k = map (fun x => 2 + x) (seq 0 k)).
  { change (fun x => 2 + x) with (fun x => S (S x)). rewrite <- map_map, !seq_shift. reflexivity. }
  assert (S2 : seq (2 + k) (N - 1 - k) = map (fun x => 2 + x) (seq k (N - 1 - k))).
  { change (fun x => 2 + x) with (fun x => S (S x)). rewrite <- map_map, !seq_shift. reflexivity. }
  rewrite S1, S2, !E.
  assert (F1 : map (fun x => nth x t 0) (seq 0 k) = firstn k t).
  { pose proof (seg_map_nth t k 0) as P. simpl skipn in P. rewrite <- P by lia.
    rewrite S1, map_map. apply map_ext. intro x. f_equal. lia. }
  assert (F2 : map (fun x => nth x t 0) (seq k (N - 1 - k)) = skipn k t).
  { pose proof (seg_map_nth t (N - 1 - k) k) as P.
    rewrite (firstn_all2 (skipn k t)) in P by (rewrite skipn_length; lia). rewrite <- P by lia.
    rewrite S2, map_map. apply map_ext. intro x. f_equal. lia. }
  rewrite F1, F2.
  rewrite (interleave_app (firstn k t) (firstn k t) (j :: skipn k t) (j' :: skipn k t)) by reflexivity.
  reflexivity.
Qed.

Section FockMarginals.
  Variable K : Type.
  Variables (k0 : K) (kadd kmul : K -> K -> K).

  (* reduced_dm([k])[j,j'] = sum over the other modes' indices t of dm[.. t_m,t_m .. j,j' .. ] *)
  Lemma reduced_dm_single : forall D N (s : tensor K) k r j j',
    1 < N -> k < N -> reduced_dm K k0 kadd D N s [k] = Ok r ->
    r [j; j'] = sumL K k0 kadd D (N - 1) (fun t => s (interleave (insert_nth k j t) (insert_nth k j' t))).
  Proof.
    intros D N s k r j j' HN Hk H. unfold reduced_dm in H.
    destruct (list_eqb [k] (seq 0 N)) eqn:E.
    { apply list_eqb_eq in E. destruct N as [|[|N']]; simpl in E; try lia; discriminate. }
    cbn [sorted_le negb length] in H.
    replace (N <? 1) with false in H by (symmetry; apply Nat.ltb_ge; lia).
    destruct (labels_cover 1 (red_labels N [k])); cbn [negb] in H; [|discriminate].
    inversion H; subst r. unfold einsum_labels. rewrite red_labels_single by assumption.
    apply sumL_ext. intros t Ht _. apply f_equal. apply labels_single_eval; assumption.
  Qed.

  Lemma insert_nth_length : forall k j (t : list nat), k <= length t -> length (insert_nth k j t) = S (length t).
  Proof.
    intros k j t H. unfold insert_nth. rewrite app_length. cbn [length].
    rewrite firstn_length, skipn_length. lia.
  Qed.

  Lemma insert_nth_bounded : forall D k j (t : list nat), j < D -> Forall (fun i => i < D) t ->
    Forall (fun i => i < D) (insert_nth k j t).
  Proof.
    intros D k j t Hj Ht. unfold insert_nth.
    rewrite <- (firstn_skipn k t) in Ht. apply Forall_app in Ht as [A B].
    apply Forall_app. split; [assumption|]. constructor; assumption.
  Qed.

  (* C16_fock_marginals: the diagonal of reduced_dm([k]) is the k-th marginal of all_fock_probs() *)
  Lemma fock_marginal : forall D N (s : tensor K) k r,
    k < N -> reduced_dm K k0 kadd D N s [k] = Ok r ->
    forall j, j < D -> r [j; j] = marginal K k0 kadd D N (all_fock_probs_mixed K D N s) k j.
  Proof.
    intros D N s k r Hk H j Hj.
    destruct (Nat.eq_dec N 1) as [E1|E1].
    - subst N. assert (k = 0) by lia. subst k. unfold reduced_dm in H. simpl in H. inversion H; subst r.
      unfold marginal. simpl. rewrite all_fock_probs_diag; [reflexivity|reflexivity|repeat constructor; assumption].
    - rewrite (reduced_dm_single D N s k r j j) by (try assumption; lia).
      unfold marginal. apply sumL_ext. intros t Ht Hb. symmetry. apply all_fock_probs_diag.
      + rewrite insert_nth_length by lia. lia.
      + apply insert_nth_bounded; assumption.
  Qed.

  (* ... and mean_photon(k) is the first moment of that marginal *)
  Lemma fock_mean_photon_marginal : forall (of_nat : nat -> K) D N (s : tensor K) k mp,
    k < N -> mean_photon_fock K k0 kadd kmul of_nat D N s k = Ok mp ->
    mp = sumn K k0 kadd D (fun j => kmul (of_nat j) (marginal K k0 kadd D N (all_fock_probs_mixed K D N s) k j)).
  Proof.
    intros of_nat D N s k mp Hk H. unfold mean_photon_fock in H.
    destruct (reduced_dm K k0 kadd D N s [k]) as [r| |] eqn:R; try discriminate.
    inversion H; subst mp. apply sumn_ext. intros j Hj. f_equal. eapply fock_marginal; eassumption.
  Qed.
End FockMarginals.
