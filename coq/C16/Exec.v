(* C16 — executable instances of the model (PrimFloat for Gaussian quantities, Z for exact Fock
   tensor computations).  Used only by the correspondence check; no theorem depends on it. *)
From Coq Require Import List ZArith PrimFloat Arith.
Import ListNotations.
From SFV Require Import C16.Model.

(* ---- floats ---- *)
Definition fvec (l : list float) : nat -> float := fun i => nth i l 0%float.
Definition fmat (l : list (list float)) : nat -> nat -> float := fun i j => nth j (nth i l []) 0%float.
Definition f1 : float := 1%float.
Definition f0 : float := 0%float.

Definition f_reduced_gaussian (mu : list float) (cov : list (list float)) (n : nat) (modes : list nat) :=
  reduced_gaussian float (fvec mu) (fmat cov) n modes.
Definition f_displacement mu n (is2h : float) modes :=
  displacement float PrimFloat.mul (fvec mu) n is2h modes.
Definition f_mean_photon mu cov n (hbar : float) mode :=
  mean_photon float f0 f1 PrimFloat.add PrimFloat.mul PrimFloat.sub PrimFloat.div (fvec mu) (fmat cov) n hbar mode.
Definition f_quad_expectation mu cov n (c s : float) mode :=
  quad_expectation float f0 PrimFloat.add PrimFloat.mul (fvec mu) (fmat cov) n c s mode.
(* oracle value for G: the harness evaluates numpy's formula on the reduced state of sorted(modes);
   the model decides whether the call answers at all and supplies the prefactor *)
Definition f_parity (mu : list float) (cov : list (list float)) (n : nat) (g : float) (hb2 : float) (modes : list nat) :=
  parity_expectation float f1 PrimFloat.mul (fvec mu) (fmat cov) n (fun _ _ => g) hb2 modes.

(* ---- exact integer tensors ---- *)
Definition ztensor (D : nat) (data : list Z) : tensor Z := fun idx => nth (flatten D idx) data 0%Z.

(* all multi-indices of length N over 0..D-1, row-major order *)
Fixpoint all_idx (D N : nat) : list (list nat) :=
  match N with
  | O => [[]]
  | S N' => flat_map (fun a => map (cons a) (all_idx D N')) (seq 0 D)
  end.

Definition z_all_fock_probs D N data := map (all_fock_probs_mixed Z D N (ztensor D data)) (all_idx D N).
Definition z_fock_prob D N data nidx := fock_prob Z D N (ztensor D data) nidx.
Definition z_trace D N data := trace_mixed Z 0%Z Z.add D N (ztensor D data).
Definition z_reduced_dm D N data modes :=
  match reduced_dm Z 0%Z Z.add D N (ztensor D data) modes with
  | Ok r => Ok (map r (all_idx D (2 * (if list_eqb modes (seq 0 N) then N else length modes))))
  | ValueErr => ValueErr
  | IndexErr => IndexErr
  end.
Definition z_mean_photon D N data mode :=
  mean_photon_fock Z 0%Z Z.add Z.mul Z.of_nat D N (ztensor D data) mode.
Definition z_diag_exp D N data modes (vals : list Z) :=
  diagonal_expectation Z 0%Z Z.add Z.mul D N (ztensor D data) modes (fun a => nth a vals 0%Z).
Definition z_diag_spec D N data modes (vals : list Z) :=
  diag_spec Z 0%Z 1%Z Z.add Z.mul D N (ztensor D data) modes (fun a => nth a vals 0%Z).
Definition z_marginal D N (p : list Z) k := map (marginal Z 0%Z Z.add D N (ztensor D p) k) (seq 0 D).

(* bosonic mixture moments at floats *)
Definition f_bosonic_quad (c s : float) (mode : nat) (comps : list (float * list float * list (list float))) :=
  bosonic_quad float f0 PrimFloat.add PrimFloat.mul PrimFloat.sub c s mode comps.
