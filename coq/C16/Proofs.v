(* C16 — lemmas about C16/Model.v *)
From Coq Require Import List Arith Bool Lia Field Ring.
Import ListNotations.
From SFV Require Import C16.Model.

(* ---------------------------------------------------------------------------------- *)
(* list helpers *)
Lemma list_eqb_eq : forall a b, list_eqb a b = true <-> a = b.
Proof.
  induction a as [|x a IH]; destruct b as [|y b]; simpl; split; intro H; try easy.
  - apply andb_true_iff in H as [H1 H2]. apply Nat.eqb_eq in H1. apply IH in H2. congruence.
  - inversion H; subst. rewrite Nat.eqb_refl. simpl. apply IH. reflexivity.
Qed.

Lemma existsb_ge_false : forall n modes, existsb (fun m => n <=? m) modes = false ->
  forall m, In m modes -> m < n.
Proof.
  intros n modes H m Hin.
  destruct (Nat.lt_ge_cases m n) as [|Hge]; [assumption|].
  assert (existsb (fun m => n <=? m) modes = true).
  { apply existsb_exists. exists m. split; [assumption|]. apply Nat.leb_le. assumption. }
  congruence.
Qed.

Lemma nth_map_in : forall (A B : Type) (f : A -> B) (l : list A) (i : nat) (d : B) (d' : A),
  i < length l -> nth i (map f l) d = f (nth i l d').
Proof.
  intros A B f l. induction l as [|x l IH]; simpl; intros i d d' H; [lia|].
  destruct i; [reflexivity|]. apply IH. lia.
Qed.

Lemma map_add_seq : forall s len a, map (fun m => m + s) (seq a len) = seq (a + s) len.
Proof. intros s len. induction len as [|l IH]; intro a; simpl; [reflexivity|]. f_equal. apply (IH (S a)). Qed.

(* ---------------------------------------------------------------------------------- *)
(* BaseGaussianState.reduced_gaussian answers for exactly the requested modes, in order *)
Section GaussProofs.
  Variable K : Type.
  Variable k0 : K.
  Variables (mu : nat -> K) (cov : nat -> nat -> K) (n : nat).

  Lemma gidx_length : forall modes, length (gidx n modes) = 2 * length modes.
  Proof. intros. unfold gidx. rewrite app_length, map_length. lia. Qed.

  Lemma gidx_nth_lo : forall modes i, i < length modes -> nth i (gidx n modes) 0 = nth i modes 0.
  Proof. intros. unfold gidx. rewrite app_nth1 by assumption. reflexivity. Qed.

  Lemma gidx_nth_hi : forall modes i, i < length modes ->
    nth (length modes + i) (gidx n modes) 0 = nth i modes 0 + n.
  Proof.
    intros. unfold gidx. rewrite app_nth2 by lia.
    replace (length modes + i - length modes) with i by lia.
    rewrite (nth_map_in _ _ _ _ _ _ 0) by assumption. reflexivity.
  Qed.

  Lemma gidx_full : gidx n (seq 0 n) = seq 0 (2 * n).
  Proof.
    unfold gidx. replace (2 * n) with (n + n) by lia. rewrite seq_app. f_equal.
    apply map_add_seq.
  Qed.
End GaussProofs.

(* ---------------------------------------------------------------------------------- *)
Lemma sorted_le_seq : forall len a, sorted_le (seq a len) = true.
Proof.
  induction len as [|l IH]; intro a; [reflexivity|].
  simpl. destruct l as [|l']; [reflexivity|].
  change (seq (S a) (S l')) with (S a :: seq (S (S a)) l') in *.
  apply andb_true_iff. split; [apply Nat.leb_le; lia|]. apply (IH (S a)).
Qed.

(* strictly ascending lists *)
Fixpoint sorted_lt (l : list nat) : bool :=
  match l with
  | [] => true
  | x :: t => match t with [] => true | y :: _ => (x <? y) && sorted_lt t end
  end.

Lemma sorted_lt_tail : forall x t, sorted_lt (x :: t) = true -> sorted_lt t = true.
Proof. intros x [|y t] H; [reflexivity|]. simpl in H. apply andb_true_iff in H. tauto. Qed.

Lemma sorted_lt_all : forall t x, sorted_lt (x :: t) = true -> Forall (fun y => x < y) t.
Proof.
  induction t as [|y t IH]; intros x H; constructor.
  - simpl in H. apply andb_true_iff in H as [H _]. apply Nat.ltb_lt in H. assumption.
  - assert (Hxy : x < y) by (simpl in H; apply andb_true_iff in H as [H _]; apply Nat.ltb_lt in H; assumption).
    pose proof (IH y (sorted_lt_tail _ _ H)) as F.
    eapply Forall_impl; [|exact F]. simpl. intros; lia.
Qed.

Lemma sorted_lt_le : forall l, sorted_lt l = true -> sorted_le l = true.
Proof.
  induction l as [|x t IH]; intro H; [reflexivity|].
  destruct t as [|y t']; [reflexivity|].
  change (sorted_le (x :: y :: t')) with ((x <=? y) && sorted_le (y :: t')).
  pose proof (sorted_lt_tail _ _ H) as Ht.
  simpl in H. apply andb_true_iff in H as [H _]. apply Nat.ltb_lt in H.
  apply andb_true_iff. split; [apply Nat.leb_le; lia|apply IH; assumption].
Qed.

Lemma has_dup_sorted_lt : forall l, sorted_lt l = true -> has_dup l = false.
Proof.
  induction l as [|x t IH]; intro H; [reflexivity|].
  simpl. rewrite (IH (sorted_lt_tail _ _ H)). rewrite orb_false_r.
  pose proof (sorted_lt_all _ _ H) as F. unfold memb.
  destruct (existsb (Nat.eqb x) t) eqn:E; [|reflexivity].
  apply existsb_exists in E as (y & Hy & Exy). apply Nat.eqb_eq in Exy. subst y.
  rewrite Forall_forall in F. specialize (F x Hy). lia.
Qed.

Lemma sort_nat_sorted_lt : forall l, sorted_lt l = true -> sort_nat l = l.
Proof.
  induction l as [|x t IH]; intro H; [reflexivity|].
  unfold sort_nat in *. simpl. rewrite (IH (sorted_lt_tail _ _ H)).
  destruct t as [|y t']; [reflexivity|].
  simpl in H. apply andb_true_iff in H as [H _]. simpl. rewrite H. reflexivity.
Qed.

Lemma sorted_lt_length : forall l a n, sorted_lt l = true -> (forall m, In m l -> a <= m < n) -> length l <= n - a.
Proof.
  induction l as [|x t IH]; intros a n H Hr; simpl; [lia|].
  assert (Hx : a <= x < n) by (apply Hr; left; reflexivity).
  pose proof (sorted_lt_all _ _ H) as F. rewrite Forall_forall in F.
  assert (L : length t <= n - S x).
  { apply IH; [apply (sorted_lt_tail _ _ H)|]. intros m Hm. split; [apply F; assumption|]. apply Hr. right. assumption. }
  lia.
Qed.

Section GaussEntries.
  Variable K : Type.
  Variable k0 : K.
  Variables (mu : nat -> K) (cov : nat -> nat -> K) (n : nat).

  Lemma sel_mu_nth : forall ind a, a < length ind -> vnth K k0 (sel_mu K mu ind) a = mu (nth a ind 0).
  Proof. intros. unfold vnth, sel_mu. apply nth_map_in. assumption. Qed.

  Lemma sel_cov_nth : forall ind a b, a < length ind -> b < length ind ->
    mnth K k0 (sel_cov K cov ind) a b = cov (nth a ind 0) (nth b ind 0).
  Proof.
    intros ind a b Ha Hb. unfold mnth, sel_cov.
    rewrite (nth_map_in _ _ (fun r => map (cov r) ind) ind a [] 0) by assumption.
    apply nth_map_in. assumption.
  Qed.

  (* what a successful call returns, and when *)
  Lemma reduced_gaussian_ok : forall modes rm rc,
    reduced_gaussian K mu cov n modes = Ok (rm, rc) ->
    rm = sel_mu K mu (gidx n modes) /\ rc = sel_cov K cov (gidx n modes)
    /\ sorted_le modes = true /\ (forall m, In m modes -> m < n).
  Proof.
    intros modes rm rc H. unfold reduced_gaussian in H.
    destruct (list_eqb modes (seq 0 n)) eqn:E.
    - apply list_eqb_eq in E. subst modes. inversion H; subst. rewrite gidx_full.
      repeat split; try reflexivity.
      + apply sorted_le_seq.
      + intros m Hm. apply in_seq in Hm. lia.
    - destruct (sorted_le modes) eqn:Es; simpl in H; [|discriminate].
      destruct (n <? length modes); [discriminate|].
      destruct (existsb (fun m => n <=? m) modes) eqn:Ex; [discriminate|].
      inversion H; subst. repeat split; try reflexivity.
      apply existsb_ge_false. assumption.
  Qed.

  (* every entry of the answer is the entry of exactly the requested mode, in the requested order *)
  Lemma reduced_gaussian_entries : forall modes rm rc,
    reduced_gaussian K mu cov n modes = Ok (rm, rc) ->
    let k := length modes in
    length rm = 2 * k /\ length rc = 2 * k /\
    forall i, i < k ->
      vnth K k0 rm i = mu (nth i modes 0) /\
      vnth K k0 rm (k + i) = mu (nth i modes 0 + n) /\
      forall j, j < k ->
        mnth K k0 rc i j = cov (nth i modes 0) (nth j modes 0) /\
        mnth K k0 rc i (k + j) = cov (nth i modes 0) (nth j modes 0 + n) /\
        mnth K k0 rc (k + i) j = cov (nth i modes 0 + n) (nth j modes 0) /\
        mnth K k0 rc (k + i) (k + j) = cov (nth i modes 0 + n) (nth j modes 0 + n).
  Proof.
    intros modes rm rc H k.
    destruct (reduced_gaussian_ok _ _ _ H) as (Hm & Hc & _ & _). subst rm rc.
    assert (L : length (gidx n modes) = 2 * k) by apply gidx_length.
    split; [unfold sel_mu; rewrite map_length; exact L|].
    split; [unfold sel_cov; rewrite map_length; exact L|].
    intros i Hi. fold k in L.
    split; [rewrite sel_mu_nth by lia; rewrite gidx_nth_lo by assumption; reflexivity|].
    split; [rewrite sel_mu_nth by lia; unfold k; rewrite gidx_nth_hi by assumption; reflexivity|].
    intros j Hj.
    repeat split; rewrite sel_cov_nth by lia; unfold k;
      rewrite ?gidx_nth_hi, ?gidx_nth_lo by assumption; reflexivity.
  Qed.

  (* it never answers for a list that is not in ascending order, and never silently re-orders *)
  Lemma reduced_gaussian_unsorted : forall modes,
    sorted_le modes = false -> reduced_gaussian K mu cov n modes = ValueErr.
  Proof.
    intros modes Hs. unfold reduced_gaussian.
    destruct (list_eqb modes (seq 0 n)) eqn:E.
    - apply list_eqb_eq in E. subst. rewrite sorted_le_seq in Hs. discriminate.
    - rewrite Hs. reflexivity.
  Qed.

  (* the check `modes != sorted(modes)` does not reject duplicates although the message says so *)
  Lemma reduced_gaussian_accepts_duplicates : forall m, S m < n ->
    exists r, reduced_gaussian K mu cov n [m; m] = Ok r.
  Proof.
    intros m Hm. unfold reduced_gaussian.
    destruct (list_eqb [m; m] (seq 0 n)) eqn:E.
    - eexists; reflexivity.
    - simpl. rewrite Nat.leb_refl. simpl.
      destruct n as [|[|n']]; try lia.
      replace (S (S n') <? 2) with false by (symmetry; apply Nat.ltb_ge; lia).
      replace (S (S n') <=? m) with false by (symmetry; apply Nat.leb_gt; lia).
      simpl. eexists; reflexivity.
  Qed.

  (* when it answers: ascending, in range, not longer than the register *)
  Lemma reduced_gaussian_when : forall modes,
    sorted_le modes = true -> (forall m, In m modes -> m < n) -> length modes <= n ->
    reduced_gaussian K mu cov n modes = Ok (sel_mu K mu (gidx n modes), sel_cov K cov (gidx n modes)).
  Proof.
    intros modes Hs Hr HL. unfold reduced_gaussian.
    destruct (list_eqb modes (seq 0 n)) eqn:E.
    - apply list_eqb_eq in E. subst modes. rewrite gidx_full. reflexivity.
    - rewrite Hs. simpl.
      replace (n <? length modes) with false by (symmetry; apply Nat.ltb_ge; assumption).
      destruct (existsb (fun m => n <=? m) modes) eqn:Ex; [|reflexivity].
      apply existsb_exists in Ex as (m & Hm & Hge). apply Nat.leb_le in Hge. specialize (Hr m Hm). lia.
  Qed.

  Lemma reduced_gaussian_single : forall k, k < n ->
    reduced_gaussian K mu cov n [k] = Ok (sel_mu K mu [k; k + n], sel_cov K cov [k; k + n]).
  Proof.
    intros k Hk. unfold reduced_gaussian.
    destruct (list_eqb [k] (seq 0 n)) eqn:E.
    - apply list_eqb_eq in E. destruct n as [|[|n']]; simpl in E; try discriminate.
      inversion E; subst. reflexivity.
    - simpl. replace (n <? 1) with false by (symmetry; apply Nat.ltb_ge; lia).
      replace (n <=? k) with false by (symmetry; apply Nat.leb_gt; lia). reflexivity.
  Qed.

  Lemma displacement_entries : forall kmul is2h modes r,
    displacement K kmul mu n is2h modes = Ok r ->
    length r = length modes /\
    forall i, i < length modes ->
      nth i r (k0, k0) = (kmul (mu (nth i modes 0)) is2h, kmul (mu (nth i modes 0 + n)) is2h).
  Proof.
    intros kmul is2h modes r H. unfold displacement in H.
    destruct (existsb (fun m => n <=? m) modes); [discriminate|]. inversion H; subst.
    split; [apply map_length|]. intros i Hi.
    rewrite (nth_map_in _ _ _ modes i (k0, k0) 0) by assumption. reflexivity.
  Qed.
End GaussEntries.

(* ---------------------------------------------------------------------------------- *)
(* cross-method identities over an arbitrary field *)
Section GaussField.
  Variable K : Type.
  Variables (k0 k1 : K) (kadd kmul ksub : K -> K -> K) (kopp : K -> K) (kdiv : K -> K -> K) (kinv : K -> K).
  Hypothesis Kfield : field_theory k0 k1 kadd kmul ksub kopp kdiv kinv eq.
  Add Field Kf : Kfield.
  Local Notation "a + b" := (kadd a b).
  Local Notation "a * b" := (kmul a b).
  Local Notation "a - b" := (ksub a b).
  Local Notation "a / b" := (kdiv a b).
  Local Notation two := (kadd k1 k1).

  Variables (mu : nat -> K) (cov : nat -> nat -> K) (n : nat).

  (* mean_photon(k) is a function of exactly mode k's entries *)
  Lemma mean_photon_value : forall hbar k, k < n ->
    exists var,
    mean_photon K k0 k1 kadd kmul ksub kdiv mu cov n hbar k =
      Ok (((cov k k + cov (k + n)%nat (k + n)%nat) + (mu k * mu k + mu (k + n)%nat * mu (k + n)%nat)) / (two * hbar) - k1 / two, var).
  Proof.
    intros hbar k Hk. unfold mean_photon. rewrite reduced_gaussian_single by assumption.
    eexists. reflexivity.
  Qed.

  (* C16_gauss_photon: on the data GaussianBackend.state() hands over, mean_photon(k) = N_kk + |alpha_k|^2 *)
  Lemma gauss_photon : forall (hbar hb2 s nr mr ar ai : K) k,
    k < n -> hbar <> k0 -> two <> k0 ->
    hb2 * two = hbar -> s * s = hb2 ->
    mu k = bd_x K k1 kadd kmul s ar -> mu (k + n)%nat = bd_p K k1 kadd kmul s ai ->
    cov k k = bd_vxx K k1 kadd kmul hb2 nr mr ->
    cov (k + n)%nat (k + n)%nat = bd_vpp K k1 kadd kmul ksub hb2 nr mr ->
    exists var, mean_photon K k0 k1 kadd kmul ksub kdiv mu cov n hbar k = Ok (nr + (ar * ar + ai * ai), var).
  Proof.
    intros hbar hb2 s nr mr ar ai k Hk Hh H2 Hhb Hs Hx Hp Hxx Hpp.
    destruct (mean_photon_value hbar k Hk) as [var Hv]. exists var. rewrite Hv. f_equal. f_equal.
    rewrite Hx, Hp, Hxx, Hpp. unfold bd_x, bd_p, bd_vxx, bd_vpp. subst hbar.
    assert (Hhb2 : hb2 <> k0).
    { intro Z. apply Hh. rewrite Z. ring. }
    transitivity (((((nr + nr) + (mr + mr) + k1) + ((nr + nr) - (mr + mr) + k1)) * hb2
                   + (two * two) * (ar * ar + ai * ai) * (s * s)) / (two * (hb2 * two)) - k1 / two).
    { field. split; assumption. }
    rewrite Hs. field. split; assumption.
  Qed.

  (* quadrature moments at two orthogonal angles determine the mean photon number: the three
     methods look at the same entries *)
  Lemma quad_photon_consistent : forall hbar c s k m1 v1 m2 v2 mp vp,
    k < n -> c * c + s * s = k1 -> hbar <> k0 -> two <> k0 ->
    quad_expectation K k0 kadd kmul mu cov n c s k = Ok (m1, v1) ->
    quad_expectation K k0 kadd kmul mu cov n (kopp s) c k = Ok (m2, v2) ->
    mean_photon K k0 k1 kadd kmul ksub kdiv mu cov n hbar k = Ok (mp, vp) ->
    mp = ((v1 + v2) + (m1 * m1 + m2 * m2)) / (two * hbar) - k1 / two.
  Proof.
    intros hbar c s k m1 v1 m2 v2 mp vp Hk Hcs Hh H2 Q1 Q2 MP.
    unfold quad_expectation in Q1, Q2. unfold mean_photon in MP.
    rewrite reduced_gaussian_single in Q1, Q2, MP by assumption.
    inversion Q1 as [[A1 A2]]; inversion Q2 as [[B1 B2]]; inversion MP as [[C1 C2]]. clear Q1 Q2 MP C2. subst m1 v1 m2 v2 mp.
    unfold vnth, mnth, sel_mu, sel_cov. simpl.
    set (x := mu k). set (p := mu (k + n)%nat).
    set (a := cov k k). set (b := cov k (k + n)%nat). set (b' := cov (k + n)%nat k). set (d := cov (k + n)%nat (k + n)%nat).
    assert (E1 : ((c * a + s * b') * c + (c * b + s * d) * s) + (((kopp s) * a + c * b') * (kopp s) + ((kopp s) * b + c * d) * c)
                 = (c * c + s * s) * (a + d)) by ring.
    assert (E2 : (c * x + s * p) * (c * x + s * p) + ((kopp s) * x + c * p) * ((kopp s) * x + c * p)
                 = (c * c + s * s) * (x * x + p * p)) by ring.
    rewrite E1, E2, Hcs. field. split; assumption.
  Qed.

  (* parity_expectation(modes) (repaired code): for an ascending duplicate-free in-range list it is the
     Gaussian parity formula applied to the reduced state of exactly those modes *)
  Lemma parity_expectation_subset : forall G hb2 modes,
    sorted_lt modes = true -> (forall m, In m modes -> m < n) ->
    parity_expectation K k1 kmul mu cov n G hb2 modes = Ok (parity_spec K k1 kmul mu cov n G hb2 modes).
  Proof.
    intros G hb2 modes Hs Hr. unfold parity_expectation, parity_spec.
    rewrite (has_dup_sorted_lt _ Hs), (sort_nat_sorted_lt _ Hs).
    rewrite (reduced_gaussian_when K mu cov n modes (sorted_lt_le _ Hs) Hr).
    - reflexivity.
    - pose proof (sorted_lt_length modes 0 n Hs) as L. rewrite Nat.sub_0_r in L. apply L.
      intros m Hm. split; [lia|apply Hr; assumption].
  Qed.

  (* the order in which the modes are listed is irrelevant (parity operators commute) *)
  Lemma parity_expectation_order : forall G hb2 modes1 modes2,
    has_dup modes1 = false -> has_dup modes2 = false ->
    sort_nat modes1 = sort_nat modes2 -> length modes1 = length modes2 ->
    parity_expectation K k1 kmul mu cov n G hb2 modes1 = parity_expectation K k1 kmul mu cov n G hb2 modes2.
  Proof.
    intros G hb2 m1 m2 H1 H2 Hs HL. unfold parity_expectation. rewrite H1, H2, Hs, HL. reflexivity.
  Qed.
End GaussField.

(* ---------------------------------------------------------------------------------- *)
(* BaseBosonicState.quad_expectation: law of total variance for a weighted sum of Gaussians *)
Section BosonicQuadProofs.
  Variable K : Type.
  Variables (k0 k1 : K) (kadd kmul ksub : K -> K -> K) (kopp : K -> K).
  Hypothesis Kring : ring_theory k0 k1 kadd kmul ksub kopp eq.
  Add Ring Kr : Kring.
  Local Notation "a + b" := (kadd a b).
  Local Notation "a * b" := (kmul a b).
  Local Notation "a - b" := (ksub a b).

  Lemma bsum_spread : forall (A : Type) (W Mf Vf : A -> K) (M : K) (l : list A),
    bsum K k0 kadd (map (fun x => W x * (Vf x + (Mf x - M) * (Mf x - M))) l)
    = bsum K k0 kadd (map (fun x => W x * Vf x) l) + bsum K k0 kadd (map (fun x => W x * (Mf x * Mf x)) l)
      - (M + M) * bsum K k0 kadd (map (fun x => W x * Mf x) l) + M * M * bsum K k0 kadd (map W l).
  Proof.
    intros A W Mf Vf M l. induction l as [|x l IH]; simpl.
    - ring.
    - rewrite IH. ring.
  Qed.

  (* the variance returned is  sum_i w_i (v_i + (m_i - mean)^2)  when the weights sum to one:
     it depends on how far apart the component means are *)
  Lemma bosonic_quad_total_variance : forall c s mode (comps : list (bcomp K)),
    bsum K k0 kadd (map (bweight K) comps) = k1 ->
    let mean := fst (bosonic_quad K k0 kadd kmul ksub c s mode comps) in
    snd (bosonic_quad K k0 kadd kmul ksub c s mode comps)
    = bsum K k0 kadd (map (fun cp => bweight K cp * (b_vphi K k0 kadd kmul c s mode cp
          + (b_mphi K k0 kadd kmul c s mode cp - mean) * (b_mphi K k0 kadd kmul c s mode cp - mean))) comps).
  Proof.
    intros c s mode comps Hw mean.
    rewrite (bsum_spread (bcomp K) (bweight K) (b_mphi K k0 kadd kmul c s mode) (b_vphi K k0 kadd kmul c s mode) mean comps).
    rewrite Hw. unfold mean, bosonic_quad. cbn [fst snd]. ring.
  Qed.

  (* the mean is the weighted mean of the component means *)
  Lemma bosonic_quad_mean : forall c s mode (comps : list (bcomp K)),
    fst (bosonic_quad K k0 kadd kmul ksub c s mode comps)
    = bsum K k0 kadd (map (fun cp => bweight K cp * b_mphi K k0 kadd kmul c s mode cp) comps).
  Proof. reflexivity. Qed.
End BosonicQuadProofs.
