(* C16 — lemmas about C16/Model.v *)
From Coq Require Import List Arith Bool Lia Field Ring.
Import ListNotations.
From SFV Require Import C16.Model.

(* ---------------------------------------------------------------------------------- *)
(* list helpers *)
Lemma list_eqb_eq : forall a b, list_eqb a b = true <-> a = b.
Proof.
  induction a as [|x a IH]; destruct b as [|y b]; simpl; split; intro H; try easy.
  - apply andb_true_iff in H as [H1 H2]. apply Nat.eqb_eq in H1. apply IH in H2. congruence.
  - inversion H; subst. rewrite Nat.eqb_refl. simpl. apply IH. reflexivity.
Qed.

Lemma existsb_ge_false : forall n modes, existsb (fun m => n <=? m) modes = false ->
  forall m, In m modes -> m < n.
Proof.
  intros n modes H m Hin.
  destruct (Nat.lt_ge_cases m n) as [|Hge]; [assumption|].
  assert (existsb (fun m => n <=? m) modes = true).
  { apply existsb_exists. exists m. split; [assumption|]. apply Nat.leb_le. assumption. }
  congruence.
Qed.

Lemma nth_map_in : forall (A B : Type) (f : A -> B) (l : list A) (i : nat) (d : B) (d' : A),
  i < length l -> nth i (map f l) d = f (nth i l d').
Proof.
  intros A B f l. induction l as [|x l IH]; simpl; intros i d d' H; [lia|].
  destruct i; [reflexivity|]. apply IH. lia.
Qed.

Lemma map_add_seq : forall s len a, map (fun m => m + s) (seq a len) = seq (a + s) len.
Proof. intros s len. induction len as [|l IH]; intro a; simpl; [reflexivity|]. f_equal. apply (IH (S a)). Qed.

(* ---------------------------------------------------------------------------------- *)
(* BaseGaussianState.reduced_gaussian answers for exactly the requested modes, in order *)
Section GaussProofs.
  Variable K : Type.
  Variable k0 : K.
  Variables (mu : nat -> K) (cov : nat -> nat -> K) (n : nat).

  Lemma gidx_length : forall modes, length (gidx n modes) = 2 * length modes.
  Proof. intros. unfold gidx. rewrite app_length, map_length. lia. Qed.

  Lemma gidx_nth_lo : forall modes i, i < length modes -> nth i (gidx n modes) 0 = nth i modes 0.
  Proof. intros. unfold gidx. rewrite app_nth1 by assumption. reflexivity. Qed.

  Lemma gidx_nth_hi : forall modes i, i < length modes ->
    nth (length modes + i) (gidx n modes) 0 = nth i modes 0 + n.
  Proof.
    intros. unfold gidx. rewrite app_nth2 by lia.
    replace (length modes + i - length modes) with i by lia.
    rewrite (nth_map_in _ _ _ _ _ _ 0) by assumption. reflexivity.
  Qed.

  Lemma gidx_full : gidx n (seq 0 n) = seq 0 (2 * n).
  Proof.
    unfold gidx. replace (2 * n) with (n + n) by lia. rewrite seq_app. f_equal.
    apply map_add_seq.
  Qed.
End GaussProofs.
