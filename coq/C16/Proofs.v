(* C16 — lemmas about C16/Model.v *)
From Coq Require Import List Arith Bool Lia Field Ring.
Import ListNotations.
From SFV Require Import C16.Model.

(* ---------------------------------------------------------------------------------- *)
(* list helpers *)
Lemma list_eqb_eq : forall a b, list_eqb a b = true <-> a = b.
Proof.
  induction a as [|x a IH]; destruct b as [|y b]; simpl; split; intro H; try easy.
  - apply andb_true_iff in H as [H1 H2]. apply Nat.eqb_eq in H1. apply IH in H2. congruence.
  - inversion H; subst. rewrite Nat.eqb_refl. simpl. apply IH. reflexivity.
Qed.

Lemma existsb_ge_false : forall n modes, existsb (fun m => n <=? m) modes = false ->
  forall m, In m modes -> m < n.
Proof.
  intros n modes H m Hin.
  destruct (Nat.lt_ge_cases m n) as [|Hge]; [assumption|].
  assert (existsb (fun m => n <=? m) modes = true).
  { apply existsb_exists. exists m. split; [assumption|]. apply Nat.leb_le. assumption. }
  congruence.
Qed.

Lemma nth_map_in : forall (A B : Type) (f : A -> B) (l : list A) (i : nat) (d : B) (d' : A),
  i < length l -> nth i (map f l) d = f (nth i l d').
Proof.
  intros A B f l. induction l as [|x l IH]; simpl; intros i d d' H; [lia|].
  destruct i; [reflexivity|]. apply IH. lia.
Qed.

Lemma map_add_seq : forall s len a, map (fun m => m + s) (seq a len) = seq (a + s) len.
Proof. intros s len. induction len as [|l IH]; intro a; simpl; [reflexivity|]. f_equal. apply (IH (S a)). Qed.

(* ---------------------------------------------------------------------------------- *)
(* BaseGaussianState.reduced_gaussian answers for exactly the requested modes, in order *)
Section GaussProofs.
  Variable K : Type.
  Variable k0 : K.
  Variables (mu : nat -> K) (cov : nat -> nat -> K) (n : nat).

  Lemma gidx_length : forall modes, length (gidx n modes) = 2 * length modes.
  Proof. intros. unfold gidx. rewrite app_length, map_length. lia. Qed.

  Lemma gidx_nth_lo : forall modes i, i < length modes -> nth i (gidx n modes) 0 = nth i modes 0.
  Proof. intros. unfold gidx. rewrite app_nth1 by assumption. reflexivity. Qed.

  Lemma gidx_nth_hi : forall modes i, i < length modes ->
    nth (length modes + i) (gidx n modes) 0 = nth i modes 0 + n.
  Proof.
    intros. unfold gidx. rewrite app_nth2 by lia.
    replace (length modes + i - length modes) with i by lia.
    rewrite (nth_map_in _ _ _ _ _ _ 0) by assumption. reflexivity.
  Qed.

  Lemma gidx_full : gidx n (seq 0 n) = seq 0 (2 * n).
  Proof.
    unfold gidx. replace (2 * n) with (n + n) by lia. rewrite seq_app. f_equal.
    apply map_add_seq.
  Qed.
End GaussProofs.

(* ---------------------------------------------------------------------------------- *)
Lemma sorted_le_seq : forall len a, sorted_le (seq a len) = true.
Proof.
  induction len as [|l IH]; intro a; [reflexivity|].
  simpl. destruct l as [|l']; [reflexivity|].
  change (seq (S a) (S l')) with (S a :: seq (S (S a)) l') in *.
  apply andb_true_iff. split; [apply Nat.leb_le; lia|]. apply (IH (S a)).
Qed.

Section GaussEntries.
  Variable K : Type.
  Variable k0 : K.
  Variables (mu : nat -> K) (cov : nat -> nat -> K) (n : nat).

  Lemma sel_mu_nth : forall ind a, a < length ind -> vnth K k0 (sel_mu K mu ind) a = mu (nth a ind 0).
  Proof. intros. unfold vnth, sel_mu. apply nth_map_in. assumption. Qed.

  Lemma sel_cov_nth : forall ind a b, a < length ind -> b < length ind ->
    mnth K k0 (sel_cov K cov ind) a b = cov (nth a ind 0) (nth b ind 0).
  Proof.
    intros ind a b Ha Hb. unfold mnth, sel_cov.
    rewrite (nth_map_in _ _ (fun r => map (cov r) ind) ind a [] 0) by assumption.
    apply nth_map_in. assumption.
  Qed.

  (* what a successful call returns, and when *)
  Lemma reduced_gaussian_ok : forall modes rm rc,
    reduced_gaussian K mu cov n modes = Ok (rm, rc) ->
    rm = sel_mu K mu (gidx n modes) /\ rc = sel_cov K cov (gidx n modes)
    /\ sorted_le modes = true /\ (forall m, In m modes -> m < n).
  Proof.
    intros modes rm rc H. unfold reduced_gaussian in H.
    destruct (list_eqb modes (seq 0 n)) eqn:E.
    - apply list_eqb_eq in E. subst modes. inversion H; subst. rewrite gidx_full.
      repeat split; try reflexivity.
      + apply sorted_le_seq.
      + intros m Hm. apply in_seq in Hm. lia.
    - destruct (sorted_le modes) eqn:Es; simpl in H; [|discriminate].
      destruct (n <? length modes); [discriminate|].
      destruct (existsb (fun m => n <=? m) modes) eqn:Ex; [discriminate|].
      inversion H; subst. repeat split; try reflexivity.
      apply existsb_ge_false. assumption.
  Qed.

  (* every entry of the answer is the entry of exactly the requested mode, in the requested order *)
  Lemma reduced_gaussian_entries : forall modes rm rc,
    reduced_gaussian K mu cov n modes = Ok (rm, rc) ->
    let k := length modes in
    length rm = 2 * k /\ length rc = 2 * k /\
    forall i, i < k ->
      vnth K k0 rm i = mu (nth i modes 0) /\
      vnth K k0 rm (k + i) = mu (nth i modes 0 + n) /\
      forall j, j < k ->
        mnth K k0 rc i j = cov (nth i modes 0) (nth j modes 0) /\
        mnth K k0 rc i (k + j) = cov (nth i modes 0) (nth j modes 0 + n) /\
        mnth K k0 rc (k + i) j = cov (nth i modes 0 + n) (nth j modes 0) /\
        mnth K k0 rc (k + i) (k + j) = cov (nth i modes 0 + n) (nth j modes 0 + n).
  Proof.
    intros modes rm rc H k.
    destruct (reduced_gaussian_ok _ _ _ H) as (Hm & Hc & _ & _). subst rm rc.
    assert (L : length (gidx n modes) = 2 * k) by apply gidx_length.
    split; [unfold sel_mu; rewrite map_length; exact L|].
    split; [unfold sel_cov; rewrite map_length; exact L|].
    intros i Hi. fold k in L.
    split; [rewrite sel_mu_nth by lia; rewrite gidx_nth_lo by assumption; reflexivity|].
    split; [rewrite sel_mu_nth by lia; unfold k; rewrite gidx_nth_hi by assumption; reflexivity|].
    intros j Hj.
    repeat split; rewrite sel_cov_nth by lia; unfold k;
      rewrite ?gidx_nth_hi, ?gidx_nth_lo by assumption; reflexivity.
  Qed.

  (* it never answers for a list that is not in ascending order, and never silently re-orders *)
  Lemma reduced_gaussian_unsorted : forall modes,
    sorted_le modes = false -> reduced_gaussian K mu cov n modes = ValueErr.
  Proof.
    intros modes Hs. unfold reduced_gaussian.
    destruct (list_eqb modes (seq 0 n)) eqn:E.
    - apply list_eqb_eq in E. subst. rewrite sorted_le_seq in Hs. discriminate.
    - rewrite Hs. reflexivity.
  Qed.

  (* the check `modes != sorted(modes)` does not reject duplicates although the message says so *)
  Lemma reduced_gaussian_accepts_duplicates : forall m, S m < n ->
    exists r, reduced_gaussian K mu cov n [m; m] = Ok r.
  Proof.
    intros m Hm. unfold reduced_gaussian.
    destruct (list_eqb [m; m] (seq 0 n)) eqn:E.
    - eexists; reflexivity.
    - simpl. rewrite Nat.leb_refl. simpl.
      destruct n as [|[|n']]; try lia.
      replace (S (S n') <? 2) with false by (symmetry; apply Nat.ltb_ge; lia).
      replace (S (S n') <=? m) with false by (symmetry; apply Nat.leb_gt; lia).
      simpl. eexists; reflexivity.
  Qed.

  Lemma reduced_gaussian_single : forall k, k < n ->
    reduced_gaussian K mu cov n [k] = Ok (sel_mu K mu [k; k + n], sel_cov K cov [k; k + n]).
  Proof.
    intros k Hk. unfold reduced_gaussian.
    destruct (list_eqb [k] (seq 0 n)) eqn:E.
    - apply list_eqb_eq in E. destruct n as [|[|n']]; simpl in E; try discriminate.
      inversion E; subst. reflexivity.
    - simpl. replace (n <? 1) with false by (symmetry; apply Nat.ltb_ge; lia).
      replace (n <=? k) with false by (symmetry; apply Nat.leb_gt; lia). reflexivity.
  Qed.

  Lemma displacement_entries : forall kmul is2h modes r,
    displacement K kmul mu n is2h modes = Ok r ->
    length r = length modes /\
    forall i, i < length modes ->
      nth i r (k0, k0) = (kmul (mu (nth i modes 0)) is2h, kmul (mu (nth i modes 0 + n)) is2h).
  Proof.
    intros kmul is2h modes r H. unfold displacement in H.
    destruct (existsb (fun m => n <=? m) modes); [discriminate|]. inversion H; subst.
    split; [apply map_length|]. intros i Hi.
    rewrite (nth_map_in _ _ _ modes i (k0, k0) 0) by assumption. reflexivity.
  Qed.
End GaussEntries.

(* ---------------------------------------------------------------------------------- *)
(* cross-method identities over an arbitrary field *)
Section GaussField.
  Variable K : Type.
  Variables (k0 k1 : K) (kadd kmul ksub : K -> K -> K) (kopp : K -> K) (kdiv : K -> K -> K) (kinv : K -> K).
  Hypothesis Kfield : field_theory k0 k1 kadd kmul ksub kopp kdiv kinv eq.
  Add Field Kf : Kfield.
  Local Notation "a + b" := (kadd a b).
  Local Notation "a * b" := (kmul a b).
  Local Notation "a - b" := (ksub a b).
  Local Notation "a / b" := (kdiv a b).
  Local Notation two := (kadd k1 k1).

  Variables (mu : nat -> K) (cov : nat -> nat -> K) (n : nat).

  (* mean_photon(k) is a function of exactly mode k's entries *)
  Lemma mean_photon_value : forall hbar k, k < n ->
    exists var,
    mean_photon K k0 k1 kadd kmul ksub kdiv mu cov n hbar k =
      Ok (((cov k k + cov (k + n)%nat (k + n)%nat) + (mu k * mu k + mu (k + n)%nat * mu (k + n)%nat)) / (two * hbar) - k1 / two, var).
  Proof.
    intros hbar k Hk. unfold mean_photon. rewrite reduced_gaussian_single by assumption.
    eexists. reflexivity.
  Qed.

  (* C16_gauss_photon: on the data GaussianBackend.state() hands over, mean_photon(k) = N_kk + |alpha_k|^2 *)
  Lemma gauss_photon : forall (hbar hb2 s nr mr ar ai : K) k,
    k < n -> hbar <> k0 -> two <> k0 ->
    hb2 * two = hbar -> s * s = hb2 ->
    mu k = bd_x K k1 kadd kmul s ar -> mu (k + n)%nat = bd_p K k1 kadd kmul s ai ->
    cov k k = bd_vxx K k1 kadd kmul hb2 nr mr ->
    cov (k + n)%nat (k + n)%nat = bd_vpp K k1 kadd kmul ksub hb2 nr mr ->
    exists var, mean_photon K k0 k1 kadd kmul ksub kdiv mu cov n hbar k = Ok (nr + (ar * ar + ai * ai), var).
  Proof.
    intros hbar hb2 s nr mr ar ai k Hk Hh H2 Hhb Hs Hx Hp Hxx Hpp.
    destruct (mean_photon_value hbar k Hk) as [var Hv]. exists var. rewrite Hv. f_equal. f_equal.
    rewrite Hx, Hp, Hxx, Hpp. unfold bd_x, bd_p, bd_vxx, bd_vpp. subst hbar.
    assert (Hhb2 : hb2 <> k0).
    { intro Z. apply Hh. rewrite Z. ring. }
    transitivity (((((nr + nr) + (mr + mr) + k1) + ((nr + nr) - (mr + mr) + k1)) * hb2
                   + (two * two) * (ar * ar + ai * ai) * (s * s)) / (two * (hb2 * two)) - k1 / two).
    { field. split; assumption. }
    rewrite Hs. field. split; assumption.
  Qed.

  (* quadrature moments at two orthogonal angles determine the mean photon number: the three
     methods look at the same entries *)
  Lemma quad_photon_consistent : forall hbar c s k m1 v1 m2 v2 mp vp,
    k < n -> c * c + s * s = k1 -> hbar <> k0 -> two <> k0 ->
    quad_expectation K k0 kadd kmul mu cov n c s k = Ok (m1, v1) ->
    quad_expectation K k0 kadd kmul mu cov n (kopp s) c k = Ok (m2, v2) ->
    mean_photon K k0 k1 kadd kmul ksub kdiv mu cov n hbar k = Ok (mp, vp) ->
    mp = ((v1 + v2) + (m1 * m1 + m2 * m2)) / (two * hbar) - k1 / two.
  Proof.
    intros hbar c s k m1 v1 m2 v2 mp vp Hk Hcs Hh H2 Q1 Q2 MP.
    unfold quad_expectation in Q1, Q2. unfold mean_photon in MP.
    rewrite reduced_gaussian_single in Q1, Q2, MP by assumption.
    inversion Q1 as [[A1 A2]]; inversion Q2 as [[B1 B2]]; inversion MP as [[C1 C2]]. clear Q1 Q2 MP C2. subst m1 v1 m2 v2 mp.
    unfold vnth, mnth, sel_mu, sel_cov. simpl.
    set (x := mu k). set (p := mu (k + n)%nat).
    set (a := cov k k). set (b := cov k (k + n)%nat). set (b' := cov (k + n)%nat k). set (d := cov (k + n)%nat (k + n)%nat).
    assert (E1 : ((c * a + s * b') * c + (c * b + s * d) * s) + (((kopp s) * a + c * b') * (kopp s) + ((kopp s) * b + c * d) * c)
                 = (c * c + s * s) * (a + d)) by ring.
    assert (E2 : (c * x + s * p) * (c * x + s * p) + ((kopp s) * x + c * p) * ((kopp s) * x + c * p)
                 = (c * c + s * s) * (x * x + p * p)) by ring.
    rewrite E1, E2, Hcs. field. split; assumption.
  Qed.

  (* parity_expectation as coded does not look at WHICH modes were requested *)
  Lemma parity_coded_ignores_modes : forall G hb2 modes1 modes2,
    length modes1 = length modes2 -> has_dup modes1 = false -> has_dup modes2 = false ->
    parity_coded K k1 kmul mu cov n G hb2 modes1 = parity_coded K k1 kmul mu cov n G hb2 modes2.
  Proof.
    intros G hb2 m1 m2 HL H1 H2. unfold parity_coded. rewrite H1, H2, HL. reflexivity.
  Qed.
End GaussField.
