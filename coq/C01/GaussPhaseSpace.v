(* C01 (Gaussian simulator vs an independent phase-space calculation): for every update method of
   GaussianModes (model regenerated from the source on every run), the xp read-out of the new state is the
   documented symplectic / affine map applied to the read-out of the old state — all register sizes, all
   target positions, every Hermitian/symmetric (N, M), every parameter value (trig values constrained by
   their identities only). *)
From Coq Require Import Arith Bool List Lia Ring.
Import ListNotations.
From SFV Require Import Base.Num Gen.GaussCirc Base.GaussTac Base.PhaseSpace.

Section PSProofs.
Variable K : Type.
Variables (k0 k1 : K) (kadd kmul ksub : K -> K -> K) (kopp : K -> K).
Hypothesis Kring : ring_theory k0 k1 kadd kmul ksub kopp (@eq K).
Add Ring Kr : Kring.
Notation "x + y" := (kadd x y). Notation "x * y" := (kmul x y). Notation "x - y" := (ksub x y). Notation "- x" := (kopp x).
Definition NK : Num K := mkNum k0 k1 kadd kmul ksub kopp.

Definition hermitian (s : st K) : Prop :=
  (forall i j, i < nlen s -> j < nlen s -> nmat s i j = Cconj NK (nmat s j i)) /\
  (forall i, i < nlen s -> im (nmat s i i) = k0).
Definition symmetric (s : st K) : Prop :=
  forall i j, i < nlen s -> j < nlen s -> mmat s i j = mmat s j i.
Definition wf (s : st K) : Prop := hermitian s /\ symmetric s.

Ltac kopen := lazy beta iota delta [NK re im Cadd Csub Cmul Copp Cconj Cre Cnat Knat C0 C1 Ci C2 n0 n1 nadd nmul nsub nopp
   two kdelta qsum lsum S1 S_rot S_sq S_bs S_scale Bool.eqb].
Ltac norm_in H := lazy beta iota delta [NK re im Cconj nopp nmat mmat mean nlen] in H.

(* use Hermiticity / symmetry: for every hypothesis y <> x, rewrite the re/im parts of N y x and M y x into those of
   N x y and M x y (one consistent orientation; each hypothesis is consumed, so this terminates) *)
Ltac use_wf Hh Hs :=
  repeat match goal with
  | Hne : ?y <> ?x, Hy : ?y < nlen ?s, Hx : ?x < nlen ?s |- _ =>
      let F1 := fresh in let F2 := fresh in let F3 := fresh in let F4 := fresh in
      pose proof (f_equal re (Hh y x Hy Hx)) as F1; norm_in F1;
      pose proof (f_equal im (Hh y x Hy Hx)) as F2; norm_in F2;
      pose proof (f_equal re (Hs y x Hy Hx)) as F3; norm_in F3;
      pose proof (f_equal im (Hs y x Hy Hx)) as F4; norm_in F4;
      rewrite ?F1, ?F2, ?F3, ?F4; clear F1 F2 F3 F4 Hne
  end.

Ltac open_spec := lazy beta iota delta [congr colmix rowmix vmix add_diag rcov rmean mem orb kdelta].

Theorem phase_shift_phase_space er ei k s q1 q2 a b :
  k < nlen s -> a < nlen s -> b < nlen s -> wf s ->
  er * er = k1 - ei * ei ->
  rcov NK (phase_shift NK (mkC er ei) k s) q1 q2 a b = congr NK (S_rot NK er ei) [k] (rcov NK s) q1 q2 a b.
Proof.
  intros Hk Ha Hb [[Hh Hd] Hs] Hph.
  pose proof (Hd k Hk) as Hkk; norm_in Hkk.
  destruct (Nat.eq_dec a k) as [->|Hak]; destruct (Nat.eq_dec b k) as [->|Hbk];
  destruct q1, q2; open_spec; open_gen; idx; kopen; idx; use_wf Hh Hs; rewrite ?Hkk; try ring [Hph].
Qed.

Ltac ps_case Hh Hs Hkk := open_spec; open_gen; idx; kopen; idx; use_wf Hh Hs; rewrite ?Hkk.

Theorem phase_shift_means er ei k s q a :
  rmean NK (phase_shift NK (mkC er ei) k s) q a = vmix NK (S_rot NK er ei) [k] (rmean NK s) q a.
Proof. destruct q; open_spec; open_gen; idx; kopen; ring. Qed.

Theorem squeeze_phase_space er ei sh ch k s q1 q2 a b :
  k < nlen s -> a < nlen s -> b < nlen s -> wf s ->
  er * er = k1 - ei * ei -> ch * ch = k1 + sh * sh ->
  rcov NK (squeeze NK (mkC er ei) sh ch k s) q1 q2 a b = congr NK (S_sq NK er ei sh ch) [k] (rcov NK s) q1 q2 a b.
Proof.
  intros Hk Ha Hb [[Hh Hd] Hs] Hph Hch.
  pose proof (Hd k Hk) as Hkk; norm_in Hkk.
  destruct (Nat.eq_dec a k) as [->|Hak]; destruct (Nat.eq_dec b k) as [->|Hbk];
  destruct q1, q2; ps_case Hh Hs Hkk; ring [Hph Hch].
Qed.

Theorem squeeze_means er ei sh ch k s q a :
  rmean NK (squeeze NK (mkC er ei) sh ch k s) q a = vmix NK (S_sq NK er ei sh ch) [k] (rmean NK s) q a.
Proof. destruct q; open_spec; open_gen; idx; kopen; ring. Qed.

(* displacement by r e^{i phi}: covariance untouched, means shifted by (2 r cos, 2 r sin) on mode k *)
Theorem displace_phase_space r er ei k s q1 q2 a b :
  rcov NK (displace NK r (mkC er ei) k s) q1 q2 a b = rcov NK s q1 q2 a b.
Proof. reflexivity. Qed.

Theorem displace_means r er ei k s q a :
  rmean NK (displace NK r (mkC er ei) k s) q a =
  rmean NK s q a + (if Nat.eqb a k then (if q then (k1 + k1) * (r * ei) else (k1 + k1) * (r * er)) else k0).
Proof. destruct q; open_spec; open_gen; idx; kopen; ring. Qed.

(* loss with transmissivity T = q^2:  V -> X V X^T + Y,  X = q Id, Y = (1 - T) Id on mode k *)
Theorem loss_phase_space qq k s q1 q2 a b :
  k < nlen s -> a < nlen s -> b < nlen s -> wf s ->
  rcov NK (loss NK qq k s) q1 q2 a b
  = add_diag NK (k1 - qq * qq) k (congr NK (S_scale NK qq) [k] (rcov NK s)) q1 q2 a b.
Proof.
  intros Hk Ha Hb [[Hh Hd] Hs].
  pose proof (Hd k Hk) as Hkk; norm_in Hkk.
  destruct (Nat.eq_dec a k) as [->|Hak]; destruct (Nat.eq_dec b k) as [->|Hbk];
  destruct q1, q2; ps_case Hh Hs Hkk; ring.
Qed.

Theorem loss_means qq k s q a :
  rmean NK (loss NK qq k s) q a = vmix NK (S_scale NK qq) [k] (rmean NK s) q a.
Proof. destruct q; open_spec; open_gen; idx; kopen; ring. Qed.

(* thermal loss: Y = (1 - T)(2 nbar + 1) Id *)
Theorem thermal_loss_phase_space T nb qq k s q1 q2 a b :
  k < nlen s -> a < nlen s -> b < nlen s -> wf s -> qq * qq = T ->
  rcov NK (thermal_loss NK T nb qq k s) q1 q2 a b
  = add_diag NK ((k1 - T) * ((k1 + k1) * nb + k1)) k (congr NK (S_scale NK qq) [k] (rcov NK s)) q1 q2 a b.
Proof.
  intros Hk Ha Hb [[Hh Hd] Hs] HT. subst T.
  pose proof (Hd k Hk) as Hkk; norm_in Hkk.
  destruct (Nat.eq_dec a k) as [->|Hak]; destruct (Nat.eq_dec b k) as [->|Hbk];
  destruct q1, q2; ps_case Hh Hs Hkk; ring.
Qed.

(* thermal state preparation: mode k ends in the thermal state (2 p + 1) Id, uncorrelated with the rest *)
Theorem init_thermal_phase_space p k s q1 q2 a b :
  k < nlen s -> a < nlen s -> b < nlen s -> wf s ->
  rcov NK (init_thermal NK p k s) q1 q2 a b
  = if Nat.eqb a k || Nat.eqb b k
    then (if Nat.eqb a k && Nat.eqb b k && Bool.eqb q1 q2 then (k1 + k1) * p + k1 else k0)
    else rcov NK s q1 q2 a b.
Proof.
  intros Hk Ha Hb [[Hh Hd] Hs].
  pose proof (Hd k Hk) as Hkk; norm_in Hkk.
  destruct (Nat.eq_dec a k) as [->|Hak]; destruct (Nat.eq_dec b k) as [->|Hbk];
  destruct q1, q2; ps_case Hh Hs Hkk; try ring; reflexivity.
Qed.

Theorem beamsplitter_means er ei sn cs k l s q a : k <> l ->
  rmean NK (beamsplitter NK (mkC er ei) sn cs k l s) q a = vmix NK (S_bs NK er ei sn cs k l) [k; l] (rmean NK s) q a.
Proof. intros Hkl. destruct q; open_spec; open_gen; idx; kopen; idx; ring. Qed.

Theorem beamsplitter_phase_space er ei sn cs k l s q1 q2 a b :
  k < nlen s -> l < nlen s -> k <> l -> a < nlen s -> b < nlen s -> wf s ->
  er * er = k1 - ei * ei -> cs * cs = k1 - sn * sn ->
  rcov NK (beamsplitter NK (mkC er ei) sn cs k l s) q1 q2 a b
  = congr NK (S_bs NK er ei sn cs k l) [k; l] (rcov NK s) q1 q2 a b.
Proof.
  intros Hk Hl Hkl Ha Hb [[Hh Hd] Hs] Hph Hcs.
  pose proof (Hd k Hk) as Hkk; norm_in Hkk.
  pose proof (Hd l Hl) as Hll; norm_in Hll.
  assert (Hlk : l <> k) by congruence. clear Hkl.
  destruct (Nat.eq_dec a k) as [->|Hak]; [|destruct (Nat.eq_dec a l) as [->|Hal]];
  (destruct (Nat.eq_dec b k) as [->|Hbk]; [|destruct (Nat.eq_dec b l) as [->|Hbl]]);
  destruct q1, q2; open_spec; open_gen; idx; kopen; idx; use_wf Hh Hs; rewrite ?Hkk, ?Hll; ring [Hph Hcs].
Qed.
End PSProofs.
