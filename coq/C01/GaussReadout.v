(* The read-out model Base/PhaseSpace.rcov / rmean (used by every C01 phase-space theorem) IS what
   GaussianModes.scovmatxp / smeanxp compute: the latter are regenerated from gaussiancircuit.py on every run
   (tools/translate_gaussmat.py -> Gen/GaussMat.v) and proved equal to the hand-written read-out entry by entry,
   over any scalar type (no ring law is needed: both sides are the same expression up to unfolding). *)
From Coq Require Import Arith Bool List.
Import ListNotations.
From SFV Require Import Base.Num Base.MatOps Base.PhaseSpace Gen.GaussMat.

Section Readout.
Context {K : Type} (N : Num K).

Theorem scovmatxp_is_rcov (s : st K) q1 q2 a b : scovmatxp N s q1 q2 a b = rcov N s q1 q2 a b.
Proof.
  unfold scovmatxp, rcov, blocks_real, madd, msub, mopp, mscale, mtr, mconj, mid, kdelta.
  destruct q1, q2; cbn [re Cadd Csub]; try reflexivity; destruct (Nat.eqb a b); reflexivity.
Qed.

Theorem smeanxp_is_rmean (s : st K) q a : smeanxp N s q a = rmean N s q a.
Proof. unfold smeanxp, rmean, halves, two. destruct q; reflexivity. Qed.
End Readout.
