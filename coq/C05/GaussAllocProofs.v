(* Allocation and deletion in the Gaussian simulator: the new mode is vacuum and uncorrelated with the rest, the
   old modes keep their state exactly; a deleted mode is left in vacuum, uncorrelated, the others untouched. *)
From Coq Require Import Arith Bool List Lia Ring.
Import ListNotations.
From SFV Require Import Base.Num Gen.GaussCirc Base.GaussTac Base.PhaseSpace Base.GaussAlloc C05.GaussSpectators.

Section AllocProofs.
Variable K : Type.
Variables (k0 k1 : K) (kadd kmul ksub : K -> K -> K) (kopp : K -> K).
Hypothesis Kring : ring_theory k0 k1 kadd kmul ksub kopp (@eq K).
Add Ring Kr : Kring.
Definition NK : Num K := mkNum k0 k1 kadd kmul ksub kopp.

Ltac kopen := lazy beta iota delta [NK re im Cadd Csub Cmul Copp Cconj Cre Cnat Knat C0 C1 Ci C2 n0 n1 nadd nmul nsub nopp two kdelta].
Ltac open_alloc := lazy beta iota zeta delta [add_mode del_mode rcov rmean nlen nmat mmat mean].

Lemma ltb_t a n : a < n -> Nat.ltb a n = true.  Proof. intros; apply Nat.ltb_lt; assumption. Qed.
Lemma ltb_f n : Nat.ltb n n = false.  Proof. apply Nat.ltb_irrefl. Qed.

(* old modes: every covariance and mean entry is unchanged *)
Theorem add_mode_old_cov s q1 q2 a b : a < nlen s -> b < nlen s ->
  rcov NK (add_mode NK s) q1 q2 a b = rcov NK s q1 q2 a b.
Proof.
  intros Ha Hb. destruct q1, q2; open_alloc; idx; reflexivity.
Qed.
Theorem add_mode_old_mean s q a : a < nlen s -> rmean NK (add_mode NK s) q a = rmean NK s q a.
Proof. intros Ha. destruct q; open_alloc; idx; reflexivity. Qed.

(* the new mode (index nlen s): vacuum block, zero mean, zero correlation with every old mode *)
Theorem add_mode_new_block s q1 q2 :
  rcov NK (add_mode NK s) q1 q2 (nlen s) (nlen s) = if Bool.eqb q1 q2 then k1 else k0.
Proof.
  destruct q1, q2; open_alloc; rewrite ?Nat.ltb_irrefl; lazy beta iota delta [andb]; kopen; idx; cbn [Bool.eqb]; ring.
Qed.
Theorem add_mode_new_cross s q1 q2 a : a < nlen s ->
  rcov NK (add_mode NK s) q1 q2 (nlen s) a = k0 /\ rcov NK (add_mode NK s) q1 q2 a (nlen s) = k0.
Proof.
  intros Ha. assert (Hne : a <> nlen s) by lia.
  split; destruct q1, q2; open_alloc; rewrite ?Nat.ltb_irrefl; lazy beta iota delta [andb]; idx; kopen; idx; try ring; try (exfalso; apply Hne; reflexivity).
Qed.
Theorem add_mode_new_mean s q : rmean NK (add_mode NK s) q (nlen s) = k0.
Proof. destruct q; open_alloc; rewrite ?Nat.ltb_irrefl; kopen; ring. Qed.

(* deletion: everything not involving mode k is untouched (instance of the loss spectator theorem) *)
Theorem del_mode_spectators k s : same_off [k] s (del_mode NK k s).
Proof. apply loss_spectators. Qed.
End AllocProofs.
