(* C05 for the Gaussian simulator: every update method of GaussianModes (as regenerated from the
   source by tools/translate_gauss.py) leaves all entries of N, M and alpha that do not involve a
   target mode untouched — for every register size, every target position, every state (no
   Hermiticity or physicality needed) and every parameter value (no trig identities needed). *)
From Coq Require Import Arith Bool List Lia.
Import ListNotations.
From SFV Require Import Base.Num Gen.GaussCirc.

Ltac open_gen :=
  lazy beta iota zeta delta [loss displace squeeze phase_shift beamsplitter thermal_loss init_thermal
    set_nmat set_mmat set_mean set_nmat_row set_mmat_row set_nmat_col set_mmat_col par_nmat par_mmat
    add_all_nmat mem nlen nmat mmat mean].

Ltac kill_eqb :=
  repeat match goal with
  | H : ?a <> ?b |- context [Nat.eqb ?a ?b] => rewrite (proj2 (Nat.eqb_neq a b) H)
  | H : ?b <> ?a |- context [Nat.eqb ?a ?b] => rewrite (proj2 (Nat.eqb_neq a b) (not_eq_sym H))
  end; lazy beta iota delta [andb orb negb].

Section Spect.
Context {K : Type} (N : Num K).

(* the part of the state that does not involve any mode in [tg] is the same in s and s' *)
Definition same_off (tg : list nat) (s s' : st K) : Prop :=

  nlen s' = nlen s /\
  (forall i j, ~ In i tg -> ~ In j tg -> nmat s' i j = nmat s i j /\ mmat s' i j = mmat s i j) /\
  (forall i, ~ In i tg -> mean s' i = mean s i).

Lemma notin1 (i k : nat) : ~ In i [k] -> i <> k.  Proof. simpl; intuition. Qed.
Lemma notin2 (i k l : nat) : ~ In i [k; l] -> i <> k /\ i <> l.  Proof. simpl; intuition. Qed.

Theorem loss_spectators q k s : same_off [k] s (loss N q k s).
Proof.
  split; [reflexivity|split].
  - intros i j Hi Hj; apply notin1 in Hi, Hj. open_gen. kill_eqb. split; reflexivity.
  - intros i Hi; apply notin1 in Hi. open_gen. kill_eqb. reflexivity.
Qed.

Theorem displace_spectators r e k s : same_off [k] s (displace N r e k s).
Proof.
  split; [reflexivity|split].
  - intros i j Hi Hj. open_gen. split; reflexivity.
  - intros i Hi; apply notin1 in Hi. open_gen. kill_eqb. reflexivity.
Qed.

Theorem squeeze_spectators e sh ch k s : same_off [k] s (squeeze N e sh ch k s).
Proof.
  split; [reflexivity|split].
  - intros i j Hi Hj; apply notin1 in Hi, Hj. open_gen. kill_eqb. split; reflexivity.
  - intros i Hi; apply notin1 in Hi. open_gen. kill_eqb. reflexivity.
Qed.

Theorem phase_shift_spectators e k s : same_off [k] s (phase_shift N e k s).
Proof.
  split; [reflexivity|split].
  - intros i j Hi Hj; apply notin1 in Hi, Hj. open_gen. kill_eqb. split; reflexivity.
  - intros i Hi; apply notin1 in Hi. open_gen. kill_eqb. reflexivity.
Qed.

Theorem beamsplitter_spectators e sn cs k l s : same_off [k; l] s (beamsplitter N e sn cs k l s).
Proof.
  split; [reflexivity|split].
  - intros i j Hi Hj; apply notin2 in Hi, Hj. destruct Hi, Hj. open_gen. kill_eqb. split; reflexivity.
  - intros i Hi; apply notin2 in Hi. destruct Hi. open_gen. kill_eqb. reflexivity.
Qed.

Theorem init_thermal_spectators p k s : same_off [k] s (init_thermal N p k s).
Proof.
  split; [reflexivity|split].
  - intros i j Hi Hj; apply notin1 in Hi, Hj. open_gen. kill_eqb. split; reflexivity.
  - intros i Hi; apply notin1 in Hi. open_gen. kill_eqb. reflexivity.
Qed.

Theorem thermal_loss_spectators T nb q k s : same_off [k] s (thermal_loss N T nb q k s).
Proof.
  split; [reflexivity|split].
  - intros i j Hi Hj; apply notin1 in Hi, Hj. open_gen. kill_eqb. split; reflexivity.
  - intros i Hi; apply notin1 in Hi. open_gen. kill_eqb. reflexivity.
Qed.
End Spect.
