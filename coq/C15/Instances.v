(* C15 — the hypotheses of Proofs.v are satisfiable (exact rationals), and the statements the faithful
   model falsifies (recorded findings) are refuted with concrete witnesses. *)
From Coq Require Import List Bool Arith QArith Qcanon Field.
Import ListNotations.
From SFV Require Import C15.Model C15.Proofs.

Definition QcF : Fld Qc :=
  mkFld 0%Qc 1%Qc Qcplus Qcmult Qcminus Qcopp Qcdiv Qcinv (fun x => if Qc_eq_dec x 0%Qc then true else false).

Lemma QcF_field : field_theory (f0 QcF) (f1 QcF) (fadd QcF) (fmul QcF) (fsub QcF) (fopp QcF) (fdiv QcF) (finv QcF) (@eq Qc).
Proof. exact Qcft. Qed.
Lemma QcF_two : two QcF <> f0 QcF.
Proof. discriminate. Qed.
Lemma QcF_three : three QcF <> f0 QcF.
Proof. discriminate. Qed.
Lemma QcF_isz : forall x, fisz QcF x = true <-> x = f0 QcF.
Proof. intro x; simpl. destruct (Qc_eq_dec x 0%Qc); split; intro H; try reflexivity; try assumption; try discriminate; contradiction. Qed.

Definition q (n : Z) : Qc := Q2Qc (inject_Z n).
(* hbar = 2 (the library default) and hbar = 8 *)
Definition ctx2 : hctx Qc := mkH (q 2) (q 1) (q 2).
Definition ctx8 : hctx Qc := mkH (q 8) (q 2) (q 4).
(* hbar = 1/2 *)
Definition ctx_half : hctx Qc := mkH (Q2Qc (1#2)) (Q2Qc (1#2)) (q 1).

Lemma good_ctx2 : good QcF ctx2.
Proof. unfold good; simpl; repeat split; try (apply Qc_is_canon; reflexivity); discriminate. Qed.
Lemma good_ctx8 : good QcF ctx8.
Proof. unfold good; simpl; repeat split; try (apply Qc_is_canon; reflexivity); discriminate. Qed.
Lemma good_ctx_half : good QcF ctx_half.
Proof. unfold good; simpl; repeat split; try (apply Qc_is_canon; reflexivity); discriminate. Qed.
Lemma scaled_2_8 : scaled QcF (q 2) ctx2 ctx8.
Proof. unfold scaled; simpl; repeat split; apply Qc_is_canon; reflexivity. Qed.

(* MSgate(avg=False) BEFORE fix 9dd729a: the ancilla value returned at hbar=8 is not 2x the one at hbar=2 (it is half of it) *)
Lemma msgate_ancilla_old_not_scaled :
  exists (c c' : hctx Qc) (lam v : Qc), good QcF c /\ good QcF c' /\ scaled QcF lam c c' /\
    msgate_result_old QcF c' v <> fmul QcF lam (msgate_result_old QcF c v).
Proof.
  exists ctx2, ctx8, (q 2), (q 1).
  refine (conj good_ctx2 (conj good_ctx8 (conj scaled_2_8 _))).
  vm_compute. discriminate.
Qed.

(* Gaussian parity_expectation on a proper subset of modes BEFORE fix 5603fbf: the prefactor uses len(modes) but the
   determinant is that of the full covariance matrix (N modes) *)
Lemma parity_subset_old_not_invariant :
  exists (c c' : hctx Qc) (lam : Qc) (N m : nat) (numsq detcov : Qc),
    good QcF c /\ good QcF c' /\ scaled QcF lam c c' /\ (m < N)%nat /\ detcov <> f0 QcF /\
    parity_sq_old QcF c' m numsq (fmul QcF (kpow QcF (fmul QcF lam lam) (2 * N)%nat) detcov) <> parity_sq_old QcF c m numsq detcov.
Proof.
  exists ctx2, ctx8, (q 2), 2%nat, 1%nat, (q 1), (q 1).
  refine (conj good_ctx2 (conj good_ctx8 (conj scaled_2_8 (conj _ (conj _ _))))).
  - repeat constructor.
  - discriminate.
  - vm_compute. discriminate.
Qed.

(* is_coherent / is_squeezed / squeezing on a ONE-mode state BEFORE fix 0265ab6 wrote cov / (hbar/2) back into the state *)
Lemma is_coherent_store_old_unchanged_hbar2 (cov : list (list Qc)) : is_coherent_1mode_store_old QcF ctx2 cov = cov.
Proof.
  unfold is_coherent_1mode_store_old. rewrite <- (map_id cov) at 2. apply map_ext; intro row.
  rewrite <- (map_id row) at 2. apply map_ext; intro v. unfold st_dimless_cov. cbn [fdiv QcF hb ctx2].
  assert (E : Qcdiv (q 2) (two QcF) = 1%Qc) by (apply Qc_is_canon; reflexivity).
  rewrite E. unfold Qcdiv. assert (E1 : Qcinv 1 = 1%Qc) by (apply Qc_is_canon; reflexivity). rewrite E1. ring.
Qed.
Lemma is_coherent_store_old_changed :
  exists (c : hctx Qc) (cov : list (list Qc)), good QcF c /\ is_coherent_1mode_store_old QcF c cov <> cov.
Proof.
  exists ctx8, [[q 4; q 0]; [q 0; q 4]]. split; [apply good_ctx8|]. vm_compute. discriminate.
Qed.
