(* C15 — the statements exported to Properties/C15.v, in closed form (all hypotheses explicit). *)
From Coq Require Import List Bool Arith Field.
Import ListNotations.
From SFV Require Import C15.Model C15.Proofs.

Tactic Notation "use" uconstr(lem) := (eapply lem; eassumption).

Section M.
Context {K : Type} (F : Fld K).
Hypothesis FT : field_theory (f0 F) (f1 F) (fadd F) (fmul F) (fsub F) (fopp F) (fdiv F) (finv F) (@eq K).
Hypothesis two_nz : two F <> f0 F.
Hypothesis three_nz : three F <> f0 F.
Hypothesis isz_spec : forall x, fisz F x = true <-> x = f0 F.
Variables (c c' : hctx K) (lam : K).
Hypothesis G : good F c.
Hypothesis G' : good F c'.
Hypothesis L : sh2 c' = fmul F lam (sh2 c).

Let SC : scaled F lam c c' := good_scaled F FT two_nz c c' lam G G' L.

Lemma main_hbar_ratio : fdiv F (hb c') (hb c) = fmul F lam lam.
Proof. use hb_ratio. Qed.

Section Prog.
Variable B : Type.
Variable halfpi : K.
Variable gauss_id : nat.
Variable bk : backend (K:=K) B.

Lemma main_program p b ds :
  run F B halfpi gauss_id c' bk (map (rescale F lam) p) b ds
  = (fst (run F B halfpi gauss_id c bk p b ds),
     map (scale_outcome F lam) (snd (run F B halfpi gauss_id c bk p b ds))).
Proof. use run_rescale. Qed.

Lemma main_means_scale (bk_means : B -> list K) p b ds :
  state_means F c' (bk_means (fst (run F B halfpi gauss_id c' bk (map (rescale F lam) p) b ds)))
  = map (fun v => fmul F lam v) (state_means F c (bk_means (fst (run F B halfpi gauss_id c bk p b ds)))).
Proof.
  rewrite main_program. cbn [fst].
  use state_means_scaled.
Qed.

Lemma main_cov_scale (bk_cov : B -> list (list K)) p b ds :
  state_cov F c' (bk_cov (fst (run F B halfpi gauss_id c' bk (map (rescale F lam) p) b ds)))
  = map (map (fun v => fmul F (fdiv F (hb c') (hb c)) v))
        (state_cov F c (bk_cov (fst (run F B halfpi gauss_id c bk p b ds)))).
Proof.
  rewrite main_program. cbn [fst].
  use state_cov_scaled.
Qed.
End Prog.

Local Notation "a * b" := (fmul F a b).

Lemma main_dimensionless x p vxx vxp vpp ar ai :
  mean_photon_mean F c' (lam * x) (lam * p) (lam * lam * vxx) (lam * lam * vpp) = mean_photon_mean F c x p vxx vpp
  /\ mean_photon_var F c' (lam * x) (lam * p) (lam * lam * vxx) (lam * lam * vxp) (lam * lam * vpp)
     = mean_photon_var F c x p vxx vxp vpp
  /\ st_alpha F c' (lam * x) = st_alpha F c x
  /\ st_dimless_cov F c' (lam * lam * vxx) = st_dimless_cov F c vxx
  /\ (fid_det F c vxx vxp vpp <> f0 F ->
      fid_prefsq F c' (lam * lam * vxx) (lam * lam * vxp) (lam * lam * vpp) = fid_prefsq F c vxx vxp vpp
      /\ fid_expo F c' ar ai (lam * x) (lam * p) (lam * lam * vxx) (lam * lam * vxp) (lam * lam * vpp)
         = fid_expo F c ar ai x p vxx vxp vpp).
Proof.
  split; [use mean_photon_mean_invariant|].
  split; [use mean_photon_var_invariant|].
  split; [use st_alpha_invariant|].
  split; [use st_dimless_cov_invariant|].
  intro Hd. split.
  - use fid_prefsq_invariant.
  - use fid_expo_invariant.
Qed.

Lemma main_bosonic l N detsum :
  bos_mean_photon F c' (map (fun t => match t with (w, tr, dot) => (w, lam * lam * tr, lam * lam * dot) end) l)
  = bos_mean_photon F c l
  /\ (detsum <> f0 F -> bos_fid_prefsq F c' N (kpow F (lam * lam) (2 * N) * detsum) = bos_fid_prefsq F c N detsum).
Proof.
  split; [use bos_mean_photon_invariant|]. intro Hd. use bos_fid_prefsq_invariant.
Qed.

(* n applications of ONE operation object: the object keeps its value and the backend receives, every time, the
   number it receives in the other convention *)
Lemma main_reapply n x g sel :
  op_apply_n (xgate_r F c') (lam * x) n = (lam * x, repeat (xgate_r F c x) n)
  /\ op_apply_n (vgate_gamma F c') (fdiv F g lam) n = (fdiv F g lam, repeat (vgate_gamma F c g) n)
  /\ op_apply_n (homodyne_select F c') (lam * sel) n = (lam * sel, repeat (homodyne_select F c sel) n).
Proof.
  rewrite !op_apply_n_repeat.
  replace (xgate_r F c' (lam * x)) with (xgate_r F c x) by (symmetry; use xgate_r_scaled).
  replace (vgate_gamma F c' (fdiv F g lam)) with (vgate_gamma F c g) by (symmetry; use vgate_gamma_scaled).
  replace (homodyne_select F c' (lam * sel)) with (homodyne_select F c sel) by (symmetry; use homodyne_select_scaled).
  repeat split.
Qed.

Lemma main_parity N numsq detcov :
  detcov <> f0 F ->
  parity_sq F c' N numsq (kpow F (lam * lam) (2 * N) * detcov) = parity_sq F c N numsq detcov.
Proof. use parity_sq_invariant. Qed.

Lemma main_quadratures cphi sphi x p vxx vxp vpp l Q w a e :
  st_mu F c' x = lam * st_mu F c x
  /\ st_cov F c' vxx = fdiv F (hb c') (hb c) * st_cov F c vxx
  /\ quad_mean F cphi sphi (lam * x) (lam * p) = lam * quad_mean F cphi sphi x p
  /\ quad_var F cphi sphi (lam * lam * vxx) (lam * lam * vxp) (lam * lam * vpp) = lam * lam * quad_var F cphi sphi vxx vxp vpp
  /\ fock_quad_mean F c' cphi sphi l = lam * fock_quad_mean F c cphi sphi l
  /\ fock_quad_var F c' cphi sphi l Q = lam * lam * fock_quad_var F c cphi sphi l Q
  /\ wigner_A F c' (lam * x) = wigner_A F c x
  /\ lam * lam * wigner_out F c' w = wigner_out F c w
  /\ util_mean F c' a = lam * util_mean F c a
  /\ util_cov F c' e = lam * lam * util_cov F c e
  /\ homodyne_result F c' w = lam * homodyne_result F c w.
Proof.
  split; [use st_mu_scaled|].
  split; [use st_cov_scaled|].
  split; [use quad_mean_scaled|].
  split; [use quad_var_scaled|].
  split; [use fock_quad_mean_scaled|].
  split; [use fock_quad_var_scaled|].
  split; [use wigner_A_invariant|].
  split; [use wigner_out_scaled|].
  split; [use util_mean_scaled|].
  split; [use util_cov_scaled|].
  use homodyne_result_scaled.
Qed.

Lemma main_frontend_args x g sel csq :
  xgate_r F c' (lam * x) = xgate_r F c x
  /\ zgate_r F c' (lam * x) = zgate_r F c x
  /\ vgate_gamma F c' (fdiv F g lam) = vgate_gamma F c g
  /\ homodyne_internal F c' csq (lam * sel) = homodyne_internal F c csq sel
  /\ (forall V, gauss_V F c' (map (map (fun v => lam * lam * v)) V) = gauss_V F c V)
  /\ (forall r, gauss_r F c' (map (fun v => lam * v) r) = gauss_r F c r).
Proof.
  split; [use xgate_r_scaled|].
  split; [use zgate_r_scaled|].
  split; [use vgate_gamma_scaled|].
  split; [use homodyne_internal_invariant|].
  split; [use gauss_V_scaled|].
  use gauss_r_scaled.
Qed.
End M.

Lemma main_is_coherent_store_unchanged {K : Type} (c : hctx K) (cov : list (list K)) :
  is_coherent_1mode_store c cov = cov.
Proof. reflexivity. Qed.

Section One.
Context {K : Type} (F : Fld K).
Hypothesis FT : field_theory (f0 F) (f1 F) (fadd F) (fmul F) (fsub F) (fopp F) (fdiv F) (finv F) (@eq K).
Hypothesis two_nz : two F <> f0 F.
Hypothesis three_nz : three F <> f0 F.
Variable c : hctx K.
Hypothesis G : good F c.

(* documented units hold exactly in every convention *)
Lemma main_units_exact x sel v m u g csq :
  csq <> f0 F ->
  xgate_shift F c (two F) (f1 F) x = x
  /\ zgate_shift F c (two F) (f1 F) x = x
  /\ homodyne_roundtrip F c csq sel = sel
  /\ gauss_roundtrip_cov F c v = v
  /\ gauss_roundtrip_mean F c m = m
  /\ bk_disp_dx F (xgate_r F c u) (f1 F) = fdiv F u (sh2 c)
  /\ cubic_coeff F (vgate_gamma F c g) (two F) (f1 F) = cubic_coeff_doc F c g.
Proof.
  intro Hc.
  split; [use xgate_shift_exact|].
  split; [use zgate_shift_exact|].
  split; [use homodyne_roundtrip_exact|].
  split; [use gauss_roundtrip_cov_exact|].
  split; [use gauss_roundtrip_mean_exact|].
  split; [use gauss_decomp_matches_direct|].
  use cubic_coeff_exact.
Qed.
End One.
