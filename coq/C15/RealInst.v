(* C15 — the hypotheses of the theorems hold over the real numbers with the real square root, for EVERY
   hbar > 0 (depends on the standard library's axioms of the reals; nothing else here does). *)
From Coq Require Import Reals RealField Lra List Bool.
From SFV Require Import C15.Model C15.Proofs.
Local Open Scope R_scope.

Definition RF : Fld R :=
  mkFld 0 1 Rplus Rmult Rminus Ropp Rdiv Rinv (fun x => if Req_EM_T x 0 then true else false).

(* hb = hbar, sh2 = sqrt(hbar/2), sq2h = sqrt(2 hbar): exactly the three numbers the Python computes *)
Definition real_ctx (h : R) : hctx R := mkH h (sqrt (h / 2)) (sqrt (2 * h)).

Lemma RF_field : field_theory (f0 RF) (f1 RF) (fadd RF) (fmul RF) (fsub RF) (fopp RF) (fdiv RF) (finv RF) (@eq R).
Proof. exact Rfield. Qed.
Lemma RF_two : two RF <> f0 RF.
Proof. unfold two; simpl. lra. Qed.
Lemma RF_three : three RF <> f0 RF.
Proof. unfold three, two; simpl. lra. Qed.
Lemma RF_isz : forall x, fisz RF x = true <-> x = f0 RF.
Proof. intro x; simpl. destruct (Req_EM_T x 0); split; intro H; try reflexivity; try assumption; try discriminate; contradiction. Qed.

Lemma real_ctx_good h : 0 < h -> good RF (real_ctx h).
Proof.
  intro Hh. unfold good, real_ctx, two; simpl. repeat split.
  - rewrite sqrt_sqrt by lra. unfold Rdiv. replace (1 + 1) with 2 by lra. reflexivity.
  - replace (2 * h) with ((2 * 2) * (h / 2)) by field.
    rewrite sqrt_mult by lra. rewrite sqrt_square by lra. replace (1 + 1) with 2 by lra. reflexivity.
  - apply Rgt_not_eq. apply sqrt_lt_R0. lra.
Qed.

Lemma real_ctx_scale h h' : 0 < h -> 0 < h' ->
  sh2 (real_ctx h') = fmul RF (sqrt (h' / h)) (sh2 (real_ctx h)).
Proof.
  intros Hh Hh'. simpl. rewrite <- sqrt_mult.
  - f_equal. field. lra.
  - apply Rlt_le. apply Rdiv_lt_0_compat; assumption.
  - lra.
Qed.

Lemma real_instance h h' : 0 < h -> 0 < h' ->
  field_theory (f0 RF) (f1 RF) (fadd RF) (fmul RF) (fsub RF) (fopp RF) (fdiv RF) (finv RF) (@eq R)
  /\ two RF <> f0 RF /\ three RF <> f0 RF /\ (forall x, fisz RF x = true <-> x = f0 RF)
  /\ good RF (real_ctx h) /\ good RF (real_ctx h')
  /\ sh2 (real_ctx h') = fmul RF (sqrt (h' / h)) (sh2 (real_ctx h)).
Proof.
  intros Hh Hh'.
  exact (conj RF_field (conj RF_two (conj RF_three (conj RF_isz
        (conj (real_ctx_good h Hh) (conj (real_ctx_good h' Hh') (real_ctx_scale h h' Hh Hh'))))))).
Qed.
