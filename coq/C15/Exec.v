(* Executable instance of the C15 model at primitive binary64 floats (used only by correspondence cases). *)
From Coq Require Import PrimFloat List.
Import ListNotations.
From SFV Require Import C15.Model.

Definition FF : Fld float :=
  mkFld 0%float 1%float PrimFloat.add PrimFloat.mul PrimFloat.sub PrimFloat.opp PrimFloat.div
        (fun x => PrimFloat.div 1%float x) (fun x => PrimFloat.eqb x 0%float).

(* a concrete recording backend: the state is the log of API calls (most recent first) *)
Inductive call :=
| CFree (id : nat) (ps : list float) (ms : list nat)
| CDisp (r phi : float) (k : nat)
| CCubic (g : float) (k : nat)
| CPrep (r : list float) (V : list (list float)) (ms : list nat)
| CHomo (phi : float) (k : nat) (sel : option float)
| CMS (ps : list float) (k : nat).

Definition rec_backend : backend (K:=float) (list call) :=
  mkBk (list call)
    (fun id ps ms b => CFree id ps ms :: b)
    (fun r phi k b => CDisp r phi k :: b)
    (fun g k b => CCubic g k :: b)
    (fun r V ms b => CPrep r V ms :: b)
    (fun phi k sel d b => (CHomo phi k sel :: b, match sel with Some s => bk_homodyne_ret FF 2%float (bk_homodyne_val FF 2%float s) | None => d end))
    (fun ps k d b => (CMS ps k :: b, d)).

Definition run_rec (c : hctx float) (halfpi : float) (p : list (op (K:=float))) (ds : list float) :=
  let (b, outs) := run FF (list call) halfpi 99 c rec_backend p [] ds in (rev b, outs).
