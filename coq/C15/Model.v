(* C15 — model of every place where the front-end value sf.hbar enters a computation.

   Definitions only.  Everything is parametric in a record [Fld K] of field operations, so the same
   definition is (a) reasoned about over an arbitrary field (Proofs.v, with [field_theory] as a Section
   hypothesis) and (b) executed at binary64 floats (Exec.v) against the implementation.

   Python's calls of np.sqrt are *named inputs*: an [hctx] carries
        hb   = sf.hbar            sh2 = np.sqrt(sf.hbar / 2)        sq2h = np.sqrt(2 * sf.hbar)
   and the theorems assume the identities these values satisfy over the reals (sh2*sh2 = hb/2,
   sq2h = 2*sh2, sh2 <> 0).  Vectors / matrices are lists (row-major lists of rows).

   Source anchors (strawberryfields/...):
     ops.py            Xgate._decompose, Zgate._decompose, Vgate._apply, Gaussian.__init__/_apply/_decompose,
                       MeasureHomodyne._apply, MSgate._apply
     backends/gaussianbackend/backend.py, bosonicbackend/backend.py   measure_homodyne (select scaling), state()
     backends/fockbackend/ops.py cubicPhase, circuit.py measure_homodyne (alpha = sample*sqrt(1/(2*hbar)))
     backends/states.py BaseGaussianState.__init__, displacement, is_coherent, mean_photon, quad_expectation,
                       fidelity_coherent, parity_expectation; BaseFockState.quad_expectation, wigner;
                       BaseBosonicState.__init__, mean_photon
     utils/states.py   coherent_state / squeezed_cov (basis="gaussian") *)
From Coq Require Import List Bool Arith.
Import ListNotations.

Record Fld (K : Type) := mkFld {
  f0 : K; f1 : K; fadd : K -> K -> K; fmul : K -> K -> K; fsub : K -> K -> K; fopp : K -> K;
  fdiv : K -> K -> K; finv : K -> K;
  fisz : K -> bool   (* Python's `u != 0` is [negb (fisz u)] *) }.
Arguments mkFld {K}. Arguments f0 {K}. Arguments f1 {K}. Arguments fadd {K}. Arguments fmul {K}.
Arguments fsub {K}. Arguments fopp {K}. Arguments fdiv {K}. Arguments finv {K}. Arguments fisz {K}.

Declare Scope fld_scope.
Delimit Scope fld_scope with fld.

Set Primitive Projections.
Record hctx (K : Type) := mkH { hb : K; sh2 : K; sq2h : K }.
Unset Primitive Projections.
Arguments mkH {K}. Arguments hb {K}. Arguments sh2 {K}. Arguments sq2h {K}.

Section Model.
Context {K : Type} (F : Fld K).
Local Notation "0" := (f0 F) : fld_scope.
Local Notation "1" := (f1 F) : fld_scope.
Local Infix "+" := (fadd F) : fld_scope.
Local Infix "*" := (fmul F) : fld_scope.
Local Infix "-" := (fsub F) : fld_scope.
Local Infix "/" := (fdiv F) : fld_scope.
Local Notation "- x" := (fopp F x) : fld_scope.
Local Open Scope fld_scope.

Definition two : K := 1 + 1.
Definition three : K := two + 1.
Definition four : K := two + two.
Definition half : K := 1 / two.
Definition quarter : K := 1 / four.

Fixpoint kpow (x : K) (n : nat) : K := match n with O => 1 | S m => x * kpow x m end.
Fixpoint ksum (l : list K) : K := match l with [] => 0 | x :: l' => x + ksum l' end.

(* ------------------------------------------------------------------------------------------------ *)
(* ops.py : the front end turns hbar-dependent user parameters into hbar-free backend arguments        *)

(* Xgate._decompose: r = self.p[0] / np.sqrt(2 * sf.hbar); Dgate(r, 0) *)
Definition xgate_r (c : hctx K) (x : K) : K := x / sq2h c.
(* Zgate._decompose: r = self.p[0] / np.sqrt(2 * sf.hbar); Dgate(r, np.pi / 2) *)
Definition zgate_r (c : hctx K) (p : K) : K := p / sq2h c.
(* Vgate._apply: gamma_prime = self.p[0] * np.sqrt(sf.hbar / 2) *)
Definition vgate_gamma (c : hctx K) (g : K) : K := g * sh2 c.
(* Gaussian.__init__: V = V / (sf.hbar / 2) *)
Definition gauss_V (c : hctx K) (V : list (list K)) : list (list K) := map (map (fun v => v / (hb c / two))) V.
(* Gaussian._apply: backend.prepare_gaussian_state(p[1] / s, p[0], reg) with s = np.sqrt(sf.hbar / 2) *)
Definition gauss_r (c : hctx K) (r : list K) : list K := map (fun v => v / sh2 c) r.
(* MeasureHomodyne._apply: select = select / s ; return s * backend.measure_homodyne(...) *)
Definition homodyne_select (c : hctx K) (sel : K) : K := sel / sh2 c.
Definition homodyne_result (c : hctx K) (v : K) : K := sh2 c * v.
(* MSgate._apply (avg=False): return ancillae_val * s   (since fix 9dd729a) *)
Definition msgate_result (c : hctx K) (v : K) : K := sh2 c * v.
(* before the fix: return ancillae_val / s *)
Definition msgate_result_old (c : hctx K) (v : K) : K := v / sh2 c.

(* ------------------------------------------------------------------------------------------------ *)
(* back ends: internal convention hbar = 2 (self.circuit.hbar / self._hbar), kept as parameters
   chb = circuit.hbar, csq = np.sqrt(2 * circuit.hbar)                                                 *)

(* gaussian/bosonic measure_homodyne: val = select * 2 / sqrt(2 * hbar);  return qs * sqrt(2 * hbar) / 2 *)
Definition bk_homodyne_val (csq sel2 : K) : K := sel2 * two / csq.
Definition bk_homodyne_ret (csq qs : K) : K := qs * csq / two.
(* GaussianBackend.state(): means *= sqrt(2 * hbar) / 2 ; covmat *= hbar / 2 *)
Definition bk_state_mean (csq m : K) : K := m * (csq / two).
Definition bk_state_cov (chb v : K) : K := v * (chb / two).
(* GaussianModes.displace + smean: alpha_k += r e^{i phi}; the hbar=2 mean vector holds (2 Re alpha, 2 Im alpha) *)
Definition bk_disp_dx (r cphi : K) : K := two * (r * cphi).
Definition bk_disp_dp (r sphi : K) : K := two * (r * sphi).
(* fockbackend/ops.py cubicPhase(gamma, hbar, trunc): x = (a + a^T) * sqrt(hbar / 2);
   exp(1j * gamma / (3 * hbar) * x^3)  -> coefficient of (a + a^T)^3 in the exponent (times i) *)
Definition cubic_coeff (gamma chb csh2 : K) : K := gamma / (three * chb) * (csh2 * csh2 * csh2).
(* the documented gate V(g) = exp(i g/(3 hbar) x^3) with x = sh2 (a + a^T): same coefficient in terms of a + a^T *)
Definition cubic_coeff_doc (c : hctx K) (g : K) : K := g / (three * hb c) * (sh2 c * sh2 c * sh2 c).
(* fockbackend/circuit.py measure_homodyne: alpha = homodyne_sample * sqrt(m_omega_over_hbar / 2), m_omega_over_hbar = 1/_hbar *)
Definition fock_homodyne_alpha (sq_inv_2chb sample : K) : K := sample * sq_inv_2chb.

(* ------------------------------------------------------------------------------------------------ *)
(* states.py : state objects rescale the hbar = 2 backend data with sf.hbar                           *)

(* BaseGaussianState.__init__ / BaseBosonicState.__init__ *)
Definition st_mu (c : hctx K) (m2 : K) : K := m2 * sh2 c.
Definition st_cov (c : hctx K) (v2 : K) : K := v2 * (hb c / two).
(* self._alpha = (mu_x + 1j mu_p) / np.sqrt(2 * hbar): one component *)
Definition st_alpha (c : hctx K) (m : K) : K := m / sq2h c.
(* is_coherent / is_squeezed / squeezing: cov /= hbar / 2 *)
Definition st_dimless_cov (c : hctx K) (v : K) : K := v / (hb c / two).

(* is_coherent(mode) / is_squeezed(mode) / squeezing() on a state with ONE mode: reduced_gaussian([0]) returns
   self._cov itself (modes == list(range(self._modes))).  Since fix 0265ab6 the queries compute
   `cov = cov / (self._hbar / 2)` on a new array, so the state's stored covariance matrix afterwards is: *)
Definition is_coherent_1mode_store (c : hctx K) (cov : list (list K)) : list (list K) := cov.
(* before the fix: `cov /= self._hbar / 2` divided the stored matrix in place *)
Definition is_coherent_1mode_store_old (c : hctx K) (cov : list (list K)) : list (list K) :=
  map (map (st_dimless_cov c)) cov.

(* mean_photon(mode): mu, cov of the reduced single mode in hbar units *)
Definition mean_photon_mean (c : hctx K) (x p vxx vpp : K) : K :=
  (vxx + vpp + (x * x + p * p)) / (two * hb c) - half.
Definition mean_photon_var (c : hctx K) (x p vxx vxp vpp : K) : K :=
  ((vxx * vxx + two * (vxp * vxp) + vpp * vpp) + two * (x * x * vxx + two * (x * p * vxp) + p * p * vpp))
  / (two * (hb c * hb c)) - quarter.

(* BaseBosonicState.mean_photon(mode): mean = sum_i w_i (tr cov_i + mu_i . mu_i) / (2 hbar) - 1/2 over the
   Gaussians of the linear combination; entries of l: (w_i, tr cov_i, mu_i . mu_i) in hbar units *)
Definition bos_terms (l : list (K * K * K)) : list K :=
  map (fun t => match t with (w, tr, dot) => w * (tr + dot) end) l.
Definition bos_mean_photon (c : hctx K) (l : list (K * K * K)) : K :=
  ksum (bos_terms l) / (two * hb c) - half.
(* BaseBosonicState.fidelity_coherent prefactor hbar ** len(modes) against sqrt(det(cov + hbar/2 I)) (2N x 2N): squared *)
Definition bos_fid_prefsq (c : hctx K) (N : nat) (detsum : K) : K := kpow (hb c) (2 * N) / detsum.

(* quad_expectation(mode, phi): rot = [[c,-s],[s,c]]; muphi = rot^T mu; covphi = rot^T cov rot *)
Definition quad_mean (cphi sphi x p : K) : K := cphi * x + sphi * p.
Definition quad_var (cphi sphi vxx vxp vpp : K) : K :=
  cphi * cphi * vxx + two * (cphi * sphi * vxp) + sphi * sphi * vpp.

(* fidelity_coherent([alpha]) for one mode: target mu = (Re a, Im a) * sqrt(2 hbar), cov = hbar/2 I.
   F = sqrt(prefsq) * exp(expo) *)
Definition fid_target_mu (c : hctx K) (a : K) : K := a * sq2h c.
Definition fid_target_cov (c : hctx K) : K := hb c / two.
Definition fid_det (c : hctx K) (vxx vxp vpp : K) : K :=
  (vxx + hb c / two) * (vpp + hb c / two) - vxp * vxp.
Definition fid_prefsq (c : hctx K) (vxx vxp vpp : K) : K := hb c * hb c / fid_det c vxx vxp vpp.
Definition fid_expo (c : hctx K) (ar ai x p vxx vxp vpp : K) : K :=
  let dx := x - fid_target_mu c ar in
  let dp := p - fid_target_mu c ai in
  - (half * ((dx * dx * (vpp + hb c / two) - two * (dx * dp * vxp) + dp * dp * (vxx + hb c / two))
             / fid_det c vxx vxp vpp)).

(* parity_expectation(modes) (Gaussian): mu, cov = reduced_gaussian(sorted(modes));
   ((hbar/2) ** len(modes)) * num / sqrt(det(cov)),  squared;  m = len(modes), detcov the determinant of the
   2m x 2m reduced covariance matrix (since fix 5603fbf) *)
Definition parity_sq (c : hctx K) (m : nat) (numsq detcov : K) : K :=
  kpow (hb c / two) (2 * m) * numsq / detcov.
(* before the fix the same prefactor was divided by the determinant of the FULL 2N x 2N covariance matrix *)
Definition parity_sq_old (c : hctx K) (m : nat) (numsq detfull : K) : K :=
  kpow (hb c / two) (2 * m) * numsq / detfull.

(* BaseFockState.quad_expectation: x = sh2 (a + a^T), p = -i sh2 (a - a^T);
   mean = Re tr(x_phi rho) = 2 sh2 sum_n sqrt(n+1) (c Re rho[n,n+1] - s Im rho[n,n+1]);
   entries of l: (sqrt(n+1), Re rho[n,n+1], Im rho[n,n+1]) *)
Definition fock_quad_terms (cphi sphi : K) (l : list (K * K * K)) : list K :=
  map (fun t => match t with (sq, a, b) => sq * (cphi * a - sphi * b) end) l.
Definition fock_quad_mean (c : hctx K) (cphi sphi : K) (l : list (K * K * K)) : K :=
  two * sh2 c * ksum (fock_quad_terms cphi sphi l).
(* second moment: tr(x_phi^2 rho) = sh2^2 * Q with Q = tr((a_phi + a_phi^dagger)^2 rho) hbar-free *)
Definition fock_quad_var (c : hctx K) (cphi sphi : K) (l : list (K * K * K)) (Q : K) : K :=
  sh2 c * sh2 c * Q - fock_quad_mean c cphi sphi l * fock_quad_mean c cphi sphi l.
(* BaseFockState.wigner: A = (Q + iP) / (2 sqrt(hbar/2)); return W / hbar *)
Definition wigner_A (c : hctx K) (q : K) : K := q / (two * sh2 c).
Definition wigner_out (c : hctx K) (w : K) : K := w / hb c.

(* utils/states.py (basis="gaussian"): means = (Re a, Im a) * sqrt(2 hbar); cov = diag(e^{-2r}, e^{2r}) * hbar / 2 (then rotated) *)
Definition util_mean (c : hctx K) (a : K) : K := a * sq2h c.
Definition util_cov (c : hctx K) (e : K) : K := e * hb c / two.

(* ------------------------------------------------------------------------------------------------ *)
(* whole pipelines for one quantity (front end -> backend at hbar=2 -> state object)                  *)

(* x-mean shift produced by Xgate(x): displacement(r,0) adds 2 r cos0 to the hbar=2 mean, state() and
   BaseGaussianState rescale it *)
Definition xgate_shift (c : hctx K) (csq cos0 x : K) : K :=
  st_mu c (bk_state_mean csq (bk_disp_dx (xgate_r c x) cos0)).
Definition zgate_shift (c : hctx K) (csq sin90 p : K) : K :=
  st_mu c (bk_state_mean csq (bk_disp_dp (zgate_r c p) sin90)).
(* value reported for a post-selected homodyne: front end divides, backend converts forth and back, front end multiplies *)
Definition homodyne_roundtrip (c : hctx K) (csq sel : K) : K :=
  homodyne_result c (bk_homodyne_ret csq (bk_homodyne_val csq (homodyne_select c sel))).
(* the value the backend conditions on (internal units) *)
Definition homodyne_internal (c : hctx K) (csq sel : K) : K := bk_homodyne_val csq (homodyne_select c sel).
(* Gaussian(V, r) prepared directly, read back through the state object *)
Definition gauss_roundtrip_cov (c : hctx K) (v : K) : K := st_cov c (v / (hb c / two)).
Definition gauss_roundtrip_mean (c : hctx K) (m : K) : K := st_mu c (m / sh2 c).

(* ------------------------------------------------------------------------------------------------ *)
(* programs over an abstract hbar-free backend                                                        *)
Section Prog.
Variable B : Type.   (* everything the simulator stores, in its fixed internal convention *)

(* the backend API as the front end sees it: functions of hbar-free arguments only *)
Record backend := mkBk {
  bk_free : nat -> list K -> list nat -> B -> B;                    (* any call whose arguments carry no hbar: op id, dimensionless parameters, modes *)
  bk_displacement : K -> K -> nat -> B -> B;                        (* displacement(r, phi, mode) *)
  bk_cubic : K -> nat -> B -> B;                                    (* cubic_phase(gamma, mode) *)
  bk_prep_gauss : list K -> list (list K) -> list nat -> B -> B;    (* prepare_gaussian_state(r, V, modes) *)
  bk_homodyne : K -> nat -> option K -> K -> B -> B * K;             (* measure_homodyne(phi, mode, select) given the random draw *)
  bk_ms_single : list K -> nat -> K -> B -> B * K                   (* mb_squeeze_single_shot(mode, r, phi, r_anc, eta_anc) given the draw *)
}.

Inductive op :=
| Free (id : nat) (ps : list K) (ms : list nat)      (* Dgate, Sgate, Rgate, Pgate, BSgate, CX, CZ, K, loss, Coherent, Squeezed, Thermal, Fock, MSgate(avg) ... *)
| Xg (x : K) (k : nat) (dg : bool)     (* dg: the gate carries .H *)
| Zg (p : K) (k : nat) (dg : bool)
| Vg (g : K) (k : nat) (dg : bool)
| GaussDirect (V : list (list K)) (r : list K) (ms : list nat)   (* Gaussian(V, r, decomp=False) *)
| GaussDecomp (V : list (list K)) (r : list K) (ms : list nat)   (* Gaussian(V, r): hbar-free preparation from V/(hbar/2), then X/Z gates *)
| Homo (phi : K) (k : nat) (sel : option K)
| MSsingle (ps : list K) (k : nat).

Inductive outcome := OHomodyne (v : K) | OAncilla (v : K).

Variable halfpi : K.     (* np.pi / 2 : a dimensionless constant *)
Variable gauss_id : nat. (* id of the hbar-free preparation used by Gaussian._decompose *)

(* cmds += [Command(Xgate(u), reg[n]) for n, u in enumerate(self.x_disp) if u != 0] *)
Fixpoint disp_cmds (bk : backend) (f : K -> K) (phi : K) (us : list K) (ms : list nat) (b : B) : B :=
  match us, ms with
  | u :: us', m :: ms' =>
      disp_cmds bk f phi us' ms' (if fisz F u then b else bk_displacement bk (f u) phi m b)
  | _, _ => b
  end.

(* Gate.apply: `if np.all(z == 0): return` (identity, backend not called); `if self.dagger: z = -z`.
   For Xgate/Zgate the gate is first decomposed into Dgate(r, phi) (dagger flag moved onto it), then applied. *)
Definition gate_apply (z : K) (dg : bool) (call : K -> B -> B) (b : B) : B :=
  if fisz F z then b else call (if dg then - z else z) b.

Definition draw1 (ds : list K) : K * list K := match ds with [] => (0, []) | d :: ds' => (d, ds') end.

Definition step (c : hctx K) (bk : backend) (o : op) (b : B) (ds : list K) : B * list K * list outcome :=
  match o with
  | Free id ps ms => (bk_free bk id ps ms b, ds, [])
  | Xg x k dg => (gate_apply (xgate_r c x) dg (fun r => bk_displacement bk r 0 k) b, ds, [])
  | Zg p k dg => (gate_apply (zgate_r c p) dg (fun r => bk_displacement bk r halfpi k) b, ds, [])
  | Vg g k dg =>
      (* Gate.apply negates p[0] = gamma before Vgate._apply multiplies by sqrt(hbar/2); zero test on gamma *)
      (if fisz F g then b else bk_cubic bk (vgate_gamma c (if dg then - g else g)) k b, ds, [])
  | GaussDirect V r ms => (bk_prep_gauss bk (gauss_r c r) (gauss_V c V) ms b, ds, [])
  | GaussDecomp V r ms =>
      let ns := length ms in
      let b1 := bk_free bk gauss_id (concat (gauss_V c V)) ms b in
      let b2 := disp_cmds bk (xgate_r c) 0 (firstn ns r) ms b1 in
      (disp_cmds bk (zgate_r c) halfpi (skipn ns r) ms b2, ds, [])
  | Homo phi k sel =>
      let (d, ds') := draw1 ds in
      let (b', v) := bk_homodyne bk phi k (option_map (homodyne_select c) sel) d b in
      (b', ds', [OHomodyne (homodyne_result c v)])
  | MSsingle ps k =>
      let (d, ds') := draw1 ds in
      let (b', v) := bk_ms_single bk ps k d b in
      (b', ds', [OAncilla (msgate_result c v)])
  end.

Fixpoint run (c : hctx K) (bk : backend) (p : list op) (b : B) (ds : list K) : B * list outcome :=
  match p with
  | [] => (b, [])
  | o :: p' =>
      match step c bk o b ds with
      | (b', ds', out) => let (b'', outs) := run c bk p' b' ds' in (b'', out ++ outs)
      end
  end.

(* the same experiment written in another unit convention: lengths scale by lam = sqrt(hbar'/hbar) *)
Definition rescale (lam : K) (o : op) : op :=
  match o with
  | Free id ps ms => Free id ps ms
  | Xg x k dg => Xg (lam * x) k dg
  | Zg p k dg => Zg (lam * p) k dg
  | Vg g k dg => Vg (g / lam) k dg
  | GaussDirect V r ms => GaussDirect (map (map (fun v => lam * lam * v)) V) (map (fun v => lam * v) r) ms
  | GaussDecomp V r ms => GaussDecomp (map (map (fun v => lam * lam * v)) V) (map (fun v => lam * v) r) ms
  | Homo phi k sel => Homo phi k (option_map (fun s => lam * s) sel)
  | MSsingle ps k => MSsingle ps k
  end.

Definition scale_outcome (lam : K) (o : outcome) : outcome :=
  match o with OHomodyne v => OHomodyne (lam * v) | OAncilla v => OAncilla (lam * v) end.

(* state(): the state object built from the backend's internal means / covariance *)
Definition state_means (c : hctx K) (m2 : list K) : list K := map (st_mu c) m2.
Definition state_cov (c : hctx K) (V2 : list (list K)) : list (list K) := map (map (st_cov c)) V2.
End Prog.
End Model.

(* ------------------------------------------------------------------------------------------------ *)
(* re-use of operation objects: an operation keeps its user parameter (self.p[0], self.select); every
   _apply / _decompose converts the stored value with a pure function on a LOCAL copy
   (`select = self.select; if select is not None: select = select / s`) and leaves the object as it was.
   op_apply: (stored value after the application, number handed to the backend) *)
Definition op_apply {K : Type} (conv : K -> K) (stored : K) : K * K := (stored, conv stored).
Fixpoint op_apply_n {K : Type} (conv : K -> K) (stored : K) (n : nat) : K * list K :=
  match n with
  | O => (stored, [])
  | S m => let (st1, a) := op_apply conv stored in
           let (st2, l) := op_apply_n conv st1 m in (st2, a :: l)
  end.

