(* C15 — lemmas about Model.v over an arbitrary field. *)
From Coq Require Import List Bool Arith Field.
Import ListNotations.
From SFV Require Import C15.Model.

Lemma op_apply_n_repeat {K : Type} (conv : K -> K) (stored : K) (n : nat) :
  op_apply_n conv stored n = (stored, repeat (conv stored) n).
Proof. induction n; simpl; [reflexivity | rewrite IHn; reflexivity]. Qed.

Section P.
Context {K : Type} (F : Fld K).
Hypothesis FT : field_theory (f0 F) (f1 F) (fadd F) (fmul F) (fsub F) (fopp F) (fdiv F) (finv F) (@eq K).
Add Field KF : FT.
Local Notation "0" := (f0 F) : fld_scope.
Local Notation "1" := (f1 F) : fld_scope.
Local Infix "+" := (fadd F) : fld_scope.
Local Infix "*" := (fmul F) : fld_scope.
Local Infix "-" := (fsub F) : fld_scope.
Local Infix "/" := (fdiv F) : fld_scope.
Local Notation "- x" := (fopp F x) : fld_scope.
Local Open Scope fld_scope.

Hypothesis two_nz : two F <> 0.
Hypothesis three_nz : three F <> 0.
Hypothesis isz_spec : forall x, fisz F x = true <-> x = 0.

(* the identities np.sqrt satisfies on the two arguments the code uses *)
Definition good (c : hctx K) : Prop :=
  sh2 c * sh2 c = hb c / two F /\ sq2h c = two F * sh2 c /\ sh2 c <> 0.

(* two conventions related by a length scale lam = sqrt(hbar'/hbar) *)
Definition scaled (lam : K) (c c' : hctx K) : Prop :=
  sh2 c' = lam * sh2 c /\ sq2h c' = lam * sq2h c /\ hb c' = lam * lam * hb c.

Lemma good_hb c : good c -> hb c = two F * (sh2 c * sh2 c).
Proof. intros (H1 & _ & _). rewrite H1. unfold two in *. field. exact two_nz. Qed.

Lemma good_hb_nz c : good c -> hb c <> 0.
Proof.
  intros G. rewrite (good_hb c G). destruct G as (_ & _ & H3).
  intro E. assert (E2 : sh2 c * sh2 c = 0).
  { transitivity ((two F * (sh2 c * sh2 c)) / two F); [field; exact two_nz | rewrite E; field; exact two_nz]. }
  apply H3. transitivity ((sh2 c * sh2 c) / sh2 c); [field; exact H3 | rewrite E2; field; exact H3].
Qed.

Lemma good_sq2h_nz c : good c -> sq2h c <> 0.
Proof.
  intros G. destruct G as (_ & H2 & H3). rewrite H2. intro E.
  apply H3. transitivity ((two F * sh2 c) / two F); [field; exact two_nz | rewrite E; field; exact two_nz].
Qed.

Lemma good_scaled c c' lam : good c -> good c' -> sh2 c' = lam * sh2 c -> scaled lam c c'.
Proof.
  intros G G' H. split; [exact H|]. split.
  - destruct G as (_ & H2 & _), G' as (_ & H2' & _). rewrite H2', H2, H. unfold two. ring.
  - rewrite (good_hb c G), (good_hb c' G'), H. unfold two. ring.
Qed.

Lemma scaled_lam_nz c c' lam : good c' -> scaled lam c c' -> lam <> 0.
Proof.
  intros (_ & _ & H3) (H & _ & _) E. apply H3. rewrite H, E. ring.
Qed.

Lemma mul_zero_iff lam u : lam <> 0 -> (lam * u = 0 <-> u = 0).
Proof.
  intros Hl; split; intro E.
  - transitivity ((lam * u) / lam); [field; exact Hl | rewrite E; field; exact Hl].
  - rewrite E; ring.
Qed.

Lemma mul_nz a b : a <> 0 -> b <> 0 -> a * b <> 0.
Proof. intros Ha Hb E. apply Hb. apply (mul_zero_iff a b Ha). exact E. Qed.

Lemma three_nz' : 1 + (1 + 1) <> 0.
Proof. intro E. apply three_nz. unfold three, two. rewrite <- E. ring. Qed.

Section Two.
Variables (c c' : hctx K) (lam : K).
Hypothesis G : good c.
Hypothesis G' : good c'.
Hypothesis SC : scaled lam c c'.

Let Hl : lam <> 0 := scaled_lam_nz c c' lam G' SC.
Let Hs : sh2 c <> 0 := proj2 (proj2 G).
Let Hq : sq2h c <> 0 := good_sq2h_nz c G.
Let Hh : hb c <> 0 := good_hb_nz c G.

Ltac open_sc := destruct SC as (S1 & S2 & S3).

(* ---- front end ---- *)
Lemma xgate_r_scaled x : xgate_r F c' (lam * x) = xgate_r F c x.
Proof. open_sc. unfold xgate_r. rewrite S2. field. split; assumption. Qed.
Lemma zgate_r_scaled p : zgate_r F c' (lam * p) = zgate_r F c p.
Proof. exact (xgate_r_scaled p). Qed.
Lemma vgate_gamma_scaled g : vgate_gamma F c' (g / lam) = vgate_gamma F c g.
Proof. open_sc. unfold vgate_gamma. rewrite S1. field. assumption. Qed.
Lemma homodyne_select_scaled s : homodyne_select F c' (lam * s) = homodyne_select F c s.
Proof. open_sc. unfold homodyne_select. rewrite S1. field. split; assumption. Qed.
Lemma homodyne_result_scaled v : homodyne_result F c' v = lam * homodyne_result F c v.
Proof. open_sc. unfold homodyne_result. rewrite S1. ring. Qed.
Lemma msgate_result_scaled v : msgate_result F c' v = lam * msgate_result F c v.
Proof. open_sc. unfold msgate_result. rewrite S1. ring. Qed.

Lemma gauss_V_scaled V : gauss_V F c' (map (map (fun v => lam * lam * v)) V) = gauss_V F c V.
Proof.
  open_sc. unfold gauss_V. rewrite map_map. apply map_ext; intro row. rewrite map_map. apply map_ext; intro v.
  rewrite S3. unfold two in *. field. repeat split; assumption.
Qed.
Lemma gauss_r_scaled r : gauss_r F c' (map (fun v => lam * v) r) = gauss_r F c r.
Proof.
  open_sc. unfold gauss_r. rewrite map_map. apply map_ext; intro v. rewrite S1. field. split; assumption.
Qed.

(* ---- state object ---- *)
Lemma st_mu_scaled m : st_mu F c' m = lam * st_mu F c m.
Proof. open_sc. unfold st_mu. rewrite S1. ring. Qed.
Lemma st_cov_scaled v : st_cov F c' v = (hb c' / hb c) * st_cov F c v.
Proof. open_sc. unfold st_cov. rewrite S3. unfold two in *. field. split; assumption. Qed.
Lemma st_cov_scaled_lam v : st_cov F c' v = lam * lam * st_cov F c v.
Proof. open_sc. unfold st_cov. rewrite S3. unfold two in *. field. assumption. Qed.
Lemma hb_ratio : hb c' / hb c = lam * lam.
Proof. open_sc. rewrite S3. field. assumption. Qed.
Lemma st_alpha_invariant m : st_alpha F c' (lam * m) = st_alpha F c m.
Proof. open_sc. unfold st_alpha. rewrite S2. field. split; assumption. Qed.
Lemma st_dimless_cov_invariant v : st_dimless_cov F c' (lam * lam * v) = st_dimless_cov F c v.
Proof. open_sc. unfold st_dimless_cov. rewrite S3. unfold two in *. field. repeat split; assumption. Qed.

Lemma mean_photon_mean_invariant x p vxx vpp :
  mean_photon_mean F c' (lam * x) (lam * p) (lam * lam * vxx) (lam * lam * vpp) = mean_photon_mean F c x p vxx vpp.
Proof. open_sc. unfold mean_photon_mean. rewrite S3. unfold half, two in *. field. repeat split; assumption. Qed.
Lemma mean_photon_var_invariant x p vxx vxp vpp :
  mean_photon_var F c' (lam * x) (lam * p) (lam * lam * vxx) (lam * lam * vxp) (lam * lam * vpp)
  = mean_photon_var F c x p vxx vxp vpp.
Proof.
  open_sc. unfold mean_photon_var. rewrite S3. unfold quarter, four, two in *. field.
  repeat split; try assumption. apply mul_nz; assumption.
Qed.

Lemma quad_mean_scaled cphi sphi x p : quad_mean F cphi sphi (lam * x) (lam * p) = lam * quad_mean F cphi sphi x p.
Proof. unfold quad_mean. ring. Qed.
Lemma quad_var_scaled cphi sphi vxx vxp vpp :
  quad_var F cphi sphi (lam * lam * vxx) (lam * lam * vxp) (lam * lam * vpp) = lam * lam * quad_var F cphi sphi vxx vxp vpp.
Proof. unfold quad_var. ring. Qed.

Lemma fid_det_scaled vxx vxp vpp :
  fid_det F c' (lam * lam * vxx) (lam * lam * vxp) (lam * lam * vpp) = lam * lam * lam * lam * fid_det F c vxx vxp vpp.
Proof. open_sc. unfold fid_det. rewrite S3. unfold two in *. field. assumption. Qed.

Lemma fid_prefsq_invariant vxx vxp vpp :
  fid_det F c vxx vxp vpp <> 0 ->
  fid_prefsq F c' (lam * lam * vxx) (lam * lam * vxp) (lam * lam * vpp) = fid_prefsq F c vxx vxp vpp.
Proof.
  intro Hd. unfold fid_prefsq. rewrite fid_det_scaled. open_sc. rewrite S3. field. split; assumption.
Qed.

Lemma fid_expo_invariant ar ai x p vxx vxp vpp :
  fid_det F c vxx vxp vpp <> 0 ->
  fid_expo F c' ar ai (lam * x) (lam * p) (lam * lam * vxx) (lam * lam * vxp) (lam * lam * vpp)
  = fid_expo F c ar ai x p vxx vxp vpp.
Proof.
  intro Hd. unfold fid_expo. rewrite fid_det_scaled. unfold fid_target_mu. open_sc. rewrite S2, S3.
  unfold half, two in *. field. repeat split; assumption.
Qed.

Lemma kpow_mul a b n : kpow F (a * b) n = kpow F a n * kpow F b n.
Proof. induction n; simpl; [ring | rewrite IHn; ring]. Qed.
Lemma kpow_add a n m : kpow F a (n + m) = kpow F a n * kpow F a m.
Proof. induction n; simpl; [ring | rewrite IHn; ring]. Qed.
Lemma kpow_nz a n : a <> 0 -> kpow F a n <> 0.
Proof.
  intros Ha; induction n; simpl.
  - intro E. apply Ha. transitivity (a * 1); [ring | rewrite E; ring].
  - intro E. apply IHn. apply (mul_zero_iff a); assumption.
Qed.

(* full register: m = N modes, det of the 2N x 2N covariance matrix scales by lam^(4N) *)
Lemma parity_sq_invariant N numsq detcov :
  detcov <> 0 ->
  parity_sq F c' N numsq (kpow F (lam * lam) (2 * N) * detcov) = parity_sq F c N numsq detcov.
Proof.
  intro Hd. unfold parity_sq. open_sc. rewrite S3.
  replace (lam * lam * hb c / two F) with ((lam * lam) * (hb c / two F)) by (unfold two in *; field; assumption).
  rewrite kpow_mul. field. split; [assumption | apply kpow_nz].
  intro E. apply Hl. apply (mul_zero_iff lam); assumption.
Qed.

Lemma ksum_scale a l : ksum F (map (fun t => a * t) l) = a * ksum F l.
Proof. induction l; simpl; [ring | rewrite IHl; ring]. Qed.

Lemma fock_quad_mean_scaled cphi sphi l : fock_quad_mean F c' cphi sphi l = lam * fock_quad_mean F c cphi sphi l.
Proof. open_sc. unfold fock_quad_mean. rewrite S1. ring. Qed.
Lemma fock_quad_var_scaled cphi sphi l Q : fock_quad_var F c' cphi sphi l Q = lam * lam * fock_quad_var F c cphi sphi l Q.
Proof. unfold fock_quad_var. rewrite fock_quad_mean_scaled. open_sc. rewrite S1. ring. Qed.
Lemma wigner_A_invariant q : wigner_A F c' (lam * q) = wigner_A F c q.
Proof. open_sc. unfold wigner_A. rewrite S1. unfold two in *. field. repeat split; assumption. Qed.
Lemma wigner_out_scaled w : lam * lam * wigner_out F c' w = wigner_out F c w.
Proof. open_sc. unfold wigner_out. rewrite S3. field. split; assumption. Qed.

Lemma bos_terms_scaled l :
  bos_terms F (map (fun t => match t with (w, tr, dot) => (w, lam * lam * tr, lam * lam * dot) end) l)
  = map (fun t => lam * lam * t) (bos_terms F l).
Proof.
  unfold bos_terms. rewrite !map_map. apply map_ext. intros [[w tr] dot]. ring.
Qed.
Lemma bos_mean_photon_invariant l :
  bos_mean_photon F c' (map (fun t => match t with (w, tr, dot) => (w, lam * lam * tr, lam * lam * dot) end) l)
  = bos_mean_photon F c l.
Proof.
  unfold bos_mean_photon. rewrite bos_terms_scaled, ksum_scale. open_sc. rewrite S3.
  unfold half, two in *. field. repeat split; assumption.
Qed.
Lemma bos_fid_prefsq_invariant N detsum :
  detsum <> 0 ->
  bos_fid_prefsq F c' N (kpow F (lam * lam) (2 * N) * detsum) = bos_fid_prefsq F c N detsum.
Proof.
  intro Hd. unfold bos_fid_prefsq. open_sc. rewrite S3. rewrite kpow_mul. field.
  split; [assumption | apply kpow_nz; apply mul_nz; assumption].
Qed.

Lemma util_mean_scaled a : util_mean F c' a = lam * util_mean F c a.
Proof. open_sc. unfold util_mean. rewrite S2. ring. Qed.
Lemma util_cov_scaled e : util_cov F c' e = lam * lam * util_cov F c e.
Proof. open_sc. unfold util_cov. rewrite S3. unfold two in *. field. assumption. Qed.

Lemma homodyne_internal_invariant csq sel :
  homodyne_internal F c' csq (lam * sel) = homodyne_internal F c csq sel.
Proof. unfold homodyne_internal. rewrite homodyne_select_scaled. reflexivity. Qed.

(* ---- programs ---- *)
Section Prog.
Variable B : Type.
Variable halfpi : K.
Variable gauss_id : nat.
Variable bk : backend (K:=K) B.

Lemma disp_cmds_scaled (f f' : K -> K) phi us ms b :
  (forall u, f' (lam * u) = f u) ->
  disp_cmds F B bk f' phi (map (fun v => lam * v) us) ms b = disp_cmds F B bk f phi us ms b.
Proof.
  intro Hf. revert ms b. induction us as [|u us IH]; intros [|m ms] b; simpl; try reflexivity.
  rewrite Hf.
  assert (E : fisz F (lam * u) = fisz F u).
  { destruct (fisz F u) eqn:Eu.
    - apply isz_spec. apply isz_spec in Eu. rewrite Eu. ring.
    - destruct (fisz F (lam * u)) eqn:Ev; [|reflexivity].
      apply isz_spec in Ev. apply (mul_zero_iff lam u Hl) in Ev. apply isz_spec in Ev. congruence. }
  rewrite E. apply IH.
Qed.

Lemma firstn_map {A C} (f : A -> C) n l : firstn n (map f l) = map f (firstn n l).
Proof. revert l; induction n; intros [|x l]; simpl; try reflexivity. rewrite IHn. reflexivity. Qed.
Lemma skipn_map {A C} (f : A -> C) n l : skipn n (map f l) = map f (skipn n l).
Proof. revert l; induction n; intros [|x l]; simpl; try reflexivity. apply IHn. Qed.

Lemma step_rescale o b ds :
  step F B halfpi gauss_id c' bk (rescale F lam o) b ds
  = let '(b', ds', out) := step F B halfpi gauss_id c bk o b ds in (b', ds', map (scale_outcome F lam) out).
Proof.
  destruct o as [id ps ms|x k dg|p k dg|g k dg|V r ms|V r ms|phi k sel|ps k]; simpl.
  - reflexivity.
  - rewrite xgate_r_scaled. reflexivity.
  - rewrite zgate_r_scaled. reflexivity.
  - assert (E : fisz F (g / lam) = fisz F g).
    { destruct (fisz F g) eqn:Eu.
      - apply isz_spec. apply isz_spec in Eu. rewrite Eu. field. exact Hl.
      - destruct (fisz F (g / lam)) eqn:Ev; [|reflexivity].
        apply isz_spec in Ev. assert (g = 0) by (transitivity (lam * (g / lam)); [field; exact Hl | rewrite Ev; ring]).
        apply isz_spec in H. congruence. }
    rewrite E. destruct (fisz F g); [reflexivity|].
    replace (if dg then - (g / lam) else g / lam) with ((if dg then - g else g) / lam)
      by (destruct dg; [field; exact Hl | reflexivity]).
    rewrite vgate_gamma_scaled. reflexivity.
  - rewrite gauss_V_scaled, gauss_r_scaled. reflexivity.
  - rewrite gauss_V_scaled, firstn_map, skipn_map.
    rewrite (disp_cmds_scaled (xgate_r F c) (xgate_r F c')) by (intro; apply xgate_r_scaled).
    rewrite (disp_cmds_scaled (zgate_r F c) (zgate_r F c')) by (intro; apply zgate_r_scaled).
    reflexivity.
  - destruct (draw1 F ds) as [d ds'].
    assert (E : option_map (homodyne_select F c') (option_map (fun s => lam * s) sel) = option_map (homodyne_select F c) sel).
    { destruct sel; simpl; [rewrite homodyne_select_scaled|]; reflexivity. }
    rewrite E. destruct (bk_homodyne B bk phi k (option_map (homodyne_select F c) sel) d b) as [b' v]. simpl.
    rewrite homodyne_result_scaled. reflexivity.
  - destruct (draw1 F ds) as [d ds']. destruct (bk_ms_single B bk ps k d b) as [b' v]. simpl.
    rewrite msgate_result_scaled. reflexivity.
Qed.

Lemma run_rescale p : forall b ds,
  run F B halfpi gauss_id c' bk (map (rescale F lam) p) b ds
  = (fst (run F B halfpi gauss_id c bk p b ds), map (scale_outcome F lam) (snd (run F B halfpi gauss_id c bk p b ds))).
Proof.
  induction p as [|o p IH]; intros b ds; simpl; [reflexivity|].
  rewrite step_rescale.
  destruct (step F B halfpi gauss_id c bk o b ds) as [[b' ds'] out].
  rewrite IH. destruct (run F B halfpi gauss_id c bk p b' ds') as [b'' outs]. simpl.
  rewrite map_app. reflexivity.
Qed.

Lemma state_means_scaled m2 : state_means F c' m2 = map (fun v => lam * v) (state_means F c m2).
Proof. unfold state_means. rewrite map_map. apply map_ext. intro; apply st_mu_scaled. Qed.
Lemma state_cov_scaled V2 : state_cov F c' V2 = map (map (fun v => (hb c' / hb c) * v)) (state_cov F c V2).
Proof.
  unfold state_cov. rewrite map_map. apply map_ext; intro row. rewrite map_map. apply map_ext; intro v.
  apply st_cov_scaled.
Qed.
End Prog.
End Two.

(* ---- single-convention facts ---- *)
Lemma xgate_shift_exact c x : good c -> xgate_shift F c (two F) 1 x = x.
Proof.
  intros (H1 & H2 & H3). unfold xgate_shift, st_mu, bk_state_mean, bk_disp_dx, xgate_r. rewrite H2.
  unfold two in *. field. split; assumption.
Qed.
Lemma zgate_shift_exact c p : good c -> zgate_shift F c (two F) 1 p = p.
Proof.
  intros (H1 & H2 & H3). unfold zgate_shift, st_mu, bk_state_mean, bk_disp_dp, zgate_r. rewrite H2.
  unfold two in *. field. split; assumption.
Qed.
Lemma homodyne_roundtrip_exact c csq sel : good c -> csq <> 0 -> homodyne_roundtrip F c csq sel = sel.
Proof.
  intros (H1 & H2 & H3) Hc. unfold homodyne_roundtrip, homodyne_result, bk_homodyne_ret, bk_homodyne_val, homodyne_select.
  unfold two in *. field. repeat split; assumption.
Qed.
Lemma gauss_roundtrip_cov_exact c v : good c -> gauss_roundtrip_cov F c v = v.
Proof.
  intro G. pose proof (good_hb_nz c G). unfold gauss_roundtrip_cov, st_cov. unfold two in *. field. split; assumption.
Qed.
Lemma gauss_roundtrip_mean_exact c m : good c -> gauss_roundtrip_mean F c m = m.
Proof. intros (H1 & H2 & H3). unfold gauss_roundtrip_mean, st_mu. field. assumption. Qed.
(* Gaussian(V, r) decomposed: the X gate produced for the mean component u gives the same internal
   displacement as the direct preparation r / s *)
Lemma gauss_decomp_matches_direct c u : good c ->
  bk_disp_dx F (xgate_r F c u) 1 = u / sh2 c.
Proof.
  intros (H1 & H2 & H3). unfold bk_disp_dx, xgate_r. rewrite H2. unfold two in *. field. split; assumption.
Qed.
(* the cubic phase gate handed to the hbar=2 Fock backend is the documented exp(i g x^3 / (3 hbar)) *)
Lemma cubic_coeff_exact c g : good c ->
  cubic_coeff F (vgate_gamma F c g) (two F) 1 = cubic_coeff_doc F c g.
Proof.
  intro G. unfold cubic_coeff, cubic_coeff_doc, vgate_gamma. rewrite (good_hb c G).
  destruct G as (H1 & H2 & H3). unfold three, two in *. field.
  pose proof three_nz'. repeat split; try assumption; repeat apply mul_nz; assumption.
Qed.
End P.
