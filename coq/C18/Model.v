(* Model of Program.__eq__ (strawberryfields/program.py) — definitions only.

   A command is (class id, parameter list, mode list, dagger flag).  Parameters are compared by
   Python `==`; the harness maps each distinct parameter value of a generated pair to a distinct
   integer, so `Z.eqb` models `==` on them.  A program is (target, register, circuit) with the
   register a list of (index, active) pairs as compared by RegRef.__eq__. *)
From Coq Require Import List ZArith Bool Arith.
Import ListNotations.

(* opts: the measurement options (select, dark_counts) that are not part of op.p — compared since fix 19a0026;
   the harness maps each distinct (select, dark_counts) value to an id, [] for operations that have none *)
Record cmd := mkCmd { cls : nat; params : list Z; modes : list nat; dag : bool; opts : list Z }.
Record prog := mkProg { target : option nat; register : list (nat * bool); circuit : list cmd }.

Fixpoint list_eqb {A} (eqb : A -> A -> bool) (l1 l2 : list A) : bool :=
  match l1, l2 with
  | [], [] => true
  | x :: l1', y :: l2' => eqb x y && list_eqb eqb l1' l2'
  | _, _ => false
  end.

(* Python `all(p == q for p, q in zip(l1, l2))` : truncates at the shorter list *)
Fixpoint zip_all {A} (eqb : A -> A -> bool) (l1 l2 : list A) : bool :=
  match l1, l2 with
  | x :: l1', y :: l2' => eqb x y && zip_all eqb l1' l2'
  | _, _ => true
  end.

Definition opt_eqb (a b : option nat) : bool :=
  match a, b with
  | None, None => true
  | Some x, Some y => Nat.eqb x y
  | _, _ => false
  end.

Definition reg_eqb (a b : nat * bool) : bool := Nat.eqb (fst a) (fst b) && Bool.eqb (snd a) (snd b).

(* the per-command comparison of the current source: class, parameters, modes, dagger; the
   lengths of the parameter and mode lists are compared too *)
Definition cmd_eqb (a b : cmd) : bool :=
  Nat.eqb (cls a) (cls b)
  && (Nat.eqb (length (params a)) (length (params b)) && zip_all Z.eqb (params a) (params b))
  && (Nat.eqb (length (modes a)) (length (modes b)) && zip_all Nat.eqb (modes a) (modes b))
  && Bool.eqb (dag a) (dag b)
  && list_eqb Z.eqb (opts a) (opts b).

Definition prog_eq (p q : prog) : bool :=
  opt_eqb (target p) (target q)
  && list_eqb reg_eqb (register p) (register q)
  && Nat.eqb (length (circuit p)) (length (circuit q))
  && zip_all cmd_eqb (circuit p) (circuit q).

(* the comparison before fix 19a0026: post-selection values / dark counts ignored *)
Definition cmd_eqb_noopts (a b : cmd) : bool :=
  Nat.eqb (cls a) (cls b)
  && (Nat.eqb (length (params a)) (length (params b)) && zip_all Z.eqb (params a) (params b))
  && (Nat.eqb (length (modes a)) (length (modes b)) && zip_all Nat.eqb (modes a) (modes b))
  && Bool.eqb (dag a) (dag b).
Definition prog_eq_noopts (p q : prog) : bool :=
  opt_eqb (target p) (target q) && list_eqb reg_eqb (register p) (register q)
  && Nat.eqb (length (circuit p)) (length (circuit q)) && zip_all cmd_eqb_noopts (circuit p) (circuit q).

(* The comparison as it stood before the "fix:" commit (zip truncation, no dagger): kept so the
   refutation of the old behaviour stays machine-checked. *)
Definition cmd_eqb_old (a b : cmd) : bool :=
  Nat.eqb (cls a) (cls b) && zip_all Z.eqb (params a) (params b) && zip_all Nat.eqb (modes a) (modes b).
Definition prog_eq_old (p q : prog) : bool :=
  opt_eqb (target p) (target q) && list_eqb reg_eqb (register p) (register q)
  && zip_all cmd_eqb_old (circuit p) (circuit q).
