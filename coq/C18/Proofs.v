From Coq Require Import List ZArith Bool Arith Lia.
Import ListNotations.
From SFV Require Import C18.Model.

Lemma zip_all_len_eq {A} (eqb : A -> A -> bool) :
  (forall x y, eqb x y = true -> x = y) ->
  forall l1 l2, length l1 = length l2 -> zip_all eqb l1 l2 = true -> l1 = l2.
Proof.
  intros Heq l1; induction l1 as [|x l1 IH]; intros [|y l2] Hlen H; simpl in *; try discriminate; auto.
  apply andb_prop in H as [Hxy Hr]. f_equal; [apply Heq; exact Hxy | apply IH; [lia | exact Hr]].
Qed.

Lemma list_eqb_eq {A} (eqb : A -> A -> bool) :
  (forall x y, eqb x y = true -> x = y) -> forall l1 l2, list_eqb eqb l1 l2 = true -> l1 = l2.
Proof.
  intros Heq l1; induction l1 as [|x l1 IH]; intros [|y l2] H; simpl in *; try discriminate; auto.
  apply andb_prop in H as [Hxy Hr]. f_equal; [apply Heq; exact Hxy | apply IH; exact Hr].
Qed.

Lemma list_eqb_refl {A} (eqb : A -> A -> bool) : (forall x, eqb x x = true) -> forall l, list_eqb eqb l l = true.
Proof. intros H l; induction l; simpl; auto. rewrite H, IHl; reflexivity. Qed.

Lemma zip_all_refl {A} (eqb : A -> A -> bool) : (forall x, eqb x x = true) -> forall l, zip_all eqb l l = true.
Proof. intros H l; induction l; simpl; auto. rewrite H, IHl; reflexivity. Qed.

Lemma reg_eqb_eq a b : reg_eqb a b = true -> a = b.
Proof.
  destruct a as [i x], b as [j y]; unfold reg_eqb; simpl; intros H.
  apply andb_prop in H as [H1 H2]. apply Nat.eqb_eq in H1. apply eqb_prop in H2. congruence.
Qed.

Lemma opt_eqb_eq a b : opt_eqb a b = true -> a = b.
Proof. destruct a, b; simpl; intros H; try discriminate; auto. apply Nat.eqb_eq in H; congruence. Qed.

Lemma cmd_eqb_eq a b : cmd_eqb a b = true -> a = b.
Proof.
  destruct a as [c1 p1 m1 d1 o1], b as [c2 p2 m2 d2 o2]; unfold cmd_eqb; simpl; intros H.
  repeat match goal with H : _ && _ = true |- _ => apply andb_prop in H as [? ?] end.
  match goal with H : list_eqb Z.eqb o1 o2 = true |- _ => apply (list_eqb_eq Z.eqb) in H; [|intros; apply Z.eqb_eq; assumption] end.
  match goal with H : Nat.eqb c1 c2 = true |- _ => apply Nat.eqb_eq in H end.
  match goal with H : Bool.eqb d1 d2 = true |- _ => apply eqb_prop in H end.
  repeat match goal with H : Nat.eqb (length _) (length _) = true |- _ => apply Nat.eqb_eq in H end.
  assert (p1 = p2) by (apply (zip_all_len_eq Z.eqb); auto; intros; apply Z.eqb_eq; auto).
  assert (m1 = m2) by (apply (zip_all_len_eq Nat.eqb); auto; intros; apply Nat.eqb_eq; auto).
  congruence.
Qed.

Lemma cmd_eqb_refl a : cmd_eqb a a = true.
Proof.
  unfold cmd_eqb. rewrite !Nat.eqb_refl, eqb_reflx.
  rewrite (zip_all_refl Z.eqb Z.eqb_refl), (zip_all_refl Nat.eqb Nat.eqb_refl), (list_eqb_refl Z.eqb Z.eqb_refl). reflexivity.
Qed.

(* soundness: reported equal => identical target, register and circuit: every command, its
   class, parameters, modes and inverse flag *)
Theorem prog_eq_sound p q : prog_eq p q = true -> p = q.
Proof.
  destruct p as [t1 r1 c1], q as [t2 r2 c2]; unfold prog_eq; simpl; intros H.
  repeat match goal with H : _ && _ = true |- _ => apply andb_prop in H as [? ?] end.
  match goal with H : opt_eqb _ _ = true |- _ => apply opt_eqb_eq in H end.
  match goal with H : list_eqb _ _ _ = true |- _ => apply (list_eqb_eq reg_eqb reg_eqb_eq) in H end.
  match goal with H : Nat.eqb (length _) (length _) = true |- _ => apply Nat.eqb_eq in H end.
  assert (c1 = c2) by (apply (zip_all_len_eq cmd_eqb cmd_eqb_eq); auto).
  congruence.
Qed.

Theorem prog_eq_refl p : prog_eq p p = true.
Proof.
  unfold prog_eq. rewrite Nat.eqb_refl.
  rewrite (zip_all_refl cmd_eqb cmd_eqb_refl).
  rewrite (list_eqb_refl reg_eqb).
  - destruct (target p); simpl; rewrite ?Nat.eqb_refl; reflexivity.
  - intros [i b]; unfold reg_eqb; simpl. rewrite Nat.eqb_refl, eqb_reflx; reflexivity.
Qed.

Theorem prog_eq_complete p q : p = q -> prog_eq p q = true.
Proof. intros ->; apply prog_eq_refl. Qed.

Theorem prog_eq_sym p q : prog_eq p q = prog_eq q p.
Proof.
  destruct (prog_eq p q) eqn:E.
  - apply prog_eq_sound in E; subst; symmetry; apply prog_eq_refl.
  - destruct (prog_eq q p) eqn:E'; auto. apply prog_eq_sound in E'; subst.
    rewrite prog_eq_refl in E; discriminate.
Qed.

(* The pre-fix comparison is unsound: a one-command program equals its empty prefix, and a gate
   equals its own inverse. *)
Definition g := mkCmd 1 [5%Z] [0] false [].
Definition gH := mkCmd 1 [5%Z] [0] true [].
Theorem prog_eq_old_refuted :
  exists p q, prog_eq_old p q = true /\ circuit p <> circuit q /\ length (circuit p) <> length (circuit q).
Proof. exists (mkProg None [(0,true)] [g]), (mkProg None [(0,true)] []). repeat split; simpl; try discriminate; auto. Qed.
Theorem prog_eq_old_refuted_dagger :
  exists p q, prog_eq_old p q = true /\ length (circuit p) = length (circuit q) /\ circuit p <> circuit q.
Proof. exists (mkProg None [(0,true)] [g]), (mkProg None [(0,true)] [gH]). repeat split; simpl; try discriminate; auto. Qed.

(* before fix 19a0026 two measurements with different post-selection values were reported equal *)
Theorem prog_eq_noopts_refuted :
  exists p q, prog_eq_noopts p q = true /\ p <> q /\ prog_eq p q = false.
Proof.
  exists (mkProg None [(0,true)] [mkCmd 7 [0%Z] [0] false [1%Z]]), (mkProg None [(0,true)] [mkCmd 7 [0%Z] [0] false [2%Z]]).
  repeat split; simpl; try discriminate; auto.
Qed.
