(* C11 — generic row algebra over a commutative ring: the row operations performed by
   compilers/gaussian_unitary.py and compilers/passive.py on their accumulators, and the facts
   that make "a row operation is left multiplication by the embedded block" precise.

   Vectors are lists, matrices are lists of rows.  All operations are total; on well-shaped
   inputs (all rows of equal length) they coincide with the numpy operations. *)
From Coq Require Import List Arith Lia Ring.
Import ListNotations.

Section Lin.
Variable R : Type.
Variables (r0 r1 : R) (radd rmul rsub : R -> R -> R) (ropp : R -> R).

Definition vec := list R.
Definition mat := list vec.

Fixpoint dot (u x : vec) : R :=
  match u, x with
  | a :: u', b :: x' => radd (rmul a b) (dot u' x')
  | _, _ => r0
  end.

(* padded sum: the shorter vector is extended by zeros *)
Fixpoint vadd (u v : vec) : vec :=
  match u, v with
  | a :: u', b :: v' => radd a b :: vadd u' v'
  | [], _ => v
  | _, [] => u
  end.

Definition vscale (a : R) (u : vec) : vec := map (rmul a) u.

(* sum_b cs[b] * rows[b] *)
Fixpoint lincomb (cs : list R) (rows : list vec) : vec :=
  match cs, rows with
  | c :: cs', w :: rows' => vadd (vscale c w) (lincomb cs' rows')
  | _, _ => []
  end.

Definition mv (S : mat) (x : vec) : vec := map (fun row => dot row x) S.

Fixpoint set_nth {E} (n : nat) (v : E) (l : list E) : list E :=
  match n, l with
  | _, [] => []
  | O, _ :: t => v :: t
  | S n', h :: t => h :: set_nth n' v t
  end.

Definition gather {E} (d : E) (sl : list nat) (l : list E) : list E := map (fun s => nth s l d) sl.

(* sequential assignment l[sl[0]] = vs[0]; l[sl[1]] = vs[1]; ...  (Python assigns the targets of a
   tuple assignment left to right, after all right-hand sides have been evaluated) *)
Fixpoint scatter {E} (sl : list nat) (vs : list E) (l : list E) : list E :=
  match sl, vs with
  | s :: sl', v :: vs' => scatter sl' vs' (set_nth s v l)
  | _, _ => l
  end.

(* (l[s_0], ..., l[s_k]) = (sum_b g[0][b]*l[s_b], ..., sum_b g[k][b]*l[s_b]) *)
Definition rowop {E} (comb : list R -> list E -> E) (d : E) (g : list (list R)) (sl : list nat) (l : list E) : list E :=
  let old := gather d sl l in
  scatter sl (map (fun grow => comb grow old) g) l.

Definition rowop_mat := @rowop vec lincomb [].
Definition rowop_vec := @rowop R dot r0.

(* l[s] += v for the listed slots *)
Fixpoint shift (sl : list nat) (vs : list R) (l : vec) : vec :=
  match sl, vs with
  | s :: sl', v :: vs' => shift sl' vs' (set_nth s (radd (nth s l r0) v) l)
  | _, _ => l
  end.

Fixpoint index (eqb : nat -> nat -> bool) (L : list nat) (c : nat) : nat :=
  match L with
  | [] => 0
  | h :: t => if eqb h c then 0 else S (index eqb t c)
  end.

Definition unit_vec (n i : nat) : vec := map (fun j => if Nat.eqb i j then r1 else r0) (seq 0 n).
Definition identity (n : nat) : mat := map (unit_vec n) (seq 0 n).
Definition zeros (n : nat) : vec := map (fun _ => r0) (seq 0 n).

(* --- global (register-level) meaning of a linear update on listed coordinates --- *)
Definition find_pos (cs : list nat) (c : nat) : option nat :=
  if existsb (Nat.eqb c) cs then Some (index Nat.eqb cs c) else None.

Definition gapply (g : list (list R)) (cs : list nat) (st : nat -> R) : nat -> R :=
  fun c => match find_pos cs c with
           | Some a => dot (nth a g []) (map st cs)
           | None => st c
           end.

Definition gshift (cs : list nat) (vs : list R) (st : nat -> R) : nat -> R :=
  fun c => match find_pos cs c with
           | Some a => radd (st c) (nth a vs r0)
           | None => st c
           end.

Inductive gcmd := GLin (g : list (list R)) (cs : list nat) | GShift (cs : list nat) (vs : list R).

Definition g_denote1 (c : gcmd) (st : nat -> R) : nat -> R :=
  match c with GLin g cs => gapply g cs st | GShift cs vs => gshift cs vs st end.
Definition g_denote (cmds : list gcmd) (st : nat -> R) : nat -> R :=
  fold_left (fun s c => g_denote1 c s) cmds st.

(* the compile loop: L is the enumeration (slot k <-> coordinate nth k L) *)
Definition g_step (L : list nat) (acc : mat * vec) (c : gcmd) : mat * vec :=
  match c with
  | GLin g cs => let sl := map (index Nat.eqb L) cs in
                 (rowop_mat g sl (fst acc), rowop_vec g sl (snd acc))
  | GShift cs vs => (fst acc, shift (map (index Nat.eqb L) cs) vs (snd acc))
  end.
Definition g_run (L : list nat) (cmds : list gcmd) : mat * vec :=
  fold_left (g_step L) cmds (identity (length L), zeros (length L)).

End Lin.

Arguments GLin {R}. Arguments GShift {R}.
