(* C11 — lemmas about the generic row algebra of Lin.v. *)
From Coq Require Import List Arith Lia Ring Bool.
Import ListNotations.
From SFV Require Import C11.Lin.

Section LinProofs.
Variable R : Type.
Variables (r0 r1 : R) (radd rmul rsub : R -> R -> R) (ropp : R -> R).
Hypothesis Rth : ring_theory r0 r1 radd rmul rsub ropp (@eq R).
Add Ring Rring : Rth.

Notation dot := (dot R r0 radd rmul).
Notation vadd := (vadd R radd).
Notation vscale := (vscale R rmul).
Notation lincomb := (lincomb R radd rmul).
Notation mv := (mv R r0 radd rmul).
Notation rowop_mat := (rowop_mat R radd rmul).
Notation rowop_vec := (rowop_vec R r0 radd rmul).
Notation shift := (shift R r0 radd).
Notation gapply := (gapply R r0 radd rmul).
Notation gshift := (gshift R r0 radd).
Notation g_denote1 := (g_denote1 R r0 radd rmul).
Notation g_denote := (g_denote R r0 radd rmul).
Notation g_step := (g_step R r0 radd rmul).
Notation g_run := (g_run R r0 r1 radd rmul).
Infix "+" := radd. Infix "*" := rmul.

Lemma dot_nil_r : forall u, dot u [] = r0.
Proof. destruct u; reflexivity. Qed.

Lemma dot_vadd : forall u v x, dot (vadd u v) x = dot u x + dot v x.
Proof.
  induction u as [|a u IH]; intros v x; simpl.
  - destruct x; simpl; ring.
  - destruct v as [|b v]; simpl.
    + destruct x; simpl; ring.
    + destruct x as [|c x]; simpl; [ring|]. rewrite IH. ring.
Qed.

Lemma dot_vscale : forall a u x, dot (vscale a u) x = a * dot u x.
Proof.
  induction u as [|b u IH]; intros x; simpl; [ring|].
  destruct x as [|c x]; simpl; [ring|]. unfold Lin.vscale in IH. rewrite IH. ring.
Qed.

Lemma dot_lincomb : forall cs rows x, dot (lincomb cs rows) x = dot cs (map (fun w => dot w x) rows).
Proof.
  induction cs as [|c cs IH]; intros rows x; simpl; [reflexivity|].
  destruct rows as [|w rows]; simpl; [reflexivity|].
  rewrite dot_vadd, dot_vscale, IH. reflexivity.
Qed.

Lemma dot_map_add : forall (g : list R) (cs : list nat) (fA fB : nat -> R),
  dot g (map fA cs) + dot g (map fB cs) = dot g (map (fun c => fA c + fB c) cs).
Proof.
  induction g as [|a g IH]; intros cs fA fB; simpl; [ring|].
  destruct cs as [|c cs]; simpl; [ring|]. rewrite <- IH. ring.
Qed.

(* ---- set_nth / scatter / gather ---- *)
Lemma set_nth_length : forall E n (v : E) l, length (set_nth n v l) = length l.
Proof. induction n; destruct l; simpl; auto. Qed.

Lemma scatter_length : forall E sl (vs : list E) l, length (scatter sl vs l) = length l.
Proof.
  induction sl as [|s sl IH]; intros vs l; simpl; [reflexivity|].
  destruct vs; [reflexivity|]. rewrite IH, set_nth_length. reflexivity.
Qed.

Lemma map_set_nth : forall E F (f : E -> F) n v l, map f (set_nth n v l) = set_nth n (f v) (map f l).
Proof. induction n; destruct l; simpl; intros; f_equal; auto. Qed.

Lemma map_scatter : forall E F (f : E -> F) sl vs l,
  map f (scatter sl vs l) = scatter sl (map f vs) (map f l).
Proof.
  induction sl as [|s sl IH]; intros vs l; simpl; [reflexivity|].
  destruct vs; simpl; [reflexivity|]. rewrite IH, map_set_nth. reflexivity.
Qed.

Lemma map_gather : forall E F (f : E -> F) d sl l, map f (gather d sl l) = gather (f d) sl (map f l).
Proof.
  intros. unfold gather. rewrite map_map. apply map_ext. intros s. symmetry. apply map_nth.
Qed.

Lemma nth_set_nth_eq : forall E n (v d : E) l, n < length l -> nth n (set_nth n v l) d = v.
Proof. induction n; destruct l; simpl; intros; try lia; auto. apply IHn. lia. Qed.

Lemma nth_set_nth_neq : forall E n k (v d : E) l, n <> k -> nth k (set_nth n v l) d = nth k l d.
Proof.
  induction n; destruct l; simpl; intros; auto.
  - destruct k; [lia|reflexivity].
  - destruct k; [reflexivity|]. apply IHn. lia.
Qed.

Lemma nth_scatter_notin : forall E sl (vs : list E) l k d, ~ In k sl -> nth k (scatter sl vs l) d = nth k l d.
Proof.
  induction sl as [|s sl IH]; intros vs l k d Hn; simpl; [reflexivity|].
  destruct vs; [reflexivity|]. rewrite IH by (intro; apply Hn; right; assumption).
  apply nth_set_nth_neq. intro; apply Hn; left; assumption.
Qed.

Lemma nth_scatter_in : forall E sl (vs : list E) l a k d,
  NoDup sl -> length vs = length sl -> a < length sl -> nth a sl 0 = k -> k < length l ->
  nth k (scatter sl vs l) d = nth a vs d.
Proof.
  induction sl as [|s sl IH]; intros vs l a k d Hnd Hlen Ha Hk Hkl; simpl in *; [lia|].
  destruct vs as [|v vs]; simpl in *; [lia|].
  inversion Hnd; subst.
  destruct a.
  - rewrite nth_scatter_notin by assumption. apply nth_set_nth_eq. assumption.
  - apply IH; auto; try lia. rewrite set_nth_length. assumption.
Qed.

Lemma nth_map_d : forall A B (f : A -> B) l a d d', a < length l -> nth a (map f l) d = f (nth a l d').
Proof.
  intros. rewrite (nth_indep _ d (f d')) by (rewrite map_length; assumption). apply map_nth.
Qed.

(* ---- Theorem: a row operation is left multiplication by the embedded block ----
   (matrix-vector form: applying the row operation to S and then multiplying by any x equals
   multiplying first and applying the same operation to the resulting vector; this is exactly
   "rowop g sl S = E(g, sl) . S" tested against every x) *)
Theorem rowop_mv : forall g sl S x, mv (rowop_mat g sl S) x = rowop_vec g sl (mv S x).
Proof.
  intros. unfold Lin.rowop_mat, Lin.rowop_vec, rowop, Lin.mv.
  rewrite map_scatter. f_equal. rewrite map_map. apply map_ext. intros grow.
  rewrite dot_lincomb. f_equal.
  rewrite (map_gather _ _ (fun w => dot w x)). reflexivity.
Qed.

(* ---- index ---- *)
Notation idx := (index Nat.eqb).

Lemma idx_lt : forall L c, In c L -> idx L c < length L.
Proof.
  induction L as [|h t IH]; intros c Hin; simpl in *; [tauto|].
  destruct (Nat.eqb h c) eqn:E; [lia|]. apply Nat.eqb_neq in E.
  destruct Hin; [congruence|]. specialize (IH _ H). lia.
Qed.

Lemma nth_idx : forall L c d, In c L -> nth (idx L c) L d = c.
Proof.
  induction L as [|h t IH]; intros c d Hin; simpl in *; [tauto|].
  destruct (Nat.eqb h c) eqn:E.
  - apply Nat.eqb_eq in E. assumption.
  - apply Nat.eqb_neq in E. destruct Hin; [congruence|]. apply IH; assumption.
Qed.

Lemma idx_nth : forall L k d, NoDup L -> k < length L -> idx L (nth k L d) = k.
Proof.
  induction L as [|h t IH]; intros k d Hnd Hk; simpl in *; [lia|].
  inversion Hnd; subst. destruct k.
  - rewrite Nat.eqb_refl. reflexivity.
  - destruct (Nat.eqb h (nth k t d)) eqn:E.
    + apply Nat.eqb_eq in E. exfalso. apply H1. rewrite E. apply nth_In. lia.
    + f_equal. apply IH; auto. lia.
Qed.

Lemma idx_inj : forall L a b, In a L -> In b L -> idx L a = idx L b -> a = b.
Proof.
  intros L a b Ha Hb E. rewrite <- (nth_idx L a 0 Ha), <- (nth_idx L b 0 Hb), E. reflexivity.
Qed.

Lemma NoDup_map_idx : forall L cs, NoDup cs -> incl cs L -> NoDup (map (idx L) cs).
Proof.
  induction cs as [|c cs IH]; intros Hnd Hincl; simpl; [constructor|].
  inversion Hnd; subst. constructor.
  - intro Hin. apply in_map_iff in Hin. destruct Hin as [c' [E Hc']].
    apply idx_inj in E; [subst; contradiction| |]; apply Hincl; simpl; auto.
  - apply IH; auto. intros x Hx. apply Hincl. right. assumption.
Qed.

Lemma find_pos_in : forall cs c, In c cs -> find_pos cs c = Some (idx cs c).
Proof.
  intros cs c Hin. unfold find_pos.
  assert (existsb (Nat.eqb c) cs = true) as ->; [|reflexivity].
  apply existsb_exists. exists c. split; [assumption|apply Nat.eqb_refl].
Qed.

Lemma find_pos_notin : forall cs c, ~ In c cs -> find_pos cs c = None.
Proof.
  intros cs c Hn. unfold find_pos.
  destruct (existsb (Nat.eqb c) cs) eqn:E; [|reflexivity].
  apply existsb_exists in E. destruct E as [x [Hx E]]. apply Nat.eqb_eq in E. subst. contradiction.
Qed.

(* ---- shift ---- *)
Lemma shift_length : forall sl vs l, length (shift sl vs l) = length l.
Proof.
  induction sl as [|s sl IH]; intros vs l; simpl; [reflexivity|].
  destruct vs; [reflexivity|]. rewrite IH, set_nth_length. reflexivity.
Qed.

Lemma nth_shift_notin : forall sl vs l k, ~ In k sl -> nth k (shift sl vs l) r0 = nth k l r0.
Proof.
  induction sl as [|s sl IH]; intros vs l k Hn; simpl; [reflexivity|].
  destruct vs; [reflexivity|]. rewrite IH by (intro; apply Hn; right; assumption).
  apply nth_set_nth_neq. intro; apply Hn; left; assumption.
Qed.

Lemma nth_shift_in : forall sl vs l a k,
  NoDup sl -> length vs = length sl -> a < length sl -> nth a sl 0 = k -> k < length l ->
  nth k (shift sl vs l) r0 = nth k l r0 + nth a vs r0.
Proof.
  induction sl as [|s sl IH]; intros vs l a k Hnd Hlen Ha Hk Hkl; simpl in *; [lia|].
  destruct vs as [|v vs]; simpl in *; [lia|].
  inversion Hnd; subst.
  destruct a.
  - rewrite nth_shift_notin by assumption. apply nth_set_nth_eq. assumption.
  - rewrite (IH vs _ a); auto; try lia.
    + f_equal. apply nth_set_nth_neq. intro E. apply H1. rewrite E. apply nth_In. lia.
    + rewrite set_nth_length. assumption.
Qed.

(* ---- well-formed generic commands ---- *)
Definition wf_gcmd (L : list nat) (c : gcmd R) : Prop :=
  match c with
  | GLin g cs => NoDup cs /\ incl cs L /\ length g = length cs
  | GShift cs vs => NoDup cs /\ incl cs L /\ length vs = length cs
  end.

Definition inv (L : list nat) (x0 : vec R) (acc : mat R * vec R) (st : nat -> R) : Prop :=
  length (fst acc) = length L /\ length (snd acc) = length L /\
  forall k, k < length L -> st (nth k L 0) = dot (nth k (fst acc) []) x0 + nth k (snd acc) r0.

Lemma rowop_length : forall E comb (d : E) g sl l, length (rowop R comb d g sl l) = length l.
Proof. intros. unfold rowop. apply scatter_length. Qed.

Lemma step_inv : forall L x0 acc st c,
  NoDup L -> wf_gcmd L c -> inv L x0 acc st -> inv L x0 (g_step L acc c) (g_denote1 c st).
Proof.
  intros L x0 [S r] st c HL Hwf [HlS [Hlr Hinv]]. simpl in *.
  destruct c as [g cs | cs vs]; simpl in *; destruct Hwf as [Hnd [Hincl Hlen]]; unfold inv; cbn [fst snd].
  - (* linear gate *)
    split; [unfold Lin.rowop_mat; rewrite rowop_length; assumption|].
    split; [unfold Lin.rowop_vec; rewrite rowop_length; assumption|].
    intros k Hk. set (c := nth k L 0).
    assert (Hsl : NoDup (map (idx L) cs)) by (apply NoDup_map_idx; assumption).
    assert (Hgather : map st cs = map (fun c => dot (nth (idx L c) S []) x0 + nth (idx L c) r r0) cs).
    { apply map_ext_in. intros c' Hc'. specialize (Hinv (idx L c') (idx_lt _ _ (Hincl _ Hc'))).
      rewrite nth_idx in Hinv by (apply Hincl; assumption). exact Hinv. }
    unfold Lin.gapply. destruct (in_dec Nat.eq_dec c cs) as [Hin|Hnin].
    + rewrite find_pos_in by assumption. set (a := idx cs c).
      assert (Ha : a < length cs) by (apply idx_lt; assumption).
      assert (Hka : nth a (map (idx L) cs) 0 = k).
      { rewrite (nth_indep _ 0 (idx L 0)) by (rewrite map_length; assumption).
        rewrite map_nth. unfold a. rewrite nth_idx by assumption. unfold c. apply idx_nth; assumption. }
      unfold Lin.rowop_mat, Lin.rowop_vec, rowop.
      rewrite (nth_scatter_in _ _ _ _ a k) by (rewrite ?map_length; auto; lia).
      rewrite (nth_scatter_in _ _ _ _ a k) by (rewrite ?map_length; auto; lia).
      repeat match goal with |- context [nth a (map ?f g) ?d] => rewrite (nth_map_d _ _ f g a d []) by lia end.
      rewrite dot_lincomb. unfold gather. rewrite !map_map.
      rewrite Hgather. rewrite dot_map_add. reflexivity.
    + rewrite find_pos_notin by assumption.
      assert (Hk' : ~ In k (map (idx L) cs)).
      { intro Hin. apply in_map_iff in Hin. destruct Hin as [c' [E Hc']]. apply Hnin.
        unfold c. rewrite <- E. rewrite nth_idx by (apply Hincl; assumption). assumption. }
      unfold Lin.rowop_mat, Lin.rowop_vec, rowop.
      rewrite !nth_scatter_notin by assumption. apply Hinv. assumption.
  - (* displacement *)
    split; [assumption|]. split; [rewrite shift_length; assumption|].
    intros k Hk. set (c := nth k L 0).
    assert (Hsl : NoDup (map (idx L) cs)) by (apply NoDup_map_idx; assumption).
    unfold Lin.gshift. destruct (in_dec Nat.eq_dec c cs) as [Hin|Hnin].
    + rewrite find_pos_in by assumption. set (a := idx cs c).
      assert (Ha : a < length cs) by (apply idx_lt; assumption).
      assert (Hka : nth a (map (idx L) cs) 0 = k).
      { rewrite (nth_indep _ 0 (idx L 0)) by (rewrite map_length; assumption).
        rewrite map_nth. unfold a. rewrite nth_idx by assumption. unfold c. apply idx_nth; assumption. }
      rewrite (nth_shift_in _ _ _ a k) by (rewrite ?map_length; auto; lia).
      unfold c. rewrite (Hinv k Hk). ring.
    + rewrite find_pos_notin by assumption.
      assert (Hk' : ~ In k (map (idx L) cs)).
      { intro Hin. apply in_map_iff in Hin. destruct Hin as [c' [E Hc']]. apply Hnin.
        unfold c. rewrite <- E. rewrite nth_idx by (apply Hincl; assumption). assumption. }
      rewrite nth_shift_notin by assumption. apply Hinv. assumption.
Qed.

Lemma outside_step : forall L c st x, wf_gcmd L c -> ~ In x L -> g_denote1 c st x = st x.
Proof.
  intros L c st x Hwf Hx. destruct c as [g cs|cs vs]; simpl in *; destruct Hwf as [_ [Hincl _]];
  unfold Lin.gapply, Lin.gshift; rewrite find_pos_notin; auto.
Qed.

(* identity start *)
Lemma dot_unit : forall n i (x : vec R), length x = n -> i < n ->
  dot (unit_vec R r0 r1 n i) x = nth i x r0.
Proof.
  intros n i x Hlen Hi. unfold unit_vec.
  assert (G : forall m s (y : vec R), length y = m ->
     dot (map (fun j => if Nat.eqb i j then r1 else r0) (seq s m)) y
     = if (andb (Nat.leb s i) (Nat.ltb i (s + m))) then nth (i - s) y r0 else r0).
  { induction m as [|m IH]; intros s y Hy; simpl.
    - destruct y; [|discriminate]. destruct (Nat.leb s i) eqn:E1; simpl; auto.
      destruct (Nat.ltb i (s + 0)) eqn:E2; auto.
      apply Nat.leb_le in E1. apply Nat.ltb_lt in E2. lia.
    - destruct y as [|b y]; [discriminate|]. simpl in Hy. rewrite IH by lia.
      destruct (Nat.eqb i s) eqn:E.
      + apply Nat.eqb_eq in E. subst s.
        rewrite Nat.leb_refl. replace (Nat.leb (S i) i) with false by (symmetry; apply Nat.leb_gt; lia).
        replace (Nat.ltb i (i + S m)) with true by (symmetry; apply Nat.ltb_lt; lia).
        rewrite Nat.sub_diag. simpl. ring.
      + apply Nat.eqb_neq in E.
        destruct (Nat.leb s i) eqn:E1.
        * apply Nat.leb_le in E1. replace (Nat.leb (S s) i) with true by (symmetry; apply Nat.leb_le; lia).
          replace (Nat.ltb i (S s + m)) with (Nat.ltb i (s + S m)) by (f_equal; lia).
          simpl. destruct (Nat.ltb i (s + S m)); [|ring].
          replace (i - s) with (S (i - S s)) by lia. simpl. ring.
        * apply Nat.leb_gt in E1. replace (Nat.leb (S s) i) with false by (symmetry; apply Nat.leb_gt; lia).
          simpl. ring. }
  rewrite (G n 0 x Hlen). simpl.
  replace (Nat.ltb i n) with true by (symmetry; apply Nat.ltb_lt; assumption).
  rewrite Nat.sub_0_r. reflexivity.
Qed.

Lemma inv_init : forall L st, inv L (map st L) (identity R r0 r1 (length L), zeros R r0 (length L)) st.
Proof.
  intros L st. unfold inv, identity, zeros. simpl. rewrite !map_length, !seq_length.
  split; [reflexivity|]. split; [reflexivity|]. intros k Hk.
  repeat match goal with |- context [nth k (map ?f (seq 0 ?n)) ?d] =>
    rewrite (nth_map_d _ _ f (seq 0 n) k d 0) by (rewrite seq_length; assumption) end.
  rewrite seq_nth by assumption. simpl.
  rewrite dot_unit by (rewrite ?map_length; auto).
  rewrite (nth_map_d _ _ st L k r0 0) by assumption. ring.
Qed.

(* ---- Main generic theorem: for every enumeration L of the coordinates and every well-formed
   command list, the accumulated (S, r) read with slot k <-> coordinate nth k L is the ordered
   composition of the commands; coordinates outside L are untouched ---- *)
Theorem g_run_correct : forall L cmds st,
  NoDup L -> Forall (wf_gcmd L) cmds ->
  let acc := g_run L cmds in
  (forall k, k < length L ->
     g_denote cmds st (nth k L 0) = dot (nth k (fst acc) []) (map st L) + nth k (snd acc) r0)
  /\ (forall x, ~ In x L -> g_denote cmds st x = st x)
  /\ length (fst acc) = length L /\ length (snd acc) = length L.
Proof.
  intros L cmds st HL Hwf. unfold Lin.g_run, Lin.g_denote.
  assert (G : forall cmds acc st', Forall (wf_gcmd L) cmds -> inv L (map st L) acc st' ->
              (forall x, ~ In x L -> st' x = st x) ->
              inv L (map st L) (fold_left (g_step L) cmds acc) (fold_left (fun s c => g_denote1 c s) cmds st')
              /\ (forall x, ~ In x L -> fold_left (fun s c => g_denote1 c s) cmds st' x = st x)).
  { clear cmds Hwf. induction cmds as [|c cmds IH]; intros acc st' Hwf Hinv Hout; simpl.
    - split; assumption.
    - inversion Hwf; subst. apply IH; auto.
      + apply step_inv; assumption.
      + intros x Hx. rewrite (outside_step L) by assumption. apply Hout. assumption. }
  destruct (G cmds _ st Hwf (inv_init L st) (fun x _ => eq_refl)) as [[H1 [H2 H3]] H4].
  simpl. repeat split; assumption.
Qed.

End LinProofs.
