(* C11 — models of GaussianUnitary.compile (compilers/gaussian_unitary.py) and Passive.compile
   (compilers/passive.py).  Definitions only.

   Scalars: any type K with ring operations (executed at primitive floats, theorems for every
   commutative ring).  Values of cos/sin/cosh/sinh/sqrt/exp(i.) are *inputs* (the `prims` of a
   command), computed by numpy in the harness on the same arguments the code uses.

   `used` is the order in which `set(...)` enumerates the used modes: an arbitrary duplicate-free
   list, supplied from outside (the harness passes the order Python really produced).  Since the
   "fix:" commits bc7648a / f18521d the code sorts it (used_modes = sorted(set(...))) and honours the
   dagger flag; dict_indices[m] = index (sort used) m, ord_reg = the used registers sorted by index.
   The behaviour before those commits is kept as `*_old` so that its refutation stays checked. *)
From Coq Require Import List Arith Bool.
Import ListNotations.
From SFV Require Import C11.Lin.

Section GU.
Variable K : Type.
Variables (k0 k1 : K) (kadd kmul ksub : K -> K -> K) (kopp : K -> K).
Variables (two half : K).

Notation "a + b" := (kadd a b). Notation "a * b" := (kmul a b).
Notation "a - b" := (ksub a b). Notation "- a" := (kopp a).

(* kinds: 0 Dgate, 1 Rgate, 2 Sgate, 3 S2gate, 4 BSgate, 5 MZgate, 6 sMZgate,
          7 Interferometer (gx = Re U, gy = Im U), 8 GaussianTransform (gx = S) *)
Record gu_cmd := mkGU { gk : nat; gp : list K; gx : list (list K); gy : list (list K); gm : list nat; gd : bool }.

Definition p (l : list K) (i : nat) : K := nth i l k0.

Fixpoint map2 {A B C} (f : A -> B -> C) (l1 : list A) (l2 : list B) : list C :=
  match l1, l2 with a :: t1, b :: t2 => f a b :: map2 f t1 t2 | _, _ => [] end.

(* thewalrus.symplectic.interferometer: [[X, -Y], [Y, X]] *)
Definition interf (X Y : list (list K)) : list (list K) :=
  map2 (@app K) X (map (map kopp) Y) ++ map2 (@app K) Y X.

Definition transpose2 (M : list (list K)) : list (list K) :=
  match M with
  | [[a; b]; [c; d]] => [[a; c]; [b; d]]
  | _ => M
  end.

(* real and imaginary parts of the 2x2 unitaries built inline by both compilers *)
Definition mz_X (l : list K) : list (list K) :=
  let cv := p l 0 in let sv := p l 1 in let cu := p l 2 in let su := p l 3 in
  [[half * (cu * (cv - k1) - su * sv); half * (- sv)];
   [half * (- (cu * sv + su * (k1 + cv))); half * (k1 - cv)]].
Definition mz_Y (l : list K) : list (list K) :=
  let cv := p l 0 in let sv := p l 1 in let cu := p l 2 in let su := p l 3 in
  [[half * (cu * sv + su * (cv - k1)); half * (k1 + cv)];
   [half * (cu * (k1 + cv) - su * sv); half * (- sv)]].
Definition smz_X (l : list K) : list (list K) :=
  let cs := p l 0 in let sd := p l 2 in let cd := p l 3 in
  [[cs * sd; cs * cd]; [cs * cd; cs * (- sd)]].
Definition smz_Y (l : list K) : list (list K) :=
  let ss := p l 1 in let sd := p l 2 in let cd := p l 3 in
  [[ss * sd; ss * cd]; [ss * cd; ss * (- sd)]].
Definition bs_X (l : list K) : list (list K) :=
  let ct := p l 0 in let st := p l 1 in let cp := p l 2 in
  [[ct; (- cp) * st]; [cp * st; ct]].
Definition bs_Y (l : list K) : list (list K) :=
  let st := p l 1 in let sp := p l 3 in
  [[k0; sp * st]; [sp * st; k0]].

(* the symplectic block handed to _apply_symp_one_mode_gate / _apply_symp_two_mode_gate / expand.
   inv = true builds the block of the inverse gate (what an honoured dagger flag means):
   p[0] negated for R, S, S2, BS; U^dagger for MZ / sMZ. *)
Definition gu_block (inv : bool) (c : gu_cmd) : list (list K) :=
  let l := gp c in
  let sg := fun x : K => if inv then - x else x in
  match gk c with
  | 1 => interf [[p l 0]] [[sg (p l 1)]]
  | 2 => let ch := p l 0 in let sh := sg (p l 1) in let cp := p l 2 in let sp := p l 3 in
         [[ch - sh * cp; (- sh) * sp]; [(- sh) * sp; ch + sh * cp]]
  | 3 => let ch := p l 0 in let sh := sg (p l 1) in let cp := p l 2 in let sp := p l 3 in
         [[ch; cp * sh; k0; sp * sh];
          [cp * sh; ch; sp * sh; k0];
          [k0; sp * sh; ch; (- cp) * sh];
          [sp * sh; k0; (- cp) * sh; ch]]
  | 4 => let l' := [p l 0; sg (p l 1); p l 2; p l 3] in interf (bs_X l') (bs_Y l')
  | 5 => if inv then interf (transpose2 (mz_X l)) (map (map kopp) (transpose2 (mz_Y l)))
         else interf (mz_X l) (mz_Y l)
  | 6 => if inv then interf (transpose2 (smz_X l)) (map (map kopp) (transpose2 (smz_Y l)))
         else interf (smz_X l) (smz_Y l)
  | 7 => interf (gx c) (gy c)
  | _ => gx c
  end.

(* Dgate: rnet[i] += 2*Re(alpha), rnet[i+M] += 2*Im(alpha), alpha = a*exp(i phi), prims [a; cos; sin] *)
Definition gu_disp (inv : bool) (c : gu_cmd) : list K :=
  let a := if inv then - (p (gp c) 0) else p (gp c) 0 in
  [two * (a * p (gp c) 1); two * (a * p (gp c) 2)].

Definition idx := index Nat.eqb.

(* rows touched for a gate on `ms`: dict_indices[m] for the x rows, + M for the p rows *)
Definition gu_slots (enum ms : list nat) : list nat :=
  map (idx enum) ms ++ map (fun m => Nat.add (idx enum m) (length enum)) ms.

(* one iteration of the compile loop: for a daggered D/R/S/S2/BS gate the code negates params[0]
   before building the block, for MZ/sMZ it takes U.conj().T -- gu_block (gd c) / gu_disp (gd c) *)
Definition gu_step (enum : list nat) (acc : mat K * vec K) (c : gu_cmd) : mat K * vec K :=
  match gk c with
  | 0 => (fst acc, shift K k0 kadd (gu_slots enum (gm c)) (gu_disp (gd c) c) (snd acc))
  | _ => (rowop_mat K kadd kmul (gu_block (gd c) c) (gu_slots enum (gm c)) (fst acc),
          rowop_vec K k0 kadd kmul (gu_block (gd c) c) (gu_slots enum (gm c)) (snd acc))
  end.

Definition gu_run (enum : list nat) (cmds : list gu_cmd) : mat K * vec K :=
  fold_left (gu_step enum) cmds (identity K k0 k1 (Nat.mul 2 (length enum)), zeros K k0 (Nat.mul 2 (length enum))).

Fixpoint insert (x : nat) (l : list nat) : list nat :=
  match l with [] => [x] | h :: t => if Nat.leb x h then x :: l else h :: insert x t end.
Definition sort (l : list nat) : list nat := fold_right insert [] l.

(* what compile returns: (Snet, rnet, [r.ind for r in ord_reg]); used_modes = sorted(set(...)) *)
Definition gu_compile (used : list nat) (cmds : list gu_cmd) : mat K * vec K * list nat :=
  (gu_run (sort used) cmds, sort used).

(* behaviour before the fix commits: rows indexed by the raw set enumeration, dagger flag not consulted *)
Definition gu_step_old (enum : list nat) (acc : mat K * vec K) (c : gu_cmd) : mat K * vec K :=
  match gk c with
  | 0 => (fst acc, shift K k0 kadd (gu_slots enum (gm c)) (gu_disp false c) (snd acc))
  | _ => (rowop_mat K kadd kmul (gu_block false c) (gu_slots enum (gm c)) (fst acc),
          rowop_vec K k0 kadd kmul (gu_block false c) (gu_slots enum (gm c)) (snd acc))
  end.
Definition gu_run_old (enum : list nat) (cmds : list gu_cmd) : mat K * vec K :=
  fold_left (gu_step_old enum) cmds (identity K k0 k1 (Nat.mul 2 (length enum)), zeros K k0 (Nat.mul 2 (length enum))).
Definition gu_compile_old (enum : list nat) (cmds : list gu_cmd) : mat K * vec K * list nat :=
  (gu_run_old enum cmds, sort enum).

(* ---- register-level meaning ----
   global phase-space coordinates: x of mode m is coordinate 2m, p of mode m is 2m+1 *)
Definition coords (ms : list nat) : list nat := map (fun m => Nat.mul 2 m) ms ++ map (fun m => S (Nat.mul 2 m)) ms.

(* meaning of a source command, honouring its dagger flag *)
Definition gu_sem (c : gu_cmd) : gcmd K :=
  match gk c with
  | 0 => GShift (coords (gm c)) (gu_disp (gd c) c)
  | _ => GLin (gu_block (gd c) c) (coords (gm c))
  end.

(* meaning of the compiled program [GaussianTransform(Snet) | ord_reg ; displacements on ord_reg] *)
Definition gu_output (out : mat K * vec K * list nat) : list (gcmd K) :=
  [GLin (fst (fst out)) (coords (snd out)); GShift (coords (snd out)) (snd (fst out))].

End GU.

(* ====================================================================================== *)
(* Passive compiler: the same loop over complex numbers *)
Section Cplx.
Variable K : Type.
Variables (k0 k1 : K) (kadd kmul ksub : K -> K -> K) (kopp : K -> K).
Definition C := (K * K)%type.
Definition c0 : C := (k0, k0).
Definition c1 : C := (k1, k0).
Definition cadd (a b : C) : C := (kadd (fst a) (fst b), kadd (snd a) (snd b)).
Definition cmul (a b : C) : C :=
  (ksub (kmul (fst a) (fst b)) (kmul (snd a) (snd b)), kadd (kmul (fst a) (snd b)) (kmul (snd a) (fst b))).
Definition copp (a : C) : C := (kopp (fst a), kopp (snd a)).
Definition csub (a b : C) : C := (ksub (fst a) (fst b), ksub (snd a) (snd b)).
Definition cconj (a : C) : C := (fst a, kopp (snd a)).
End Cplx.

Section Passive.
Variable K : Type.
Variables (k0 k1 : K) (kadd kmul ksub : K -> K -> K) (kopp : K -> K).
Variable (half : K).
Notation CK := (C K).
Notation "a * b" := (cmul K kadd kmul ksub a b).
Notation "a + b" := (cadd K kadd a b).
Notation "a - b" := (csub K ksub a b).
Notation "- a" := (copp K kopp a).
Notation re x := (x, k0).
Notation ci := (k0, k1).
Notation cone := (k1, k0).
Notation chalf := (half, k0).

(* kinds: 1 Rgate (prims [cos; sin]), 2 LossChannel (prims [sqrt T]), 4 BSgate (prims [ct; st; cp; sp]),
   5 MZgate ([cv; sv; cu; su]), 6 sMZgate ([cos sigma; sin sigma; sin delta; cos delta]),
   7 Interferometer / 8 PassiveChannel (pu = the complex matrix) *)
Record pa_cmd := mkPA { pk : nat; pp : list K; pu : list (list CK); pm : list nat; pd : bool }.

Definition q (l : list K) (i : nat) : K := nth i l k0.

Definition ctranspose2 (M : list (list CK)) : list (list CK) :=
  match M with
  | [[a; b]; [c; d]] => [[cconj K kopp a; cconj K kopp c]; [cconj K kopp b; cconj K kopp d]]
  | _ => M
  end.

Definition pa_block (inv : bool) (c : pa_cmd) : list (list CK) :=
  let l := pp c in
  match pk c with
  | 1 => [[ (q l 0, if inv then kopp (q l 1) else q l 1) ]]
  | 2 => [[ re (q l 0) ]]
  | 4 => let ct := re (q l 0) in let st := re (if inv then kopp (q l 1) else q l 1) in
         let eip := (q l 2, q l 3) in
         [[ct; (- (cconj K kopp eip)) * st]; [eip * st; ct]]
  | 5 => let v := (q l 0, q l 1) in let u := (q l 2, q l 3) in
         let U := [[chalf * (u * (v - cone)); chalf * (ci * (cone + v))];
                   [chalf * ((ci * u) * (cone + v)); chalf * (cone - v)]] in
         if inv then ctranspose2 U else U
  | 6 => let es := (q l 0, q l 1) in let sd := re (q l 2) in let cd := re (q l 3) in
         let U := [[es * sd; es * cd]; [es * cd; es * (- sd)]] in
         if inv then ctranspose2 U else U
  | _ => pu c
  end.

Definition pa_slots (enum ms : list nat) : list nat := map (index Nat.eqb enum) ms.

(* one iteration of Passive.compile's loop (dagger honoured as in gaussian_unitary) *)
Definition pa_step (enum : list nat) (T : mat CK) (c : pa_cmd) : mat CK :=
  rowop_mat CK (cadd K kadd) (cmul K kadd kmul ksub) (pa_block (pd c) c) (pa_slots enum (pm c)) T.

Definition pa_run (enum : list nat) (cmds : list pa_cmd) : mat CK :=
  fold_left (pa_step enum) cmds (identity CK (c0 K k0) (c1 K k0 k1) (length enum)).

Definition pa_compile (used : list nat) (cmds : list pa_cmd) : mat CK * list nat :=
  (pa_run (sort used) cmds, sort used).

(* behaviour before the fix commits *)
Definition pa_step_old (enum : list nat) (T : mat CK) (c : pa_cmd) : mat CK :=
  rowop_mat CK (cadd K kadd) (cmul K kadd kmul ksub) (pa_block false c) (pa_slots enum (pm c)) T.
Definition pa_run_old (enum : list nat) (cmds : list pa_cmd) : mat CK :=
  fold_left (pa_step_old enum) cmds (identity CK (c0 K k0) (c1 K k0 k1) (length enum)).
Definition pa_compile_old (enum : list nat) (cmds : list pa_cmd) : mat CK * list nat :=
  (pa_run_old enum cmds, sort enum).

(* register-level meaning on mode amplitudes (coordinate m = mode m) *)
Definition pa_sem (c : pa_cmd) : gcmd CK := GLin (pa_block (pd c) c) (pm c).
Definition pa_output (out : mat CK * list nat) : list (gcmd CK) := [GLin (fst out) (snd out)].

End Passive.
