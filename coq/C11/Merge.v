(* C11 — structural validator for gaussian_merge outputs (translation validation).
   A hybrid command is abstracted to (id, modes): id = 0 for a Gaussian command, otherwise a number
   identifying the non-Gaussian operation (class, parameters, dagger) assigned by the harness. *)
From Coq Require Import List Arith Bool.
Import ListNotations.

Record hcmd := mkH { hid : nat; hmodes : list nat }.

Definition on_wire (w : nat) (c : hcmd) : bool := negb (Nat.eqb (hid c) 0) && existsb (Nat.eqb w) (hmodes c).
Definition proj (w : nat) (l : list hcmd) : list hcmd := filter (on_wire w) l.

Fixpoint list_eqb {A} (eqb : A -> A -> bool) (l1 l2 : list A) : bool :=
  match l1, l2 with
  | [], [] => true
  | x :: t1, y :: t2 => eqb x y && list_eqb eqb t1 t2
  | _, _ => false
  end.
Definition hcmd_eqb (a b : hcmd) : bool := Nat.eqb (hid a) (hid b) && list_eqb Nat.eqb (hmodes a) (hmodes b).

Definition wires (l : list hcmd) : list nat := flat_map hmodes l.

(* accept iff on every wire touched by either circuit the sequence of non-Gaussian commands is the same *)
Definition check_merge (src out : list hcmd) : bool :=
  forallb (fun w => list_eqb hcmd_eqb (proj w src) (proj w out)) (wires src ++ wires out).

Lemma list_eqb_sound : forall A (eqb : A -> A -> bool), (forall a b, eqb a b = true -> a = b) ->
  forall l1 l2, list_eqb eqb l1 l2 = true -> l1 = l2.
Proof.
  intros A eqb H. induction l1 as [|x t IH]; destruct l2 as [|y t2]; simpl; intros E; try discriminate; auto.
  apply andb_prop in E. destruct E as [E1 E2]. f_equal; auto.
Qed.

Lemma hcmd_eqb_sound : forall a b, hcmd_eqb a b = true -> a = b.
Proof.
  intros [i1 m1] [i2 m2] E. unfold hcmd_eqb in E. simpl in E. apply andb_prop in E. destruct E as [E1 E2].
  apply Nat.eqb_eq in E1. apply (list_eqb_sound _ Nat.eqb) in E2; [subst; reflexivity|].
  intros a b. apply Nat.eqb_eq.
Qed.

Lemma proj_off_wire : forall w l, ~ In w (wires l) -> proj w l = [].
Proof.
  induction l as [|c l IH]; intros Hn; simpl; [reflexivity|].
  unfold wires in Hn. simpl in Hn.
  assert (H1 : ~ In w (hmodes c)) by (intro; apply Hn; apply in_or_app; left; assumption).
  assert (H2 : ~ In w (wires l)) by (intro; apply Hn; apply in_or_app; right; assumption).
  unfold on_wire.
  assert (E : existsb (Nat.eqb w) (hmodes c) = false).
  { destruct (existsb (Nat.eqb w) (hmodes c)) eqn:E; [|reflexivity].
    apply existsb_exists in E. destruct E as [x [Hx E]]. apply Nat.eqb_eq in E. subst. contradiction. }
  rewrite E, andb_false_r. apply IH. assumption.
Qed.

Theorem check_merge_sound : forall src out, check_merge src out = true -> forall w, proj w src = proj w out.
Proof.
  intros src out H w. unfold check_merge in H. rewrite forallb_forall in H.
  destruct (in_dec Nat.eq_dec w (wires src ++ wires out)) as [Hin|Hn].
  - apply (list_eqb_sound _ hcmd_eqb hcmd_eqb_sound). apply H. assumption.
  - rewrite !proj_off_wire; [reflexivity| |]; intro; apply Hn; apply in_or_app; auto.
Qed.
