(* C11 — the compile loops of gaussian_unitary.py and passive.py accumulate the ordered product
   of the source operations, for every enumeration of the used modes. *)
From Coq Require Import List Arith Lia Ring Bool ZArith.
Import ListNotations.
From SFV Require Import C11.Lin C11.LinProofs C11.Model.

(* ---- small list facts ---- *)
Lemma NoDup_app_intro : forall A (l1 l2 : list A), NoDup l1 -> NoDup l2 -> (forall x, In x l1 -> ~ In x l2) -> NoDup (l1 ++ l2).
Proof.
  induction l1 as [|a l1 IH]; intros l2 H1 H2 Hd; simpl; [assumption|].
  inversion H1; subst. constructor.
  - intro Hin. apply in_app_or in Hin. destruct Hin; [contradiction|]. apply (Hd a); simpl; auto.
  - apply IH; auto. intros x Hx. apply Hd. right. assumption.
Qed.

Lemma NoDup_map_inj : forall (f : nat -> nat) l, (forall a b, f a = f b -> a = b) -> NoDup l -> NoDup (map f l).
Proof.
  induction l as [|a l IH]; intros Hf Hnd; simpl; [constructor|].
  inversion Hnd; subst. constructor; [|apply IH; assumption].
  intro Hin. apply in_map_iff in Hin. destruct Hin as [b [E Hb]]. apply Hf in E. subst. contradiction.
Qed.

Lemma NoDup_coords : forall ms, NoDup ms -> NoDup (coords ms).
Proof.
  intros ms H. unfold coords. apply NoDup_app_intro.
  - apply NoDup_map_inj; [intros; lia|assumption].
  - apply NoDup_map_inj; [intros; lia|assumption].
  - intros x Hx Hy. apply in_map_iff in Hx. apply in_map_iff in Hy.
    destruct Hx as [a [Ea _]]. destruct Hy as [b [Eb _]]. lia.
Qed.

Lemma incl_coords : forall ms enum, incl ms enum -> incl (coords ms) (coords enum).
Proof.
  intros ms enum H x Hx. unfold coords in *. apply in_app_or in Hx. apply in_or_app.
  destruct Hx as [Hx|Hx]; apply in_map_iff in Hx; destruct Hx as [a [E Ha]]; [left|right];
  apply in_map_iff; exists a; split; auto.
Qed.

Lemma coords_length : forall ms, length (coords ms) = 2 * length ms.
Proof. intros. unfold coords. rewrite app_length, !map_length. lia. Qed.

Lemma idx_app_l : forall A B c, In c A -> index Nat.eqb (A ++ B) c = index Nat.eqb A c.
Proof.
  induction A as [|h t IH]; intros B c Hin; simpl in *; [tauto|].
  destruct (Nat.eqb h c) eqn:E; [reflexivity|]. apply Nat.eqb_neq in E.
  destruct Hin; [congruence|]. f_equal. apply IH. assumption.
Qed.

Lemma idx_app_r : forall A B c, ~ In c A -> index Nat.eqb (A ++ B) c = length A + index Nat.eqb B c.
Proof.
  induction A as [|h t IH]; intros B c Hn; simpl in *; [reflexivity|].
  destruct (Nat.eqb h c) eqn:E.
  - apply Nat.eqb_eq in E. exfalso. apply Hn. left. assumption.
  - f_equal. apply IH. intro. apply Hn. right. assumption.
Qed.

Lemma idx_map_inj : forall (f : nat -> nat) A m, (forall a b, f a = f b -> a = b) ->
  index Nat.eqb (map f A) (f m) = index Nat.eqb A m.
Proof.
  induction A as [|h t IH]; intros m Hf; simpl; [reflexivity|].
  destruct (Nat.eqb h m) eqn:E.
  - apply Nat.eqb_eq in E. subst. rewrite Nat.eqb_refl. reflexivity.
  - apply Nat.eqb_neq in E. destruct (Nat.eqb (f h) (f m)) eqn:E2.
    + apply Nat.eqb_eq in E2. apply Hf in E2. contradiction.
    + f_equal. apply IH. assumption.
Qed.

(* dict_indices / i+M addressing of the code = positions in the coordinate enumeration *)
Lemma gu_slots_coords : forall enum ms, incl ms enum ->
  gu_slots enum ms = map (index Nat.eqb (coords enum)) (coords ms).
Proof.
  intros enum ms Hincl. unfold gu_slots, coords. rewrite map_app, !map_map. f_equal.
  - apply map_ext_in. intros m Hm. unfold idx.
    rewrite idx_app_l by (apply in_map; apply Hincl; assumption).
    symmetry. apply idx_map_inj. intros; lia.
  - apply map_ext_in. intros m Hm. unfold idx.
    rewrite idx_app_r.
    + rewrite map_length. rewrite (idx_map_inj (fun m => S (2 * m))) by (intros; lia). lia.
    + intro Hin. apply in_map_iff in Hin. destruct Hin as [a [E _]]. lia.
Qed.

(* ---- insertion sort keeps the elements and duplicate-freeness ---- *)
Lemma in_insert : forall a l x, In x (insert a l) <-> x = a \/ In x l.
Proof.
  induction l as [|h t IH]; intros x; simpl.
  - intuition.
  - destruct (Nat.leb a h); simpl; [intuition|]. rewrite IH. intuition.
Qed.

Lemma in_sort : forall l x, In x (sort l) <-> In x l.
Proof.
  induction l as [|a l IH]; intros x; simpl; [tauto|].
  unfold sort in *. simpl. rewrite in_insert, IH. intuition.
Qed.

Lemma NoDup_insert : forall a l, ~ In a l -> NoDup l -> NoDup (insert a l).
Proof.
  induction l as [|h t IH]; intros Hn Hnd; simpl.
  - constructor; [simpl; tauto|constructor].
  - destruct (Nat.leb a h).
    + constructor; assumption.
    + inversion Hnd; subst. constructor.
      * rewrite in_insert. intros [E|Hin]; [subst; apply Hn; left; reflexivity|contradiction].
      * apply IH; auto. intro; apply Hn; right; assumption.
Qed.

Lemma NoDup_sort : forall l, NoDup l -> NoDup (sort l).
Proof.
  induction l as [|a l IH]; intros H; simpl; [constructor|].
  inversion H; subst. unfold sort in *. simpl. apply NoDup_insert; [|apply IH; assumption].
  intro Hin. apply (in_sort l a) in Hin. contradiction.
Qed.

Section GUProofs.
Variable K : Type.
Variables (k0 k1 : K) (kadd kmul ksub : K -> K -> K) (kopp : K -> K).
Variables (two half : K).
Hypothesis Kth : ring_theory k0 k1 kadd kmul ksub kopp (@eq K).

Notation gu_cmd := (gu_cmd K).
Notation gu_block := (gu_block K k0 k1 kadd kmul ksub kopp half).
Notation gu_step := (gu_step K k0 k1 kadd kmul ksub kopp two half).
Notation gu_run := (gu_run K k0 k1 kadd kmul ksub kopp two half).
Notation gu_compile := (gu_compile K k0 k1 kadd kmul ksub kopp two half).
Notation gu_sem := (gu_sem K k0 k1 kadd kmul ksub kopp two half).
Notation g_denote := (g_denote K k0 kadd kmul).
Notation g_run := (g_run K k0 k1 kadd kmul).
Notation g_step := (g_step K k0 kadd kmul).

(* a command the compiler accepts, well-shaped, on modes of the enumeration (any dagger flag) *)
Definition gu_wf (enum : list nat) (c : gu_cmd) : Prop :=
  NoDup (gm K c) /\ incl (gm K c) enum /\
  (if Nat.eqb (gk K c) 0 then length (gm K c) = 1 else length (gu_block (gd K c) c) = 2 * length (gm K c)).

Lemma gu_wf_sort : forall used c, gu_wf used c -> gu_wf (sort used) c.
Proof.
  intros used c [H1 [H2 H3]]. split; [assumption|]. split; [|assumption].
  intros x Hx. apply in_sort. apply H2. assumption.
Qed.

Lemma gu_step_generic : forall enum acc c, gu_wf enum c ->
  gu_step enum acc c = g_step (coords enum) acc (gu_sem c).
Proof.
  intros enum acc c [Hnd [Hincl Hshape]].
  unfold Model.gu_step, Model.gu_sem.
  destruct (gk K c) as [|n]; simpl; rewrite gu_slots_coords by assumption; reflexivity.
Qed.

Lemma gu_wf_generic : forall enum c, gu_wf enum c -> wf_gcmd K (coords enum) (gu_sem c).
Proof.
  intros enum c [Hnd [Hincl Hshape]]. unfold Model.gu_sem.
  destruct (gk K c) as [|n]; simpl in *.
  - split; [apply NoDup_coords; assumption|]. split; [apply incl_coords; assumption|].
    rewrite coords_length, Hshape. reflexivity.
  - split; [apply NoDup_coords; assumption|]. split; [apply incl_coords; assumption|].
    rewrite coords_length. assumption.
Qed.

Lemma gu_run_generic : forall enum cmds, Forall (gu_wf enum) cmds ->
  gu_run enum cmds = g_run (coords enum) (map gu_sem cmds).
Proof.
  intros enum cmds Hwf. unfold Model.gu_run, Lin.g_run. rewrite coords_length.
  generalize (identity K k0 k1 (2 * length enum), zeros K k0 (2 * length enum)).
  induction cmds as [|c cmds IH]; intros acc; simpl; [reflexivity|].
  inversion Hwf; subst. rewrite gu_step_generic by assumption. apply IH. assumption.
Qed.

(* For EVERY duplicate-free enumeration of the used modes: the accumulated (Snet, rnet), read with
   slot k <-> mode nth k enum, acts on the whole register exactly as the ordered product of the
   source operations; modes outside the enumeration are untouched. *)
Theorem gu_correct_enum : forall enum cmds st,
  NoDup enum -> Forall (gu_wf enum) cmds ->
  forall x, g_denote (gu_output K (gu_run enum cmds, enum)) st x = g_denote (map gu_sem cmds) st x.
Proof.
  intros enum cmds st Hnd Hwf x.
  assert (HL : NoDup (coords enum)) by (apply NoDup_coords; assumption).
  assert (Hwf' : Forall (wf_gcmd K (coords enum)) (map gu_sem cmds)).
  { apply Forall_forall. intros g Hg. apply in_map_iff in Hg. destruct Hg as [c [E Hc]]. subst.
    apply gu_wf_generic. eapply Forall_forall in Hwf; eauto. }
  destruct (g_run_correct K k0 k1 kadd kmul ksub kopp Kth (coords enum) (map gu_sem cmds) st HL Hwf')
    as [Hin [Hout [HlS Hlr]]].
  rewrite gu_run_generic by assumption.
  set (acc := g_run (coords enum) (map gu_sem cmds)) in *.
  unfold gu_output, Lin.g_denote. simpl. unfold Lin.gshift, Lin.gapply.
  destruct (in_dec Nat.eq_dec x (coords enum)) as [Hx|Hx].
  - rewrite find_pos_in by assumption.
    specialize (Hin (index Nat.eqb (coords enum) x) (idx_lt _ _ Hx)).
    rewrite nth_idx in Hin by assumption. unfold Lin.g_denote in Hin. rewrite Hin. reflexivity.
  - rewrite find_pos_notin by assumption. symmetry. apply Hout. assumption.
Qed.

(* What compile returns: used_modes = sorted(set(...)), ord_reg sorted.  For EVERY enumeration `used`
   that the set may produce and every dagger flag, the compiled program acts as the source. *)
Theorem gu_correct : forall used cmds st,
  NoDup used -> Forall (gu_wf used) cmds ->
  forall x, g_denote (gu_output K (gu_compile used cmds)) st x = g_denote (map gu_sem cmds) st x.
Proof.
  intros used cmds st Hnd Hwf x. unfold Model.gu_compile. apply gu_correct_enum.
  - apply NoDup_sort. assumption.
  - eapply Forall_impl; [|exact Hwf]. intros c Hc. apply gu_wf_sort. assumption.
Qed.

(* the result does not depend on the enumeration at all: only on the set *)
Theorem gu_compile_order_independent : forall used used' cmds,
  sort used = sort used' -> gu_compile used cmds = gu_compile used' cmds.
Proof. intros used used' cmds E. unfold Model.gu_compile. rewrite E. reflexivity. Qed.

End GUProofs.

(* ====================================================================================== *)
Section CRing.
Variable K : Type.
Variables (k0 k1 : K) (kadd kmul ksub : K -> K -> K) (kopp : K -> K).
Hypothesis Kth : ring_theory k0 k1 kadd kmul ksub kopp (@eq K).
Add Ring Kring : Kth.

Lemma C_ring : ring_theory (c0 K k0) (c1 K k0 k1) (cadd K kadd) (cmul K kadd kmul ksub) (csub K ksub) (copp K kopp) (@eq (C K)).
Proof.
  constructor; intros; repeat match goal with x : C K |- _ => destruct x end;
  unfold c0, c1, cadd, cmul, csub, copp; simpl; f_equal; ring.
Qed.
End CRing.

Section PassiveProofs.
Variable K : Type.
Variables (k0 k1 : K) (kadd kmul ksub : K -> K -> K) (kopp : K -> K).
Variable (half : K).
Hypothesis Kth : ring_theory k0 k1 kadd kmul ksub kopp (@eq K).
Add Ring Kring2 : Kth.

Notation CK := (C K).
Notation z := (c0 K k0).
Notation o := (c1 K k0 k1).
Notation ca := (cadd K kadd).
Notation cm := (cmul K kadd kmul ksub).
Notation pa_block := (pa_block K k0 k1 kadd kmul ksub kopp half).
Notation pa_step := (pa_step K k0 k1 kadd kmul ksub kopp half).
Notation pa_run := (pa_run K k0 k1 kadd kmul ksub kopp half).
Notation pa_compile := (pa_compile K k0 k1 kadd kmul ksub kopp half).
Notation pa_sem := (pa_sem K k0 k1 kadd kmul ksub kopp half).
Notation g_denote := (g_denote CK z ca cm).
Notation g_run := (g_run CK z o ca cm).
Notation g_step := (g_step CK z ca cm).
Notation Cth := (C_ring K k0 k1 kadd kmul ksub kopp Kth).

Definition pa_wf (enum : list nat) (c : pa_cmd K) : Prop :=
  NoDup (pm K c) /\ incl (pm K c) enum /\ length (pa_block (pd K c) c) = length (pm K c).

Lemma pa_wf_generic : forall enum c, pa_wf enum c -> wf_gcmd CK enum (pa_sem c).
Proof. intros enum c [H1 [H2 H4]]. unfold Model.pa_sem. simpl. auto. Qed.

Lemma pa_wf_sort : forall used c, pa_wf used c -> pa_wf (sort used) c.
Proof.
  intros used c [H1 [H2 H3]]. split; [assumption|]. split; [|assumption].
  intros x Hx. apply in_sort. apply H2. assumption.
Qed.

Lemma pa_run_generic : forall enum cmds, Forall (pa_wf enum) cmds ->
  pa_run enum cmds = fst (g_run enum (map pa_sem cmds)).
Proof.
  intros enum cmds Hwf. unfold Model.pa_run, Lin.g_run.
  generalize (zeros CK z (length enum)). generalize (identity CK z o (length enum)).
  induction cmds as [|c cmds IH]; intros T r; cbn [fold_left map]; [reflexivity|].
  inversion Hwf; subst.
  assert (E : g_step enum (T, r) (pa_sem c) =
              (pa_step enum T c, rowop_vec CK z ca cm (pa_block (pd K c) c) (pa_slots enum (pm K c)) r)).
  { unfold Model.pa_sem. reflexivity. }
  rewrite E. apply IH. assumption.
Qed.

(* the displacement accumulator of the generic loop stays zero when there are only linear gates *)
Definition allz (l : list CK) : Prop := Forall (eq z) l.

Lemma dot_allz : forall g l, allz l -> dot CK z ca cm g l = z.
Proof.
  induction g as [|a g IH]; intros l H; simpl; [reflexivity|].
  destruct l as [|b l]; [reflexivity|]. inversion H; subst. rewrite IH by assumption.
  destruct a as [a1 a2]. unfold c0, cadd, cmul. simpl. f_equal; ring.
Qed.

Lemma set_nth_allz : forall n v l, v = z -> allz l -> allz (set_nth n v l).
Proof.
  induction n; intros v l Hv H; destruct l; simpl; auto; inversion H; subst; constructor; auto.
  apply IHn; auto.
Qed.

Lemma scatter_allz : forall sl vs l, allz vs -> allz l -> allz (scatter sl vs l).
Proof.
  induction sl as [|s sl IH]; intros vs l Hv Hl; simpl; [assumption|].
  destruct vs as [|v vs]; [assumption|]. inversion Hv; subst. apply IH; auto.
  apply set_nth_allz; auto.
Qed.

Lemma gather_allz : forall sl l, allz l -> allz (gather z sl l).
Proof.
  intros sl l H. unfold gather, allz. apply Forall_forall. intros x Hx. apply in_map_iff in Hx.
  destruct Hx as [s [E _]]. subst.
  destruct (Nat.lt_ge_cases s (length l)) as [Hlt|Hge].
  - eapply Forall_forall in H; [exact H|]. apply nth_In. assumption.
  - rewrite nth_overflow by assumption. reflexivity.
Qed.

Lemma rowop_vec_allz : forall g sl l, allz l -> allz (rowop_vec CK z ca cm g sl l).
Proof.
  intros g sl l H. unfold rowop_vec, rowop. apply scatter_allz; [|assumption].
  apply Forall_forall. intros x Hx. apply in_map_iff in Hx. destruct Hx as [grow [E _]]. subst.
  symmetry. apply dot_allz. apply gather_allz. assumption.
Qed.

Lemma pa_snd_zero : forall enum cmds acc, allz (snd acc) ->
  allz (snd (fold_left (g_step enum) (map pa_sem cmds) acc)).
Proof.
  induction cmds as [|c cmds IH]; intros acc H; simpl; [assumption|].
  apply IH. unfold Model.pa_sem. simpl. apply rowop_vec_allz. assumption.
Qed.

Theorem pa_correct_enum : forall enum cmds st,
  NoDup enum -> Forall (pa_wf enum) cmds ->
  forall x, g_denote (pa_output K (pa_run enum cmds, enum)) st x = g_denote (map pa_sem cmds) st x.
Proof.
  intros enum cmds st Hnd Hwf x.
  assert (Hwf' : Forall (wf_gcmd CK enum) (map pa_sem cmds)).
  { apply Forall_forall. intros g Hg. apply in_map_iff in Hg. destruct Hg as [c [E Hc]]. subst.
    apply pa_wf_generic. eapply Forall_forall in Hwf; eauto. }
  destruct (g_run_correct CK z o ca cm (csub K ksub) (copp K kopp) Cth enum (map pa_sem cmds) st Hnd Hwf')
    as [Hin [Hout [HlS Hlr]]].
  rewrite pa_run_generic by assumption.
  assert (Hz : allz (snd (g_run enum (map pa_sem cmds)))).
  { unfold Lin.g_run. apply pa_snd_zero. simpl. unfold zeros, allz. apply Forall_forall.
    intros y Hy. apply in_map_iff in Hy. destruct Hy as [? [E _]]. auto. }
  set (acc := g_run enum (map pa_sem cmds)) in *.
  unfold pa_output, Lin.g_denote. simpl. unfold Lin.gapply.
  destruct (in_dec Nat.eq_dec x enum) as [Hx|Hx].
  - rewrite find_pos_in by assumption.
    specialize (Hin (index Nat.eqb enum x) (idx_lt _ _ Hx)).
    rewrite nth_idx in Hin by assumption. unfold Lin.g_denote in Hin. rewrite Hin.
    assert (E : nth (index Nat.eqb enum x) (snd acc) z = z).
    { destruct (Nat.lt_ge_cases (index Nat.eqb enum x) (length (snd acc))) as [Hlt|Hge].
      - symmetry. eapply Forall_forall in Hz; [exact Hz|]. apply nth_In. assumption.
      - apply nth_overflow. assumption. }
    rewrite E. destruct (dot CK z ca cm _ _) as [a b]. unfold cadd, c0. simpl. f_equal; ring.
  - rewrite find_pos_notin by assumption. symmetry. apply Hout. assumption.
Qed.

Theorem pa_correct : forall used cmds st,
  NoDup used -> Forall (pa_wf used) cmds ->
  forall x, g_denote (pa_output K (pa_compile used cmds)) st x = g_denote (map pa_sem cmds) st x.
Proof.
  intros used cmds st Hnd Hwf x. unfold Model.pa_compile. apply pa_correct_enum.
  - apply NoDup_sort. assumption.
  - eapply Forall_impl; [|exact Hwf]. intros c Hc. apply pa_wf_sort. assumption.
Qed.

End PassiveProofs.
