(* Concrete witnesses: programs on which the faithful model of the writers / readers does NOT return the program
   that was saved.  Each corresponds to an entry of known_findings.d/C14.json and is replayed on the implementation
   by the check (corpus/C14-*.json). *)
From Coq Require Import List ZArith Bool Arith.
Import ListNotations.
From SFV Require Import C14.Model C14.Proofs.

Definition gate (i : nat) (ps : list val) (ms : list nat) (d : bool) : cmd := mkCmd (OGate i) ps ms d None None.
Definition plain (n : nat) (cs : list cmd) : prog := mkProg n None None None cs None.

(* Rgate(0.3).H | q[0] *)
Definition w_dagger : prog := plain 1 [gate 0 [VNum 1] [0] true].
Definition w_dagger_loaded : prog := plain 1 [gate 0 [VNum 1] [0] false].

Lemma bb_dagger_refuted : bb_roundtrip w_dagger = Ok w_dagger_loaded /\ w_dagger_loaded <> w_dagger.
Proof. split; [vm_compute; reflexivity | discriminate]. Qed.

(* since the `inv` modifier is written and read (fix 6d1a8e2) XIR keeps the dagger *)
Lemma xir_dagger_kept : xir_roundtrip w_dagger = Ok w_dagger.
Proof. vm_compute; reflexivity. Qed.

(* target "gaussian" with shots: kept by both formats (XIR since fix 7f2422a) *)
Definition w_target : prog := mkProg 1 (Some 0) (Some 5%Z) None [gate 0 [VNum 1] [0] false] None.
Lemma target_kept : xir_roundtrip w_target = Ok w_target /\ bb_roundtrip w_target = Ok w_target.
Proof. split; vm_compute; reflexivity. Qed.

(* shots / cutoff without a target: the Blackbird writer only records options under a target *)
Definition w_options : prog := mkProg 1 None (Some 5%Z) (Some 7%Z) [gate 0 [VNum 1] [0] false] None.
Lemma bb_options_refuted :
  bb_roundtrip w_options = Ok (plain 1 [gate 0 [VNum 1] [0] false]) /\ xir_roundtrip w_options = Ok w_options.
Proof. split; vm_compute; reflexivity. Qed.

(* Zgate(a) with a free parameter a *)
Definition w_free : prog := plain 1 [gate 0 [VSym (EAtom (AFree (NId 0)))] [0] false].
Lemma bb_free_param_refuted :
  bb_roundtrip w_free = Ok (plain 1 [gate 0 [VStr (SPrint (EAtom (AFree (NId 0))))] [0] false]).
Proof. vm_compute; reflexivity. Qed.
Lemma xir_free_param_refuted : xir_roundtrip w_free = Err ETypeError.
Proof. vm_compute; reflexivity. Qed.

(* Dgate(q0) after a measurement: fine through Blackbird objects, TypeError through XIR *)
Definition w_meas : prog := plain 2 [mkCmd (OMeas MHom) [VNum 0] [0] false None None; gate 0 [VSym (EAtom (AMeas 0))] [1] false].
Lemma xir_measured_param_refuted : bb_roundtrip w_meas = Ok w_meas /\ xir_roundtrip w_meas = Err ETypeError.
Proof. split; vm_compute; reflexivity. Qed.

(* Sgate(b + sin(q0)): RegRefTransform cannot be built when a free parameter is present *)
Definition w_mixed : prog :=
  plain 2 [gate 0 [VSym (EBin 0 (EAtom (AFree (NId 0))) (EUn 1 (EAtom (AMeas 0))))] [1] false].
Lemma bb_mixed_expr_refuted : to_bb w_mixed = Err EValueError.
Proof. vm_compute; reflexivity. Qed.

(* Fouriergate: p = [pi/2] is written as an argument, the constructor takes none *)
Definition w_fourier : prog := plain 1 [mkCmd OFourier [VNum 1] [0] false None None].
Lemma fourier_refuted : bb_roundtrip w_fourier = Err ETypeError /\ xir_roundtrip w_fourier = Err ETypeError.
Proof. split; vm_compute; reflexivity. Qed.

(* Del: class name _Delete is not in ops.__all__ *)
Definition w_meta : prog := plain 2 [mkCmd (OMeta 0) [] [1] false None None].
Lemma meta_refuted : bb_roundtrip w_meta = Err ENameError /\ xir_roundtrip w_meta = Err ENameError.
Proof. split; vm_compute; reflexivity. Qed.

(* a free parameter whose name looks like a register reference becomes a measured parameter *)
Definition w_qname : prog := plain 2 [mkCmd (OMeas MHom) [VSym (EAtom (AFree (NQ 1)))] [0] false None None].
Lemma qname_refuted :
  bb_roundtrip w_qname = Ok (plain 2 [mkCmd (OMeas MHom) [VSym (EAtom (AMeas 1))] [0] false None None]).
Proof. vm_compute; reflexivity. Qed.

(* TDM, N = [1, 2]: Blackbird only records max mode + 1 *)
Definition w_tdm_N : prog :=
  mkProg 3 None None None [gate 0 [VSym (EAtom (AFree (NP 0)))] [0] false] (Some (mkTdm [1; 2] [10%Z] None)).
Lemma bb_tdm_N_refuted :
  bb_roundtrip w_tdm_N = Ok (mkProg 3 None None None [gate 0 [VSym (EAtom (AFree (NP 0)))] [0] false] (Some (mkTdm [3] [10%Z] None)))
  /\ xir_roundtrip w_tdm_N = Ok w_tdm_N.
Proof. split; vm_compute; reflexivity. Qed.

(* TDM, gate parameter 2*p0: comes back as a string from both formats *)
Definition w_tdm_expr : prog :=
  mkProg 2 None None None [gate 0 [VSym (EBin 1 (ENum 2) (EAtom (AFree (NP 0))))] [0] false] (Some (mkTdm [2] [10%Z] None)).
Lemma tdm_expr_refuted :
  bb_roundtrip w_tdm_expr = Ok (mkProg 2 None None None [gate 0 [VStr (SPrint (EBin 1 (ENum 2) (EAtom (AFree (NP 0)))))] [0] false] (Some (mkTdm [2] [10%Z] None)))
  /\ xir_roundtrip w_tdm_expr = Ok (mkProg 2 None None None [gate 0 [VStr (SPrintNames (EBin 1 (ENum 2) (EAtom (AFree (NP 0)))))] [0] false] (Some (mkTdm [2] [10%Z] None))).
Proof. split; vm_compute; reflexivity. Qed.

(* TDM, MeasureHomodyne with a numeric angle or a select value: loads through both formats (XIR since fix 4f17b2d) *)
Definition w_tdm_numphi : prog :=
  mkProg 2 None None None [mkCmd (OMeas MHom) [VNum 3] [0] false None None] (Some (mkTdm [2] [10%Z] None)).
Definition w_tdm_select : prog :=
  mkProg 2 None None None [mkCmd (OMeas MHom) [VSym (EAtom (AFree (NP 0)))] [0] false (Some (VNum 4)) None] (Some (mkTdm [2] [10%Z] None)).
Lemma xir_tdm_dict_kept :
  xir_roundtrip w_tdm_numphi = Ok w_tdm_numphi /\ xir_roundtrip w_tdm_select = Ok w_tdm_select
  /\ bb_roundtrip w_tdm_numphi = Ok w_tdm_numphi /\ bb_roundtrip w_tdm_select = Ok w_tdm_select.
Proof. repeat split; vm_compute; reflexivity. Qed.

(* TDM with a non-default shift: carried by neither format (cutoff_dim is, by both) *)
Definition w_tdm_opts : prog :=
  mkProg 2 (Some 3) (Some 4%Z) (Some 6%Z) [gate 0 [VSym (EAtom (AFree (NP 0)))] [0] false] (Some (mkTdm [2] [10%Z] (Some 1))).
Lemma tdm_opts_refuted :
  xir_roundtrip w_tdm_opts = Ok (mkProg 2 (Some 3) (Some 4%Z) (Some 6%Z) [gate 0 [VSym (EAtom (AFree (NP 0)))] [0] false] (Some (mkTdm [2] [10%Z] None)))
  /\ bb_roundtrip w_tdm_opts = Ok (mkProg 2 (Some 3) (Some 4%Z) (Some 6%Z) [gate 0 [VSym (EAtom (AFree (NP 0)))] [0] false] (Some (mkTdm [2] [10%Z] None))).
Proof. split; vm_compute; reflexivity. Qed.

(* ---- inhabitants of the hypotheses of the round-trip theorems (non-trivial programs) *)

(* measurement with select, a gate conditioned on 2*sin(q0), arrays, a string literal, target + options *)
Definition ex_bb : prog :=
  mkProg 3 (Some 0) (Some 10%Z) (Some 5%Z)
    [ gate 3 [VNum 1; VNum 2] [2; 0] false;
      mkCmd (OMeas MHom) [VNum 3] [0] false (Some (VNum 4)) None;
      gate 1 [VSym (EBin 1 (ENum 2) (EUn 1 (EAtom (AMeas 0)))); VNum 5] [1] false;
      gate 7 [VSeq 6; VStr (SLit 0)] [1; 2] false;
      mkCmd (OMeas MFock) [] [1; 2] false None (Some (VSeq 7)) ] None.
Lemma ex_bb_ok : bb_prog_ok ex_bb = true. Proof. vm_compute; reflexivity. Qed.

Definition ex_bb_tdm : prog :=
  mkProg 2 (Some 3) (Some 1%Z) None
    [ gate 3 [VSym (EAtom (AFree (NP 0))); VNum 2] [0; 1] false;
      gate 1 [VSym (EAtom (AFree (NP 1)))] [1] false;
      mkCmd (OMeas MHom) [VSym (EAtom (AFree (NP 2)))] [0] false (Some (VNum 4)) None ]
    (Some (mkTdm [2] [10%Z; 11%Z; 12%Z] None)).
Lemma ex_bb_tdm_ok : bb_prog_ok ex_bb_tdm = true. Proof. vm_compute; reflexivity. Qed.

Definition ex_xir : prog :=
  mkProg 3 (Some 2) (Some 10%Z) (Some 5%Z)
    [ gate 3 [VNum 1; VNum 2] [2; 0] true;
      mkCmd (OMeas MHom) [VSym (EBin 0 (EAtom (AMeas 2)) (EAtom (AFree (NId 0))))] [0] false (Some (VNum 4)) None;
      gate 7 [VSeq 6] [1; 2] false;
      mkCmd (OMeas MFock) [] [1; 2] false (Some (VSeq 7)) None ] None.
Lemma ex_xir_ok : xir_prog_ok ex_xir = true. Proof. vm_compute; reflexivity. Qed.

Definition ex_xir_tdm : prog :=
  mkProg 3 (Some 3) (Some 1%Z) (Some 8%Z)
    [ gate 3 [VSym (EAtom (AFree (NP 0))); VNum 2] [0; 1] true;
      gate 1 [VSym (EAtom (AFree (NP 1)))] [1] false;
      mkCmd (OMeas MHom) [VSym (EAtom (AFree (NP 2)))] [0] false (Some (VNum 4)) None;
      mkCmd (OMeas MHom) [VNum 3] [1] false None None;
      mkCmd (OMeas MFock) [] [2] false (Some (VSeq 7)) None ]
    (Some (mkTdm [1; 2] [10%Z; 11%Z; 12%Z] None)).
Lemma ex_xir_tdm_ok : xir_prog_ok ex_xir_tdm = true. Proof. vm_compute; reflexivity. Qed.

(* ---- the statements as they appear in Properties/C14.v *)

Lemma bb_dagger_refuted_stmt : exists p p', bb_roundtrip p = Ok p' /\ xir_roundtrip p = Ok p /\ p' <> p.
Proof. exists w_dagger, w_dagger_loaded. repeat split; try (vm_compute; reflexivity). discriminate. Qed.

Lemma bb_options_refuted_stmt :
  exists p, pshots p <> None /\ xir_roundtrip p = Ok p /\ exists p', bb_roundtrip p = Ok p' /\ pshots p' = None /\ pcutoff p' = None.
Proof.
  exists w_options. split; [discriminate|]. split; [vm_compute; reflexivity|].
  eexists. split; [vm_compute; reflexivity | split; reflexivity].
Qed.

Lemma free_param_refuted_stmt :
  exists p v, p = plain 1 [gate 0 [VSym (EAtom (AFree (NId 0)))] [0] false]
              /\ bb_roundtrip p = Ok (plain 1 [gate 0 [VStr v] [0] false]) /\ xir_roundtrip p = Err ETypeError.
Proof. exists w_free. eexists. split; [reflexivity|]. split; vm_compute; reflexivity. Qed.

Lemma bb_tdm_N_refuted_stmt :
  exists p p', bb_roundtrip p = Ok p' /\ xir_roundtrip p = Ok p
               /\ option_map tN (ptdm p) = Some [1; 2] /\ option_map tN (ptdm p') = Some [3].
Proof. exists w_tdm_N. eexists. split; [vm_compute; reflexivity|]. repeat split; vm_compute; reflexivity. Qed.

Definition circ_of (r : res prog) : option (list cmd) := match r with Ok q => Some (pcirc q) | Err _ => None end.

Lemma tdm_expr_refuted_stmt :
  exists p s1 s2, ptdm p <> None
    /\ circ_of (bb_roundtrip p) = Some [gate 0 [VStr s1] [0] false]
    /\ circ_of (xir_roundtrip p) = Some [gate 0 [VStr s2] [0] false]
    /\ pcirc p = [gate 0 [VSym (EBin 1 (ENum 2) (EAtom (AFree (NP 0))))] [0] false].
Proof.
  exists w_tdm_expr. eexists. eexists. split; [discriminate|]. repeat split; vm_compute; reflexivity.
Qed.
