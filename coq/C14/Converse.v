(* The hypotheses of the Blackbird round-trip theorem are necessary: for well-formed programs,
   bb_roundtrip p = Ok p  <->  bb_prog_ok p = true. *)
From Coq Require Import List ZArith Bool Arith Lia.
Import ListNotations.
From SFV Require Import C14.Model C14.Proofs.

(* values a Program object can hold (no IR-side values), and Fouriergate carries its parameter *)
Definition pval (v : val) : bool :=
  match v with VNum _ | VSeq _ | VStr (SLit _) | VSym _ => true | _ => false end.

Definition wf_cmd (c : cmd) : bool :=
  forallb pval (params c) && optb pval (sel c) && optb pval (dark c)
  && match cls c with OFourier => negb (match params c with [] => true | _ => false end) | _ => true end.

Definition wf_prog (p : prog) : bool := forallb wf_cmd (pcirc p).

Lemma mapM_pointwise {A B} (f : A -> res B) (g : B -> res A) (l : list A) (ys : list B) :
  mapM f l = Ok ys -> mapM g ys = Ok l -> forall x, In x l -> exists y, f x = Ok y /\ g y = Ok x.
Proof.
  revert ys. induction l as [|a l IH]; simpl; intros ys Hf Hg x Hx; [destruct Hx|].
  destruct (f a) as [b|] eqn:Fa; simpl in Hf; [|discriminate].
  destruct (mapM f l) as [bs|] eqn:Fl; simpl in Hf; [|discriminate]. inversion Hf; subst. simpl in Hg.
  destruct (g b) as [a'|] eqn:Gb; simpl in Hg; [|discriminate].
  destruct (mapM g bs) as [l'|] eqn:Gl; simpl in Hg; [|discriminate]. inversion Hg; subst.
  destruct Hx as [<-|Hx]; [exists b; split; assumption | exact (IH bs eq_refl Gl x Hx)].
Qed.

Lemma mapM_fix {A} (f : A -> res A) (l : list A) : mapM f l = Ok l -> forall x, In x l -> f x = Ok x.
Proof.
  induction l as [|a l IH]; simpl; intros H x Hx; [destruct Hx|].
  destruct (f a) as [b|] eqn:Fa; simpl in H; [|discriminate].
  destruct (mapM f l) as [bs|] eqn:Fl; simpl in H; [|discriminate]. inversion H; subst.
  destruct Hx as [<-|Hx]; [exact Fa | exact (IH eq_refl x Hx)].
Qed.

Lemma optM_fix {A} (f : A -> res A) (o : option A) : optM f o = Ok o -> forall x, o = Some x -> f x = Ok x.
Proof.
  destruct o as [a|]; simpl; intros H x E; [|discriminate]. inversion E; subst.
  destruct (f x); simpl in H; [inversion H; subst; reflexivity | discriminate].
Qed.

Lemma forallb_In {A} (f : A -> bool) l : (forall x, In x l -> f x = true) -> forallb f l = true.
Proof. intros H. apply forallb_forall. exact H. Qed.

(* ---- one value *)

Lemma bb_param_nec_plain v w :
  pval v = true -> bb_conv_param v = Ok w -> par_convert1 w = Ok v -> bb_param_ok None v = true.
Proof.
  destruct v as [i|i|s|e|e]; simpl; intros Hp Hw Hc; try reflexivity; try discriminate.
  - destruct s; try discriminate. reflexivity.
  - destruct (has_meas e) eqn:Hm.
    + destruct (has_free e) eqn:Hf; [discriminate | reflexivity].
    + inversion Hw; subst. simpl in Hc. discriminate.
Qed.

Lemma bb_param_nec_tdm k v w :
  pval v = true -> bb_conv_param v = Ok w -> par_convert1 (tdm_free_of (tdm_name_of k w)) = Ok v ->
  bb_param_ok (Some k) v = true.
Proof.
  destruct v as [i|i|s|e|e]; simpl; intros Hp Hw Hc; try reflexivity; try discriminate.
  - destruct s; try discriminate. reflexivity.
  - destruct (has_meas e) eqn:Hm.
    + destruct (has_free e) eqn:Hf; [discriminate | reflexivity].
    + inversion Hw; subst. simpl in Hc. simpl.
      destruct e as [a|z|f e|f a b]; simpl in Hc; try discriminate.
      destruct a as [n|m]; simpl in Hc; try discriminate.
      destruct n as [j|j|j|j]; simpl in Hc; try discriminate.
      destruct (Nat.ltb j k) eqn:Hj; simpl in Hc; [simpl; exact Hj | discriminate].
Qed.

Lemma mval_nec_plain v : pval v = true -> par_convert1 v = Ok v -> mval_ok v = true.
Proof.
  destruct v as [i|i|s|e|e]; simpl; intros Hp Hc; try reflexivity; try discriminate.
  - destruct s; try discriminate. reflexivity.
  - apply conv_expr_fix. destruct (conv_expr e) as [e'|]; simpl in Hc; [|discriminate]. inversion Hc; subst. reflexivity.
Qed.

Lemma mval_nec_tdm k v : pval v = true -> par_convert1 (tdm_free_of (tdm_name_of k v)) = Ok v -> mval_ok v = true.
Proof.
  destruct v as [i|i|s|e|e]; simpl; intros Hp Hc; try reflexivity; try discriminate.
  - destruct s; try discriminate. reflexivity.
  - destruct e as [a|z|f e|f a b].
    + destruct a as [n|m]; [|reflexivity].
      destruct n as [j|j|j|j]; try reflexivity.
      * simpl in Hc. discriminate.
      * simpl in Hc. discriminate.
    + reflexivity.
    + simpl in Hc. apply (conv_expr_fix (EUn f e)).
      simpl. destruct (conv_expr e) as [e'|]; simpl in Hc |- *; [|discriminate]. inversion Hc; subst. reflexivity.
    + simpl in Hc. apply (conv_expr_fix (EBin f a b)). simpl.
      destruct (conv_expr a) as [a'|]; simpl in Hc |- *; [|discriminate].
      destruct (conv_expr b) as [b'|]; simpl in Hc |- *; [|discriminate]. inversion Hc; subst. reflexivity.
Qed.

Lemma mvals_nec nv (l : list val) :
  forallb pval l = true ->
  mapM par_convert1 (match nv with None => l | Some k => map tdm_free_of (map (tdm_name_of k) l) end) = Ok l ->
  forallb mval_ok l = true.
Proof.
  intros Hp H. apply forallb_In. intros v Hv. rewrite forallb_forall in Hp.
  destruct nv as [k|].
  - rewrite !mapM_map in H. apply (mval_nec_tdm k v (Hp v Hv)). exact (mapM_fix _ l H v Hv).
  - apply (mval_nec_plain v (Hp v Hv)). exact (mapM_fix _ l H v Hv).
Qed.

Lemma mval_opt_nec nv (o : option val) :
  optb pval o = true ->
  optM par_convert1 (match nv with None => o | Some k => option_map tdm_free_of (option_map (tdm_name_of k) o) end) = Ok o ->
  optb mval_ok o = true.
Proof.
  destruct o as [v|]; [|reflexivity]. simpl. intros Hp H. destruct nv as [k|]; simpl in H.
  - apply (mval_nec_tdm k v Hp). destruct (par_convert1 _); simpl in H; [inversion H; reflexivity | discriminate].
  - apply (mval_nec_plain v Hp). destruct (par_convert1 v); simpl in H; [inversion H; reflexivity | discriminate].
Qed.

(* ---- one command *)

Ltac step Hr x H :=
  match type of Hr with bind ?t _ = _ => destruct t as [x|] eqn:H; cbn [bind] in Hr; [|discriminate] end.

Lemma reader_unfold nv cl args ks kd ms :
  bb_reader nv (mkBbop cl args ks kd ms)
  = bind (mapM par_convert1 (match nv with None => args | Some _ => map tdm_free_of args end)) (fun a =>
    bind (optM par_convert1 (match nv with None => ks | Some _ => option_map tdm_free_of ks end)) (fun s =>
    bind (optM par_convert1 (match nv with None => kd | Some _ => option_map tdm_free_of kd end)) (fun d =>
    construct cl a s d ms))).
Proof. destruct nv; reflexivity. Qed.

Lemma bb_cmd_nec nv c o :
  wf_cmd c = true -> to_bb_cmd nv c = Ok o -> bb_reader nv o = Ok c -> bb_cmd_ok nv c = true.
Proof.
  destruct c as [cl ps ms dg se da]. unfold wf_cmd, bb_cmd_ok. cbn [cls params sel dark dag modes].
  intros Hwf Hw Hr.
  apply andb_true_iff in Hwf. destruct Hwf as [Hwf Hfou]. apply andb_true_iff in Hwf. destruct Hwf as [Hwf Hpd].
  apply andb_true_iff in Hwf. destruct Hwf as [Hpp Hps].
  assert (Hdg : dg = false).
  { destruct nv; [exact (from_bb_op_dag _ _ Hr) | exact (from_bb_op_dag _ _ Hr)]. }
  subst dg. cbn [negb andb].
  unfold to_bb_cmd in Hw. cbn [cls params sel dark modes] in Hw.
  destruct cl as [i| |k|i]; cbn [is_meas] in Hw.
  - (* generic *)
    destruct (mapM bb_conv_param ps) as [args|] eqn:Ha; cbn [bind] in Hw; [|discriminate].
    assert (Ho : o = mkBbop (OGate i) (match nv with None => args | Some k => map (tdm_name_of k) args end) None None ms)
      by (destruct nv; inversion Hw; reflexivity).
    subst o. rewrite reader_unfold in Hr.
    assert (Hnone : forall nv', match nv' : option nat with None => @None val | Some _ => option_map tdm_free_of None end = None)
      by (destruct nv'; reflexivity).
    rewrite Hnone in Hr. step Hr l Hl. cbn [optM bind construct] in Hr.
    inversion Hr; subst. cbn [is_none andb]. rewrite !andb_true_r.
    apply forallb_In. intros v Hv. rewrite forallb_forall in Hpp.
    destruct nv as [k|].
    + rewrite !mapM_map in Hl.
      destruct (mapM_pointwise _ _ _ _ Ha Hl v Hv) as [w [H1 H2]].
      exact (bb_param_nec_tdm k v w (Hpp v Hv) H1 H2).
    + destruct (mapM_pointwise _ _ _ _ Ha Hl v Hv) as [w [H1 H2]].
      exact (bb_param_nec_plain v w (Hpp v Hv) H1 H2).
  - (* Fouriergate: its own parameter makes the constructor fail *)
    exfalso.
    destruct (mapM bb_conv_param ps) as [args|] eqn:Ha; cbn [bind] in Hw; [|discriminate].
    assert (Hne : args <> []).
    { destruct ps as [|v ps']; [discriminate|]. simpl in Ha.
      destruct (bb_conv_param v); simpl in Ha; [|discriminate]. destruct (mapM bb_conv_param ps'); simpl in Ha; [|discriminate].
      inversion Ha. discriminate. }
    assert (Ho : bargs o <> [] /\ bop o = OFourier).
    { destruct nv; inversion Hw; subst; simpl; split; try reflexivity; destruct args; try discriminate; exfalso; apply Hne; reflexivity. }
    destruct Ho as [Ho1 Ho2]. destruct o as [bo ba bs bd bm]. simpl in *. subst bo.
    rewrite reader_unfold in Hr.
    step Hr l Hl.
    assert (Hlne : l <> []).
    { destruct ba as [|x ba']; [exfalso; apply Ho1; reflexivity|].
      destruct nv; simpl in Hl.
      - destruct (par_convert1 (tdm_free_of x)); simpl in Hl; [|discriminate]. destruct (mapM par_convert1 _); simpl in Hl; [|discriminate]. inversion Hl. discriminate.
      - destruct (par_convert1 x); simpl in Hl; [|discriminate]. destruct (mapM par_convert1 _); simpl in Hl; [|discriminate]. inversion Hl. discriminate. }
    step Hr s Hs. step Hr d Hd.
    destruct l; [exfalso; apply Hlne; reflexivity|]. simpl in Hr. discriminate.
  - (* measurement *)
    cbn [bind] in Hw.
    assert (Ho : o = mkBbop (OMeas k)
                   (match nv with None => ps | Some n => map (tdm_name_of n) ps end)
                   (match nv with None => se | Some n => option_map (tdm_name_of n) se end)
                   (match nv with None => match k with MFock => da | _ => None end
                               | Some n => option_map (tdm_name_of n) (match k with MFock => da | _ => None end) end) ms)
      by (destruct nv; inversion Hw; reflexivity).
    subst o. rewrite reader_unfold in Hr.
    step Hr l Hl. step Hr s Hs. step Hr d Hd.
    assert (Hc : l = ps /\ s = se /\ (match k with MFock => d = da | _ => da = None end)).
    { destruct k; simpl in Hr.
      - inversion Hr; subst. repeat split; reflexivity.
      - destruct d; inversion Hr; subst. repeat split; reflexivity.
      - destruct d; inversion Hr; subst. repeat split; reflexivity.
      - destruct d; inversion Hr; subst. repeat split; reflexivity. }
    destruct Hc as [-> [-> Hda]].
    assert (H1 : forallb mval_ok ps = true).
    { apply (mvals_nec nv ps Hpp). destruct nv; exact Hl. }
    assert (H2 : optb mval_ok se = true).
    { apply (mval_opt_nec nv se Hps). destruct nv; exact Hs. }
    rewrite H1, H2. cbn [andb].
    destruct k; try (rewrite Hda; reflexivity).
    subst d. apply (mval_opt_nec nv da Hpd). destruct nv; exact Hd.
  - (* meta operation: NameError *)
    exfalso. cbn [bind] in Hw.
    destruct (mapM bb_conv_param ps) as [args|]; cbn [bind] in Hw; [|discriminate].
    assert (Ho : bop o = OMeta i) by (destruct nv; inversion Hw; reflexivity).
    destruct o as [bo ba bs bd bm]. simpl in Ho. subst bo. rewrite reader_unfold in Hr.
    step Hr l Hl. step Hr s Hs. step Hr d Hd. discriminate.
Qed.

(* ---- whole program *)

Lemma bb_roundtrip_nec p : wf_prog p = true -> bb_roundtrip p = Ok p -> bb_prog_ok p = true.
Proof.
  destruct p as [n tg sh cu circ td]. unfold wf_prog, bb_roundtrip, to_bb, bb_prog_ok, nvars_of. cbn [pn ptarget pshots pcutoff pcirc ptdm].
  intros Hwf H.
  set (nv := option_map (fun t => length (tarrays t)) td) in *.
  destruct (mapM (to_bb_cmd nv) circ) as [os|] eqn:Hos; cbn [bind] in H; [|discriminate].
  unfold from_bb in H. cbn [bvars bops bmaxmode btarget bshots bcutoff] in H.
  assert (Hcirc : mapM (bb_reader nv) os = Ok circ /\ n - 1 + 1 = n
                  /\ (match tg with Some _ => sh | None => None end) = sh
                  /\ (match tg with Some _ => cu | None => None end) = cu
                  /\ (match td with None => True | Some t => tN t = [n] /\ tshift t = None end)).
  { destruct td as [t|]; cbn [option_map] in H.
    - subst nv. cbn [option_map bb_reader].
      destruct (mapM from_bb_op_tdm os) as [cs|]; cbn [bind] in H; [|discriminate].
      injection H as Hn Hsh Hcu Hcs Ht. subst cs. destruct t as [N arrs shf]. cbn [tN tshift tarrays] in *.
      injection Ht as HN Hs. rewrite Hn in HN. repeat split; try assumption; symmetry; assumption.
    - subst nv. cbn [option_map bb_reader].
      destruct (mapM from_bb_op os) as [cs|]; cbn [bind] in H; [|discriminate].
      injection H as Hn Hsh Hcu Hcs. subst cs. repeat split; assumption. }
  destruct Hcirc as [Hr [Hn [Hsh [Hcu Htd]]]].
  assert (Hn1 : Nat.leb 1 n = true) by (apply Nat.leb_le; lia). rewrite Hn1. cbn [andb].
  assert (Hcmds : forallb (bb_cmd_ok nv) circ = true).
  { apply forallb_In. intros c Hc. rewrite forallb_forall in Hwf.
    destruct (mapM_pointwise _ _ _ _ Hos Hr c Hc) as [o [H1 H2]].
    exact (bb_cmd_nec nv c o (Hwf c Hc) H1 H2). }
  rewrite Hcmds. cbn [andb].
  assert (Hopt : match tg with Some _ => true | None => is_none sh && is_none cu end = true).
  { destruct tg; [reflexivity|]. subst sh cu. reflexivity. }
  rewrite Hopt. cbn [andb].
  destruct td as [t|]; [|reflexivity].
  destruct Htd as [HN Hs]. rewrite HN, Hs. unfold list_nat_eqb. destruct (list_eq_dec Nat.eq_dec [n] [n]); [reflexivity | congruence].
Qed.

Lemma bb_roundtrip_iff p : wf_prog p = true -> (bb_roundtrip p = Ok p <-> bb_prog_ok p = true).
Proof. intros Hwf. split; [exact (bb_roundtrip_nec p Hwf) | exact (bb_roundtrip_ok p)]. Qed.
