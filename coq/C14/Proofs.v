(* Lemmas about the serialisation model (C14/Model.v). *)
From Coq Require Import List ZArith Bool Arith Lia.
Import ListNotations.
From SFV Require Import C14.Model.

(* ------------------------------------------------------------------ generic helpers *)

Lemma mapM_roundtrip {A B} (f : A -> res B) (g : B -> res A) (l : list A) :
  (forall x, In x l -> exists y, f x = Ok y /\ g y = Ok x) ->
  exists ys, mapM f l = Ok ys /\ mapM g ys = Ok l.
Proof.
  induction l as [|x l IH]; intros H.
  - exists []. split; reflexivity.
  - destruct (H x (or_introl eq_refl)) as [y [Hf Hg]].
    destruct IH as [ys [H1 H2]]. { intros z Hz. apply H. right. exact Hz. }
    exists (y :: ys). split; simpl.
    + rewrite Hf. simpl. rewrite H1. reflexivity.
    + rewrite Hg. simpl. rewrite H2. reflexivity.
Qed.

Lemma mapM_id {A} (f : A -> res A) (l : list A) :
  (forall x, In x l -> f x = Ok x) -> mapM f l = Ok l.
Proof.
  induction l as [|x l IH]; intros H; simpl.
  - reflexivity.
  - rewrite (H x (or_introl eq_refl)). simpl. rewrite IH. reflexivity.
    intros z Hz. apply H. right. exact Hz.
Qed.

Lemma mapM_map {A B C} (f : B -> res C) (g : A -> B) (l : list A) :
  mapM f (map g l) = mapM (fun x => f (g x)) l.
Proof. induction l as [|x l IH]; simpl; [reflexivity | rewrite IH; reflexivity]. Qed.

Lemma mapM_ext_in {A B} (f g : A -> res B) (l : list A) :
  (forall x, In x l -> f x = g x) -> mapM f l = mapM g l.
Proof.
  induction l as [|x l IH]; intros H; simpl; [reflexivity|].
  rewrite (H x (or_introl eq_refl)). rewrite IH; [reflexivity|]. intros z Hz. apply H. right. exact Hz.
Qed.

Lemma mapM_In {A B} (f : A -> res B) (l : list A) (ys : list B) :
  mapM f l = Ok ys -> forall y, In y ys -> exists x, In x l /\ f x = Ok y.
Proof.
  revert ys. induction l as [|x l IH]; simpl; intros ys H y Hy.
  - inversion H; subst. destruct Hy.
  - destruct (f x) as [b|e] eqn:Hf; simpl in H; [|discriminate].
    destruct (mapM f l) as [bs|e] eqn:Hm; simpl in H; [|discriminate].
    inversion H; subst. destruct Hy as [->|Hy].
    + exists x. split; [left; reflexivity | exact Hf].
    + destruct (IH bs eq_refl y Hy) as [x' [Hin Hx']]. exists x'. split; [right; exact Hin | exact Hx'].
Qed.

Definition optb {A} (f : A -> bool) (o : option A) : bool := match o with None => true | Some x => f x end.
Definition is_none {A} (o : option A) : bool := match o with None => true | Some _ => false end.

Lemma is_none_true {A} (o : option A) : is_none o = true -> o = None.
Proof. destruct o; simpl; [discriminate | reflexivity]. Qed.

Lemma optM_id {A} (f : A -> res A) (o : option A) :
  (forall x, o = Some x -> f x = Ok x) -> optM f o = Ok o.
Proof. destruct o as [x|]; simpl; intros H; [rewrite (H x eq_refl); reflexivity | reflexivity]. Qed.

(* ------------------------------------------------------------------ par_convert is the identity on ... *)

Fixpoint conv_id (e : expr) : bool :=
  match e with
  | EAtom (AMeas _) => true
  | EAtom (AFree (NQ _)) => false
  | EAtom (AFree (NQx _)) => false
  | EAtom (AFree _) => true
  | ENum _ => true
  | EUn _ e => conv_id e
  | EBin _ a b => conv_id a && conv_id b
  end.

Lemma conv_id_ok e : conv_id e = true -> conv_expr e = Ok e.
Proof.
  induction e as [a|v|f e IH|f a IHa b IHb]; simpl; intros H.
  - destruct a as [n|m]; [destruct n; simpl in *; try discriminate; reflexivity | reflexivity].
  - reflexivity.
  - rewrite (IH H). reflexivity.
  - apply andb_true_iff in H. destruct H as [Ha Hb]. rewrite (IHa Ha). simpl. rewrite (IHb Hb). reflexivity.
Qed.

Lemma no_free_conv_id e : has_free e = false -> conv_id e = true.
Proof.
  induction e as [a|v|f e IH|f a IHa b IHb]; simpl; intros H.
  - destruct a as [n|m]; [discriminate | reflexivity].
  - reflexivity.
  - exact (IH H).
  - apply orb_false_iff in H. destruct H as [Ha Hb]. rewrite (IHa Ha), (IHb Hb). reflexivity.
Qed.

(* the converse: when par_convert returns the expression unchanged, no atom was renamed *)
Lemma conv_expr_fix e : conv_expr e = Ok e -> conv_id e = true.
Proof.
  induction e as [a|v|f e IH|f a IHa b IHb]; simpl; intros H.
  - destruct a as [n|m]; [destruct n; simpl in *; try reflexivity; discriminate | reflexivity].
  - reflexivity.
  - destruct (conv_expr e) as [e'|]; simpl in H; [|discriminate]. inversion H; subst. apply IH. reflexivity.
  - destruct (conv_expr a) as [a'|]; simpl in H; [|discriminate].
    destruct (conv_expr b) as [b'|]; simpl in H; [|discriminate].
    inversion H; subst. rewrite IHa, IHb; reflexivity.
Qed.

(* values a Program may hold as parameters *)
Definition plain_val (v : val) : bool :=
  match v with VNum _ | VSeq _ | VStr (SLit _) => true | _ => false end.

(* a measurement argument / select / dark_counts value that survives par_convert unchanged *)
Definition mval_ok (v : val) : bool :=
  match v with
  | VSym e => conv_id e
  | v => plain_val v
  end.

Lemma mval_ok_conv v : mval_ok v = true -> par_convert1 v = Ok v.
Proof.
  destruct v as [i|i|s|e|e]; simpl; intros H; try reflexivity; try discriminate.
  rewrite (conv_id_ok e H). reflexivity.
Qed.

(* ------------------------------------------------------------------ Blackbird: one command *)

(* parameter of a non-measurement command that the Blackbird writer / reader pair preserves *)
Definition bb_param_ok (nv : option nat) (v : val) : bool :=
  match v with
  | VSym e => (has_meas e && negb (has_free e))
              || match nv with Some k => is_loop_atom k e | None => false end
  | v => plain_val v
  end.

Definition bb_cmd_ok (nv : option nat) (c : cmd) : bool :=
  negb (dag c) &&
  match cls c with
  | OGate _ => forallb (bb_param_ok nv) (params c) && is_none (sel c) && is_none (dark c)
  | OMeas k => forallb mval_ok (params c) && optb mval_ok (sel c)
               && match k with MFock => optb mval_ok (dark c) | _ => is_none (dark c) end
  | OFourier => false
  | OMeta _ => false
  end.

Definition bb_reader (nv : option nat) : bbop -> res cmd :=
  match nv with None => from_bb_op | Some _ => from_bb_op_tdm end.

Lemma is_loop_atom_inv k e : is_loop_atom k e = true -> exists i, e = EAtom (AFree (NP i)) /\ Nat.ltb i k = true.
Proof.
  destruct e as [a|v|f e|f a b]; simpl; try discriminate.
  destruct a as [n|m]; try discriminate. destruct n; try discriminate. intros H. eexists; split; [reflexivity | exact H].
Qed.

(* the image of one safe parameter under writer-then-reader, plain program *)
Lemma bb_param_plain v :
  bb_param_ok None v = true ->
  exists w, bb_conv_param v = Ok w /\ par_convert1 w = Ok v.
Proof.
  destruct v as [i|i|s|e|e]; simpl; intros H; try discriminate.
  - eexists; split; reflexivity.
  - eexists; split; reflexivity.
  - destruct s; try discriminate. eexists; split; reflexivity.
  - rewrite orb_false_r in H. apply andb_true_iff in H. destruct H as [Hm Hf].
    apply negb_true_iff in Hf. rewrite Hm, Hf. eexists; split; [reflexivity|].
    simpl. rewrite (conv_id_ok e (no_free_conv_id e Hf)). reflexivity.
Qed.

Lemma bb_param_tdm k v :
  bb_param_ok (Some k) v = true ->
  exists w, bb_conv_param v = Ok w /\ par_convert1 (tdm_free_of (tdm_name_of k w)) = Ok v.
Proof.
  destruct v as [i|i|s|e|e]; simpl; intros H; try discriminate.
  - eexists; split; reflexivity.
  - eexists; split; reflexivity.
  - destruct s; try discriminate. eexists; split; reflexivity.
  - apply orb_true_iff in H. destruct H as [H|H].
    + apply andb_true_iff in H. destruct H as [Hm Hf]. apply negb_true_iff in Hf. rewrite Hm, Hf.
      eexists; split; [reflexivity|]. simpl. rewrite (conv_id_ok e (no_free_conv_id e Hf)). reflexivity.
    + destruct (is_loop_atom_inv k e H) as [i [-> Hi]]. simpl.
      eexists; split; [reflexivity|]. simpl. rewrite Hi. simpl. reflexivity.
Qed.

(* measurement values under the TDM name substitution *)
Lemma mval_tdm k v :
  mval_ok v = true -> par_convert1 (tdm_free_of (tdm_name_of k v)) = Ok v.
Proof.
  destruct v as [i|i|s|e|e]; simpl; intros H; try reflexivity; try discriminate.
  - destruct s; try discriminate. reflexivity.
  - destruct e as [a|z|f e|f a b].
    + destruct a as [n|m]; [|reflexivity].
      destruct n as [j|j|j|j]; simpl in *; try discriminate; try reflexivity.
      destruct (Nat.ltb j k); simpl; reflexivity.
    + reflexivity.
    + simpl. simpl in H. rewrite (conv_id_ok _ H). reflexivity.
    + simpl. simpl in H. apply andb_true_iff in H. destruct H as [Ha Hb].
      rewrite (conv_id_ok _ Ha). simpl. rewrite (conv_id_ok _ Hb). reflexivity.
Qed.

Lemma mapM_conv_tdm k (l : list val) :
  forallb mval_ok l = true ->
  mapM par_convert1 (map tdm_free_of (map (tdm_name_of k) l)) = Ok l.
Proof.
  induction l as [|v l IH]; simpl; intros H; [reflexivity|].
  apply andb_true_iff in H. destruct H as [Hv Hl].
  rewrite (mval_tdm k v Hv). simpl. rewrite (IH Hl). reflexivity.
Qed.

Lemma optM_conv_tdm k (o : option val) :
  optb mval_ok o = true ->
  optM par_convert1 (option_map tdm_free_of (option_map (tdm_name_of k) o)) = Ok o.
Proof. destruct o as [v|]; simpl; intros H; [rewrite (mval_tdm k v H); reflexivity | reflexivity]. Qed.

Lemma mapM_conv_plain (l : list val) :
  forallb mval_ok l = true -> mapM par_convert1 l = Ok l.
Proof.
  intros H. apply mapM_id. intros x Hx. apply mval_ok_conv.
  rewrite forallb_forall in H. exact (H x Hx).
Qed.

Lemma optM_conv_plain (o : option val) : optb mval_ok o = true -> optM par_convert1 o = Ok o.
Proof. destruct o as [v|]; simpl; intros H; [rewrite (mval_ok_conv v H); reflexivity | reflexivity]. Qed.

Lemma bb_params_plain (l : list val) :
  forallb (bb_param_ok None) l = true ->
  exists ws, mapM bb_conv_param l = Ok ws /\ mapM par_convert1 ws = Ok l.
Proof.
  intros H. apply mapM_roundtrip. intros x Hx. apply bb_param_plain.
  rewrite forallb_forall in H. exact (H x Hx).
Qed.

Lemma bb_params_tdm k (l : list val) :
  forallb (bb_param_ok (Some k)) l = true ->
  exists ws, mapM bb_conv_param l = Ok ws /\ mapM par_convert1 (map tdm_free_of (map (tdm_name_of k) ws)) = Ok l.
Proof.
  induction l as [|v l IH]; simpl; intros H.
  - exists []. split; reflexivity.
  - apply andb_true_iff in H. destruct H as [Hv Hl].
    destruct (bb_param_tdm k v Hv) as [w [H1 H2]]. destruct (IH Hl) as [ws [H3 H4]].
    exists (w :: ws). split; simpl.
    + rewrite H1. simpl. rewrite H3. reflexivity.
    + rewrite H2. simpl. rewrite H4. reflexivity.
Qed.

Lemma bb_cmd_roundtrip nv c :
  bb_cmd_ok nv c = true ->
  exists o, to_bb_cmd nv c = Ok o /\ bb_reader nv o = Ok c.
Proof.
  destruct c as [cl ps ms dg se da]. unfold bb_cmd_ok. simpl.
  intros H. apply andb_true_iff in H. destruct H as [Hd H]. apply negb_true_iff in Hd. subst dg.
  destruct cl as [i| |k|i]; try discriminate.
  - (* generic operation *)
    apply andb_true_iff in H. destruct H as [H Hda]. apply andb_true_iff in H. destruct H as [Hp Hse].
    apply is_none_true in Hse. apply is_none_true in Hda. subst se da.
    destruct nv as [k|].
    + destruct (bb_params_tdm k ps Hp) as [ws [H1 H2]].
      unfold to_bb_cmd. simpl. rewrite H1. simpl. eexists. split; [reflexivity|].
      unfold bb_reader, from_bb_op_tdm, from_bb_op. simpl. rewrite H2. simpl. reflexivity.
    + destruct (bb_params_plain ps Hp) as [ws [H1 H2]].
      unfold to_bb_cmd. simpl. rewrite H1. simpl. eexists. split; [reflexivity|].
      unfold bb_reader, from_bb_op. simpl. rewrite H2. simpl. reflexivity.
  - (* measurement *)
    apply andb_true_iff in H. destruct H as [H Hda]. apply andb_true_iff in H. destruct H as [Hp Hse].
    destruct nv as [n|].
    + unfold to_bb_cmd. simpl. eexists. split; [reflexivity|].
      unfold bb_reader, from_bb_op_tdm, from_bb_op. simpl.
      rewrite (mapM_conv_tdm n ps Hp). simpl. rewrite (optM_conv_tdm n se Hse). simpl.
      destruct k; simpl.
      * rewrite (optM_conv_tdm n da Hda). simpl. reflexivity.
      * apply is_none_true in Hda. subst da. reflexivity.
      * apply is_none_true in Hda. subst da. reflexivity.
      * apply is_none_true in Hda. subst da. reflexivity.
    + unfold to_bb_cmd. simpl. eexists. split; [reflexivity|].
      unfold bb_reader, from_bb_op. simpl.
      rewrite (mapM_conv_plain ps Hp). simpl. rewrite (optM_conv_plain se Hse). simpl.
      destruct k; simpl.
      * rewrite (optM_conv_plain da Hda). simpl. reflexivity.
      * apply is_none_true in Hda. subst da. reflexivity.
      * apply is_none_true in Hda. subst da. reflexivity.
      * apply is_none_true in Hda. subst da. reflexivity.
Qed.

(* ------------------------------------------------------------------ Blackbird: whole program *)

Definition nvars_of (p : prog) : option nat := option_map (fun t => length (tarrays t)) (ptdm p).

Definition list_nat_eqb (a b : list nat) : bool := if list_eq_dec Nat.eq_dec a b then true else false.

Definition bb_prog_ok (p : prog) : bool :=
  Nat.leb 1 (pn p)
  && forallb (bb_cmd_ok (nvars_of p)) (pcirc p)
  && match ptarget p with Some _ => true | None => is_none (pshots p) && is_none (pcutoff p) end
  && match ptdm p with
     | None => true
     | Some t => list_nat_eqb (tN t) [pn p] && is_none (tshift t)
     end.

Lemma bb_roundtrip_ok p : bb_prog_ok p = true -> bb_roundtrip p = Ok p.
Proof.
  destruct p as [n tg sh cu circ td]. unfold bb_prog_ok, nvars_of. simpl.
  intros H. apply andb_true_iff in H. destruct H as [H Htd]. apply andb_true_iff in H. destruct H as [H Hopt].
  apply andb_true_iff in H. destruct H as [Hn Hc].
  assert (Hn' : 1 <= n) by (destruct n; [discriminate | lia]). clear Hn.
  assert (Hcirc : exists os, mapM (to_bb_cmd (option_map (fun t => length (tarrays t)) td)) circ = Ok os
                             /\ mapM (bb_reader (option_map (fun t => length (tarrays t)) td)) os = Ok circ).
  { apply mapM_roundtrip. intros c Hin. apply bb_cmd_roundtrip. rewrite forallb_forall in Hc. exact (Hc c Hin). }
  destruct Hcirc as [os [H1 H2]].
  unfold bb_roundtrip, to_bb. simpl. rewrite H1. simpl.
  assert (Hn1 : n - 1 + 1 = n) by lia.
  destruct td as [t|]; simpl in *.
  - destruct t as [N arrs shf]. simpl in *. apply andb_true_iff in Htd. destruct Htd as [HN Hs].
    apply is_none_true in Hs. subst shf. unfold list_nat_eqb in HN. destruct (list_eq_dec Nat.eq_dec N [n]); [|discriminate]. subst N.
    unfold from_bb. simpl. rewrite H2. simpl. rewrite Hn1.
    destruct tg; simpl; [reflexivity|].
    apply andb_true_iff in Hopt. destruct Hopt as [Hs1 Hs2]. apply is_none_true in Hs1. apply is_none_true in Hs2. subst. reflexivity.
  - unfold from_bb. simpl. rewrite H2. simpl. rewrite Hn1.
    destruct tg; simpl; [reflexivity|].
    apply andb_true_iff in Hopt. destruct Hopt as [Hs1 Hs2]. apply is_none_true in Hs1. apply is_none_true in Hs2. subst. reflexivity.
Qed.

(* ------------------------------------------------------------------ Blackbird: what never survives *)

Lemma construct_dag c args ks kd ms r : construct c args ks kd ms = Ok r -> dag r = false.
Proof.
  destruct c as [i| |k|i]; simpl.
  - destruct ks, kd; intros H; inversion H; reflexivity.
  - destruct args, ks, kd; intros H; inversion H; reflexivity.
  - destruct k, kd; intros H; inversion H; reflexivity.
  - discriminate.
Qed.

Lemma from_bb_op_dag o c : from_bb_op o = Ok c -> dag c = false.
Proof.
  unfold from_bb_op. destruct (mapM par_convert1 (bargs o)); simpl; [|discriminate].
  destruct (optM par_convert1 (bsel o)); simpl; [|discriminate].
  destruct (optM par_convert1 (bdark o)); simpl; [|discriminate].
  apply construct_dag.
Qed.

Lemma from_bb_dag b p : from_bb b = Ok p -> forall c, In c (pcirc p) -> dag c = false.
Proof.
  unfold from_bb. destruct (bvars b) as [arrs|].
  - destruct (mapM from_bb_op_tdm (bops b)) as [cs|] eqn:Hm; simpl; [|discriminate].
    intros H. inversion H; subst. simpl. intros c Hc.
    destruct (mapM_In _ _ _ Hm c Hc) as [o [_ Ho]]. unfold from_bb_op_tdm in Ho. exact (from_bb_op_dag _ _ Ho).
  - destruct (mapM from_bb_op (bops b)) as [cs|] eqn:Hm; simpl; [|discriminate].
    intros H. inversion H; subst. simpl. intros c Hc.
    destruct (mapM_In _ _ _ Hm c Hc) as [o [_ Ho]]. exact (from_bb_op_dag _ _ Ho).
Qed.

Lemma bb_dagger_never_survives p p' :
  bb_roundtrip p = Ok p' -> forall c, In c (pcirc p') -> dag c = false.
Proof.
  unfold bb_roundtrip. destruct (to_bb p) as [b|]; simpl; [|discriminate]. apply from_bb_dag.
Qed.

Lemma bb_options_need_target p p' :
  bb_roundtrip p = Ok p' -> ptarget p = None -> pshots p' = None /\ pcutoff p' = None.
Proof.
  unfold bb_roundtrip, to_bb.
  destruct (mapM (to_bb_cmd (option_map (fun t => length (tarrays t)) (ptdm p))) (pcirc p)) as [os|]; simpl; [|discriminate].
  intros H Ht. rewrite Ht in H. unfold from_bb in H. simpl in H.
  destruct (option_map tarrays (ptdm p)).
  - destruct (mapM from_bb_op_tdm os); simpl in H; [|discriminate]. inversion H; subst. split; reflexivity.
  - destruct (mapM from_bb_op os); simpl in H; [|discriminate]. inversion H; subst. split; reflexivity.
Qed.

Lemma bb_tdm_N_collapses p p' t' :
  bb_roundtrip p = Ok p' -> ptdm p' = Some t' -> tN t' = [pn p'] /\ tshift t' = None.
Proof.
  unfold bb_roundtrip, to_bb.
  destruct (mapM (to_bb_cmd (option_map (fun t => length (tarrays t)) (ptdm p))) (pcirc p)) as [os|]; simpl; [|discriminate].
  unfold from_bb. simpl. destruct (option_map tarrays (ptdm p)).
  - destruct (mapM from_bb_op_tdm os); simpl; [|discriminate]. intros H Ht. inversion H; subst. simpl in Ht. inversion Ht; subst. split; reflexivity.
  - destruct (mapM from_bb_op os); simpl; [|discriminate]. intros H Ht. inversion H; subst. discriminate.
Qed.

(* ------------------------------------------------------------------ XIR: one command *)

Definition xir_param_ok (tdm : bool) (nv : nat) (v : val) : bool :=
  match v with
  | VNum _ | VSeq _ => true
  | VStr (SLit _) => tdm
  | VSym e => tdm && is_loop_atom nv e
  | _ => false
  end.

(* gates may be daggered (written as `inv`); measurements have no dagger *)
Definition xir_cmd_ok (tdm : bool) (nv : nat) (c : cmd) : bool :=
  match cls c with
  | OGate _ => forallb (xir_param_ok tdm nv) (params c) && is_none (sel c) && is_none (dark c)
  | OMeas k =>
      negb (dag c) &&
      match k, params c with
      | MHom, [phi] => mval_ok phi && optb mval_ok (sel c) && is_none (dark c)
      | MHom, _ => false
      | MFock, [] => optb mval_ok (sel c) && optb mval_ok (dark c)
      | _, [] => optb mval_ok (sel c) && is_none (dark c)
      | _, _ => false
      end
  | OFourier => false
  | OMeta _ => false
  end.

Definition xir_reader (tdm : bool) (nv : nat) : xstmt -> res cmd :=
  if tdm then from_xir_stmt_tdm nv else from_xir_stmt.

Lemma xir_params_plain (l : list val) :
  forallb (xir_param_ok false 0) l = true ->
  map xir_conv_param l = l /\ mapM from_xir_list_param l = Ok l /\ mapM par_convert1 l = Ok l.
Proof.
  induction l as [|v l IH]; simpl; intros H; [repeat split; reflexivity|].
  apply andb_true_iff in H. destruct H as [Hv Hl]. destruct (IH Hl) as [H1 [H2 H3]].
  destruct v as [i|i|s|e|e]; simpl in Hv; try discriminate; simpl; try (destruct s; discriminate).
  - rewrite H1, H2, H3. repeat split; reflexivity.
  - rewrite H1, H2, H3. repeat split; reflexivity.
Qed.

Lemma xir_param_tdm nv v :
  xir_param_ok true nv v = true ->
  bind (tdm_list_val nv (xir_conv_param v)) par_convert1 = Ok v.
Proof.
  destruct v as [i|i|s|e|e]; simpl; intros H; try discriminate; try reflexivity.
  - destruct s; try discriminate. reflexivity.
  - destruct (is_loop_atom_inv nv e H) as [i [-> Hi]]. simpl. rewrite Hi. simpl. reflexivity.
Qed.

Lemma xir_params_tdm nv (l : list val) :
  forallb (xir_param_ok true nv) l = true ->
  bind (mapM (tdm_list_val nv) (map xir_conv_param l)) (mapM par_convert1) = Ok l.
Proof.
  induction l as [|v l IH]; simpl; intros H; [reflexivity|].
  apply andb_true_iff in H. destruct H as [Hv Hl].
  pose proof (xir_param_tdm nv v Hv) as Hx. specialize (IH Hl).
  destruct (tdm_list_val nv (xir_conv_param v)) as [w|]; simpl in Hx; [|discriminate]. simpl.
  destruct (mapM (tdm_list_val nv) (map xir_conv_param l)) as [ws|]; simpl in IH; [|discriminate]. simpl.
  rewrite Hx. simpl. rewrite IH. reflexivity.
Qed.

(* a dictionary value: par_convert, then (TDM reader) the loop-variable lookup, give the value back *)
Lemma mval_dict nv v : mval_ok v = true -> bind (par_convert1 v) (tdm_dict_val nv) = Ok v.
Proof.
  intros H. rewrite (mval_ok_conv v H). simpl.
  destruct v as [i|i|s|e|e]; simpl in *; try reflexivity; try discriminate.
  destruct s; try discriminate. reflexivity.
Qed.

Lemma mval_dict_opt nv (o : option val) :
  optb mval_ok o = true -> bind (optM par_convert1 o) (optM (tdm_dict_val nv)) = Ok o.
Proof.
  destruct o as [v|]; simpl; intros H; [|reflexivity].
  pose proof (mval_dict nv v H) as Hd. rewrite (mval_ok_conv v H) in *. simpl in *. rewrite Hd. reflexivity.
Qed.

(* the homodyne angle as to_xir writes it *)
Definition xir_phi (nv : nat) (phi : val) : val :=
  match phi with
  | VSym e => if is_loop_atom nv e then match e with EAtom (AFree n) => VStr (SName n) | _ => phi end else phi
  | _ => phi
  end.

Lemma xir_phi_tdm nv phi : mval_ok phi = true -> bind (par_convert1 (xir_phi nv phi)) (tdm_dict_val nv) = Ok phi.
Proof.
  intros H. destruct phi as [i|i|s|e|e]; try exact (mval_dict nv _ H).
  unfold xir_phi. destruct (is_loop_atom nv e) eqn:Hl; [|exact (mval_dict nv _ H)].
  destruct (is_loop_atom_inv nv e Hl) as [i [-> Hi]]. simpl. rewrite Hi. reflexivity.
Qed.

Lemma xir_phi_plain phi : xir_phi 0 phi = phi.
Proof.
  destruct phi as [i|i|s|e|e]; try reflexivity.
  destruct e as [a|z|f e|f a b]; try reflexivity. destruct a as [n|m]; try reflexivity. destruct n; reflexivity.
Qed.

Lemma apply_inv_noinv s r : xinv s = false -> apply_inv s r = r.
Proof. intros H. unfold apply_inv. rewrite H. destruct r; reflexivity. Qed.

Lemma stmt_plain_list i l ms d :
  l <> [] ->
  from_xir_stmt (mkX (OGate i) l None None None ms d)
  = apply_inv (mkX (OGate i) l None None None ms d)
      (bind (mapM from_xir_list_param l) (fun l1 => bind (mapM par_convert1 l1) (fun l2 => construct (OGate i) l2 None None ms))).
Proof. destruct l; [intros H; exfalso; apply H; reflexivity | reflexivity]. Qed.

Lemma stmt_tdm_list nv i l ms d :
  l <> [] ->
  from_xir_stmt_tdm nv (mkX (OGate i) l None None None ms d)
  = apply_inv (mkX (OGate i) l None None None ms d)
      (bind (mapM (tdm_list_val nv) l) (fun l1 => bind (mapM par_convert1 l1) (fun l2 => construct (OGate i) l2 None None ms))).
Proof. destruct l; [intros H; exfalso; apply H; reflexivity | reflexivity]. Qed.

Lemma apply_inv_gate i l ms d s :
  xinv s = d -> apply_inv s (Ok (mkCmd (OGate i) l ms false None None)) = Ok (mkCmd (OGate i) l ms d None None).
Proof. intros <-. unfold apply_inv. simpl. destruct (xinv s); reflexivity. Qed.

(* the reader on a measurement statement (no `inv`), in terms of the converted dictionary values *)
Lemma stmt_meas_plain k phi se da ms :
  (k = MHom -> phi <> None) ->
  from_xir_stmt (mkX (OMeas k) [] phi se da ms false)
  = bind (optM par_convert1 phi) (fun phi' => bind (optM par_convert1 se) (fun se' => bind (optM par_convert1 da) (fun da' =>
      construct_meas_kw (OMeas k) phi' se' da' ms))).
Proof.
  intros Hk. unfold from_xir_stmt. rewrite apply_inv_noinv by reflexivity. unfold has_dict. simpl.
  destruct phi as [p|], se as [s|], da as [d|]; try reflexivity.
  all: destruct k; try reflexivity; exfalso; apply Hk; reflexivity.
Qed.

Lemma stmt_meas_tdm nv k phi se da ms phi' se' da' :
  (k = MHom -> phi <> None) ->
  bind (optM par_convert1 phi) (optM (tdm_dict_val nv)) = Ok phi' ->
  bind (optM par_convert1 se) (optM (tdm_dict_val nv)) = Ok se' ->
  bind (optM par_convert1 da) (optM (tdm_dict_val nv)) = Ok da' ->
  from_xir_stmt_tdm nv (mkX (OMeas k) [] phi se da ms false) = construct_meas_kw (OMeas k) phi' se' da' ms.
Proof.
  intros Hk H1 H2 H3. unfold from_xir_stmt_tdm. rewrite apply_inv_noinv by reflexivity.
  unfold has_dict. cbn [xname xphi xsel xdark xlist xwires].
  destruct (optM par_convert1 phi) as [x1|] eqn:E1; cbn [bind] in H1; [|discriminate].
  destruct (optM par_convert1 se) as [x2|] eqn:E2; cbn [bind] in H2; [|discriminate].
  destruct (optM par_convert1 da) as [x3|] eqn:E3; cbn [bind] in H3; [|discriminate].
  destruct phi as [p|], se as [s|], da as [d|].
  all: try (cbn [bind]; rewrite H1, H2, H3; reflexivity).
  all: simpl in *; inversion E1; inversion E2; inversion E3; subst; simpl in *;
       inversion H1; inversion H2; inversion H3; subst;
       destruct k; try reflexivity; exfalso; apply Hk; reflexivity.
Qed.

Lemma xir_cmd_roundtrip tdm nv c :
  xir_cmd_ok tdm nv c = true ->
  (tdm = false -> nv = 0) ->
  xir_reader tdm nv (to_xir_cmd nv c) = Ok c.
Proof.
  destruct c as [cl ps ms dg se da]. unfold xir_cmd_ok. simpl.
  intros H Hnv.
  destruct cl as [i| |k|i]; try discriminate.
  - (* generic operation, possibly daggered *)
    apply andb_true_iff in H. destruct H as [H Hda]. apply andb_true_iff in H. destruct H as [Hp Hse].
    apply is_none_true in Hse. apply is_none_true in Hda. subst se da.
    unfold to_xir_cmd. simpl. destruct tdm.
    + pose proof (xir_params_tdm nv ps Hp) as Hx.
      destruct ps as [|v ps'].
      * unfold xir_reader, from_xir_stmt_tdm. simpl. destruct dg; reflexivity.
      * unfold xir_reader. rewrite stmt_tdm_list by (simpl; discriminate).
        destruct (mapM (tdm_list_val nv) (map xir_conv_param (v :: ps'))) as [l1|]; [|discriminate].
        cbn [bind] in *. rewrite Hx. cbn [bind construct]. apply apply_inv_gate. reflexivity.
    + rewrite (Hnv eq_refl) in *.
      destruct (xir_params_plain ps Hp) as [H1 [H2 H3]]. rewrite H1.
      destruct ps as [|v ps'].
      * unfold xir_reader, from_xir_stmt. simpl. destruct dg; reflexivity.
      * unfold xir_reader. rewrite stmt_plain_list by discriminate.
        rewrite H2. cbn [bind]. rewrite H3. cbn [bind construct]. apply apply_inv_gate. reflexivity.
  - (* measurement *)
    apply andb_true_iff in H. destruct H as [Hd H]. apply negb_true_iff in Hd. subst dg.
    unfold to_xir_cmd. cbn [cls is_meas params sel dark modes].
    assert (Hread : forall phi0 phi da0,
               (k = MHom -> phi0 <> None) ->
               (if tdm then bind (optM par_convert1 phi0) (optM (tdm_dict_val nv)) else optM par_convert1 phi0) = Ok phi ->
               optb mval_ok se = true -> optb mval_ok da0 = true ->
               xir_reader tdm nv (mkX (OMeas k) [] phi0 se da0 ms false) = construct_meas_kw (OMeas k) phi se da0 ms).
    { intros phi0 phi da0 Hk Hphi Hs Hdk. unfold xir_reader. destruct tdm.
      - exact (stmt_meas_tdm nv k phi0 se da0 ms phi se da0 Hk Hphi (mval_dict_opt nv se Hs) (mval_dict_opt nv da0 Hdk)).
      - rewrite stmt_meas_plain by exact Hk. rewrite Hphi. cbn [bind].
        rewrite (optM_conv_plain se Hs). cbn [bind]. rewrite (optM_conv_plain da0 Hdk). reflexivity. }
    destruct k.
    + (* MeasureFock *)
      destruct ps; [|discriminate]. apply andb_true_iff in H. destruct H as [Hse Hda].
      rewrite (Hread None None da); try assumption; try discriminate; [reflexivity | destruct tdm; reflexivity].
    + (* MeasureHomodyne *)
      destruct ps as [|phi ps]; [discriminate|]. destruct ps; [|discriminate].
      apply andb_true_iff in H. destruct H as [H Hda]. apply andb_true_iff in H. destruct H as [Hphi Hse].
      apply is_none_true in Hda. subst da.
      change (match phi with
              | VSym e => if is_loop_atom nv e then match e with EAtom (AFree n) => VStr (SName n) | _ => phi end else phi
              | _ => phi end) with (xir_phi nv phi).
      rewrite (Hread (Some (xir_phi nv phi)) (Some phi) None); try assumption; try reflexivity.
      * intros _. discriminate.
      * destruct tdm.
        -- pose proof (xir_phi_tdm nv phi Hphi) as Hx. simpl.
           destruct (par_convert1 (xir_phi nv phi)) as [w|]; simpl in *; [|discriminate]. rewrite Hx. reflexivity.
        -- rewrite (Hnv eq_refl). rewrite xir_phi_plain. simpl. rewrite (mval_ok_conv phi Hphi). reflexivity.
    + (* MeasureHeterodyne *)
      destruct ps; [|discriminate]. apply andb_true_iff in H. destruct H as [Hse Hda].
      apply is_none_true in Hda. subst da.
      rewrite (Hread None None None); try assumption; try discriminate; try reflexivity. destruct tdm; reflexivity.
    + (* MeasureThreshold *)
      destruct ps; [|discriminate]. apply andb_true_iff in H. destruct H as [Hse Hda].
      apply is_none_true in Hda. subst da.
      rewrite (Hread None None None); try assumption; try discriminate; try reflexivity. destruct tdm; reflexivity.
Qed.

(* ------------------------------------------------------------------ XIR: whole program *)

Lemma to_xir_wires nv (l : list cmd) : all_wires (map (to_xir_cmd nv) l) = flat_map modes l.
Proof.
  unfold all_wires. induction l as [|c l IH]; simpl; [reflexivity|]. rewrite IH. f_equal.
  unfold to_xir_cmd. destruct (is_meas (cls c)); reflexivity.
Qed.

Definition xir_prog_ok (p : prog) : bool :=
  match ptdm p with
  | None =>
      forallb (xir_cmd_ok false 0) (pcirc p)
      && negb (match flat_map modes (pcirc p) with [] => true | _ => false end)
      && Nat.eqb (list_max (flat_map modes (pcirc p)) + 1) (pn p)
  | Some t =>
      is_none (tshift t)
      && forallb (xir_cmd_ok true (length (tarrays t))) (pcirc p)
      && negb (match tN t with [] => true | _ => false end)
      && Nat.eqb (list_sum (tN t)) (pn p)
  end.

Lemma opt_or_none {A} (o : option A) : match o with Some t => Some t | None => None end = o.
Proof. destruct o; reflexivity. Qed.

Lemma xir_roundtrip_ok p : xir_prog_ok p = true -> xir_roundtrip p = Ok p.
Proof.
  destruct p as [n tg sh cu circ td]. unfold xir_prog_ok, xir_roundtrip, to_xir, from_xir. simpl.
  destruct td as [t|]; simpl.
  - destruct t as [N arrs shf]. simpl. intros H.
    apply andb_true_iff in H. destruct H as [H Hn]. apply andb_true_iff in H. destruct H as [H HN].
    apply andb_true_iff in H. destruct H as [Hsh Hc].
    apply is_none_true in Hsh. subst shf. apply Nat.eqb_eq in Hn. subst n.
    destruct N as [|a N']; [discriminate|].
    rewrite mapM_map.
    rewrite (mapM_ext_in _ (fun c => Ok c)).
    + rewrite (mapM_id (fun c => Ok c)); [|intros; reflexivity]. simpl. rewrite opt_or_none. reflexivity.
    + intros c Hin. rewrite forallb_forall in Hc.
      exact (xir_cmd_roundtrip true (length arrs) c (Hc c Hin) (fun E => match Bool.diff_true_false E with end)).
  - intros H.
    apply andb_true_iff in H. destruct H as [H Hn]. apply andb_true_iff in H. destruct H as [Hc Hne].
    apply Nat.eqb_eq in Hn. subst n. unfold from_xir_plain. simpl. rewrite to_xir_wires.
    destruct (flat_map modes circ) as [|w ws] eqn:Hw; [discriminate|].
    rewrite mapM_map.
    rewrite (mapM_ext_in _ (fun c => Ok c)).
    + rewrite (mapM_id (fun c => Ok c)); [reflexivity | intros; reflexivity].
    + intros c Hin. rewrite forallb_forall in Hc.
      exact (xir_cmd_roundtrip false 0 c (Hc c Hin) (fun _ => eq_refl)).
Qed.

(* ------------------------------------------------------------------ XIR: what still never survives *)

Lemma xir_tdm_shift_never_survives p p' :
  xir_roundtrip p = Ok p' -> forall t', ptdm p' = Some t' -> tshift t' = None.
Proof.
  unfold xir_roundtrip, from_xir, to_xir. simpl. intros H.
  destruct (ptdm p) as [t|]; simpl in H.
  - destruct (tN t); [discriminate|].
    destruct (mapM _ _); simpl in H; [|discriminate]. inversion H; subst. simpl.
    intros t' E. inversion E; subst. reflexivity.
  - unfold from_xir_plain in H. simpl in H. destruct (all_wires _); [discriminate|].
    destruct (mapM _ _); simpl in H; [|discriminate]. inversion H; subst. simpl. discriminate.
Qed.

(* a measurement statement is never written with `inv`, so nothing changes for measurements *)
