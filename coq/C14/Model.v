(* Model of the repository's half of program serialisation (strawberryfields/io/blackbird_io.py,
   io/xir_io.py, parameters.py:par_convert) — definitions only.

   What is modelled: the functions between a Program and the IR's operation records
     to_blackbird / from_blackbird / from_blackbird_to_tdm,  to_xir / from_xir / from_xir_to_tdm
   at the level of Python objects (BlackbirdProgram / xir.Program), i.e. `to_program (to_ir p)`.
   The text printers / parsers of the external packages are not modelled (they are exercised end to end
   by the search).  The model follows the source as it is, including the places where it loses data.

   Non-symbolic, non-string Python values (int, float, complex, arrays, lists, bools) are opaque value
   ids [VNum i]: the code passes them through unchanged and never inspects them.  Strings are abstract:
   a literal, the bare name of a symbol, or the printed form of an expression. *)
From Coq Require Import List ZArith Bool Arith.
Import ListNotations.

(* ---------------------------------------------------------------- names, expressions, values *)

(* the name of a free parameter, classified the way the code inspects names *)
Inductive name :=
| NId (i : nat)      (* identifier whose first letter is not 'q' and which is not p<digits> *)
| NP (i : nat)       (* "p<i>" : is_ptype *)
| NQ (k : nat)       (* "q<k>" : first letter 'q', rest digits *)
| NQx (i : nat).     (* first letter 'q', rest not an integer literal *)

Inductive atom :=
| AFree (n : name)   (* sfpar.FreeParameter *)
| AMeas (m : nat).   (* sfpar.MeasuredParameter of register m; as a sympy.Symbol its name is "q<m>" *)

Inductive expr :=
| EAtom (a : atom)
| ENum (v : Z)
| EUn (f : nat) (e : expr)
| EBin (f : nat) (e1 e2 : expr).

Inductive str :=
| SLit (i : nat)          (* a literal string parameter such as "complex"; assumed not p-type and not of the form "{...}" *)
| SName (n : name)        (* the bare name of a symbol *)
| SPrint (e : expr)       (* str(e): FreeParameter printed as {name}, MeasuredParameter as q<m> *)
| SPrintNames (e : expr). (* str(e with every free symbol replaced by a plain symbol of the same name) *)

Inductive val :=
| VNum (i : Z)            (* opaque scalar: int, float, complex, bool (no len()) *)
| VSeq (i : Z)            (* opaque sized value: list, tuple, array *)
| VStr (s : str)
| VSym (e : expr)         (* a sympy expression over SF atoms *)
| VRRT (e : expr).        (* blackbird.RegRefTransform(e) *)

(* ---------------------------------------------------------------- programs *)

Inductive mkind := MFock | MHom | MHet | MThr.

Inductive opclass :=
| OGate (i : nat)     (* any operation class whose constructor takes its parameter list positionally *)
| OFourier            (* Fouriergate: p = [pi/2] but the constructor takes no argument *)
| OMeas (k : mkind)
| OMeta (i : nat).    (* _Delete / _New_modes: class names that are not in ops.__all__ *)

Record cmd := mkCmd {
  cls : opclass; params : list val; modes : list nat; dag : bool;
  sel : option val; dark : option val }.

Record tdm := mkTdm { tN : list nat; tarrays : list Z; tshift : option nat (* None = "default" *) }.

Record prog := mkProg {
  pn : nat;                         (* num_subsystems *)
  ptarget : option nat; pshots : option Z; pcutoff : option Z;
  pcirc : list cmd;
  ptdm : option tdm }.

(* error kinds (Python exception classes) *)
Inductive err := ENameError | ETypeError | EValueError | EIndexError | EAttributeError.
Inductive res (A : Type) := Ok (a : A) | Err (e : err).
Arguments Ok {A} a. Arguments Err {A} e.

Definition bind {A B} (r : res A) (f : A -> res B) : res B :=
  match r with Ok a => f a | Err e => Err e end.

Fixpoint mapM {A B} (f : A -> res B) (l : list A) : res (list B) :=
  match l with
  | [] => Ok []
  | x :: l' => bind (f x) (fun y => bind (mapM f l') (fun ys => Ok (y :: ys)))
  end.

Definition optM {A B} (f : A -> res B) (o : option A) : res (option B) :=
  match o with None => Ok None | Some x => bind (f x) (fun y => Ok (Some y)) end.

(* ---------------------------------------------------------------- expression helpers *)

Fixpoint has_meas (e : expr) : bool :=
  match e with
  | EAtom (AMeas _) => true
  | EAtom (AFree _) => false
  | ENum _ => false
  | EUn _ e => has_meas e
  | EBin _ a b => has_meas a || has_meas b
  end.

Fixpoint has_free (e : expr) : bool :=
  match e with
  | EAtom (AFree _) => true
  | EAtom (AMeas _) => false
  | ENum _ => false
  | EUn _ e => has_free e
  | EBin _ a b => has_free a || has_free b
  end.

Definition name_eqb (a b : name) : bool :=
  match a, b with
  | NId i, NId j => Nat.eqb i j
  | NP i, NP j => Nat.eqb i j
  | NQ i, NQ j => Nat.eqb i j
  | NQx i, NQx j => Nat.eqb i j
  | _, _ => false
  end.

Definition is_ptype_name (n : name) : bool := match n with NP _ => true | _ => false end.

(* par_convert on one symbol: by its *name*; "q<k>" becomes MeasuredParameter(register[k]),
   a name starting with q that is not followed by an integer raises ValueError in int() *)
Definition conv_atom (a : atom) : res atom :=
  match a with
  | AMeas m => Ok (AMeas m)
  | AFree (NQ k) => Ok (AMeas k)
  | AFree (NQx _) => Err EValueError
  | AFree n => Ok (AFree n)
  end.

Fixpoint conv_expr (e : expr) : res expr :=
  match e with
  | EAtom a => bind (conv_atom a) (fun a' => Ok (EAtom a'))
  | ENum v => Ok (ENum v)
  | EUn f e => bind (conv_expr e) (fun e' => Ok (EUn f e'))
  | EBin f a b => bind (conv_expr a) (fun a' => bind (conv_expr b) (fun b' => Ok (EBin f a' b')))
  end.

(* parameters.par_convert, one argument *)
Definition par_convert1 (v : val) : res val :=
  match v with
  | VRRT e => bind (conv_expr e) (fun e' => Ok (VSym e'))
  | VSym e => bind (conv_expr e) (fun e' => Ok (VSym e'))
  | _ => Ok v
  end.

(* ---------------------------------------------------------------- Blackbird IR *)

Record bbop := mkBbop {
  bop : opclass; bargs : list val; bsel : option val; bdark : option val; bmodes : list nat }.

Record bbprog := mkBb {
  bmaxmode : nat;                  (* max(bb.modes) *)
  btarget : option nat; bshots : option Z; bcutoff : option Z;
  bops : list bbop;
  bvars : option (list Z) }.       (* Some arrays  <=>  type tdm, variables p0.. in order *)

Definition is_meas (c : opclass) : bool := match c with OMeas _ => true | _ => false end.

(* blackbird.RegRefTransform.__init__ : int(str(sym)[1:]) for every free symbol of the expression;
   a FreeParameter prints as {name}, so the constructor raises ValueError when one is present *)
Definition bb_conv_param (v : val) : res val :=
  match v with
  | VSym e => if has_meas e then (if has_free e then Err EValueError else Ok (VRRT e))
              else Ok (VStr (SPrint e))
  | _ => Ok v
  end.

(* `if str(p) == str(ar): args[i] = p.name` for every loop variable p = p0 .. p(k-1) *)
Definition tdm_name_of (nvars : nat) (v : val) : val :=
  let is_loop e := match e with EAtom (AFree (NP i)) => if Nat.ltb i nvars then Some i else None | _ => None end in
  match v with
  | VStr (SPrint e) => match is_loop e with Some i => VStr (SName (NP i)) | None => v end
  | VSym e => match is_loop e with Some i => VStr (SName (NP i)) | None => v end
  | VRRT e => v
  | _ => v
  end.

Definition to_bb_cmd (nvars : option nat) (c : cmd) : res bbop :=
  bind (if is_meas (cls c) then Ok (params c) else mapM bb_conv_param (params c)) (fun args =>
  let ksel := if is_meas (cls c) then sel c else None in
  let kdark := match cls c with OMeas MFock => dark c | _ => None end in
  match nvars with
  | None => Ok (mkBbop (cls c) args ksel kdark (modes c))
  | Some k => Ok (mkBbop (cls c) (map (tdm_name_of k) args)
                         (option_map (tdm_name_of k) ksel) (option_map (tdm_name_of k) kdark) (modes c))
  end).

Definition to_bb (p : prog) : res bbprog :=
  let nvars := option_map (fun t => length (tarrays t)) (ptdm p) in
  bind (mapM (to_bb_cmd nvars) (pcirc p)) (fun ops =>
  Ok (mkBb (pn p - 1)
           (ptarget p)
           (match ptarget p with Some _ => pshots p | None => None end)
           (match ptarget p with Some _ => pcutoff p | None => None end)
           ops
           (option_map tarrays (ptdm p)))).

(* calling the operation class: OMeta names are not in ops.__all__; Fouriergate() takes no argument *)
Definition construct (c : opclass) (args : list val) (ksel kdark : option val) (ms : list nat) : res cmd :=
  match c with
  | OMeta _ => Err ENameError
  | OFourier => match args, ksel, kdark with
                | [], None, None => Ok (mkCmd OFourier args ms false None None)
                | _, _, _ => Err ETypeError
                end
  | OGate i => match ksel, kdark with
               | None, None => Ok (mkCmd (OGate i) args ms false None None)
               | _, _ => Err ETypeError
               end
  | OMeas k => match k, kdark with
               | MFock, _ => Ok (mkCmd c args ms false ksel kdark)
               | _, None => Ok (mkCmd c args ms false ksel None)
               | _, Some _ => Err ETypeError
               end
  end.

Definition from_bb_op (o : bbop) : res cmd :=
  bind (mapM par_convert1 (bargs o)) (fun args =>
  bind (optM par_convert1 (bsel o)) (fun ksel =>
  bind (optM par_convert1 (bdark o)) (fun kdark =>
  construct (bop o) args ksel kdark (bmodes o)))).

(* from_blackbird_to_tdm: a string argument that is p-type becomes FreeParameter(that name) first *)
Definition tdm_free_of (v : val) : val :=
  match v with
  | VStr (SName n) => if is_ptype_name n then VSym (EAtom (AFree n)) else v
  | _ => v
  end.

Definition from_bb_op_tdm (o : bbop) : res cmd :=
  from_bb_op (mkBbop (bop o) (map tdm_free_of (bargs o)) (option_map tdm_free_of (bsel o))
                     (option_map tdm_free_of (bdark o)) (bmodes o)).

Definition from_bb (b : bbprog) : res prog :=
  match bvars b with
  | None =>
      bind (mapM from_bb_op (bops b)) (fun cs =>
      Ok (mkProg (bmaxmode b + 1) (btarget b) (bshots b) (bcutoff b) cs None))
  | Some arrays =>
      bind (mapM from_bb_op_tdm (bops b)) (fun cs =>
      Ok (mkProg (bmaxmode b + 1) (btarget b) (bshots b) (bcutoff b) cs
                 (Some (mkTdm [bmaxmode b + 1] arrays None))))
  end.

Definition bb_roundtrip (p : prog) : res prog := bind (to_bb p) from_bb.

(* ---------------------------------------------------------------- XIR *)

Record xstmt := mkX {
  xname : opclass; xlist : list val;                 (* positional parameters (non-measurements) *)
  xphi : option val; xsel : option val; xdark : option val;   (* dictionary parameters (measurements) *)
  xwires : list nat;
  xinv : bool }.                                     (* the statement's `inv` modifier *)

Record xprog := mkXp {
  xtype_tdm : option (list nat * list Z);            (* options _type_ = tdm, N ; constants p0.. *)
  xtarget : option nat;                              (* option key "target" *)
  xtarget_us : option nat;                           (* option key "_target_" (never written by to_xir) *)
  xcutoff : option Z; xshots : option Z;
  xstmts : list xstmt }.

Definition is_loop_atom (nvars : nat) (e : expr) : bool :=
  match e with EAtom (AFree (NP i)) => Nat.ltb i nvars | _ => false end.

(* to_xir on one positional parameter.  Assumes symbolic parameters contain an unbound / unmeasured
   atom, so par_evaluate raises ParameterError and the except branch is taken. *)
Definition xir_conv_param (v : val) : val :=
  match v with
  | VSym (EAtom (AFree n)) => VStr (SName n)         (* loop variable or pure symbol: a.name *)
  | VSym (EAtom (AMeas m)) => VStr (SName (NQ m))    (* MeasuredParameter is a symbol named q<m> *)
  | VSym e => VStr (SPrintNames e)
  | _ => v
  end.

Definition to_xir_cmd (nvars : nat) (c : cmd) : xstmt :=
  if is_meas (cls c) then
    let phi := match params c with
               | [] => None
               | a :: _ => Some (match a with
                                 | VSym e => if is_loop_atom nvars e
                                             then (match e with EAtom (AFree n) => VStr (SName n) | _ => a end) else a
                                 | _ => a end)
               end in
    (* getattr(cmd.op, "dagger", False): measurements have no dagger attribute *)
    mkX (cls c) [] phi (sel c) (match cls c with OMeas MFock => dark c | _ => None end) (modes c) false
  else mkX (cls c) (map xir_conv_param (params c)) None None None (modes c) (dag c).

Definition to_xir (p : prog) : xprog :=
  let nvars := match ptdm p with Some t => length (tarrays t) | None => 0 end in
  mkXp (option_map (fun t => (tN t, tarrays t)) (ptdm p))
       (ptarget p) None (pcutoff p) (pshots p)
       (map (to_xir_cmd nvars) (pcirc p)).

Definition is_str (v : val) : bool := match v with VStr _ => true | _ => false end.

(* from_xir, positional parameters: a str is an Iterable, so it reaches _listr, which raises TypeError *)
Definition from_xir_list_param (v : val) : res val :=
  if is_str v then Err ETypeError else Ok v.

Definition xir_measure_args (s : xstmt) : list val :=
  match xphi s with Some v => [v] | None => [] end.

(* gate called with keyword params for a measurement: phi / select / dark_counts keywords.
   MeasureHomodyne requires phi; the other measurement classes do not accept it. *)
Definition construct_meas_kw (c : opclass) (phi ksel kdark : option val) (ms : list nat) : res cmd :=
  match c with
  | OMeas MHom => match phi with
                  | Some v => construct c [v] ksel kdark ms
                  | None => Err ETypeError
                  end
  | OMeas _ => match phi with
               | None => construct c [] ksel kdark ms
               | Some _ => Err ETypeError
               end
  | _ => Err ETypeError
  end.

(* xir_io._apply: the constructed operation, or its .H when the statement carries `inv`;
   only Gate subclasses have .H (measurements raise AttributeError) *)
Definition apply_inv (s : xstmt) (r : res cmd) : res cmd :=
  bind r (fun c =>
    if xinv s then
      match cls c with
      | OMeas _ => Err EAttributeError
      | _ => Ok (mkCmd (cls c) (params c) (modes c) true (sel c) (dark c))
      end
    else Ok c).

Definition has_dict (s : xstmt) : bool :=
  match xphi s, xsel s, xdark s with None, None, None => false | _, _, _ => true end.

Definition from_xir_stmt (s : xstmt) : res cmd :=
  match xname s with
  | OMeta _ => Err ENameError
  | _ => apply_inv s (
    if has_dict s then
      bind (optM par_convert1 (xphi s)) (fun phi =>
      bind (optM par_convert1 (xsel s)) (fun ksel =>
      bind (optM par_convert1 (xdark s)) (fun kdark =>
      construct_meas_kw (xname s) phi ksel kdark (xwires s))))
    else match xlist s with
         | [] => (* `gate() | regrefs` *)
             match xname s with
             | OMeas MHom => Err ETypeError
             | c => construct c [] None None (xwires s)
             end
         | l => bind (mapM from_xir_list_param l) (fun l1 =>
                bind (mapM par_convert1 l1) (fun l2 =>
                construct (xname s) l2 None None (xwires s)))
         end)
  end.

Fixpoint list_max (l : list nat) : nat := match l with [] => 0 | x :: l' => Nat.max x (list_max l') end.

Definition all_wires (ss : list xstmt) : list nat := flat_map xwires ss.

Definition from_xir_plain (x : xprog) : res prog :=
  match all_wires (xstmts x) with
  | [] => Err EValueError                                 (* "The XIR program is empty" *)
  | ws =>
    bind (mapM from_xir_stmt (xstmts x)) (fun cs =>
    Ok (mkProg (list_max ws + 1) (match xtarget_us x with Some t => Some t | None => xtarget x end)
               (xshots x) (xcutoff x) cs None))
  end.

(* from_xir_to_tdm: a dictionary value that is a str and p-type becomes the loop variable; anything else is kept *)
Definition loop_var (nvars : nat) (n : name) (v : val) : res val :=
  match n with
  | NP i => if Nat.ltb i nvars then Ok (VSym (EAtom (AFree n))) else Err EIndexError   (* p[int(val[1:])] *)
  | _ => Ok v
  end.

Definition tdm_dict_val (nvars : nat) (v : val) : res val :=
  match v with
  | VStr (SName n) => loop_var nvars n v
  | _ => Ok v
  end.

Definition tdm_list_val (nvars : nat) (v : val) : res val :=
  match v with
  | VStr (SName n) => loop_var nvars n v
  | _ => Ok v
  end.

Definition from_xir_stmt_tdm (nvars : nat) (s : xstmt) : res cmd :=
  match xname s with
  | OMeta _ => Err ENameError
  | _ => apply_inv s (
    if has_dict s then
      bind (optM par_convert1 (xphi s)) (fun phi0 =>
      bind (optM par_convert1 (xsel s)) (fun ksel0 =>
      bind (optM par_convert1 (xdark s)) (fun kdark0 =>
      bind (optM (tdm_dict_val nvars) phi0) (fun phi =>
      bind (optM (tdm_dict_val nvars) ksel0) (fun ksel =>
      bind (optM (tdm_dict_val nvars) kdark0) (fun kdark =>
      construct_meas_kw (xname s) phi ksel kdark (xwires s)))))))
    else match xlist s with
         | [] => match xname s with
                 | OMeas MHom => Err ETypeError
                 | c => construct c [] None None (xwires s)
                 end
         | l => bind (mapM (tdm_list_val nvars) l) (fun l1 =>
                bind (mapM par_convert1 l1) (fun l2 =>
                construct (xname s) l2 None None (xwires s)))
         end)
  end.

Fixpoint list_sum (l : list nat) : nat := match l with [] => 0 | x :: l' => x + list_sum l' end.

Definition from_xir (x : xprog) : res prog :=
  match xtype_tdm x with
  | None => from_xir_plain x
  | Some (N, arrays) =>
      match N with
      | [] => Err EValueError
      | _ =>
        bind (mapM (from_xir_stmt_tdm (length arrays)) (xstmts x)) (fun cs =>
        Ok (mkProg (list_sum N) (match xtarget x with Some t => Some t | None => xtarget_us x end)
                   (xshots x) (xcutoff x) cs (Some (mkTdm N arrays None))))
      end
  end.

Definition xir_roundtrip (p : prog) : res prog := from_xir (to_xir p).

(* ---------------------------------------------------------------- to_xir(add_decl=True)
   Declarations are added to the XIR program next to the statements; the statement list is the one of to_xir.
   A gate class is declared once, at its first application, with one formal parameter per element of that
   command's parameter list and wires 0 .. (number of modes - 1); every measurement class gets an output declaration. *)

Definition mkind_eqb (a b : mkind) : bool :=
  match a, b with MFock, MFock | MHom, MHom | MHet, MHet | MThr, MThr => true | _, _ => false end.

Definition opclass_eqb (a b : opclass) : bool :=
  match a, b with
  | OGate i, OGate j => Nat.eqb i j
  | OFourier, OFourier => true
  | OMeas k, OMeas l => mkind_eqb k l
  | OMeta i, OMeta j => Nat.eqb i j
  | _, _ => false
  end.

Record gdecl := mkGdecl { gname : opclass; gparams : nat; gwires : nat }.

Fixpoint gate_decls (seen : list opclass) (cs : list cmd) : list gdecl :=
  match cs with
  | [] => []
  | c :: cs' =>
      if is_meas (cls c) then gate_decls seen cs'
      else if existsb (opclass_eqb (cls c)) seen then gate_decls seen cs'
      else mkGdecl (cls c) (length (params c)) (length (modes c)) :: gate_decls (cls c :: seen) cs'
  end.

Fixpoint out_decl_names (seen : list opclass) (cs : list cmd) : list opclass :=
  match cs with
  | [] => []
  | c :: cs' =>
      if is_meas (cls c) then
        if existsb (opclass_eqb (cls c)) seen then out_decl_names seen cs'
        else cls c :: out_decl_names (cls c :: seen) cs'
      else out_decl_names seen cs'
  end.

Record xfile := mkXfile { xprog_of : xprog; xgate_decls : list gdecl; xout_decls : list opclass }.

Definition to_xir_opt (add_decl : bool) (p : prog) : xfile :=
  if add_decl then mkXfile (to_xir p) (gate_decls [] (pcirc p)) (out_decl_names [] (pcirc p))
  else mkXfile (to_xir p) [] [].

(* the readers never look at declarations *)
Definition xir_roundtrip_opt (add_decl : bool) (p : prog) : res prog := from_xir (xprog_of (to_xir_opt add_decl p)).
