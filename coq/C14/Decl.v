(* to_xir(add_decl=True): declarations do not change what is saved or loaded; gate declarations are duplicate-free
   and cover every applied non-measurement class. *)
From Coq Require Import List ZArith Bool Arith.
Import ListNotations.
From SFV Require Import C14.Model C14.Proofs.

Lemma mkind_eqb_eq a b : mkind_eqb a b = true <-> a = b.
Proof. destruct a, b; simpl; split; intros H; try reflexivity; try discriminate. Qed.

Lemma opclass_eqb_eq a b : opclass_eqb a b = true <-> a = b.
Proof.
  destruct a, b; simpl; split; intros H; try reflexivity; try discriminate.
  - apply Nat.eqb_eq in H. subst. reflexivity.
  - inversion H. apply Nat.eqb_refl.
  - apply mkind_eqb_eq in H. subst. reflexivity.
  - inversion H. apply mkind_eqb_eq. reflexivity.
  - apply Nat.eqb_eq in H. subst. reflexivity.
  - inversion H. apply Nat.eqb_refl.
Qed.

Lemma existsb_opclass c l : existsb (opclass_eqb c) l = true <-> In c l.
Proof.
  rewrite existsb_exists. split.
  - intros [x [Hx He]]. apply opclass_eqb_eq in He. subst. exact Hx.
  - intros H. exists c. split; [exact H | apply opclass_eqb_eq; reflexivity].
Qed.

Lemma xir_statements_same add_decl p : xstmts (xprog_of (to_xir_opt add_decl p)) = xstmts (to_xir p).
Proof. destruct add_decl; reflexivity. Qed.

Lemma xir_roundtrip_opt_same add_decl p : xir_roundtrip_opt add_decl p = xir_roundtrip p.
Proof. destruct add_decl; reflexivity. Qed.

Lemma gate_decls_names seen cs g : In g (gate_decls seen cs) -> ~ In (gname g) seen /\ exists c, In c cs /\ cls c = gname g /\ is_meas (cls c) = false.
Proof.
  revert seen. induction cs as [|c cs IH]; simpl; intros seen H; [destruct H|].
  destruct (is_meas (cls c)) eqn:Hm.
  - destruct (IH seen H) as [H1 [c' [H2 H3]]]. split; [exact H1 | exists c'; split; [right; exact H2 | exact H3]].
  - destruct (existsb (opclass_eqb (cls c)) seen) eqn:He.
    + destruct (IH seen H) as [H1 [c' [H2 H3]]]. split; [exact H1 | exists c'; split; [right; exact H2 | exact H3]].
    + destruct H as [<-|H].
      * simpl. split.
        -- intros Hin. apply existsb_opclass in Hin. rewrite Hin in He. discriminate.
        -- exists c. split; [left; reflexivity | split; [reflexivity | exact Hm]].
      * destruct (IH (cls c :: seen) H) as [H1 [c' [H2 H3]]]. split.
        -- intros Hin. apply H1. right. exact Hin.
        -- exists c'. split; [right; exact H2 | exact H3].
Qed.

Lemma gate_decls_nodup seen cs : NoDup (map gname (gate_decls seen cs)).
Proof.
  revert seen. induction cs as [|c cs IH]; simpl; intros seen; [constructor|].
  destruct (is_meas (cls c)); [apply IH|].
  destruct (existsb (opclass_eqb (cls c)) seen); [apply IH|].
  simpl. constructor; [|apply IH].
  intros Hin. apply in_map_iff in Hin. destruct Hin as [g [Hg Hin]].
  destruct (gate_decls_names _ _ _ Hin) as [Hn _]. apply Hn. left. symmetry. exact Hg.
Qed.

Lemma gate_decls_complete seen cs c :
  In c cs -> is_meas (cls c) = false -> In (cls c) seen \/ In (cls c) (map gname (gate_decls seen cs)).
Proof.
  revert seen. induction cs as [|c0 cs IH]; simpl; intros seen Hin Hm; [destruct Hin|].
  destruct Hin as [->|Hin].
  - rewrite Hm. destruct (existsb (opclass_eqb (cls c)) seen) eqn:He.
    + left. apply existsb_opclass. exact He.
    + right. left. reflexivity.
  - destruct (is_meas (cls c0)); [exact (IH seen Hin Hm)|].
    destruct (existsb (opclass_eqb (cls c0)) seen); [exact (IH seen Hin Hm)|].
    destruct (IH (cls c0 :: seen) Hin Hm) as [[E|H]|H].
    + right. left. exact E.
    + left. exact H.
    + right. right. exact H.
Qed.

Lemma gate_decls_cover cs c :
  In c cs -> is_meas (cls c) = false -> In (cls c) (map gname (gate_decls [] cs)).
Proof. intros H1 H2. destruct (gate_decls_complete [] cs c H1 H2) as [[]|H]. exact H. Qed.

Lemma xir_roundtrip_opt_ok add_decl p : xir_prog_ok p = true -> xir_roundtrip_opt add_decl p = Ok p.
Proof. intros H. rewrite xir_roundtrip_opt_same. exact (xir_roundtrip_ok p H). Qed.

Lemma gate_decls_sound p :
  NoDup (map gname (xgate_decls (to_xir_opt true p)))
  /\ (forall c, In c (pcirc p) -> is_meas (cls c) = false -> In (cls c) (map gname (xgate_decls (to_xir_opt true p))))
  /\ (forall g, In g (xgate_decls (to_xir_opt true p)) -> exists c, In c (pcirc p) /\ cls c = gname g /\ is_meas (cls c) = false).
Proof.
  simpl. split; [apply gate_decls_nodup|]. split.
  - intros c H1 H2. exact (gate_decls_cover _ c H1 H2).
  - intros g Hg. exact (proj2 (gate_decls_names _ _ _ Hg)).
Qed.
